(* Lemmas about Model.Includes (C19).  The file system functions are Section
   variables; the only assumptions are stated as Hypotheses next to the lemmas
   that use them and become premises of the closed statements in props/C19.v. *)
Require Model.Base.
From Coq Require Import ZArith Ascii String.
From stdpp Require Import list strings.
Require Import Model.Includes Spec.IncludesSpec.

Lemma bind_ok {A B} (m : outcome A) (f : A -> outcome B) b :
  Base.bind m f = Ok b -> exists a, m = Ok a /\ f a = Ok b.
Proof. destruct m; simpl; try discriminate. eauto. Qed.

Lemma bind_fuel {A B} (m : outcome A) (f : A -> outcome B) :
  Base.bind m f = OutOfFuel -> m = OutOfFuel \/ exists a, m = Ok a /\ f a = OutOfFuel.
Proof. destruct m; simpl; try discriminate; eauto. Qed.

Section IncludesProofs.
  Context {path : Type} `{EqDecision path}.
  Variable canon : path -> option path.
  Variable is_dir : path -> bool.
  Variable is_file : path -> bool.
  Variable read_dir : path -> option (list path).
  Variable join : path -> path -> path.
  Variable parent : path -> path.
  Variable file_name : path -> option path.
  Variable ext_circom : path -> bool.
  Variable starts_dot : path -> bool.
  Variable has_sep : path -> bool.
  Variable content : path -> file_content path.

  Notation add_library := (add_library canon is_dir ext_circom).
  Notation add_libraries := (add_libraries canon is_dir ext_circom).
  Notation add_files := (add_files canon is_dir read_dir join ext_circom).
  Notation new := (new canon is_dir read_dir join ext_circom).
  Notation add_files_once := (add_files_once canon is_dir read_dir join ext_circom).
  Notation new_all := (new_all canon is_dir read_dir join ext_circom).
  Notation dirs_revisited := (dirs_revisited canon is_dir read_dir join ext_circom).
  Notation search_libraries := (search_libraries canon is_file join file_name starts_dot has_sep).
  Notation include_library := (include_library canon is_file join file_name starts_dot has_sep).
  Notation add_include := (add_include canon is_file join file_name starts_dot has_sep).
  Notation take_next := (take_next parent).
  Notation add_includes := (add_includes canon is_file join file_name starts_dot has_sep).
  Notation parse_file := (parse_file canon is_file join file_name starts_dot has_sep content).
  Notation parse_loop := (parse_loop canon is_file join parent file_name starts_dot has_sep content).
  Notation parse_files :=
    (parse_files canon is_dir is_file read_dir join parent file_name ext_circom starts_dot has_sep content).

  Notation canonical := (canonical canon).
  Notation expands := (expands canon is_dir read_dir join ext_circom).
  Notation lib_offers := (lib_offers canon is_file join file_name starts_dot has_sep).
  Notation resolves := (resolves canon is_file join parent file_name starts_dot has_sep).
  Notation named := (named canon is_dir read_dir join ext_circom).
  Notation reachable := (reachable canon is_file join parent file_name starts_dot has_sep content).
  Notation depth_le := (depth_le is_dir read_dir join).
  Notation relative := (relative canon is_file join parent).

  (* ---------------------------------------------------------------- *)
  (* add_libraries, add_files, new                                    *)
  (* ---------------------------------------------------------------- *)

  Hypothesis canon_idem : forall p c, canon p = Some c -> canon c = Some c.

  Definition lib_ok (l : library) : Prop := lib_dir l = false -> canonical (lib_path l).
  Definition only_os (r : report (path:=path)) : Prop := exists p, r = FileOsError p.

  Lemma add_libraries_ok libs reports :
    Forall only_os reports ->
    Forall lib_ok (add_libraries libs reports).1 /\ Forall only_os (add_libraries libs reports).2.
  Proof.
    unfold Includes.add_libraries. intros Hr.
    assert (G : forall (acc : list library * list report),
               Forall lib_ok acc.1 -> Forall only_os acc.2 ->
               Forall lib_ok (foldl add_library acc libs).1 /\
               Forall only_os (foldl add_library acc libs).2).
    { induction libs as [|p libs IH]; intros acc H1 H2; simpl; [done|].
      apply IH; unfold Includes.add_library; destruct (is_dir p); simpl.
      - apply Forall_app; split; [done|]. constructor; [|done]. intros ?; done.
      - destruct (ext_circom p); [|done]. destruct (canon p) eqn:E; simpl; [|done].
        apply Forall_app; split; [done|]. constructor; [|done]. intros _. simpl. by eapply canon_idem.
      - done.
      - destruct (ext_circom p); [|done]. destruct (canon p) eqn:E; simpl; [done|].
        apply Forall_app; split; [done|]. constructor; [|done]. by eexists. }
    apply G; simpl; [constructor|done].
  Qed.

  (* the result of add_files: the old stack plus the expansions of the paths *)
  Lemma add_files_spec fuel : forall named paths acc r,
    add_files fuel named paths acc = Ok r ->
    (forall c, c ∈ r.1 <-> c ∈ acc.1 \/ exists p, p ∈ paths /\ expands named p c) /\
    (Forall canonical acc.1 -> Forall canonical r.1) /\
    (Forall only_os acc.2 -> Forall only_os r.2).
  Proof.
    induction fuel as [|fuel IHf]; intros named; [discriminate|].
    induction paths as [|p rest IH]; intros acc r Hr; simpl in Hr.
    - inversion Hr; subst. split; [|done]. intros c; split; [auto|].
      intros [?|(p & Hp & _)]; [done|]. by apply elem_of_nil in Hp.
    - destruct (is_dir p) eqn:Ed.
      + destruct (read_dir p) as [names|] eqn:Er.
        * apply bind_ok in Hr as (acc' & Ha & Hr).
          apply IHf in Ha as (Ha1 & Ha2 & Ha3). apply IH in Hr as (Hr1 & Hr2 & Hr3).
          split; [|split; auto]. intros c. rewrite Hr1, Ha1. split.
          -- intros [[?|(q & Hq & He)]|(q & Hq & He)]; [auto| |].
             ++ right. exists p. split; [left|]. apply elem_of_list_fmap in Hq as (n & -> & Hn).
                by eapply expands_dir.
             ++ right. exists q. split; [by right|done].
          -- intros [?|(q & Hq & He)]; [auto|]. apply elem_of_cons in Hq as [->|Hq].
             ++ left. right. inversion He; subst; [congruence|].
                match goal with H : read_dir p = Some _ |- _ => rewrite Er in H; inversion H; subst end.
                eexists; split; [|done]. apply elem_of_list_fmap; eauto.
             ++ right; eauto.
        * apply IH in Hr as (Hr1 & Hr2 & Hr3). split; [|split; auto].
          intros c. rewrite Hr1. split.
          -- intros [?|(q & Hq & He)]; [auto|]. right. exists q; split; [by right|done].
          -- intros [?|(q & Hq & He)]; [auto|]. apply elem_of_cons in Hq as [->|Hq]; [|right; eauto].
             inversion He; subst; congruence.
      + destruct (named || ext_circom p) eqn:Ee.
        * destruct (canon p) as [c0|] eqn:Ec.
          -- apply IH in Hr as (Hr1 & Hr2 & Hr3). simpl in *. split; [|split; auto].
             ++ intros c. rewrite Hr1. rewrite elem_of_cons. split.
                ** intros [[->|?]|(q & Hq & He)]; [|auto|].
                   --- right. exists p. split; [left|]. by apply expands_file.
                   --- right. exists q; split; [by right|done].
                ** intros [?|(q & Hq & He)]; [auto|]. apply elem_of_cons in Hq as [->|Hq]; [|right; eauto].
                   inversion He; subst; [|congruence]. left. left. congruence.
             ++ intros Hc. apply Hr2. constructor; [|done]. by eapply canon_idem.
          -- apply IH in Hr as (Hr1 & Hr2 & Hr3). simpl in *. split; [|split; auto].
             ++ intros c. rewrite Hr1. split.
                ** intros [?|(q & Hq & He)]; [auto|]. right. exists q; split; [by right|done].
                ** intros [?|(q & Hq & He)]; [auto|]. apply elem_of_cons in Hq as [->|Hq]; [|right; eauto].
                   inversion He; subst; congruence.
             ++ intros Ho. apply Hr3. apply Forall_app; split; [done|]. constructor; [by eexists|done].
        * apply IH in Hr as (Hr1 & Hr2 & Hr3). split; [|split; auto].
          intros c. rewrite Hr1. split.
          -- intros [?|(q & Hq & He)]; [auto|]. right. exists q; split; [by right|done].
          -- intros [?|(q & Hq & He)]; [auto|]. apply elem_of_cons in Hq as [->|Hq]; [|right; eauto].
             inversion He; subst; congruence.
  Qed.

  Lemma new_all_spec fuel paths libs st reps :
    new_all fuel paths libs [] = Ok (st, reps) ->
    current_location st = None /\ black_paths st = [] /\
    user_inputs st = stack st /\
    libraries st = (add_libraries libs []).1 /\
    Forall lib_ok (libraries st) /\
    Forall canonical (stack st) /\
    Forall only_os reps /\
    (forall c, c ∈ user_inputs st <-> exists p, p ∈ paths /\ expands true p c).
  Proof.
    unfold Includes.new_all. destruct (add_libraries libs []) as [ls r0] eqn:El.
    intros Hn. apply bind_ok in Hn as (r & Ha & Hn). inversion Hn; subst; simpl.
    pose proof (add_libraries_ok libs [] (Forall_nil_2 _)) as [L1 L2]. rewrite El in L1, L2. simpl in *.
    apply add_files_spec in Ha as (A1 & A2 & A3). simpl in *.
    do 5 (split; [done|]). split; [apply A2; constructor|]. split; [auto|].
    intros c; split.
    - intros Hc. apply A1 in Hc as [Hc|Hc]; [by apply elem_of_nil in Hc|done].
    - intros Hc. apply A1. by right.
  Qed.

  (* ---- the code after 517e7a0: add_files_once ---- *)

  Lemma add_files_once_nil fuel nm dirs acc : add_files_once (S fuel) nm [] dirs acc = Ok (dirs, acc).
  Proof. reflexivity. Qed.

  Lemma add_files_once_unfold fuel nm p rest dirs acc :
    add_files_once (S fuel) nm (p :: rest) dirs acc =
    if is_dir p then
      match canon p with
      | Some d =>
        if decide (d ∈ dirs.1) then add_files_once (S fuel) nm rest (dirs.1, true) acc
        else
          match read_dir p with
          | Some names =>
            Base.bind (add_files_once fuel false (map (join p) names) (d :: dirs.1, dirs.2) acc)
                      (fun r => add_files_once (S fuel) nm rest r.1 r.2)
          | None => add_files_once (S fuel) nm rest (d :: dirs.1, dirs.2) acc
          end
      | None =>
        match read_dir p with
        | Some names =>
          Base.bind (add_files_once fuel false (map (join p) names) dirs acc)
                    (fun r => add_files_once (S fuel) nm rest r.1 r.2)
        | None => add_files_once (S fuel) nm rest dirs acc
        end
      end
    else if nm || ext_circom p then
      match canon p with
      | Some c => add_files_once (S fuel) nm rest dirs (c :: acc.1, acc.2)
      | None => add_files_once (S fuel) nm rest dirs (acc.1, acc.2 ++ [FileOsError p])
      end
    else add_files_once (S fuel) nm rest dirs acc.
  Proof. reflexivity. Qed.

  (* the flag "a directory was met twice" is never cleared *)
  Lemma once_flag_mono fuel : forall nm paths dirs acc r,
    add_files_once fuel nm paths dirs acc = Ok r -> dirs.2 = true -> r.1.2 = true.
  Proof.
    induction fuel as [|k IHk]; intros nm; [discriminate|].
    induction paths as [|p rest IH]; intros dirs acc r H Hf.
    - rewrite add_files_once_nil in H. inversion H; by subst.
    - rewrite add_files_once_unfold in H. destruct (is_dir p).
      + destruct (canon p) as [d|].
        * destruct (decide (d ∈ dirs.1)); [by apply (IH _ _ _ H)|].
          destruct (read_dir p); [|by apply (IH _ _ _ H)].
          apply bind_ok in H as (r1 & H1 & H2). apply (IH _ _ _ H2). by apply (IHk _ _ _ _ _ H1).
        * destruct (read_dir p); [|by apply (IH _ _ _ H)].
          apply bind_ok in H as (r1 & H1 & H2). apply (IH _ _ _ H2). by apply (IHk _ _ _ _ _ H1).
      + destruct (nm || ext_circom p); [destruct (canon p)|]; by apply (IH _ _ _ H).
  Qed.

  Lemma once_flag_false fuel nm paths dirs acc r :
    add_files_once fuel nm paths dirs acc = Ok r -> r.1.2 = false -> dirs.2 = false.
  Proof.
    intros H Hf. destruct (dirs.2) eqn:E; [|done]. apply once_flag_mono in H; [congruence|done].
  Qed.

  (* when no directory was met twice the fix changes nothing: the run computes
     what the code before it computed *)
  Lemma add_files_once_bridge fuel : forall nm paths dirs acc r,
    add_files_once fuel nm paths dirs acc = Ok r -> r.1.2 = false ->
    add_files fuel nm paths acc = Ok r.2.
  Proof.
    induction fuel as [|k IHk]; intros nm; [discriminate|].
    induction paths as [|p rest IH]; intros dirs acc r H Hf.
    - rewrite add_files_once_nil in H. inversion H; by subst.
    - rewrite add_files_once_unfold in H. simpl. destruct (is_dir p).
      + destruct (canon p) as [d|].
        * destruct (decide (d ∈ dirs.1)).
          { apply once_flag_mono in H; [congruence|done]. }
          destruct (read_dir p); [|by apply (IH _ _ _ H)].
          apply bind_ok in H as (r1 & H1 & H2).
          pose proof (once_flag_false _ _ _ _ _ _ H2 Hf) as Hf1.
          rewrite (IHk _ _ _ _ _ H1 Hf1). simpl. by apply (IH _ _ _ H2).
        * destruct (read_dir p); [|by apply (IH _ _ _ H)].
          apply bind_ok in H as (r1 & H1 & H2).
          pose proof (once_flag_false _ _ _ _ _ _ H2 Hf) as Hf1.
          rewrite (IHk _ _ _ _ _ H1 Hf1). simpl. by apply (IH _ _ _ H2).
      + destruct (nm || ext_circom p); [destruct (canon p)|]; by apply (IH _ _ _ H).
  Qed.

  (* without any premise: what is collected is named (the visited set only
     removes), canonical, and the reports are OS errors *)
  Lemma add_files_once_sound fuel : forall nm paths dirs acc r,
    add_files_once fuel nm paths dirs acc = Ok r ->
    (forall c, c ∈ r.2.1 -> c ∈ acc.1 \/ exists p, p ∈ paths /\ expands nm p c) /\
    (forall p c, p ∈ paths -> is_dir p = false -> canon p = Some c -> nm || ext_circom p = true -> c ∈ r.2.1) /\
    (forall c, c ∈ acc.1 -> c ∈ r.2.1) /\
    (Forall canonical acc.1 -> Forall canonical r.2.1) /\
    (Forall only_os acc.2 -> Forall only_os r.2.2).
  Proof.
    induction fuel as [|k IHk]; intros nm; [discriminate|].
    induction paths as [|p rest IH]; intros dirs acc r H.
    - rewrite add_files_once_nil in H. inversion H; subst; simpl.
      split; [auto|]. split; [intros p c Hp; by apply elem_of_nil in Hp|]. auto.
    - rewrite add_files_once_unfold in H.
      assert (Hrest : forall dirs0 acc0, add_files_once (S k) nm rest dirs0 acc0 = Ok r ->
                (forall c, c ∈ acc0.1 -> c ∈ acc.1 \/ exists q, q ∈ p :: rest /\ expands nm q c) ->
                (forall c, is_dir p = false -> canon p = Some c -> nm || ext_circom p = true -> c ∈ acc0.1) ->
                (forall c, c ∈ acc.1 -> c ∈ acc0.1) ->
                (Forall canonical acc.1 -> Forall canonical acc0.1) ->
                (Forall only_os acc.2 -> Forall only_os acc0.2) ->
                (forall c, c ∈ r.2.1 -> c ∈ acc.1 \/ exists q, q ∈ p :: rest /\ expands nm q c) /\
                (forall q c, q ∈ p :: rest -> is_dir q = false -> canon q = Some c -> nm || ext_circom q = true -> c ∈ r.2.1) /\
                (forall c, c ∈ acc.1 -> c ∈ r.2.1) /\
                (Forall canonical acc.1 -> Forall canonical r.2.1) /\
                (Forall only_os acc.2 -> Forall only_os r.2.2)).
      { intros dirs0 acc0 H0 G1 G2 G3 G4 G5. apply IH in H0 as (R1 & R2 & R3 & R4 & R5).
        split; [|split; [|split; [|split]]].
        - intros c Hc. apply R1 in Hc as [Hc|(q & Hq & He)]; [by apply G1|].
          right. exists q. split; [by right|done].
        - intros q c Hq Hd Hc He. apply elem_of_cons in Hq as [->|Hq]; [apply R3; by apply G2|by eapply R2].
        - auto.
        - auto.
        - auto. }
      destruct (is_dir p) eqn:Ed.
      + match goal with |- ?G =>
          assert (Hskip : forall dirs0, add_files_once (S k) nm rest dirs0 acc = Ok r -> G) by
            (intros dirs0 H0; apply (Hrest dirs0 acc H0); [auto|congruence|auto|auto|auto]);
          assert (Hrec : forall names dirs0, read_dir p = Some names ->
                   Base.bind (add_files_once k false (map (join p) names) dirs0 acc)
                             (fun r0 => add_files_once (S k) nm rest r0.1 r0.2) = Ok r -> G)
        end.
        { intros names dirs0 Er H0. apply bind_ok in H0 as (r1 & H1 & H2).
          apply IHk in H1 as (A1 & A2 & A3 & A4 & A5).
          apply (Hrest _ _ H2); [|congruence|auto|auto|auto].
          intros c Hc. apply A1 in Hc as [Hc|(q & Hq & He)]; [auto|].
          right. exists p. split; [left|]. apply elem_of_list_fmap in Hq as (n & -> & Hn). by eapply expands_dir. }
        destruct (canon p) as [d|].
        * destruct (decide (d ∈ dirs.1)); [by eapply Hskip|].
          destruct (read_dir p) as [names|] eqn:Er; [by eapply Hrec|by eapply Hskip].
        * destruct (read_dir p) as [names|] eqn:Er; [by eapply Hrec|by eapply Hskip].
      + destruct (nm || ext_circom p) eqn:Ee.
        * destruct (canon p) as [c0|] eqn:Ec.
          -- apply (Hrest _ _ H); simpl.
             ++ intros c Hc. apply elem_of_cons in Hc as [->|Hc]; [|auto].
                right. exists p. split; [left|]. by apply expands_file.
             ++ intros c _ Hc _. inversion Hc; subst. left.
             ++ intros c Hc. by right.
             ++ intros Hc. constructor; [by eapply canon_idem|done].
             ++ auto.
          -- apply (Hrest _ _ H); simpl; [auto|congruence|auto|auto|].
             intros Ho. apply Forall_app; split; [done|]. constructor; [by eexists|done].
        * apply (Hrest _ _ H); [auto|congruence|auto|auto|auto].
  Qed.

  Lemma new_is_new_all fuel paths libs st reps :
    new fuel paths libs [] = Ok (st, reps) -> dirs_revisited fuel paths libs = false ->
    new_all fuel paths libs [] = Ok (st, reps).
  Proof.
    unfold Includes.new, Includes.new_all, Includes.dirs_revisited.
    destruct (add_libraries libs []) as [ls r0] eqn:El. simpl.
    intros Hn Hf. apply bind_ok in Hn as (r & Ha & Hn). rewrite Ha in Hf.
    rewrite (add_files_once_bridge _ _ _ _ _ _ Ha Hf). simpl. exact Hn.
  Qed.

  (* everything about FileStack::new that needs no premise *)
  Lemma new_spec_weak fuel paths libs st reps :
    new fuel paths libs [] = Ok (st, reps) ->
    current_location st = None /\ black_paths st = [] /\
    user_inputs st = stack st /\
    libraries st = (add_libraries libs []).1 /\
    Forall lib_ok (libraries st) /\
    Forall canonical (stack st) /\
    Forall only_os reps /\
    (forall c, c ∈ user_inputs st -> exists p, p ∈ paths /\ expands true p c) /\
    (forall p c, p ∈ paths -> is_dir p = false -> canon p = Some c -> c ∈ user_inputs st).
  Proof.
    unfold Includes.new. destruct (add_libraries libs []) as [ls r0] eqn:El.
    intros Hn. apply bind_ok in Hn as (r & Ha & Hn). inversion Hn; subst; simpl.
    pose proof (add_libraries_ok libs [] (Forall_nil_2 _)) as [L1 L2]. rewrite El in L1, L2. simpl in *.
    apply add_files_once_sound in Ha as (A1 & A2 & A3 & A4 & A5). simpl in *.
    do 5 (split; [done|]). split; [apply A4; constructor|]. split; [auto|]. split.
    - intros c Hc. apply A1 in Hc as [Hc|Hc]; [by apply elem_of_nil in Hc|done].
    - intros p c Hp Hd Hc. by eapply A2.
  Qed.

  (* with the premise that no directory was met twice: the user-input set is
     exactly what the command line names *)
  Lemma new_spec fuel paths libs st reps :
    new fuel paths libs [] = Ok (st, reps) ->
    dirs_revisited fuel paths libs = false ->
    current_location st = None /\ black_paths st = [] /\
    user_inputs st = stack st /\
    libraries st = (add_libraries libs []).1 /\
    Forall lib_ok (libraries st) /\
    Forall canonical (stack st) /\
    Forall only_os reps /\
    (forall c, c ∈ user_inputs st <-> exists p, p ∈ paths /\ expands true p c).
  Proof. intros Hn Hf. eapply new_all_spec. by apply new_is_new_all. Qed.

  (* ---------------------------------------------------------------- *)
  (* include resolution                                               *)
  (* ---------------------------------------------------------------- *)

  Notation no_offer inc := (fun l' : library => forall c', ~ lib_offers inc l' c').

  Lemma search_libraries_spec inc : forall libs r,
    search_libraries false inc libs = Ok r ->
    match r with
    | Some c => exists l1 l l2, libs = l1 ++ l :: l2 /\ Forall (no_offer inc) l1 /\ lib_offers inc l c
    | None => Forall (no_offer inc) libs
    end.
  Proof.
    induction libs as [|l libs IH]; intros r Hr; simpl in Hr.
    - inversion Hr; subst. constructor.
    - assert (Hskip : no_offer inc l ->
                      search_libraries false inc libs = Ok r ->
                      match r with
                      | Some c => exists l1 l0 l2, l :: libs = l1 ++ l0 :: l2 /\ Forall (no_offer inc) l1 /\ lib_offers inc l0 c
                      | None => Forall (no_offer inc) (l :: libs)
                      end).
      { intros Hno Hs. apply IH in Hs. destruct r as [c|].
        - destruct Hs as (l1 & l0 & l2 & -> & Hf & Ho). exists (l :: l1), l0, l2. repeat split; [|done]. by constructor.
        - by constructor. }
      destruct (lib_dir l) eqn:Ed.
      + destruct (starts_dot inc) eqn:Es.
        * apply Hskip; [|done]. intros c' Ho. inversion Ho; subst; congruence.
        * destruct (canon (join (lib_path l) inc)) as [c|] eqn:Ec.
          -- destruct (is_file c) eqn:Ef.
             ++ inversion Hr; subst. exists [], l, libs. repeat split; [constructor|]. by apply offers_dir.
             ++ apply Hskip; [|done]. intros c' Ho. inversion Ho; subst; congruence.
          -- apply Hskip; [|done]. intros c' Ho. inversion Ho; subst; congruence.
      + destruct (has_sep inc) eqn:Es.
        * apply Hskip; [|done]. intros c' Ho. inversion Ho; subst; congruence.
        * destruct (file_name (lib_path l)) as [n|] eqn:En; [|discriminate].
          destruct (decide (n = inc)) as [->|Hne].
          -- inversion Hr; subst. exists [], l, libs. repeat split; [constructor|]. by apply offers_file.
          -- apply Hskip; [|done]. intros c' Ho. inversion Ho; subst; congruence.
  Qed.

  Lemma lib_offers_canonical inc l c : lib_ok l -> lib_offers inc l c -> canonical c.
  Proof. intros Hl Ho. inversion Ho; subst; [by eapply canon_idem|by apply Hl]. Qed.

  Lemma resolves_canonical cur libs inc c :
    Forall lib_ok libs -> resolves cur libs inc (Some c) -> canonical c.
  Proof.
    intros Hl Hr. inversion Hr as [c0 Hrel| |]; subst.
    { unfold IncludesSpec.relative in Hrel. destruct (canon _) as [c1|] eqn:Ec; [|discriminate].
      destruct (is_file c1); inversion Hrel; subst. by eapply canon_idem. }
    eapply lib_offers_canonical; [|done]. rewrite Forall_forall in Hl. apply Hl.
    apply elem_of_app; right; left.
  Qed.

  Lemma lib_offers_fun inc l c c' : lib_offers inc l c -> lib_offers inc l c' -> c = c'.
  Proof. intros H1 H2. inversion H1; inversion H2; subst; congruence. Qed.

  Lemma resolves_fun cur libs inc r r' : resolves cur libs inc r -> resolves cur libs inc r' -> r = r'.
  Proof.
    intros H1 H2. inversion H1 as [c Hc|l1 l l2 c Hc -> Hf Ho|Hc Hf]; subst;
      inversion H2 as [c' Hc'|l1' l' l2' c' Hc' E' Hf' Ho'|Hc' Hf']; subst; try congruence.
    - f_equal. clear H1 H2 Hc Hc'. revert l1' E' Hf'. induction l1 as [|a l1 IH]; intros l1' E' Hf'.
      + destruct l1' as [|a' l1']; simpl in E'; inversion E'; subst; [by eapply lib_offers_fun|].
        inversion Hf'; subst. exfalso; naive_solver.
      + destruct l1' as [|a' l1']; simpl in E'; inversion E'; subst.
        * inversion Hf; subst. exfalso; naive_solver.
        * inversion Hf; inversion Hf'; subst. eauto.
    - exfalso. rewrite Forall_forall in Hf'. eapply (Hf' l); [|done]. apply elem_of_app; right; left.
    - exfalso. rewrite Forall_forall in Hf. eapply (Hf l'); [|done]. apply elem_of_app; right; left.
  Qed.

  Definition include_error (inc : include (path:=path)) : report :=
    IncludeError (inc_path inc) (inc_file inc) (inc_start inc) (inc_end inc).

  (* resolution order: what add_include does with one include statement *)
  Lemma add_include_spec st inc cur st' rep :
    current_location st = Some (parent cur) ->
    add_include false st inc = Ok (st', rep) ->
    exists r, resolves cur (libraries st) (inc_path inc) r /\
      match r with
      | Some c => rep = None /\ (st' = push c st \/ (c ∈ black_paths st /\ st' = st))
      | None => rep = Some (include_error inc) /\ st' = st
      end.
  Proof.
    unfold Includes.add_include. intros -> Ha.
    assert (Hrel : relative cur (inc_path inc) =
                   match canon (join (parent cur) (inc_path inc)) with
                   | Some c => if is_file c then Some c else None | None => None end) by reflexivity.
    destruct (relative cur (inc_path inc)) as [c|] eqn:Er.
    - destruct (canon (join (parent cur) (inc_path inc))) as [c1|]; [|discriminate].
      destruct (is_file c1); inversion Hrel; subst c1.
      exists (Some c). split; [by apply resolves_relative|].
      destruct (decide (c ∈ black_paths st)); inversion Ha; subst; auto.
    - assert (Ha' : include_library false st inc = Ok (st', rep)).
      { destruct (canon (join (parent cur) (inc_path inc))) as [c1|]; [|done]. by destruct (is_file c1). }
      clear Ha Hrel. rename Ha' into Ha. unfold Includes.include_library in Ha. apply bind_ok in Ha as (r & Hs & Ha).
      apply search_libraries_spec in Hs. destruct r as [c|]; inversion Ha; subst.
      + destruct Hs as (l1 & l & l2 & E & Hf & Ho). exists (Some c). split; [by eapply resolves_library|auto].
      + exists None. split; [by apply resolves_nowhere|done].
  Qed.

  Definition same_but_stack (st st' : file_stack (path:=path)) : Prop :=
    current_location st' = current_location st /\ black_paths st' = black_paths st /\
    user_inputs st' = user_inputs st /\ libraries st' = libraries st.

  Lemma add_includes_spec cur : forall incs st warnings st' ws,
    current_location st = Some (parent cur) -> Forall lib_ok (libraries st) ->
    Forall canonical (stack st) ->
    add_includes false st incs warnings = Ok (st', ws) ->
    same_but_stack st st' /\ Forall canonical (stack st') /\
    (forall x, x ∈ stack st -> x ∈ stack st') /\
    (forall x, x ∈ stack st' -> x ∈ stack st \/
               exists inc, inc ∈ incs /\ resolves cur (libraries st) (inc_path inc) (Some x)) /\
    exists news, ws = warnings ++ news /\
      Forall (fun r => exists inc, inc ∈ incs /\ r = include_error inc /\
                                   resolves cur (libraries st) (inc_path inc) None) news /\
      (forall inc, inc ∈ incs -> resolves cur (libraries st) (inc_path inc) None -> include_error inc ∈ news) /\
      (forall inc c, inc ∈ incs -> resolves cur (libraries st) (inc_path inc) (Some c) ->
                     c ∈ stack st' \/ c ∈ black_paths st).
  Proof.
    induction incs as [|inc incs IH]; intros st warnings st' ws Hloc Hlibs Hstk Ha; simpl in Ha.
    - inversion Ha; subst. split; [done|]. split; [done|]. split; [done|]. split; [by left|]. exists []. rewrite app_nil_r.
      split; [done|]. split; [constructor|]. split; [intros i Hi|intros i c Hi]; by apply elem_of_nil in Hi.
    - apply bind_ok in Ha as ([st1 rep] & H1 & Ha). simpl in Ha.
      eapply add_include_spec in H1 as (r & Hres & Hm); [|done].
      assert (S1 : same_but_stack st st1 /\ Forall canonical (stack st1) /\
                   (forall x, x ∈ stack st -> x ∈ stack st1) /\
                   (forall x, x ∈ stack st1 -> x ∈ stack st \/ r = Some x)).
      { destruct r as [c|].
        - destruct Hm as (_ & [->|[_ ->]]); [|unfold same_but_stack; repeat split; auto]. split; [done|]. split; [|split; [by intros; right|]].
          + simpl. constructor; [|done]. by eapply resolves_canonical.
          + simpl. intros x Hx. apply elem_of_cons in Hx as [->|Hx]; auto.
        - destruct Hm as (_ & ->). unfold same_but_stack; repeat split; auto. }
      destruct S1 as ((L1 & L2 & L3 & L4) & C1 & M1 & N1).
      apply IH in Ha as ((K1 & K2 & K3 & K4) & C2 & M2 & N2 & news & -> & F & Cmp & Rch);
        [|congruence|by rewrite L4|done].
      rewrite L4 in *. rewrite L2 in *.
      split; [unfold same_but_stack; repeat split; congruence|]. split; [done|]. split; [by auto|].
      split.
      { intros x Hx. apply N2 in Hx as [Hx|(i & Hi & Hr)].
        - apply N1 in Hx as [Hx| ->]; [by left|]. right. exists inc. split; [left|done].
        - right. exists i. split; [by right|done]. }
      destruct r as [c|].
      + destruct Hm as (-> & Hst). exists news. split; [done|]. split; [|split].
        * eapply Forall_impl; [done|]. intros r (i & Hi & -> & Hr). exists i. split; [by right|done].
        * intros i Hi Hr. apply elem_of_cons in Hi as [->|Hi]; [|by auto].
          pose proof (resolves_fun _ _ _ _ _ Hres Hr). discriminate.
        * intros i c' Hi Hr. apply elem_of_cons in Hi as [->|Hi]; [|by eauto].
          pose proof (resolves_fun _ _ _ _ _ Hres Hr) as E. inversion E; subst c'.
          destruct Hst as [->|[Hb _]]; [|by right]. left. apply M2. left.
      + destruct Hm as (-> & ->). exists (include_error inc :: news). split; [by rewrite <- app_assoc|].
        split; [|split].
        * constructor; [exists inc; split; [left|done]|].
          eapply Forall_impl; [done|]. intros r (i & Hi & -> & Hr). exists i. split; [by right|done].
        * intros i Hi Hr. apply elem_of_cons in Hi as [->|Hi]; [left|right; by auto].
        * intros i c' Hi Hr. apply elem_of_cons in Hi as [->|Hi]; [|by eauto].
          pose proof (resolves_fun _ _ _ _ _ Hres Hr). discriminate.
  Qed.

  (* ---------------------------------------------------------------- *)
  (* take_next                                                        *)
  (* ---------------------------------------------------------------- *)

  Lemma pop_next_spec (black : list path) : forall stk p rest,
    pop_next black stk = Some (p, rest) ->
    p ∉ black /\ p ∈ stk /\ (forall x, x ∈ rest -> x ∈ stk) /\
    (forall x, x ∈ stk -> x ∈ black \/ x = p \/ x ∈ rest).
  Proof.
    induction stk as [|q stk IH]; intros p rest Hp; simpl in Hp; [discriminate|].
    destruct (decide (q ∈ black)).
    - apply IH in Hp as (A & B & C & D). split; [done|]. split; [by right|]. split; [intros; right; auto|].
      intros x Hx. apply elem_of_cons in Hx as [->|Hx]; auto.
    - inversion Hp; subst. split; [done|]. split; [left|]. split; [intros; by right|].
      intros x Hx. apply elem_of_cons in Hx as [->|Hx]; auto.
  Qed.

  Lemma pop_next_none (black : list path) : forall stk, pop_next black stk = None -> forall x, x ∈ stk -> x ∈ black.
  Proof.
    induction stk as [|q stk IH]; intros Hp x Hx; [by apply elem_of_nil in Hx|]. simpl in Hp.
    destruct (decide (q ∈ black)); [|discriminate]. apply elem_of_cons in Hx as [->|Hx]; auto.
  Qed.

  (* ---------------------------------------------------------------- *)
  (* the parse_files loop                                             *)
  (* ---------------------------------------------------------------- *)

  Section Loop.
    Variable libs0 : list (library (path:=path)).
    Variable ui : list path.
    Hypothesis libs0_ok : Forall lib_ok libs0.

    Notation reach := (reachable (fun c => c ∈ ui) libs0).

    Record inv (s : parse_state (path:=path)) : Prop := Inv {
      inv_libs : libraries (ps_stack s) = libs0;
      inv_ui : user_inputs (ps_stack s) = ui;
      inv_stack : Forall canonical (stack (ps_stack s));
      inv_black : black_paths (ps_stack s) = reverse (ps_read s);
      inv_nodup : NoDup (ps_read s);
      inv_read : Forall canonical (ps_read s);
      inv_files : Forall (fun fu : path * bool => fu.2 = bool_decide (fu.1 ∈ ui)) (ps_files s);
      inv_reports : forall p fid a b, IncludeError p fid a b ∈ ps_reports s ->
        exists i f u incs, fid = Some i /\ ps_files s !! i = Some (f, u) /\
                           content f = Parsed incs /\ (p, a, b) ∈ incs /\ resolves f libs0 p None;
      inv_errors : forall f incs x, f ∈ ps_read s -> content f = Parsed incs -> x ∈ incs ->
        resolves f libs0 x.1.1 None ->
        exists i u, ps_files s !! i = Some (f, u) /\ IncludeError x.1.1 (Some i) x.1.2 x.2 ∈ ps_reports s;
      inv_sound : forall c, c ∈ stack (ps_stack s) \/ c ∈ ps_read s -> reach c;
      inv_named : forall c, c ∈ ui -> c ∈ stack (ps_stack s) \/ c ∈ ps_read s;
      inv_closed : forall f incs x c, f ∈ ps_read s -> content f = Parsed incs -> x ∈ incs ->
        resolves f libs0 x.1.1 (Some c) -> c ∈ stack (ps_stack s) \/ c ∈ ps_read s;
      inv_files_read : forall f u, (f, u) ∈ ps_files s -> f ∈ ps_read s;
    }.

    Lemma parse_file_not_oof d p s : parse_file d p s <> OutOfFuel.
    Proof.
      assert (S : forall inc libs, search_libraries d inc libs <> OutOfFuel).
      { intros inc. induction libs as [|l libs IH]; simpl; [done|].
        destruct (lib_dir l); [destruct (starts_dot inc); [done|]; destruct (canon _) as [c|]; [|done]; by destruct (is_file c)|].
        destruct (has_sep inc); [done|]. destruct (file_name _); [|done]. by destruct (decide _). }
      assert (A : forall st inc, add_include d st inc <> OutOfFuel).
      { intros st inc. unfold Includes.add_include. destruct (current_location st); [|done].
        assert (L : include_library d st inc <> OutOfFuel).
        { unfold Includes.include_library.
          destruct (search_libraries d (inc_path inc) (libraries st)) as [[?|]| | |] eqn:E; simpl; try done.
          by apply S in E. }
        destruct (canon _) as [c|]; [|done]. by destruct (is_file c). }
      assert (B : forall incs st ws, add_includes d st incs ws <> OutOfFuel).
      { induction incs as [|inc incs IH]; intros st ws; simpl; [done|].
        destruct (add_include d st inc) eqn:E; simpl; try done. by apply A in E. }
      unfold Includes.parse_file. destruct (content p); try done.
      destruct (add_includes _ _ _ _) eqn:E; simpl; try done. by apply B in E.
    Qed.

    Lemma take_next_none s st :
      inv s -> take_next (ps_stack s) = (None, st) ->
      inv (ParseState st (ps_files s) (ps_reports s) (ps_read s)) /\ stack st = [].
    Proof.
      intros I. unfold Includes.take_next. destruct (pop_next _ _) as [[p rest]|] eqn:E; [discriminate|].
      intros Ht; inversion Ht; subst; clear Ht. split; [|done].
      pose proof (pop_next_none _ _ E) as Hb. destruct I. rewrite inv_black0 in Hb.
      constructor; simpl; try done.
      - intros c [Hc|Hc]; [by apply elem_of_nil in Hc|]. auto.
      - intros c Hc. right. apply inv_named0 in Hc as [Hc|Hc]; [|done]. apply Hb in Hc. by rewrite elem_of_reverse in Hc.
      - intros f incs x c Hf Hc Hx Hr. right.
        destruct (inv_closed0 f incs x c Hf Hc Hx Hr) as [H1|H1]; [|done]. apply Hb in H1. by rewrite elem_of_reverse in H1.
    Qed.

    Lemma parse_step s p st s' :
      inv s -> take_next (ps_stack s) = (Some p, st) ->
      parse_file false p (ParseState st (ps_files s) (ps_reports s) (ps_read s)) = Ok s' ->
      inv s' /\ ps_read s' = ps_read s ++ [p].
    Proof.
      intros I. unfold Includes.take_next. destruct (pop_next _ _) as [[p0 rest]|] eqn:E; [|discriminate].
      intros Ht; inversion Ht; subst p0 st; clear Ht.
      apply pop_next_spec in E as (Hnb & Hin & Hrest & Hcover).
      destruct I as [Il Iu Is Ib In Ir If Irep Ierr Isnd Inam Icl Ifr].
      rewrite Ib in Hnb, Hcover.
      assert (Hpr : p ∉ ps_read s) by (intros Hx; apply Hnb; by rewrite elem_of_reverse).
      assert (Hpc : canonical p) by (rewrite Forall_forall in Is; auto).
      assert (Hrc : Forall canonical rest) by (rewrite Forall_forall in *; auto).
      assert (Hnd : NoDup (ps_read s ++ [p])).
      { apply NoDup_app. split; [done|]. split; [|apply NoDup_singleton].
        intros x Hx Hp. apply elem_of_list_singleton in Hp as ->. done. }
      assert (Hcv : forall c, c ∈ stack (ps_stack s) \/ c ∈ ps_read s -> c ∈ rest \/ c ∈ ps_read s ++ [p]).
      { intros c [Hc|Hc]; [|right; apply elem_of_app; by left].
        apply Hcover in Hc as [Hc|[->|Hc]]; [right|right|by left].
        - apply elem_of_app; left. by rewrite elem_of_reverse in Hc.
        - apply elem_of_app; right; left. }
      assert (Hrp : reach p) by (apply Isnd; by left).
      assert (Hlk : forall i (e e' : path * bool), ps_files s !! i = Some e -> (ps_files s ++ [e']) !! i = Some e).
      { intros i e e' Hi. by apply lookup_app_l_Some. }
      unfold Includes.parse_file. simpl. destruct (content p) as [| |incs] eqn:Ec.
      - (* unreadable *)
        intros Hs; inversion Hs; subst; clear Hs. split; [|done]. constructor; simpl.
        + done.
        + done.
        + done.
        + by rewrite reverse_snoc, Ib.
        + done.
        + apply Forall_app; split; [done|]. by constructor.
        + done.
        + intros q fid a b Hq. apply elem_of_app in Hq as [Hq|Hq]; [by apply Irep|].
          apply elem_of_list_singleton in Hq. discriminate.
        + intros f incs x Hf Hc Hx Hr. apply elem_of_app in Hf as [Hf|Hf].
          * destruct (Ierr f incs x Hf Hc Hx Hr) as (i & u & H1 & H2). exists i, u. split; [done|].
            apply elem_of_app; by left.
          * apply elem_of_list_singleton in Hf as ->. congruence.
        + intros c [Hc|Hc]; [apply Isnd; left; auto|].
          apply elem_of_app in Hc as [Hc|Hc]; [apply Isnd; by right|]. by apply elem_of_list_singleton in Hc as ->.
        + intros c Hc. apply Hcv. by apply Inam.
        + intros f incs x c Hf Hc Hx Hr. apply elem_of_app in Hf as [Hf|Hf].
          * apply Hcv. by eapply Icl.
          * apply elem_of_list_singleton in Hf as ->. congruence.
        + intros f u Hf. apply elem_of_app; left. by eapply Ifr.
      - (* parse error *)
        intros Hs; inversion Hs; subst; clear Hs. split; [|done]. constructor; simpl.
        + done.
        + done.
        + done.
        + by rewrite reverse_snoc, Ib.
        + done.
        + apply Forall_app; split; [done|]. by constructor.
        + apply Forall_app; split; [done|]. constructor; [|done]. simpl. unfold Includes.is_user_input. simpl. by rewrite Iu.
        + intros q fid a b Hq. apply elem_of_app in Hq as [Hq|Hq].
          * destruct (Irep q fid a b Hq) as (i & f & u & incs & -> & H1 & H2). exists i, f, u, incs. split; [done|]. split; [by apply Hlk|done].
          * apply elem_of_list_singleton in Hq. discriminate.
        + intros f incs x Hf Hc Hx Hr. apply elem_of_app in Hf as [Hf|Hf].
          * destruct (Ierr f incs x Hf Hc Hx Hr) as (i & u & H1 & H2). exists i, u. split; [by apply Hlk|].
            apply elem_of_app; by left.
          * apply elem_of_list_singleton in Hf as ->. congruence.
        + intros c [Hc|Hc]; [apply Isnd; left; auto|].
          apply elem_of_app in Hc as [Hc|Hc]; [apply Isnd; by right|]. by apply elem_of_list_singleton in Hc as ->.
        + intros c Hc. apply Hcv. by apply Inam.
        + intros f incs x c Hf Hc Hx Hr. apply elem_of_app in Hf as [Hf|Hf].
          * apply Hcv. by eapply Icl.
          * apply elem_of_list_singleton in Hf as ->. congruence.
        + intros f u Hf. apply elem_of_app in Hf as [Hf|Hf]; [apply elem_of_app; left; by eapply Ifr|].
          apply elem_of_list_singleton in Hf. inversion Hf; subst. apply elem_of_app; right; left.
      - (* parsed: the includes are pushed *)
        intros Hs. apply bind_ok in Hs as ([st' ws] & Ha & Hs). inversion Hs; subst; clear Hs. simpl.
        eapply (add_includes_spec p) in Ha as ((S1 & S2 & S3 & S4) & C & M & N & news & Ews & F & Cmp & Rch);
          [|done|simpl; by rewrite Il|done].
        simpl in *. subst ws. rewrite Il in *.
        set (fid := length (ps_files s)) in *.
        assert (Hfid : forall e, (ps_files s ++ [e]) !! fid = Some e).
        { intros e. unfold fid. by rewrite lookup_app_r, Nat.sub_diag. }
        split; [|done]. constructor; simpl.
        + congruence.
        + congruence.
        + done.
        + by rewrite S2, reverse_snoc, Ib.
        + done.
        + apply Forall_app; split; [done|]. by constructor.
        + apply Forall_app; split; [done|]. constructor; [|done]. simpl. unfold Includes.is_user_input. simpl. by rewrite Iu.
        + intros q fid' a b Hq. apply elem_of_app in Hq as [Hq|Hq].
          * destruct (Irep q fid' a b Hq) as (i & f & u & incs' & -> & H1 & H2). exists i, f, u, incs'. split; [done|]. split; [by apply Hlk|done].
          * rewrite Forall_forall in F. apply F in Hq as (inc & Hi & Heq & Hr).
            apply elem_of_list_fmap in Hi as (x & -> & Hx). destruct x as [[q' a'] b'].
            unfold include_error, Includes.mk_include in Heq. simpl in *. inversion Heq; subst q fid' a b.
            eexists fid, p, _, incs. split; [done|].
            split; [apply Hfid|done].
        + intros f incs' x Hf Hc Hx Hr. apply elem_of_app in Hf as [Hf|Hf].
          * destruct (Ierr f incs' x Hf Hc Hx Hr) as (i & u & H1 & H2). exists i, u. split; [by apply Hlk|].
            apply elem_of_app; by left.
          * apply elem_of_list_singleton in Hf as ->. rewrite Ec in Hc. inversion Hc; subst incs'.
            eexists fid, _.
            split; [apply Hfid|]. apply elem_of_app; right.
            apply (Cmp (mk_include fid x)); [|done]. apply elem_of_list_fmap. eauto.
        + intros c [Hc|Hc].
          * apply N in Hc as [Hc|(inc & Hi & Hr)]; [apply Isnd; left; auto|].
            apply elem_of_list_fmap in Hi as (x & -> & Hx). by eapply reach_include.
          * apply elem_of_app in Hc as [Hc|Hc]; [apply Isnd; by right|]. by apply elem_of_list_singleton in Hc as ->.
        + intros c Hc. destruct (Hcv c (Inam c Hc)) as [H1|H1]; auto.
        + intros f incs' x c Hf Hc Hx Hr. apply elem_of_app in Hf as [Hf|Hf].
          * destruct (Hcv c (Icl f incs' x c Hf Hc Hx Hr)) as [H1|H1]; auto.
          * apply elem_of_list_singleton in Hf as ->. rewrite Ec in Hc. inversion Hc; subst incs'.
            destruct (Rch (mk_include fid x) c) as [H1|H1]; [apply elem_of_list_fmap; eauto|done|by left|].
            right. apply elem_of_cons in H1 as [->|H1]; [apply elem_of_app; right; left|].
            apply elem_of_app; left. by rewrite Ib, elem_of_reverse in H1.
        + intros f u Hf. apply elem_of_app in Hf as [Hf|Hf]; [apply elem_of_app; left; by eapply Ifr|].
          apply elem_of_list_singleton in Hf. inversion Hf; subst. apply elem_of_app; right; left.
    Qed.

    Lemma parse_loop_inv fuel : forall s s',
      inv s -> parse_loop false fuel s = Ok s' -> inv s' /\ stack (ps_stack s') = [].
    Proof.
      induction fuel as [|fuel IH]; intros s s' I Hl; simpl in Hl; [discriminate|].
      destruct (take_next (ps_stack s)) as [[p|] st] eqn:Et.
      - apply bind_ok in Hl as (s1 & Hp & Hl). eapply parse_step in Hp as [I1 _]; eauto.
      - inversion Hl; subst. by apply take_next_none.
    Qed.

    (* termination: the files read are distinct canonical paths, so their
       number is bounded by the number of canonical paths of the file system *)
    Variable universe : list path.
    Hypothesis universe_complete : forall p c, canon p = Some c -> c ∈ universe.

    Lemma inv_bound s : inv s -> length (ps_read s) <= length universe.
    Proof.
      intros I. apply submseteq_length, NoDup_submseteq; [by destruct I|].
      intros x Hx. destruct I. rewrite Forall_forall in inv_read0. eapply universe_complete. by apply inv_read0.
    Qed.

    Lemma parse_loop_fuel fuel : forall s,
      inv s -> length universe < fuel + length (ps_read s) -> parse_loop false fuel s <> OutOfFuel.
    Proof.
      induction fuel as [|fuel IH]; intros s I Hlen; simpl.
      - apply inv_bound in I. lia.
      - destruct (take_next (ps_stack s)) as [[p|] st] eqn:Et; [|done].
        destruct (parse_file false p _) as [s1| | |] eqn:Ep; simpl; try done.
        + eapply parse_step in Ep as [I1 E1]; eauto. apply IH; [done|]. rewrite E1, app_length. simpl. lia.
        + by apply parse_file_not_oof in Ep.
    Qed.
  End Loop.

  (* ---------------------------------------------------------------- *)
  (* parse_files as a whole                                           *)
  (* ---------------------------------------------------------------- *)

  Lemma reachable_ext (n1 n2 : path -> Prop) libs c :
    (forall x, n1 x -> n2 x) -> reachable n1 libs c -> reachable n2 libs c.
  Proof. intros Hn Hr. induction Hr; [apply reach_named; auto|by eapply reach_include]. Qed.

  Lemma initial_inv dfuel paths libs st0 reps0 :
    new dfuel paths libs [] = Ok (st0, reps0) ->
    inv (add_libraries libs []).1 (user_inputs st0) (ParseState st0 [] reps0 []).
  Proof.
    intros Hn. apply new_spec_weak in Hn as (N1 & N2 & N3 & N4 & N5 & N6 & N7 & N8 & N9).
    constructor; simpl.
    - done.
    - done.
    - done.
    - by rewrite N2.
    - constructor.
    - constructor.
    - constructor.
    - intros p fid a b Hi. rewrite Forall_forall in N7. apply N7 in Hi as (q & Hq). discriminate.
    - intros f incs x Hf. by apply elem_of_nil in Hf.
    - intros c [Hc|Hc]; [|by apply elem_of_nil in Hc]. apply reach_named. by rewrite N3.
    - intros c Hc. left. by rewrite <- N3.
    - intros f incs x c Hf. by apply elem_of_nil in Hf.
    - intros f u Hf. by apply elem_of_nil in Hf.
  Qed.

  (* without a premise: the user-input set holds named files only, and every
     non-directory argument *)
  Lemma parse_files_inv_weak dfuel fuel paths libs s :
    parse_files false dfuel fuel paths libs = Ok s ->
    exists ui, (forall c, c ∈ ui -> named paths c) /\
               (forall p c, p ∈ paths -> is_dir p = false -> canon p = Some c -> c ∈ ui) /\
               inv (add_libraries libs []).1 ui s /\ stack (ps_stack s) = [].
  Proof.
    unfold Includes.parse_files. intros Hp. apply bind_ok in Hp as ([st0 reps0] & Hn & Hl). simpl in Hl.
    pose proof (new_spec_weak _ _ _ _ _ Hn) as (N1 & N2 & N3 & N4 & N5 & N6 & N7 & N8 & N9).
    exists (user_inputs st0). split; [done|]. split; [done|].
    eapply parse_loop_inv; [by rewrite <- N4| |done].
    by eapply initial_inv.
  Qed.

  (* with the premise that no named directory was met twice (fix 517e7a0 skips
     the second visit): the user-input set is exactly the named set *)
  Lemma parse_files_inv dfuel fuel paths libs s :
    dirs_revisited dfuel paths libs = false ->
    parse_files false dfuel fuel paths libs = Ok s ->
    exists ui, (forall c, c ∈ ui <-> named paths c) /\
               inv (add_libraries libs []).1 ui s /\ stack (ps_stack s) = [].
  Proof.
    unfold Includes.parse_files. intros Hno Hp. apply bind_ok in Hp as ([st0 reps0] & Hn & Hl). simpl in Hl.
    pose proof (new_spec _ _ _ _ _ Hn Hno) as (N1 & N2 & N3 & N4 & N5 & N6 & N7 & N8).
    exists (user_inputs st0). split; [done|].
    eapply parse_loop_inv; [by rewrite <- N4| |done].
    by eapply initial_inv.
  Qed.

  (* C19: no canonical path is parsed twice *)
  Lemma each_canonical_file_once dfuel fuel paths libs s :
    parse_files false dfuel fuel paths libs = Ok s ->
    Forall canonical (ps_read s) /\
    forall i j p q, ps_read s !! i = Some p -> ps_read s !! j = Some q -> canon p = canon q -> i = j.
  Proof.
    intros Hp. apply parse_files_inv_weak in Hp as (ui & _ & _ & I & _). destruct I.
    split; [done|]. intros i j p q Hi Hj Hc.
    rewrite Forall_forall in inv_read0.
    assert (canonical p) as Cp by (eapply inv_read0, elem_of_list_lookup_2; eauto).
    assert (canonical q) as Cq by (eapply inv_read0, elem_of_list_lookup_2; eauto).
    unfold canonical in *. rewrite Cp, Cq in Hc. inversion Hc; subst.
    eapply NoDup_lookup; eauto.
  Qed.

  (* C19: the files read are exactly those reachable from the named files by
     resolving includes relative to the including file first and through the
     libraries in order second *)
  Lemma reads_exactly_reachable dfuel fuel paths libs s :
    dirs_revisited dfuel paths libs = false ->
    parse_files false dfuel fuel paths libs = Ok s ->
    forall c, c ∈ ps_read s <-> reachable (named paths) (add_libraries libs []).1 c.
  Proof.
    intros Hno Hp. apply (parse_files_inv _ _ _ _ _ Hno) in Hp as (ui & Hui & I & Hstk). destruct I.
    intros c; split.
    - intros Hc. eapply reachable_ext; [|apply inv_sound0; by right]. intros x. apply Hui.
    - intros Hr. induction Hr as [c Hc|f incs x c Hf IH Hc Hx Hr].
      + apply Hui in Hc. apply inv_named0 in Hc as [Hc|Hc]; [|done]. rewrite Hstk in Hc. by apply elem_of_nil in Hc.
      + destruct (inv_closed0 f incs x c IH Hc Hx Hr) as [H1|H1]; [|done]. rewrite Hstk in H1. by apply elem_of_nil in H1.
  Qed.

  (* no premise: the files read are closed under resolved includes *)
  Lemma reads_closed dfuel fuel paths libs s f incs x c :
    parse_files false dfuel fuel paths libs = Ok s ->
    f ∈ ps_read s -> content f = Parsed incs -> x ∈ incs ->
    resolves f (add_libraries libs []).1 x.1.1 (Some c) -> c ∈ ps_read s.
  Proof.
    intros Hp Hf Hc Hx Hr. apply parse_files_inv_weak in Hp as (ui & _ & _ & I & Hstk). destruct I.
    destruct (inv_closed0 f incs x c Hf Hc Hx Hr) as [H1|H1]; [|done]. rewrite Hstk in H1. by apply elem_of_nil in H1.
  Qed.

  (* the half that needs no premise: every file read is reachable from a named file *)
  Lemma reads_only_reachable dfuel fuel paths libs s :
    parse_files false dfuel fuel paths libs = Ok s ->
    forall c, c ∈ ps_read s -> reachable (named paths) (add_libraries libs []).1 c.
  Proof.
    intros Hp. apply parse_files_inv_weak in Hp as (ui & Hui & _ & I & Hstk). destruct I.
    intros c Hc. eapply reachable_ext; [|apply inv_sound0; by right]. intros x. apply Hui.
  Qed.

  (* C19: an include error carries the file id and the range of an unresolved
     include statement of a file that was read, and every such statement has one *)
  Lemma unresolved_include_error_located dfuel fuel paths libs s :
    parse_files false dfuel fuel paths libs = Ok s ->
    (forall p fid a b, IncludeError p fid a b ∈ ps_reports s ->
       exists i f u incs, fid = Some i /\ ps_files s !! i = Some (f, u) /\ f ∈ ps_read s /\
                          content f = Parsed incs /\ (p, a, b) ∈ incs /\
                          resolves f (add_libraries libs []).1 p None) /\
    (forall f incs p a b, f ∈ ps_read s -> content f = Parsed incs -> (p, a, b) ∈ incs ->
       resolves f (add_libraries libs []).1 p None ->
       exists i u, ps_files s !! i = Some (f, u) /\ IncludeError p (Some i) a b ∈ ps_reports s).
  Proof.
    intros Hp. apply parse_files_inv_weak in Hp as (ui & Hui & _ & I & Hstk). destruct I. split.
    - intros p fid a b Hi. destruct (inv_reports0 p fid a b Hi) as (i & f & u & incs & E1 & E2 & E3 & E4 & E5).
      exists i, f, u, incs. repeat split; try done. eapply inv_files_read0, elem_of_list_lookup_2; eauto.
    - intros f incs p a b Hf Hc Hx Hr. apply (inv_errors0 f incs (p, a, b)); done.
  Qed.

  (* C19: the user-input set is the set of files named on the command line *)
  Lemma user_set_is_argv_files dfuel paths libs st reps :
    dirs_revisited dfuel paths libs = false ->
    new dfuel paths libs [] = Ok (st, reps) ->
    forall c, is_user_input st c = true <-> named paths c.
  Proof.
    intros Hno Hn. apply new_spec in Hn as (_ & _ & _ & _ & _ & _ & _ & N8); [|done].
    intros c. unfold Includes.is_user_input. rewrite bool_decide_eq_true. apply N8.
  Qed.

  (* without a premise: a user input is a named file, and every argument that
     is not a directory is a user input *)
  Lemma user_set_sound dfuel paths libs st reps :
    new dfuel paths libs [] = Ok (st, reps) ->
    (forall c, is_user_input st c = true -> named paths c) /\
    (forall p c, p ∈ paths -> is_dir p = false -> canon p = Some c -> is_user_input st c = true).
  Proof.
    intros Hn. apply new_spec_weak in Hn as (_ & _ & _ & _ & _ & _ & _ & N8 & N9). split.
    - intros c. unfold Includes.is_user_input. rewrite bool_decide_eq_true. apply N8.
    - intros p c Hp Hd Hc. unfold Includes.is_user_input. rewrite bool_decide_eq_true. by eapply N9.
  Qed.

  (* C19: a file that was only included is not a user input, a named one is *)
  Lemma included_only_files_are_not_user_inputs dfuel fuel paths libs s :
    dirs_revisited dfuel paths libs = false ->
    parse_files false dfuel fuel paths libs = Ok s ->
    (forall c, is_user_input (ps_stack s) c = true <-> named paths c) /\
    forall i f u, ps_files s !! i = Some (f, u) -> f ∈ ps_read s /\ (u = true <-> named paths f).
  Proof.
    intros Hno Hp. apply (parse_files_inv _ _ _ _ _ Hno) in Hp as (ui & Hui & I & Hstk). destruct I. split.
    - intros c. unfold Includes.is_user_input. rewrite bool_decide_eq_true, inv_ui0. apply Hui.
    - intros i f u Hi. apply elem_of_list_lookup_2 in Hi. split; [by eapply inv_files_read0|].
      rewrite Forall_forall in inv_files0. apply inv_files0 in Hi. simpl in Hi. subst u.
      rewrite bool_decide_eq_true. apply Hui.
  Qed.

  (* C19: termination.  Directory expansion needs fuel above the nesting depth
     of the named directories; the loop needs fuel above the number of
     canonical paths. *)
  Lemma add_files_unfold fuel named p rest acc :
    add_files (S fuel) named (p :: rest) acc =
    if is_dir p then
      match read_dir p with
      | Some names => Base.bind (add_files fuel false (map (join p) names) acc) (fun acc' => add_files (S fuel) named rest acc')
      | None => add_files (S fuel) named rest acc
      end
    else if named || ext_circom p then
      match canon p with
      | Some c => add_files (S fuel) named rest (c :: acc.1, acc.2)
      | None => add_files (S fuel) named rest (acc.1, acc.2 ++ [FileOsError p])
      end
    else add_files (S fuel) named rest acc.
  Proof. reflexivity. Qed.

  Lemma add_files_fuel k : forall named paths acc,
    Forall (depth_le k) paths -> add_files (S k) named paths acc <> OutOfFuel.
  Proof.
    induction k as [|k IHk]; intros named; induction paths as [|p rest IH]; intros acc Hd; try done;
      inversion Hd as [|? ? Hp Hrest]; subst; rewrite add_files_unfold.
    - destruct (is_dir p) eqn:Ed.
      + destruct (read_dir p) eqn:Er; [|by apply IH]. inversion Hp; congruence.
      + destruct (named || ext_circom p); [|by apply IH]. destruct (canon p); by apply IH.
    - destruct (is_dir p) eqn:Ed.
      + destruct (read_dir p) as [names|] eqn:Er; [|by apply IH].
        destruct (add_files (S k) false (map (join p) names) acc) as [acc'| | |] eqn:Ea; try done.
        * by apply IH.
        * exfalso. revert Ea. apply IHk. inversion Hp; subst; try congruence.
          match goal with H : read_dir p = Some _ |- _ => rewrite Er in H; inversion H; subst end.
          apply Forall_forall. intros x Hx. apply elem_of_list_fmap in Hx as (n & -> & Hn). auto.
      + destruct (named || ext_circom p); [|by apply IH]. destruct (canon p); by apply IH.
  Qed.

  Lemma add_files_once_fuel k : forall nm paths dirs acc,
    Forall (depth_le k) paths -> add_files_once (S k) nm paths dirs acc <> OutOfFuel.
  Proof.
    induction k as [|k IHk]; intros nm; induction paths as [|p rest IH]; intros dirs acc Hd; try done;
      inversion Hd as [|? ? Hp Hrest]; subst; rewrite add_files_once_unfold.
    - destruct (is_dir p) eqn:Ed.
      + assert (read_dir p = None) as -> by (inversion Hp; congruence).
        destruct (canon p); [destruct (decide _)|]; by apply IH.
      + destruct (nm || ext_circom p); [|by apply IH]. destruct (canon p); by apply IH.
    - destruct (is_dir p) eqn:Ed.
      + assert (Hrec : forall names dirs0, read_dir p = Some names ->
                  Base.bind (add_files_once (S k) false (map (join p) names) dirs0 acc)
                            (fun r0 => add_files_once (S (S k)) nm rest r0.1 r0.2) <> OutOfFuel).
        { intros names dirs0 Er.
          destruct (add_files_once (S k) false (map (join p) names) dirs0 acc) as [r1| | |] eqn:Ea; try done.
          - by apply IH.
          - exfalso. revert Ea. apply IHk. inversion Hp; subst; try congruence.
            match goal with H : read_dir p = Some _ |- _ => rewrite Er in H; inversion H; subst end.
            apply Forall_forall. intros x Hx. apply elem_of_list_fmap in Hx as (n & -> & Hn). auto. }
        destruct (canon p) as [d|].
        * destruct (decide (d ∈ dirs.1)); [by apply IH|].
          destruct (read_dir p) as [names|] eqn:Er; [by apply Hrec|by apply IH].
        * destruct (read_dir p) as [names|] eqn:Er; [by apply Hrec|by apply IH].
      + destruct (nm || ext_circom p); [|by apply IH]. destruct (canon p); by apply IH.
  Qed.

  Lemma include_terminates universe k fuel paths libs :
    (forall p c, canon p = Some c -> c ∈ universe) ->
    Forall (depth_le k) paths ->
    length universe < fuel ->
    parse_files false (S k) fuel paths libs <> OutOfFuel.
  Proof.
    intros Hu Hd Hf. unfold Includes.parse_files.
    destruct (new (S k) paths libs []) as [[st0 reps0]| | |] eqn:Hn; simpl; try done.
    - pose proof (new_spec_weak _ _ _ _ _ Hn) as (N1 & N2 & N3 & N4 & N5 & N6 & N7 & N8 & N9).
      apply (parse_loop_fuel (add_libraries libs []).1 (user_inputs st0)) with (universe := universe);
        [by rewrite <- N4|done|by eapply initial_inv|simpl; lia].
    - unfold Includes.new in Hn. destruct (add_libraries libs []) as [ls r0].
      destruct (add_files_once (S k) true paths ([], false) ([], r0)) eqn:Ea; simpl in Hn; try discriminate.
      by apply add_files_once_fuel in Ea.
  Qed.

  (* the number of files read is bounded by the number of canonical paths *)
  Lemma reads_bounded universe dfuel fuel paths libs s :
    (forall p c, canon p = Some c -> c ∈ universe) ->
    parse_files false dfuel fuel paths libs = Ok s -> length (ps_read s) <= length universe.
  Proof.
    intros Hu Hp. apply parse_files_inv_weak in Hp as (ui & _ & _ & I & _). by eapply inv_bound.
  Qed.

  (* ---------------------------------------------------------------- *)
  (* every include statement is served                                *)
  (* ---------------------------------------------------------------- *)

  (* every include statement of a parsed file either resolves to a FILE, which
     is then read, or is reported at the statement (before the repair recorded
     as C19-include-unreadable a directory of that name was pushed and the
     only report was an OS error without location) *)
  Definition include_served (libs : list library) (s : parse_state (path:=path)) (f p : path) (a b : nat) : Prop :=
    (exists c, resolves f libs p (Some c) /\ c ∈ ps_read s) \/
    (resolves f libs p None /\
     exists i u, ps_files s !! i = Some (f, u) /\ IncludeError p (Some i) a b ∈ ps_reports s).

  Lemma lib_offers_dec inc l : (exists c, lib_offers inc l c) \/ (forall c, ~ lib_offers inc l c).
  Proof.
    destruct (lib_dir l) eqn:Ed.
    - destruct (starts_dot inc) eqn:Es; [right; intros c Ho; inversion Ho; congruence|].
      destruct (canon (join (lib_path l) inc)) as [c|] eqn:Ec.
      + destruct (is_file c) eqn:Ef.
        * left. exists c. by apply offers_dir.
        * right; intros c' Ho; inversion Ho; congruence.
      + right; intros c Ho; inversion Ho; congruence.
    - destruct (has_sep inc) eqn:Es; [right; intros c Ho; inversion Ho; congruence|].
      destruct (file_name (lib_path l)) as [n|] eqn:En; [|right; intros c Ho; inversion Ho; congruence].
      destruct (decide (n = inc)) as [->|Hne].
      + left. exists (lib_path l). by apply offers_file.
      + right; intros c Ho; inversion Ho; congruence.
  Qed.

  Lemma resolves_total cur libs inc : exists r, resolves cur libs inc r.
  Proof.
    destruct (relative cur inc) as [c|] eqn:Ec; [exists (Some c); by apply resolves_relative|].
    assert (G : (exists l1 l l2 c, libs = l1 ++ l :: l2 /\ Forall (no_offer inc) l1 /\ lib_offers inc l c) \/
                Forall (no_offer inc) libs).
    { induction libs as [|l libs IH]; [right; constructor|].
      destruct (lib_offers_dec inc l) as [[c Ho]|Hno].
      - left. exists [], l, libs, c. repeat split; [constructor|done].
      - destruct IH as [(l1 & l0 & l2 & c & -> & Hf & Ho)|Hall].
        + left. exists (l :: l1), l0, l2, c. repeat split; [by constructor|done].
        + right. by constructor. }
    destruct G as [(l1 & l & l2 & c & E & Hf & Ho)|Hall].
    - exists (Some c). by eapply resolves_library.
    - exists None. by apply resolves_nowhere.
  Qed.

  (* an included path is a file *)
  Lemma resolves_is_file cur libs inc c :
    Forall (fun l => lib_dir l = false -> is_file (lib_path l) = true) libs ->
    resolves cur libs inc (Some c) -> is_file c = true.
  Proof.
    intros Hl Hr. inversion Hr as [c0 Hrel|l1 l l2 c0 _ -> _ Ho|]; subst.
    - unfold IncludesSpec.relative in Hrel. destruct (canon _) as [c1|]; [|discriminate].
      destruct (is_file c1) eqn:E; inversion Hrel; by subst.
    - inversion Ho; subst; [done|]. rewrite Forall_forall in Hl. apply Hl; [|done]. apply elem_of_app; right; left.
  Qed.

  Lemma every_include_served dfuel fuel paths libs s f incs p a b :
    parse_files false dfuel fuel paths libs = Ok s ->
    f ∈ ps_read s -> content f = Parsed incs -> (p, a, b) ∈ incs ->
    include_served (add_libraries libs []).1 s f p a b.
  Proof.
    intros Hp Hf Hc Hx.
    destruct (resolves_total f (add_libraries libs []).1 p) as [[c|] Hr].
    - left. exists c. split; [done|].
      by apply (reads_closed _ _ _ _ _ f incs (p, a, b) c Hp).
    - right. split; [done|]. by eapply (proj2 (unresolved_include_error_located _ _ _ _ _ Hp)).
  Qed.
End IncludesProofs.

(* ------------------------------------------------------------------------ *)
(* D23: the code before the repair parsed a file twice when it was reached   *)
(* through `-L dir` and through a relative include.  Two-file witness        *)
(* (`circomspect -L lib p/main.circom` in /r, main.circom including          *)
(* "x.circom" and "../lib/x.circom"), evaluated on the mirror of the old     *)
(* code ([d23 = true]) and of the repaired code.                             *)
(* ------------------------------------------------------------------------ *)

Definition d23_fs : fs_data := FsData
  [ (str "p/main.circom", Some (str "/r/p/main.circom"));
    (str "lib", Some (str "/r/lib"));
    (str "/r/p/x.circom", None);
    (str "lib/x.circom", Some (str "/r/lib/x.circom"));
    (str "/r/p/../lib/x.circom", Some (str "/r/lib/x.circom"));
    (str "/r/p/main.circom", Some (str "/r/p/main.circom"));
    (str "/r/lib", Some (str "/r/lib"));
    (str "/r/lib/x.circom", Some (str "/r/lib/x.circom")) ]
  [ (str "lib", [str "x.circom"]) ]
  [ str "/r/p/main.circom"; str "/r/lib/x.circom" ]
  [ (str "/r/p/main.circom", Parsed [(str "x.circom", 21, 40); (str "../lib/x.circom", 41, 67)]);
    (str "/r/lib/x.circom", Parsed []);
    (str "lib/x.circom", Parsed []) ].
Definition d23_argv : list spath := [str "p/main.circom"].
Definition d23_libs : list spath := [str "lib"].

(* some file is read under two spellings of one canonical path *)
Definition parsed_twice (d : fs_data) (r : outcome (parse_state (path:=spath))) : Prop :=
  exists s i j p q, r = Ok s /\ i <> j /\ ps_read s !! i = Some p /\ ps_read s !! j = Some q /\
                    is_Some (d_canon d p) /\ d_canon d p = d_canon d q.

Lemma d23_witness_wellformed : canon_idempotent_b d23_fs = true.
Proof. vm_compute. reflexivity. Qed.

Lemma d23_old_code_parses_twice : parsed_twice d23_fs (run_project true d23_fs d23_argv d23_libs).
Proof.
  eexists _, 1, 2, (str "/r/lib/x.circom"), (str "lib/x.circom").
  split; [vm_compute; reflexivity|].
  split; [discriminate|]. split; [reflexivity|]. split; [reflexivity|].
  split; [by eexists|]. vm_compute. reflexivity.
Qed.

Lemma d23_repaired_code_reads :
  exists s, run_project false d23_fs d23_argv d23_libs = Ok s /\
            ps_read s = [str "/r/p/main.circom"; str "/r/lib/x.circom"].
Proof. eexists. split; vm_compute; reflexivity. Qed.

(* the boolean check on a table is the premise of the theorems *)
Lemma assoc_In {B} k (l : list (spath * B)) v : assoc k l = Some v -> In (k, v) l.
Proof.
  induction l as [|[k' v'] l IH]; simpl; [discriminate|].
  destruct (decide (k' = k)) as [->|]; [intros E; inversion E; auto|auto].
Qed.

Lemma canon_idempotent_b_spec d :
  canon_idempotent_b d = true -> forall p c, d_canon d p = Some c -> d_canon d c = Some c.
Proof.
  unfold canon_idempotent_b. rewrite forallb_forall. intros Hall p c Hp.
  unfold d_canon in Hp at 1. destruct (assoc p (fs_canon d)) as [r|] eqn:E; [|discriminate]. subst r.
  apply assoc_In in E. apply Hall in E. simpl in E. by apply bool_decide_eq_true in E.
Qed.

Lemma d23_canon_idem : forall p c, d_canon d23_fs p = Some c -> d_canon d23_fs c = Some c.
Proof. apply canon_idempotent_b_spec, d23_witness_wellformed. Qed.

(* the instance that is run against the implementation: its loop fuel is
   sufficient, and it reads no canonical path twice *)
Lemma run_project_fuel_ok d argv libs :
  canon_idempotent_b d = true ->
  Forall (depth_le (d_is_dir d) (d_read_dir d) s_join 63) argv ->
  run_project false d argv libs <> OutOfFuel.
Proof.
  intros Hc Hd. unfold run_project. change dir_fuel with (S 63).
  apply include_terminates with (universe := canonical_paths d); [by apply canon_idempotent_b_spec| |done|lia].
  intros p c Hp. unfold canonical_paths. apply elem_of_list_omap.
  unfold d_canon in Hp. destruct (assoc p (fs_canon d)) as [r|] eqn:E; [|discriminate]. subst r.
  exists (p, Some c). split; [|done]. apply elem_of_list_In. by apply assoc_In.
Qed.

(* the decided form of the nesting-depth premise implies the premise *)
Lemma depth_le_b_sound {path : Type} (is_dir : path -> bool) (read_dir : path -> option (list path))
      (join : path -> path -> path) (k : nat) :
  forall p, depth_le_b is_dir read_dir join k p = true -> depth_le is_dir read_dir join k p.
Proof.
  induction k as [|k IHk]; intros p H; simpl in H;
    (destruct (is_dir p) eqn:Ed; [|by apply depth_file]);
    (destruct (read_dir p) as [names|] eqn:Er; [|by apply depth_unreadable]).
  - discriminate.
  - eapply depth_dir; [done|done|]. intros n Hn. apply IHk.
    rewrite forallb_forall in H. apply H. by apply elem_of_list_In.
Qed.

(* both premises in their decided form, as the driver evaluates them on every project *)
Lemma run_project_fuel_ok_decided d argv libs :
  canon_idempotent_b d = true ->
  depth_ok_b d argv = true ->
  run_project false d argv libs <> OutOfFuel.
Proof.
  intros Hc Hd. apply run_project_fuel_ok; [done|].
  apply Forall_forall. intros p Hp. apply depth_le_b_sound.
  unfold depth_ok_b in Hd. rewrite forallb_forall in Hd. apply Hd. by apply elem_of_list_In.
Qed.

Lemma run_project_each_file_once d argv libs s :
  canon_idempotent_b d = true ->
  run_project false d argv libs = Ok s ->
  forall i j p q, ps_read s !! i = Some p -> ps_read s !! j = Some q -> d_canon d p = d_canon d q -> i = j.
Proof.
  intros Hc Hr. eapply each_canonical_file_once in Hr as [_ H]; [done|]. by apply canon_idempotent_b_spec.
Qed.

(* ------------------------------------------------------------------------ *)
(* C19-include-unreadable (repaired): `include "sub";` where sub is a        *)
(* directory next to the including file.  The directory is no longer pushed; *)
(* the resolution goes on through the libraries and ends in the include      *)
(* error located at the statement.                                           *)
(* ------------------------------------------------------------------------ *)

Definition kf_dir_fs : fs_data := FsData
  [ (str "q/main.circom", Some (str "/r/q/main.circom"));
    (str "/r/q/sub", Some (str "/r/q/sub"));
    (str "/r/q/main.circom", Some (str "/r/q/main.circom")) ]
  [ ]
  [ str "/r/q/main.circom" ]
  [ (str "/r/q/main.circom", Parsed [(str "sub", 21, 35)]);
    (str "/r/q/sub", Unreadable) ].

Lemma dir_include_is_located :
  canon_idempotent_b kf_dir_fs = true /\
  exists s, run_project false kf_dir_fs [str "q/main.circom"] [] = Ok s /\
            ps_read s = [str "/r/q/main.circom"] /\
            ps_reports s = [IncludeError (str "sub") (Some 0) 21 35].
Proof. split; [vm_compute; reflexivity|]. eexists. split; [vm_compute; reflexivity|]. split; reflexivity. Qed.
