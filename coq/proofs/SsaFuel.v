(* C01 (on top of C14's construction mirror Model.Ssa): the fuel that
   Model.Ssa.into_ssa hands to its two fuelled loops suffices, so [SFuel] is not
   an outcome (and cannot mask a later [SPanic]: Proofs.SsaNoPanic excludes that
   one under the same hypotheses).

   work list (insert_phi_statements): fuel  n*n*(D+1) + n + 1   (n blocks, D declarations)
     measure  |work| + sum over the blocks of the number of declared names that have
     no phi statement in the block yet.  A pop costs one unit of fuel and takes one
     element off the work list; every push is paid for by a phi statement inserted
     for a declared name into a block that had none (the name is written by the
     popped block, and only unversioned names are written, so the inserted
     statement IS a phi for that name: [is_phi_for v (phi_stmt_for v) = true]).
     Initially the measure is at most  n + n*D.
     This needs every local that is written to be among the declarations
     ([written_declared]).  Without that hypothesis the fuel of the mirror is NOT
     sufficient: [fuel_needs_declared] below is a one-block graph that writes three
     undeclared locals and runs out of fuel.
   tree walk (insert_ssa_variables_impl): fuel n + 1; a child has a larger index
     than its parent and is a block of the graph, so the depth below block [cur]
     is at most n - cur. *)
From Coq Require Import ZArith NArith List Bool Lia Arith.
Require Import Model.Base Model.Ir Model.SsaCheck Model.Ssa Proofs.IrInd Proofs.IrFacts Proofs.SsaNoPanic.
Import ListNotations.

Definition nf {A} (m : ssa_result A) : Prop := m <> SFuel.

Lemma nf_bind {A B} (m : ssa_result A) (f : A -> ssa_result B) :
  nf m -> (forall a, m = SOk a -> nf (f a)) -> nf (sbind m f).
Proof. unfold nf. intros Hm Hf. destruct m; simpl; try discriminate; auto. Qed.

(* ------------------------------------------------------------------------ *)
(* the renaming of expressions and statements has no fuel                     *)
(* ------------------------------------------------------------------------ *)
Section Rename.
Variable decls : list (vname * vtype).

Lemma rename_read_nf env v : nf (rename_read decls env v).
Proof.
  unfold rename_read. destruct (vn_version v); [discriminate|].
  destruct (is_local_in decls v); [|discriminate]. destruct (cur_version env v); discriminate.
Qed.

Lemma ssa_list_nf : forall es, Forall (fun e => forall env, nf (ssa_expr decls env e)) es ->
  forall env, nf (ssa_list decls env es).
Proof.
  induction 1 as [|x tl Hx _ IH]; intros env; simpl; [discriminate|].
  apply nf_bind; [apply Hx|]. intros [x' env1] _.
  apply nf_bind; [apply IH|]. intros [tl' env2] _. discriminate.
Qed.

Lemma ssa_acc_nf : forall acc, Forall (fun e => forall env, nf (ssa_expr decls env e)) (acc_exprs acc) ->
  forall env, nf (ssa_acc decls env acc).
Proof.
  induction acc as [|[x|n] tl IH]; intros H env; simpl; [discriminate| |].
  - simpl in H. inversion H as [|? ? Hx Htl]; subst.
    apply nf_bind; [apply Hx|]. intros [x' env1] _.
    apply nf_bind; [apply IH; exact Htl|]. intros [tl' env2] _. discriminate.
  - simpl in H. apply nf_bind; [apply IH; exact H|]. intros [tl' env2] _. discriminate.
Qed.

Lemma ssa_expr_nf : forall e env, nf (ssa_expr decls env e).
Proof.
  induction e as [z k|v k|op l r k IHl IHr|op x k IHx|c t f k IHc IHt IHf|n args k IH|vs k IH
                 |v acc k IH|v acc rhe k IH IHr|args k] using expr_ind'; intros env.
  - discriminate.
  - simpl. destruct (is_local_in decls v); [|discriminate].
    apply nf_bind; [apply rename_read_nf|]. intros; discriminate.
  - simpl. apply nf_bind; [apply IHl|]. intros [l' env1] _.
    apply nf_bind; [apply IHr|]. intros [r' env2] _. discriminate.
  - simpl. apply nf_bind; [apply IHx|]. intros [x' env1] _. discriminate.
  - simpl. apply nf_bind; [apply IHc|]. intros [c' env1] _.
    apply nf_bind; [apply IHt|]. intros [t' env2] _.
    apply nf_bind; [apply IHf|]. intros [f' env3] _. discriminate.
  - rewrite ssa_expr_call. apply nf_bind; [apply ssa_list_nf; exact IH|]. intros [a e1] _. discriminate.
  - rewrite ssa_expr_array. apply nf_bind; [apply ssa_list_nf; exact IH|]. intros [a e1] _. discriminate.
  - simpl. rewrite ssa_acc_eq. apply nf_bind; [apply ssa_acc_nf; exact IH|]. intros [acc' env1] _.
    destruct (is_local_in decls v); [|discriminate].
    apply nf_bind; [apply rename_read_nf|]. intros; discriminate.
  - simpl. apply nf_bind; [apply IHr|]. intros [rhe' env1] _.
    rewrite ssa_acc_eq. apply nf_bind; [apply ssa_acc_nf; exact IH|]. intros [acc' env2] _.
    destruct (is_local_in decls v); [|discriminate].
    destruct (vn_version v); [discriminate|].
    destruct (cur_version env2 v); [discriminate|]. destruct (next_version env2 v). discriminate.
  - discriminate.
Qed.

Lemma ssa_exprs_nf : forall es env, nf (ssa_exprs decls env es).
Proof.
  induction es as [|x tl IH]; intros env; simpl; [discriminate|].
  apply nf_bind; [apply ssa_expr_nf|]. intros [x' env1] _.
  apply nf_bind; [apply IH|]. intros [tl' env2] _. discriminate.
Qed.

Lemma ssa_logargs_nf : forall es env, nf (ssa_logargs decls env es).
Proof.
  induction es as [|[|x] tl IH]; intros env; simpl; [discriminate| |].
  - apply nf_bind; [apply IH|]. intros [tl' env2] _. discriminate.
  - apply nf_bind; [apply ssa_expr_nf|]. intros [x' env1] _.
    apply nf_bind; [apply IH|]. intros [tl' env2] _. discriminate.
Qed.

Lemma ssa_stmt_nf s env : nf (ssa_stmt decls env s).
Proof.
  destruct s as [m names t dims|m c t f|m e|m v op rhe sval stype|m l r|m args|m e]; simpl.
  - apply nf_bind; [apply ssa_exprs_nf|]. intros [d e1] _. discriminate.
  - apply nf_bind; [apply ssa_expr_nf|]. intros [d e1] _. discriminate.
  - apply nf_bind; [apply ssa_expr_nf|]. intros [d e1] _. discriminate.
  - destruct (vn_version v); [discriminate|].
    apply nf_bind; [apply ssa_expr_nf|]. intros [rhe' env1] _.
    destruct (is_local_in decls v); [|discriminate]. destruct (next_version env1 v). discriminate.
  - apply nf_bind; [apply ssa_expr_nf|]. intros [l' env1] _.
    apply nf_bind; [apply ssa_expr_nf|]. intros [r' env2] _. discriminate.
  - apply nf_bind; [apply ssa_logargs_nf|]. intros [d e1] _. discriminate.
  - apply nf_bind; [apply ssa_expr_nf|]. intros [d e1] _. discriminate.
Qed.

Lemma ssa_stmts_nf : forall ss env, nf (ssa_stmts decls env ss).
Proof.
  induction ss as [|s tl IH]; intros env; simpl; [discriminate|].
  apply nf_bind; [apply ssa_stmt_nf|]. intros [s' env1] _.
  apply nf_bind; [apply IH|]. intros [tl' env2] _. discriminate.
Qed.
End Rename.

(* ------------------------------------------------------------------------ *)
(* the tree walk: fuel n - cur suffices below block cur                       *)
(* ------------------------------------------------------------------------ *)
Section Walk.
Variable decls : list (vname * vtype).
Variable children : list (list N).
Variable n : nat.
Hypothesis kid_range : forall j k, In k (kids children j) -> j < k /\ k < n.

Lemma rename_tree_nf : forall fuel cur bs env,
  cur < n -> n - cur <= fuel -> nf (rename_tree fuel decls children cur bs env).
Proof.
  induction fuel as [|fuel IH]; intros cur bs env Hc Hf; [lia|].
  rewrite rename_tree_unfold. destruct (nth_error bs cur) as [b|]; [|discriminate].
  apply nf_bind; [apply ssa_stmts_nf|]. intros [ss' env1] _.
  generalize (update_succ_phis env1 (b_succs b) (update_nth bs cur (fun b0 => set_stmts b0 ss'))).
  generalize env1.
  assert (Hk : forall k, In k (nth cur children []) -> cur < N.to_nat k /\ N.to_nat k < n).
  { intros k Hk. apply kid_range. unfold kids. apply in_map. exact Hk. }
  induction (nth cur children []) as [|k tl IHk]; intros e l; simpl; [discriminate|].
  apply nf_bind.
  - destruct (Hk k (or_introl eq_refl)) as [H1 H2]. apply IH; [exact H2|lia].
  - intros [bs' env'] _. apply IHk. intros k' Hk'. apply Hk. right. exact Hk'.
Qed.
End Walk.

(* ------------------------------------------------------------------------ *)
(* the work list                                                             *)
(* ------------------------------------------------------------------------ *)
Lemma vname_eqb_eq a b : vname_eqb a b = true <-> a = b.
Proof.
  unfold vname_eqb. rewrite !andb_true_iff, ident_eqb_eq', (opt_eqb_eq' ident_eqb ident_eqb_eq'), optN_eqb_eq.
  destruct a, b; cbn. split; [intros [[-> ->] ->]; reflexivity|intros [= -> -> ->]; auto].
Qed.

Definition has_phi (v : vname) (b : block) : bool := existsb (is_phi_for v) (b_stmts b).
Definition lacks (b : block) (v : vname) : bool := negb (has_phi v b).

Section Measure.
Variable U : list vname.          (* the declared names *)

Definition missing (b : block) : nat := length (filter (lacks b) U).
Definition total_missing (bs : list block) : nat := list_sum (map missing bs).

(* the locals a block writes, before the removal of duplicates *)
Definition wr (b : block) : list vname :=
  flat_map (fun s => match stmt_local_written s with Some v => [v] | None => [] end) (b_stmts b).
(* they are declared and carry no version *)
Definition wok (b : block) : Prop := forall v, In v (wr b) -> In v U /\ vn_version v = None.

Lemma dedup_v_in : forall l v, In v (dedup_v l) -> In v l.
Proof.
  induction l as [|x tl IH]; simpl; intros v H; [exact H|].
  destruct (existsb (vname_eqb x) tl); [right; apply IH; exact H|].
  destruct H as [->|H]; [left; reflexivity|right; apply IH; exact H].
Qed.

Lemma vars_written_wr b v : In v (vars_written b) -> In v (wr b).
Proof. apply dedup_v_in. Qed.

Lemma filter_length_le {A} (f : A -> bool) l : length (filter f l) <= length l.
Proof. induction l as [|x tl IH]; simpl; [lia|]. destruct (f x); simpl; lia. Qed.

Lemma filter_length_mono {A} (f0 f1 : A -> bool) : forall l,
  (forall u, f1 u = true -> f0 u = true) -> length (filter f1 l) <= length (filter f0 l).
Proof.
  intros l H. induction l as [|x tl IH]; simpl; [lia|].
  destruct (f1 x) eqn:E1; [rewrite (H x E1); simpl; lia|]. destruct (f0 x); simpl; lia.
Qed.

Lemma filter_length_lt {A} (f0 f1 : A -> bool) v : forall l,
  (forall u, f1 u = true -> f0 u = true) -> In v l -> f0 v = true -> f1 v = false ->
  length (filter f1 l) < length (filter f0 l).
Proof.
  intros l H. induction l as [|x tl IH]; simpl; intros Hin H0 H1; [contradiction|].
  destruct Hin as [->|Hin].
  - rewrite H0, H1. simpl. pose proof (filter_length_mono f0 f1 tl H). lia.
  - specialize (IH Hin H0 H1). destruct (f1 x) eqn:E1; [rewrite (H x E1); simpl; lia|].
    destruct (f0 x); simpl; lia.
Qed.

Lemma is_phi_for_own v : vn_version v = None -> is_phi_for v (phi_stmt_for v) = true.
Proof.
  intros H. simpl. apply vname_eqb_eq. destruct v as [nm sf ve]. simpl in H. subst ve. reflexivity.
Qed.

(* one frontier block: every push is paid for by a name that had no phi yet *)
Lemma add_phis_measure : forall vars b p,
  (forall v, In v vars -> In v U /\ vn_version v = None) -> wok b ->
  snd (add_phis vars b p) + missing (fst (add_phis vars b p)) <= p + missing b /\
  wok (fst (add_phis vars b p)).
Proof.
  induction vars as [|v tl IH]; intros b p Hv Hw; simpl; [split; [lia|exact Hw]|].
  destruct (existsb (is_phi_for v) (b_stmts b)) eqn:E.
  - apply IH; [intros u Hu; apply Hv; right; exact Hu|exact Hw].
  - destruct (Hv v (or_introl eq_refl)) as [HU Hn].
    set (b1 := set_stmts b (phi_stmt_for v :: b_stmts b)).
    assert (Hw1 : wok b1).
    { intros u Hu. unfold wr, b1 in Hu. simpl in Hu. destruct Hu as [<-|Hu].
      - destruct v as [nm sf ve]. simpl in Hn. subst ve. split; [exact HU|reflexivity].
      - apply Hw. exact Hu. }
    destruct (IH b1 (S p)) as [I1 I2]; [intros u Hu; apply Hv; right; exact Hu|exact Hw1|].
    split; [|exact I2].
    assert (missing b1 < missing b); [|lia].
    unfold missing. apply (filter_length_lt (lacks b) (lacks b1) v); [|exact HU| |].
    + intros u. unfold lacks, has_phi, b1. cbn [b_stmts set_stmts existsb]. destruct (is_phi_for u (phi_stmt_for v)); cbn [orb negb]; [intros; discriminate|auto].
    + unfold lacks, has_phi. rewrite E. reflexivity.
    + unfold lacks, has_phi, b1. cbn [b_stmts set_stmts existsb]. rewrite (is_phi_for_own v Hn). reflexivity.
Qed.

Lemma total_missing_update : forall bs i b b', nth_error bs i = Some b ->
  total_missing (update_nth bs i (fun _ => b')) + missing b = total_missing bs + missing b'.
Proof.
  unfold total_missing. induction bs as [|x tl IH]; intros [|i] b b' H; simpl in *; try discriminate.
  - inversion H. subst. lia.
  - specialize (IH i b b' H). lia.
Qed.

Lemma Forall_update_nth {A} (P : A -> Prop) (f : A -> A) : forall l i,
  Forall P l -> (forall x, nth_error l i = Some x -> P (f x)) -> Forall P (update_nth l i f).
Proof.
  induction l as [|x tl IH]; intros [|i] Hl Hf; simpl; [constructor|constructor| |].
  - inversion Hl; subst. constructor; [apply Hf; reflexivity|assumption].
  - inversion Hl; subst. constructor; [assumption|]. apply IH; [assumption|]. intros y Hy. apply Hf. exact Hy.
Qed.

Lemma Forall_nth_error {A} (P : A -> Prop) l i x : Forall P l -> nth_error l i = Some x -> P x.
Proof. intros H Hx. rewrite Forall_forall in H. apply H. eapply nth_error_In. exact Hx. Qed.

Lemma process_frontier_measure vars : forall fr bs work,
  (forall v, In v vars -> In v U /\ vn_version v = None) -> Forall wok bs ->
  length (snd (process_frontier vars fr bs work)) + total_missing (fst (process_frontier vars fr bs work))
    <= length work + total_missing bs /\
  Forall wok (fst (process_frontier vars fr bs work)).
Proof.
  induction fr as [|f tl IH]; intros bs work Hv Hw; simpl; [split; [lia|exact Hw]|].
  destruct (nth_error bs (N.to_nat f)) as [b|] eqn:E; [|apply IH; assumption].
  pose proof (add_phis_measure vars b 0 Hv (Forall_nth_error _ _ _ _ Hw E)) as [A1 A2].
  destruct (add_phis vars b 0) as [b' pushes]. simpl in A1, A2.
  set (bs' := update_nth bs (N.to_nat f) (fun _ => b')).
  destruct (IH bs' (repeat (N.to_nat f) pushes ++ work) Hv) as [I1 I2].
  { apply Forall_update_nth; [exact Hw|]. intros _ _. exact A2. }
  split; [|exact I2].
  pose proof (total_missing_update bs (N.to_nat f) b b' E) as T. fold bs' in T.
  rewrite app_length, repeat_length in I1. lia.
Qed.

Lemma insert_phis_nf frontier : forall fuel bs work,
  Forall wok bs -> length work + total_missing bs <= fuel ->
  nf (insert_phis fuel frontier bs work).
Proof.
  induction fuel as [|fuel IH]; intros bs work Hw Hm.
  - destruct work; simpl in *; [discriminate|lia].
  - destruct work as [|cur rest]; simpl; [discriminate|]. simpl in Hm.
    destruct (nth_error bs cur) as [b|] eqn:E; [|discriminate].
    destruct (vars_written b) as [|v vs] eqn:Ev; [apply IH; [exact Hw|lia]|].
    assert (Hv : forall u, In u (v :: vs) -> In u U /\ vn_version u = None).
    { intros u Hu. rewrite <- Ev in Hu. apply (Forall_nth_error _ _ _ _ Hw E). apply vars_written_wr. exact Hu. }
    pose proof (process_frontier_measure (v :: vs) (nth cur frontier []) bs rest Hv Hw) as [P1 P2].
    destruct (process_frontier (v :: vs) (nth cur frontier []) bs rest) as [bs1 work1]. simpl in P1, P2.
    apply IH; [exact P2|lia].
Qed.

Lemma missing_le b : missing b <= length U.
Proof. apply filter_length_le. Qed.

Lemma total_missing_le bs : total_missing bs <= length bs * length U.
Proof.
  unfold total_missing. induction bs as [|b tl IH]; simpl; [lia|]. pose proof (missing_le b). lia.
Qed.
End Measure.

(* ------------------------------------------------------------------------ *)
(* into_ssa                                                                  *)
(* ------------------------------------------------------------------------ *)

(* every local that is assigned (the type tag of the assignment says Local) is
   among the declarations of the definition: IR lifting takes the tag from the
   declaration it found for the name *)
Definition written_declared (c : cfg) : bool :=
  forallb (fun s => match stmt_local_written s with
                    | Some v => existsb (vname_eqb v) (map fst (c_decls c))
                    | None => true
                    end) (flat_map b_stmts (c_blocks c)).

Lemma wok_initial c : unversioned c -> written_declared c = true ->
  Forall (wok (map fst (c_decls c))) (c_blocks c).
Proof.
  intros Hu Hd. apply Forall_forall. intros b Hb v Hv.
  apply In_nth_error in Hb. destruct Hb as [i Hi].
  pose proof (Hu i b Hi) as Hbu. unfold block_unv in Hbu. rewrite forallb_forall in Hbu.
  unfold written_declared in Hd. rewrite forallb_forall in Hd.
  unfold wr in Hv. apply in_flat_map in Hv. destruct Hv as (s & Hs & Hv).
  destruct (stmt_local_written s) as [w|] eqn:Ew; [|contradiction]. destruct Hv as [<-|[]].
  split.
  - assert (Hin : In s (flat_map b_stmts (c_blocks c))).
    { apply in_flat_map. exists b. split; [eapply nth_error_In; exact Hi|exact Hs]. }
    specialize (Hd s Hin). rewrite Ew in Hd. apply existsb_exists in Hd. destruct Hd as (x & Hx & Hxe).
    apply vname_eqb_eq in Hxe. subst x. exact Hx.
  - specialize (Hbu s Hs). destruct s; simpl in Ew; try discriminate.
    destruct stype as [[]|]; try discriminate. inversion Ew. subst w.
    simpl in Hbu. apply andb_prop in Hbu. destruct Hbu as [Hbu _]. apply isnone_true. exact Hbu.
Qed.

Theorem into_ssa_never_out_of_fuel frontier children c :
  unversioned c -> written_declared c = true -> 0 < length (c_blocks c) ->
  (forall j k, In k (kids children j) -> j < k /\ k < length (c_blocks c)) ->
  into_ssa frontier children c <> SFuel.
Proof.
  intros Hu Hd Hn Hk. change (nf (into_ssa frontier children c)). unfold into_ssa.
  set (n := length (c_blocks c)) in *.
  set (U := map fst (c_decls c)).
  apply nf_bind.
  - apply (insert_phis_nf U); [apply wok_initial; assumption|].
    rewrite rev_length, seq_length.
    pose proof (total_missing_le U (c_blocks c)) as T. fold n in T.
    set (D := length (c_decls c)) in *.
    assert (HU : length U = D) by (unfold U, D; apply map_length). rewrite HU in T.
    assert (H1 : D <= n * S D) by (destruct n; [lia|simpl; lia]).
    assert (H2 : n * D <= n * (n * S D)) by (apply Nat.mul_le_mono_l; exact H1).
    rewrite <- Nat.mul_assoc. lia.
  - intros bs1 E1. apply nf_bind.
    + apply (rename_tree_nf (c_decls c) children n Hk); lia.
    + intros [bs2 env] _. discriminate.
Qed.

(* The hypothesis [written_declared] cannot be dropped: a single block that is its
   own dominance frontier and assigns three locals none of which is declared is
   unversioned, its (empty) children lists satisfy the order facts, and the work
   list of the mirror runs out of its fuel  1*1*(0+1) + 1 + 1 = 3. *)
Definition fx_m : meta := {| m_start := 0%N; m_end := 0%N; m_file := None |}.
Definition fx_v (c : N) : vname := {| vn_name := [c]; vn_suffix := None; vn_version := None |}.
Definition fx_graph : cfg :=
  {| c_kind := KFunction; c_params := []; c_decls := [];
     c_blocks := [ {| b_index := 0%N; b_depth := 0%N; b_preds := [0%N]; b_succs := [0%N];
       b_stmts := [ SSubst fx_m (fx_v 97) OpVar (ENum 1 know0) None (Some TLocal);
                    SSubst fx_m (fx_v 98) OpVar (ENum 1 know0) None (Some TLocal);
                    SSubst fx_m (fx_v 99) OpVar (ENum 1 know0) None (Some TLocal) ] |} ] |}.

Lemma fuel_needs_declared :
  unversioned fx_graph /\ written_declared fx_graph = false /\
  (forall j k, In k (kids [[]] j) -> j < k /\ k < length (c_blocks fx_graph)) /\
  into_ssa [[0%N]] [[]] fx_graph = SFuel.
Proof.
  split; [|split; [reflexivity|split; [|vm_compute; reflexivity]]].
  - intros i b H. destruct i as [|i]; simpl in H.
    { inversion H. reflexivity. }
    destruct i; discriminate.
  - intros j k H. destruct j as [|j]; simpl in H; [contradiction|].
    destruct j; contradiction.
Qed.
