(* C12 "after into_ssa": a concrete definition for the Examples of props/C12.v.
     var x = 0; while (x < 3) { x = x + 1; }  x = x + 4;
   lifts (mirror of try_lift_impl) to four blocks  0 -> 1 -> 2|3, 2 -> 1 ; with the children and
   frontier lists of its dominator tree (0 - 1 - {2,3}; the frontier of blocks 1 and 2 is {1}) the
   SSA construction puts one phi assignment for x in front of the loop header, block 1, whose
   last statement stays the branch. *)
From Coq Require Import ZArith NArith List Bool String Ascii.
Require Import Model.Ast.
Require Model.Base Model.Ir Model.Ssa Model.SsaPre Model.LiftFull Model.Lift.
Import ListNotations.
Local Open Scope string_scope.

Definition em (a b : N) : meta := Meta a b (Some 0%N).
Definition ex (a b : N) : expression := Variable_ (em a b) "x" [].

Definition ex_body : statement :=
  Block (em 0 90)
    [InitializationBlock (em 1 10) VVar
       [Declaration (em 1 6) VVar "x" [] true; Substitution (em 5 10) "x" [] AssignVar (Number (em 9 10) 0)];
     While (em 12 60) (InfixOp (em 19 24) (ex 19 20) ILesser (Number (em 23 24) 3))
       (Block (em 26 40) [Substitution (em 28 38) "x" [] AssignVar (InfixOp (em 32 37) (ex 32 33) IAdd (Number (em 36 37) 1))]);
     Substitution (em 62 72) "x" [] AssignVar (InfixOp (em 66 71) (ex 66 67) IAdd (Number (em 70 71) 4))].

Definition ex_key (m : Ir.meta) : nat := N.to_nat (Ir.m_start m).
Definition ex_children : list (list N) := [[1%N]; [2%N; 3%N]; []; []].
Definition ex_frontier : list (list N) := [[]; [1%N]; [1%N]; []].

Definition ex_lifted : option Ir.cfg :=
  match LiftFull.lift_to_ir Ir.KTemplate [] (Some 0%N) (10%N, 12%N) ex_body with Base.Ok c => Some c | _ => None end.
Definition ex_c0 : Ir.cfg :=
  match ex_lifted with Some c => c | None => Ir.Build_cfg Ir.KTemplate [] [] [] end.
Definition ex_c1 : Ir.cfg :=
  match Ssa.into_ssa ex_frontier ex_children ex_c0 with Ssa.SOk c => c | _ => ex_c0 end.

Definition stmt_tag (s : Ir.stmt) : string :=
  match s with
  | Ir.SSubst _ _ _ (Ir.EPhi _ _) _ _ => "phi"
  | Ir.SSubst _ _ _ _ _ _ => "subst"
  | Ir.SDecl _ _ _ _ => "decl"
  | Ir.SIf _ _ _ _ => "if"
  | Ir.SRet _ _ => "ret" | Ir.SCeq _ _ _ => "ceq" | Ir.SLog _ _ => "log" | Ir.SAssert _ _ => "assert"
  end.
Definition shape (c : Ir.cfg) : list (N * N * list string * list N * list N) :=
  map (fun b => (Ir.b_index b, Ir.b_depth b, map stmt_tag (Ir.b_stmts b), Ir.b_preds b, Ir.b_succs b)) (Ir.c_blocks c).

Lemma ex_runs :
  LiftFull.lift_to_ir Ir.KTemplate [] (Some 0%N) (10%N, 12%N) ex_body = Base.Ok ex_c0 /\
  Ssa.into_ssa ex_frontier ex_children ex_c0 = Ssa.SOk ex_c1 /\
  shape ex_c0 = [ (0, 0, ["decl"; "subst"], [], [1]); (1, 0, ["if"], [0; 2], [2; 3]);
                  (2, 1, ["subst"], [1], [1]); (3, 0, ["subst"], [1], []) ]%N /\
  shape ex_c1 = [ (0, 0, ["decl"; "subst"], [], [1]); (1, 0, ["phi"; "if"], [0; 2], [2; 3]);
                  (2, 1, ["subst"], [1], [1]); (3, 0, ["subst"], [1], []) ]%N.
Proof. vm_compute. repeat split; reflexivity. Qed.
