(* C16 (second audit): the pass loop of Cfg::propagate_values on a closed
   expression over literals (Model.FieldDispatch.propagate_lit, which runs
   Model.Propagate.pv_expr with its `result || ...` short-circuits until a
   pass writes nothing) ends - within its fuel - in the tree in which EVERY
   node carries the constant the bottom-up dispatch (lit_dispatch) computes
   for it.  So the theorems stated about lit_dispatch are theorems about the
   mirror of the code that actually runs, not about a second function that is
   only compared with it case by case.

   Invariant of the loop ([partial]): every node carries either nothing or
   its bottom-up constant.  A pass that reports a write has filled one empty
   slot ([missing] decreases); a pass that reports none has found every slot
   holding its bottom-up constant ([annotated]). *)
From Coq Require Import ZArith List Bool Lia.
Require Import Model.Base Model.Field Model.Ir Model.Propagate Model.FieldDispatch.
Require Import Spec.FieldSpec Spec.DispatchSpec Proofs.DispatchProofs.
From Coq Require Import Znumtheory.
Import ListNotations.
Local Open Scope Z_scope.

Section Loop.
Variable p : Z.

Definition partial : lexpr -> expr -> Prop :=
  ann (fun e k => kval k = None \/ lit_dispatch p e = Ok (kval k)).

Definition slot (k : know) : nat := match kval k with None => 1%nat | Some _ => 0%nat end.

Fixpoint missing (x : expr) : nat :=
  match x with
  | ENum _ k => slot k
  | EInfix _ l r k => (missing l + missing r + slot k)%nat
  | EPrefix _ a k => (missing a + slot k)%nat
  | _ => 0%nat
  end.

Lemma partial_start e : partial e (to_expr e).
Proof.
  induction e; cbn [partial ann to_expr know0 kval]; repeat split; auto.
Qed.

Lemma missing_start e : missing (to_expr e) = lsize e.
Proof.
  induction e; cbn [to_expr missing lsize slot know0 kval]; lia.
Qed.

Lemma partial_val e x : partial e x -> expr_val x = None \/ lit_dispatch p e = Ok (expr_val x).
Proof.
  destruct e, x; cbn [partial annotated ann expr_val expr_know]; try tauto; intros H; decompose [and] H; assumption.
Qed.

Lemma annotated_val e x : annotated p e x -> lit_dispatch p e = Ok (expr_val x).
Proof.
  destruct e, x; cbn [partial annotated ann expr_val expr_know]; try tauto; intros H; decompose [and] H; assumption.
Qed.

Lemma annotated_partial e : forall x, annotated p e x -> partial e x.
Proof.
  induction e; destruct x; cbn [partial annotated ann]; try tauto.
  - intros (-> & H1 & H2 & H). split; [reflexivity|]. split; [apply IHe1; exact H1|]. split; [apply IHe2; exact H2|right; exact H].
  - intros (-> & H1 & H). split; [reflexivity|]. split; [apply IHe; exact H1|right; exact H].
Qed.

Lemma infix_none_l op b : infix_values op None b p = Ok None.
Proof. reflexivity. Qed.
Lemma infix_none_r op a : infix_values op a None p = Ok None.
Proof. destruct a as [[]|]; reflexivity. Qed.
Lemma prefix_none op : prefix_values op None p = None.
Proof. reflexivity. Qed.

(* writing v into a slot that holds nothing or v *)
Lemma set_val_slot k v :
  (kval k = None \/ kval k = Some v) ->
  kval (fst (set_val k v)) = Some v /\
  (snd (set_val k v) = false -> kval k = Some v) /\
  (snd (set_val k v) = true -> slot k = 1%nat) /\ slot (fst (set_val k v)) = 0%nat.
Proof.
  intros H. unfold set_val, slot. cbn [fst snd kval].
  destruct (kval k) eqn:E.
  - destruct H as [H|H]; [discriminate|]. repeat split; auto; discriminate.
  - repeat split; auto; discriminate.
Qed.

(* one visit *)
Lemma pass_step e : forall x o, partial e x -> lit_dispatch p e = Ok o ->
  exists b x', pv_expr p [] x = Ok (b, x') /\ partial e x' /\
    (b = false -> annotated p e x') /\
    (b = true -> (missing x' < missing x)%nat) /\ (missing x' <= missing x)%nat.
Proof.
  induction e as [z|op l IHl r IHr|op a IHa]; intros x o Hp Ho; destruct x; try (cbn [partial ann] in Hp; tauto).
  - (* literal *)
    cbn [partial ann] in Hp. destruct Hp as [-> Hk]. cbn [lit_dispatch] in *.
    cbn [pv_expr].
    assert (Hk' : kval k = None \/ kval k = Some (VField (Z.rem z p))).
    { destruct Hk as [H|H]; [left; exact H|right; congruence]. }
    destruct (set_val_slot k _ Hk') as (S1 & S2 & S3 & S4).
    destruct (set_val k (VField (Z.rem z p))) as [k' b] eqn:Es. cbn [fst snd] in *.
    exists b, (ENum z k'). split; [reflexivity|]. cbn [partial ann annotated missing lit_dispatch].
    split; [|split; [|split]].
    + split; [reflexivity|]. right. rewrite S1. reflexivity.
    + intros _. split; [reflexivity|]. rewrite S1. reflexivity.
    + intros Hb. specialize (S3 Hb). lia.
    + destruct b; [specialize (S3 eq_refl); lia|]. specialize (S2 eq_refl).
      unfold slot in *. rewrite S2. rewrite S1. lia.
  - (* infix *)
    cbn [partial ann] in Hp. destruct Hp as (-> & Hl & Hr & Hk).
    cbn [lit_dispatch] in Ho.
    destruct (lit_dispatch p l) as [fa| | |] eqn:Dl; try discriminate.
    destruct (lit_dispatch p r) as [fb| | |] eqn:Dr; try discriminate.
    cbn [bind] in Ho.
    destruct (IHl _ _ Hl eq_refl) as (b1 & l' & El & Pl & Al & Ml & Ml').
    cbn [pv_expr]. rewrite El. cbn [bind].
    (* the right operand: visited only if the left one wrote nothing *)
    assert (exists b2 r', (if b1 then Ok (true, x2) else pv_expr p [] x2) = Ok (b2, r') /\
              partial r r' /\ (b2 = false -> b1 = false /\ annotated p r r') /\
              (b2 = true -> (missing l' + missing r' < missing x1 + missing x2)%nat) /\
              (missing r' <= missing x2)%nat) as (b2 & r' & Er & Pr & Ar & Mr & Mr').
    { destruct b1.
      - exists true, x2. split; [reflexivity|]. split; [exact Hr|]. split; [discriminate|].
        split; [|lia]. intros _. specialize (Ml eq_refl). lia.
      - destruct (IHr _ _ Hr eq_refl) as (b2 & r' & Er & Pr & Ar & Mr & Mr').
        exists b2, r'. split; [exact Er|]. split; [exact Pr|]. split; [intros Hb; split; [reflexivity|exact (Ar Hb)]|].
        split; [|exact Mr']. intros Hb. specialize (Mr Hb). lia. }
    rewrite Er. cbn [bind].
    (* the constant computed from the operands' slots: nothing, or the bottom-up one *)
    assert (exists o', infix_values op (expr_val l') (expr_val r') p = Ok o' /\ (o' = None \/ o' = o) /\
              (annotated p l l' -> annotated p r r' -> o' = o)) as (o' & Eo & Co & Fo).
    { destruct (partial_val _ _ Pl) as [Vl|Vl].
      { rewrite Vl, infix_none_l. exists None. split; [reflexivity|]. split; [left; reflexivity|].
        intros Hl' _. apply annotated_val in Hl'. rewrite Dl in Hl'. injection Hl' as ->.
        rewrite Vl, infix_none_l in Ho. congruence. }
      destruct (partial_val _ _ Pr) as [Vr|Vr].
      { rewrite Vr, infix_none_r. exists None. split; [reflexivity|]. split; [left; reflexivity|].
        intros _ Hr'. apply annotated_val in Hr'. rewrite Dr in Hr'. injection Hr' as ->.
        rewrite Vr, infix_none_r in Ho. congruence. }
      rewrite Dl in Vl. rewrite Dr in Vr. injection Vl as <-. injection Vr as <-.
      exists o. split; [exact Ho|]. split; [right; reflexivity|]. intros _ _. reflexivity. }
    rewrite Eo. cbn [bind].
    assert (Hfin0 : lit_dispatch p (LInfix op l r) = Ok o).
    { cbn [lit_dispatch]. rewrite Dl, Dr. cbn [bind]. exact Ho. }
    destruct o' as [v|].
    + (* a constant is computed: written unless something was written before in this visit *)
      assert (o = Some v) as -> by (destruct Co; congruence).
      unfold sc_set_val. destruct b2.
      * exists true, (EInfix op l' r' k). split; [reflexivity|]. cbn [partial ann annotated missing].
        split; [|split; [|split]].
        -- split; [reflexivity|]. split; [exact Pl|]. split; [exact Pr|exact Hk].
        -- discriminate.
        -- intros _. specialize (Mr eq_refl). lia.
        -- specialize (Mr eq_refl). lia.
      * destruct (Ar eq_refl) as [-> Ar'].
        cbn [expr_know set_know].
        assert (Hk' : kval k = None \/ kval k = Some v).
        { destruct Hk as [H|H]; [left; exact H|right]. rewrite Hfin0 in H. congruence. }
        destruct (set_val_slot k _ Hk') as (S1 & S2 & S3 & S4).
        destruct (set_val k v) as [k' b] eqn:Es. cbn [fst snd] in *.
        exists b, (EInfix op l' r' k'). split; [reflexivity|].
        assert (Hfin : lit_dispatch p (LInfix op l r) = Ok (kval k')).
        { rewrite S1. exact Hfin0. }
        cbn [partial ann annotated missing].
        split; [|split; [|split]].
        -- split; [reflexivity|]. split; [exact Pl|]. split; [exact Pr|right; exact Hfin].
        -- intros _. split; [reflexivity|]. split; [exact (Al eq_refl)|]. split; [exact Ar'|exact Hfin].
        -- intros Hb. specialize (S3 Hb). lia.
        -- destruct b; [specialize (S3 eq_refl); lia|]. specialize (S2 eq_refl).
           unfold slot in *. rewrite S2, S1. lia.
    + (* no constant: the slot is left alone *)
      exists b2, (EInfix op l' r' k). split; [reflexivity|]. cbn [partial ann annotated missing].
      split; [|split; [|split]].
      * split; [reflexivity|]. split; [exact Pl|]. split; [exact Pr|exact Hk].
      * intros Hb. destruct (Ar Hb) as [-> Ar'].
        split; [reflexivity|]. split; [exact (Al eq_refl)|]. split; [exact Ar'|].
        assert (o = None) as -> by (symmetry; apply Fo; [exact (Al eq_refl)|exact Ar']).
        destruct Hk as [H|H]; [rewrite H; exact Hfin0|exact H].
      * intros Hb. specialize (Mr Hb). lia.
      * lia.
  - (* prefix *)
    cbn [partial ann] in Hp. destruct Hp as (-> & Ha & Hk).
    cbn [lit_dispatch] in Ho.
    destruct (lit_dispatch p a) as [fa| | |] eqn:Da; try discriminate.
    cbn [bind] in Ho. injection Ho as Ho.
    destruct (IHa _ _ Ha eq_refl) as (b1 & a' & Ea & Pa & Aa & Ma & Ma').
    cbn [pv_expr]. rewrite Ea. cbn [bind].
    assert (exists o', prefix_values op (expr_val a') p = o' /\ (o' = None \/ o' = o) /\
              (annotated p a a' -> o' = o)) as (o' & Eo & Co & Fo).
    { destruct (partial_val _ _ Pa) as [Va|Va].
      - rewrite Va, prefix_none. exists None. split; [reflexivity|]. split; [left; reflexivity|].
        intros Ha'. apply annotated_val in Ha'. rewrite Da in Ha'. injection Ha' as ->.
        rewrite Va, prefix_none in Ho. exact Ho.
      - rewrite Da in Va. injection Va as <-. exists o. split; [exact Ho|]. split; [right; reflexivity|].
        intros _. reflexivity. }
    rewrite Eo.
    assert (Hfin0 : lit_dispatch p (LPrefix op a) = Ok o).
    { cbn [lit_dispatch]. rewrite Da. cbn [bind]. rewrite Ho. reflexivity. }
    destruct o' as [v|].
    + assert (o = Some v) as -> by (destruct Co; congruence).
      unfold sc_set_val. destruct b1.
      * exists true, (EPrefix op a' k). split; [reflexivity|]. cbn [partial ann annotated missing].
        split; [|split; [|split]].
        -- split; [reflexivity|]. split; [exact Pa|exact Hk].
        -- discriminate.
        -- intros _. specialize (Ma eq_refl). lia.
        -- lia.
      * cbn [expr_know set_know].
        assert (Hk' : kval k = None \/ kval k = Some v).
        { destruct Hk as [H|H]; [left; exact H|right]. rewrite Hfin0 in H. congruence. }
        destruct (set_val_slot k _ Hk') as (S1 & S2 & S3 & S4).
        destruct (set_val k v) as [k' b] eqn:Es. cbn [fst snd] in *.
        exists b, (EPrefix op a' k'). split; [reflexivity|].
        assert (Hfin : lit_dispatch p (LPrefix op a) = Ok (kval k')).
        { rewrite S1. exact Hfin0. }
        cbn [partial ann annotated missing].
        split; [|split; [|split]].
        -- split; [reflexivity|]. split; [exact Pa|right; exact Hfin].
        -- intros _. split; [reflexivity|]. split; [exact (Aa eq_refl)|exact Hfin].
        -- intros Hb. specialize (S3 Hb). lia.
        -- destruct b; [specialize (S3 eq_refl); lia|]. specialize (S2 eq_refl).
           unfold slot in *. rewrite S2, S1. lia.
    + exists b1, (EPrefix op a' k). split; [reflexivity|]. cbn [partial ann annotated missing].
      split; [|split; [|split]].
      * split; [reflexivity|]. split; [exact Pa|exact Hk].
      * intros Hb. split; [reflexivity|]. split; [exact (Aa Hb)|].
        assert (o = None) as -> by (symmetry; apply Fo; exact (Aa Hb)).
        destruct Hk as [H|H]; [rewrite H; exact Hfin0|exact H].
      * intros Hb. specialize (Ma Hb). lia.
      * lia.
Qed.

(* the loop: enough fuel for one pass per empty slot, plus the pass that finds nothing to write *)
Lemma pass_loop_converges e o : lit_dispatch p e = Ok o ->
  forall fuel x, partial e x -> (missing x < fuel)%nat ->
  exists x', pass_loop fuel p x = Ok x' /\ annotated p e x'.
Proof.
  intros Ho. induction fuel as [|n IH]; intros x Hp Hm; [lia|].
  destruct (pass_step e x o Hp Ho) as (b & x' & E & P' & A & M & _).
  cbn [pass_loop]. rewrite E. cbn [bind].
  destruct b.
  - apply IH; [exact P'|]. specialize (M eq_refl). lia.
  - exists x'. split; [reflexivity|]. exact (A eq_refl).
Qed.

End Loop.

(* the pass loop ends, within its fuel, with every node carrying its bottom-up constant *)
Theorem propagate_lit_reaches_dispatch p e o :
  lit_dispatch p e = Ok o ->
  exists x, propagate_lit p e = Ok x /\ annotated p e x /\ expr_val x = o.
Proof.
  intros Ho.
  destruct (pass_loop_converges p e o Ho (S (S (lsize e))) (to_expr e) (partial_start p e)) as (x & E & A).
  { rewrite missing_start. lia. }
  exists x. split; [exact E|]. split; [exact A|].
  pose proof (annotated_val p e x A) as H. rewrite Ho in H. congruence.
Qed.

(* with the hypotheses under which the dispatch is total (Proofs.DispatchProofs.dispatch_total) *)
Theorem propagate_lit_total p : prime p -> 2 < p -> Z.log2 p < 2 ^ 64 ->
  forall e, lits_nonneg e ->
  exists x o, propagate_lit p e = Ok x /\ lit_dispatch p e = Ok o /\ annotated p e x /\ expr_val x = o.
Proof.
  intros Hp H2 Hl e He.
  destruct (dispatch_total p Hp H2 Hl e He) as [o Ho].
  destruct (propagate_lit_reaches_dispatch p e o Ho) as (x & E & A & V).
  exists x, o. auto.
Qed.

