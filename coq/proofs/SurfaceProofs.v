(* C13, last sentence: the expansions the parser builds (mirrored by
   Model.Lift.desugar / for_into_while and Model.Shortcuts.parse_substitution)
   refine the independent semantics of the source forms (Spec.SurfaceSpec). *)
From stdpp Require Import list.
Require Import Model.Lift Model.Shortcuts Spec.CfgSpec Spec.SurfaceSpec
  Proofs.LiftProofs Proofs.LiftSim Proofs.RunFuel Proofs.CfgContains.
Import Base(outcome, Ok).

(* ------------------------------------------------------------------ *)
(* compound assignments                                                *)
(* ------------------------------------------------------------------ *)
Lemma expected_statement_sem {N V} `{EqDecision N, EqDecision V}
    (bop : binop -> V -> V -> V) (num : nat -> V) (fld : N -> V) (s : cstmt N) (st : store N V) :
  exec_stmt bop num fld (expected_statement s) st = exec_stmt bop num fld s st.
Proof. destruct s; reflexivity. Qed.

Lemma parse_substitution_sem {N V} `{EqDecision N, EqDecision V}
    (bop : binop -> V -> V -> V) (num : nat -> V) (fld : N -> V) (s : cstmt N) (st : store N V) :
  exec_stmt bop num fld (parse_substitution s) st = exec_stmt bop num fld s st.
Proof. destruct s; reflexivity. Qed.

(* the specification's expansion and the mirror of ast_shortcuts.rs are the same
   function: the two lemmas above are one fact (second audit); only the one
   about the mirror is an obligation (C13_compound_mirror_sem) *)
Lemma parse_substitution_is_expected_statement {N} (s : cstmt N) :
  parse_substitution s = expected_statement s.
Proof. destruct s; reflexivity. Qed.

(* the statement is sharp: with the operands the other way round, or with
   another constant, the assignment means something else *)
Lemma swapped_operands_differ :
  exists (bop : binop -> nat -> nat -> nat) (num : nat -> nat) (st : store nat nat) (e : ex nat),
    exec_stmt bop num (fun _ => 0) (CAssign 0 [] (EInfix Sub e (EVar 0 []))) st 0 []
    <> exec_stmt bop num (fun _ => 0) (COpAssign Sub 0 [] e) st 0 [].
Proof.
  exists (fun op a b => match op with Sub => a - b | _ => 0 end), (fun n => n), (fun _ _ => 5), (ENum 3).
  vm_compute. discriminate.
Qed.

Lemma plus_two_differs :
  exists (bop : binop -> nat -> nat -> nat) (num : nat -> nat) (st : store nat nat),
    exec_stmt bop num (fun _ => 0) (CAssign 0 [] (EInfix Add (EVar 0 []) (ENum 2))) st 0 []
    <> exec_stmt bop num (fun _ => 0) (CInc 0 []) st 0 [].
Proof.
  exists (fun op a b => match op with Add => a + b | _ => 0 end), (fun n => n), (fun _ _ => 5).
  vm_compute. discriminate.
Qed.

(* ------------------------------------------------------------------ *)
(* surface skeletons: relation -> expansion                            *)
(* ------------------------------------------------------------------ *)
Lemma desugar_for i c stp b :
  desugar (UFor i c stp b) = SBlock [desugar i; SWhile c (SBlock [desugar b; desugar stp])].
Proof. reflexivity. Qed.

Lemma run_seq_two s1 s2 ds :
  run_seq [s1; s2] ds =
    let '(tr1, ds1, st1) := run s1 ds in
    match st1 with
    | Running => let '(tr2, ds2, st2) := run s2 ds1 in (tr1 ++ tr2, ds2, st2)
    | _ => (tr1, ds1, st1)
    end.
Proof.
  simpl. destruct (run s1 ds) as [[tr1 ds1] st1]. destruct st1; try done.
  destruct (run s2 ds1) as [[tr2 ds2] st2]. destruct st2; by rewrite ?app_nil_r.
Qed.

Lemma run_loop_unfold c rb fuel ds :
  run_loop c rb (S fuel) ds =
    match ds with
    | [] => ([KCond c], [], Exhausted)
    | false :: ds1 => ([KCond c], ds1, Running)
    | true :: ds1 =>
        let '(tr1, ds2, st1) := rb ds1 in
        match st1 with
        | Running => let '(tr2, ds3, st2) := run_loop c rb fuel ds2 in (KCond c :: tr1 ++ tr2, ds3, st2)
        | _ => (KCond c :: tr1, ds2, st1)
        end
    end.
Proof. reflexivity. Qed.

Definition P_exec (u : usk) (ds : list bool) (tr : list key) (ds' : list bool) (st : status) : Prop :=
  run (desugar u) ds = (tr, ds', st).
Definition P_seq (ss : list usk) (ds : list bool) (tr : list key) (ds' : list bool) (st : status) : Prop :=
  run_seq (map desugar ss) ds = (tr, ds', st).
Definition P_while (c : nat) (b : usk) (ds : list bool) (tr : list key) (ds' : list bool) (st : status) : Prop :=
  forall fuel, length ds < fuel -> run_loop c (run (desugar b)) fuel ds = (tr, ds', st).
Definition P_for (c : nat) (stp b : usk) (ds : list bool) (tr : list key) (ds' : list bool) (st : status) : Prop :=
  forall fuel, length ds < fuel ->
    run_loop c (run (SBlock [desugar b; desugar stp])) fuel ds = (tr, ds', st).

Lemma uexec_run_all :
  (forall u ds tr ds' st, uexec u ds tr ds' st -> P_exec u ds tr ds' st) /\
  (forall ss ds tr ds' st, useq ss ds tr ds' st -> P_seq ss ds tr ds' st) /\
  (forall c b ds tr ds' st, uwhile c b ds tr ds' st -> P_while c b ds tr ds' st) /\
  (forall c stp b ds tr ds' st, ufor c stp b ds tr ds' st -> P_for c stp b ds tr ds' st).
Proof.
  apply uexec_mutind; unfold P_exec, P_seq, P_while, P_for.
  - (* leaf *) intros id r ds. simpl. by destruct r.
  - (* compound *) done.
  - (* init *) intros ss ds tr ds' st _ IH. simpl desugar. by rewrite run_init.
  - (* block *) intros ss ds tr ds' st _ IH. simpl desugar. by rewrite run_block.
  - (* while *) intros c b ds tr ds' st _ IH. simpl desugar. rewrite run_while. apply IH. lia.
  - (* if, no decision *) done.
  - (* if true *) intros c t e ds tr ds' st _ IH. simpl. by rewrite IH.
  - (* if false, else *) intros c t e ds tr ds' st _ IH. simpl. by rewrite IH.
  - (* if false, no else *) done.
  - (* for: init stops *)
    intros i c stp b ds tr ds' st _ IH Hst. rewrite desugar_for, run_block, run_seq_two, IH.
    by destruct st.
  - (* for *)
    intros i c stp b ds tr1 ds1 tr2 ds2 st _ IHi _ IHf.
    rewrite desugar_for, run_block, run_seq_two, IHi, run_while, IHf by lia. done.
  - (* seq nil *) done.
  - (* seq stop *) intros s r ds tr ds' st _ IH Hst. simpl. rewrite IH. by destruct st.
  - (* seq next *) intros s r ds tr1 ds1 tr2 ds2 st _ IH1 _ IH2. simpl. by rewrite IH1, IH2.
  - (* while, no decision *) intros c b [|fuel] Hf; [simpl in Hf; lia|done].
  - (* while false *) intros c b ds [|fuel] Hf; [simpl in Hf; lia|done].
  - (* while: body stops *)
    intros c b ds tr ds' st _ IH Hst [|fuel] Hf; [simpl in Hf; lia|].
    rewrite run_loop_unfold, IH. by destruct st.
  - (* while: again *)
    intros c b ds tr1 ds1 tr2 ds2 st _ IH1 _ IH2 [|fuel] Hf; [simpl in Hf; lia|].
    rewrite run_loop_unfold, IH1, IH2; [done|].
    destruct (run_shrinks _ _ _ _ _ IH1). simpl in Hf. lia.
  - (* for, no decision *) intros c stp b [|fuel] Hf; [simpl in Hf; lia|done].
  - (* for false *) intros c stp b ds [|fuel] Hf; [simpl in Hf; lia|done].
  - (* for: body stops *)
    intros c stp b ds tr ds' st _ IH Hst [|fuel] Hf; [simpl in Hf; lia|].
    rewrite run_loop_unfold, run_block, run_seq_two, IH. by destruct st.
  - (* for: step stops *)
    intros c stp b ds tr1 ds1 tr2 ds2 st _ IH1 _ IH2 Hst [|fuel] Hf; [simpl in Hf; lia|].
    rewrite run_loop_unfold, run_block, run_seq_two, IH1, IH2. by destruct st.
  - (* for: again *)
    intros c stp b ds tr1 ds1 tr2 ds2 tr3 ds3 st _ IH1 _ IH2 _ IH3 [|fuel] Hf; [simpl in Hf; lia|].
    rewrite run_loop_unfold, run_block, run_seq_two, IH1, IH2, IH3.
    + by rewrite <- app_assoc.
    + destruct (run_shrinks _ _ _ _ _ IH1). destruct (run_shrinks _ _ _ _ _ IH2). simpl in Hf. lia.
Qed.

Theorem uexec_run u ds tr ds' st : uexec u ds tr ds' st -> run (desugar u) ds = (tr, ds', st).
Proof. apply uexec_run_all. Qed.

(* ------------------------------------------------------------------ *)
(* expansion -> relation (so the relation is total and deterministic)  *)
(* ------------------------------------------------------------------ *)
Section usk_induction.
  Variable Q : usk -> Prop.
  Hypothesis HL : forall id r, Q (ULeaf id r).
  Hypothesis HC : forall id, Q (UCompound id).
  Hypothesis HN : forall ss, Forall Q ss -> Q (UInit ss).
  Hypothesis HB : forall ss, Forall Q ss -> Q (UBlock ss).
  Hypothesis HW : forall c b, Q b -> Q (UWhile c b).
  Hypothesis HI : forall c t e, Q t -> (forall e', e = Some e' -> Q e') -> Q (UIf c t e).
  Hypothesis HF : forall i c stp b, Q i -> Q stp -> Q b -> Q (UFor i c stp b).

  Fixpoint usk_ind' (u : usk) : Q u :=
    match u with
    | ULeaf id r => HL id r
    | UCompound id => HC id
    | UInit ss => HN ss ((fix go ss : Forall Q ss :=
                            match ss with
                            | [] => Forall_nil_2 Q
                            | s :: r => Forall_cons_2 Q s r (usk_ind' s) (go r)
                            end) ss)
    | UBlock ss => HB ss ((fix go ss : Forall Q ss :=
                            match ss with
                            | [] => Forall_nil_2 Q
                            | s :: r => Forall_cons_2 Q s r (usk_ind' s) (go r)
                            end) ss)
    | UWhile c b => HW c b (usk_ind' b)
    | UIf c t e => HI c t e (usk_ind' t)
                     (match e as e0 return forall e', e0 = Some e' -> Q e' with
                      | Some e1 => fun e' H => match H in _ = x return match x with Some y => Q y | None => True end
                                               with eq_refl => usk_ind' e1 end
                      | None => fun e' H => match H in _ = x return match x with Some y => Q y | None => True end
                                            with eq_refl => I end
                      end)
    | UFor i c stp b => HF i c stp b (usk_ind' i) (usk_ind' stp) (usk_ind' b)
    end.
End usk_induction.

Definition complete_for (u : usk) : Prop :=
  forall ds tr ds' st, run (desugar u) ds = (tr, ds', st) -> uexec u ds tr ds' st.

Lemma not_diverged s ds tr ds' st : run s ds = (tr, ds', st) -> st <> Diverged.
Proof. intros H. by destruct (run_shrinks s _ _ _ _ H). Qed.

Lemma run_seq_useq ss : Forall complete_for ss ->
  forall ds tr ds' st, run_seq (map desugar ss) ds = (tr, ds', st) -> useq ss ds tr ds' st.
Proof.
  induction 1 as [|s r Hs _ IH]; intros ds tr ds' st Hr; simpl in Hr.
  - injection Hr as <- <- <-. constructor.
  - destruct (run (desugar s) ds) as [[tr1 ds1] st1] eqn:E. apply Hs in E.
    destruct st1; try (injection Hr as <- <- <-; by apply us_stop).
    destruct (run_seq (map desugar r) ds1) as [[tr2 ds2] st2] eqn:E2. injection Hr as <- <- <-.
    eapply us_next; [exact E|by apply IH].
Qed.

Lemma run_loop_uwhile c b : complete_for b ->
  forall fuel ds tr ds' st, run_loop c (run (desugar b)) fuel ds = (tr, ds', st) -> st <> Diverged ->
  uwhile c b ds tr ds' st.
Proof.
  intros Hb. induction fuel as [|fuel IH]; intros ds tr ds' st Hr Hnd.
  - simpl in Hr. injection Hr as <- <- <-. done.
  - rewrite run_loop_unfold in Hr. destruct ds as [|[] ds1].
    + injection Hr as <- <- <-. constructor.
    + destruct (run (desugar b) ds1) as [[tr1 ds2] st1] eqn:E. apply Hb in E.
      destruct st1; try (injection Hr as <- <- <-; by apply uw_body_stops).
      destruct (run_loop c (run (desugar b)) fuel ds2) as [[tr2 ds3] st2] eqn:E2. injection Hr as <- <- <-.
      eapply uw_again; [exact E|by apply IH].
    + injection Hr as <- <- <-. constructor.
Qed.

Lemma run_loop_ufor c stp b : complete_for stp -> complete_for b ->
  forall fuel ds tr ds' st,
    run_loop c (run (SBlock [desugar b; desugar stp])) fuel ds = (tr, ds', st) -> st <> Diverged ->
    ufor c stp b ds tr ds' st.
Proof.
  intros Hs Hb. induction fuel as [|fuel IH]; intros ds tr ds' st Hr Hnd.
  - simpl in Hr. injection Hr as <- <- <-. done.
  - rewrite run_loop_unfold in Hr. destruct ds as [|[] ds1].
    + injection Hr as <- <- <-. constructor.
    + rewrite run_block, run_seq_two in Hr.
      destruct (run (desugar b) ds1) as [[tr1 ds2] st1] eqn:E. apply Hb in E.
      destruct st1; try (injection Hr as <- <- <-; by apply uf_body_stops).
      destruct (run (desugar stp) ds2) as [[tr2 ds3] st2] eqn:E2. apply Hs in E2.
      destruct st2; try (injection Hr as <- <- <-; by eapply uf_step_stops).
      destruct (run_loop c (run (SBlock [desugar b; desugar stp])) fuel ds3) as [[tr3 ds4] st3] eqn:E3.
      injection Hr as <- <- <-. rewrite <- app_assoc.
      eapply uf_again; [exact E|exact E2|by apply IH].
    + injection Hr as <- <- <-. constructor.
Qed.

Theorem run_uexec u : complete_for u.
Proof.
  induction u as [id r|id|ss IH|ss IH|c b IH|c t e IHt IHe|i c stp b IHi IHs IHb] using usk_ind';
    intros ds tr ds' st Hr.
  - simpl in Hr. injection Hr as <- <- <-. constructor.
  - simpl in Hr. injection Hr as <- <- <-. constructor.
  - simpl desugar in Hr. rewrite run_init in Hr. constructor. by apply run_seq_useq.
  - simpl desugar in Hr. rewrite run_block in Hr. constructor. by apply run_seq_useq.
  - pose proof (not_diverged _ _ _ _ _ Hr) as Hnd. simpl desugar in Hr. rewrite run_while in Hr.
    constructor. by eapply run_loop_uwhile.
  - simpl in Hr. destruct ds as [|[] ds1].
    + injection Hr as <- <- <-. constructor.
    + destruct (run (desugar t) ds1) as [[tr1 ds2] st1] eqn:E. injection Hr as <- <- <-.
      apply ux_if_true. by apply IHt.
    + destruct e as [e|]; simpl in Hr.
      * destruct (run (desugar e) ds1) as [[tr1 ds2] st1] eqn:E. injection Hr as <- <- <-.
        apply ux_if_false_else. by apply (IHe e eq_refl).
      * injection Hr as <- <- <-. constructor.
  - pose proof (not_diverged _ _ _ _ _ Hr) as Hnd.
    rewrite desugar_for, run_block, run_seq_two in Hr.
    destruct (run (desugar i) ds) as [[tr1 ds1] st1] eqn:E. apply IHi in E.
    destruct st1; try (injection Hr as <- <- <-; by apply ux_for_init_stops).
    destruct (run (SWhile c (SBlock [desugar b; desugar stp])) ds1) as [[tr2 ds2] st2] eqn:E2.
    injection Hr as <- <- <-. rewrite run_while in E2.
    eapply ux_for; [exact E|]. by eapply run_loop_ufor.
Qed.

Theorem uexec_iff_run u ds tr ds' st :
  uexec u ds tr ds' st <-> run (desugar u) ds = (tr, ds', st).
Proof. split; [apply uexec_run|apply run_uexec]. Qed.

Theorem uexec_total u ds : exists tr ds' st, uexec u ds tr ds' st /\ st <> Diverged.
Proof.
  destruct (run (desugar u) ds) as [[tr ds'] st] eqn:E. exists tr, ds', st.
  split; [by apply run_uexec|by eapply not_diverged].
Qed.

Theorem uexec_deterministic u ds tr1 ds1 st1 tr2 ds2 st2 :
  uexec u ds tr1 ds1 st1 -> uexec u ds tr2 ds2 st2 -> tr1 = tr2 /\ ds1 = ds2 /\ st1 = st2.
Proof.
  intros H1%uexec_run H2%uexec_run. rewrite H1 in H2. by injection H2 as <- <- <-.
Qed.

(* ------------------------------------------------------------------ *)
(* the property for surface programs                                   *)
(* ------------------------------------------------------------------ *)
Theorem cfg_contains_surface_execution u g ds tr ds' st :
  lift (desugar u) = Ok g -> uexec u ds tr ds' st ->
  exists n0, forall n, n0 <= n -> tr `prefix_of` walk n g ds.
Proof.
  intros Hl Hx%uexec_run. destruct (cfg_contains_source _ _ ds Hl) as (n0 & Hn0).
  exists n0. intros n Hn. specialize (Hn0 n Hn). unfold trace in Hn0. by rewrite Hx in Hn0.
Qed.

Theorem cfg_equals_surface_execution_at_end u g ds tr ds' :
  lift (desugar u) = Ok g -> uexec u ds tr ds' Running ->
  exists n0, forall n, n0 <= n -> walk n g ds = tr.
Proof.
  intros Hl Hx%uexec_run.
  destruct (cfg_equals_source_at_end _ _ ds Hl) as (n0 & Hn0).
  { unfold final_status. by rewrite Hx. }
  exists n0. intros n Hn. specialize (Hn0 n Hn). unfold trace in Hn0. by rewrite Hx in Hn0.
Qed.
