(* C20, the universal statement: whatever the number of passes, the value
   claims Model.Propagate has attached so far are accepted by the validator
   Justify.vjust_cfg (hence true, by Proofs.ValueProofs).

   Part 1: expressions.  Justification relative to the value environment,
   monotone in the environment, preserved (together with the stability of
   existing claims) by pv_expr. *)
From Coq Require Import ZArith List Bool Lia.
Require Import Model.Base Model.Field Model.Ir Model.Propagate Model.Justify.
Require Import Spec.ValueSem Proofs.IrInd Proofs.ValueProofs.
Import ListNotations.
Local Open Scope Z_scope.

(* ---------- environments ---------- *)
Definition env_le (e1 e2 : venv) : Prop := forall v x, venv_get e1 v = Some x -> venv_get e2 v = Some x.

Lemma env_le_refl e : env_le e e. Proof. intros v x H. exact H. Qed.
Lemma env_le_trans a b c : env_le a b -> env_le b c -> env_le a c.
Proof. intros H1 H2 v x H. auto. Qed.

Lemma venv_add_le env v x env' : venv_add env v x = Ok env' -> env_le env env'.
Proof.
  unfold venv_add. destruct (venv_get env v) as [y|] eqn:E.
  - destruct (vred_eqb y x); [|discriminate]. intros [= <-]. apply env_le_refl.
  - intros [= <-]. intros w z Hw. cbn [venv_get].
    destruct (vname_eqb v w) eqn:Ev; [|exact Hw].
    apply vname_eqb_eq in Ev. subst w. congruence.
Qed.

Lemma venv_add_get env v x env' : venv_add env v x = Ok env' -> venv_get env' v = Some x.
Proof.
  unfold venv_add. destruct (venv_get env v) as [y|] eqn:E.
  - destruct (vred_eqb y x) eqn:Ey; [|discriminate]. intros [= <-]. apply vred_eqb_eq in Ey. congruence.
  - intros [= <-]. cbn [venv_get]. rewrite vname_eqb_refl. reflexivity.
Qed.

Lemma venv_add_other env v x env' w : venv_add env v x = Ok env' -> w <> v -> venv_get env' w = venv_get env w.
Proof.
  unfold venv_add. destruct (venv_get env v) as [y|] eqn:E.
  - destruct (vred_eqb y x); [|discriminate]. intros [= <-] _. reflexivity.
  - intros [= <-] Hn. cbn [venv_get]. destruct (vname_eqb v w) eqn:Ev; [|reflexivity].
    apply vname_eqb_eq in Ev. congruence.
Qed.

(* ---------- justification relative to the environment ---------- *)
Definition claim_is (k : know) (o : option vred) : Prop :=
  match kval k with None => True | Some c => o = Some c end.

Inductive ejust (p : Z) (env : venv) : expr -> Prop :=
| ej_num z k : 0 <= z -> claim_is k (Some (VField (Z.rem z p))) -> ejust p env (ENum z k)
| ej_var v k : claim_is k (venv_get env v) -> ejust p env (EVar v k)
| ej_infix op l r k : ejust p env l -> ejust p env r ->
    (forall c, kval k = Some c -> infix_values op (expr_val l) (expr_val r) p = Ok (Some c)) ->
    ejust p env (EInfix op l r k)
| ej_prefix op e k : ejust p env e -> claim_is k (prefix_values op (expr_val e) p) -> ejust p env (EPrefix op e k)
| ej_switch c t f k : ejust p env c -> ejust p env t -> ejust p env f ->
    claim_is k (switch_value (expr_val c) (expr_val t) (expr_val f)) -> ejust p env (ESwitch c t f k)
| ej_call n args k : Forall (ejust p env) args -> kval k = None -> ejust p env (ECall n args k)
| ej_array vs k : Forall (ejust p env) vs -> kval k = None -> ejust p env (EArray vs k)
| ej_access v acc k : Forall (ejust p env) (acc_exprs acc) -> kval k = None -> ejust p env (EAccess v acc k)
| ej_update v acc rhe k : Forall (ejust p env) (acc_exprs acc) -> ejust p env rhe -> kval k = None ->
    ejust p env (EUpdate v acc rhe k)
| ej_phi args k :
    (forall c, kval k = Some c -> args <> [] /\ forall a, In a args -> venv_get env a = Some c) ->
    ejust p env (EPhi args k).

Lemma ej_num_inv p env z k : ejust p env (ENum z k) -> 0 <= z /\ claim_is k (Some (VField (Z.rem z p))).
Proof. intros H. inversion H; subst. auto. Qed.
Lemma ej_var_inv p env v k : ejust p env (EVar v k) -> claim_is k (venv_get env v).
Proof. intros H. inversion H; subst. auto. Qed.
Lemma ej_infix_inv p env op l r k : ejust p env (EInfix op l r k) ->
  ejust p env l /\ ejust p env r /\
  (forall c, kval k = Some c -> infix_values op (expr_val l) (expr_val r) p = Ok (Some c)).
Proof. intros H. inversion H; subst. auto. Qed.
Lemma ej_prefix_inv p env op e k : ejust p env (EPrefix op e k) ->
  ejust p env e /\ claim_is k (prefix_values op (expr_val e) p).
Proof. intros H. inversion H; subst. auto. Qed.
Lemma ej_switch_inv p env c t f k : ejust p env (ESwitch c t f k) ->
  ejust p env c /\ ejust p env t /\ ejust p env f /\ claim_is k (switch_value (expr_val c) (expr_val t) (expr_val f)).
Proof. intros H. inversion H; subst. auto. Qed.
Lemma ej_call_inv p env n args k : ejust p env (ECall n args k) -> Forall (ejust p env) args /\ kval k = None.
Proof. intros H. inversion H; subst. auto. Qed.
Lemma ej_array_inv p env vs k : ejust p env (EArray vs k) -> Forall (ejust p env) vs /\ kval k = None.
Proof. intros H. inversion H; subst. auto. Qed.
Lemma ej_access_inv p env v acc k : ejust p env (EAccess v acc k) -> Forall (ejust p env) (acc_exprs acc) /\ kval k = None.
Proof. intros H. inversion H; subst. auto. Qed.
Lemma ej_update_inv p env v acc rhe k : ejust p env (EUpdate v acc rhe k) ->
  Forall (ejust p env) (acc_exprs acc) /\ ejust p env rhe /\ kval k = None.
Proof. intros H. inversion H; subst. auto. Qed.
Lemma ej_phi_inv p env args k : ejust p env (EPhi args k) ->
  forall c, kval k = Some c -> args <> [] /\ forall a, In a args -> venv_get env a = Some c.
Proof. intros H. inversion H; subst. auto. Qed.

Lemma claim_is_mono k o o' : (forall c, o = Some c -> o' = Some c) -> claim_is k o -> claim_is k o'.
Proof. unfold claim_is. destruct (kval k); auto. Qed.

Lemma ejust_mono p env env' e : env_le env env' -> ejust p env e -> ejust p env' e.
Proof.
  intros Hle. induction e as [z k|v k|op l r k IHl IHr|op e k IHe|c t f k IHc IHt IHf|n args k IHargs|vs k IHvs
                  |v acc k IHacc|v acc rhe k IHacc IHrhe|args k] using expr_ind'; intros H; inversion H; subst.
  - constructor; assumption.
  - constructor. eapply claim_is_mono; [|eassumption]. intros c Hc. apply Hle. exact Hc.
  - constructor; auto.
  - constructor; auto.
  - constructor; auto.
  - constructor; [|assumption]. rewrite Forall_forall in *. auto.
  - constructor; [|assumption]. rewrite Forall_forall in *. auto.
  - constructor; [|assumption]. rewrite Forall_forall in *. auto.
  - constructor; [|auto|assumption]. rewrite Forall_forall in *. auto.
  - constructor. intros c Hc. destruct (H1 c Hc) as [Hne Hall]. split; [exact Hne|]. intros a Ha. apply Hle. auto.
Qed.

(* ---------- knowledge updates ---------- *)
Lemma expr_val_set_know e k : expr_val (set_know e k) = kval k.
Proof. destruct e; reflexivity. Qed.

Lemma sc_set_val_val res e v b e' : sc_set_val res e v = (b, e') ->
  (res = true /\ e' = e) \/ (res = false /\ expr_val e' = Some v).
Proof.
  unfold sc_set_val. destruct res.
  - intros [= <- <-]. left. auto.
  - unfold set_val. intros [= <- <-]. right. split; [reflexivity|]. rewrite expr_val_set_know. reflexivity.
Qed.

(* ---------- operator facts ---------- *)
Lemma infix_values_some op a b p c : infix_values op a b p = Ok (Some c) -> exists x y, a = Some x /\ b = Some y.
Proof. destruct a as [[]|], b as [[]|]; cbn; try discriminate; eauto. Qed.

Lemma prefix_values_some op a p c : prefix_values op a p = Some c -> exists x, a = Some x.
Proof. destruct a; cbn; [eauto|discriminate]. Qed.

Definition ext (a a' : option vred) : Prop := forall c, a = Some c -> a' = Some c.

Lemma switch_value_ext a b c a' b' c' x :
  ext a a' -> ext b b' -> ext c c' -> switch_value a b c = Some x -> switch_value a' b' c' = Some x.
Proof.
  intros Ha Hb Hc. unfold switch_value.
  destruct a as [[[|]|z]|]; try discriminate; rewrite (Ha _ eq_refl).
  - destruct b; [|discriminate]. intros [= <-]. rewrite (Hb _ eq_refl). reflexivity.
  - destruct c; [|discriminate]. intros [= <-]. rewrite (Hc _ eq_refl). reflexivity.
  - destruct (negb (z =? 0)).
    + destruct b; [|discriminate]. intros [= <-]. rewrite (Hb _ eq_refl). reflexivity.
    + destruct c; [|discriminate]. intros [= <-]. rewrite (Hc _ eq_refl). reflexivity.
Qed.

Lemma phi_values_spec env args xs : phi_values env args = Some xs ->
  length xs = length args /\ forall i a, nth_error args i = Some a -> exists x, nth_error xs i = Some x /\ venv_get env a = Some x.
Proof.
  revert xs. induction args as [|a tl IH]; intros xs; cbn [phi_values].
  - intros [= <-]. split; [reflexivity|]. intros [|i] b; discriminate.
  - destruct (venv_get env a) as [x|] eqn:Ea; [|discriminate].
    destruct (phi_values env tl) as [ys|]; [|discriminate]. intros [= <-].
    destruct (IH ys eq_refl) as [Hl Hn]. split; [cbn; lia|].
    intros [|i] b; cbn [nth_error].
    + intros [= <-]. eauto.
    + apply Hn.
Qed.

Lemma phi_value_spec env args c : phi_value env args = Some c ->
  args <> [] /\ forall a, In a args -> venv_get env a = Some c.
Proof.
  unfold phi_value. destruct (phi_values env args) as [[|x xs]|] eqn:E; try discriminate.
  destruct (forallb (vred_eqb x) xs) eqn:Ef; [|discriminate]. intros [= <-].
  destruct (phi_values_spec env args _ E) as [Hl Hn].
  split; [intros ->; discriminate|].
  intros a Ha. apply In_nth_error in Ha as [i Hi].
  destruct (Hn i a Hi) as (y & Hy & Hg). rewrite Hg. f_equal.
  destruct i as [|i]; cbn [nth_error] in Hy; [congruence|].
  rewrite forallb_forall in Ef. apply nth_error_In in Hy. specialize (Ef y Hy).
  apply vred_eqb_eq in Ef. congruence.
Qed.

Lemma phi_value_complete env args c :
  args <> [] -> (forall a, In a args -> venv_get env a = Some c) -> phi_value env args = Some c.
Proof.
  intros Hne Hall. unfold phi_value.
  assert (H : phi_values env args = Some (map (fun _ => c) args)).
  { clear Hne. induction args as [|a tl IH]; [reflexivity|]. cbn [phi_values map].
    rewrite (Hall a (or_introl eq_refl)), IH; [reflexivity|]. intros b Hb. apply Hall. right. exact Hb. }
  rewrite H. destruct args as [|a tl]; [congruence|]. cbn [map].
  replace (forallb (vred_eqb c) (map (fun _ => c) tl)) with true; [reflexivity|].
  symmetry. apply forallb_forall. intros y Hy. apply in_map_iff in Hy as (_ & <- & _). apply vred_eqb_eq. reflexivity.
Qed.

(* ---------- pv_expr preserves justification; existing claims are stable ---------- *)
Definition stable (e e' : expr) : Prop := ext (expr_val e) (expr_val e').

Section Expr.
Variable p : Z.
Variable env : venv.

Definition good (e : expr) : Prop :=
  ejust p env e -> forall b e', pv_expr p env e = Ok (b, e') ->
  ejust p env e' /\ stable e e' /\ is_update e' = is_update e /\ is_phi e' = is_phi e.

Lemma pv_list_good (es : list expr) : Forall good es -> Forall (ejust p env) es ->
  forall res b es',
  (fix pv_list (res : bool) (es : list expr) {struct es} : outcome (bool * list expr) :=
     match es with
     | [] => Ok (res, [])
     | x :: tl =>
       if res then Ok (true, x :: tl)
       else r <- pv_expr p env x ;;
            let '(b, x') := r in
            t <- pv_list b tl ;;
            let '(b', tl') := t in Ok (b', x' :: tl')
     end) res es = Ok (b, es') ->
  Forall (ejust p env) es'.
Proof.
  intros Hg Hj. induction es as [|x tl IH]; intros res b es'.
  - intros [= <- <-]. constructor.
  - inversion Hg; subst. inversion Hj; subst. destruct res.
    + intros [= <- <-]. constructor; assumption.
    + destruct (pv_expr p env x) as [[b1 x']| | |] eqn:Ex; try discriminate. cbn [bind].
      match goal with |- context [bind ?t _] => destruct t as [[b2 tl']| | |] eqn:Et; try discriminate end.
      cbn [bind]. intros [= <- <-]. constructor.
      * exact (proj1 (H1 H3 _ _ Ex)).
      * eapply IH; eauto.
Qed.

Lemma pv_acc_good (acc : list (access expr)) : Forall good (acc_exprs acc) -> Forall (ejust p env) (acc_exprs acc) ->
  forall res b acc',
  (fix pv_acc (res : bool) (acc : list (access expr)) {struct acc} : outcome (bool * list (access expr)) :=
     match acc with
     | [] => Ok (res, [])
     | AComp n :: tl => t <- pv_acc res tl ;; let '(b', tl') := t in Ok (b', AComp n :: tl')
     | AIdx x :: tl =>
       if res then Ok (true, AIdx x :: tl)
       else r <- pv_expr p env x ;;
            let '(b, x') := r in
            t <- pv_acc b tl ;;
            let '(b', tl') := t in Ok (b', AIdx x' :: tl')
     end) res acc = Ok (b, acc') ->
  Forall (ejust p env) (acc_exprs acc').
Proof.
  intros Hg Hj. induction acc as [|a tl IH]; intros res b acc'.
  - intros [= <- <-]. constructor.
  - destruct a as [x|n]; cbn [acc_exprs flat_map app] in Hg, Hj.
    + inversion Hg; subst. inversion Hj; subst. destruct res.
      * intros [= <- <-]. cbn [acc_exprs flat_map app]. constructor; assumption.
      * destruct (pv_expr p env x) as [[b1 x']| | |] eqn:Ex; try discriminate. cbn [bind].
        match goal with |- context [bind ?t _] => destruct t as [[b2 tl']| | |] eqn:Et; try discriminate end.
        cbn [bind]. intros [= <- <-]. cbn [acc_exprs flat_map app]. constructor.
        -- exact (proj1 (H1 H3 _ _ Ex)).
        -- eapply IH; eauto.
    + match goal with |- context [bind ?t _] => destruct t as [[b2 tl']| | |] eqn:Et; try discriminate end.
      cbn [bind]. intros [= <- <-]. cbn [acc_exprs flat_map app]. eapply IH; eauto.
Qed.

Lemma infix_finish op l l' r r' k b2 b e' :
  ejust p env l' -> ejust p env r' -> stable l l' -> stable r r' ->
  (forall c, kval k = Some c -> infix_values op (expr_val l) (expr_val r) p = Ok (Some c)) ->
  (ov <- infix_values op (expr_val l') (expr_val r') p ;;
   match ov with
   | Some v => Ok (sc_set_val b2 (EInfix op l' r' k) v)
   | None => Ok (b2, EInfix op l' r' k)
   end) = Ok (b, e') ->
  ejust p env e' /\ stable (EInfix op l r k) e' /\ is_update e' = false /\ is_phi e' = false.
Proof.
  intros Hjl Hjr Hsl Hsr Hold.
  (* an existing claim is recomputed to the same value from the stable operands *)
  assert (Hold' : forall c, kval k = Some c -> infix_values op (expr_val l') (expr_val r') p = Ok (Some c)).
  { intros c Hc. specialize (Hold c Hc). destruct (infix_values_some _ _ _ _ _ Hold) as (x & y & Ex & Ey).
    rewrite (Hsl _ Ex), (Hsr _ Ey). rewrite Ex, Ey in Hold. exact Hold. }
  destruct (infix_values op (expr_val l') (expr_val r') p) as [[v|]| | |] eqn:Ev; cbn [bind]; try discriminate.
  - intros Hsc. destruct (sc_set_val b2 (EInfix op l' r' k) v) as [bb ee] eqn:Es. injection Hsc as <- <-.
    unfold sc_set_val in Es. destruct b2.
    + injection Es as <- <-. repeat split; try reflexivity.
      * apply ej_infix; [assumption|assumption|]. intros c Hc. rewrite Ev. apply Hold'. exact Hc.
      * intros c Hc. exact Hc.
    + unfold set_val in Es. cbn [expr_know set_know] in Es. injection Es as <- <-.
      repeat split; try reflexivity.
      * apply ej_infix; [assumption|assumption|]. cbn [kval]. intros c [= <-]. exact Ev.
      * intros c Hc. unfold expr_val in *. cbn [expr_know kval] in *. specialize (Hold' c Hc). congruence.
  - intros [= <- <-]. repeat split; try reflexivity.
    + apply ej_infix; [assumption|assumption|]. intros c Hc. specialize (Hold' c Hc). discriminate.
    + intros c Hc. exact Hc.
Qed.

Lemma prefix_finish op x x' k b1 b e' :
  ejust p env x' -> stable x x' -> claim_is k (prefix_values op (expr_val x) p) ->
  match prefix_values op (expr_val x') p with
  | Some v => Ok (sc_set_val b1 (EPrefix op x' k) v)
  | None => Ok (b1, EPrefix op x' k)
  end = Ok (b, e') ->
  ejust p env e' /\ stable (EPrefix op x k) e' /\ is_update e' = false /\ is_phi e' = false.
Proof.
  intros Hjx Hsx Hold.
  assert (Hold' : forall c, kval k = Some c -> prefix_values op (expr_val x') p = Some c).
  { intros c Hc. unfold claim_is in Hold. rewrite Hc in Hold.
    destruct (prefix_values_some _ _ _ _ Hold) as (y & Ey). rewrite (Hsx _ Ey). rewrite Ey in Hold. exact Hold. }
  destruct (prefix_values op (expr_val x') p) as [v|] eqn:Ev.
  - intros Hsc. destruct (sc_set_val b1 (EPrefix op x' k) v) as [bb ee] eqn:Es. injection Hsc as <- <-.
    unfold sc_set_val in Es. destruct b1.
    + injection Es as <- <-. repeat split; try reflexivity.
      * apply ej_prefix; [assumption|]. unfold claim_is. destruct (kval k) eqn:Ek; [|exact I]. rewrite Ev. apply Hold'. reflexivity.
      * intros c Hc. exact Hc.
    + unfold set_val in Es. cbn [expr_know set_know] in Es. injection Es as <- <-.
      repeat split; try reflexivity.
      * apply ej_prefix; [assumption|]. unfold claim_is. cbn [kval]. exact Ev.
      * intros c Hc. unfold expr_val in *. cbn [expr_know kval] in *. specialize (Hold' c Hc). congruence.
  - intros [= <- <-]. repeat split; try reflexivity.
    + apply ej_prefix; [assumption|]. unfold claim_is. destruct (kval k) eqn:Ek; [|exact I]. specialize (Hold' _ eq_refl). discriminate.
    + intros c Hc. exact Hc.
Qed.

Lemma switch_finish c c' t t' f f' k res b e' :
  ejust p env c' -> ejust p env t' -> ejust p env f' -> stable c c' -> stable t t' -> stable f f' ->
  claim_is k (switch_value (expr_val c) (expr_val t) (expr_val f)) ->
  match switch_value (expr_val c') (expr_val t') (expr_val f') with
  | Some v => Ok (sc_set_val res (ESwitch c' t' f' k) v)
  | None => Ok (res, ESwitch c' t' f' k)
  end = Ok (b, e') ->
  ejust p env e' /\ stable (ESwitch c t f k) e' /\ is_update e' = false /\ is_phi e' = false.
Proof.
  intros Hjc Hjt Hjf Hsc Hst Hsf Hold.
  assert (Hold' : forall x, kval k = Some x -> switch_value (expr_val c') (expr_val t') (expr_val f') = Some x).
  { intros x Hx. unfold claim_is in Hold. rewrite Hx in Hold. eapply switch_value_ext; eauto. }
  destruct (switch_value (expr_val c') (expr_val t') (expr_val f')) as [v|] eqn:Ev.
  - intros Hs. destruct (sc_set_val res (ESwitch c' t' f' k) v) as [bb ee] eqn:Es. injection Hs as <- <-.
    unfold sc_set_val in Es. destruct res.
    + injection Es as <- <-. repeat split; try reflexivity.
      * apply ej_switch; try assumption. unfold claim_is. destruct (kval k) eqn:Ek; [|exact I]. rewrite Ev. apply Hold'. reflexivity.
      * intros x Hx. exact Hx.
    + unfold set_val in Es. cbn [expr_know set_know] in Es. injection Es as <- <-.
      repeat split; try reflexivity.
      * apply ej_switch; assumption.
      * intros x Hx. unfold expr_val in *. cbn [expr_know kval] in *. specialize (Hold' x Hx). congruence.
  - intros [= <- <-]. repeat split; try reflexivity.
    + apply ej_switch; try assumption. unfold claim_is. destruct (kval k) eqn:Ek; [|exact I]. specialize (Hold' _ eq_refl). discriminate.
    + intros x Hx. exact Hx.
Qed.

Lemma stable_refl e : stable e e. Proof. intros c H. exact H. Qed.

Lemma pv_expr_good : forall e, good e.
Proof.
  induction e as [z k|v k|op l r k IHl IHr|op e k IHe|c t f k IHc IHt IHf|n args k IHargs|vs k IHvs
                  |v acc k IHacc|v acc rhe k IHacc IHrhe|args k] using expr_ind';
    intros Hj b e'; cbn [pv_expr].
  - (* literal *)
    destruct (ej_num_inv _ _ _ _ Hj) as [Hz Hk].
    unfold set_val. intros [= <- <-]. repeat split; try reflexivity.
    + apply ej_num; [assumption|]. unfold claim_is. cbn. reflexivity.
    + intros c Hc. unfold expr_val in *. cbn [expr_know kval] in *.
      unfold claim_is in Hk. rewrite Hc in Hk. exact Hk.
  - (* variable *)
    pose proof (ej_var_inv _ _ _ _ Hj) as Hk.
    destruct (venv_get env v) as [x|] eqn:Ev.
    + unfold set_val. intros [= <- <-]. repeat split; try reflexivity.
      * apply ej_var. unfold claim_is. cbn. exact Ev.
      * intros c Hc. unfold expr_val in *. cbn [expr_know kval] in *.
        unfold claim_is in Hk. rewrite Hc in Hk. congruence.
    + intros [= <- <-]. repeat split; try reflexivity; [exact Hj|intros c Hc; exact Hc].
  - (* infix *)
    destruct (ej_infix_inv _ _ _ _ _ _ Hj) as (Hl & Hr & Hk).
    destruct (pv_expr p env l) as [[b1 l']| | |] eqn:El; try discriminate. cbn [bind].
    destruct (IHl Hl _ _ El) as (Hjl & Hsl & _).
    destruct b1.
    + cbn [bind]. intros Hfin. exact (infix_finish op l l' r r k true b e' Hjl Hr Hsl (stable_refl r) Hk Hfin).
    + destruct (pv_expr p env r) as [[b2 r']| | |] eqn:Er; try discriminate. cbn [bind].
      destruct (IHr Hr _ _ Er) as (Hjr & Hsr & _).
      intros Hfin. exact (infix_finish op l l' r r' k b2 b e' Hjl Hjr Hsl Hsr Hk Hfin).
  - (* prefix *)
    destruct (ej_prefix_inv _ _ _ _ _ Hj) as (He & Hk).
    destruct (pv_expr p env e) as [[b1 x']| | |] eqn:Ee; try discriminate. cbn [bind].
    destruct (IHe He _ _ Ee) as (Hjx & Hsx & _).
    intros Hfin. exact (prefix_finish op e x' k b1 b e' Hjx Hsx Hk Hfin).
  - (* switch *)
    destruct (ej_switch_inv _ _ _ _ _ _ Hj) as (Hc & Ht & Hf & Hk).
    destruct (pv_expr p env c) as [[bc c']| | |] eqn:Ec; try discriminate. cbn [bind].
    destruct (pv_expr p env t) as [[bt t']| | |] eqn:Et; try discriminate. cbn [bind].
    destruct (pv_expr p env f) as [[bf f']| | |] eqn:Ef; try discriminate. cbn [bind].
    destruct (IHc Hc _ _ Ec) as (Hjc & Hsc & _).
    destruct (IHt Ht _ _ Et) as (Hjt & Hst & _).
    destruct (IHf Hf _ _ Ef) as (Hjf & Hsf & _).
    intros Hfin. exact (switch_finish c c' t t' f f' k _ b e' Hjc Hjt Hjf Hsc Hst Hsf Hk Hfin).
  - (* call *)
    destruct (ej_call_inv _ _ _ _ _ Hj) as (Ha & Hk).
    match goal with |- context [bind ?t _] => destruct t as [[b2 args']| | |] eqn:Ea; try discriminate end.
    cbn [bind]. intros [= <- <-]. repeat split; try reflexivity.
    + apply ej_call; [|assumption]. eapply pv_list_good; eauto.
    + intros c Hc. exact Hc.
  - (* array *)
    destruct (ej_array_inv _ _ _ _ Hj) as (Ha & Hk).
    match goal with |- context [bind ?t _] => destruct t as [[b2 vs']| | |] eqn:Ea; try discriminate end.
    cbn [bind]. intros [= <- <-]. repeat split; try reflexivity.
    + apply ej_array; [|assumption]. eapply pv_list_good; eauto.
    + intros c Hc. exact Hc.
  - (* access *)
    destruct (ej_access_inv _ _ _ _ _ Hj) as (Ha & Hk).
    match goal with |- context [bind ?t _] => destruct t as [[b2 acc']| | |] eqn:Ea; try discriminate end.
    cbn [bind]. intros [= <- <-]. repeat split; try reflexivity.
    + apply ej_access; [|assumption]. eapply pv_acc_good; eauto.
    + intros c Hc. exact Hc.
  - (* update *)
    destruct (ej_update_inv _ _ _ _ _ _ Hj) as (Ha & Hr & Hk).
    destruct (pv_expr p env rhe) as [[b1 rhe']| | |] eqn:Er; try discriminate. cbn [bind].
    destruct (IHrhe Hr _ _ Er) as (Hjr & Hsr & _).
    match goal with |- context [bind ?t _] => destruct t as [[b2 acc']| | |] eqn:Ea; try discriminate end.
    cbn [bind]. intros [= <- <-]. repeat split; try reflexivity.
    + apply ej_update; [|assumption|assumption]. eapply pv_acc_good; eauto.
    + intros c Hc. exact Hc.
  - (* phi *)
    pose proof (ej_phi_inv _ _ _ _ Hj) as Hk.
    destruct (phi_value env args) as [x|] eqn:Ep.
    + unfold set_val. intros [= <- <-]. repeat split; try reflexivity.
      * apply ej_phi. cbn [kval]. intros c [= <-]. apply phi_value_spec. exact Ep.
      * intros c Hc. unfold expr_val in *. cbn [expr_know kval] in *.
        destruct (Hk c Hc) as [Hne Hall]. rewrite (phi_value_complete env args c Hne Hall) in Ep. congruence.
    + intros [= <- <-]. repeat split; try reflexivity; [exact Hj|intros c Hc; exact Hc].
Qed.
End Expr.

(* ================= Part 2: statements ================= *)
Definition ljust (p : Z) (env : venv) (a : logarg) : Prop :=
  match a with LStr => True | LExpr e => ejust p env e end.

Definition sjust (p : Z) (env : venv) (s : stmt) : Prop :=
  match s with
  | SDecl _ _ _ dims => Forall (ejust p env) dims
  | SIf _ c _ _ => ejust p env c
  | SRet _ e => ejust p env e
  | SAssert _ e => ejust p env e
  | SSubst _ _ _ rhe sval _ =>
    ejust p env rhe /\ (forall c, sval = Some c -> is_update rhe = false /\ expr_val rhe = Some c)
  | SCeq _ l r => ejust p env l /\ ejust p env r
  | SLog _ args => Forall (ljust p env) args
  end.

Lemma sjust_mono p env env' s : env_le env env' -> sjust p env s -> sjust p env' s.
Proof.
  intros Hle. destruct s; cbn [sjust].
  - intros H. rewrite Forall_forall in *. intros e He. eapply ejust_mono; eauto.
  - apply ejust_mono; assumption.
  - apply ejust_mono; assumption.
  - intros [H1 H2]. split; [eapply ejust_mono; eauto|exact H2].
  - intros [H1 H2]. split; eapply ejust_mono; eauto.
  - intros H. rewrite Forall_forall in *. intros a Ha. specialize (H a Ha). destruct a; cbn in *; [exact I|]. eapply ejust_mono; eauto.
  - apply ejust_mono; assumption.
Qed.

Definition sigq (s : stmt) : option vname * bool := (tgt s, is_ldef s).
Definition def_claim (s : stmt) : option vred := match s with SSubst _ _ _ rhe _ _ => expr_val rhe | _ => None end.
Definition def_upd (s : stmt) : bool := match s with SSubst _ _ _ rhe _ _ => is_update rhe | _ => false end.

Lemma pv_exprs_good p env es : Forall (ejust p env) es -> forall res b es',
  pv_exprs p env res es = Ok (b, es') -> Forall (ejust p env) es'.
Proof.
  intros Hj. induction es as [|x tl IH]; intros res b es'; cbn [pv_exprs].
  - intros [= <- <-]. constructor.
  - inversion Hj; subst. destruct res.
    + intros [= <- <-]. constructor; assumption.
    + destruct (pv_expr p env x) as [[b1 x']| | |] eqn:Ex; try discriminate. cbn [bind].
      destruct (pv_exprs p env b1 tl) as [[b2 tl']| | |] eqn:Et; try discriminate. cbn [bind].
      intros [= <- <-]. constructor.
      * exact (proj1 (pv_expr_good p env x H1 _ _ Ex)).
      * eapply IH; eauto.
Qed.

Lemma pv_logargs_good p env es : Forall (ljust p env) es -> forall res b es',
  pv_logargs p env res es = Ok (b, es') -> Forall (ljust p env) es'.
Proof.
  intros Hj. induction es as [|x tl IH]; intros res b es'; cbn [pv_logargs].
  - intros [= <- <-]. constructor.
  - inversion Hj; subst. destruct x as [|x].
    + destruct (pv_logargs p env res tl) as [[b2 tl']| | |] eqn:Et; try discriminate. cbn [bind].
      intros [= <- <-]. constructor; [exact I|]. eapply IH; eauto.
    + destruct res.
      * intros [= <- <-]. constructor; assumption.
      * destruct (pv_expr p env x) as [[b1 x']| | |] eqn:Ex; try discriminate. cbn [bind].
        destruct (pv_logargs p env b1 tl) as [[b2 tl']| | |] eqn:Et; try discriminate. cbn [bind].
        intros [= <- <-]. constructor.
        -- exact (proj1 (pv_expr_good p env x H1 _ _ Ex)).
        -- eapply IH; eauto.
Qed.

(* one statement *)
Ltac split6 := split; [|split; [|split; [|split; [|split]]]].

Lemma pv_stmt_good p env s b s' env' :
  sjust p env s -> pv_stmt p env s = Ok (b, s', env') ->
  env_le env env' /\ sjust p env' s' /\ sigq s' = sigq s /\ def_upd s' = def_upd s /\
  ext (def_claim s) (def_claim s') /\
  (forall w x, venv_get env' w = Some x ->
     venv_get env w = Some x \/
     (tgt s' = Some w /\ is_ldef s' = true /\ def_upd s' = false /\ def_claim s' = Some x)).
Proof.
  assert (Hsame : forall (e : venv) w x, venv_get e w = Some x ->
            venv_get e w = Some x \/ (tgt s' = Some w /\ is_ldef s' = true /\ def_upd s' = false /\ def_claim s' = Some x))
    by (intros; left; assumption).
  assert (Hext : forall o : option vred, ext o o) by (intros o c0 Hc0; exact Hc0).
  destruct s; cbn [sjust pv_stmt]; intros Hj.
  - (* decl *)
    destruct (pv_exprs p env false dims) as [[b1 dims']| | |] eqn:E; try discriminate. cbn [bind].
    intros [= <- <- <-]. split6; try reflexivity; try apply env_le_refl; try apply Hext; try apply Hsame.
    cbn [sjust]. eapply pv_exprs_good; eauto.
  - destruct (pv_expr p env c) as [[b1 c']| | |] eqn:E; try discriminate. cbn [bind].
    intros [= <- <- <-]. split6; try reflexivity; try apply env_le_refl; try apply Hext; try apply Hsame.
    exact (proj1 (pv_expr_good p env c Hj _ _ E)).
  - destruct (pv_expr p env e) as [[b1 e']| | |] eqn:E; try discriminate. cbn [bind].
    intros [= <- <- <-]. split6; try reflexivity; try apply env_le_refl; try apply Hext; try apply Hsame.
    exact (proj1 (pv_expr_good p env e Hj _ _ E)).
  - (* substitution *)
    destruct Hj as [Hje Hsv].
    destruct (pv_expr p env rhe) as [[b1 rhe']| | |] eqn:E; try discriminate. cbn [bind].
    destruct (pv_expr_good p env rhe Hje _ _ E) as (Hje' & Hst & Hup & _).
    destruct (is_update rhe') eqn:Eu.
    + intros [= <- <- <-]. split6; try reflexivity; try apply env_le_refl; try apply Hsame.
      * cbn [sjust]. split; [exact Hje'|]. intros c0 Hc0. destruct (Hsv c0 Hc0) as [H1 H2]. rewrite Hup in Eu. congruence.
      * cbn [def_upd]. congruence.
      * exact Hst.
    + destruct (expr_val rhe') as [x|] eqn:Ev.
      * destruct (if stype_is_local stype then venv_add env v x else Ok env) as [env1| | |] eqn:Ea; try discriminate.
        cbn [bind].
        assert (Hle : env_le env env1).
        { destruct (stype_is_local stype); [eapply venv_add_le; eauto|]. injection Ea as <-. apply env_le_refl. }
        assert (Hnew : forall w y, venv_get env1 w = Some y ->
                  venv_get env w = Some y \/ (w = v /\ stype_is_local stype = true /\ y = x)).
        { intros w y Hw. destruct (stype_is_local stype) eqn:El.
          - destruct (vname_eqb v w) eqn:Evw.
            + apply vname_eqb_eq in Evw. subst w. right. rewrite (venv_add_get _ _ _ _ Ea) in Hw. split; [reflexivity|]. split; congruence.
            + left. rewrite (venv_add_other _ _ _ _ w Ea) in Hw; [exact Hw|].
              intros ->. rewrite vname_eqb_refl in Evw. discriminate.
          - injection Ea as <-. left. exact Hw. }
        assert (Hfin : forall sv', (forall c0, sv' = Some c0 -> c0 = x) ->
                 env_le env env1 /\ sjust p env1 (SSubst m v op rhe' sv' stype) /\
                 sigq (SSubst m v op rhe' sv' stype) = sigq (SSubst m v op rhe sval stype) /\
                 def_upd (SSubst m v op rhe' sv' stype) = def_upd (SSubst m v op rhe sval stype) /\
                 ext (def_claim (SSubst m v op rhe sval stype)) (def_claim (SSubst m v op rhe' sv' stype)) /\
                 (forall w y, venv_get env1 w = Some y ->
                    venv_get env w = Some y \/
                    (tgt (SSubst m v op rhe' sv' stype) = Some w /\ is_ldef (SSubst m v op rhe' sv' stype) = true /\
                     def_upd (SSubst m v op rhe' sv' stype) = false /\ def_claim (SSubst m v op rhe' sv' stype) = Some y))).
        { intros sv' Hsv'. split6; try reflexivity.
          - exact Hle.
          - cbn [sjust]. split; [eapply ejust_mono; eauto|]. intros c0 Hc0. split; [exact Eu|]. rewrite Ev. f_equal. symmetry. auto.
          - cbn [def_upd]. congruence.
          - exact Hst.
          - intros w y Hw. destruct (Hnew w y Hw) as [H|(-> & Hl & ->)]; [left; exact H|].
            right. cbn [tgt is_ldef def_upd def_claim]. auto. }
        destruct b1.
        -- intros [= <- <- <-]. apply Hfin. intros c0 Hc0. destruct (Hsv c0 Hc0) as [_ H2]. apply Hst in H2. congruence.
        -- intros [= <- <- <-]. apply Hfin. intros c0 [= <-]. reflexivity.
      * intros [= <- <- <-]. split6; try reflexivity; try apply env_le_refl; try apply Hsame.
        -- cbn [sjust]. split; [exact Hje'|]. intros c0 Hc0. destruct (Hsv c0 Hc0) as [H1 H2]. apply Hst in H2. congruence.
        -- cbn [def_upd]. congruence.
        -- exact Hst.
  - (* constraint equality *)
    destruct Hj as [Hl Hr].
    destruct (pv_expr p env l) as [[b1 l']| | |] eqn:El; try discriminate. cbn [bind].
    destruct b1.
    + intros [= <- <- <-]. split6; try reflexivity; try apply env_le_refl; try apply Hext; try apply Hsame.
      cbn [sjust]. split; [exact (proj1 (pv_expr_good p env l Hl _ _ El))|exact Hr].
    + destruct (pv_expr p env r) as [[b2 r']| | |] eqn:Er; try discriminate. cbn [bind].
      intros [= <- <- <-]. split6; try reflexivity; try apply env_le_refl; try apply Hext; try apply Hsame.
      cbn [sjust]. split; [exact (proj1 (pv_expr_good p env l Hl _ _ El))|exact (proj1 (pv_expr_good p env r Hr _ _ Er))].
  - (* log *)
    destruct (pv_logargs p env false args) as [[b1 args']| | |] eqn:E; try discriminate. cbn [bind].
    intros [= <- <- <-]. split6; try reflexivity; try apply env_le_refl; try apply Hext; try apply Hsame.
    cbn [sjust]. eapply pv_logargs_good; eauto.
  - destruct (pv_expr p env e) as [[b1 e']| | |] eqn:E; try discriminate. cbn [bind].
    intros [= <- <- <-]. split6; try reflexivity; try apply env_le_refl; try apply Hext; try apply Hsame.
    exact (proj1 (pv_expr_good p env e Hj _ _ E)).
Qed.

(* ================= Part 3: the whole statement list ================= *)
(* every binding of the environment is the claim of all defining assignments *)
Definition env_backed (ss : list stmt) (env : venv) : Prop :=
  forall v x, venv_get env v = Some x -> all_defs_claim ss v x = true.

(* a variable that has a local defining assignment has no other assignment *)
Definition uniq (l : list (option vname * bool)) : Prop :=
  forall A B v, l = A ++ (Some v, true) :: B -> forall y, In y (A ++ B) -> fst y <> Some v.

Lemma defines_tgt v s : defines v s = true <-> tgt s = Some v.
Proof.
  destruct s; cbn; try (split; [discriminate|discriminate]).
  rewrite vname_eqb_eq. split; congruence.
Qed.

Lemma defines_sigq v s s' : sigq s' = sigq s -> defines v s' = defines v s.
Proof.
  unfold sigq. intros [= Ht _].
  destruct (defines v s) eqn:E.
  - apply defines_tgt. rewrite Ht. apply defines_tgt. exact E.
  - destruct (defines v s') eqn:E'; [|reflexivity]. apply defines_tgt in E'. rewrite Ht in E'.
    apply defines_tgt in E'. congruence.
Qed.

Lemma all_defs_claim_app ss1 ss2 v x :
  all_defs_claim (ss1 ++ ss2) v x =
  forallb (def_ok v x) ss1 && forallb (def_ok v x) ss2 && (existsb (defines v) ss1 || existsb (defines v) ss2).
Proof. unfold all_defs_claim. rewrite forallb_app, existsb_app. reflexivity. Qed.

Lemma def_ok_spec v x s :
  def_ok v x s = true <->
  (tgt s = Some v -> is_ldef s = true /\ def_upd s = false /\ def_claim s = Some x).
Proof.
  destruct s; cbn [def_ok tgt is_ldef def_upd def_claim]; try (split; [discriminate|reflexivity]).
  destruct (vname_eqb v0 v) eqn:E.
  - apply vname_eqb_eq in E. subst v0. rewrite !andb_true_iff, negb_true_iff, opt_vred_eqb_eq. tauto.
  - split; [|reflexivity]. intros _ [= ->]. rewrite vname_eqb_refl in E. discriminate.
Qed.

Section Lists.
Variable p : Z.

Definition Inv (ss : list stmt) (env : venv) : Prop :=
  Forall (sjust p env) ss /\ env_backed ss env.

(* replacing one statement by its propagated version keeps the invariant *)
Lemma step_inv A s B env b s' env' :
  uniq (map sigq (A ++ s :: B)) ->
  Inv (A ++ s :: B) env -> pv_stmt p env s = Ok (b, s', env') ->
  Inv (A ++ s' :: B) env' /\ map sigq (A ++ s' :: B) = map sigq (A ++ s :: B) /\ env_le env env'.
Proof.
  intros Hu [Hj Hb] Hpv.
  assert (Hjs : sjust p env s) by (rewrite Forall_forall in Hj; apply Hj; apply in_or_app; right; left; reflexivity).
  destruct (pv_stmt_good p env s b s' env' Hjs Hpv) as (Hle & Hjs' & Hsig & Hupd & Hext & Hnew).
  split; [|split; [|exact Hle]].
  - split.
    + (* every statement is justified in the larger environment *)
      rewrite Forall_forall in *. intros t Ht. apply in_app_or in Ht as [Ht|[<-|Ht]].
      * eapply sjust_mono; [exact Hle|]. apply Hj. apply in_or_app. left. exact Ht.
      * exact Hjs'.
      * eapply sjust_mono; [exact Hle|]. apply Hj. apply in_or_app. right. right. exact Ht.
    + (* every binding is backed *)
      intros w x Hw. rewrite all_defs_claim_app. cbn [forallb existsb].
      destruct (Hnew w x Hw) as [Hold|(Ht & Hl & Hu' & Hc)].
      * specialize (Hb w x Hold). rewrite all_defs_claim_app in Hb. cbn [forallb existsb] in Hb.
        apply andb_true_iff in Hb as [Hb He]. apply andb_true_iff in Hb as [HA HsB]. apply andb_true_iff in HsB as [Hs HB].
        rewrite HA, HB, (defines_sigq w s s' Hsig), He. rewrite !andb_true_r, andb_true_l.
        apply def_ok_spec. intros Htg.
        assert (Htg0 : tgt s = Some w) by (unfold sigq in Hsig; congruence).
        destruct (proj1 (def_ok_spec w x s) Hs Htg0) as (H1 & H2 & H3).
        unfold sigq in Hsig. injection Hsig as _ Hld. repeat split; [congruence|congruence|apply Hext; exact H3].
      * (* a new binding, produced by this very statement *)
        assert (Htg0 : tgt s = Some w) by (unfold sigq in Hsig; congruence).
        assert (Hl0 : is_ldef s = true) by (unfold sigq in Hsig; congruence).
        assert (Hothers : forall t, In t (A ++ B) -> tgt t <> Some w).
        { intros t0 Ht0. rewrite map_app in Hu. cbn [map] in Hu.
          assert (Hsq : sigq s = (Some w, true)) by (unfold sigq; congruence). rewrite Hsq in Hu.
          specialize (Hu (map sigq A) (map sigq B) w eq_refl (sigq t0)).
          rewrite <- map_app in Hu. specialize (Hu (in_map sigq _ _ Ht0)). exact Hu. }
        assert (HA : forallb (def_ok w x) A = true).
        { apply forallb_forall. intros t0 Ht0. apply def_ok_spec. intros Hc'. exfalso.
          apply (Hothers t0); [apply in_or_app; left; exact Ht0|exact Hc']. }
        assert (HB : forallb (def_ok w x) B = true).
        { apply forallb_forall. intros t0 Ht0. apply def_ok_spec. intros Hc'. exfalso.
          apply (Hothers t0); [apply in_or_app; right; exact Ht0|exact Hc']. }
        rewrite HA, HB. cbn [andb].
        assert (Hd : defines w s' = true) by (apply defines_tgt; exact Ht).
        rewrite Hd. rewrite orb_true_r. rewrite !andb_true_r.
        apply def_ok_spec. intros _. auto.
  - rewrite !map_app. cbn [map]. rewrite Hsig. reflexivity.
Qed.

(* a block body: prefix A already processed, suffix C untouched *)
Lemma stmts_inv : forall ss2 A C env res b ss2' env',
  uniq (map sigq (A ++ ss2 ++ C)) -> Inv (A ++ ss2 ++ C) env ->
  pv_stmts p env res ss2 = Ok (b, ss2', env') ->
  Inv (A ++ ss2' ++ C) env' /\ map sigq (A ++ ss2' ++ C) = map sigq (A ++ ss2 ++ C) /\ env_le env env'.
Proof.
  induction ss2 as [|s tl IH]; intros A C env res b ss2' env' Hu Hi; cbn [pv_stmts].
  - intros [= <- <- <-]. split; [exact Hi|split; [reflexivity|apply env_le_refl]].
  - destruct res.
    + intros [= <- <- <-]. split; [exact Hi|split; [reflexivity|apply env_le_refl]].
    + destruct (pv_stmt p env s) as [[[b1 s'] env1]| | |] eqn:Es; try discriminate. cbn [bind].
      destruct (pv_stmts p env1 b1 tl) as [[[b2 tl'] env2]| | |] eqn:Et; try discriminate. cbn [bind].
      intros [= <- <- <-].
      change (A ++ (s :: tl) ++ C) with (A ++ s :: (tl ++ C)) in *.
      destruct (step_inv A s (tl ++ C) env b1 s' env1 Hu Hi Es) as (Hi1 & Hm1 & Hle1).
      assert (Happ : forall X, (A ++ [s']) ++ X = A ++ s' :: X) by (intros X; rewrite <- app_assoc; reflexivity).
      assert (Hu1 : uniq (map sigq ((A ++ [s']) ++ tl ++ C))) by (rewrite Happ, Hm1; exact Hu).
      assert (Hi1' : Inv ((A ++ [s']) ++ tl ++ C) env1) by (rewrite Happ; exact Hi1).
      destruct (IH (A ++ [s']) C env1 b1 b2 tl' env2 Hu1 Hi1' Et) as (Hi2 & Hm2 & Hle2).
      rewrite (Happ (tl' ++ C)) in Hi2, Hm2. rewrite (Happ (tl ++ C)) in Hm2.
      change (A ++ (s' :: tl') ++ C) with (A ++ s' :: (tl' ++ C)).
      split; [exact Hi2|]. split; [rewrite Hm2; exact Hm1|]. eapply env_le_trans; eauto.
Qed.

Lemma all_stmts_app bs1 bs2 : all_stmts (bs1 ++ bs2) = all_stmts bs1 ++ all_stmts bs2.
Proof. unfold all_stmts. apply flat_map_app. Qed.

Lemma all_stmts_cons b bs : all_stmts (b :: bs) = b_stmts b ++ all_stmts bs.
Proof. reflexivity. Qed.

(* one pass over the blocks *)
Lemma blocks_inv : forall bs2 bs1 env res b bs2' env',
  uniq (map sigq (all_stmts (bs1 ++ bs2))) -> Inv (all_stmts (bs1 ++ bs2)) env ->
  pv_blocks p env res bs2 = Ok (b, bs2', env') ->
  Inv (all_stmts (bs1 ++ bs2')) env' /\
  map sigq (all_stmts (bs1 ++ bs2')) = map sigq (all_stmts (bs1 ++ bs2)) /\ env_le env env'.
Proof.
  induction bs2 as [|blk tl IH]; intros bs1 env res b bs2' env' Hu Hi; cbn [pv_blocks].
  - intros [= <- <- <-]. split; [exact Hi|split; [reflexivity|apply env_le_refl]].
  - destruct res.
    + intros [= <- <- <-]. split; [exact Hi|split; [reflexivity|apply env_le_refl]].
    + destruct (pv_stmts p env false (b_stmts blk)) as [[[r1 ss'] env1]| | |] eqn:Es; try discriminate. cbn [bind].
      destruct (pv_blocks p env1 r1 tl) as [[[r2 tl'] env2]| | |] eqn:Et; try discriminate. cbn [bind].
      intros [= <- <- <-].
      rewrite all_stmts_app, all_stmts_cons in Hu, Hi.
      destruct (stmts_inv (b_stmts blk) (all_stmts bs1) (all_stmts tl) env false r1 ss' env1 Hu Hi Es) as (Hi1 & Hm1 & Hle1).
      assert (Happ : forall X, (bs1 ++ [set_stmts blk ss']) ++ X = bs1 ++ set_stmts blk ss' :: X)
        by (intros X; rewrite <- app_assoc; reflexivity).
      assert (Heq : forall X, all_stmts (bs1 ++ set_stmts blk ss' :: X) = all_stmts bs1 ++ ss' ++ all_stmts X).
      { intros X. rewrite all_stmts_app, all_stmts_cons. reflexivity. }
      assert (Hu1 : uniq (map sigq (all_stmts ((bs1 ++ [set_stmts blk ss']) ++ tl)))) by (rewrite Happ, Heq, Hm1; exact Hu).
      assert (Hi1' : Inv (all_stmts ((bs1 ++ [set_stmts blk ss']) ++ tl)) env1) by (rewrite Happ, Heq; exact Hi1).
      destruct (IH (bs1 ++ [set_stmts blk ss']) env1 r1 r2 tl' env2 Hu1 Hi1' Et) as (Hi2 & Hm2 & Hle2).
      rewrite (Happ tl') in Hi2, Hm2. rewrite (Happ tl) in Hm2.
      split; [exact Hi2|]. split.
      * rewrite Hm2, Heq, Hm1. rewrite all_stmts_app, all_stmts_cons. reflexivity.
      * eapply env_le_trans; eauto.
Qed.

(* any number of passes *)
Lemma passes_inv : forall k env bs bs' env',
  uniq (map sigq (all_stmts bs)) -> Inv (all_stmts bs) env ->
  values_passes k p env bs = Ok (bs', env') ->
  Inv (all_stmts bs') env' /\ map sigq (all_stmts bs') = map sigq (all_stmts bs).
Proof.
  induction k as [|k IH]; intros env bs bs' env' Hu Hi; cbn [values_passes].
  - intros [= <- <-]. auto.
  - destruct (pv_blocks p env false bs) as [[[rerun bs1] env1]| | |] eqn:Ep; try discriminate. cbn [bind].
    destruct (blocks_inv bs [] env false rerun bs1 env1 Hu Hi Ep) as (Hi1 & Hm1 & _). cbn [app] in Hi1, Hm1.
    destruct rerun.
    + intros Hk. assert (Hu1 : uniq (map sigq (all_stmts bs1))) by (rewrite Hm1; exact Hu).
      destruct (IH env1 bs1 bs' env' Hu1 Hi1 Hk) as (Hi2 & Hm2). split; [exact Hi2|congruence].
    + intros [= <- <-]. auto.
Qed.
End Lists.

(* ================= Part 4: from the invariant to the validator ================= *)
Lemma claim_is_vred k o :
  claim_is k o -> match kval k with None => true | Some c => opt_vred_eqb o c end = true.
Proof.
  unfold claim_is. destruct (kval k); [|reflexivity]. intros ->. apply opt_vred_eqb_eq. reflexivity.
Qed.

Lemma vjust_list_all p env ss (es : list expr) :
  Forall (fun e => ejust p env e -> vjust_expr ss p e = true) es -> Forall (ejust p env) es ->
  (fix vjust_list (es : list expr) : bool :=
     match es with [] => true | x :: tl => vjust_expr ss p x && vjust_list tl end) es = true.
Proof.
  induction es as [|x tl IH]; intros Hi Hj; [reflexivity|].
  apply Forall_cons_iff in Hi as [Hi1 Hi2]. apply Forall_cons_iff in Hj as [Hj1 Hj2].
  rewrite (Hi1 Hj1). cbn [andb]. apply IH; assumption.
Qed.

Lemma vjust_acc_all p env ss (acc : list (access expr)) :
  Forall (fun e => ejust p env e -> vjust_expr ss p e = true) (acc_exprs acc) -> Forall (ejust p env) (acc_exprs acc) ->
  (fix vjust_acc (acc : list (access expr)) : bool :=
     match acc with
     | [] => true
     | AIdx x :: tl => vjust_expr ss p x && vjust_acc tl
     | AComp _ :: tl => vjust_acc tl
     end) acc = true.
Proof.
  induction acc as [|a tl IH]; intros Hi Hj; [reflexivity|].
  destruct a as [x|n]; cbn [acc_exprs flat_map app] in Hi, Hj.
  - apply Forall_cons_iff in Hi as [Hi1 Hi2]. apply Forall_cons_iff in Hj as [Hj1 Hj2].
    rewrite (Hi1 Hj1). cbn [andb]. apply IH; assumption.
  - apply IH; assumption.
Qed.

Lemma ejust_vjust p env ss e : env_backed ss env -> ejust p env e -> vjust_expr ss p e = true.
Proof.
  intros Hb.
  induction e as [z k|v k|op l r k IHl IHr|op e k IHe|c t f k IHc IHt IHf|n args k IHargs|vs k IHvs
                  |v acc k IHacc|v acc rhe k IHacc IHrhe|args k] using expr_ind'; intros Hj; cbn [vjust_expr].
  - destruct (ej_num_inv _ _ _ _ Hj) as [Hz Hk]. apply andb_true_iff. split; [apply Z.leb_le; exact Hz|].
    unfold claim_is in Hk. destruct (kval k); [|reflexivity]. injection Hk as <-. apply vred_eqb_eq. reflexivity.
  - pose proof (ej_var_inv _ _ _ _ Hj) as Hk. unfold claim_is in Hk. destruct (kval k) as [c|]; [|reflexivity].
    apply Hb. exact Hk.
  - destruct (ej_infix_inv _ _ _ _ _ _ Hj) as (Hl & Hr & Hk). rewrite IHl, IHr by assumption. cbn [andb].
    destruct (kval k) as [c|]; [|reflexivity]. rewrite (Hk c eq_refl). apply vred_eqb_eq. reflexivity.
  - destruct (ej_prefix_inv _ _ _ _ _ Hj) as (He & Hk). rewrite IHe by assumption. cbn [andb].
    apply claim_is_vred. exact Hk.
  - destruct (ej_switch_inv _ _ _ _ _ _ Hj) as (Hc & Ht & Hf & Hk). rewrite IHc, IHt, IHf by assumption. cbn [andb].
    apply claim_is_vred. exact Hk.
  - destruct (ej_call_inv _ _ _ _ _ Hj) as (Ha & Hk). unfold claim_none. rewrite Hk, andb_true_r.
    apply (vjust_list_all p env ss args IHargs Ha).
  - destruct (ej_array_inv _ _ _ _ Hj) as (Ha & Hk). unfold claim_none. rewrite Hk, andb_true_r.
    apply (vjust_list_all p env ss vs IHvs Ha).
  - destruct (ej_access_inv _ _ _ _ _ Hj) as (Ha & Hk). unfold claim_none. rewrite Hk, andb_true_r.
    apply (vjust_acc_all p env ss acc IHacc Ha).
  - destruct (ej_update_inv _ _ _ _ _ _ Hj) as (Ha & Hr & Hk). unfold claim_none. rewrite Hk, andb_true_r.
    rewrite IHrhe by assumption. cbn [andb]. apply (vjust_acc_all p env ss acc IHacc Ha).
  - pose proof (ej_phi_inv _ _ _ _ Hj) as Hk. destruct (kval k) as [c|]; [|reflexivity].
    destruct (Hk c eq_refl) as [Hne Hall]. apply andb_true_iff. split.
    + destruct args; [congruence|reflexivity].
    + apply forallb_forall. intros a Ha. apply Hb. apply Hall. exact Ha.
Qed.

Lemma sjust_vjust p env ss s : env_backed ss env -> sjust p env s -> vjust_stmt ss p s = true.
Proof.
  intros Hb. destruct s; cbn [sjust vjust_stmt].
  - intros H. apply forallb_forall. intros e He. rewrite Forall_forall in H. eapply ejust_vjust; eauto.
  - eapply ejust_vjust; eauto.
  - eapply ejust_vjust; eauto.
  - intros [H1 H2]. rewrite (ejust_vjust p env ss rhe Hb H1). cbn [andb].
    destruct sval as [c|]; [|reflexivity]. destruct (H2 c eq_refl) as [Hu Hv]. rewrite Hu. cbn [negb andb].
    apply opt_vred_eqb_eq. exact Hv.
  - intros [H1 H2]. rewrite (ejust_vjust p env ss l Hb H1), (ejust_vjust p env ss r Hb H2). reflexivity.
  - intros H. apply forallb_forall. intros a Ha. rewrite Forall_forall in H. specialize (H a Ha).
    destruct a; [reflexivity|]. cbn in *. eapply ejust_vjust; eauto.
  - eapply ejust_vjust; eauto.
Qed.

Lemma Inv_validated p ss env : Inv p ss env -> forallb (vjust_stmt ss p) ss = true.
Proof.
  intros [Hj Hb]. apply forallb_forall. intros s Hs. rewrite Forall_forall in Hj.
  eapply sjust_vjust; eauto.
Qed.

(* ---------- the initial state ---------- *)
Require Import Proofs.CutProofs.

Lemma clean_ejust p e : clean_expr e = true -> ejust p [] e.
Proof.
  induction e as [z k|v k|op l r k IHl IHr|op e k IHe|c t f k IHc IHt IHf|n args k IHargs|vs k IHvs
                  |v acc k IHacc|v acc rhe k IHacc IHrhe|args k] using expr_ind';
    cbn [clean_expr expr_know]; intros H; apply andb_true_iff in H as [Hk H]; unfold claim_none in Hk;
    destruct (kval k) eqn:Ek; try discriminate.
  - apply ej_num; [apply Z.leb_le; exact H|]. unfold claim_is. rewrite Ek. exact I.
  - apply ej_var. unfold claim_is. rewrite Ek. exact I.
  - apply andb_true_iff in H as [H1 H2]. apply ej_infix; auto. intros c Hc. congruence.
  - apply ej_prefix; auto. unfold claim_is. rewrite Ek. exact I.
  - apply andb_true_iff in H as [H H3]. apply andb_true_iff in H as [H1 H2]. apply ej_switch; auto.
    unfold claim_is. rewrite Ek. exact I.
  - apply ej_call; [|exact Ek]. clear Ek. induction args as [|x tl IH]; [constructor|].
    apply Forall_cons_iff in IHargs as [I1 I2]. apply andb_true_iff in H as [Hx Ht]. constructor; auto.
  - apply ej_array; [|exact Ek]. clear Ek. induction vs as [|x tl IH]; [constructor|].
    apply Forall_cons_iff in IHvs as [I1 I2]. apply andb_true_iff in H as [Hx Ht]. constructor; auto.
  - apply ej_access; [|exact Ek]. clear Ek. induction acc as [|x tl IH]; [constructor|].
    destruct x as [x|n]; cbn [acc_exprs flat_map app] in *.
    + apply Forall_cons_iff in IHacc as [I1 I2]. apply andb_true_iff in H as [Hx Ht]. constructor; auto.
    + auto.
  - apply andb_true_iff in H as [Hr Ha]. apply ej_update; [|auto|exact Ek]. clear Ek.
    induction acc as [|x tl IH]; [constructor|].
    destruct x as [x|n]; cbn [acc_exprs flat_map app] in *.
    + apply Forall_cons_iff in IHacc as [I1 I2]. apply andb_true_iff in Ha as [Hx Ht]. constructor; auto.
    + auto.
  - apply ej_phi. intros c Hc. congruence.
Qed.

Lemma clean_sjust p s : clean_stmt s = true -> sjust p [] s.
Proof.
  destruct s; cbn [clean_stmt sjust]; intros H.
  - rewrite forallb_forall in H. apply Forall_forall. intros e He. apply clean_ejust. auto.
  - apply clean_ejust. exact H.
  - apply clean_ejust. exact H.
  - apply andb_true_iff in H as [H1 H2]. split; [apply clean_ejust; exact H1|].
    destruct sval; [discriminate|]. intros c Hc. discriminate.
  - apply andb_true_iff in H as [H1 H2]. split; apply clean_ejust; assumption.
  - rewrite forallb_forall in H. apply Forall_forall. intros a Ha. specialize (H a Ha).
    destruct a; [exact I|]. cbn. apply clean_ejust. exact H.
  - apply clean_ejust. exact H.
Qed.

Lemma clean_Inv p ss : forallb clean_stmt ss = true -> Inv p ss [].
Proof.
  intros H. split.
  - apply Forall_forall. intros s Hs. rewrite forallb_forall in H. apply clean_sjust. auto.
  - intros v x Hv. discriminate.
Qed.

(* ---------- local definitions are unique: a checkable condition ---------- *)
Lemma filter_length_app {A} (f : A -> bool) l1 l2 :
  length (filter f (l1 ++ l2)) = (length (filter f l1) + length (filter f l2))%nat.
Proof. rewrite filter_app, app_length. reflexivity. Qed.

Lemma filter_none {A} (f : A -> bool) l : length (filter f l) = 0%nat -> forall x, In x l -> f x = false.
Proof.
  induction l as [|a tl IH]; intros H x Hx; [contradiction|]. cbn [filter] in H.
  destruct (f a) eqn:Ea; [discriminate|]. destruct Hx as [<-|Hx]; auto.
Qed.

Lemma ldefs_unique_uniq ss : ldefs_unique ss = true -> uniq (map sigq ss).
Proof.
  intros H A B v Heq y Hy Hfst.
  (* split ss along the decomposition of its signature list *)
  apply map_eq_app in Heq as (A' & R & -> & <- & HR).
  destruct R as [|s B']; [discriminate|]. cbn [map] in HR. unfold sigq at 1 in HR. injection HR as Ht Hl HB. subst B.
  unfold ldefs_unique in H. rewrite forallb_forall in H.
  assert (Hins : In s (A' ++ s :: B')) by (apply in_or_app; right; left; reflexivity).
  specialize (H s Hins).
  rewrite Hl, Ht in H. cbn [negb orb] in H.
  apply Nat.eqb_eq in H. rewrite filter_length_app in H. cbn [filter] in H.
  assert (Hd : defines v s = true) by (apply defines_tgt; exact Ht). rewrite Hd in H. cbn [length] in H.
  assert (H1 : length (filter (defines v) A') = 0%nat) by lia.
  assert (H2 : length (filter (defines v) B') = 0%nat) by lia.
  rewrite <- map_app in Hy. apply in_map_iff in Hy as (t & <- & Ht').
  assert (Hf : defines v t = false).
  { apply in_app_or in Ht' as [Hin|Hin]; [exact (filter_none (defines v) A' H1 t Hin)|exact (filter_none (defines v) B' H2 t Hin)]. }
  unfold sigq in Hfst. cbn [fst] in Hfst. apply defines_tgt in Hfst. congruence.
Qed.

(* ================= the universal statement of C20 (values) ================= *)
Theorem mirror_validated_at_every_budget k p c bs env :
  clean_cfg c = true -> ldefs_unique (all_stmts (c_blocks c)) = true ->
  values_passes k p [] (c_blocks c) = Ok (bs, env) ->
  vjust_cfg p (set_blocks c bs) = true.
Proof.
  intros Hclean Hu Hk. unfold vjust_cfg. cbn [set_blocks c_blocks].
  destruct (passes_inv p k [] (c_blocks c) bs env (ldefs_unique_uniq _ Hu) (clean_Inv p _ Hclean) Hk) as [Hi _].
  apply Inv_validated with (env := env). exact Hi.
Qed.
