(* C13: the walk of the lifted graph simulates the structured semantics.
   The simulation is stated against ANY final graph G that extends the
   intermediate graph (gext) and is well formed: closed blocks keep their exit
   in G, pending blocks are left through whatever exit G gives them. *)
From stdpp Require Import list sets.
Require Import Model.Lift Spec.CfgSpec Proofs.LiftBasics Proofs.LiftInv Proofs.LiftSteps Proofs.LiftProofs.
Import Base(outcome, Ok, Err, Panic, OutOfFuel, bind).

(* ---------------- walks ---------------- *)
Lemma walks_trans g p ds tr1 p1 ds1 tr2 p2 ds2 :
  walks g p ds tr1 p1 ds1 -> walks g p1 ds1 tr2 p2 ds2 -> walks g p ds (tr1 ++ tr2) p2 ds2.
Proof.
  induction 1 as [|p ds o p1' ds1' tr p2' ds2' Hs Hw IH]; simpl; [done|].
  intros H2. rewrite <- app_assoc. econstructor; [done|by apply IH].
Qed.

Lemma walks_one g p ds o p1 ds1 : step g p ds = Some (o, p1, ds1) -> walks g p ds (okey o) p1 ds1.
Proof. intros H. rewrite <- (app_nil_r (okey o)). econstructor; [done|constructor]. Qed.

Lemma step_at_leaf G i k B id ds :
  G !! i = Some B -> b_items B !! k = Some (ILeaf id) ->
  step G (i, k) ds = Some (Some (KLeaf id), (i, S k), ds).
Proof. intros H1 H2. unfold step. by rewrite H1, H2. Qed.

Lemma step_at_branch G i k B c t f ds :
  G !! i = Some B -> b_items B !! k = Some (IBranch c t f) ->
  step G (i, k) ds =
    match ds with
    | [] => Some (Some (KCond c), (i, S k), [])
    | true :: ds1 => Some (Some (KCond c), (t, 0), ds1)
    | false :: ds1 =>
        Some (Some (KCond c),
              match false_target (b_succs B) t f with Some x => (x, 0) | None => (i, S k) end, ds1)
    end.
Proof.
  intros H1 H2. unfold step. rewrite H1, H2. destruct ds as [|[] ?]; try done.
  by destruct (false_target _ _ _).
Qed.

Lemma step_silent G i B x ds :
  G !! i = Some B -> ends_plain B -> b_succs B = [x] ->
  step G (i, length (b_items B)) ds = Some (None, (x, 0), ds).
Proof.
  intros H1 H2 H3. unfold step. rewrite H1.
  rewrite (lookup_ge_None_2 (b_items B)) by lia. rewrite decide_True by done. rewrite H3.
  destruct (last (b_items B)) as [[|c t f]|] eqn:E; try done. by destruct (H2 c t f).
Qed.

(* ---------------- what a well-formed final graph says about exits ---------------- *)
Lemma nodup_singleton_ext (l : list nat) x : NoDup l -> (forall y, y ∈ l <-> y = x) -> l = [x].
Proof.
  intros Hnd H. destruct l as [|a [|b r]].
  - specialize (H x). set_solver.
  - f_equal. apply H. set_solver.
  - exfalso. apply NoDup_cons in Hnd as [Hn _]. rewrite (proj1 (H a)), (proj1 (H b)) in Hn; set_solver.
Qed.

Lemma filter_other (l : list nat) a b :
  NoDup l -> (forall y, y ∈ l <-> y = a \/ y = b) -> b <> a -> filter (fun x => x ≠ a) l = [b].
Proof.
  intros Hnd H Hne. apply nodup_singleton_ext; [by apply NoDup_filter|].
  intros y. rewrite elem_of_list_filter, H. naive_solver.
Qed.

Lemma G_plain_exit G PG i B x :
  wf G PG -> G !! i = Some B -> ends_plain B -> x ∈ b_succs B -> b_succs B = [x].
Proof.
  intros Hwf HB Hpl Hx. pose proof (wf_blk _ _ Hwf _ _ HB) as Hok.
  pose proof (ok_shape _ _ _ _ Hok) as Hs. apply (shape_plain _ _ _ _ Hpl) in Hs.
  destruct Hs as [[_ E]|(_ & x' & Hx')]; [rewrite E in Hx; set_solver|].
  assert (x = x') as -> by (by apply Hx').
  apply nodup_singleton_ext; [apply ssorted_NoDup, (ok_ss _ _ _ _ Hok)|done].
Qed.

Lemma G_branch_exit G PG i B c t f x :
  wf G PG -> G !! i = Some B -> last (b_items B) = Some (IBranch c t f) ->
  x ∈ b_succs B -> x <> S i -> false_target (b_succs B) t f = Some x.
Proof.
  intros Hwf HB Hl Hx Hne. pose proof (wf_blk _ _ Hwf _ _ HB) as Hok.
  pose proof (ok_shape _ _ _ _ Hok) as Hs. unfold shape in Hs. rewrite Hl in Hs.
  destruct Hs as (-> & _ & [(_ & _ & Hs)|(_ & x' & Hx' & Hf & Hs)]).
  - apply Hs in Hx. done.
  - assert (x = x') as -> by (apply Hs in Hx; naive_solver).
    unfold false_target. destruct Hf as [->| ->]; [|done].
    rewrite (filter_other _ (S i) x'); [done|apply ssorted_NoDup, (ok_ss _ _ _ _ Hok)|done|done].
Qed.

Lemma iext_last b B : bext b B -> length (b_items B) = length (b_items b) ->
  match last (b_items b) with
  | Some it => exists it', last (b_items B) = Some it' /\ iext it it'
  | None => last (b_items B) = None
  end.
Proof.
  intros (_ & Hit & _) Hlen. rewrite !last_lookup', Hlen.
  destruct (b_items b !! (length (b_items b) - 1)) eqn:E; [by apply Hit|].
  apply lookup_ge_None in E. apply lookup_ge_None. lia.
Qed.

Lemma gext_item g G i b k it :
  gext g G -> g !! i = Some b -> b_items b !! k = Some it ->
  exists B it', G !! i = Some B /\ b_items B !! k = Some it' /\ iext it it'.
Proof.
  intros He Hb Hk. destruct (He _ _ Hb) as (B & HB & (_ & Hit & _)).
  destruct (Hit _ _ Hk) as (it' & Hk' & Hi). eauto.
Qed.

(* ---------------- positions ---------------- *)
Definition start_pos (g : graph) : pos :=
  (length g - 1, match g !! (length g - 1) with Some b => length (b_items b) | None => 0 end).

Definition pend (g : graph) (ps : list nat) : list nat :=
  if is_nil ps then [length g - 1] else ps.

(* where the walk is when it has left pending block i of the intermediate graph g' *)
Definition exit_pos (g' G : graph) (i : nat) (q : pos) : Prop :=
  exists b, g' !! i = Some b /\
  match last (b_items b) with
  | Some (IBranch _ _ _) =>
      exists B c t f, G !! i = Some B /\ last (b_items B) = Some (IBranch c t f) /\
        q = match false_target (b_succs B) t f with Some x => (x, 0) | None => (i, length (b_items B)) end
  | _ => q = (i, length (b_items b))
  end.

Lemma exit_resolve g1 G PG i q b1 b2 x ds :
  exit_pos g1 G i q -> g1 !! i = Some b1 -> bext b1 b2 -> length (b_items b2) = length (b_items b1) ->
  x ∈ b_succs b2 -> (x <> S i \/ ends_plain b1) -> (exists B, G !! i = Some B /\ bext b2 B) -> wf G PG ->
  walks G q ds [] (x, 0) ds.
Proof.
  intros (b & Hb & Hq) Hb1 He12 Hlen Hx Hor (B & HB & He2B) HwfG.
  rewrite Hb1 in Hb. injection Hb as <-.
  assert (Hne : b_succs b2 <> []) by (intros E; rewrite E in Hx; set_solver).
  assert (HlenB : length (b_items B) = length (b_items b2)) by (by apply He2B).
  assert (HxB : x ∈ b_succs B) by (by apply He2B).
  pose proof (iext_last b1 b2 He12 Hlen) as L12. pose proof (iext_last b2 B He2B HlenB) as L2B.
  assert (Hplain : ends_plain B -> q = (i, length (b_items b1)) -> walks G q ds [] (x, 0) ds).
  { intros HplB ->. rewrite <- Hlen, <- HlenB.
    apply (walks_one G _ ds None). apply step_silent; [done|done|]. by eapply G_plain_exit. }
  destruct (last (b_items b1)) as [[id|c t f]|] eqn:E1.
  - destruct L12 as (it2 & E2 & I12). destruct it2; [|done]. rewrite E2 in L2B.
    destruct L2B as (itB & EB & I2B). destruct itB; [|done].
    apply Hplain; [|done]. intros c t f. by rewrite EB.
  - destruct Hq as (B' & c' & t' & f' & HB' & EB' & ->). rewrite HB in HB'. injection HB' as <-.
    assert (x <> S i) by (destruct Hor as [?|Hp]; [done|by destruct (Hp c t f)]).
    rewrite (G_branch_exit G PG i B c' t' f' x) by done. constructor.
  - rewrite L12 in L2B. apply Hplain; [|done]. intros c t f. by rewrite L2B.
Qed.

(* ---------------- the semantics' inner loops as functions ---------------- *)
Fixpoint run_seq (ss : list sk) (ds : list bool) : result :=
  match ss with
  | [] => ([], ds, Running)
  | s :: r =>
      let '(tr1, ds1, st1) := run s ds in
      match st1 with
      | Running => let '(tr2, ds2, st2) := run_seq r ds1 in (tr1 ++ tr2, ds2, st2)
      | _ => (tr1, ds1, st1)
      end
  end.

Lemma run_block ss ds : run (SBlock ss) ds = run_seq ss ds.
Proof.
  simpl. revert ds. induction ss as [|s r IH]; intros ds; [done|]. simpl.
  destruct (run s ds) as [[tr1 ds1] st1]. destruct st1; try done; by rewrite IH.
Qed.

Lemma run_init ss ds : run (SInit ss) ds = run_seq ss ds.
Proof.
  simpl. revert ds. induction ss as [|s r IH]; intros ds; [done|]. simpl.
  destruct (run s ds) as [[tr1 ds1] st1]. destruct st1; try done; by rewrite IH.
Qed.

Lemma run_while c body ds : run (SWhile c body) ds = run_loop c (run body) (S (length ds)) ds.
Proof. reflexivity. Qed.

(* ---------------- the simulation ---------------- *)
Definition sim_ok (s : sk) : Prop :=
  forall d g P0 g' ps G PG ds tr ds' st,
    pre g d P0 -> visit s d g = Ok (g', ps) -> gext g' G -> wf G PG ->
    run s ds = (tr, ds', st) ->
    match st with
    | Running => exists i q, i ∈ pend g' ps /\ exit_pos g' G i q /\ walks G (start_pos g) ds tr q ds'
    | _ => exists q, walks G (start_pos g) ds tr q ds'
    end.

Lemma start_pos_pre g d P0 : pre g d P0 ->
  exists bl, g !! (length g - 1) = Some bl /\ ends_plain bl /\ start_pos g = (length g - 1, length (b_items bl)).
Proof.
  intros [_ _ (bl & Hbl & Hpl & _)]. exists bl. unfold start_pos. rewrite Hbl. done.
Qed.

(* the open last block of a [pre] state is its own exit position *)
Lemma exit_pos_open g d P0 G : pre g d P0 -> exit_pos g G (length g - 1) (start_pos g).
Proof.
  intros Hpre. destruct (start_pos_pre _ _ _ Hpre) as (bl & Hbl & Hpl & ->).
  exists bl. split; [done|]. destruct (last (b_items bl)) as [[|c t f]|] eqn:E; try done.
  by destruct (Hpl c t f).
Qed.

Lemma exit_pos_open_inv g d P0 G q : pre g d P0 -> exit_pos g G (length g - 1) q -> q = start_pos g.
Proof.
  intros Hpre (b & Hb & Hq). destruct (start_pos_pre _ _ _ Hpre) as (bl & Hbl & Hpl & ->).
  rewrite Hbl in Hb. injection Hb as <-.
  destruct (last (b_items bl)) as [[|c t f]|] eqn:E; try done. by destruct (Hpl c t f).
Qed.

(* a block that is pending in a well-formed graph: a branch has its true target below the length *)
Lemma pending_exit_side g P i b j :
  wf g P -> g !! i = Some b -> length g <= j -> j <> S i \/ ends_plain b.
Proof.
  intros Hwf Hb Hj. pose proof (ok_shape _ _ _ _ (wf_blk _ _ Hwf _ _ Hb)) as Hs. unfold shape in Hs.
  destruct (last (b_items b)) as [[|c t f]|] eqn:E.
  - right. intros c t f. by rewrite E.
  - left. destruct Hs as (_ & Hlt & _). lia.
  - right. intros c t f. by rewrite E.
Qed.

(* after completing with the pending set, the walk that left block i1 is at the new block *)
Lemma resolve_complete g1 ps1 d g2 G PG i1 q1 P ds :
  wf g1 P -> (forall i, i ∈ ps1 -> i < length g1) -> NoDup ps1 ->
  complete g1 ps1 d = Ok g2 -> gext g2 G -> wf G PG ->
  i1 ∈ ps1 -> exit_pos g1 G i1 q1 ->
  walks G q1 ds [] (start_pos g2) ds.
Proof.
  intros Hwf Hlt Hnd Hc He HG Hi1 Hex.
  destruct (complete_lookup _ _ _ _ Hlt Hnd Hc) as (Hlen & Hlk & nb & Hnb & Hnbi).
  assert (start_pos g2 = (length g1, 0)) as ->.
  { unfold start_pos. rewrite Hlen. simpl. rewrite Nat.sub_0_r, Hnb, Hnbi. done. }
  destruct (lookup_lt_is_Some_2 g1 i1 (Hlt _ Hi1)) as (b1 & Hb1).
  pose proof (Hlk _ _ Hb1) as Hb2. rewrite decide_True in Hb2 by done.
  eapply (exit_resolve g1 G PG i1 q1 b1 (close (length g1) b1)); try done.
  - apply bext_close.
  - simpl. apply patch_last_length.
  - simpl. apply elem_of_ins. by left.
  - eapply pending_exit_side; [exact Hwf|exact Hb1|lia].
  - by apply He.
Qed.

(* how a sequence of statements evolves the graph (only what the simulation needs) *)
Lemma visit_seq_mid ss :
  forall d (g0 : graph) (P0 : nat -> Prop) (g1 : graph) (ps1 : list nat) (g' : graph) (ps : list nat),
  (forall i, P0 i -> i < length g0 - 1) ->
  length g0 <= length g1 -> (forall i, i ∈ ps1 -> length g0 - 1 <= i < length g1) -> ssorted ps1 ->
  (if is_nil ps1 then pre g1 d P0 else wf g1 (fun i => P0 i \/ i ∈ ps1)) ->
  visit_seq d ss ps1 g1 = Ok (g', ps) -> gext g1 g'.
Proof.
  induction ss as [|s r IH]; intros d g0 P0 g1 ps1 g' ps HP0 Hlen Hrange Hss Hst Hv.
  - simpl in Hv. injection Hv as <- <-. apply gext_refl.
  - simpl in Hv. inv_bind Hv. rename a into g2. inv_bind Hv. destruct a as [g3 ps3]. simpl in Hv.
    assert (H2 : pre g2 d P0 /\ length g1 <= length g2 /\ gext g1 g2).
    { destruct (is_nil ps1) eqn:En.
      - injection E as <-. split; [done|]. split; [done|apply gext_refl].
      - apply is_nil_false in En.
        destruct (step_complete g1 ps1 d P0 g2) as (Hp & Hl & _ & He); try done.
        + destruct ps1 as [|p ?]; [done|]. eapply (wf_nonempty _ _ p); [done|]. right. set_solver.
        + intros i Hi HPi. specialize (HP0 _ HPi). specialize (Hrange _ Hi). lia.
        + split; [done|]. split; [lia|done]. }
    destruct H2 as (Hpre2 & Hl2 & He2).
    destruct (visit_post s d g2 P0 g3 ps3 Hpre2 E0) as [Q1 Q2 Q3 Q4 Q5 Q6 Q7].
    eapply gext_trans; [exact He2|]. eapply gext_trans; [exact Q6|].
    eapply (IH d g0 P0 g3 ps3); try done.
    + lia.
    + intros i Hi. specialize (Q2 _ Hi). lia.
Qed.

Lemma sim_seq ss : Forall sim_ok ss ->
  forall d (g0 : graph) (P0 : nat -> Prop) (g1 : graph) (ps1 : list nat) (g' : graph) (ps : list nat)
         G PG ds tr ds' st i1 q1,
  (forall i, P0 i -> i < length g0 - 1) ->
  length g0 <= length g1 -> (forall i, i ∈ ps1 -> length g0 - 1 <= i < length g1) -> ssorted ps1 ->
  (if is_nil ps1 then pre g1 d P0 else wf g1 (fun i => P0 i \/ i ∈ ps1)) ->
  visit_seq d ss ps1 g1 = Ok (g', ps) -> gext g' G -> wf G PG ->
  run_seq ss ds = (tr, ds', st) ->
  i1 ∈ pend g1 ps1 -> exit_pos g1 G i1 q1 ->
  match st with
  | Running => exists i q, i ∈ pend g' ps /\ exit_pos g' G i q /\ walks G q1 ds tr q ds'
  | _ => exists q, walks G q1 ds tr q ds'
  end.
Proof.
  induction 1 as [|s r Hs _ IH];
    intros d g0 P0 g1 ps1 g' ps G PG ds tr ds' st i1 q1 HP0 Hlen Hrange Hss Hst Hv HeG HG Hrun Hi1 Hq1.
  - simpl in Hv, Hrun. injection Hv as <- <-. injection Hrun as <- <- <-.
    exists i1, q1. split; [done|]. split; [done|constructor].
  - simpl in Hv. inv_bind Hv. rename a into g2. inv_bind Hv. destruct a as [g3 ps3]. simpl in Hv.
    (* the state after the optional complete_basic_block *)
    assert (H2 : pre g2 d P0 /\ length g1 <= length g2 /\
                 (gext g2 G -> walks G q1 ds [] (start_pos g2) ds)).
    { unfold pend in Hi1. destruct (is_nil ps1) eqn:En.
      - injection E as <-. split; [done|]. split; [done|]. intros _.
        apply elem_of_list_singleton in Hi1 as ->.
        rewrite (exit_pos_open_inv _ _ _ _ _ Hst Hq1). constructor.
      - apply is_nil_false in En.
        destruct (step_complete g1 ps1 d P0 g2) as (Hp & Hl & _); try done.
        + destruct ps1 as [|p ?]; [done|]. eapply (wf_nonempty _ _ p); [done|]. right. set_solver.
        + intros i Hi HPi. specialize (HP0 _ HPi). specialize (Hrange _ Hi). lia.
        + split; [done|]. split; [lia|]. intros He2.
          eapply (resolve_complete g1 ps1 d g2 G PG i1 q1 _ ds Hst); try done.
          * intros i Hi. apply (wf_P _ _ Hst). by right.
          * by apply ssorted_NoDup. }
    destruct H2 as (Hpre2 & Hl2 & Hw2).
    destruct (visit_post s d g2 P0 g3 ps3 Hpre2 E0) as [Q1 Q2 Q3 Q4 Q5 Q6 Q7].
    assert (He3 : gext g3 g').
    { eapply (visit_seq_mid r d g0 P0 g3 ps3); try done; [lia|].
      intros i Hi. specialize (Q2 _ Hi). lia. }
    assert (He3G : gext g3 G) by (by eapply gext_trans).
    assert (He2G : gext g2 G) by (by eapply gext_trans).
    specialize (Hw2 He2G).
    simpl in Hrun. destruct (run s ds) as [[tr1 ds1] st1] eqn:Er.
    pose proof (Hs d g2 P0 g3 ps3 G PG ds tr1 ds1 st1 Hpre2 E0 He3G HG Er) as Hsim.
    destruct st1.
    + destruct (run_seq r ds1) as [[tr2 ds2] st2] eqn:Er2. injection Hrun as <- <- <-.
      destruct Hsim as (i3 & q3 & Hi3 & Hq3 & Hw3).
      assert (Hrest := IH d g0 P0 g3 ps3 g' ps G PG ds1 tr2 ds2 st2 i3 q3).
      assert (Hw : walks G q1 ds tr1 q3 ds1).
      { change tr1 with ([] ++ tr1). by eapply walks_trans. }
      destruct st2; [destruct Hrest as (i & q & ? & ? & Hwr); try done
                    |destruct Hrest as (q & Hwr); try done..];
        try lia; try (intros i' Hi'; specialize (Q2 _ Hi'); lia).
      * exists i, q. split; [done|]. split; [done|]. by eapply walks_trans.
      * exists q. by eapply walks_trans.
      * exists q. by eapply walks_trans.
      * exists q. by eapply walks_trans.
    + injection Hrun as <- <- <-. destruct Hsim as (q & Hw). exists q.
      change tr1 with ([] ++ tr1). by eapply walks_trans.
    + injection Hrun as <- <- <-. destruct Hsim as (q & Hw). exists q.
      change tr1 with ([] ++ tr1). by eapply walks_trans.
    + injection Hrun as <- <- <-. destruct Hsim as (q & Hw). exists q.
      change tr1 with ([] ++ tr1). by eapply walks_trans.
Qed.

Lemma visit_init_seq ss d g r : visit_init d ss g = Ok r -> visit_seq d ss [] g = Ok r.
Proof.
  revert g. induction ss as [|s rest IH]; intros g; simpl; [done|].
  intros H. inv_bind H. rewrite E. simpl.
  destruct (is_nil (snd a)) eqn:En; [|done]. apply is_nil_true in En. rewrite En. by apply IH.
Qed.

Lemma start_pos_new g n nb : length g = S n -> g !! n = Some nb -> b_items nb = [] -> start_pos g = (n, 0).
Proof.
  intros Hl Hn Hi. unfold start_pos. rewrite Hl. simpl. rewrite Nat.sub_0_r, Hn, Hi. done.
Qed.

Lemma last_singleton_lookup {A} (l : list A) x : length l = 1 -> l !! 0 = Some x -> last l = Some x.
Proof. destruct l as [|y [|]]; simpl; try done. Qed.

Theorem sim_all s : sim_ok s.
Proof.
  induction s as [id r|ss IH|ss IH|c body IH|c t e IHt IHe] using sk_ind';
    intros d g P0 g' ps G PG ds tr ds' st Hpre Hv HeG HG Hrun.
  - (* leaf *)
    simpl in Hv. inv_bind Hv. inv_bind Hv. injection Hv as <- <-.
    simpl in Hrun. injection Hrun as <- <- <-.
    destruct (start_pos_pre _ _ _ Hpre) as (bl & Hbl & Hpl & Hsp).
    apply upd_last_inv in E0 as [Hne ->].
    set (l := length g - 1) in *.
    assert (Hb1 : alter (push_item (ILeaf id)) l g !! l = Some (push_item (ILeaf id) bl))
      by (by rewrite list_lookup_alter, Hbl).
    destruct (gext_item _ G l _ (length (b_items bl)) (ILeaf id) HeG Hb1) as (B & it' & HB & Hk & Hi).
    { simpl. rewrite lookup_app_r by lia. by rewrite Nat.sub_diag. }
    destruct it' as [id'|]; [|done]. simpl in Hi. subst id'.
    assert (Hw : walks G (start_pos g) ds [KLeaf id] (l, S (length (b_items bl))) ds).
    { rewrite Hsp. apply (walks_one G _ ds (Some (KLeaf id))). by eapply step_at_leaf. }
    destruct r.
    + eexists. exact Hw.
    + exists l, (l, S (length (b_items bl))). split; [|split; [|done]].
      * unfold pend. simpl. rewrite alter_length. set_solver.
      * eexists. split; [exact Hb1|]. simpl. rewrite last_snoc, app_length. simpl. by rewrite Nat.add_1_r.
  - (* initialisation block *)
    rewrite visit_init_eq in Hv. inv_bind Hv. apply visit_init_seq in Hv. rewrite run_init in Hrun.
    apply (sim_seq ss IH d g P0 g [] g' ps G PG ds tr ds' st (length g - 1) (start_pos g)); try done.
    + apply (pre_P0 _ _ _ Hpre).
    + set_solver.
    + unfold pend. simpl. set_solver.
    + by eapply exit_pos_open.
  - (* block *)
    rewrite visit_block_eq in Hv. inv_bind Hv. rewrite run_block in Hrun.
    apply (sim_seq ss IH d g P0 g [] g' ps G PG ds tr ds' st (length g - 1) (start_pos g)); try done.
    + apply (pre_P0 _ _ _ Hpre).
    + set_solver.
    + unfold pend. simpl. set_solver.
    + by eapply exit_pos_open.
  - (* while *)
    rewrite run_while in Hrun.
    simpl in Hv. rewrite (pre_last_index _ _ _ Hpre) in Hv. simpl in Hv.
    set (l := length g - 1) in *.
    assert (Hlg : length g = S l) by (pose proof (pre_length _ _ _ Hpre); unfold l; lia).
    inv_bind Hv. rename a into g1, E into E1.
    inv_bind Hv. rename a into g2, E into E2.
    inv_bind Hv. rename a into g3, E into E3.
    inv_bind Hv. destruct a as [g4 ps4]. rename E into E4. simpl in Hv.
    inv_bind Hv. rename a into ps', E into E5.
    inv_bind Hv. rename a into g5, E into E6. injection Hv as <- <-.
    assert (Hwf0 : wf g (fun i => P0 i \/ i ∈ [l])).
    { eapply wf_ext; [|apply (pre_wf _ _ _ Hpre)]. intros i. apply singleton_ext. }
    destruct (step_complete g [l] d P0 g1) as (Hp1 & Hl1 & Hi1 & He1); try done.
    { by eapply pre_nonempty. }
    { apply ssorted_singleton. }
    { intros i Hi HPi. apply elem_of_list_singleton in Hi as ->. apply (pre_P0 _ _ _ Hpre) in HPi. lia. }
    assert (Hlt1 : forall i, i ∈ [l] -> i < length g).
    { intros i Hi. apply elem_of_list_singleton in Hi as ->. lia. }
    destruct (complete_lookup g [l] d g1 Hlt1 (NoDup_singleton l) E1) as (_ & _ & nb1 & Hnb1 & Hnb1i).
    assert (Hh : l + 1 = length g1 - 1) by lia.
    replace (l + 2) with (S (length g1 - 1)) in E2 by lia. rewrite Hh in E3, E6 |- *.
    destruct (step_branch g1 d (d + 1) P0 c g2 g3 Hp1 E2 E3)
      as (Hp3 & Hl3 & Hi3 & He3 & (bo & bh & Hbo & Hbh & Hbhi & Hbhs) & (nb & Hnb & Hnbi)).
    set (h := length g1 - 1) in *.
    assert (Hhl : h = length g) by (unfold h; lia).
    rewrite Hhl in Hbo. rewrite Hnb1 in Hbo. injection Hbo as <-. rewrite Hnb1i in Hbhi. simpl in Hbhi.
    destruct (visit_post body (d + 1) g3 _ g4 ps4 Hp3 E4) as [Q1 Q2 Q3 Q4 Q5 Q6 Q7].
    destruct (or_last_spec g4 (d + 1) _ ps4 ps' Q4 Q3 E5) as (O1 & O2 & O3 & O4 & O5).
    assert (Hps' : forall i, i ∈ ps' -> h < i /\ ~ P0 i).
    { intros i Hi. assert (length g3 - 1 <= i).
      { destruct (O4 _ Hi) as [Hi'|[-> ->]]; [apply Q2 in Hi'; lia|lia]. }
      split; [lia|]. intros HPi. apply (pre_P0 _ _ _ Hpre) in HPi. lia. }
    destruct (step_back g4 h ps' P0 g5) as (Hw5 & Hl5 & Hi5 & He5 & Hadd & _); try done.
    { eapply wf_ext; [|exact O3]. intros i. simpl. tauto. }
    { lia. }
    assert (He4G : gext g4 G) by (by eapply gext_trans).
    assert (He3G : gext g3 G) by (by eapply gext_trans).
    assert (He1G : gext g1 G) by (by eapply gext_trans).
    (* from the end of the block before the loop to the header *)
    assert (Hw1 : walks G (start_pos g) ds [] (h, 0) ds).
    { rewrite <- (start_pos_new g1 h nb1); [|lia|by rewrite Hhl|done].
      eapply (resolve_complete g [l] d g1 G PG l (start_pos g) _ ds Hwf0); try done.
      - apply NoDup_singleton.
      - set_solver.
      - by eapply exit_pos_open. }
    (* the header in the final graph *)
    destruct (gext_item g3 G h bh 0 (IBranch c (length g1) None) He3G Hbh) as (Bh & it' & HBh & HBh0 & Hi0).
    { by rewrite Hbhi. }
    destruct it' as [|c' t' f']; [done|]. destruct Hi0 as (<- & <- & _).
    assert (HBhlen : length (b_items Bh) = 1).
    { destruct (He3G _ _ Hbh) as (B' & HB' & (_ & _ & Hl')). rewrite HBh in HB'. injection HB' as <-.
      rewrite Hl', Hbhi; [done|]. by rewrite Hbhs. }
    assert (Hsp3 : start_pos g3 = (length g1, 0)) by (by apply (start_pos_new g3 _ nb)).
    (* the header at loop exit *)
    assert (Hexit : exit_pos g5 G h
              (match false_target (b_succs Bh) (length g1) f' with Some x => (x, 0) | None => (h, 1) end)).
    { assert (He35 : gext g3 g5) by exact (gext_trans _ _ _ Q6 He5).
      destruct (He35 _ _ Hbh) as (b5 & Hb5 & Hbe).
      assert (Hl5' : length (b_items b5) = length (b_items bh)) by (apply Hbe; by rewrite Hbhs).
      pose proof (iext_last bh b5 Hbe Hl5') as L. rewrite Hbhi in L. simpl in L.
      destruct L as (it5 & E5' & I5). destruct it5 as [|c5 t5 f5]; [done|].
      exists b5. split; [done|]. rewrite E5'.
      exists Bh, c, (length g1), f'. split; [done|]. split; [by apply last_singleton_lookup|].
      by rewrite HBhlen. }
    assert (Hloop : forall fuel ds tr ds' st,
      run_loop c (run body) fuel ds = (tr, ds', st) ->
      match st with
      | Running => exists q, exit_pos g5 G h q /\ walks G (h, 0) ds tr q ds'
      | _ => exists q, walks G (h, 0) ds tr q ds'
      end).
    { induction fuel as [|fuel IHf]; intros ds0 tr0 ds0' st0 Hr; simpl in Hr.
      - injection Hr as <- <- <-. eexists. constructor.
      - destruct ds0 as [|[] ds1].
        + injection Hr as <- <- <-. eexists.
          apply (walks_one G _ [] (Some (KCond c))). by rewrite (step_at_branch G h 0 Bh c (length g1) f').
        + destruct (run body ds1) as [[tr1 ds2] st1] eqn:Eb.
          assert (Hwt : walks G (h, 0) (true :: ds1) [KCond c] (start_pos g3) ds1).
          { rewrite Hsp3. apply (walks_one G _ _ (Some (KCond c))).
            by rewrite (step_at_branch G h 0 Bh c (length g1) f'). }
          pose proof (IH (d + 1) g3 _ g4 ps4 G PG ds1 tr1 ds2 st1 Hp3 E4 He4G HG Eb) as Hsim.
          destruct st1.
          * destruct Hsim as (i & q & Hi & Hq & Hwb).
            unfold pend in Hi. rewrite <- O5 in Hi.
            assert (Hil : i < length g4) by (apply (wf_P _ _ O3); by right).
            destruct (lookup_lt_is_Some_2 g4 i Hil) as (b4 & Hb4).
            assert (Hback : walks G q ds2 [] (h, 0) ds2).
            { eapply (exit_resolve g4 G PG i q b4 (add_succ h b4)); try done.
              - apply bext_add_succ.
              - simpl. apply elem_of_ins. by left.
              - left. apply Hps' in Hi. lia.
              - apply HeG. by apply Hadd. }
            destruct (run_loop c (run body) fuel ds2) as [[tr2 ds3] st2] eqn:El.
            injection Hr as <- <- <-. specialize (IHf _ _ _ _ El).
            assert (Hpre_w : walks G (h, 0) (true :: ds1) ([KCond c] ++ tr1 ++ []) (h, 0) ds2).
            { eapply walks_trans; [exact Hwt|]. eapply walks_trans; [exact Hwb|exact Hback]. }
            rewrite app_nil_r in Hpre_w.
            change (KCond c :: tr1 ++ tr2) with ([KCond c] ++ tr1 ++ tr2). rewrite app_assoc.
            destruct st2; [destruct IHf as (q' & Hq' & Hw')|destruct IHf as (q' & Hw')..].
            -- exists q'. split; [done|]. by eapply walks_trans.
            -- exists q'. by eapply walks_trans.
            -- exists q'. by eapply walks_trans.
            -- exists q'. by eapply walks_trans.
          * injection Hr as <- <- <-. destruct Hsim as (q & Hwb). exists q.
            change (KCond c :: tr1) with ([KCond c] ++ tr1). by eapply walks_trans.
          * injection Hr as <- <- <-. destruct Hsim as (q & Hwb). exists q.
            change (KCond c :: tr1) with ([KCond c] ++ tr1). by eapply walks_trans.
          * injection Hr as <- <- <-. destruct Hsim as (q & Hwb). exists q.
            change (KCond c :: tr1) with ([KCond c] ++ tr1). by eapply walks_trans.
        + injection Hr as <- <- <-. eexists. split; [exact Hexit|].
          apply (walks_one G _ _ (Some (KCond c))). by rewrite (step_at_branch G h 0 Bh c (length g1) f'). }
    specialize (Hloop _ _ _ _ _ Hrun).
    destruct st; [destruct Hloop as (q & Hq & Hw)|destruct Hloop as (q & Hw)..].
    + exists h, q. split; [unfold pend; simpl; set_solver|]. split; [done|].
      change tr with ([] ++ tr). by eapply walks_trans.
    + exists q. change tr with ([] ++ tr). by eapply walks_trans.
    + exists q. change tr with ([] ++ tr). by eapply walks_trans.
    + exists q. change tr with ([] ++ tr). by eapply walks_trans.
  - (* if *)
    simpl in Hv. rewrite (pre_last_index _ _ _ Hpre) in Hv. simpl in Hv.
    set (l := length g - 1) in *.
    assert (Hlg : length g = S l) by (pose proof (pre_length _ _ _ Hpre); unfold l; lia).
    inv_bind Hv. rename a into g1, E into E1.
    inv_bind Hv. rename a into g2, E into E2.
    inv_bind Hv. destruct a as [g3 ps3]. rename E into E3. simpl in Hv.
    inv_bind Hv. rename a into psi, E into E4.
    replace (l + 1) with (S l) in E1 by lia.
    destruct (step_branch g d d P0 c g1 g2 Hpre E1 E2)
      as (Hp2 & Hl2 & Hi2 & He2 & (bo & bh & Hbo & Hbh & Hbhi & Hbhs) & (nb & Hnb & Hnbi)).
    fold l in Hp2, Hbo, Hbh.
    destruct (start_pos_pre _ _ _ Hpre) as (bl & Hbl & Hpl & Hsp). fold l in Hbl, Hsp.
    rewrite Hbl in Hbo. injection Hbo as <-.
    set (k := length (b_items bl)) in *.
    destruct (visit_post t d g2 _ g3 ps3 Hp2 E3) as [Q1 Q2 Q3 Q4 Q5 Q6 Q7].
    destruct (or_last_spec g3 d _ ps3 psi Q4 Q3 E4) as (O1 & O2 & O3 & O4 & O5).
    assert (Hpsi : forall i, i ∈ psi -> length g2 - 1 <= i < length g3).
    { intros i Hi. destruct (O4 _ Hi) as [Hi'|[-> ->]]; [by apply Q2|lia]. }
    assert (Hsp2 : start_pos g2 = (length g, 0)) by (by apply (start_pos_new g2 _ nb)).
    assert (Hbhk : b_items bh !! k = Some (IBranch c (length g) None)).
    { rewrite Hbhi. rewrite lookup_app_r by (unfold k; lia). by rewrite Nat.sub_diag. }
    assert (Hbhlen : length (b_items bh) = S k) by (rewrite Hbhi, app_length; simpl; unfold k; lia).
    (* common part: what the final graph holds at block l, given that it extends g2 *)
    assert (Hhead : gext g2 G ->
      exists Bh f', G !! l = Some Bh /\ b_items Bh !! k = Some (IBranch c (length g) f') /\
                    length (b_items Bh) = S k /\ bext bh Bh).
    { intros He2G. destruct (He2G _ _ Hbh) as (Bh & HBh & Hbe).
      pose proof Hbe as (_ & Hit & Hlen'). destruct (Hit _ _ Hbhk) as (it' & Hk' & Hi').
      destruct it' as [|c' t' f']; [done|]. destruct Hi' as (<- & <- & _).
      exists Bh, f'. split; [done|]. split; [done|]. split; [|done].
      rewrite Hlen', Hbhlen; [done|]. by rewrite Hbhs. }
    destruct e as [e|].
    + (* with else *)
      inv_bind Hv. rename a into g4, E into E5.
      inv_bind Hv. destruct a as [g5 ps5]. rename E into E6. simpl in Hv.
      inv_bind Hv. rename a into pse, E into E7. injection Hv as <- <-.
      assert (Hwf3 : wf g3 (fun i => (P0 i \/ i ∈ psi) \/ i ∈ [l])).
      { eapply wf_ext; [|exact O3]. intros i. simpl. set_solver. }
      destruct (step_complete g3 [l] d (fun i => P0 i \/ i ∈ psi) g4) as (Hp4 & Hl4 & Hi4 & He4); try done.
      { destruct psi as [|p ?]; [done|]. eapply (wf_nonempty _ _ p); [exact O3|]. right. set_solver. }
      { apply ssorted_singleton. }
      { intros i Hi [HPi|HPi]; apply elem_of_list_singleton in Hi as ->.
        - apply (pre_P0 _ _ _ Hpre) in HPi. lia.
        - apply Hpsi in HPi. lia. }
      assert (Hlt3 : forall i, i ∈ [l] -> i < length g3).
      { intros i Hi. apply elem_of_list_singleton in Hi as ->. lia. }
      destruct (complete_lookup g3 [l] d g4 Hlt3 (NoDup_singleton l) E5) as (_ & Hlk4 & nb4 & Hnb4 & Hnb4i).
      destruct (visit_post e d g4 _ g5 ps5 Hp4 E6) as [R1 R2 R3 R4 R5 R6 R7].
      destruct (or_last_spec g5 d _ ps5 pse R4 R3 E7) as (U1 & U2 & U3 & U4 & U5).
      assert (He4G : gext g4 G) by (by eapply gext_trans).
      assert (He3G : gext g3 G) by (by eapply gext_trans).
      assert (He2G : gext g2 G) by (by eapply gext_trans).
      destruct (Hhead He2G) as (Bh & f' & HBh & HBhk & HBhlen & Hbe).
      assert (Hsp4 : start_pos g4 = (length g3, 0)) by (by apply (start_pos_new g4 _ nb4)).
      (* the false exit of block l is the else block *)
      assert (Hfalse : false_target (b_succs Bh) (length g) f' = Some (length g3)).
      { destruct (lookup_lt_is_Some_2 g3 l) as (b3 & Hb3); [lia|].
        pose proof (Hlk4 _ _ Hb3) as Hb4. rewrite decide_True in Hb4 by set_solver.
        destruct (He4G _ _ Hb4) as (B' & HB' & (Hs' & _ & _)). rewrite HBh in HB'. injection HB' as <-.
        eapply (G_branch_exit G PG l Bh c); [done|done| | |lia].
        - rewrite last_lookup', HBhlen. simpl. by rewrite Nat.sub_0_r.
        - apply Hs'. simpl. apply elem_of_ins. by left. }
      simpl in Hrun. destruct ds as [|[] ds1].
      * injection Hrun as <- <- <-. eexists. rewrite Hsp.
        apply (walks_one G _ [] (Some (KCond c))). by rewrite (step_at_branch G l k Bh c (length g) f').
      * destruct (run t ds1) as [[tr1 ds2] st1] eqn:Er. injection Hrun as <- <- <-.
        assert (Hwt : walks G (start_pos g) (true :: ds1) [KCond c] (start_pos g2) ds1).
        { rewrite Hsp, Hsp2. apply (walks_one G _ _ (Some (KCond c))).
          by rewrite (step_at_branch G l k Bh c (length g) f'). }
        pose proof (IHt d g2 _ g3 ps3 G PG ds1 tr1 ds2 st1 Hp2 E3 He3G HG Er) as Hsim.
        change (KCond c :: tr1) with ([KCond c] ++ tr1).
        destruct st1; [destruct Hsim as (i & q & Hi & Hq & Hw)|destruct Hsim as (q & Hw)..].
        -- unfold pend in Hi. rewrite <- O5 in Hi.
           exists i, q. split; [|split; [|by eapply walks_trans]].
           ++ unfold pend. assert (is_nil (iunion psi pse) = false) as ->
                by (by apply is_nil_false, iunion_not_nil).
              apply elem_of_iunion. by left.
           ++ (* block i is not touched while the else branch is lifted *)
              destruct Hq as (b & Hb & Hq). exists b. split; [|done].
              apply Hpsi in Hi as Hir. rewrite R7 by lia. rewrite <- Hb.
              eapply frame_complete; [exact Hlt3|apply NoDup_singleton|exact E5| |lia].
              intros Hk. apply elem_of_list_singleton in Hk. lia.
        -- exists q. by eapply walks_trans.
        -- exists q. by eapply walks_trans.
        -- exists q. by eapply walks_trans.
      * destruct (run e ds1) as [[tr1 ds2] st1] eqn:Er. injection Hrun as <- <- <-.
        assert (Hwf' : walks G (start_pos g) (false :: ds1) [KCond c] (start_pos g4) ds1).
        { rewrite Hsp, Hsp4. apply (walks_one G _ _ (Some (KCond c))).
          by rewrite (step_at_branch G l k Bh c (length g) f'), Hfalse. }
        pose proof (IHe e eq_refl d g4 _ g5 ps5 G PG ds1 tr1 ds2 st1 Hp4 E6 HeG HG Er) as Hsim.
        change (KCond c :: tr1) with ([KCond c] ++ tr1).
        destruct st1; [destruct Hsim as (i & q & Hi & Hq & Hw)|destruct Hsim as (q & Hw)..].
        -- unfold pend in Hi. rewrite <- U5 in Hi.
           exists i, q. split; [|split; [done|by eapply walks_trans]].
           unfold pend. assert (is_nil (iunion psi pse) = false) as ->
             by (by apply is_nil_false, iunion_not_nil).
           apply elem_of_iunion. by right.
        -- exists q. by eapply walks_trans.
        -- exists q. by eapply walks_trans.
        -- exists q. by eapply walks_trans.
    + (* without else *)
      injection Hv as <- <-.
      assert (He2G : gext g2 G) by (by eapply gext_trans).
      destruct (Hhead He2G) as (Bh & f' & HBh & HBhk & HBhlen & Hbe).
      assert (Hpend : pend g3 (ins l psi) = ins l psi).
      { unfold pend. assert (is_nil (ins l psi) = false) as -> by (apply is_nil_false, ins_not_nil). done. }
      simpl in Hrun. destruct ds as [|[] ds1].
      * injection Hrun as <- <- <-. eexists. rewrite Hsp.
        apply (walks_one G _ [] (Some (KCond c))). by rewrite (step_at_branch G l k Bh c (length g) f').
      * destruct (run t ds1) as [[tr1 ds2] st1] eqn:Er. injection Hrun as <- <- <-.
        assert (Hwt : walks G (start_pos g) (true :: ds1) [KCond c] (start_pos g2) ds1).
        { rewrite Hsp, Hsp2. apply (walks_one G _ _ (Some (KCond c))).
          by rewrite (step_at_branch G l k Bh c (length g) f'). }
        pose proof (IHt d g2 _ g3 ps3 G PG ds1 tr1 ds2 st1 Hp2 E3 HeG HG Er) as Hsim.
        change (KCond c :: tr1) with ([KCond c] ++ tr1).
        destruct st1; [destruct Hsim as (i & q & Hi & Hq & Hw)|destruct Hsim as (q & Hw)..].
        -- unfold pend in Hi. rewrite <- O5 in Hi.
           exists i, q. rewrite Hpend. split; [apply elem_of_ins; by right|].
           split; [done|by eapply walks_trans].
        -- exists q. by eapply walks_trans.
        -- exists q. by eapply walks_trans.
        -- exists q. by eapply walks_trans.
      * injection Hrun as <- <- <-.
        exists l, (match false_target (b_succs Bh) (length g) f' with Some x => (x, 0) | None => (l, S k) end).
        rewrite Hpend. split; [apply elem_of_ins; by left|]. split.
        -- destruct (Q6 _ _ Hbh) as (b3 & Hb3 & Hbe3).
           assert (Hl3' : length (b_items b3) = length (b_items bh)) by (apply Hbe3; by rewrite Hbhs).
           pose proof (iext_last bh b3 Hbe3 Hl3') as L.
           rewrite last_lookup', Hbhlen in L. simpl in L. rewrite Nat.sub_0_r, Hbhk in L.
           destruct L as (it3 & E3' & I3). destruct it3 as [|c3 t3 f3]; [done|].
           exists b3. split; [done|]. rewrite E3'.
           exists Bh, c, (length g), f'. split; [done|]. split.
           ++ rewrite last_lookup', HBhlen. simpl. by rewrite Nat.sub_0_r.
           ++ by rewrite HBhlen.
        -- rewrite Hsp. apply (walks_one G _ _ (Some (KCond c))).
           by rewrite (step_at_branch G l k Bh c (length g) f').
Qed.
