(* C14, SSA construction, part 2: what renaming one block does, stated with the
   validator's own functions (SsaCheck.track / body_run / read_ok).
   [flat env] is the scoped version environment read as one map.  For a block of
   unversioned statements in which element-wise updates stand only at the top of an
   assignment to the same variable:
     ssa_stmts_sem     the environment after renaming = the defined versions of the
                       renamed statements tracked over the environment before; the
                       renamed body statements pass body_run from any map equivalent
                       to the environment before, ending equivalent to the one after
     ssa_stmts_def_src every version defined by a renamed statement comes from an
                       assignment to a declared local
     fold_track_other  tracking leaves the keys alone that no statement defines *)
From Coq Require Import ZArith NArith List Bool Lia Arith.
Require Import Model.Base Model.Ir Model.SsaCheck Model.SsaErase Model.Ssa Model.SsaPre.
Require Import Proofs.IrInd Proofs.IrFacts Proofs.SsaNoPanic Proofs.SsaConstruction Proofs.SsaProofs.
Import ListNotations.

(* ------------------------------------------------------------------------ *)
(* the scoped environment as one map                                         *)
(* ------------------------------------------------------------------------ *)
Definition flat (env : senv) : vmap := concat (se_scoped env).

Lemma vget_app a b k : vget (a ++ b) k = match vget a k with Some n => Some n | None => vget b k end.
Proof.
  induction a as [|[k' n] tl IH]; simpl; [reflexivity|]. destruct (key_eqb k' k); [reflexivity|exact IH].
Qed.

Lemma vget_concat ss k : vget (concat ss) k = scoped_get ss k.
Proof.
  induction ss as [|b tl IH]; simpl; [reflexivity|]. rewrite vget_app, IH. reflexivity.
Qed.

Lemma vget_flat env v : vget (flat env) (key_of v) = cur_version env v.
Proof. apply vget_concat. Qed.

Lemma flat_next env v : se_scoped env <> [] ->
  flat (snd (next_version env v)) = vset (flat env) (key_of v) (fst (next_version env v)).
Proof.
  intros H. unfold flat, next_version. cbn [snd fst se_scoped]. destruct (se_scoped env) as [|b tl]; [congruence|].
  reflexivity.
Qed.

Lemma next_scoped_ne env v : se_scoped (snd (next_version env v)) <> [].
Proof. unfold next_version. cbn [snd se_scoped]. destruct (se_scoped env); discriminate. Qed.

Lemma meq_vset_shadow L k n n' : meq (vset L k n') (vset (vset L k n) k n').
Proof. intros k'. rewrite !vget_vset. destruct (key_eqb k k'); reflexivity. Qed.

(* ------------------------------------------------------------------------ *)
(* equations for the nested loops of expr_reads / expr_unvb / expr_noupd      *)
(* ------------------------------------------------------------------------ *)
Fixpoint list_reads (es : list expr) : list vname :=
  match es with [] => [] | x :: tl => expr_reads x ++ list_reads tl end.
Fixpoint acc_reads (acc : list (access expr)) : list vname :=
  match acc with
  | [] => []
  | AIdx x :: tl => expr_reads x ++ acc_reads tl
  | AComp _ :: tl => acc_reads tl
  end.

Lemma expr_reads_call n args k : expr_reads (ECall n args k) = list_reads args.
Proof. reflexivity. Qed.
Lemma expr_reads_array vs k : expr_reads (EArray vs k) = list_reads vs.
Proof. reflexivity. Qed.
Lemma expr_reads_access v acc k : expr_reads (EAccess v acc k) = v :: acc_reads acc.
Proof. reflexivity. Qed.
Lemma expr_reads_update v acc rhe k : expr_reads (EUpdate v acc rhe k) = v :: expr_reads rhe ++ acc_reads acc.
Proof. reflexivity. Qed.

Lemma list_reads_flat_map es : list_reads es = flat_map expr_reads es.
Proof. induction es as [|x tl IH]; simpl; [reflexivity|]. rewrite IH. reflexivity. Qed.

Lemma expr_unvb_call n args k : expr_unvb (ECall n args k) = list_unvb args.
Proof. reflexivity. Qed.
Lemma expr_unvb_array vs k : expr_unvb (EArray vs k) = list_unvb vs.
Proof. reflexivity. Qed.
Lemma expr_unvb_access v acc k : expr_unvb (EAccess v acc k) = isnoneb (vn_version v) && acc_unvb acc.
Proof. reflexivity. Qed.
Lemma expr_unvb_update v acc rhe k :
  expr_unvb (EUpdate v acc rhe k) = isnoneb (vn_version v) && acc_unvb acc && expr_unvb rhe.
Proof. reflexivity. Qed.

Lemma expr_noupd_call n args k : expr_noupd (ECall n args k) = list_noupd args.
Proof. reflexivity. Qed.
Lemma expr_noupd_array vs k : expr_noupd (EArray vs k) = list_noupd vs.
Proof. reflexivity. Qed.
Lemma expr_noupd_access v acc k : expr_noupd (EAccess v acc k) = acc_noupd acc.
Proof. reflexivity. Qed.

Lemma isnoneb_true {A} (o : option A) : isnoneb o = true -> o = None.
Proof. destruct o; [discriminate|reflexivity]. Qed.

(* ------------------------------------------------------------------------ *)
(* expressions without element-wise update: the environment is only read     *)
(* ------------------------------------------------------------------------ *)
Definition reads_ok (m : vmap) (f : option vname) (l : list vname) : Prop := forallb (read_ok m f) l = true.

Lemma reads_ok_app m f a b : reads_ok m f a -> reads_ok m f b -> reads_ok m f (a ++ b).
Proof. unfold reads_ok. intros Ha Hb. rewrite forallb_app, Ha, Hb. reflexivity. Qed.

Lemma reads_ok_nil m f : reads_ok m f [].
Proof. reflexivity. Qed.

Lemma reads_ok_cons m f v l : read_ok m f v = true -> reads_ok m f l -> reads_ok m f (v :: l).
Proof. unfold reads_ok. intros Hv Hl. cbn [forallb]. rewrite Hv, Hl. reflexivity. Qed.

Lemma read_ok_fresh_mono m f v : read_ok m None v = true -> read_ok m f v = true.
Proof.
  unfold read_ok. destruct (vn_version v); [|auto]. destruct (vget m (key_of v)); [auto|discriminate].
Qed.

Lemma reads_ok_fresh_mono m f l : reads_ok m None l -> reads_ok m f l.
Proof.
  unfold reads_ok. rewrite !forallb_forall. intros H v Hv. apply read_ok_fresh_mono. apply H. exact Hv.
Qed.

Section Sem.
Variable decls : list (vname * vtype).

Lemma rename_read_ok env v v' :
  rename_read decls env v = SOk v' -> vn_version v = None -> read_ok (flat env) None v' = true.
Proof.
  intros H Hv. unfold rename_read in H. rewrite Hv in H. destruct (is_local_in decls v).
  - destruct (cur_version env v) as [n|] eqn:Ec; [|discriminate]. inversion H; subst v'.
    unfold read_ok. cbn [with_version vn_version].
    change (key_of (with_version v n)) with (key_of v). rewrite vget_flat, Ec. apply N.eqb_refl.
  - inversion H; subst v'. unfold read_ok. rewrite Hv. reflexivity.
Qed.

Definition pure_expr (e : expr) : Prop :=
  forall env e' env', ssa_expr decls env e = SOk (e', env') -> expr_noupd e = true -> expr_unvb e = true ->
    env' = env /\ reads_ok (flat env) None (expr_reads e').

Lemma ssa_list_pure : forall es, Forall pure_expr es ->
  forall env r env', ssa_list decls env es = SOk (r, env') -> list_noupd es = true -> list_unvb es = true ->
    env' = env /\ reads_ok (flat env) None (list_reads r).
Proof.
  induction 1 as [|x tl Hx _ IH]; intros env r env' H Hn Hu; simpl in H.
  - inversion H; subst. split; [reflexivity|apply reads_ok_nil].
  - cbn [list_noupd list_unvb] in Hn, Hu. apply andb_true_iff in Hn as [Hn1 Hn2]. apply andb_true_iff in Hu as [Hu1 Hu2].
    sb2 H. sb2 H. inversion H; subst.
    destruct (Hx _ _ _ E Hn1 Hu1) as [-> R1]. destruct (IH _ _ _ E0 Hn2 Hu2) as [-> R2].
    split; [reflexivity|]. cbn [list_reads]. apply reads_ok_app; assumption.
Qed.

Lemma ssa_acc_pure : forall acc, Forall pure_expr (acc_exprs acc) ->
  forall env r env', ssa_acc decls env acc = SOk (r, env') -> acc_noupd acc = true -> acc_unvb acc = true ->
    env' = env /\ reads_ok (flat env) None (acc_reads r).
Proof.
  induction acc as [|[x|n] tl IH]; intros HF env r env' H Hn Hu; simpl in H.
  - inversion H; subst. split; [reflexivity|apply reads_ok_nil].
  - cbn [acc_exprs flat_map app] in HF. inversion HF as [|? ? Hx Htl]; subst.
    cbn [acc_noupd acc_unvb] in Hn, Hu. apply andb_true_iff in Hn as [Hn1 Hn2]. apply andb_true_iff in Hu as [Hu1 Hu2].
    sb2 H. sb2 H. inversion H; subst.
    destruct (Hx _ _ _ E Hn1 Hu1) as [-> R1]. destruct (IH Htl _ _ _ E0 Hn2 Hu2) as [-> R2].
    split; [reflexivity|]. cbn [acc_reads]. apply reads_ok_app; assumption.
  - cbn [acc_exprs flat_map app] in HF. cbn [acc_noupd acc_unvb] in Hn, Hu.
    sb2 H. inversion H; subst. destruct (IH HF _ _ _ E Hn Hu) as [-> R2]. split; [reflexivity|exact R2].
Qed.

Lemma ssa_expr_pure : forall e, pure_expr e.
Proof.
  induction e as [z k|v k|op l r k IHl IHr|op x k IHx|c t f k IHc IHt IHf|n args k IH|vs k IH
                 |v acc k IH|v acc rhe k IH IHr|args k] using expr_ind'; intros env e' env' H Hn Hu.
  - cbn [ssa_expr] in H. inversion H; subst. split; [reflexivity|apply reads_ok_nil].
  - cbn [ssa_expr] in H. cbn [expr_unvb] in Hu. apply isnoneb_true in Hu. destruct (is_local_in decls v).
    + sb1 H. inversion H; subst. split; [reflexivity|]. cbn [expr_reads].
      apply reads_ok_cons; [eapply rename_read_ok; eassumption|apply reads_ok_nil].
    + inversion H; subst. split; [reflexivity|]. cbn [expr_reads]. apply reads_ok_cons; [|apply reads_ok_nil].
      unfold read_ok. rewrite Hu. reflexivity.
  - cbn [ssa_expr] in H. cbn [expr_noupd expr_unvb] in Hn, Hu.
    apply andb_true_iff in Hn as [Hn1 Hn2]. apply andb_true_iff in Hu as [Hu1 Hu2].
    sb2 H. sb2 H. inversion H; subst.
    destruct (IHl _ _ _ E Hn1 Hu1) as [-> R1]. destruct (IHr _ _ _ E0 Hn2 Hu2) as [-> R2].
    split; [reflexivity|]. cbn [expr_reads]. apply reads_ok_app; assumption.
  - cbn [ssa_expr] in H. cbn [expr_noupd expr_unvb] in Hn, Hu. sb2 H. inversion H; subst.
    destruct (IHx _ _ _ E Hn Hu) as [-> R1]. split; [reflexivity|exact R1].
  - cbn [ssa_expr] in H. cbn [expr_noupd expr_unvb] in Hn, Hu.
    apply andb_true_iff in Hn as [Hn Hn3]. apply andb_true_iff in Hn as [Hn1 Hn2].
    apply andb_true_iff in Hu as [Hu Hu3]. apply andb_true_iff in Hu as [Hu1 Hu2].
    sb2 H. sb2 H. sb2 H. inversion H; subst.
    destruct (IHc _ _ _ E Hn1 Hu1) as [-> R1]. destruct (IHt _ _ _ E0 Hn2 Hu2) as [-> R2].
    destruct (IHf _ _ _ E1 Hn3 Hu3) as [-> R3].
    split; [reflexivity|]. cbn [expr_reads]. apply reads_ok_app; [assumption|]. apply reads_ok_app; assumption.
  - rewrite ssa_expr_call in H. rewrite expr_noupd_call in Hn. rewrite expr_unvb_call in Hu. sb2 H. inversion H; subst.
    rewrite expr_reads_call. eapply ssa_list_pure; eassumption.
  - rewrite ssa_expr_array in H. rewrite expr_noupd_array in Hn. rewrite expr_unvb_array in Hu. sb2 H. inversion H; subst.
    rewrite expr_reads_array. eapply ssa_list_pure; eassumption.
  - rewrite ssa_expr_access in H. rewrite expr_noupd_access in Hn. rewrite expr_unvb_access in Hu.
    apply andb_true_iff in Hu as [Hv Hu]. apply isnoneb_true in Hv. sb2 H.
    destruct (ssa_acc_pure acc IH _ _ _ E Hn Hu) as [-> R1].
    destruct (is_local_in decls v).
    + sb1 H. inversion H; subst. split; [reflexivity|]. rewrite expr_reads_access.
      apply reads_ok_cons; [eapply rename_read_ok; eassumption|exact R1].
    + inversion H; subst. split; [reflexivity|]. rewrite expr_reads_access. apply reads_ok_cons; [|exact R1].
      unfold read_ok. rewrite Hv. reflexivity.
  - discriminate Hn.
  - cbn [ssa_expr] in H. inversion H; subst. split; [reflexivity|apply reads_ok_nil].
Qed.

Lemma all_pure l : Forall pure_expr l.
Proof. apply Forall_forall. intros a _. apply ssa_expr_pure. Qed.

Lemma ssa_exprs_pure es env r env' :
  ssa_exprs decls env es = SOk (r, env') -> list_noupd es = true -> list_unvb es = true ->
  env' = env /\ reads_ok (flat env) None (flat_map expr_reads r).
Proof.
  intros H Hn Hu. rewrite <- ssa_list_exprs in H. rewrite <- list_reads_flat_map.
  eapply ssa_list_pure; [|eassumption..]. apply Forall_forall. intros a _. apply ssa_expr_pure.
Qed.

Definition logargs_reads (args : list logarg) : list vname :=
  flat_map (fun a => match a with LExpr e => expr_reads e | LStr => [] end) args.

Lemma ssa_logargs_pure : forall es env r env',
  ssa_logargs decls env es = SOk (r, env') -> forallb logarg_noupd es = true -> forallb logarg_unvb es = true ->
  env' = env /\ reads_ok (flat env) None (logargs_reads r).
Proof.
  induction es as [|[|x] tl IH]; intros env r env' H Hn Hu; simpl in H.
  - inversion H; subst. split; [reflexivity|apply reads_ok_nil].
  - cbn [forallb logarg_noupd logarg_unvb andb] in Hn, Hu. sb2 H. inversion H; subst.
    destruct (IH _ _ _ E Hn Hu) as [-> R]. split; [reflexivity|exact R].
  - cbn [forallb logarg_noupd logarg_unvb] in Hn, Hu.
    apply andb_true_iff in Hn as [Hn1 Hn2]. apply andb_true_iff in Hu as [Hu1 Hu2].
    sb2 H. sb2 H. inversion H; subst.
    destruct (ssa_expr_pure _ _ _ _ E Hn1 Hu1) as [-> R1]. destruct (IH _ _ _ E0 Hn2 Hu2) as [-> R2].
    split; [reflexivity|]. unfold logargs_reads. cbn [flat_map]. apply reads_ok_app; assumption.
Qed.

Definition is_phi_expr (e : expr) : bool := match e with EPhi _ _ => true | _ => false end.

Lemma is_phi_stmt_subst m w op x sv st : is_phi_stmt (SSubst m w op x sv st) = is_phi_expr x.
Proof. destruct x; reflexivity. Qed.

Lemma ssa_expr_is_phi e env e' env' : ssa_expr decls env e = SOk (e', env') -> is_phi_expr e' = is_phi_expr e.
Proof.
  intros H. destruct e as [z k|v k|op l r k|op x k|c t f k|n args k|vs k|v acc k|v acc rhe k|args k].
  - cbn [ssa_expr] in H. inversion H. reflexivity.
  - cbn [ssa_expr] in H. destruct (is_local_in decls v); [sb1 H|]; inversion H; reflexivity.
  - cbn [ssa_expr] in H. sb2 H. sb2 H. inversion H. reflexivity.
  - cbn [ssa_expr] in H. sb2 H. inversion H. reflexivity.
  - cbn [ssa_expr] in H. sb2 H. sb2 H. sb2 H. inversion H. reflexivity.
  - rewrite ssa_expr_call in H. sb2 H. inversion H. reflexivity.
  - rewrite ssa_expr_array in H. sb2 H. inversion H. reflexivity.
  - rewrite ssa_expr_access in H. sb2 H. destruct (is_local_in decls v); [sb1 H|]; inversion H; reflexivity.
  - rewrite ssa_expr_update in H. sb2 H. sb2 H. destruct (is_local_in decls v).
    + destruct (vn_version v); [discriminate|]. destruct (cur_version env1 v); [|destruct (next_version env1 v)];
        inversion H; reflexivity.
    + inversion H. reflexivity.
  - cbn [ssa_expr] in H. inversion H. reflexivity.
Qed.

(* ------------------------------------------------------------------------ *)
(* one statement                                                             *)
(* ------------------------------------------------------------------------ *)
Lemma track_nodef L s : stmt_def s = None -> track L s = L.
Proof. unfold track. intros ->. reflexivity. Qed.

Lemma body_stmt_ok_intro m s :
  is_phi_stmt s = false -> reads_ok m (update_base s) (stmt_reads s) -> body_stmt_ok m s = true.
Proof. intros Hp Hr. unfold body_stmt_ok. rewrite Hp, Hr. reflexivity. Qed.

Lemma is_local_in_with decls0 v n : is_local_in decls0 (with_version v n) = is_local_in decls0 v.
Proof. apply is_local_in_key. reflexivity. Qed.

Lemma ssa_stmt_sem0 s env s' env' :
  ssa_stmt decls env s = SOk (s', env') -> stmt_upd_ok s = true -> stmt_unvb s = true -> se_scoped env <> [] ->
  meq (track (flat env) s') (flat env') /\ se_scoped env' <> [] /\
  (is_phi_stmt s = false -> body_stmt_ok (flat env) s' = true).
Proof.
  intros H Hup Hun Hne.
  destruct s as [m names t dims|m c t f|m e|m v op rhe sval stype|m l r|m args|m e]; cbn [ssa_stmt] in H;
    cbn [stmt_upd_ok stmt_unvb] in Hup, Hun.
  - sb2 H. inversion H; subst. destruct (ssa_exprs_pure _ _ _ _ E Hup Hun) as [-> R].
    split; [apply meq_refl|]. split; [exact Hne|]. intros _. apply body_stmt_ok_intro; [reflexivity|].
    cbn [stmt_reads]. apply reads_ok_fresh_mono. exact R.
  - sb2 H. inversion H; subst. destruct (ssa_expr_pure _ _ _ _ E Hup Hun) as [-> R].
    split; [apply meq_refl|]. split; [exact Hne|]. intros _. apply body_stmt_ok_intro; [reflexivity|].
    cbn [stmt_reads]. apply reads_ok_fresh_mono. exact R.
  - sb2 H. inversion H; subst. destruct (ssa_expr_pure _ _ _ _ E Hup Hun) as [-> R].
    split; [apply meq_refl|]. split; [exact Hne|]. intros _. apply body_stmt_ok_intro; [reflexivity|].
    cbn [stmt_reads]. apply reads_ok_fresh_mono. exact R.
  - (* assignment *)
    apply andb_true_iff in Hun as [Hv Hur]. apply isnoneb_true in Hv. rewrite Hv in H.
    destruct (expr_noupd rhe) eqn:Enu.
    + (* the right-hand side holds no element-wise update *)
      sb2 H. destruct (ssa_expr_pure _ _ _ _ E Enu Hur) as [-> R].
      assert (Hphi : is_phi_stmt (SSubst m v op rhe sval stype) = false ->
                     forall w, is_phi_stmt (SSubst m w op x sval stype) = false).
      { intros Hp w. rewrite is_phi_stmt_subst in *. rewrite (ssa_expr_is_phi _ _ _ _ E). exact Hp. }
      destruct (is_local_in decls v) eqn:El.
      * destruct (next_version env v) as [n env2] eqn:En. inversion H; subst.
        assert (E2 : env' = snd (next_version env v)) by (rewrite En; reflexivity).
        assert (E3 : n = fst (next_version env v)) by (rewrite En; reflexivity).
        split; [|split].
        -- unfold track. cbn [stmt_def with_version vn_version]. change (key_of (with_version v n)) with (key_of v).
           rewrite E2, flat_next by exact Hne. rewrite <- E3. apply meq_refl.
        -- rewrite E2. apply next_scoped_ne.
        -- intros Hp. apply body_stmt_ok_intro; [apply Hphi; exact Hp|]. cbn [stmt_reads]. apply reads_ok_fresh_mono. exact R.
      * inversion H; subst. split; [|split; [exact Hne|]].
        -- rewrite track_nodef; [apply meq_refl|]. cbn [stmt_def]. rewrite Hv. reflexivity.
        -- intros Hp. apply body_stmt_ok_intro; [apply Hphi; exact Hp|]. cbn [stmt_reads]. apply reads_ok_fresh_mono. exact R.
    + (* x = update(x, acc, e) *)
      destruct rhe as [| | | | | | | |w acc r k|]; try (cbn [stmt_upd_ok] in Hup; congruence).
      apply andb_true_iff in Hup as [Hup Hnr]. apply andb_true_iff in Hup as [Hk Hna]. apply key_eqb_eq in Hk.
      rewrite expr_unvb_update in Hur. apply andb_true_iff in Hur as [Hur Hurr]. apply andb_true_iff in Hur as [Hw Hua].
      apply isnoneb_true in Hw.
      rewrite ssa_expr_update in H. cbn [sbind] in H.
      destruct (ssa_expr decls env r) as [[r' e1]| | |] eqn:Er; cbn [sbind] in H; try discriminate H.
      destruct (ssa_expr_pure _ _ _ _ Er Hnr Hurr) as [-> Rr].
      destruct (ssa_acc decls env acc) as [[acc' e2]| | |] eqn:Ea; cbn [sbind] in H; try discriminate H.
      destruct (ssa_acc_pure acc (all_pure _) _ _ _ Ea Hna Hua) as [-> Ra].
      rewrite (is_local_in_key decls v w Hk) in H.
      destruct (is_local_in decls w) eqn:El.
      * rewrite Hw in H.
        destruct (cur_version env w) as [nw|] eqn:Ec.
        -- cbn [sbind] in H. destruct (next_version env v) as [n env2] eqn:En. inversion H; subst.
           assert (E2 : env' = snd (next_version env v)) by (rewrite En; reflexivity).
           assert (E3 : n = fst (next_version env v)) by (rewrite En; reflexivity).
           split; [|split].
           ++ unfold track. cbn [stmt_def with_version vn_version]. change (key_of (with_version v n)) with (key_of v).
              rewrite E2, flat_next by exact Hne. rewrite <- E3. apply meq_refl.
           ++ rewrite E2. apply next_scoped_ne.
           ++ intros _. apply body_stmt_ok_intro; [reflexivity|]. cbn [stmt_reads update_base]. rewrite expr_reads_update.
              apply reads_ok_cons.
              ** unfold read_ok. cbn [with_version vn_version]. change (key_of (with_version w nw)) with (key_of w).
                 rewrite vget_flat, Ec. apply N.eqb_refl.
              ** apply reads_ok_fresh_mono. apply reads_ok_app; assumption.
        -- destruct (next_version env w) as [nw env3] eqn:Enw. cbn [sbind] in H.
           destruct (next_version env3 v) as [n env2] eqn:En. inversion H; subst.
           assert (E3w : env3 = snd (next_version env w)) by (rewrite Enw; reflexivity).
           assert (Enw' : nw = fst (next_version env w)) by (rewrite Enw; reflexivity).
           assert (Hne3 : se_scoped env3 <> []) by (rewrite E3w; apply next_scoped_ne).
           assert (E2 : env' = snd (next_version env3 v)) by (rewrite En; reflexivity).
           assert (E3 : n = fst (next_version env3 v)) by (rewrite En; reflexivity).
           split; [|split].
           ++ unfold track. cbn [stmt_def with_version vn_version]. change (key_of (with_version v n)) with (key_of v).
              rewrite E2, flat_next by exact Hne3. rewrite <- E3. rewrite E3w, flat_next by exact Hne. rewrite <- Enw', <- Hk.
              apply meq_vset_shadow.
           ++ rewrite E2. apply next_scoped_ne.
           ++ intros _. apply body_stmt_ok_intro; [reflexivity|]. cbn [stmt_reads update_base]. rewrite expr_reads_update.
              apply reads_ok_cons.
              ** unfold read_ok. cbn [with_version vn_version]. change (key_of (with_version w nw)) with (key_of w).
                 rewrite vget_flat, Ec. apply vname_eqb_refl'.
              ** apply reads_ok_fresh_mono. apply reads_ok_app; assumption.
      * cbn [sbind] in H. inversion H; subst. split; [|split; [exact Hne|]].
        -- rewrite track_nodef; [apply meq_refl|]. cbn [stmt_def]. rewrite Hv. reflexivity.
        -- intros _. apply body_stmt_ok_intro; [reflexivity|]. cbn [stmt_reads update_base]. rewrite expr_reads_update.
           apply reads_ok_cons; [unfold read_ok; rewrite Hw; reflexivity|].
           apply reads_ok_fresh_mono. apply reads_ok_app; assumption.
  - apply andb_true_iff in Hup as [Hn1 Hn2]. apply andb_true_iff in Hun as [Hu1 Hu2].
    sb2 H. sb2 H. inversion H; subst.
    destruct (ssa_expr_pure _ _ _ _ E Hn1 Hu1) as [-> R1]. destruct (ssa_expr_pure _ _ _ _ E0 Hn2 Hu2) as [-> R2].
    split; [apply meq_refl|]. split; [exact Hne|]. intros _. apply body_stmt_ok_intro; [reflexivity|].
    cbn [stmt_reads]. apply reads_ok_fresh_mono. apply reads_ok_app; assumption.
  - sb2 H. inversion H; subst. destruct (ssa_logargs_pure _ _ _ _ E Hup Hun) as [-> R].
    split; [apply meq_refl|]. split; [exact Hne|]. intros _. apply body_stmt_ok_intro; [reflexivity|].
    cbn [stmt_reads]. apply reads_ok_fresh_mono. exact R.
  - sb2 H. inversion H; subst. destruct (ssa_expr_pure _ _ _ _ E Hup Hun) as [-> R].
    split; [apply meq_refl|]. split; [exact Hne|]. intros _. apply body_stmt_ok_intro; [reflexivity|].
    cbn [stmt_reads]. apply reads_ok_fresh_mono. exact R.
Qed.

(* ------------------------------------------------------------------------ *)
(* a block                                                                   *)
(* ------------------------------------------------------------------------ *)
Lemma fold_track_meq ss : forall a b, meq a b -> meq (fold_left track ss a) (fold_left track ss b).
Proof. exact (apply_phis_meq ss). Qed.

Lemma ssa_stmts_sem : forall ss env ss' env',
  ssa_stmts decls env ss = SOk (ss', env') ->
  forallb stmt_upd_ok ss = true -> forallb stmt_unvb ss = true -> se_scoped env <> [] ->
  meq (fold_left track ss' (flat env)) (flat env') /\ se_scoped env' <> [] /\
  (forallb (fun s => negb (is_phi_stmt s)) ss = true ->
   forall L, meq L (flat env) -> exists L', body_run L ss' = Some L' /\ meq L' (flat env')).
Proof.
  induction ss as [|s tl IH]; intros env ss' env' H Hup Hun Hne; simpl in H.
  - inversion H; subst. split; [apply meq_refl|]. split; [exact Hne|]. intros _ L HL. exists L. split; [reflexivity|exact HL].
  - cbn [forallb] in Hup, Hun. apply andb_true_iff in Hup as [Hup1 Hup2]. apply andb_true_iff in Hun as [Hun1 Hun2].
    sb2 H. sb2 H. inversion H; subst. rename x into s1. rename env0 into env1. rename x0 into tl1.
    destruct (ssa_stmt_sem0 _ _ _ _ E Hup1 Hun1 Hne) as (T1 & Hne1 & B1).
    destruct (IH _ _ _ E0 Hup2 Hun2 Hne1) as (T2 & Hne2 & B2).
    split; [|split; [exact Hne2|]].
    + cbn [fold_left]. eapply meq_trans; [apply fold_track_meq; exact T1|exact T2].
    + intros Hnp L HL. cbn [forallb] in Hnp. apply andb_true_iff in Hnp as [Hnp1 Hnp2].
      apply negb_true_iff in Hnp1. cbn [body_run].
      rewrite (body_stmt_ok_meq L (flat env) s1 HL), (B1 Hnp1).
      apply (B2 Hnp2). eapply meq_trans; [apply meq_track; exact HL|exact T1].
Qed.

(* every version a renamed statement defines comes from an assignment to a declared local *)
Lemma ssa_stmt_def_src s env s' env' x' :
  ssa_stmt decls env s = SOk (s', env') -> stmt_unvb s = true -> stmt_def s' = Some x' ->
  exists m x op rhe sv st, s = SSubst m x op rhe sv st /\ key_of x' = key_of x /\ is_local_in decls x = true.
Proof.
  intros H Hun Hd.
  destruct s as [m names t dims|m c t f|m e|m v op rhe sval stype|m l r|m args|m e]; cbn [ssa_stmt] in H.
  - sb2 H. inversion H; subst. discriminate Hd.
  - sb2 H. inversion H; subst. discriminate Hd.
  - sb2 H. inversion H; subst. discriminate Hd.
  - cbn [stmt_unvb] in Hun. apply andb_true_iff in Hun as [Hv _]. apply isnoneb_true in Hv. rewrite Hv in H.
    sb2 H. destruct (is_local_in decls v) eqn:El.
    + destruct (next_version env0 v) as [n env2]. inversion H; subst. cbn in Hd. inversion Hd; subst x'.
      exists m, v, op, rhe, sval, stype. auto.
    + inversion H; subst. cbn [stmt_def] in Hd. rewrite Hv in Hd. discriminate Hd.
  - sb2 H. sb2 H. inversion H; subst. discriminate Hd.
  - sb2 H. inversion H; subst. discriminate Hd.
  - sb2 H. inversion H; subst. discriminate Hd.
Qed.

Lemma ssa_stmts_def_src : forall ss env ss' env' s' x',
  ssa_stmts decls env ss = SOk (ss', env') -> forallb stmt_unvb ss = true -> In s' ss' -> stmt_def s' = Some x' ->
  exists s m x op rhe sv st, In s ss /\ s = SSubst m x op rhe sv st /\ key_of x' = key_of x /\ is_local_in decls x = true.
Proof.
  induction ss as [|s tl IH]; intros env ss' env' s' x' H Hun Hin Hd; simpl in H.
  - inversion H; subst. destruct Hin.
  - cbn [forallb] in Hun. apply andb_true_iff in Hun as [Hun1 Hun2]. sb2 H. sb2 H. inversion H; subst.
    destruct Hin as [<-|Hin].
    + destruct (ssa_stmt_def_src _ _ _ _ _ E Hun1 Hd) as (m & x1 & op & rhe & sv & st & -> & Hk & Hl).
      exists (SSubst m x1 op rhe sv st), m, x1, op, rhe, sv, st. split; [left; reflexivity|auto].
    + destruct (IH _ _ _ _ _ E0 Hun2 Hin Hd) as (s0 & m & x1 & op & rhe & sv & st & Hs0 & Hs & Hk & Hl).
      exists s0, m, x1, op, rhe, sv, st. split; [right; exact Hs0|auto].
Qed.
End Sem.

(* tracking leaves alone the keys that no statement defines *)
Lemma fold_track_other k : forall ss m,
  (forall s x, In s ss -> stmt_def s = Some x -> key_of x <> k) -> vget (fold_left track ss m) k = vget m k.
Proof.
  induction ss as [|s tl IH]; intros m H; [reflexivity|]. cbn [fold_left]. rewrite IH.
  - unfold track. destruct (stmt_def s) as [x|] eqn:Ed; [|reflexivity].
    destruct (vn_version x); [|reflexivity]. rewrite vget_vset.
    destruct (key_eqb (key_of x) k) eqn:Ek; [|reflexivity]. apply key_eqb_eq in Ek.
    exfalso. exact (H s x (or_introl eq_refl) Ed Ek).
  - intros s0 x Hs0. apply H. right. exact Hs0.
Qed.

(* two maps that agree outside the keys some statements define are equivalent after tracking them *)
Definition defines (ss : list stmt) (k : key) : Prop :=
  exists s x n, In s ss /\ stmt_def s = Some x /\ vn_version x = Some n /\ key_of x = k.

Lemma fold_track_agree : forall ss a b,
  (forall k, ~ defines ss k -> vget a k = vget b k) -> meq (fold_left track ss a) (fold_left track ss b).
Proof.
  induction ss as [|s tl IH]; intros a b H; cbn [fold_left].
  - intros k. apply H. intros (s & x & n & [] & _).
  - apply IH. intros k Hk. unfold track. destruct (stmt_def s) as [x|] eqn:Ed.
    + destruct (vn_version x) as [n|] eqn:Ev.
      * rewrite !vget_vset. destruct (key_eqb (key_of x) k) eqn:Ek; [reflexivity|].
        apply H. intros (s0 & x0 & n0 & [<-|Hin] & Hd0 & Hv0 & Hk0).
        -- rewrite Ed in Hd0. inversion Hd0; subst x0. rewrite Hk0, key_eqb_refl in Ek. discriminate.
        -- apply Hk. exists s0, x0, n0. auto.
      * apply H. intros (s0 & x0 & n0 & [<-|Hin] & Hd0 & Hv0 & Hk0).
        -- rewrite Ed in Hd0. inversion Hd0; subst x0. congruence.
        -- apply Hk. exists s0, x0, n0. auto.
    + apply H. intros (s0 & x0 & n0 & [<-|Hin] & Hd0 & Hv0 & Hk0); [congruence|].
      apply Hk. exists s0, x0, n0. auto.
Qed.
