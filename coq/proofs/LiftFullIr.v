(* C01: what the content-carrying lifting mirror hands to the rest of the chain.
   For every graph c that Model.LiftFull.lift_to_ir returns:

     lifted_unversioned        no variable occurrence carries a version (names are built by
                               from_string / split('.') only): hypothesis of C01_into_ssa_never_panics
     lifted_written_declared   an assignment tagged Local assigns a declared name (the tag is
                               what propagate_types found in the declarations): hypothesis of
                               C01_into_ssa_fuel_suffices
     lifted_clean              no node carries a value claim; literals are non-negative when
                               those of the body are (PipelineMirrors.stmt_lits_ok; the renaming
                               pass keeps literals): first hypothesis of C20_propagate_completes
     lifted_dom                the predecessor / successor lists DominatorTree::new reads are
                               those of the graph Model.Lift builds from the skeleton of the body
                               (C13_liftfull_skeleton), so the bridges of Proofs.MirrorsDom apply

   Until the second audit these were hypotheses about three parameters
   (ir_stmt / ir_cond / ir_head) of the chain.  Proofs: statement provenance
   (Proofs.LiftFullProofs.liftfull_provenance: every IR statement of the graph is the
   image of a statement of the renamed body) plus one induction over lift_expr. *)
From Coq Require Import ZArith NArith Ascii String.
From stdpp Require Import list.
Require Import Model.Lift Model.LiftFull Proofs.LiftBasics Proofs.LiftProofs Proofs.LiftFullProofs Proofs.LiftFullTotal.
Require Model.Ast Model.Ir Model.Clean Model.Justify Model.Ssa Model.Dom Model.PipelineMirrors.
Require Proofs.DesugarProofs Proofs.SsaNoPanic Proofs.SsaFuel Proofs.SsaClean Proofs.MirrorsDom Proofs.IrFacts Proofs.SsaLocalDefs.
Import Base(outcome, Ok, Err, Panic, OutOfFuel, bind, EOther).
Local Open Scope nat_scope.

Module PM := Model.PipelineMirrors.
Module NP := Proofs.SsaNoPanic.
Module SC := Proofs.SsaClean.

(* ======================================================================= *)
(* 1. expressions                                                           *)
(* ======================================================================= *)
Definition erase_acc (a : Ir.access xexpr) : Ir.access Ir.expr :=
  match a with Ir.AIdx i => Ir.AIdx (erase_expr i) | Ir.AComp n => Ir.AComp n end.

Lemma erase_access_eq m v acc : erase_expr (XAccess m v acc) = Ir.EAccess v (map erase_acc acc) Ir.know0.
Proof. reflexivity. Qed.
Lemma erase_update_eq m v acc r :
  erase_expr (XUpdate m v acc r) = Ir.EUpdate v (map erase_acc acc) (erase_expr r) Ir.know0.
Proof. reflexivity. Qed.

Lemma lift_name_unv n v : lift_name n = Ok v -> Ir.vn_version v = None.
Proof.
  unfold lift_name. destruct (split_dot n) as [|a [|b [|c r]]]; try done; by intros [= <-].
Qed.

(* the property of one lifted expression: unversioned, and clean when the literals
   of the source are non-negative *)
Definition good (e : Ast.expression) (x : xexpr) : Prop :=
  NP.expr_unv (erase_expr x) = true /\
  (PM.expr_lits_ok e = true -> Clean.clean_expr (erase_expr x) = true).

Definition egood (e : Ast.expression) : Prop := forall x, lift_expr e = Ok x -> good e x.

Lemma lift_exprs_good l : Forall egood l -> forall xs, LiftFull.lift_exprs l = Ok xs ->
  NP.list_unv (map erase_expr xs) = true /\
  (forallb PM.expr_lits_ok l = true -> SC.clist (map erase_expr xs) = true).
Proof.
  induction 1 as [|e l He _ IH]; intros xs H; simpl in H.
  - by injection H as <-.
  - inv_bind H. inv_bind H. injection H as <-. destruct (He _ E) as [U C]. destruct (IH _ E0) as [U' C'].
    simpl. rewrite U, U'. split; [done|]. intros Hl. apply andb_prop in Hl as [H1 H2]. by rewrite (C H1), (C' H2).
Qed.

Lemma lift_accs_good l : Forall (DesugarProofs.access_all egood) l -> forall xs, LiftFull.lift_accs l = Ok xs ->
  NP.acc_unv (map erase_acc xs) = true /\
  (forallb PM.access_lits_ok l = true -> SC.cacc (map erase_acc xs) = true).
Proof.
  induction 1 as [|a l Ha _ IH]; intros xs H; simpl in H.
  - by injection H as <-.
  - destruct a as [s|i]; simpl in *.
    + inv_bind H. injection H as <-. destruct (IH _ E) as [U C]. simpl. done.
    + inv_bind H. inv_bind H. injection H as <-. destruct (Ha _ E) as [U C]. destruct (IH _ E0) as [U' C'].
      simpl. rewrite U, U'. split; [done|]. intros Hl. apply andb_prop in Hl as [H1 H2]. by rewrite (C H1), (C' H2).
Qed.

Lemma lits_var m n acc : PM.expr_lits_ok (Ast.Variable_ m n acc) = forallb PM.access_lits_ok acc.
Proof. reflexivity. Qed.

Lemma lift_expr_good e : egood e.
Proof.
  induction e using DesugarProofs.expression_ind'; intros x Hx.
  - simpl in Hx. inv_bind Hx. inv_bind Hx. injection Hx as <-.
    destruct (IHe1 _ E) as [U1 C1]. destruct (IHe2 _ E0) as [U2 C2]. split; simpl.
    + by rewrite U1, U2.
    + intros Hl. apply andb_prop in Hl as [H1 H2]. by rewrite (C1 H1), (C2 H2).
  - simpl in Hx. inv_bind Hx. injection Hx as <-. destruct (IHe _ E) as [U C]. split; simpl; [done|].
    intros Hl. by rewrite (C Hl).
  - simpl in Hx. inv_bind Hx. inv_bind Hx. inv_bind Hx. injection Hx as <-.
    destruct (IHe1 _ E) as [U1 C1]. destruct (IHe2 _ E0) as [U2 C2]. destruct (IHe3 _ E1) as [U3 C3]. split; simpl.
    + by rewrite U1, U2, U3.
    + intros Hl. apply andb_prop in Hl as [H12 H3]. apply andb_prop in H12 as [H1 H2].
      by rewrite (C1 H1), (C2 H2), (C3 H3).
  - simpl in Hx. destruct (IHe _ Hx) as [U C]. split; [done|]. simpl. exact C.
  - rewrite lift_expr_var_eq in Hx. destruct acc as [|a0 acc0].
    + inv_bind Hx. injection Hx as <-. split; simpl; [|done]. by rewrite (lift_name_unv _ _ E).
    + inv_bind Hx. inv_bind Hx. injection Hx as <-.
      destruct (lift_accs_good _ H _ E0) as [U C]. unfold good. rewrite erase_access_eq. split.
      * rewrite NP.expr_unv_access, (lift_name_unv _ _ E), U. done.
      * rewrite lits_var. intros Hl. rewrite SC.clean_access, (C Hl). done.
  - simpl in Hx. injection Hx as <-. split; simpl; [done|]. intros Hl. by rewrite Hl.
  - rewrite lift_expr_call_eq in Hx. inv_bind Hx. injection Hx as <-.
    destruct (lift_exprs_good _ H _ E) as [U C]. split.
    + simpl erase_expr. rewrite NP.expr_unv_call. exact U.
    + intros Hl. simpl erase_expr. rewrite SC.clean_call. simpl in Hl. by rewrite (C Hl).
  - done.
  - rewrite lift_expr_array_eq in Hx. inv_bind Hx. injection Hx as <-.
    destruct (lift_exprs_good _ H _ E) as [U C]. split.
    + simpl erase_expr. rewrite NP.expr_unv_array. exact U.
    + intros Hl. simpl erase_expr. rewrite SC.clean_array. simpl in Hl. by rewrite (C Hl).
  - done.
Qed.

Lemma lift_exprs_good' l xs : LiftFull.lift_exprs l = Ok xs ->
  NP.list_unv (map erase_expr xs) = true /\
  (forallb PM.expr_lits_ok l = true -> SC.clist (map erase_expr xs) = true).
Proof. apply lift_exprs_good. apply Forall_forall. intros e _. apply lift_expr_good. Qed.

Lemma lift_accs_good' l xs : LiftFull.lift_accs l = Ok xs ->
  NP.acc_unv (map erase_acc xs) = true /\
  (forallb PM.access_lits_ok l = true -> SC.cacc (map erase_acc xs) = true).
Proof.
  apply lift_accs_good. apply Forall_forall. intros [s|i] _; simpl; [done|apply lift_expr_good].
Qed.

Lemma clist_forallb l : SC.clist l = forallb Clean.clean_expr l.
Proof. induction l as [|x l IH]; simpl; [done|]. by rewrite IH. Qed.

Lemma lift_logargs_good l xs : lift_logargs l = Ok xs ->
  forallb NP.logarg_unv (map erase_logarg xs) = true /\
  (forallb PM.logarg_lits_ok l = true ->
   forallb (fun a => match a with Ir.LStr => true | Ir.LExpr e => Clean.clean_expr e end) (map erase_logarg xs) = true).
Proof.
  revert xs. induction l as [|a l IH]; intros xs H; simpl in H.
  - by injection H as <-.
  - destruct a as [s|e]; simpl in *.
    + inv_bind H. injection H as <-. destruct (IH _ E) as [U C]. simpl. done.
    + inv_bind H. inv_bind H. injection H as <-. destruct (lift_expr_good e _ E) as [U C]. destruct (IH _ E0) as [U' C'].
      simpl. rewrite U, U'. split; [done|]. intros Hl. apply andb_prop in Hl as [H1 H2]. by rewrite (C H1), (C' H2).
Qed.

(* ======================================================================= *)
(* 2. statements                                                            *)
(* ======================================================================= *)
(* unversioned, clean (given the literals), no statement-level constant, and the
   freshly lifted substitution has no type tag yet *)
Definition sgood (lits : bool) (x : xstmt) : Prop :=
  NP.stmt_unv (erase_stmt x) = true /\
  (lits = true -> Clean.clean_stmt (erase_stmt x) = true).

Lemma lift_stmt_good s x : lift_stmt s = Ok x -> sgood (PM.stmt_lits_ok s) x.
Proof.
  destruct s; try done; simpl; intros H.
  - (* Return *)
    inv_bind H. injection H as <-. destruct (lift_expr_good _ _ E) as [U C]. split; simpl; [done|]. exact C.
  - (* Declaration *)
    inv_bind H. inv_bind H. injection H as <-. destruct (lift_exprs_good' _ _ E0) as [U C]. split; simpl; [done|].
    intros Hl. rewrite <- clist_forallb. by apply C.
  - (* Substitution *)
    inv_bind H. inv_bind H. injection H as <-. rename E0 into En.
    assert (G : NP.expr_unv (erase_expr a) = true /\
                (forallb PM.access_lits_ok acc && PM.expr_lits_ok rhe = true -> Clean.clean_expr (erase_expr a) = true)).
    { destruct acc as [|ac0 accs0].
      - destruct (lift_expr_good _ _ E) as [U C]. split; [done|]. simpl. exact C.
      - inv_bind E. inv_bind E. inv_bind E. injection E as <-.
        destruct (lift_accs_good' _ _ E1) as [U1 C1]. destruct (lift_expr_good _ _ E2) as [U2 C2].
        rewrite erase_update_eq. split.
        + rewrite NP.expr_unv_update, (lift_name_unv _ _ E0), U1, U2. done.
        + intros Hl. apply andb_prop in Hl as [H1 H2]. rewrite SC.clean_update, (C1 H1), (C2 H2). done. }
    destruct G as [U C]. split; simpl.
    + by rewrite (lift_name_unv _ _ En), U.
    + intros Hl. by rewrite (C Hl).
  - (* ConstraintEquality *)
    inv_bind H. inv_bind H. injection H as <-.
    destruct (lift_expr_good _ _ E) as [U1 C1]. destruct (lift_expr_good _ _ E0) as [U2 C2]. split; simpl.
    + by rewrite U1, U2.
    + intros Hl. apply andb_prop in Hl as [H1 H2]. by rewrite (C1 H1), (C2 H2).
  - (* LogCall *)
    inv_bind H. injection H as <-. destruct (lift_logargs_good _ _ E) as [U C]. split; simpl; [done|]. exact C.
  - (* Assert *)
    inv_bind H. injection H as <-. destruct (lift_expr_good _ _ E) as [U C]. split; simpl; [done|]. exact C.
Qed.

(* what lifting makes of a statement itself *)
Lemma image0_good s x : image0 s x -> sgood (PM.stmt_lits_ok s) x.
Proof.
  destruct s; try apply lift_stmt_good; simpl.
  - intros (c' & t & E & ->). destruct (lift_expr_good _ _ E) as [U C]. split; simpl; [done|].
    intros Hl. apply andb_prop in Hl as [Hl _]. apply andb_prop in Hl as [Hl _]. by apply C.
  - intros (c' & t & E & ->). destruct (lift_expr_good _ _ E) as [U C]. split; simpl; [done|].
    intros Hl. apply andb_prop in Hl as [Hl _]. by apply C.
Qed.

Lemma sgood_unpatch lits x : sgood lits (unpatch x) -> sgood lits x.
Proof. destruct x; done. Qed.

Lemma sgood_propagate lits ds x : sgood lits x -> sgood lits (propagate_types_stmt ds x).
Proof. destruct x; done. Qed.

Lemma image_good ds s x : image ds s x -> sgood (PM.stmt_lits_ok s) x.
Proof. intros (x0 & H0 & ->). apply sgood_propagate, sgood_unpatch, image0_good, H0. Qed.

(* ======================================================================= *)
(* 3. the literals of the statements that are lifted; the renaming pass      *)
(* ======================================================================= *)
Lemma forallb_flat_map' {A B} (f : B -> bool) (g : A -> list B) l :
  Forall (fun x => Forall (fun y => f y = true) (g x)) l -> Forall (fun y => f y = true) (flat_map g l).
Proof. induction 1 as [|x l Hx _ IH]; simpl; [constructor|]. apply Forall_app. done. Qed.

Lemma lits_lifted_stmts s : PM.stmt_lits_ok s = true -> Forall (fun t => PM.stmt_lits_ok t = true) (lifted_stmts s).
Proof.
  induction s as [m c t e IHt IHe|m c body IH|m t ss IH|m ss IH|m t n dd cst|s Hplain] using stmt_ind'; intros H.
  - simpl. constructor; [exact H|]. simpl in H. apply andb_prop in H as [H He]. apply andb_prop in H as [_ Ht].
    apply Forall_app. split; [by apply IHt|]. destruct e as [e|]; [by apply (IHe e eq_refl)|constructor].
  - simpl. constructor; [exact H|]. simpl in H. apply andb_prop in H as [_ Hb]. by apply IH.
  - simpl in *. apply forallb_flat_map'. rewrite forallb_forall in H. rewrite Forall_forall in IH |- *.
    intros x Hx. apply IH; [done|]. apply H. by apply elem_of_list_In.
  - simpl in *. apply forallb_flat_map'. rewrite forallb_forall in H. rewrite Forall_forall in IH |- *.
    intros x Hx. apply IH; [done|]. apply H. by apply elem_of_list_In.
  - simpl. by constructor.
  - destruct s; try done; simpl; by constructor.
Qed.

Lemma ren_expr_lits env e : PM.expr_lits_ok (ren_expr env e) = PM.expr_lits_ok e.
Proof.
  induction e using DesugarProofs.expression_ind'; simpl; try done.
  - by rewrite IHe1, IHe2.
  - by rewrite IHe1, IHe2, IHe3.
  - apply forallb_map_ext. eapply Forall_impl; [exact H|]. intros [s|i]; simpl; done.
  - apply forallb_map_ext. exact H.
  - apply forallb_map_ext. exact H.
Qed.

Lemma ren_exprs_lits env l : forallb PM.expr_lits_ok (map (ren_expr env) l) = forallb PM.expr_lits_ok l.
Proof. apply forallb_map_ext. apply Forall_forall. intros e _. apply ren_expr_lits. Qed.

Lemma ren_accs_lits env l : forallb PM.access_lits_ok (map (ren_access env) l) = forallb PM.access_lits_ok l.
Proof. apply forallb_map_ext. apply Forall_forall. intros [s|i] _; simpl; [done|apply ren_expr_lits]. Qed.

Lemma ren_logargs_lits env l : forallb PM.logarg_lits_ok (map (ren_logarg env) l) = forallb PM.logarg_lits_ok l.
Proof. apply forallb_map_ext. apply Forall_forall. intros [s|e] _; simpl; [done|apply ren_expr_lits]. Qed.

Definition ren_lits (s : Ast.statement) : Prop :=
  forall st r, ren_stmt s st = Ok r -> PM.stmt_lits_ok (fst r) = PM.stmt_lits_ok s.

Lemma ren_stmts_lits ss : Forall ren_lits ss -> forall st r, ren_stmts ss st = Ok r ->
  forallb PM.stmt_lits_ok (fst r) = forallb PM.stmt_lits_ok ss.
Proof.
  induction 1 as [|s l Hs Hl IH]; intros st r Hr; simpl in Hr.
  - by injection Hr as <-.
  - inv_bind Hr. inv_bind Hr. injection Hr as <-. simpl. by rewrite (Hs _ _ E), (IH _ _ E0).
Qed.

Lemma ren_lits_all s : ren_lits s.
Proof.
  induction s as [m c t e IHt IHe|m c body IH|m t ss IH|m ss IH|m t n dd cst|s Hplain] using stmt_ind';
    intros st r Hr.
  - simpl in Hr. inv_bind Hr. destruct e as [e|].
    + inv_bind Hr. injection Hr as <-. simpl. by rewrite ren_expr_lits, (IHt _ _ E), (IHe e eq_refl _ _ E0).
    + injection Hr as <-. simpl. by rewrite ren_expr_lits, (IHt _ _ E).
  - simpl in Hr. inv_bind Hr. injection Hr as <-. simpl. by rewrite ren_expr_lits, (IH _ _ E).
  - rewrite ren_init_eq in Hr. inv_bind Hr. injection Hr as <-. simpl. exact (ren_stmts_lits ss IH _ _ E).
  - rewrite ren_block_eq in Hr. inv_bind Hr. inv_bind Hr. injection Hr as <-. simpl. exact (ren_stmts_lits ss IH _ _ E).
  - simpl in Hr. inv_bind Hr. destruct (fst a); injection Hr as <-; simpl; apply ren_exprs_lits.
  - destruct s; try done; simpl in Hr; injection Hr as <-; simpl;
      rewrite ?ren_expr_lits, ?ren_accs_lits, ?ren_logargs_lits; done.
Qed.

Lemma ensure_unique_lits params pfile ploc body u :
  ensure_unique_variables params pfile ploc body = Ok u -> PM.stmt_lits_ok (fst u) = PM.stmt_lits_ok body.
Proof.
  unfold ensure_unique_variables. destruct (negb (is_block body)); [done|]. intros H.
  inv_bind H. inv_bind H. injection H as <-. by eapply ren_lits_all.
Qed.

(* ======================================================================= *)
(* 4. the graph                                                             *)
(* ======================================================================= *)
Lemma all_stmts_erase c :
  Justify.all_stmts (Ir.c_blocks (erase_cfg c)) = map erase_stmt (graph_stmts (xc_blocks c)).
Proof.
  unfold Justify.all_stmts, erase_cfg, graph_stmts. simpl.
  induction (xc_blocks c) as [|b g IH]; [done|]. simpl. by rewrite map_app, IH.
Qed.

Lemma flat_stmts_erase c :
  List.flat_map Ir.b_stmts (Ir.c_blocks (erase_cfg c)) = map erase_stmt (graph_stmts (xc_blocks c)).
Proof.
  unfold erase_cfg, graph_stmts. simpl.
  induction (xc_blocks c) as [|b g IH]; [done|]. simpl. by rewrite map_app, IH.
Qed.

(* every statement of the graph is good *)
Lemma graph_good kind params pfile ploc body r :
  try_lift_impl kind params pfile ploc body = Ok r ->
  Forall (sgood (PM.stmt_lits_ok body)) (graph_stmts (xc_blocks (l_cfg r))).
Proof.
  intros H. destruct (liftfull_provenance _ _ _ _ _ _ H) as (body' & Hu & _ & F).
  pose proof (ensure_unique_lits _ _ _ _ _ Hu) as Hl. simpl in Hl.
  destruct (PM.stmt_lits_ok body) eqn:Eb.
  - pose proof (lits_lifted_stmts body' Hl) as HL.
    revert HL. induction F as [|s x ss xs Hi _ IH]; intros HL; [constructor|].
    inversion HL as [|? ? Hs Hss]; subst. constructor; [|by apply IH].
    pose proof (image_good _ _ _ Hi) as G. by rewrite Hs in G.
  - induction F as [|s x ss xs Hi _ IH]; [constructor|]. constructor; [|exact IH].
    destruct (image_good _ _ _ Hi) as [U _]. split; [exact U|done].
Qed.

Theorem lifted_unversioned kind params pfile ploc body c :
  lift_to_ir kind params pfile ploc body = Ok c -> NP.unversioned c.
Proof.
  unfold lift_to_ir. intros H. inv_bind H. injection H as <-.
  pose proof (graph_good _ _ _ _ _ _ E) as G.
  intros i b Hb. unfold NP.block_unv. apply forallb_forall. intros s Hs.
  assert (Hin : List.In s (Justify.all_stmts (Ir.c_blocks (erase_cfg (l_cfg a))))).
  { unfold Justify.all_stmts. apply in_flat_map. exists b. split; [by eapply nth_error_In|done]. }
  rewrite all_stmts_erase in Hin. apply in_map_iff in Hin as (x & <- & Hx).
  rewrite Forall_forall in G. apply elem_of_list_In in Hx. by destruct (G x Hx).
Qed.

Theorem lifted_clean kind params pfile ploc body c :
  PM.stmt_lits_ok body = true ->
  lift_to_ir kind params pfile ploc body = Ok c -> Clean.clean_cfg c = true.
Proof.
  unfold lift_to_ir. intros Hl H. inv_bind H. injection H as <-.
  pose proof (graph_good _ _ _ _ _ _ E) as G. rewrite Hl in G.
  unfold Clean.clean_cfg. rewrite all_stmts_erase. apply forallb_forall. intros s Hs.
  apply in_map_iff in Hs as (x & <- & Hx).
  rewrite Forall_forall in G. apply elem_of_list_In in Hx. destruct (G x Hx) as [_ C]. by apply C.
Qed.

(* ---- written locals are declared ---- *)
Lemma find_some_in {A} (f : A -> bool) l x : List.find f l = Some x -> List.In x l /\ f x = true.
Proof. apply List.find_some. Qed.

Lemma image0_subst_untyped s m v op rhe st : image0 s (XSubst m v op rhe st) -> st = None /\ Ir.vn_version v = None.
Proof.
  destruct s; simpl; try done.
  - intros (c' & t & _ & ?). done.
  - intros (c' & t & _ & ?). done.
  - intros H. inv_bind H. done.
  - intros H. inv_bind H. inv_bind H. done.
  - intros H. inv_bind H. inv_bind H. injection H as <- <- <- <- <-. split; [done|]. by eapply lift_name_unv.
  - intros H. inv_bind H. inv_bind H. done.
  - intros H. inv_bind H. done.
  - intros H. inv_bind H. done.
Qed.

Lemma without_version_unv v : Ir.vn_version v = None -> Ir.without_version v = v.
Proof. destruct v as [n s ver]. simpl. by intros ->. Qed.

Theorem lifted_written_declared kind params pfile ploc body c :
  lift_to_ir kind params pfile ploc body = Ok c -> SsaFuel.written_declared c = true.
Proof.
  unfold lift_to_ir. intros H. inv_bind H. injection H as <-.
  destruct (liftfull_provenance _ _ _ _ _ _ E) as (body' & _ & _ & F).
  unfold SsaFuel.written_declared. rewrite flat_stmts_erase. apply forallb_forall. intros s Hs.
  apply in_map_iff in Hs as (x & <- & Hx). apply elem_of_list_In in Hx.
  apply elem_of_list_lookup_1 in Hx as (i & Hi).
  destruct (Forall2_lookup_r _ _ _ _ _ F Hi) as (s0 & _ & (x0 & H0 & ->)).
  destruct x0 as [| | |m v op rhe st| | |]; try done.
  simpl in H0. destruct (image0_subst_untyped _ _ _ _ _ _ H0) as [-> Hv].
  simpl. unfold decls_get_type. rewrite (without_version_unv v Hv).
  destruct (List.find _ (xc_decls (l_cfg a))) as [d|] eqn:Ef; simpl; [|done].
  destruct (find_some_in _ _ _ Ef) as [Hin Heq].
  destruct (xd_type d) as [t tags] eqn:Et. simpl. destruct t; try done.
  apply existsb_exists. exists (xd_name d). split.
  - apply in_map_iff. exists (xd_name d, Ir.TLocal). split; [done|].
    apply in_map_iff. exists d. split; [by rewrite Et|done].
  - apply SsaFuel.vname_eqb_eq in Heq. subst v. by apply SsaFuel.vname_eqb_eq.
Qed.

(* ---- an assignment tagged Local assigns a declared local ---- *)
(* the hypothesis [tags_ok] of Proofs.SsaLocalDefs.into_ssa_ldefs_unique: the tag of a
   lifted substitution is what propagate_types found in the declarations for the assigned
   name, so a Local tag means a declaration of type Local with that key *)
Theorem lifted_tags_ok kind params pfile ploc body c :
  lift_to_ir kind params pfile ploc body = Ok c -> SsaLocalDefs.tags_ok (Ir.c_decls c) (Ir.c_blocks c).
Proof.
  unfold lift_to_ir. intros H. inv_bind H. injection H as <-.
  destruct (liftfull_provenance _ _ _ _ _ _ E) as (body' & _ & _ & F).
  assert (G : Forall (SsaLocalDefs.tag_ok (Ir.c_decls (erase_cfg (l_cfg a)))) (map erase_stmt (graph_stmts (xc_blocks (l_cfg a))))).
  { apply Forall_forall. intros s Hs. apply elem_of_list_In in Hs. apply in_map_iff in Hs as (x & <- & Hx). apply elem_of_list_In in Hx.
    apply elem_of_list_lookup_1 in Hx as (i & Hi).
    destruct (Forall2_lookup_r _ _ _ _ _ F Hi) as (s0 & _ & (x0 & H0 & ->)).
    destruct x0 as [| | |m v op rhe st| | |]; try done.
    simpl in H0. destruct (image0_subst_untyped _ _ _ _ _ _ H0) as [-> Hv].
    simpl. unfold decls_get_type. rewrite (without_version_unv v Hv).
    destruct (List.find _ (xc_decls (l_cfg a))) as [d|] eqn:Ef; simpl; [|done].
    destruct (find_some_in _ _ _ Ef) as [Hin Heq].
    destruct (xd_type d) as [t tags] eqn:Et. simpl. destruct t; try done.
    unfold Ssa.is_local_in. apply existsb_exists. exists (xd_name d, Ir.TLocal). split.
    - apply in_map_iff. exists d. split; [by rewrite Et|done].
    - apply SsaFuel.vname_eqb_eq in Heq. subst v. simpl. by rewrite IrFacts.key_eqb_refl. }
  unfold SsaLocalDefs.tags_ok, erase_cfg at 2. simpl.
  apply Forall_forall. intros b Hb. apply elem_of_list_In in Hb. apply in_map_iff in Hb as (xb & <- & Hxb).
  unfold SsaLocalDefs.bok. simpl. apply Forall_forall. intros s Hs.
  rewrite Forall_forall in G. apply G. apply elem_of_list_In. apply elem_of_list_In in Hs.
  apply in_map_iff in Hs as (x & <- & Hx). apply in_map. unfold graph_stmts. apply in_flat_map. by exists xb.
Qed.

(* ---- the graph DominatorTree::new reads ---- *)
Lemma map_to_of_nat l : map N.to_nat (map N.of_nat l) = l.
Proof. rewrite map_map. rewrite <- (map_id l) at 2. apply map_ext. apply Nat2N.id. Qed.

Theorem lifted_dom key kind params pfile ploc body r :
  try_lift_impl kind params pfile ploc body = Ok r ->
  Lift.lift (skel key body) = Ok (map (skel_block key) (xc_blocks (l_cfg r))) /\
  PM.dom_of_ir (erase_cfg (l_cfg r)) = MirrorsDom.to_dom (map (skel_block key) (xc_blocks (l_cfg r))) /\
  length (Ir.c_blocks (erase_cfg (l_cfg r))) = length (map (skel_block key) (xc_blocks (l_cfg r))).
Proof.
  intros H. split; [exact (liftfull_skeleton key _ _ _ _ _ _ H)|]. split.
  - unfold PM.dom_of_ir, MirrorsDom.to_dom, erase_cfg. simpl.
    induction (xc_blocks (l_cfg r)) as [|b g IH]; [done|]. simpl. rewrite !map_to_of_nat. f_equal. exact IH.
  - unfold erase_cfg. simpl. by rewrite !map_length.
Qed.

(* the three facts the SSA stage needs of a lifted graph, in one statement *)
Theorem lifted_feeds_ssa kind params pfile ploc body r :
  try_lift_impl kind params pfile ploc body = Ok r ->
  let c := erase_cfg (l_cfg r) in
  NP.unversioned c /\ SsaFuel.written_declared c = true /\
  forall key : Ir.meta -> nat,
    let g := map (skel_block key) (xc_blocks (l_cfg r)) in
    Lift.lift (skel key body) = Ok g /\ PM.dom_of_ir c = MirrorsDom.to_dom g /\
    length (Ir.c_blocks c) = length g.
Proof.
  intros H.
  assert (E : lift_to_ir kind params pfile ploc body = Ok (erase_cfg (l_cfg r))) by (unfold lift_to_ir; by rewrite H).
  split; [exact (lifted_unversioned _ _ _ _ _ _ E)|]. split; [exact (lifted_written_declared _ _ _ _ _ _ E)|].
  intros key. exact (lifted_dom key _ _ _ _ _ _ H).
Qed.
