(* Algebraic laws of the mirror of modular_arithmetic.rs (Model.Field): the
   reducing functions form a commutative ring on ALL integers for every
   modulus p > 0, and the comparison operators are a strict total order on the
   signed representatives.  Stated about the mirror's own functions, not about
   the specification, so that an edit of the mirror that keeps each single
   operation plausible but breaks their interplay is seen here. *)
From Coq Require Import ZArith Lia Bool Znumtheory.
Require Import Model.Base Model.Field Spec.FieldSpec Proofs.FieldProofs.
Local Open Scope Z_scope.

Lemma add_comm a b p : add a b p = add b a p.
Proof. unfold add. f_equal. lia. Qed.

Lemma mul_comm a b p : mul a b p = mul b a p.
Proof. unfold mul. f_equal. lia. Qed.

Lemma add_assoc a b c p : 0 < p -> add (add a b p) c p = add a (add b c p) p.
Proof.
  intros Hp. unfold add. rewrite !modulus_spec by lia.
  rewrite Zplus_mod_idemp_l, Zplus_mod_idemp_r. f_equal. lia.
Qed.

Lemma mul_assoc a b c p : 0 < p -> mul (mul a b p) c p = mul a (mul b c p) p.
Proof.
  intros Hp. unfold mul. rewrite !modulus_spec by lia.
  rewrite Zmult_mod_idemp_l, Zmult_mod_idemp_r. f_equal. lia.
Qed.

Lemma mul_add_distr a b c p : 0 < p ->
  mul a (add b c p) p = add (mul a b p) (mul a c p) p.
Proof.
  intros Hp. unfold mul, add. rewrite !modulus_spec by lia.
  rewrite Zmult_mod_idemp_r, <- Zplus_mod. f_equal. lia.
Qed.

Lemma add_zero a p : 0 < p -> add a 0 p = modulus a p.
Proof. intros Hp. unfold add. f_equal. lia. Qed.

Lemma mul_one a p : 0 < p -> mul a 1 p = modulus a p.
Proof. intros Hp. unfold mul. f_equal. lia. Qed.

Lemma sub_self a p : 0 < p -> sub a a p = 0.
Proof. intros Hp. unfold sub. rewrite modulus_spec by lia. rewrite Z.sub_diag. apply Z.mod_0_l. lia. Qed.

Lemma sub_add a b p : 0 < p -> add (sub a b p) b p = modulus a p.
Proof.
  intros Hp. unfold add, sub. rewrite !modulus_spec by lia.
  rewrite Zplus_mod_idemp_l. f_equal. lia.
Qed.

Lemma add_sub a b p : 0 < p -> sub (add a b p) b p = modulus a p.
Proof.
  intros Hp. unfold add, sub. rewrite !modulus_spec by lia.
  rewrite Zminus_mod_idemp_l. f_equal. lia.
Qed.

Lemma add_prefix_sub a p : 0 < p -> add a (prefix_sub a p) p = 0.
Proof.
  intros Hp. unfold add, prefix_sub, mul. rewrite !modulus_spec by lia.
  rewrite Zplus_mod_idemp_r. replace (a + a * -1) with 0 by lia. apply Z.mod_0_l. lia.
Qed.

Lemma prefix_sub_is_sub a p : 0 < p -> prefix_sub a p = sub 0 a p.
Proof. intros Hp. unfold prefix_sub, mul, sub. f_equal. lia. Qed.

(* the ring laws in one statement *)
Theorem field_ring_laws p : 0 < p -> forall a b c,
  add a b p = add b a p /\
  mul a b p = mul b a p /\
  add (add a b p) c p = add a (add b c p) p /\
  mul (mul a b p) c p = mul a (mul b c p) p /\
  mul a (add b c p) p = add (mul a b p) (mul a c p) p /\
  add a 0 p = modulus a p /\
  mul a 1 p = modulus a p /\
  add a (prefix_sub a p) p = 0 /\
  sub a b p = add a (prefix_sub b p) p /\
  add (sub a b p) b p = modulus a p /\
  sub (add a b p) b p = modulus a p.
Proof.
  intros Hp a b c.
  repeat split; auto using add_comm, mul_comm, add_assoc, mul_assoc, mul_add_distr,
    add_zero, mul_one, add_prefix_sub, sub_add, add_sub.
  unfold sub, add, prefix_sub, mul. rewrite !modulus_spec by lia.
  rewrite Zplus_mod_idemp_r. f_equal. lia.
Qed.

(* division undoes multiplication: a field, for a prime modulus *)
Theorem div_mul_cancel a b p : prime p -> 2 < p -> 0 <= a < p -> 0 <= b < p -> b <> 0 ->
  exists c, div a b p = Ok c /\ mul c b p = a /\
            div (mul a b p) b p = Ok a.
Proof.
  intros Hpr Hp Ha Hb Hb0.
  assert (Hm : 0 <= mul a b p < p) by (unfold mul; apply modulus_range; lia).
  pose proof (div_refines_spec a b p Hpr Hp Ha Hb) as D.
  pose proof (div_refines_spec (mul a b p) b p Hpr Hp Hm Hb) as D2.
  destruct (div a b p) as [c|e|s|] eqn:E; try contradiction.
  2:{ destruct e; try contradiction. }
  destruct D as (_ & Hc & Hcb).
  exists c. split; [reflexivity|]. split.
  - unfold mul. rewrite modulus_spec by lia. exact Hcb.
  - destruct (div (mul a b p) b p) as [d|e|s|] eqn:E2; try contradiction.
    2:{ destruct e; try contradiction. }
    destruct D2 as (_ & Hd & Hdb). f_equal.
    (* d * b = a * b (mod p), b invertible *)
    unfold mul in Hdb. rewrite modulus_spec in Hdb by lia.
    assert (Hdiv : (p | (d - a) * b)).
    { apply Zmod_divide; [lia|]. rewrite Z.mul_sub_distr_r, Zminus_mod, Hdb.
      rewrite Z.sub_diag. apply Z.mod_0_l. lia. }
    apply prime_mult in Hdiv; [|exact Hpr].
    destruct Hdiv as [[k Hk]|[k Hk]].
    + assert (k = 0) by nia. lia.
    + exfalso. assert (0 < k) by nia. nia.
Qed.

(* comparisons: a strict total order on the signed representatives *)
Theorem comparison_trichotomy a b p : 2 < p -> 0 <= a < p -> 0 <= b < p ->
  lesser a b p + eq a b p + greater a b p = 1 /\
  lesser_eq a b p = 1 - greater a b p /\
  greater_eq a b p = 1 - lesser a b p /\
  not_eq a b p = 1 - eq a b p /\
  greater a b p = lesser b a p.
Proof.
  intros Hp Ha Hb.
  unfold not_eq.
  rewrite lesser_spec, eq_spec, greater_spec, lesser_eq_spec, greater_eq_spec, not_b2z by lia.
  rewrite (lesser_spec b a) by lia.
  assert (Hinj : sval a p = sval b p -> a = b) by (apply sval_inj; lia).
  destruct (Z.ltb_spec (sval a p) (sval b p)); destruct (Z.eqb_spec a b);
    destruct (Z.ltb_spec (sval b p) (sval a p));
    destruct (Z.leb_spec (sval a p) (sval b p)); destruct (Z.leb_spec (sval b p) (sval a p));
    subst; simpl; try lia.
  all: try (exfalso; assert (a = b) by (apply Hinj; lia); contradiction).
Qed.

Theorem lesser_transitive a b c p :
  lesser a b p = 1 -> lesser b c p = 1 -> lesser a c p = 1.
Proof.
  unfold lesser.
  destruct (Z.ltb_spec (comparable_element a p) (comparable_element b p)); [|discriminate].
  destruct (Z.ltb_spec (comparable_element b p) (comparable_element c p)); [|discriminate].
  destruct (Z.ltb_spec (comparable_element a p) (comparable_element c p)); [reflexivity|lia].
Qed.

Theorem lesser_irreflexive a p : lesser a a p = 0.
Proof. unfold lesser. rewrite Z.ltb_irrefl. reflexivity. Qed.

(* ---------- Boolean operators: a Boolean algebra on truth values ---------- *)
Lemma normalize_b2z_ex x p : exists bx : bool, normalize x p = b2z bx.
Proof. destruct (normalize_01 x p) as [H|H]; [exists false|exists true]; exact H. Qed.

Theorem boolean_algebra_laws a b p : 2 < p ->
  not (not a p) p = normalize a p /\
  not (bool_and a b p) p = bool_or (not a p) (not b p) p /\
  not (bool_or a b p) p = bool_and (not a p) (not b p) p /\
  bool_and a b p = bool_and b a p /\
  bool_or a b p = bool_or b a p /\
  bool_and a a p = normalize a p /\
  bool_or a a p = normalize a p /\
  bool_and a (not a p) p = 0 /\
  bool_or a (not a p) p = 1.
Proof.
  intros Hp.
  destruct (normalize_b2z_ex a p) as [ba Ha]. destruct (normalize_b2z_ex b p) as [bb Hb].
  assert (Na : not a p = b2z (negb ba)) by (unfold not; rewrite Ha; destruct ba; reflexivity).
  assert (Nb : not b p = b2z (negb bb)) by (unfold not; rewrite Hb; destruct bb; reflexivity).
  assert (An : bool_and a b p = b2z (ba && bb)) by (unfold bool_and; rewrite Ha, Hb; destruct ba, bb; reflexivity).
  assert (Or : bool_or a b p = b2z (ba || bb)) by (unfold bool_or, bool_and; rewrite Ha, Hb; destruct ba, bb; reflexivity).
  rewrite An, Or, Na, Nb.
  unfold not, bool_or, bool_and. rewrite !normalize_bool by lia. rewrite Ha, Hb.
  destruct ba, bb; cbn; repeat split; reflexivity.
Qed.

(* ---------- bitwise operators ---------- *)
Theorem bitwise_laws a b p : 0 < p ->
  bit_and a b p = bit_and b a p /\
  bit_or a b p = bit_or b a p /\
  bit_xor a b p = bit_xor b a p /\
  bit_xor a a p = 0 /\
  bit_and a a p = modulus a p /\
  bit_or a a p = modulus a p /\
  bit_or a 0 p = modulus a p /\
  bit_xor a 0 p = modulus a p /\
  bit_and a 0 p = 0.
Proof.
  intros Hp. unfold bit_and, bit_or, bit_xor.
  rewrite (Z.land_comm a b), (Z.lor_comm a b), (Z.lxor_comm a b).
  rewrite Z.lxor_nilpotent, Z.land_diag, Z.lor_diag, Z.lor_0_r, Z.lxor_0_r, Z.land_0_r.
  assert (modulus 0 p = 0) by (rewrite modulus_spec by lia; apply Z.mod_0_l; lia).
  repeat split; auto.
Qed.
