(* Algebraic laws of the mirror of modular_arithmetic.rs (Model.Field): the
   reducing functions form a commutative ring on ALL integers for every
   modulus p > 0, and the comparison operators are a strict total order on the
   signed representatives.  Stated about the mirror's own functions, not about
   the specification, so that an edit of the mirror that keeps each single
   operation plausible but breaks their interplay is seen here. *)
From Coq Require Import ZArith Lia Bool Znumtheory.
Require Import Model.Base Model.Field Spec.FieldSpec Proofs.FieldProofs.
Local Open Scope Z_scope.

Lemma add_comm a b p : add a b p = add b a p.
Proof. unfold add. f_equal. lia. Qed.

Lemma mul_comm a b p : mul a b p = mul b a p.
Proof. unfold mul. f_equal. lia. Qed.

Lemma add_assoc a b c p : 0 < p -> add (add a b p) c p = add a (add b c p) p.
Proof.
  intros Hp. unfold add. rewrite !modulus_spec by lia.
  rewrite Zplus_mod_idemp_l, Zplus_mod_idemp_r. f_equal. lia.
Qed.

Lemma mul_assoc a b c p : 0 < p -> mul (mul a b p) c p = mul a (mul b c p) p.
Proof.
  intros Hp. unfold mul. rewrite !modulus_spec by lia.
  rewrite Zmult_mod_idemp_l, Zmult_mod_idemp_r. f_equal. lia.
Qed.

Lemma mul_add_distr a b c p : 0 < p ->
  mul a (add b c p) p = add (mul a b p) (mul a c p) p.
Proof.
  intros Hp. unfold mul, add. rewrite !modulus_spec by lia.
  rewrite Zmult_mod_idemp_r, <- Zplus_mod. f_equal. lia.
Qed.

Lemma add_zero a p : 0 < p -> add a 0 p = modulus a p.
Proof. intros Hp. unfold add. f_equal. lia. Qed.

Lemma mul_one a p : 0 < p -> mul a 1 p = modulus a p.
Proof. intros Hp. unfold mul. f_equal. lia. Qed.

Lemma sub_self a p : 0 < p -> sub a a p = 0.
Proof. intros Hp. unfold sub. rewrite modulus_spec by lia. rewrite Z.sub_diag. apply Z.mod_0_l. lia. Qed.

Lemma sub_add a b p : 0 < p -> add (sub a b p) b p = modulus a p.
Proof.
  intros Hp. unfold add, sub. rewrite !modulus_spec by lia.
  rewrite Zplus_mod_idemp_l. f_equal. lia.
Qed.

Lemma add_sub a b p : 0 < p -> sub (add a b p) b p = modulus a p.
Proof.
  intros Hp. unfold add, sub. rewrite !modulus_spec by lia.
  rewrite Zminus_mod_idemp_l. f_equal. lia.
Qed.

Lemma add_prefix_sub a p : 0 < p -> add a (prefix_sub a p) p = 0.
Proof.
  intros Hp. unfold add, prefix_sub, mul. rewrite !modulus_spec by lia.
  rewrite Zplus_mod_idemp_r. replace (a + a * -1) with 0 by lia. apply Z.mod_0_l. lia.
Qed.

Lemma prefix_sub_is_sub a p : 0 < p -> prefix_sub a p = sub 0 a p.
Proof. intros Hp. unfold prefix_sub, mul, sub. f_equal. lia. Qed.

(* the ring laws in one statement *)
Theorem field_ring_laws p : 0 < p -> forall a b c,
  add a b p = add b a p /\
  mul a b p = mul b a p /\
  add (add a b p) c p = add a (add b c p) p /\
  mul (mul a b p) c p = mul a (mul b c p) p /\
  mul a (add b c p) p = add (mul a b p) (mul a c p) p /\
  add a 0 p = modulus a p /\
  mul a 1 p = modulus a p /\
  add a (prefix_sub a p) p = 0 /\
  sub a b p = add a (prefix_sub b p) p /\
  add (sub a b p) b p = modulus a p /\
  sub (add a b p) b p = modulus a p.
Proof.
  intros Hp a b c.
  repeat split; auto using add_comm, mul_comm, add_assoc, mul_assoc, mul_add_distr,
    add_zero, mul_one, add_prefix_sub, sub_add, add_sub.
  unfold sub, add, prefix_sub, mul. rewrite !modulus_spec by lia.
  rewrite Zplus_mod_idemp_r. f_equal. lia.
Qed.

(* division undoes multiplication: a field, for a prime modulus *)
Theorem div_mul_cancel a b p : prime p -> 2 < p -> 0 <= a < p -> 0 <= b < p -> b <> 0 ->
  exists c, div a b p = Ok c /\ mul c b p = a /\
            div (mul a b p) b p = Ok a.
Proof.
  intros Hpr Hp Ha Hb Hb0.
  assert (Hm : 0 <= mul a b p < p) by (unfold mul; apply modulus_range; lia).
  pose proof (div_refines_spec a b p Hpr Hp Ha Hb) as D.
  pose proof (div_refines_spec (mul a b p) b p Hpr Hp Hm Hb) as D2.
  destruct (div a b p) as [c|e|s|] eqn:E; try contradiction.
  2:{ destruct e; try contradiction. }
  destruct D as (_ & Hc & Hcb).
  exists c. split; [reflexivity|]. split.
  - unfold mul. rewrite modulus_spec by lia. exact Hcb.
  - destruct (div (mul a b p) b p) as [d|e|s|] eqn:E2; try contradiction.
    2:{ destruct e; try contradiction. }
    destruct D2 as (_ & Hd & Hdb). f_equal.
    (* d * b = a * b (mod p), b invertible *)
    unfold mul in Hdb. rewrite modulus_spec in Hdb by lia.
    assert (Hdiv : (p | (d - a) * b)).
    { apply Zmod_divide; [lia|]. rewrite Z.mul_sub_distr_r, Zminus_mod, Hdb.
      rewrite Z.sub_diag. apply Z.mod_0_l. lia. }
    apply prime_mult in Hdiv; [|exact Hpr].
    destruct Hdiv as [[k Hk]|[k Hk]].
    + assert (k = 0) by nia. lia.
    + exfalso. assert (0 < k) by nia. nia.
Qed.

(* comparisons: a strict total order on the signed representatives *)
Theorem comparison_trichotomy a b p : 2 < p -> 0 <= a < p -> 0 <= b < p ->
  lesser a b p + eq a b p + greater a b p = 1 /\
  lesser_eq a b p = 1 - greater a b p /\
  greater_eq a b p = 1 - lesser a b p /\
  not_eq a b p = 1 - eq a b p /\
  greater a b p = lesser b a p.
Proof.
  intros Hp Ha Hb.
  unfold not_eq.
  rewrite lesser_spec, eq_spec, greater_spec, lesser_eq_spec, greater_eq_spec, not_b2z by lia.
  rewrite (lesser_spec b a) by lia.
  assert (Hinj : sval a p = sval b p -> a = b) by (apply sval_inj; lia).
  destruct (Z.ltb_spec (sval a p) (sval b p)); destruct (Z.eqb_spec a b);
    destruct (Z.ltb_spec (sval b p) (sval a p));
    destruct (Z.leb_spec (sval a p) (sval b p)); destruct (Z.leb_spec (sval b p) (sval a p));
    subst; simpl; try lia.
  all: try (exfalso; assert (a = b) by (apply Hinj; lia); contradiction).
Qed.

Theorem lesser_transitive a b c p :
  lesser a b p = 1 -> lesser b c p = 1 -> lesser a c p = 1.
Proof.
  unfold lesser.
  destruct (Z.ltb_spec (comparable_element a p) (comparable_element b p)); [|discriminate].
  destruct (Z.ltb_spec (comparable_element b p) (comparable_element c p)); [|discriminate].
  destruct (Z.ltb_spec (comparable_element a p) (comparable_element c p)); [reflexivity|lia].
Qed.

Theorem lesser_irreflexive a p : lesser a a p = 0.
Proof. unfold lesser. rewrite Z.ltb_irrefl. reflexivity. Qed.
