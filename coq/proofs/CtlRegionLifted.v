(* C09, fourth round: the branch-region mirror on the graphs lifting produces.  An IR graph g that has, block by
   block, the predecessor and successor lists of a skeleton graph returned by Model.Lift.lift (the hypothesis of
   Proofs.CtlBridge; Proofs.CtlChain.chain_keeps_skeleton_edges proves it for the output of lifting -> SSA ->
   propagation) is rooted, so the C15 mirror computes its dominator tree and
     - [lifted_branches_total]: Model.BranchRegion.branches_of g returns a table (no panic site, no fuel exhausted);
     - [lifted_frontier_exact]: the frontier lists the region mirror reads are the path-based dominance frontiers
       (Spec.DomSpec.df_spec, C15_frontier_exact).
   What is NOT proved is kept as [C09_lifted_regions_cover_full_statement]; see the end of the file for the lemma
   that is missing. *)
From Coq Require Import ZArith Lia.
From stdpp Require Import list list_numbers sets.
Require Model.Base Model.Ir Model.Lift Model.Dom Model.DegGraph Model.BranchRegion Model.Taint.
Require Spec.DomSpec Spec.CtlDep Spec.CtlRegion.
Require Proofs.MirrorsDom Proofs.DomProofs Proofs.DomOracle Proofs.BranchRegionProofs.
Import Base(outcome, Ok, Err, Panic, OutOfFuel, bind).

Section Lifted.
  Context (body : Lift.sk) (sg : list Lift.block) (g : Ir.cfg).
  Context (Hl : Lift.lift body = Ok sg).
  Context (Hsame : DegGraph.dom_graph_of g = MirrorsDom.to_dom sg).

  Lemma dom_graph_same : BranchRegion.dom_graph (Ir.c_blocks g) = MirrorsDom.to_dom sg.
  Proof. exact Hsame. Qed.

  Lemma lifted_tree : exists t,
    Dom.dominator_tree (Dom.dom_fuel (BranchRegion.dom_graph (Ir.c_blocks g))) Dom.id_order
                       (BranchRegion.dom_graph (Ir.c_blocks g)) = Ok t.
  Proof.
    rewrite dom_graph_same.
    destruct (DomProofs.dominator_tree_correct _ Dom.id_order (MirrorsDom.lifted_rooted body sg Hl) (proj1 DomOracle.orders_ok))
      as (t & Ht & _).
    by exists t.
  Qed.

  Theorem lifted_branches_total :
    BranchRegion.graph_closed (Ir.c_blocks g) = true -> exists br, BranchRegion.branches_of g = Ok br.
  Proof.
    intros Hc. destruct lifted_tree as (t & Ht). by apply (BranchRegionProofs.branches_of_total g t).
  Qed.

  Theorem lifted_frontier_exact t (i j : N) :
    Dom.dominator_tree (Dom.dom_fuel (BranchRegion.dom_graph (Ir.c_blocks g))) Dom.id_order
                       (BranchRegion.dom_graph (Ir.c_blocks g)) = Ok t ->
    N.to_nat i < length sg ->
    (In j (BranchRegion.frontier_of t i) <->
     exists j', j = N.of_nat j' /\ DomSpec.df_spec (MirrorsDom.to_dom sg) (N.to_nat i) j').
  Proof.
    rewrite dom_graph_same. intros Ht Hi.
    pose proof (MirrorsDom.lifted_rooted body sg Hl) as Hg.
    pose proof (proj1 DomOracle.orders_ok) as Hord.
    destruct (DomProofs.dominator_tree_correct _ Dom.id_order Hg Hord) as (t' & Ht' & Hok).
    rewrite Ht in Ht'. injection Ht' as <-.
    destruct (lookup_lt_is_Some_2 (Dom.dt_frontier t) (N.to_nat i)) as (fi & Hfi).
    { rewrite (DomProofs.ok_df_len _ _ Hok), MirrorsDom.to_dom_length. done. }
    unfold BranchRegion.frontier_of. rewrite nth_lookup, Hfi. simpl.
    rewrite <- elem_of_list_In, elem_of_list_fmap. split.
    - intros (j' & -> & Hj'). exists j'. split; [done|].
      apply (DomProofs.frontier_exact _ _ t Hg Hord Ht _ fi j' Hfi). by apply DomProofs.elem_of_members.
    - intros (j' & -> & Hdf). exists j'. split; [done|].
      apply DomProofs.elem_of_members. by apply (DomProofs.frontier_exact _ _ t Hg Hord Ht _ fi j' Hfi).
  Qed.
End Lifted.

(* ------------------------------------------------------------------------------------------------
   The full statement (OPEN): on every IR graph with the edges of a lifted skeleton whose branch statements
   name successors of their block, the table of the region mirror covers control dependence.  With
   Proofs.CtlRegionProofs.regions_give_ctl_closed this would leave [self_closed] (the phi statements of loop
   headers) as the only per-graph hypothesis of C09_noninterference_with_implicit_flows.

   It is evaluated instead: Spec.CtlRegion.region_covers_b on every dumped graph (engine `ctlregion`).

   What is missing is one structural fact about Model.Lift.visit, in the style of Proofs.CtlStructure.visit_reg_all
   (whose region record is too coarse here: it bounds the blocks of an `if` with both branches by ONE interval
   b+1..hi and does not say that no edge leads from the blocks of the true branch to those of the false branch):
   for a block b that ends in `IBranch c t f` in the lifted graph,
     (1) the blocks made for the true branch are an index interval t..m entered through the edge b -> t only and
         left towards a single block j (the join, or the loop header when b is the header: then j = b), and the
         blocks made for the false branch, when there is one, an interval m+1..hi with the same property and the
         same j;  hence the dominance frontier of t is {j} or empty (the audit's statistic `dfmax <= 1`), j is not
         control dependent on b unless j = b, and a block y <> b is control dependent on b only if it lies in one
         of the two intervals, from where it reaches j without passing through j first;
     (2) every block reaches a block in which execution can end (Spec.CtlRegion.all_reach_exit_b, evaluated).
   ------------------------------------------------------------------------------------------------ *)
Definition branch_targets_are_successors (g : Ir.cfg) : Prop :=
  forall blk m c t f, In blk (Ir.c_blocks g) -> In (Ir.SIf m c t f) (Ir.b_stmts blk) ->
    BranchRegion.last_if blk = Some (t, f) /\ In t (Ir.b_succs blk) /\
    (forall x, f = Some x -> In x (Ir.b_succs blk)).

Definition C09_lifted_regions_cover_full_statement : Prop :=
  forall (body : Lift.sk) (sg : list Lift.block) (g : Ir.cfg) (br : Taint.branches),
    Lift.lift body = Ok sg ->
    DegGraph.dom_graph_of g = MirrorsDom.to_dom sg ->
    branch_targets_are_successors g ->
    BranchRegion.branches_of g = Ok br ->
    CtlRegion.region_covers g br.
