(* C07, hypotheses about the graph and the immediate-dominator table: what the two
   decidable checks of Model.DegGraph give, stated with plain lists and the path-based
   dominance of Spec.SsaDomSpec (cedge / cdom / cidom on Ir.cfg):
     graph_consistent c = true /\ idom_is_dominator_table c idom = true   imply
       - every block is reachable from the entry block,
       - the table has one entry per block; the entry of block i is None iff i = 0,
         and it is Some d iff d is THE immediate dominator of i (C15_idom_exact),
       - b_index is the position, the members of b_preds are exactly the sources of
         the edges into the block, the entry block has no predecessor. *)
From Coq Require Import ZArith Lia.
From stdpp Require Import list list_numbers sets.
Require Model.Base Model.Ir Model.Dom Model.DegGraph Spec.DomSpec Spec.SsaDomSpec.
Require Proofs.DomProofs Proofs.DomOracle Proofs.SsaDomBridge Proofs.DegGraphProofs.

Lemma dom_graph_of_eq c : DegGraph.dom_graph_of c = SsaDomBridge.graph_of c.
Proof. reflexivity. Qed.

Lemma idom_tables_eqb_eq a b : DegGraph.idom_tables_eqb a b = true → a = b.
Proof.
  revert b. induction a as [|x a IH]; intros [|y b]; simpl; try done.
  intros H. apply andb_true_iff in H as [H1 H2]. f_equal; [|by apply IH].
  destruct x, y; simpl in H1; try done. apply N.eqb_eq in H1. by subst.
Qed.

Lemma index_is_position_spec c : DegGraph.index_is_position c = true →
  ∀ i b, nth_error (Ir.c_blocks c) i = Some b → Ir.b_index b = N.of_nat i.
Proof.
  unfold DegGraph.index_is_position. intros H i b Hb.
  rewrite List.forallb_forall in H.
  pose proof (DegGraphProofs.combine_seq_nth (Ir.c_blocks c) 0 i b Hb) as Hin.
  specialize (H _ Hin). simpl in H. by apply N.eqb_eq in H.
Qed.

Section Facts.
Context (c : Ir.cfg) (idom : list (option N)).
Context (Hgc : DegGraph.graph_consistent c = true).
Context (Htab : DegGraph.idom_is_dominator_table c idom = true).

Lemma consistent_rooted : DomSpec.rooted (SsaDomBridge.graph_of c).
Proof.
  unfold DegGraph.graph_consistent in Hgc. apply andb_true_iff in Hgc as [_ H].
  rewrite dom_graph_of_eq in H. by apply DomOracle.rooted_b_sound.
Qed.

Lemma consistent_index : ∀ i b, nth_error (Ir.c_blocks c) i = Some b → Ir.b_index b = N.of_nat i.
Proof.
  unfold DegGraph.graph_consistent in Hgc. apply andb_true_iff in Hgc as [H _].
  by apply index_is_position_spec.
Qed.

Lemma consistent_reach : SsaDomSpec.creach c.
Proof. exact (SsaDomBridge.reach_of_rooted c consistent_rooted). Qed.

Lemma table_is_computed :
  ∃ t, Dom.dominator_tree (Dom.dom_fuel (SsaDomBridge.graph_of c)) Dom.id_order (SsaDomBridge.graph_of c) = Base.Ok t ∧
       idom = DegGraph.idom_table_of t.
Proof.
  unfold DegGraph.idom_is_dominator_table, DegGraph.computed_idom in Htab.
  rewrite dom_graph_of_eq in Htab.
  destruct (Dom.dominator_tree _ _ _) as [t| | |]; try done.
  exists t. split; [done|]. by apply idom_tables_eqb_eq.
Qed.

Lemma table_length : length idom = length (Ir.c_blocks c).
Proof.
  destruct table_is_computed as (t & Ht & ->).
  pose proof (DomProofs.tree_is_ok _ _ t consistent_rooted (proj1 DomOracle.orders_ok) Ht) as Hok.
  unfold DegGraph.idom_table_of. rewrite map_length, (DomProofs.ok_idom_len _ _ Hok).
  apply SsaDomBridge.graph_of_length.
Qed.

(* the entry of block i is its immediate dominator in the sense of paths *)
Lemma table_exact i o : nth_error idom i = Some o →
  (o = None ↔ i = 0) ∧ ∀ d, o = Some d ↔ SsaDomSpec.cidom c (N.to_nat d) i.
Proof.
  destruct table_is_computed as (t & Ht & ->). intros Hi.
  unfold DegGraph.idom_table_of in Hi.
  rewrite <- SsaDomBridge.lookup_nth_error in Hi.
  change (map ?f ?l) with (f <$> l) in Hi. rewrite list_lookup_fmap in Hi.
  destruct (Dom.dt_idom t !! i) as [o'|] eqn:Eo; [|done]. simpl in Hi. injection Hi as <-.
  pose proof (DomProofs.idom_total _ _ t consistent_rooted (proj1 DomOracle.orders_ok) Ht i o' Eo) as Htot.
  split.
  - rewrite <- Htot. destruct o'; split; done.
  - intros d. rewrite SsaDomBridge.idom_iff.
    rewrite <- (DomProofs.idom_exact _ _ t consistent_rooted (proj1 DomOracle.orders_ok) Ht i o' (N.to_nat d) Eo).
    destruct o' as [j|]; [|split; done]. split.
    + intros [= <-]. by rewrite Nat2N.id.
    + intros [= ->]. by rewrite N2Nat.id.
Qed.

(* predecessors are the sources of the incoming edges *)
Lemma pred_is_edge ij j p : nth_error (Ir.c_blocks c) ij = Some j →
  In p (Ir.b_preds j) → SsaDomSpec.cedge c (N.to_nat p) ij.
Proof.
  intros Hj Hp. pose proof consistent_rooted as Hg.
  assert (Hlj : SsaDomBridge.graph_of c !! ij =
                Some (Dom.Node (N.to_nat <$> Ir.b_preds j) (N.to_nat <$> Ir.b_succs j))).
  { apply SsaDomBridge.graph_of_lookup. eauto. }
  assert (Hin : N.to_nat p ∈ Dom.preds (Dom.Node (N.to_nat <$> Ir.b_preds j) (N.to_nat <$> Ir.b_succs j))).
  { simpl. apply elem_of_list_fmap. exists p. split; [done|]. by apply elem_of_list_In. }
  pose proof (DomSpec.rooted_preds _ Hg _ _ _ Hlj Hin) as Hlt.
  apply lookup_lt_is_Some_2 in Hlt. destruct Hlt as (xp & Hxp).
  apply SsaDomBridge.edge_iff. exists xp. split; [done|].
  by apply (DomSpec.rooted_mirror _ Hg (N.to_nat p) ij xp _ Hxp Hlj).
Qed.

Lemma edge_is_pred ij j p : nth_error (Ir.c_blocks c) ij = Some j →
  SsaDomSpec.cedge c p ij → In (N.of_nat p) (Ir.b_preds j).
Proof.
  intros Hj He. pose proof consistent_rooted as Hg.
  assert (Hlj : SsaDomBridge.graph_of c !! ij =
                Some (Dom.Node (N.to_nat <$> Ir.b_preds j) (N.to_nat <$> Ir.b_succs j))).
  { apply SsaDomBridge.graph_of_lookup. eauto. }
  apply SsaDomBridge.edge_iff in He. destruct He as (xp & Hxp & Hs).
  apply (DomSpec.rooted_mirror _ Hg p ij xp _ Hxp Hlj) in Hs. simpl in Hs.
  apply elem_of_list_fmap in Hs. destruct Hs as (q & -> & Hq). rewrite N2Nat.id. by apply elem_of_list_In.
Qed.

Lemma entry_no_preds j : nth_error (Ir.c_blocks c) 0 = Some j → Ir.b_preds j = [].
Proof.
  intros Hj. pose proof consistent_rooted as Hg.
  assert (Hlj : SsaDomBridge.graph_of c !! 0 =
                Some (Dom.Node (N.to_nat <$> Ir.b_preds j) (N.to_nat <$> Ir.b_succs j))).
  { apply SsaDomBridge.graph_of_lookup. eauto. }
  pose proof (DomSpec.rooted_entry _ Hg _ Hlj) as H. simpl in H.
  destruct (Ir.b_preds j); [done|discriminate].
Qed.
End Facts.
