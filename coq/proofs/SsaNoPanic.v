(* C01 (on top of C14's construction mirror Model.Ssa): the SSA construction never
   reaches one of its assert!/expect sites ([SPanic]) on a graph whose variables are
   still unversioned and whose dominator-tree children lists describe a tree.

   Sites (control_flow_graph/ssa_impl.rs, static_single_assignment/mod.rs):
     assert!(name.version().is_none()) / assert!(var.version().is_none())   renaming
     expect("invalid block index during SSA generation")                    tree walk
     basic_blocks[current_index] / basic_blocks[frontier_index]             phi insertion
   [SFuel] (the fuelled work list and tree recursion of the mirror) and
   [SErrUndefined] (a genuine error report) are not excluded here. *)
From Coq Require Import ZArith NArith List Bool Lia Arith.
Require Import Model.Base Model.Ir Model.SsaCheck Model.Ssa Proofs.IrInd.
Require Export Model.SsaPre.
Import ListNotations.

Definition np {A} (m : ssa_result A) : Prop := m <> SPanic.

Lemma np_bind {A B} (m : ssa_result A) (f : A -> ssa_result B) :
  np m -> (forall a, m = SOk a -> np (f a)) -> np (sbind m f).
Proof. unfold np. intros Hm Hf. destruct m; simpl; try discriminate; auto. Qed.

Definition isnone {A} (o : option A) : bool := match o with None => true | Some _ => false end.

(* every variable occurrence that the renaming asserts on is unversioned; the
   arguments of a phi expression are never visited *)
Fixpoint expr_unv (e : expr) : bool :=
  let fix l_unv (es : list expr) : bool :=
      match es with [] => true | x :: tl => expr_unv x && l_unv tl end in
  let fix a_unv (acc : list (access expr)) : bool :=
      match acc with
      | [] => true
      | AComp _ :: tl => a_unv tl
      | AIdx x :: tl => expr_unv x && a_unv tl
      end in
  match e with
  | ENum _ _ | EPhi _ _ => true
  | EVar v _ => isnone (vn_version v)
  | EInfix _ l r _ => expr_unv l && expr_unv r
  | EPrefix _ x _ => expr_unv x
  | ESwitch c t f _ => expr_unv c && expr_unv t && expr_unv f
  | ECall _ args _ => l_unv args
  | EArray vs _ => l_unv vs
  | EAccess v acc _ => isnone (vn_version v) && a_unv acc
  | EUpdate v acc rhe _ => isnone (vn_version v) && a_unv acc && expr_unv rhe
  end.

Fixpoint list_unv (es : list expr) : bool :=
  match es with [] => true | x :: tl => expr_unv x && list_unv tl end.
Fixpoint acc_unv (acc : list (access expr)) : bool :=
  match acc with
  | [] => true
  | AComp _ :: tl => acc_unv tl
  | AIdx x :: tl => expr_unv x && acc_unv tl
  end.

Lemma expr_unv_call n args k : expr_unv (ECall n args k) = list_unv args.
Proof. reflexivity. Qed.
Lemma expr_unv_array vs k : expr_unv (EArray vs k) = list_unv vs.
Proof. reflexivity. Qed.
Lemma expr_unv_access v acc k : expr_unv (EAccess v acc k) = isnone (vn_version v) && acc_unv acc.
Proof. reflexivity. Qed.
Lemma expr_unv_update v acc rhe k :
  expr_unv (EUpdate v acc rhe k) = isnone (vn_version v) && acc_unv acc && expr_unv rhe.
Proof. reflexivity. Qed.

Section Rename.
Variable decls : list (vname * vtype).

(* the inner loops of ssa_expr as top-level functions *)
Fixpoint ssa_list (env : senv) (es : list expr) : ssa_result (list expr * senv) :=
  match es with
  | [] => SOk ([], env)
  | x :: tl =>
    r <~ ssa_expr decls env x ;; let '(x', env1) := r in
    t <~ ssa_list env1 tl ;; let '(tl', env2) := t in SOk (x' :: tl', env2)
  end.
Fixpoint ssa_acc (env : senv) (acc : list (access expr)) : ssa_result (list (access expr) * senv) :=
  match acc with
  | [] => SOk ([], env)
  | AComp n :: tl => t <~ ssa_acc env tl ;; let '(tl', env2) := t in SOk (AComp n :: tl', env2)
  | AIdx x :: tl =>
    r <~ ssa_expr decls env x ;; let '(x', env1) := r in
    t <~ ssa_acc env1 tl ;; let '(tl', env2) := t in SOk (AIdx x' :: tl', env2)
  end.

Lemma ssa_expr_call env n args k :
  ssa_expr decls env (ECall n args k) =
  (a <~ ssa_list env args ;; let '(args', env1) := a in SOk (ECall n args' k, env1)).
Proof. reflexivity. Qed.
Lemma ssa_expr_array env vs k :
  ssa_expr decls env (EArray vs k) =
  (a <~ ssa_list env vs ;; let '(vs', env1) := a in SOk (EArray vs' k, env1)).
Proof. reflexivity. Qed.

Lemma ssa_acc_eq : forall acc env,
  (fix ssa_acc (env : senv) (acc : list (access expr)) {struct acc} : ssa_result (list (access expr) * senv) :=
      match acc with
      | [] => SOk ([], env)
      | AComp n :: tl => t <~ ssa_acc env tl ;; let '(tl', env2) := t in SOk (AComp n :: tl', env2)
      | AIdx x :: tl =>
        r <~ ssa_expr decls env x ;; let '(x', env1) := r in
        t <~ ssa_acc env1 tl ;; let '(tl', env2) := t in SOk (AIdx x' :: tl', env2)
      end) env acc = ssa_acc env acc.
Proof. reflexivity. Qed.

Lemma rename_read_np env v : vn_version v = None -> np (rename_read decls env v).
Proof.
  intros H. unfold rename_read. rewrite H. destruct (is_local_in decls v); [|discriminate].
  destruct (cur_version env v); discriminate.
Qed.

Lemma isnone_true {A} (o : option A) : isnone o = true -> o = None.
Proof. destruct o; [discriminate|reflexivity]. Qed.

Lemma ssa_expr_np : forall e env, expr_unv e = true -> np (ssa_expr decls env e).
Proof.
  induction e as [z k|v k|op l r k IHl IHr|op x k IHx|c t f k IHc IHt IHf|n args k IH|vs k IH
                 |v acc k IH|v acc rhe k IH IHr|args k] using expr_ind'; intros env H.
  - discriminate.
  - simpl in *. destruct (is_local_in decls v); [|discriminate].
    apply np_bind; [apply rename_read_np; apply isnone_true; exact H|]. intros; discriminate.
  - simpl in H. apply andb_prop in H. destruct H as [H1 H2]. simpl.
    apply np_bind; [apply IHl; exact H1|]. intros [l' env1] _.
    apply np_bind; [apply IHr; exact H2|]. intros [r' env2] _. discriminate.
  - simpl in H. simpl. apply np_bind; [apply IHx; exact H|]. intros [x' env1] _. discriminate.
  - simpl in H. apply andb_prop in H. destruct H as [H H3]. apply andb_prop in H. destruct H as [H1 H2]. simpl.
    apply np_bind; [apply IHc; exact H1|]. intros [c' env1] _.
    apply np_bind; [apply IHt; exact H2|]. intros [t' env2] _.
    apply np_bind; [apply IHf; exact H3|]. intros [f' env3] _. discriminate.
  - rewrite expr_unv_call in H. rewrite ssa_expr_call.
    apply np_bind; [|intros [a e1] _; discriminate].
    revert env H. induction IH as [|x tl Hx _ IHtl]; intros env H; simpl; [discriminate|].
    simpl in H. apply andb_prop in H. destruct H as [H1 H2].
    apply np_bind; [apply Hx; exact H1|]. intros [x' env1] _.
    apply np_bind; [apply IHtl; exact H2|]. intros [tl' env2] _. discriminate.
  - rewrite expr_unv_array in H. rewrite ssa_expr_array.
    apply np_bind; [|intros [a e1] _; discriminate].
    revert env H. induction IH as [|x tl Hx _ IHtl]; intros env H; simpl; [discriminate|].
    simpl in H. apply andb_prop in H. destruct H as [H1 H2].
    apply np_bind; [apply Hx; exact H1|]. intros [x' env1] _.
    apply np_bind; [apply IHtl; exact H2|]. intros [tl' env2] _. discriminate.
  - rewrite expr_unv_access in H. apply andb_prop in H. destruct H as [Hv Ha].
    simpl. rewrite ssa_acc_eq.
    assert (Hacc : forall env, np (ssa_acc env acc)).
    { clear env. induction acc as [|[x|n] tl IHtl]; intros env; simpl; [discriminate| |].
      - simpl in Ha. apply andb_prop in Ha. destruct Ha as [H1 H2]. simpl in IH. inversion IH as [|? ? Hx Htl]; subst.
        apply np_bind; [apply Hx; exact H1|]. intros [x' env1] _.
        apply np_bind; [apply IHtl; assumption|]. intros [tl' env2] _. discriminate.
      - simpl in Ha. simpl in IH. apply np_bind; [apply IHtl; assumption|]. intros [tl' env2] _. discriminate. }
    apply np_bind; [apply Hacc|]. intros [acc' env1] _.
    destruct (is_local_in decls v); [|discriminate].
    apply np_bind; [apply rename_read_np; apply isnone_true; exact Hv|]. intros; discriminate.
  - rewrite expr_unv_update in H. apply andb_prop in H. destruct H as [H Hr]. apply andb_prop in H. destruct H as [Hv Ha].
    simpl. 
    apply np_bind; [apply IHr; exact Hr|]. intros [rhe' env1] _.
    rewrite ssa_acc_eq.
    assert (Hacc : forall env, np (ssa_acc env acc)).
    { clear env env1. induction acc as [|[x|n] tl IHtl]; intros env; simpl; [discriminate| |].
      - simpl in Ha. apply andb_prop in Ha. destruct Ha as [H1 H2]. simpl in IH. inversion IH as [|? ? Hx Htl]; subst.
        apply np_bind; [apply Hx; exact H1|]. intros [x' env2] _.
        apply np_bind; [apply IHtl; assumption|]. intros [tl' env3] _. discriminate.
      - simpl in Ha. simpl in IH. apply np_bind; [apply IHtl; assumption|]. intros [tl' env2] _. discriminate. }
    apply np_bind; [apply Hacc|]. intros [acc' env2] _.
    destruct (is_local_in decls v); [|discriminate].
    rewrite (isnone_true _ Hv). destruct (cur_version env2 v); [discriminate|].
    destruct (next_version env2 v). discriminate.
  - discriminate.
Qed.
End Rename.

(* ------------------------------------------------------------------------ *)
(* statements and blocks                                                     *)
(* ------------------------------------------------------------------------ *)

Definition logarg_unv (a : logarg) : bool := match a with LStr => true | LExpr e => expr_unv e end.

Definition stmt_unv (s : stmt) : bool :=
  match s with
  | SDecl _ _ _ dims => list_unv dims
  | SSubst _ v _ rhe _ _ => isnone (vn_version v) && expr_unv rhe
  | SCeq _ l r => expr_unv l && expr_unv r
  | SLog _ args => forallb logarg_unv args
  | SIf _ c _ _ => expr_unv c
  | SRet _ e => expr_unv e
  | SAssert _ e => expr_unv e
  end.

Definition block_unv (b : block) : bool := forallb stmt_unv (b_stmts b).

Section Rename2.
Variable decls : list (vname * vtype).

Lemma ssa_exprs_np : forall es env, list_unv es = true -> np (ssa_exprs decls env es).
Proof.
  induction es as [|x tl IH]; intros env H; simpl; [discriminate|].
  simpl in H. apply andb_prop in H. destruct H as [H1 H2].
  apply np_bind; [apply ssa_expr_np; exact H1|]. intros [x' env1] _.
  apply np_bind; [apply IH; exact H2|]. intros [tl' env2] _. discriminate.
Qed.

Lemma ssa_logargs_np : forall es env, forallb logarg_unv es = true -> np (ssa_logargs decls env es).
Proof.
  induction es as [|[|x] tl IH]; intros env H; simpl; [discriminate| |].
  - simpl in H. apply np_bind; [apply IH; exact H|]. intros [tl' env2] _. discriminate.
  - simpl in H. apply andb_prop in H. destruct H as [H1 H2].
    apply np_bind; [apply ssa_expr_np; exact H1|]. intros [x' env1] _.
    apply np_bind; [apply IH; exact H2|]. intros [tl' env2] _. discriminate.
Qed.

Lemma ssa_stmt_np s env : stmt_unv s = true -> np (ssa_stmt decls env s).
Proof.
  destruct s as [m names t dims|m c t f|m e|m v op rhe sval stype|m l r|m args|m e]; simpl; intros H.
  - apply np_bind; [apply ssa_exprs_np; exact H|]. intros [d e1] _. discriminate.
  - apply np_bind; [apply ssa_expr_np; exact H|]. intros [d e1] _. discriminate.
  - apply np_bind; [apply ssa_expr_np; exact H|]. intros [d e1] _. discriminate.
  - apply andb_prop in H. destruct H as [Hv Hr]. rewrite (isnone_true _ Hv).
    apply np_bind; [apply ssa_expr_np; exact Hr|]. intros [rhe' env1] _.
    destruct (is_local_in decls v); [|discriminate]. destruct (next_version env1 v). discriminate.
  - apply andb_prop in H. destruct H as [H1 H2].
    apply np_bind; [apply ssa_expr_np; exact H1|]. intros [l' env1] _.
    apply np_bind; [apply ssa_expr_np; exact H2|]. intros [r' env2] _. discriminate.
  - apply np_bind; [apply ssa_logargs_np; exact H|]. intros [d e1] _. discriminate.
  - apply np_bind; [apply ssa_expr_np; exact H|]. intros [d e1] _. discriminate.
Qed.

Lemma ssa_stmts_np : forall ss env, forallb stmt_unv ss = true -> np (ssa_stmts decls env ss).
Proof.
  induction ss as [|s tl IH]; intros env H; simpl; [discriminate|].
  simpl in H. apply andb_prop in H. destruct H as [H1 H2].
  apply np_bind; [apply ssa_stmt_np; exact H1|]. intros [s' env1] _.
  apply np_bind; [apply IH; exact H2|]. intros [tl' env2] _. discriminate.
Qed.
End Rename2.

(* ------------------------------------------------------------------------ *)
(* list updates                                                              *)
(* ------------------------------------------------------------------------ *)

Lemma update_nth_length {A} (f : A -> A) : forall l i, length (update_nth l i f) = length l.
Proof. induction l as [|x tl IH]; intros [|j]; simpl; auto. Qed.

Lemma update_nth_other {A} (f : A -> A) : forall l i j, i <> j -> nth_error (update_nth l i f) j = nth_error l j.
Proof.
  induction l as [|x tl IH]; intros [|i] [|j] H; simpl; auto; try congruence; try (apply IH; congruence).
Qed.

Lemma update_nth_same {A} (f : A -> A) : forall l i x, nth_error l i = Some x ->
  nth_error (update_nth l i f) i = Some (f x).
Proof.
  induction l as [|y tl IH]; intros [|i] x H; simpl in *; try discriminate.
  - inversion H. reflexivity.
  - apply IH. exact H.
Qed.

(* a property of blocks that an update keeps *)
Lemma update_nth_keeps {A} (P : A -> Prop) (f : A -> A) : (forall x, P x -> P (f x)) ->
  forall l i j x, nth_error (update_nth l i f) j = Some x ->
  exists y, nth_error l j = Some y /\ (P y -> P x).
Proof.
  intros Hf l i j x H. destruct (Nat.eq_dec i j) as [->|Hne].
  - destruct (nth_error l j) as [y|] eqn:E.
    + rewrite (update_nth_same f l j y E) in H. inversion H. subst. eauto.
    + exfalso. apply nth_error_None in E. assert (j < length (update_nth l j f)) by (apply nth_error_Some; congruence).
      rewrite update_nth_length in H0. lia.
  - rewrite update_nth_other in H by exact Hne. eauto.
Qed.

(* ------------------------------------------------------------------------ *)
(* phi insertion                                                             *)
(* ------------------------------------------------------------------------ *)

Lemma phi_stmt_unv v : stmt_unv (phi_stmt_for v) = true.
Proof. reflexivity. Qed.

Lemma add_phis_unv : forall vars b n, block_unv b = true -> block_unv (fst (add_phis vars b n)) = true.
Proof.
  induction vars as [|v tl IH]; intros b n H; simpl; [exact H|].
  destruct (existsb (is_phi_for v) (b_stmts b)); apply IH; [exact H|].
  unfold block_unv in *. simpl. exact H.
Qed.

Definition all_unv (bs : list block) : Prop := forall i b, nth_error bs i = Some b -> block_unv b = true.

Lemma all_unv_update bs i f : all_unv bs -> (forall b, block_unv b = true -> block_unv (f b) = true) ->
  all_unv (update_nth bs i f).
Proof.
  intros H Hf j b Hj.
  destruct (update_nth_keeps (fun b => block_unv b = true) f Hf bs i j b Hj) as (y & Hy & Himp).
  apply Himp. eapply H. exact Hy.
Qed.

Lemma process_frontier_inv vars : forall fr bs work,
  all_unv bs -> Forall (fun i => i < length bs) work ->
  let r := process_frontier vars fr bs work in
  all_unv (fst r) /\ length (fst r) = length bs /\ Forall (fun i => i < length bs) (snd r).
Proof.
  induction fr as [|f tl IH]; intros bs work Hu Hw; simpl; [auto|].
  destruct (nth_error bs (N.to_nat f)) as [b|] eqn:E; [|apply IH; assumption].
  destruct (add_phis vars b 0) as [b' pushes] eqn:Ea.
  assert (Hb' : block_unv b' = true).
  { change b' with (fst (b', pushes)). rewrite <- Ea. apply add_phis_unv. eapply Hu. exact E. }
  set (bs' := update_nth bs (N.to_nat f) (fun _ => b')).
  assert (Hl : length bs' = length bs) by apply update_nth_length.
  destruct (IH bs' (repeat (N.to_nat f) pushes ++ work)) as (I1 & I2 & I3).
  - apply all_unv_update; [exact Hu|]. intros _ _. exact Hb'.
  - rewrite Hl. apply Forall_app. split; [|exact Hw].
    apply Forall_forall. intros x Hx. apply repeat_spec in Hx. subst x.
    apply nth_error_Some. congruence.
  - split; [exact I1|]. split; [congruence|]. rewrite <- Hl. exact I3.
Qed.

Lemma insert_phis_np frontier : forall fuel bs work,
  all_unv bs -> Forall (fun i => i < length bs) work ->
  np (insert_phis fuel frontier bs work) /\
  forall bs', insert_phis fuel frontier bs work = SOk bs' -> all_unv bs' /\ length bs' = length bs.
Proof.
  induction fuel as [|fuel IH]; intros bs work Hu Hw.
  - destruct work; simpl; split; try discriminate. intros bs' [= <-]. auto.
  - destruct work as [|cur rest]; simpl; [split; [discriminate|intros bs' [= <-]; auto]|].
    inversion Hw as [|? ? Hc Hr]; subst.
    destruct (nth_error bs cur) as [b|] eqn:E; [|apply nth_error_None in E; lia].
    destruct (vars_written b) as [|v vs] eqn:Ev; [apply IH; assumption|].
    destruct (process_frontier (v :: vs) (nth cur frontier []) bs rest) as [bs1 work1] eqn:Ep.
    pose proof (process_frontier_inv (v :: vs) (nth cur frontier []) bs rest Hu Hr) as Hinv.
    rewrite Ep in Hinv. simpl in Hinv. destruct Hinv as (I1 & I2 & I3).
    destruct (IH bs1 work1 I1) as [N1 N2]; [rewrite I2; exact I3|].
    split; [exact N1|]. intros bs' Hs. destruct (N2 bs' Hs) as [A B]. split; [exact A|congruence].
Qed.

(* ------------------------------------------------------------------------ *)
(* renaming along the dominator tree                                         *)
(* ------------------------------------------------------------------------ *)

Definition unv_at (bs : list block) (i : nat) : Prop :=
  exists b, nth_error bs i = Some b /\ block_unv b = true.

Lemma unv_at_update bs i f j : (forall b, block_unv b = true -> block_unv (f b) = true) ->
  unv_at bs j -> unv_at (update_nth bs i f) j.
Proof.
  intros Hf (b & Hb & Hu). destruct (Nat.eq_dec i j) as [->|Hne].
  - exists (f b). split; [apply update_nth_same; exact Hb|apply Hf; exact Hu].
  - exists b. split; [rewrite update_nth_other by exact Hne; exact Hb|exact Hu].
Qed.

Lemma unv_at_update_other bs i (f : block -> block) j : i <> j -> unv_at bs j -> unv_at (update_nth bs i f) j.
Proof. intros Hne (b & Hb & Hu). exists b. split; [rewrite update_nth_other by exact Hne; exact Hb|exact Hu]. Qed.

Lemma ensure_phi_arg_unv env s : stmt_unv (ensure_phi_arg env s) = stmt_unv s.
Proof.
  destruct s as [m names t dims|m c t f|m e|m v op rhe sval stype|m l r|m args|m e]; try reflexivity.
  destruct rhe; try reflexivity. unfold ensure_phi_arg.
  destruct (cur_version env v);
    match goal with |- context [if ?c then _ else _] => destruct c end; reflexivity.
Qed.

Lemma update_phis_unv env : forall ss, forallb stmt_unv (update_phis env ss) = forallb stmt_unv ss.
Proof.
  induction ss as [|s tl IH]; simpl; [reflexivity|].
  destruct (is_phi_stmt s); [|reflexivity]. simpl. rewrite ensure_phi_arg_unv, IH. reflexivity.
Qed.

Lemma update_succ_phis_inv env : forall succs bs,
  length (update_succ_phis env succs bs) = length bs /\
  forall i, unv_at bs i -> unv_at (update_succ_phis env succs bs) i.
Proof.
  induction succs as [|s tl IH]; intros bs; simpl; [auto|].
  set (bs1 := update_nth bs (N.to_nat s) (fun b => set_stmts b (update_phis env (b_stmts b)))).
  destruct (IH bs1) as [L U]. split.
  - rewrite L. apply update_nth_length.
  - intros i Hi. apply U. apply unv_at_update; [|exact Hi].
    intros b Hb. unfold block_unv in *. simpl. rewrite update_phis_unv. exact Hb.
Qed.

Fixpoint rename_kids (fuel' : nat) (decls : list (vname * vtype)) (children : list (list N))
         (kids : list N) (bs : list block) (env : senv) : ssa_result (list block * senv) :=
  match kids with
  | [] => SOk (bs, env)
  | k :: tl =>
    r <~ rename_tree fuel' decls children (N.to_nat k) bs (push_scope env) ;;
    let '(bs', env') := r in
    rename_kids fuel' decls children tl bs' (pop_scope env')
  end.

Lemma rename_tree_unfold fuel' decls children cur bs env :
  rename_tree (S fuel') decls children cur bs env =
  match nth_error bs cur with
  | None => SPanic
  | Some b =>
    r <~ ssa_stmts decls env (b_stmts b) ;;
    let '(ss', env1) := r in
    rename_kids fuel' decls children (nth cur children [])
                (update_succ_phis env1 (b_succs b) (update_nth bs cur (fun b0 => set_stmts b0 ss'))) env1
  end.
Proof.
  simpl. destruct (nth_error bs cur) as [b|]; [|reflexivity].
  destruct (ssa_stmts decls env (b_stmts b)) as [[ss' env1]| | |]; simpl; try reflexivity.
  generalize (update_succ_phis env1 (b_succs b) (update_nth bs cur (fun b0 => set_stmts b0 ss'))).
  generalize env1. induction (nth cur children []) as [|k tl IH]; intros e l; simpl; [reflexivity|].
  destruct (rename_tree fuel' decls children (N.to_nat k) l (push_scope e)) as [[bs' env']| | |]; simpl; try reflexivity.
  apply IH.
Qed.

Lemma NoDup_app_disjoint {A} (l r : list A) : NoDup (l ++ r) -> forall x, In x l -> ~ In x r.
Proof.
  induction l as [|a l IH]; simpl; intros H x Hx; [contradiction|].
  inversion H as [|? ? Hn Hd]; subst. destruct Hx as [->|Hx].
  - intros Hr. apply Hn. apply in_or_app. right. exact Hr.
  - apply IH; assumption.
Qed.

Lemma NoDup_app_l {A} (l r : list A) : NoDup (l ++ r) -> NoDup l.
Proof.
  induction l as [|a l IH]; simpl; intros H; [constructor|].
  inversion H as [|? ? Hn Hd]; subst. constructor; [|apply IH; exact Hd].
  intros Hin. apply Hn. apply in_or_app. left. exact Hin.
Qed.
Lemma NoDup_app_r {A} (l r : list A) : NoDup (l ++ r) -> NoDup r.
Proof. induction l as [|a l IH]; simpl; intros H; [exact H|]. inversion H; subst. apply IH. assumption. Qed.

Section Tree.
Variable decls : list (vname * vtype).
Variable children : list (list N).

Definition tree_post (visited : list nat) (bs bs' : list block) : Prop :=
  length bs' = length bs /\ forall i, ~ In i visited -> unv_at bs i -> unv_at bs' i.

Lemma rename_tree_np : forall fuel cur bs env,
  NoDup (preorder fuel children cur) ->
  (forall i, In i (preorder fuel children cur) -> unv_at bs i) ->
  np (rename_tree fuel decls children cur bs env) /\
  forall bs' env', rename_tree fuel decls children cur bs env = SOk (bs', env') ->
    tree_post (preorder fuel children cur) bs bs'.
Proof.
  induction fuel as [|fuel IH]; intros cur bs env Hnd Hunv.
  - simpl. split; discriminate.
  - rewrite rename_tree_unfold. simpl preorder in *.
    inversion Hnd as [|? ? Hcur Hkids]; subst.
    destruct (Hunv cur (or_introl eq_refl)) as (b & Hb & Hbu). rewrite Hb.
    pose proof (ssa_stmts_np decls (b_stmts b) env Hbu) as Hss.
    destruct (ssa_stmts decls env (b_stmts b)) as [[ss' env1]| | |] eqn:Es; simpl;
      try (split; [discriminate|intros; discriminate]); [|exfalso; apply Hss; reflexivity].
    set (bs1 := update_nth bs cur (fun b0 => set_stmts b0 ss')).
    set (bs2 := update_succ_phis env1 (b_succs b) bs1).
    assert (L2 : length bs2 = length bs).
    { unfold bs2. rewrite (proj1 (update_succ_phis_inv env1 (b_succs b) bs1)). apply update_nth_length. }
    assert (U2 : forall i, i <> cur -> unv_at bs i -> unv_at bs2 i).
    { intros i Hi Hu. apply (proj2 (update_succ_phis_inv env1 (b_succs b) bs1)).
      apply unv_at_update_other; [congruence|exact Hu]. }
    (* the loop over the children *)
    assert (G : forall kids bsk envk,
               NoDup (flat_map (fun k => preorder fuel children (N.to_nat k)) kids) ->
               (forall i, In i (flat_map (fun k => preorder fuel children (N.to_nat k)) kids) -> unv_at bsk i) ->
               np (rename_kids fuel decls children kids bsk envk) /\
               forall bs' env', rename_kids fuel decls children kids bsk envk = SOk (bs', env') ->
                 tree_post (flat_map (fun k => preorder fuel children (N.to_nat k)) kids) bsk bs').
    { induction kids as [|k tl IHk]; intros bsk envk Hn Hu; simpl.
      - split; [discriminate|]. intros bs' env' [= <- <-]. split; [reflexivity|auto].
      - simpl in Hn, Hu.
        pose proof (NoDup_app_r _ _ Hn) as Hntl.
        pose proof (NoDup_app_l _ _ Hn) as Hnk.
        destruct (IH (N.to_nat k) bsk (push_scope envk) Hnk) as [N1 P1].
        { intros i Hi. apply Hu. apply in_or_app. left. exact Hi. }
        destruct (rename_tree fuel decls children (N.to_nat k) bsk (push_scope envk)) as [[bsa enva]| | |] eqn:Er; simpl;
          try (split; [discriminate|intros; discriminate]); [|exfalso; apply N1; reflexivity].
        destruct (P1 bsa enva eq_refl) as [La Ua].
        destruct (IHk bsa (pop_scope enva) Hntl) as [N2 P2].
        { intros i Hi. apply Ua; [|apply Hu; apply in_or_app; right; exact Hi].
          intros Hin. exact (NoDup_app_disjoint _ _ Hn i Hin Hi). }
        split; [exact N2|]. intros bs' env' Hs. destruct (P2 bs' env' Hs) as [Lb Ub].
        split; [congruence|]. intros i Hi Hui. apply Ub.
        + intros Hin. apply Hi. apply in_or_app. right. exact Hin.
        + apply Ua; [|exact Hui]. intros Hin. apply Hi. apply in_or_app. left. exact Hin. }
    destruct (G (nth cur children []) bs2 env1 Hkids) as [N3 P3].
    { intros i Hi. apply U2; [intros ->; exact (Hcur Hi)|]. apply Hunv. right. exact Hi. }
    split; [exact N3|]. intros bs' env' Hs. destruct (P3 bs' env' Hs) as [Lc Uc].
    split; [congruence|]. intros i Hi Hui. apply Uc.
    + intros Hin. apply Hi. right. exact Hin.
    + apply U2; [|exact Hui]. intros ->. apply Hi. left. reflexivity.
Qed.
End Tree.

(* ------------------------------------------------------------------------ *)
(* into_ssa                                                                  *)
(* ------------------------------------------------------------------------ *)

(* the hypotheses: no variable of the graph carries a version yet (IR lifting builds
   names with from_string / with_suffix only), and the children lists of the
   dominator tree describe a tree below block 0 whose nodes are blocks of the graph
   (C15: a block is a child of its unique immediate dominator, which strictly
   dominates it) *)
Definition unversioned (c : cfg) : Prop := all_unv (c_blocks c).
Definition children_tree (children : list (list N)) (n : nat) : Prop :=
  NoDup (preorder (S n) children 0) /\ forall i, In i (preorder (S n) children 0) -> i < n.

Theorem into_ssa_never_panics frontier children c :
  unversioned c -> children_tree children (length (c_blocks c)) ->
  into_ssa frontier children c <> SPanic.
Proof.
  intros Hu [Hnd Hin]. change (np (into_ssa frontier children c)). unfold into_ssa.
  set (n := length (c_blocks c)) in *.
  set (fuel := S (n * n * S (length (c_decls c)) + n)).
  set (env0 := fold_left (fun env x => snd (next_version env x)) (c_params c) {| se_global := []; se_scoped := [[]] |}).
  destruct (insert_phis_np frontier fuel (c_blocks c) (rev (seq 0 n)) Hu) as [N1 P1].
  { apply Forall_forall. intros x Hx. apply in_rev in Hx. apply in_seq in Hx. fold n. lia. }
  apply np_bind; [exact N1|]. intros bs1 E1.
  destruct (P1 bs1 E1) as [U1 L1]. fold n in L1.
  apply np_bind.
  - apply (rename_tree_np (c_decls c) children (S n) 0 bs1 env0 Hnd).
    intros i Hi. specialize (Hin i Hi).
    destruct (nth_error bs1 i) as [b|] eqn:Eb; [|apply nth_error_None in Eb; lia].
    exists b. split; [exact Eb|]. eapply U1. exact Eb.
  - intros [bs2 env] _. intros Hx. discriminate Hx.
Qed.

(* ------------------------------------------------------------------------ *)
(* [children_tree] from three order facts about the children lists           *)
(* ------------------------------------------------------------------------ *)

Lemma NoDup_app_intro {A} (l r : list A) :
  NoDup l -> NoDup r -> (forall x, In x l -> ~ In x r) -> NoDup (l ++ r).
Proof.
  induction l as [|a l IH]; simpl; intros Hl Hr Hd; [exact Hr|].
  inversion Hl as [|? ? Ha Hl']; subst. constructor.
  - intros Hin. apply in_app_or in Hin. destruct Hin as [Hin|Hin]; [exact (Ha Hin)|].
    exact (Hd a (or_introl eq_refl) Hin).
  - apply IH; [exact Hl'|exact Hr|]. intros x Hx. apply Hd. right. exact Hx.
Qed.

Lemma NoDup_flat_map {A B} (g : A -> list B) : forall l,
  NoDup l -> (forall a, In a l -> NoDup (g a)) ->
  (forall a b x, In a l -> In b l -> a <> b -> In x (g a) -> ~ In x (g b)) ->
  NoDup (flat_map g l).
Proof.
  induction l as [|a l IH]; intros Hl Hg Hd; simpl; [constructor|].
  inversion Hl as [|? ? Ha Hl']; subst.
  apply NoDup_app_intro.
  - apply Hg. left. reflexivity.
  - apply IH; [exact Hl'|intros; apply Hg; right; assumption|].
    intros a0 b x Ha0 Hb. apply Hd; right; assumption.
  - intros x Hx Hin. apply in_flat_map in Hin. destruct Hin as (b & Hb & Hxb).
    apply (Hd a b x (or_introl eq_refl) (or_intror Hb)); [intros ->; exact (Ha Hb)|exact Hx|exact Hxb].
Qed.

(* What C15 and C12 state about the dominator tree, in list form:
     kid_range   a child is a block of the graph and has a larger index than its
                 parent (the parent strictly dominates it, C15_idom_exact;
                 dominance implies <=, C12_dom_implies_le)
     kid_nodup   a children list has no duplicates (it enumerates a set)
     kid_parent  a block is a child of at most one block (children invert the
                 immediate-dominator function, C15_dom_tree_children_invert_idom) *)
Section TreeShape.
Variable children : list (list N).
Variable n : nat.
Definition kids (j : nat) : list nat := map N.to_nat (nth j children []).

Hypothesis kid_range : forall j k, In k (kids j) -> j < k /\ k < n.
Hypothesis kid_nodup : forall j, NoDup (kids j).
Hypothesis kid_parent : forall j j' k, In k (kids j) -> In k (kids j') -> j = j'.

Lemma preorder_step f cur : preorder (S f) children cur = cur :: flat_map (preorder f children) (kids cur).
Proof.
  simpl. f_equal. unfold kids. induction (nth cur children []) as [|k tl IH]; simpl; [reflexivity|].
  rewrite IH. reflexivity.
Qed.

Lemma sub_ge : forall f k x, In x (preorder f children k) -> k <= x.
Proof.
  induction f as [|f IH]; intros k x H; [contradiction|].
  rewrite preorder_step in H. destruct H as [->|H]; [lia|].
  apply in_flat_map in H. destruct H as (c & Hc & Hx).
  apply IH in Hx. destruct (kid_range k c Hc). lia.
Qed.

Lemma sub_lt : forall f k x, k < n -> In x (preorder f children k) -> x < n.
Proof.
  induction f as [|f IH]; intros k x Hk H; [contradiction|].
  rewrite preorder_step in H. destruct H as [->|H]; [exact Hk|].
  apply in_flat_map in H. destruct H as (c & Hc & Hx).
  apply (IH c x); [apply (kid_range k c Hc)|exact Hx].
Qed.

(* the parent of a proper descendant of r lies in the subtree of r *)
Lemma sub_parent : forall f r x p, In x (preorder f children r) -> x <> r -> In x (kids p) ->
  In p (preorder f children r).
Proof.
  induction f as [|f IH]; intros r x p H Hne Hp; [contradiction|].
  rewrite preorder_step in H |- *. destruct H as [->|H]; [congruence|].
  apply in_flat_map in H. destruct H as (c & Hc & Hx).
  destruct (Nat.eq_dec x c) as [->|Hxc].
  - left. exact (kid_parent _ _ _ Hc Hp).
  - right. apply in_flat_map. exists c. split; [exact Hc|]. exact (IH c x p Hx Hxc Hp).
Qed.

Lemma sub_self_or_child f r x : In x (preorder (S f) children r) ->
  x = r \/ exists c, In c (kids r) /\ In x (preorder f children c).
Proof.
  rewrite preorder_step. intros [->|H]; [left; reflexivity|].
  apply in_flat_map in H. destruct H as (c & Hc & Hx). right. eauto.
Qed.

Lemma sub_mono f r c x : In c (kids r) -> In x (preorder f children c) -> In x (preorder (S f) children r).
Proof. intros Hc Hx. rewrite preorder_step. right. apply in_flat_map. eauto. Qed.

(* two subtrees that meet are nested *)
Lemma sub_meet : forall f k k' x, k <> k' ->
  In x (preorder f children k) -> In x (preorder f children k') ->
  In k (preorder f children k') \/ In k' (preorder f children k).
Proof.
  induction f as [|f IH]; intros k k' x Hne H H'; [contradiction|].
  destruct (sub_self_or_child f k x H) as [->|(c & Hc & Hx)]; [left; exact H'|].
  destruct (sub_self_or_child f k' x H') as [->|(c' & Hc' & Hx')]; [right; exact H|].
  destruct (Nat.eq_dec c c') as [->|Hcc]; [exfalso; apply Hne; exact (kid_parent _ _ _ Hc Hc')|].
  destruct (IH c c' x Hcc Hx Hx') as [Hin|Hin].
  - left. apply (sub_mono f k' c' k Hc'). exact (sub_parent f c' c k Hin Hcc Hc).
  - right. apply (sub_mono f k c k' Hc). apply (sub_parent f c c' k' Hin); [congruence|exact Hc'].
Qed.

Lemma preorder_nodup : forall f cur, NoDup (preorder f children cur).
Proof.
  induction f as [|f IH]; intros cur; [constructor|].
  rewrite preorder_step. constructor.
  - intros Hin. apply in_flat_map in Hin. destruct Hin as (c & Hc & Hx).
    apply sub_ge in Hx. destruct (kid_range cur c Hc). lia.
  - apply NoDup_flat_map; [apply kid_nodup|intros; apply IH|].
    intros c c' x Hc Hc' Hne Hx Hx'.
    destruct (sub_meet f c c' x Hne Hx Hx') as [Hin|Hin].
    + (* c is a proper descendant of c': its parent cur lies below c' *)
      pose proof (sub_parent f c' c cur Hin Hne Hc) as Hp. apply sub_ge in Hp.
      destruct (kid_range cur c' Hc'). lia.
    + pose proof (sub_parent f c c' cur Hin (fun e => Hne (eq_sym e)) Hc') as Hp. apply sub_ge in Hp.
      destruct (kid_range cur c Hc). lia.
Qed.

Theorem children_tree_of_order : 0 < n -> children_tree children n.
Proof.
  intros Hn. split; [apply preorder_nodup|]. intros i Hi. exact (sub_lt (S n) 0 i Hn Hi).
Qed.
End TreeShape.

(* the closed form used by C01: unversioned graph + the three order facts *)
Theorem into_ssa_never_panics_tree frontier children c :
  unversioned c -> 0 < length (c_blocks c) ->
  (forall j k, In k (kids children j) -> j < k /\ k < length (c_blocks c)) ->
  (forall j, NoDup (kids children j)) ->
  (forall j j' k, In k (kids children j) -> In k (kids children j') -> j = j') ->
  into_ssa frontier children c <> SPanic.
Proof.
  intros Hu Hn H1 H2 H3. apply into_ssa_never_panics; [exact Hu|].
  exact (children_tree_of_order children (length (c_blocks c)) H1 H2 H3 Hn).
Qed.
