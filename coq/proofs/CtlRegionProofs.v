(* Proofs for C09, fourth round: the branch regions and the closure of the tainted set under control dependence.

   Part 1 (all graphs, all region tables - a pure taint-propagation argument):
     - [region_taint_edge]: the mirror of run_taint_analysis records a taint step from every name read by a
       non-constant condition of block b to every name written in a block listed in the region of b;
     - [regions_give_ctl_closed]: region_covers br /\ self_closed es -> ctl_closed es, for the set es of names the
       mirror run with the table br finds tainted by an input/output signal, on every graph with distinct indices;
     - the fuel question: the closure loop of multi_step_taint terminates within its fuel on every relation
       (Proofs.TaintProofs.taint_fuel_suffices), hence [exported_sinks_total]: the tainted set always exists;
     - [region_covers_b_spec], [self_closed_b_spec]: the decidable forms decide the propositions;
       [ctl_closed_self_closed]: self_closed is a part of ctl_closed. *)
From Coq Require Import ZArith NArith List Bool Relations Lia.
Require Import Model.Base Model.Ir Model.VarUse Model.Taint Model.SideEffect
  Spec.SsaEffects Spec.CtlDep Spec.CtlRegion Proofs.TaintProofs Proofs.SideEffectProofs Proofs.CtlDepProofs.
Import ListNotations.

Lemma nmem_In x l : mem N.eqb x l = true <-> In x l.
Proof. apply mem_In. apply N.eqb_eq. Qed.

Lemma nodup_n_spec l : nodup_n l = true <-> NoDup l.
Proof.
  induction l as [|x r IH]; cbn [nodup_n].
  - split; [constructor | reflexivity].
  - rewrite andb_true_iff, negb_true_iff, IH. split.
    + intros [Hm Hr]. constructor; [|assumption]. intro Hin. apply nmem_In in Hin. congruence.
    + intro H. inversion H as [|? ? Hn Hr]; subst. split; [|assumption].
      destruct (mem N.eqb x r) eqn:E; [|reflexivity]. apply nmem_In in E. contradiction.
Qed.

Lemma indices_distinct_b_spec g : indices_distinct_b g = true <-> NoDup (map b_index (c_blocks g)).
Proof. apply nodup_n_spec. Qed.

Lemma get_block_unique bs yb : NoDup (map b_index bs) -> In yb bs -> get_block bs (b_index yb) = Some yb.
Proof.
  unfold get_block. induction bs as [|b r IH]; intros Hnd Hin; [destruct Hin|].
  cbn [map] in Hnd. inversion Hnd as [|? ? Hn Hr]; subst. cbn [find].
  destruct Hin as [->|Hin].
  - rewrite N.eqb_refl. reflexivity.
  - destruct (N.eqb (b_index b) (b_index yb)) eqn:E.
    + apply N.eqb_eq in E. exfalso. apply Hn. rewrite E. apply in_map. assumption.
    + apply IH; assumption.
Qed.

Section Part1.
  Variable g : cfg.
  Variable br : branches.
  Notation D := (c_decls g).
  Notation bs := (c_blocks g).
  Notation tm := (t_edges (run_taint_analysis g br)).

  (* the implicit-flow step of taint_stmt *)
  Lemma taint_stmt_if_edge bi st m c t f r i body x :
    expr_val c = None -> In r (uses_names (expr_uses D c)) ->
    In i (branch_blocks br bi) -> get_block bs i = Some body -> In x (block_writes D body) ->
    In (r, x) (t_edges (taint_stmt D bs br bi st (SIf m c t f))).
  Proof.
    intros Hv Hr Hi Hb Hx. cbn [taint_stmt]. rewrite Hv.
    apply fold_left_establish with (P := fun st' => In (r, x) (t_edges st')) (x := i); [| |assumption].
    - intros a b Ha. destruct (get_block bs b); [|assumption].
      apply fold_left_inv with (P := fun st' => In (r, x) (t_edges st')); [|assumption].
      intros a' b' Ha'. cbn [t_edges]. apply add_steps_mono. assumption.
    - intro a. rewrite Hb.
      apply fold_left_establish with (P := fun st' => In (r, x) (t_edges st')) (x := x); [| |assumption].
      + intros a' b' Ha'. cbn [t_edges]. apply add_steps_mono. assumption.
      + intro a'. cbn [t_edges]. apply add_steps_In. assumption.
  Qed.

  Lemma region_taint_edge blk m c t f r i body x :
    In blk bs -> In (SIf m c t f) (b_stmts blk) -> expr_val c = None -> In r (uses_names (expr_uses D c)) ->
    In i (branch_blocks br (b_index blk)) -> get_block bs i = Some body -> In x (block_writes D body) ->
    In (r, x) tm.
  Proof.
    intros Hblk Hs Hv Hr Hi Hb Hx. unfold run_taint_analysis.
    apply fold_left_establish with (P := fun st' => In (r, x) (t_edges st')) (x := blk); [| |assumption].
    - intros a b Ha. unfold taint_block.
      apply fold_left_inv with (P := fun st' => In (r, x) (t_edges st')); [|assumption].
      intros a' b' Ha'. apply taint_stmt_mono. assumption.
    - intro a. unfold taint_block.
      apply fold_left_establish with (P := fun st' => In (r, x) (t_edges st')) (x := SIf m c t f); [| |assumption].
      + intros a' b' Ha'. apply taint_stmt_mono. assumption.
      + intro a'. eapply taint_stmt_if_edge; eassumption.
  Qed.

  (* the tainted set is closed under single taint steps *)
  Lemma tainted_step_closed (tm0 : edges) es a b :
    exported_sinks g tm0 = Ok es -> In a es -> In (a, b) tm0 -> In b es.
  Proof.
    intros Hes Ha Hab. unfold exported_sinks in Hes. apply bind_Ok in Hes. destruct Hes as [l [Hl H]]. injection H as <-.
    apply in_concat in Ha. destruct Ha as [r [Hr Ha]].
    destruct (mapM_Ok_In_rev _ _ _ Hl _ Hr) as [sig [_ Hsig]].
    apply in_concat. exists r. split; [assumption|].
    apply (taint_closure_exact _ _ _ Hsig). eapply rt_trans; [apply (taint_closure_exact _ _ _ Hsig); exact Ha|].
    apply rt_step. exact Hab.
  Qed.

  Theorem regions_give_ctl_closed es :
    NoDup (map b_index bs) ->
    region_covers g br ->
    exported_sinks g tm = Ok es ->
    self_closed g es ->
    ctl_closed g es.
  Proof.
    intros Hnd Hcov Hes Hself a x Ha (blk & m & c & t & f & yb & Hblk & Hs & Hv & Hr & Hyb & Hctl & Hx).
    destruct (N.eq_dec (b_index yb) (b_index blk)) as [Heq|Hne].
    - eapply (Hself blk yb m c t f a x); eassumption.
    - assert (Hin : In (b_index yb) (branch_blocks br (b_index blk))).
      { apply (Hcov blk yb); try assumption. exists m, c, t, f. split; assumption. }
      eapply tainted_step_closed; [exact Hes | exact Ha |].
      apply (region_taint_edge blk m c t f a (b_index yb) yb x); try assumption. apply get_block_unique; assumption.
  Qed.
End Part1.

(* the closure loops never run out of fuel: the tainted set exists for every relation *)
Lemma mapM_total {A B} (f : A -> outcome B) l : (forall x, exists y, f x = Ok y) -> exists ys, mapM f l = Ok ys.
Proof.
  intro H. induction l as [|x r [ys IH]]; [exists []; reflexivity|].
  destruct (H x) as [y Hy]. exists (y :: ys). cbn [mapM]. rewrite Hy. cbn [bind]. rewrite IH. reflexivity.
Qed.

Lemma exported_sinks_total g tm0 : exists es, exported_sinks g tm0 = Ok es.
Proof.
  unfold exported_sinks.
  destruct (mapM_total (multi_step_taint tm0) (exported_signals g)) as [l Hl].
  - intro x. exact (proj1 (taint_fuel_suffices tm0 x)).
  - exists (concat l). rewrite Hl. reflexivity.
Qed.

(* ---------- the decidable forms ---------- *)
Section Decide.
  Variable g : cfg.
  Notation D := (c_decls g).
  Notation bs := (c_blocks g).

  Lemma nonconst_branch_b_spec blk : nonconst_branch_b blk = true <-> nonconst_branch blk.
  Proof.
    unfold nonconst_branch_b, nonconst_branch. rewrite existsb_exists. split.
    - intros [s [Hs H]].
      destruct s as [m names t dims|m c t f|m e|m v op rhe sv sty|m l r|m args|m e]; try discriminate.
      exists m, c, t, f. split; [assumption|]. destruct (expr_val c); [discriminate | reflexivity].
    - intros (m & c & t & f & Hs & Hv). exists (SIf m c t f). split; [assumption|]. rewrite Hv. reflexivity.
  Qed.

  Theorem region_covers_b_spec br : region_covers_b g br = true <-> region_covers g br.
  Proof.
    unfold region_covers_b, region_covers. split.
    - intros H blk yb Hblk Hyb Hnc Hctl Hne.
      rewrite forallb_forall in H. specialize (H blk Hblk).
      apply orb_true_iff in H. destruct H as [H|H].
      + apply negb_true_iff in H. apply nonconst_branch_b_spec in Hnc. congruence.
      + rewrite forallb_forall in H. specialize (H yb Hyb).
        apply orb_true_iff in H. destruct H as [H|H]; [apply orb_true_iff in H; destruct H as [H|H]|].
        * apply negb_true_iff in H. apply ctl_dependent_b_spec in Hctl. congruence.
        * apply N.eqb_eq in H. contradiction.
        * apply nmem_In. assumption.
    - intro H. apply forallb_forall. intros blk Hblk.
      destruct (nonconst_branch_b blk) eqn:Hnc; [|reflexivity]. cbn [negb orb].
      apply nonconst_branch_b_spec in Hnc.
      apply forallb_forall. intros yb Hyb.
      destruct (ctl_dependent_b g (b_index blk) (b_index yb)) eqn:Hctl; [|reflexivity]. cbn [negb orb].
      destruct (N.eqb (b_index yb) (b_index blk)) eqn:Heq; [reflexivity|]. cbn [orb].
      apply nmem_In. apply (H blk yb); try assumption.
      + apply ctl_dependent_b_spec. assumption.
      + apply N.eqb_neq. assumption.
  Qed.

  Theorem self_closed_b_spec B : self_closed_b g B = true <-> self_closed g B.
  Proof.
    unfold self_closed_b, self_closed. split.
    - intros H blk yb m c t f r x Hblk Hyb Heq Hs Hv Hr HrB Hctl Hx.
      rewrite forallb_forall in H. specialize (H blk Hblk).
      rewrite forallb_forall in H. specialize (H _ Hs). cbn beta iota in H. rewrite Hv in H.
      apply orb_true_iff in H. destruct H as [H|H].
      + exfalso. apply negb_true_iff in H.
        assert (existsb (fun r => vmem r B) (uses_names (expr_uses D c)) = true); [|congruence].
        apply existsb_exists. exists r. split; [assumption | apply vmem_In; assumption].
      + rewrite forallb_forall in H. specialize (H yb Hyb).
        apply orb_true_iff in H. destruct H as [H|H]; [apply orb_true_iff in H; destruct H as [H|H]|].
        * apply negb_true_iff, N.eqb_neq in H. contradiction.
        * apply negb_true_iff in H. apply ctl_dependent_b_spec in Hctl. congruence.
        * rewrite forallb_forall in H. apply vmem_In. apply H. assumption.
    - intro H. apply forallb_forall. intros blk Hblk. apply forallb_forall. intros s Hs.
      destruct s as [m names t dims|m c t f|m e|m v op rhe sv sty|m l r|m args|m e]; try reflexivity.
      destruct (expr_val c) eqn:Hv; [reflexivity|].
      destruct (existsb (fun r => vmem r B) (uses_names (expr_uses D c))) eqn:E; [|reflexivity].
      cbn [negb orb]. apply existsb_exists in E. destruct E as [a [Ha Hm]]. apply vmem_In in Hm.
      apply forallb_forall. intros yb Hyb.
      destruct (N.eqb (b_index yb) (b_index blk)) eqn:Heq; [|reflexivity]. cbn [negb orb]. apply N.eqb_eq in Heq.
      destruct (ctl_dependent_b g (b_index blk) (b_index yb)) eqn:Hc; [|reflexivity]. cbn [negb orb].
      apply forallb_forall. intros x Hx. apply vmem_In.
      apply (H blk yb m c t f a x); try assumption. apply ctl_dependent_b_spec. assumption.
  Qed.

  (* self_closed is the part of ctl_closed that speaks about the pairs (b, b) *)
  Lemma ctl_closed_self_closed B : ctl_closed g B -> self_closed g B.
  Proof.
    intros H blk yb m c t f r x Hblk Hyb Heq Hs Hv Hr HrB Hctl Hx.
    apply (H r x HrB). exists blk, m, c, t, f, yb.
    split; [assumption|]. split; [assumption|]. split; [assumption|]. split; [assumption|]. split; [assumption|].
    split; assumption.
  Qed.
End Decide.

(* the evaluated form: both conditions as booleans *)
Theorem regions_give_ctl_closed_b g br es :
  indices_distinct_b g = true ->
  region_covers_b g br = true ->
  exported_sinks g (t_edges (run_taint_analysis g br)) = Ok es ->
  self_closed_b g es = true ->
  ctl_closed_b g es = true.
Proof.
  intros Hnd Hcov Hes Hself. apply ctl_closed_b_complete.
  eapply regions_give_ctl_closed; [apply indices_distinct_b_spec; assumption | apply region_covers_b_spec; exact Hcov | exact Hes |].
  apply self_closed_b_spec. assumption.
Qed.

(* CS0008 with implicit flows, with the hypotheses about the REGIONS instead of the closure of the tainted set:
   the table covers control dependence (structure of the graph and the table only, no taint involved, so a hole
   in a region cannot be masked by another taint source), and the names written in a self-dependent branch block
   (the phis of a loop header) are tainted when its condition is. *)
Require Import Spec.NiSpec.
Theorem noninterference_with_region_cover
  (V : Type) (sem_num : Z -> V) (sem_infix : infix_op -> V -> V -> V) (sem_prefix : prefix_op -> V -> V)
  (sem_switch : V -> V -> V -> V) (sem_call : ident -> list V -> V) (sem_array : list V -> V)
  (sem_access : V -> list (access V) -> V) (sem_update : V -> list (access V) -> V -> V)
  (sem_phi : list pcT -> list (vname * V) -> V) (sem_undef : V) (truthy : V -> bool)
  (g : cfg) (br : branches) (ment : stmt -> bool) (res : result) (f : finding) (es : list vname) :
  indices_distinct_b g = true ->
  region_covers_b g br = true ->
  exported_sinks g (t_edges (run_taint_analysis g br)) = Ok es ->
  self_closed_b g es = true ->
  ment_sound_by g (idep g) ment ->
  exported_targets_declared g = true ->
  run_side_effect_analysis g br = Ok res ->
  In f (r_findings res) ->
  f_kind f = FVarNoSideEffect \/ f_kind f = FParamNoSideEffect ->
  noninterference vname V pcT vname_eq_dec
    (ssa_prog V sem_num sem_infix sem_prefix sem_switch sem_call sem_array sem_access sem_update sem_phi
              sem_undef truthy g ment) (f_var f).
Proof.
  intros Hnd Hcov Hes Hself. apply noninterference_with_implicit_flows with (br := br) (es := es); [exact Hes|].
  eapply regions_give_ctl_closed_b; eassumption.
Qed.
