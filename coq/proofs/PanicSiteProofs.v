(* C01 — the regenerated panic-site inventory (Gen.PanicSites, from the current
   source) is covered by the regenerated map (Gen.PanicMap, from the
   hand-maintained coq/PANIC_MAP.json after validation). Both files are
   rewritten by ./check C01, so this file is re-checked against the current
   tree on every run: a new, moved or un-guarded site has no entry and
   [every_panic_site_discharged] stops compiling.
   The citations of the map are resolved by Coq in the generated file
   Gen.PanicCites (one `Check Props.Cnn.<name>.` per cited theorem), compiled by
   the check after props/C01.vo; the former lemma "every disposition string is
   non-empty" said nothing and is gone. *)
From Coq Require Import String List Bool.
Require Import Gen.PanicSites Gen.PanicMap.
Import ListNotations.

Definition covered (s : site) : bool :=
  existsb (fun e => String.eqb (fst e) (s_id s)) panic_map.

Lemma every_panic_site_discharged : forallb covered sites = true.
Proof. vm_compute. reflexivity. Qed.

Lemma no_anchored_file_missing : anchored_files_missing = [].
Proof. reflexivity. Qed.
