(* C01 — the regenerated panic-site inventory (Gen.PanicSites, from the current
   source) is covered by the regenerated map (Gen.PanicMap, from the
   hand-maintained coq/PANIC_MAP.json after validation). Both files are
   rewritten by ./check C01, so this file is re-checked against the current
   tree on every run: a new, moved or un-guarded site has no entry and
   [every_panic_site_discharged] stops compiling. *)
From Coq Require Import String List Bool.
Require Import Gen.PanicSites Gen.PanicMap.
Import ListNotations.

Definition covered (s : site) : bool :=
  existsb (fun e => String.eqb (fst e) (s_id s)) panic_map.

Definition justified (e : string * disposition) : bool :=
  match snd e with
  | DischargedBy t => negb (String.eqb t "")
  | Guarded g => negb (String.eqb g "")
  | OutsideModel r => negb (String.eqb r "")
  | ObservedOnly r => negb (String.eqb r "")
  end.

Lemma every_panic_site_discharged : forallb covered sites = true.
Proof. vm_compute. reflexivity. Qed.

Lemma every_map_entry_justified : forallb justified panic_map = true.
Proof. vm_compute. reflexivity. Qed.

Lemma no_anchored_file_missing : anchored_files_missing = [].
Proof. reflexivity. Qed.
