(* C07, third audit item 4 - why Spec.DegSem.cond_fixed is NOT "False on an undenotable
   condition".  The review asked that an undenotable deciding condition leave the phi
   choice unconstrained.  For the ORDER-FREE step relation of Spec.DegSem (any statement
   of the graph may fire at any time) that variant is unsound, and the counterexample
   below is a graph the validator rightly accepts:

       c.1 = 5;  if (c.1 == 1) { x.1 = 1 } else { x.2 = 2 }  x.3 = phi(x.1, x.2);  b <-- x.3

   The condition reads only the constant local c.1, so the merged value is rightly
   claimed constant.  In the variant relation the join phi may fire BEFORE `c.1 = 5`
   has fired: the condition is then undenotable, the choice unconstrained, and x.3 can
   be made to depend on the valuation.  No real execution does this (the condition is
   evaluated before the join is reached); the relation of Spec.DegSem excludes it by
   counting a decider that has not been evaluated as "not varying", and instead removes
   the two ways in which a decider that HAS been evaluated could be undenotable: the
   rule fs_opaque (gone) and partial initial stores (DegSem.finit_total; the stores of
   Proofs.DegRunProofs are total).  The initial store used here is total. *)
From Coq Require Import ZArith NArith List Bool Lia.
Require Import Model.Base Model.Ir Model.Propagate Model.Justify Model.DegJustify.
Require Import Spec.PolyDeg Spec.DegSem Proofs.ValueProofs Proofs.DegGraphProofs.
Import ListNotations.
Local Open Scope Z_scope.

Section Variant.
Variable V : Type.
Variable p : Z.
Variable sem2 : infix_op -> Z -> Z -> Z.
Variable sem1 : prefix_op -> Z -> Z.
Variable call_sem : ident -> list Z -> Z.
Variable name_code : ident -> Z.
Notation den := (den V p sem2 sem1 call_sem name_code).

Definition cond_fixed' (s : fstore V) (cond : expr) : Prop :=
  match den s cond with
  | Some C => forall r r', C [] r = C [] r'
  | None => False
  end.

Definition pick_ok' (c : cfg) (idom : list (option N)) (s : fstore V) (x : vname) (pick : V -> vname) : Prop :=
  forall b, phi_block_of c x b ->
    ((length (b_preds b) < 2)%nat \/ forall cond, decides c idom b cond -> cond_fixed' s cond) ->
    forall r r', pick r = pick r'.

Inductive fstep' (c : cfg) (idom : list (option N)) : fstore V -> fstore V -> Prop :=
| fs_assign' m x op rhe sv st F s :
    In (SSubst m x op rhe sv st) (all_stmts (c_blocks c)) -> decl_of c x = Some TLocal -> is_param c x = false ->
    is_phi_e rhe = false -> den s rhe = Some F -> fstep' c idom s (fupd V s x (Some F))
| fs_phi' m x op args k sv st (pick : V -> vname) s :
    In (SSubst m x op (EPhi args k) sv st) (all_stmts (c_blocks c)) -> decl_of c x = Some TLocal -> is_param c x = false ->
    (forall rho, In (pick rho) args) -> (forall rho, s (pick rho) <> None) ->
    pick_ok' c idom s x pick ->
    fstep' c idom s (fupd V s x (Some (phi_fam V s pick))).

Inductive freachable' (c : cfg) (idom : list (option N)) (s0 : fstore V) : fstore V -> Prop :=
| fr_init' : freachable' c idom s0 s0
| fr_step' s s' : freachable' c idom s0 s -> fstep' c idom s s' -> freachable' c idom s0 s'.
End Variant.

(* the counterexample graph *)
Definition vk (d : option drange) : know := {| kval := None; kdeg := d |}.
Definition vcc : option drange := Some (DConst, DConst).
Definition vm0 : meta := {| m_start := 0%N; m_end := 0%N; m_file := None |}.
Definition vx (n : N) : vname := {| vn_name := [120%N]; vn_suffix := None; vn_version := Some n |}.
Definition vc1 : vname := {| vn_name := [99%N]; vn_suffix := None; vn_version := Some 1%N |}.
Definition va : vname := {| vn_name := [97%N]; vn_suffix := None; vn_version := None |}.
Definition vb : vname := {| vn_name := [98%N]; vn_suffix := None; vn_version := None |}.
Definition vcond : expr := EInfix IEq (EVar vc1 (vk vcc)) (ENum 1 (vk vcc)) (vk vcc).
Definition vphi : stmt := SSubst vm0 (vx 3) OpVar (EPhi [vx 1; vx 2] (vk vcc)) None (Some TLocal).
Definition vgraph : cfg :=
  {| c_kind := KTemplate; c_params := [];
     c_decls := [(vc1, TLocal); (vx 1, TLocal); (vx 2, TLocal); (vx 3, TLocal); (va, TSigIn); (vb, TSigOut)];
     c_blocks :=
       [ {| b_index := 0%N; b_depth := 0%N; b_preds := []; b_succs := [1%N; 2%N];
            b_stmts := [ SSubst vm0 vc1 OpVar (ENum 5 (vk vcc)) None (Some TLocal);
                         SIf vm0 vcond 1%N (Some 2%N) ] |};
         {| b_index := 1%N; b_depth := 0%N; b_preds := [0%N]; b_succs := [3%N];
            b_stmts := [ SSubst vm0 (vx 1) OpVar (ENum 1 (vk vcc)) None (Some TLocal) ] |};
         {| b_index := 2%N; b_depth := 0%N; b_preds := [0%N]; b_succs := [3%N];
            b_stmts := [ SSubst vm0 (vx 2) OpVar (ENum 2 (vk vcc)) None (Some TLocal) ] |};
         {| b_index := 3%N; b_depth := 0%N; b_preds := [1%N; 2%N]; b_succs := [];
            b_stmts := [ vphi;
                         SSubst vm0 vb OpSig (EVar (vx 3) (vk vcc)) None (Some TSigOut) ] |} ] |}.
Definition vidom : list (option N) := [None; Some 0%N; Some 0%N; Some 0%N].

(* total initial store: the signals hold the valuation, every other name the steps cannot
   assign holds zeros, the assigned locals are not assigned yet *)
Definition vS0 : fstore Z :=
  fun x => if assignable vgraph x then None
           else match decl_of vgraph x with
                | Some TLocal | None => Some (fun _ _ => 0)
                | Some _ => Some (fun _ rho => rho)
                end.

Definition vline (r d t : Z) : Z := r + t * d.

Lemma vgraph_validated : djust_cfg vgraph vidom = true.
Proof. vm_compute. reflexivity. Qed.

Lemma vS0_total : finit_total Z vgraph vS0.
Proof. intros x Hx. unfold vS0. rewrite Hx. destruct (decl_of vgraph x) as [[]|]; discriminate. Qed.

Lemma vdefined_declared x : existsb (defines x) (all_stmts (c_blocks vgraph)) = true -> decl_of vgraph x <> None.
Proof.
  intros H. apply existsb_exists in H. destruct H as (st & Hin & Hd). cbn in Hin.
  repeat (destruct Hin as [<-|Hin];
          [try (cbn in Hd; discriminate); cbn [defines vphi] in Hd; apply vname_eqb_eq in Hd; subst x; vm_compute; discriminate|]).
  contradiction.
Qed.

Lemma vS0_init : finit_ok Z vline 7 vgraph vS0.
Proof.
  intros x F Hx. unfold vS0 in Hx. destruct (assignable vgraph x) eqn:Ea; [discriminate|].
  assert (Hp : is_param vgraph x = false) by reflexivity.
  assert (Hlin : forall i : list Z, Deg Z vline 7 1 (fun rho : Z => rho)).
  { intros i rho delta t. cbn [Dn]. unfold Dd, vline. replace (_ - _) with 0 by ring. reflexivity. }
  assert (Hun : match decl_of vgraph x with Some TLocal | None => True | Some _ => False end -> unassigned vgraph x = true).
  { intros Hd. unfold unassigned. rewrite Hp. destruct (existsb (defines x) (all_stmts (c_blocks vgraph))) eqn:Ee.
    - exfalso. pose proof (vdefined_declared x Ee) as Hdd. unfold assignable in Ea. rewrite Ee, Hp in Ea.
      destruct (decl_of vgraph x) as [[]|]; try contradiction; try discriminate.
    - destruct (decl_of vgraph x) as [[]|]; try contradiction; reflexivity. }
  destruct (decl_of vgraph x) as [t|] eqn:Ed.
  - destruct t; injection Hx as <-;
      try (right; left; split; [exact Hp|]; split; [eexists; split; [reflexivity|discriminate]|exact Hlin]).
    right. right. split; [apply Hun; exact I|reflexivity].
  - injection Hx as <-. right. right. split; [apply Hun; exact I|reflexivity].
Qed.

(* the refutation: in the variant relation a store is reachable in which the validated
   claim "x.3 is constant" is false *)
Theorem undenotable_unconstrained_refuted :
  forall (sem2 : infix_op -> Z -> Z -> Z) sem1 call_sem name_code,
  djust_cfg vgraph vidom = true /\ finit_ok Z vline 7 vgraph vS0 /\ finit_total Z vgraph vS0 /\
  exists S F,
    freachable' Z 7 sem2 sem1 call_sem name_code vgraph vidom vS0 S /\
    djust_expr vgraph (EVar (vx 3) (vk vcc)) = true /\
    den Z 7 sem2 sem1 call_sem name_code S (EVar (vx 3) (vk vcc)) = Some F /\
    expr_deg (EVar (vx 3) (vk vcc)) = Some (DConst, DConst) /\
    ~ SemDeg Z vline 7 DConst (F []).
Proof.
  intros sem2 sem1 call_sem name_code.
  split; [exact vgraph_validated|]. split; [exact vS0_init|]. split; [exact vS0_total|].
  set (S1 := fupd Z vS0 (vx 1) (Some (fun _ _ => 1 mod 7))).
  set (S2 := fupd Z S1 (vx 2) (Some (fun _ _ => 2 mod 7))).
  set (pick := fun rho : Z => if rho =? 0 then vx 1 else vx 2).
  set (S3 := fupd Z S2 (vx 3) (Some (phi_fam Z S2 pick))).
  exists S3, (phi_fam Z S2 pick).
  split; [|split; [vm_compute; reflexivity|split; [reflexivity|split; [reflexivity|]]]].
  - eapply fr_step'; [eapply fr_step'; [eapply fr_step'; [apply fr_init'|]|]|].
    + eapply (fs_assign' Z 7 sem2 sem1 call_sem name_code vgraph vidom vm0 (vx 1) OpVar (ENum 1 (vk vcc)) None (Some TLocal));
        [cbn; auto 10|reflexivity|reflexivity|reflexivity|reflexivity].
    + eapply (fs_assign' Z 7 sem2 sem1 call_sem name_code vgraph vidom vm0 (vx 2) OpVar (ENum 2 (vk vcc)) None (Some TLocal));
        [cbn; auto 10|reflexivity|reflexivity|reflexivity|reflexivity].
    + eapply (fs_phi' Z 7 sem2 sem1 call_sem name_code vgraph vidom vm0 (vx 3) OpVar [vx 1; vx 2] (vk vcc) None (Some TLocal) pick);
        [cbn; auto 10|reflexivity|reflexivity| | |].
      * intros rho. unfold pick. destruct (rho =? 0); cbn; auto.
      * intros rho. unfold pick. destruct (rho =? 0); discriminate.
      * (* the deciding condition c.1 == 1 is undenotable: c.1 = 5 has not fired *)
        intros b Hb Hor. exfalso. destruct Hb as [Hin (m & op & args & k & sv & st & Hst)].
        cbn in Hin. destruct Hin as [<-|[<-|[<-|[<-|[]]]]]; cbn in Hst;
          try (repeat (destruct Hst as [Hst|Hst]; [discriminate|]); contradiction).
        destruct Hor as [Hlt|Hall]; [cbn in Hlt; lia|].
        assert (Hd : decides vgraph vidom
                  {| b_index := 3%N; b_depth := 0%N; b_preds := [1%N; 2%N]; b_succs := [];
                     b_stmts := [ vphi; SSubst vm0 vb OpSig (EVar (vx 3) (vk vcc)) None (Some TSigOut) ] |} vcond).
        { exists 1%N, 0%N. eexists. exists vm0, 1%N, (Some 2%N). split; [left; reflexivity|]. split; [|split; reflexivity].
          cbn. eapply ab_up; [discriminate|reflexivity|apply ab_here]. }
        specialize (Hall vcond Hd). unfold cond_fixed' in Hall. cbn in Hall. exact Hall.
  - intros H. specialize (H 0 1). vm_compute in H. discriminate.
Qed.
