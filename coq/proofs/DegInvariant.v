(* C20, the universal statement for DEGREE claims: whatever the number of passes,
   the degree ranges Model.Propagate has attached so far are accepted by the
   validator DegJustify.djust_cfg (hence true, by Proofs.DegGraphProofs).
   Same plan as Proofs.CutInvariant.

   Control dependence (/repo D18): a phi is judged with the control of its block
   (Propagate.block_ctl: what is known about the branch conditions that decide along
   which edge the block is entered - those ending a block on the dominator-tree chains
   from its predecessors up to its immediate dominator, /repo 64f724b).  The control is
   read off the degree claims of those conditions in the CURRENT graph; like every claim
   it only goes from unknown to known (order [mctl_le]: every collected condition keeps
   its claim once it has one, and one known non-constant condition already fixes
   MNonConst) while the statement skeleton stays ([bext]/[gext]), so the invariant is
   kept per block: every statement of a block is justified under the block's control
   in the current graph ([GJ]); a claim made under the control recorded at the start
   of the block visit stays justified under every later control.  A phi below the top
   of a statement carries no claim in a validated graph: Model.DegWf.deg_wf excludes
   such phis ([phi_top_stmt]), and [dejust] has no rule for them.

   Part 0: the degree environment. *)
From Coq Require Import ZArith List Bool Lia.
Require Import Model.Base Model.Field Model.Ir Model.Propagate Model.Justify Model.DegJustify Model.DegWf Gen.DegreeTable.
Require Import Proofs.IrInd Proofs.ValueProofs Proofs.CutInvariant Proofs.DegGraphProofs Proofs.DegErase.
Import ListNotations.

Lemma vname_eqb_sym a b : vname_eqb a b = vname_eqb b a.
Proof.
  destruct (vname_eqb a b) eqn:E1, (vname_eqb b a) eqn:E2; try reflexivity.
  - apply vname_eqb_eq in E1. subst. rewrite vname_eqb_refl in E2. discriminate.
  - apply vname_eqb_eq in E2. subst. rewrite vname_eqb_refl in E1. discriminate.
Qed.

Lemma assoc_get_set {A} (l : list (vname * A)) v x w :
  assoc_get (assoc_set l v x) w = if vname_eqb v w then Some x else assoc_get l w.
Proof.
  induction l as [|[u y] tl IH]; cbn [assoc_set assoc_get]; [reflexivity|].
  destruct (vname_eqb u v) eqn:E.
  - apply vname_eqb_eq in E. subst u. cbn [assoc_get]. destruct (vname_eqb v w); reflexivity.
  - cbn [assoc_get]. rewrite IH. destruct (vname_eqb u w) eqn:Eu; [|reflexivity].
    destruct (vname_eqb v w) eqn:Ev; [|reflexivity].
    apply vname_eqb_eq in Eu. apply vname_eqb_eq in Ev. subst. rewrite vname_eqb_refl in E. discriminate.
Qed.

Lemma degree_set_degree env v r w :
  denv_degree (fst (denv_set_degree env v r)) w = if vname_eqb v w then Some r else denv_degree env w.
Proof. unfold denv_set_degree, denv_degree. cbn [fst de_deg]. apply assoc_get_set. Qed.

Definition denv_le (e1 e2 : denv) : Prop :=
  (forall v r, denv_degree e1 v = Some r -> denv_degree e2 v = Some r) /\
  (forall v, denv_is_assigned e1 v = true -> denv_is_assigned e2 v = true).

Lemma denv_le_refl e : denv_le e e. Proof. split; auto. Qed.
Lemma denv_le_trans a b c : denv_le a b -> denv_le b c -> denv_le a c.
Proof. intros [H1 H2] [H3 H4]. split; auto. Qed.

(* ---------- claims ---------- *)
Definition dclaim (k : know) (o : option drange) : Prop :=
  match kdeg k with None => True | Some r => o = Some r end.

Definition dext (a a' : option drange) : Prop := forall r, a = Some r -> a' = Some r.

Lemma dext_refl a : dext a a. Proof. intros r H. exact H. Qed.

Lemma dclaim_mono k o o' : dext o o' -> dclaim k o -> dclaim k o'.
Proof. unfold dclaim. destruct (kdeg k); auto. Qed.

Lemma dclaim_none k o : kdeg k = None -> dclaim k o.
Proof. unfold dclaim. intros ->. exact I. Qed.

(* the range of the array an element-wise update starts from *)
Definition ubase (un : vname -> bool) (env : denv) (v : vname) (rd : option drange) : option drange :=
  match denv_degree env v with
  | Some rv => iter_opt [Some rv; rd]
  | None => if un v then rd else None
  end.

Definition switch_deg (cd t f : option drange) : option drange :=
  match cd with
  | Some rc => if range_is_constant rc then iter_opt [t; f] else None
  | None => None
  end.

Definition call_deg (args : list expr) : option drange :=
  if all_constant args then Some (DConst, DConst) else None.

(* justification of the degree claims of an expression relative to the environment;
   [un]: the static predicate "never assigned, not a parameter, local or undeclared" *)
Inductive dejust (un : vname -> bool) (env : denv) : expr -> Prop :=
| dj_num z k : dclaim k (Some (DConst, DConst)) -> dejust un env (ENum z k)
| dj_var v k : dclaim k (denv_degree env v) -> dejust un env (EVar v k)
| dj_infix op l r k : dejust un env l -> dejust un env r ->
    dclaim k (opt_range_infix op (expr_deg l) (expr_deg r)) -> dejust un env (EInfix op l r k)
| dj_prefix op e k : dejust un env e -> dclaim k (opt_range_prefix op (expr_deg e)) -> dejust un env (EPrefix op e k)
| dj_switch c t f k : dejust un env c -> dejust un env t -> dejust un env f ->
    dclaim k (switch_deg (expr_deg c) (expr_deg t) (expr_deg f)) -> dejust un env (ESwitch c t f k)
| dj_call n args k : Forall (dejust un env) args -> dclaim k (call_deg args) -> dejust un env (ECall n args k)
| dj_array vs k : Forall (dejust un env) vs -> dclaim k (iter_opt (map expr_deg vs)) -> dejust un env (EArray vs k)
| dj_access v acc k : Forall (dejust un env) (acc_exprs acc) ->
    dclaim k (opt_index_adjust acc (denv_degree env v)) -> dejust un env (EAccess v acc k)
| dj_update v acc rhe k : Forall (dejust un env) (acc_exprs acc) -> dejust un env rhe ->
    dclaim k (opt_index_adjust acc (ubase un env v (expr_deg rhe))) -> dejust un env (EUpdate v acc rhe k).
(* no rule for EPhi: a justified expression is phi-free; the phi at the top of an
   assignment is judged at the statement level ([etop]) *)

Lemma dj_num_inv un env z k : dejust un env (ENum z k) -> dclaim k (Some (DConst, DConst)).
Proof. intros H. inversion H; subst. auto. Qed.
Lemma dj_var_inv un env v k : dejust un env (EVar v k) -> dclaim k (denv_degree env v).
Proof. intros H. inversion H; subst. auto. Qed.
Lemma dj_infix_inv un env op l r k : dejust un env (EInfix op l r k) ->
  dejust un env l /\ dejust un env r /\ dclaim k (opt_range_infix op (expr_deg l) (expr_deg r)).
Proof. intros H. inversion H; subst. auto. Qed.
Lemma dj_prefix_inv un env op e k : dejust un env (EPrefix op e k) ->
  dejust un env e /\ dclaim k (opt_range_prefix op (expr_deg e)).
Proof. intros H. inversion H; subst. auto. Qed.
Lemma dj_switch_inv un env c t f k : dejust un env (ESwitch c t f k) ->
  dejust un env c /\ dejust un env t /\ dejust un env f /\ dclaim k (switch_deg (expr_deg c) (expr_deg t) (expr_deg f)).
Proof. intros H. inversion H; subst. auto. Qed.
Lemma dj_call_inv un env n args k : dejust un env (ECall n args k) ->
  Forall (dejust un env) args /\ dclaim k (call_deg args).
Proof. intros H. inversion H; subst. auto. Qed.
Lemma dj_array_inv un env vs k : dejust un env (EArray vs k) ->
  Forall (dejust un env) vs /\ dclaim k (iter_opt (map expr_deg vs)).
Proof. intros H. inversion H; subst. auto. Qed.
Lemma dj_access_inv un env v acc k : dejust un env (EAccess v acc k) ->
  Forall (dejust un env) (acc_exprs acc) /\ dclaim k (opt_index_adjust acc (denv_degree env v)).
Proof. intros H. inversion H; subst. auto. Qed.
Lemma dj_update_inv un env v acc rhe k : dejust un env (EUpdate v acc rhe k) ->
  Forall (dejust un env) (acc_exprs acc) /\ dejust un env rhe /\
  dclaim k (opt_index_adjust acc (ubase un env v (expr_deg rhe))).
Proof. intros H. inversion H; subst. auto. Qed.
Lemma dj_phi_inv un env args k : dejust un env (EPhi args k) -> False.
Proof. intros H. inversion H. Qed.

(* ---------- the operators are monotone: a known result only needs known operands ---------- *)
Lemma opt_range_infix_ext op a a' b b' :
  dext a a' -> dext b b' -> dext (opt_range_infix op a b) (opt_range_infix op a' b').
Proof.
  intros Ha Hb r. destruct a as [x|], b as [y|]; cbn [opt_range_infix]; try discriminate.
  rewrite (Ha _ eq_refl), (Hb _ eq_refl). auto.
Qed.

Lemma opt_range_prefix_ext op a a' : dext a a' -> dext (opt_range_prefix op a) (opt_range_prefix op a').
Proof. intros Ha r. destruct a as [x|]; cbn [opt_range_prefix]; try discriminate. rewrite (Ha _ eq_refl). auto. Qed.

Lemma all_some_ext l l' xs : Forall2 dext l l' -> all_some l = Some xs -> l' = l.
Proof.
  intros H. revert xs. induction H as [|o o' tl tl' Ho Ht IH]; intros xs; [reflexivity|].
  cbn [all_some]. destruct o as [x|]; [|discriminate]. destruct (all_some tl) as [ys|] eqn:E; [|discriminate].
  intros _. rewrite (Ho _ eq_refl). f_equal. eapply IH. reflexivity.
Qed.

Lemma iter_opt_ext l l' : Forall2 dext l l' -> dext (iter_opt l) (iter_opt l').
Proof.
  intros H r Hr. assert (E : l' = l).
  { unfold iter_opt in Hr. destruct (all_some l) as [xs|] eqn:E; [|discriminate]. eapply all_some_ext; eauto. }
  rewrite E. exact Hr.
Qed.

Lemma switch_deg_ext a a' b b' c c' :
  dext a a' -> dext b b' -> dext c c' -> dext (switch_deg a b c) (switch_deg a' b' c').
Proof.
  intros Ha Hb Hc r. unfold switch_deg. destruct a as [rc|]; [|discriminate]. rewrite (Ha _ eq_refl).
  destruct (range_is_constant rc); [|discriminate]. apply iter_opt_ext. repeat constructor; assumption.
Qed.

Definition dstable (e e' : expr) : Prop := dext (expr_deg e) (expr_deg e').

Lemma dstable_refl e : dstable e e. Proof. apply dext_refl. Qed.

Definition acc_st1 (a a' : access expr) : Prop :=
  match a, a' with
  | AIdx x, AIdx x' => dstable x x'
  | AComp n, AComp n' => n = n'
  | _, _ => False
  end.
Definition acc_st : list (access expr) -> list (access expr) -> Prop := Forall2 acc_st1.

Lemma acc_st_refl acc : acc_st acc acc.
Proof. induction acc as [|[x|n] tl IH]; constructor; auto; cbn; [apply dstable_refl|reflexivity]. Qed.

Lemma constant_indices_ext acc acc' b : acc_st acc acc' -> constant_indices acc = Some b -> constant_indices acc' = Some b.
Proof.
  intros H. induction H as [|a a' tl tl' Ha Ht IH]; [auto|].
  destruct a as [x|n], a' as [x'|n']; cbn [acc_st1] in Ha; try contradiction; cbn [constant_indices].
  - destruct (expr_deg x) as [r|] eqn:Ex; [|discriminate]. rewrite (Ha _ Ex).
    destruct (range_is_constant r); auto.
  - exact IH.
Qed.

Lemma index_adjust_ext acc acc' rg : acc_st acc acc' -> dext (index_adjust acc rg) (index_adjust acc' rg).
Proof.
  intros H r. unfold index_adjust. destruct (constant_indices acc) as [b|] eqn:E; [|discriminate].
  rewrite (constant_indices_ext _ _ _ H E). auto.
Qed.

Lemma opt_index_adjust_ext acc acc' o o' :
  acc_st acc acc' -> dext o o' -> dext (opt_index_adjust acc o) (opt_index_adjust acc' o').
Proof.
  intros Ha Ho r. unfold opt_index_adjust. destruct o as [rg|]; [|discriminate]. rewrite (Ho _ eq_refl).
  apply index_adjust_ext. exact Ha.
Qed.

Lemma all_constant_ext es es' : Forall2 dstable es es' -> all_constant es = true -> all_constant es' = true.
Proof.
  intros H. unfold all_constant. induction H as [|x x' tl tl' Hx Ht IH]; [auto|]. cbn [forallb].
  intros Hc. apply andb_true_iff in Hc as [H1 H2]. rewrite (IH H2), andb_true_r.
  destruct (expr_deg x) as [r|] eqn:Ex; [|discriminate]. rewrite (Hx _ Ex). exact H1.
Qed.

Lemma call_deg_ext es es' : Forall2 dstable es es' -> dext (call_deg es) (call_deg es').
Proof.
  intros H r. unfold call_deg. destruct (all_constant es) eqn:E; [|discriminate].
  rewrite (all_constant_ext _ _ H E). auto.
Qed.

Lemma map_deg_ext es es' : Forall2 dstable es es' -> Forall2 dext (map expr_deg es) (map expr_deg es').
Proof. intros H. induction H; cbn [map]; constructor; auto. Qed.

Lemma ubase_ext un env v rd rd' : dext rd rd' -> dext (ubase un env v rd) (ubase un env v rd').
Proof.
  intros H. unfold ubase. destruct (denv_degree env v) as [rv|].
  - apply iter_opt_ext. repeat constructor; [apply dext_refl|exact H].
  - destruct (un v); [exact H|apply dext_refl].
Qed.

(* ---------- monotone in the environment ---------- *)
Lemma dejust_mono un env env' e :
  denv_le env env' -> (forall v, un v = true -> denv_degree env' v = None) ->
  dejust un env e -> dejust un env' e.
Proof.
  intros [Hle _] Hun.
  assert (Hd : forall v, dext (denv_degree env v) (denv_degree env' v)) by (intros v r; apply Hle).
  induction e as [z k|v k|op l r k IHl IHr|op e k IHe|c t f k IHc IHt IHf|n args k IHargs|vs k IHvs
                  |v acc k IHacc|v acc rhe k IHacc IHrhe|args k] using expr_ind'; intros H; inversion H; subst.
  - constructor; assumption.
  - constructor. eapply dclaim_mono; [|eassumption]. apply Hd.
  - constructor; auto.
  - constructor; auto.
  - constructor; auto.
  - constructor; [|assumption]. rewrite Forall_forall in *. auto.
  - constructor; [|assumption]. rewrite Forall_forall in *. auto.
  - constructor; [rewrite Forall_forall in *; auto|].
    eapply dclaim_mono; [|eassumption]. apply opt_index_adjust_ext; [apply acc_st_refl|apply Hd].
  - constructor; [rewrite Forall_forall in *; auto|auto|].
    eapply dclaim_mono; [|eassumption]. apply opt_index_adjust_ext; [apply acc_st_refl|].
    unfold ubase. destruct (denv_degree env v) as [rv|] eqn:Ev.
    + rewrite (Hle _ _ Ev). apply dext_refl.
    + destruct (un v) eqn:Eu; [|intros r0; discriminate]. rewrite (Hun _ Eu). apply dext_refl.
Qed.

Lemma map_degree_ext env env' (args : list vname) :
  (forall v r, denv_degree env v = Some r -> denv_degree env' v = Some r) ->
  Forall2 dext (map (denv_degree env) args) (map (denv_degree env') args).
Proof. intros Hle. induction args as [|a tl IH]; cbn [map]; constructor; auto. intros r; apply Hle. Qed.

(* ---------- the control of a block ---------- *)
Definition mctl_le (m m' : mctl) : Prop := m = MUnknown \/ m = m'.

Lemma mctl_le_refl m : mctl_le m m. Proof. right. reflexivity. Qed.
Lemma mctl_le_trans a b c : mctl_le a b -> mctl_le b c -> mctl_le a c.
Proof. intros [->| ->]; [left; reflexivity|]. auto. Qed.

Lemma phi_adjust_ext m o o' : dext o o' -> dext (phi_adjust m o) (phi_adjust m o').
Proof.
  intros H r. destruct m; cbn [phi_adjust]; try discriminate; destruct o as [rg|]; try discriminate;
    rewrite (H _ eq_refl); auto.
Qed.

Lemma phi_adjust_mctl m m' o : mctl_le m m' -> dext (phi_adjust m o) (phi_adjust m' o).
Proof. intros [->| ->]; [intros r; discriminate|apply dext_refl]. Qed.

(* ---------- pd_expr preserves justification; existing claims are stable ---------- *)
Lemma sc_finish (mk : know -> expr) k o o' b b' e' :
  (forall k0, expr_know (mk k0) = k0) -> (forall k0 k1, set_know (mk k0) k1 = mk k1) ->
  dclaim k o -> dext o o' ->
  match o' with Some rg => sc_set_deg b (mk k) rg | None => (b, mk k) end = (b', e') ->
  exists k', e' = mk k' /\ dclaim k' o' /\ dext (kdeg k) (kdeg k').
Proof.
  intros Hk Hset Hc Hext. destruct o' as [rg|].
  - unfold sc_set_deg. destruct b.
    + intros [= <- <-]. exists k. split; [reflexivity|]. split; [eapply dclaim_mono; eauto|apply dext_refl].
    + rewrite Hk. unfold set_deg. rewrite Hset. intros [= <- <-].
      exists {| kval := kval k; kdeg := Some rg |}. split; [reflexivity|]. split.
      * unfold dclaim. cbn [kdeg]. reflexivity.
      * intros r Hr. cbn [kdeg]. unfold dclaim in Hc. rewrite Hr in Hc. apply Hext. exact Hc.
  - intros [= <- <-]. exists k. split; [reflexivity|]. split; [eapply dclaim_mono; eauto|apply dext_refl].
Qed.

Definition acc_ub (a : access expr) : list vname := match a with AIdx x => update_bases x | AComp _ => [] end.

Section Expr.
Variable un : vname -> bool.
Variable env : denv.

(* the dynamic flag the implementation reads agrees with the static predicate *)
Definition agree (v : vname) : Prop := denv_degree env v = None -> denv_is_assigned env v = negb (un v).

Definition dgood (e : expr) : Prop :=
  Forall agree (update_bases e) -> dejust un env e -> forall b e', pd_expr env e = (b, e') ->
  dejust un env e' /\ dstable e e'.

Lemma pd_list_good (es : list expr) :
  Forall dgood es -> Forall agree (flat_map update_bases es) -> Forall (dejust un env) es ->
  forall res b es',
  (fix pd_list (res : bool) (es : list expr) {struct es} : bool * list expr :=
      match es with
      | [] => (res, [])
      | x :: tl =>
        if res then (true, x :: tl)
        else let '(b, x') := pd_expr env x in
             let '(b', tl') := pd_list b tl in (b', x' :: tl')
      end) res es = (b, es') ->
  Forall (dejust un env) es' /\ Forall2 dstable es es'.
Proof.
  intros Hg Ha Hj. induction es as [|x tl IH]; intros res b es'.
  - intros [= <- <-]. split; constructor.
  - inversion Hg; subst. inversion Hj; subst. cbn [flat_map] in Ha. apply Forall_app in Ha as [Ha1 Ha2].
    destruct res.
    + intros [= <- <-]. split; [constructor; assumption|].
      constructor; [apply dstable_refl|]. clear. induction tl; constructor; auto. apply dstable_refl.
    + destruct (pd_expr env x) as [b1 x'] eqn:Ex.
      match goal with |- context [let '(b', tl') := ?t in _] => destruct t as [b2 tl'] eqn:Et end.
      intros [= <- <-]. destruct (H1 Ha1 H3 _ _ Ex) as [Hx1 Hx2].
      destruct (IH H2 Ha2 H4 _ _ _ Et) as [Ht1 Ht2]. split; constructor; assumption.
Qed.

Lemma pd_acc_good (acc : list (access expr)) :
  Forall dgood (acc_exprs acc) -> Forall agree (flat_map acc_ub acc) -> Forall (dejust un env) (acc_exprs acc) ->
  forall res b acc',
  (fix pd_acc (res : bool) (acc : list (access expr)) {struct acc} : bool * list (access expr) :=
      match acc with
      | [] => (res, [])
      | AComp n :: tl => let '(b', tl') := pd_acc res tl in (b', AComp n :: tl')
      | AIdx x :: tl =>
        if res then (true, AIdx x :: tl)
        else let '(b, x') := pd_expr env x in
             let '(b', tl') := pd_acc b tl in (b', AIdx x' :: tl')
      end) res acc = (b, acc') ->
  Forall (dejust un env) (acc_exprs acc') /\ acc_st acc acc'.
Proof.
  intros Hg Ha Hj. induction acc as [|a tl IH]; intros res b acc'.
  - intros [= <- <-]. split; constructor.
  - destruct a as [x|n]; cbn [acc_exprs flat_map app acc_ub] in Hg, Ha, Hj.
    + inversion Hg; subst. inversion Hj; subst. apply Forall_app in Ha as [Ha1 Ha2]. destruct res.
      * intros [= <- <-]. split; [cbn [acc_exprs flat_map app]; constructor; assumption|apply acc_st_refl].
      * destruct (pd_expr env x) as [b1 x'] eqn:Ex.
        match goal with |- context [let '(b', tl') := ?t in _] => destruct t as [b2 tl'] eqn:Et end.
        intros [= <- <-]. destruct (H1 Ha1 H3 _ _ Ex) as [Hx1 Hx2].
        destruct (IH H2 Ha2 H4 _ _ _ Et) as [Ht1 Ht2]. split.
        -- cbn [acc_exprs flat_map app]. constructor; assumption.
        -- constructor; [exact Hx2|exact Ht2].
    + match goal with |- context [let '(b', tl') := ?t in _] => destruct t as [b2 tl'] eqn:Et end.
      intros [= <- <-]. destruct (IH Hg Ha Hj _ _ _ Et) as [Ht1 Ht2]. split.
      * cbn [acc_exprs flat_map app]. exact Ht1.
      * constructor; [reflexivity|exact Ht2].
Qed.

Lemma pd_expr_good : forall e, dgood e.
Proof.
  induction e as [z k|v k|op l r k IHl IHr|op e k IHe|c t f k IHc IHt IHf|n args k IHargs|vs k IHvs
                  |v acc k IHacc|v acc rhe k IHacc IHrhe|args k] using expr_ind';
    intros Hag Hj b e'; cbn [pd_expr]; cbn [update_bases] in Hag.
  - (* literal *)
    pose proof (dj_num_inv _ _ _ _ Hj) as Hk. intros Hfin.
    destruct (sc_finish (fun k0 => ENum z k0) k _ (Some (DConst, DConst)) false b e' (fun _ => eq_refl) (fun _ _ => eq_refl) Hk (dext_refl _) Hfin)
      as (k' & -> & Hk' & Hst).
    split; [constructor; exact Hk'|exact Hst].
  - (* variable *)
    pose proof (dj_var_inv _ _ _ _ Hj) as Hk. intros Hfin.
    assert (Hfin' : match denv_degree env v with Some rg => sc_set_deg false (EVar v k) rg | None => (false, EVar v k) end = (b, e'))
      by (destruct (denv_degree env v); exact Hfin).
    destruct (sc_finish (fun k0 => EVar v k0) k _ _ false b e' (fun _ => eq_refl) (fun _ _ => eq_refl) Hk (dext_refl _) Hfin')
      as (k' & -> & Hk' & Hst).
    split; [constructor; exact Hk'|exact Hst].
  - (* infix *)
    destruct (dj_infix_inv _ _ _ _ _ _ Hj) as (Hl & Hr & Hk). apply Forall_app in Hag as [Hag1 Hag2].
    destruct (pd_expr env l) as [b1 l'] eqn:El. destruct (IHl Hag1 Hl _ _ El) as [Hjl Hsl].
    destruct (if b1 then (true, r) else pd_expr env r) as [b2 r'] eqn:Er.
    assert (Hr' : dejust un env r' /\ dstable r r').
    { destruct b1; [injection Er as <- <-; split; [exact Hr|apply dstable_refl]|exact (IHr Hag2 Hr _ _ Er)]. }
    destruct Hr' as [Hjr Hsr]. intros Hfin.
    destruct (sc_finish (fun k0 => EInfix op l' r' k0) k _ _ b2 b e' (fun _ => eq_refl) (fun _ _ => eq_refl) Hk
                (opt_range_infix_ext op _ _ _ _ Hsl Hsr) Hfin) as (k' & -> & Hk' & Hst).
    split; [constructor; assumption|exact Hst].
  - (* prefix *)
    destruct (dj_prefix_inv _ _ _ _ _ Hj) as (He & Hk).
    destruct (pd_expr env e) as [b1 x'] eqn:Ee. destruct (IHe Hag He _ _ Ee) as [Hjx Hsx]. intros Hfin.
    destruct (sc_finish (fun k0 => EPrefix op x' k0) k _ _ b1 b e' (fun _ => eq_refl) (fun _ _ => eq_refl) Hk
                (opt_range_prefix_ext op _ _ Hsx) Hfin) as (k' & -> & Hk' & Hst).
    split; [constructor; assumption|exact Hst].
  - (* switch *)
    destruct (dj_switch_inv _ _ _ _ _ _ Hj) as (Hc & Ht & Hf & Hk).
    apply Forall_app in Hag as [Hag1 Hag2]. apply Forall_app in Hag2 as [Hag2 Hag3].
    destruct (pd_expr env c) as [b1 c'] eqn:Ec. destruct (IHc Hag1 Hc _ _ Ec) as [Hjc Hsc].
    destruct (if b1 then (true, t) else pd_expr env t) as [b2 t'] eqn:Et.
    assert (Ht' : dejust un env t' /\ dstable t t').
    { destruct b1; [injection Et as <- <-; split; [exact Ht|apply dstable_refl]|exact (IHt Hag2 Ht _ _ Et)]. }
    destruct Ht' as [Hjt Hst].
    destruct (if b2 then (true, f) else pd_expr env f) as [b3 f'] eqn:Ef.
    assert (Hf' : dejust un env f' /\ dstable f f').
    { destruct b2; [injection Ef as <- <-; split; [exact Hf|apply dstable_refl]|exact (IHf Hag3 Hf _ _ Ef)]. }
    destruct Hf' as [Hjf Hsf]. intros Hfin.
    assert (Hfin' : match switch_deg (expr_deg c') (expr_deg t') (expr_deg f') with
                    | Some rg => sc_set_deg b3 (ESwitch c' t' f' k) rg
                    | None => (b3, ESwitch c' t' f' k)
                    end = (b, e')).
    { unfold switch_deg. destruct (expr_deg c') as [rc|]; [|exact Hfin]. destruct (range_is_constant rc); exact Hfin. }
    destruct (sc_finish (fun k0 => ESwitch c' t' f' k0) k _ _ b3 b e' (fun _ => eq_refl) (fun _ _ => eq_refl) Hk
                (switch_deg_ext _ _ _ _ _ _ Hsc Hst Hsf) Hfin') as (k' & -> & Hk' & Hst').
    split; [constructor; assumption|exact Hst'].
  - (* call *)
    destruct (dj_call_inv _ _ _ _ _ Hj) as (Ha & Hk).
    match goal with |- context [let '(b, args') := ?t in _] => destruct t as [b0 args'] eqn:Ea end.
    destruct (pd_list_good args IHargs Hag Ha _ _ _ Ea) as [Hja Hsa]. intros Hfin.
    assert (Hfin' : match call_deg args' with
                    | Some rg => sc_set_deg b0 (ECall n args' k) rg
                    | None => (b0, ECall n args' k)
                    end = (b, e')).
    { unfold call_deg. destruct (all_constant args'); exact Hfin. }
    destruct (sc_finish (fun k0 => ECall n args' k0) k _ _ b0 b e' (fun _ => eq_refl) (fun _ _ => eq_refl) Hk
                (call_deg_ext _ _ Hsa) Hfin') as (k' & -> & Hk' & Hst).
    split; [constructor; assumption|exact Hst].
  - (* array *)
    destruct (dj_array_inv _ _ _ _ Hj) as (Ha & Hk).
    match goal with |- context [let '(b, vs') := ?t in _] => destruct t as [b0 vs'] eqn:Ea end.
    destruct (pd_list_good vs IHvs Hag Ha _ _ _ Ea) as [Hja Hsa]. intros Hfin.
    destruct (sc_finish (fun k0 => EArray vs' k0) k _ _ b0 b e' (fun _ => eq_refl) (fun _ _ => eq_refl) Hk
                (iter_opt_ext _ _ (map_deg_ext _ _ Hsa)) Hfin) as (k' & -> & Hk' & Hst).
    split; [constructor; assumption|exact Hst].
  - (* access *)
    destruct (dj_access_inv _ _ _ _ _ Hj) as (Ha & Hk).
    match goal with |- context [let '(b, acc') := ?t in _] => destruct t as [b0 acc'] eqn:Ea end.
    destruct (pd_acc_good acc IHacc Hag Ha _ _ _ Ea) as [Hja Hsa]. intros Hfin.
    assert (Hfin' : match opt_index_adjust acc' (denv_degree env v) with
                    | Some rg => sc_set_deg b0 (EAccess v acc' k) rg
                    | None => (b0, EAccess v acc' k)
                    end = (b, e')).
    { unfold opt_index_adjust. destruct (denv_degree env v); exact Hfin. }
    destruct (sc_finish (fun k0 => EAccess v acc' k0) k _ _ b0 b e' (fun _ => eq_refl) (fun _ _ => eq_refl) Hk
                (opt_index_adjust_ext _ _ _ _ Hsa (dext_refl _)) Hfin') as (k' & -> & Hk' & Hst).
    split; [constructor; assumption|exact Hst].
  - (* update *)
    destruct (dj_update_inv _ _ _ _ _ _ Hj) as (Ha & Hr & Hk).
    apply Forall_cons_iff in Hag as [Hagv Hag]. apply Forall_app in Hag as [Hag1 Hag2].
    destruct (pd_expr env rhe) as [b1 rhe'] eqn:Er. destruct (IHrhe Hag1 Hr _ _ Er) as [Hjr Hsr].
    match goal with |- context [let '(b, acc') := ?t in _] => destruct t as [b0 acc'] eqn:Ea end.
    destruct (pd_acc_good acc IHacc Hag2 Ha _ _ _ Ea) as [Hja Hsa]. intros Hfin.
    assert (Hfin' : match opt_index_adjust acc' (ubase un env v (expr_deg rhe')) with
                    | Some rg => sc_set_deg b0 (EUpdate v acc' rhe' k) rg
                    | None => (b0, EUpdate v acc' rhe' k)
                    end = (b, e')).
    { unfold opt_index_adjust, ubase. unfold agree in Hagv.
      destruct (denv_degree env v) as [rv|]; [destruct (iter_opt [Some rv; expr_deg rhe']); exact Hfin|].
      rewrite (Hagv eq_refl) in Hfin. destruct (un v); cbn [negb] in Hfin; [|exact Hfin].
      destruct (expr_deg rhe'); exact Hfin. }
    destruct (sc_finish (fun k0 => EUpdate v acc' rhe' k0) k _ _ b0 b e' (fun _ => eq_refl) (fun _ _ => eq_refl) Hk
                (opt_index_adjust_ext _ _ _ _ Hsa (ubase_ext un env v _ _ Hsr)) Hfin') as (k' & -> & Hk' & Hst).
    split; [constructor; assumption|exact Hst].
  - (* phi: not below the top of a statement *)
    destruct (dj_phi_inv _ _ _ _ Hj).
Qed.

(* the expression at the top of an assignment: a phi is judged under the control m *)
Definition etop (m : mctl) (e : expr) : Prop :=
  match e with
  | EPhi args k => dclaim k (phi_adjust m (iter_opt (map (denv_degree env) args)))
  | _ => dejust un env e
  end.

Lemma dejust_etop m e : dejust un env e -> etop m e.
Proof. intros H. destruct e; try exact H. destruct (dj_phi_inv _ _ _ _ H). Qed.

Lemma pd_top_good m e b e' :
  Forall agree (update_bases e) -> mctl_le (de_ctl env) m -> etop m e -> pd_expr env e = (b, e') ->
  etop m e' /\ dstable e e'.
Proof.
  intros Hag Hm Hj Hpd.
  destruct e as [z k|v k|op l r k|op x k|c t f k|n args k|vs k|v acc k|v acc rhe k|args k];
    try (cbn [etop] in Hj; destruct (pd_expr_good _ Hag Hj _ _ Hpd) as [H1 H2]; split; [apply dejust_etop; exact H1|exact H2]).
  cbn [etop] in Hj. cbn [pd_expr] in Hpd. destruct Hm as [Hm|Hm].
  - rewrite Hm in Hpd. cbn [phi_adjust] in Hpd. injection Hpd as <- <-. split; [exact Hj|apply dstable_refl].
  - rewrite Hm in Hpd.
    destruct (sc_finish (fun k0 => EPhi args k0) k _ _ false b e' (fun _ => eq_refl) (fun _ _ => eq_refl) Hj (dext_refl _) Hpd)
      as (k' & -> & Hk' & Hst).
    split; [exact Hk'|exact Hst].
Qed.
End Expr.

(* ================= Part 2: statements ================= *)
Definition LL : drange := (DLin, DLin).

(* a statement of a block whose control is m *)
Definition dsjust (un : vname -> bool) (env : denv) (m : mctl) (s : stmt) : Prop :=
  match s with
  | SSubst _ _ _ rhe _ _ => etop un env m rhe
  | _ => Forall (dejust un env) (stmt_exprs s)
  end.

Definition def_deg (s : stmt) : option drange :=
  match s with SSubst _ _ _ rhe _ _ => expr_deg rhe | _ => None end.

Lemma etop_mono un env env' m m' e :
  denv_le env env' -> (forall v, un v = true -> denv_degree env' v = None) -> mctl_le m m' ->
  etop un env m e -> etop un env' m' e.
Proof.
  intros Hle Hun Hm H. destruct e; try (cbn [etop] in *; eapply dejust_mono; eauto).
  cbn [etop] in *. eapply dclaim_mono; [|exact H]. intros r Hr.
  apply (phi_adjust_mctl m m' _ Hm). revert r Hr. apply phi_adjust_ext. apply iter_opt_ext.
  apply map_degree_ext. exact (proj1 Hle).
Qed.

Lemma dsjust_mono un env env' m m' s :
  denv_le env env' -> (forall v, un v = true -> denv_degree env' v = None) -> mctl_le m m' ->
  dsjust un env m s -> dsjust un env' m' s.
Proof.
  intros Hle Hun Hm H.
  destruct s; cbn [dsjust] in *;
    try (rewrite Forall_forall in *; intros e0 He; eapply dejust_mono; [exact Hle|exact Hun|]; apply H; exact He).
  eapply etop_mono; eauto.
Qed.

(* the skeleton the control is read from: a statement stays a branch or stays none,
   and the claim on a branch condition is stable *)
Definition cond_of (s : stmt) : option expr := match s with SIf _ c _ _ => Some c | _ => None end.
Definition oext (a a' : option expr) : Prop :=
  match a, a' with
  | Some c, Some c' => dstable c c'
  | None, None => True
  | _, _ => False
  end.
Definition sext (s s' : stmt) : Prop := oext (cond_of s) (cond_of s').

Lemma oext_refl a : oext a a. Proof. destruct a; cbn; [apply dstable_refl|exact I]. Qed.

Definition la_exprs (args : list logarg) : list expr :=
  flat_map (fun a => match a with LExpr e => [e] | LStr => [] end) args.

Lemma pd_logargs_good un env es :
  Forall (agree un env) (flat_map update_bases (la_exprs es)) -> Forall (dejust un env) (la_exprs es) ->
  forall res b es', pd_logargs env res es = (b, es') -> Forall (dejust un env) (la_exprs es').
Proof.
  induction es as [|a tl IH]; intros Ha Hj res b es'; cbn [pd_logargs].
  - intros [= <- <-]. constructor.
  - destruct a as [|x]; cbn [la_exprs flat_map app] in Ha, Hj.
    + destruct (pd_logargs env res tl) as [b2 tl'] eqn:Et. intros [= <- <-].
      cbn [la_exprs flat_map app]. eapply IH; eauto.
    + cbn [flat_map] in Ha. apply Forall_app in Ha as [Ha1 Ha2]. apply Forall_cons_iff in Hj as [Hj1 Hj2].
      destruct res.
      * intros [= <- <-]. cbn [la_exprs flat_map app]. constructor; assumption.
      * destruct (pd_expr env x) as [b1 x'] eqn:Ex. destruct (pd_logargs env b1 tl) as [b2 tl'] eqn:Et.
        intros [= <- <-]. cbn [la_exprs flat_map app]. constructor.
        -- exact (proj1 (pd_expr_good un env x Ha1 Hj1 _ _ Ex)).
        -- eapply IH; eauto.
Qed.

(* one name of a declaration *)
Definition decl_step (env : denv) (res : bool) (t : vtype) (n : vname) : denv * bool :=
  if is_sig_or_comp t then
    (if res then (env, true)
     else let '(e1, b) := denv_set_degree env n (DLin, DLin) in (e1, b))
  else (env, res).

Lemma decl_step_spec env res t n env1 res1 :
  (is_sig_or_comp t = true -> forall r0, denv_degree env n = Some r0 -> r0 = LL) ->
  decl_step env res t n = (env1, res1) ->
  denv_le env env1 /\
  (forall w r, denv_degree env1 w = Some r ->
     denv_degree env w = Some r \/ (w = n /\ is_sig_or_comp t = true /\ r = LL)) /\
  (forall w, denv_is_assigned env1 w = denv_is_assigned env w) /\
  (res1 = false -> res = false /\ (is_sig_or_comp t = true -> denv_degree env1 n <> None)).
Proof.
  intros Hpre. unfold decl_step. destruct (is_sig_or_comp t) eqn:Et.
  - destruct res.
    + intros [= <- <-]. split; [apply denv_le_refl|]. split; [auto|]. split; [auto|]. discriminate.
    + pose proof (degree_set_degree env n (DLin, DLin)) as Hd.
      destruct (denv_set_degree env n (DLin, DLin)) as [e1 b1] eqn:Es. cbn [fst] in Hd.
      assert (Ha : forall w, denv_is_assigned e1 w = denv_is_assigned env w)
        by (unfold denv_set_degree in Es; injection Es as <- _; reflexivity).
      intros [= <- <-]. split; [|split; [|split]].
      * split.
        -- intros v r Hv. rewrite Hd. destruct (vname_eqb n v) eqn:E; [|exact Hv].
           apply vname_eqb_eq in E. subst v. f_equal. symmetry. exact (Hpre eq_refl _ Hv).
        -- intros v Hv. rewrite Ha. exact Hv.
      * intros w r Hw. rewrite Hd in Hw. destruct (vname_eqb n w) eqn:E; [|left; exact Hw].
        apply vname_eqb_eq in E. subst w. right. injection Hw as <-. auto.
      * exact Ha.
      * intros _. split; [reflexivity|]. intros _. rewrite Hd, vname_eqb_refl. discriminate.
  - intros [= <- <-]. split; [apply denv_le_refl|]. split; [auto|]. split; [auto|].
    intros ->. split; [reflexivity|discriminate].
Qed.

Lemma pd_decl_names_spec t : forall names env res b env',
  (is_sig_or_comp t = true -> forall n r0, In n names -> denv_degree env n = Some r0 -> r0 = LL) ->
  pd_decl_names env res t names = (b, env') ->
  denv_le env env' /\
  (forall w r, denv_degree env' w = Some r ->
     denv_degree env w = Some r \/ (In w names /\ is_sig_or_comp t = true /\ r = LL)) /\
  (forall w, denv_is_assigned env' w = denv_is_assigned env w) /\
  (b = false -> res = false /\ (is_sig_or_comp t = true -> forall n, In n names -> denv_degree env' n <> None)).
Proof.
  induction names as [|n tl IH]; intros env res b env' Hpre.
  - cbn [pd_decl_names]. intros [= <- <-]. split; [apply denv_le_refl|]. split; [auto|]. split; [auto|].
    intros ->. split; [reflexivity|]. intros _ n [].
  - change (pd_decl_names env res t (n :: tl))
      with (let '(env1, res1) := decl_step env res t n in pd_decl_names (denv_set_type env1 n t) res1 t tl).
    destruct (decl_step env res t n) as [env1 res1] eqn:Es.
    destruct (decl_step_spec env res t n env1 res1 (fun Ht r0 => Hpre Ht n r0 (or_introl eq_refl)) Es)
      as (Hle1 & Hnew1 & Has1 & Hb1).
    intros Ht.
    assert (Hpre2 : is_sig_or_comp t = true -> forall n' r0, In n' tl ->
                    denv_degree (denv_set_type env1 n t) n' = Some r0 -> r0 = LL).
    { intros Hs n' r0 Hin Hd. change (denv_degree env1 n' = Some r0) in Hd.
      destruct (Hnew1 _ _ Hd) as [Hold|(_ & _ & ->)]; [|reflexivity]. eapply Hpre; eauto. right. exact Hin. }
    destruct (IH (denv_set_type env1 n t) res1 b env' Hpre2 Ht) as (Hle2 & Hnew2 & Has2 & Hb2).
    assert (Hle2' : denv_le env1 env') by exact Hle2.
    split; [eapply denv_le_trans; eauto|]. split; [|split].
    + intros w r Hw. destruct (Hnew2 w r Hw) as [Hold|(Hin & Hs & ->)].
      * change (denv_degree env1 w = Some r) in Hold.
        destruct (Hnew1 _ _ Hold) as [Hold1|(-> & Hs & ->)]; [left; exact Hold1|].
        right. split; [left; reflexivity|auto].
      * right. split; [right; exact Hin|auto].
    + intros w. rewrite Has2. change (denv_is_assigned env1 w = denv_is_assigned env w). apply Has1.
    + intros Hb. destruct (Hb2 Hb) as [Hr1 Hall]. destruct (Hb1 Hr1) as [Hr Hn]. split; [exact Hr|].
      intros Hs n' [<-|Hin].
      * specialize (Hn Hs). destruct (denv_degree env1 n) as [r|] eqn:E; [|congruence].
        rewrite (proj1 Hle2' _ _ E). discriminate.
      * apply Hall; assumption.
Qed.

Definition stmt_post (un : vname -> bool) (env : denv) (m : mctl) (s : stmt) (b : bool) (s' : stmt) (env' : denv) : Prop :=
  sext s s' /\ de_ctl env' = de_ctl env /\
  denv_le env env' /\ dsjust un env m s' /\ dext (def_deg s) (def_deg s') /\
  (forall w r, denv_degree env' w = Some r ->
     denv_degree env w = Some r \/
     (tgt s' = Some w /\ is_ldef s' = true /\ def_deg s' = Some r) \/
     (exists names t, sdecl s = Some (names, t) /\ In w names /\ is_sig_or_comp t = true /\ r = LL)) /\
  (forall w, denv_is_assigned env' w = true ->
     denv_is_assigned env w = true \/ (tgt s' = Some w /\ is_ldef s' = true)) /\
  (b = false ->
     (forall v, tgt s = Some v -> is_ldef s = true -> denv_is_assigned env' v = true) /\
     (forall names t n, sdecl s = Some (names, t) -> is_sig_or_comp t = true -> In n names ->
        denv_degree env' n <> None)).

Lemma post_same_env un env m s b s' :
  sext s s' -> dsjust un env m s' -> def_deg s = None -> tgt s = None -> sdecl s = None -> stmt_post un env m s b s' env.
Proof.
  intros Hx Hj Hd Ht Hs. split; [exact Hx|]. split; [reflexivity|]. split; [apply denv_le_refl|]. split; [exact Hj|]. split; [rewrite Hd; intros r; discriminate|].
  split; [auto|]. split; [auto|]. intros _. split.
  - intros v Hv. congruence.
  - intros names t n Hn. congruence.
Qed.

Lemma Forall1 {A} (P : A -> Prop) x : P x -> Forall P [x].
Proof. intros H. constructor; [exact H|constructor]. Qed.

Lemma pd_decl_names_ctl t : forall names env res, de_ctl (snd (pd_decl_names env res t names)) = de_ctl env.
Proof.
  induction names as [|n tl IH]; intros env res; [reflexivity|]. cbn [pd_decl_names].
  destruct (is_sig_or_comp t); [destruct res|]; unfold denv_set_degree; rewrite IH; reflexivity.
Qed.

Lemma pd_stmt_good un env m s b s' env' :
  mctl_le (de_ctl env) m ->
  dsjust un env m s -> Forall (agree un env) (stmt_update_bases s) ->
  (forall v r0, tgt s = Some v -> is_ldef s = true -> denv_degree env v = Some r0 -> def_deg s = Some r0) ->
  (forall names t n r0, sdecl s = Some (names, t) -> is_sig_or_comp t = true -> In n names ->
     denv_degree env n = Some r0 -> r0 = LL) ->
  pd_stmt env s = (b, s', env') -> stmt_post un env m s b s' env'.
Proof.
  intros Hm Hj Hag Hov1 Hov2. unfold stmt_update_bases in Hag.
  destruct s; cbn [dsjust stmt_exprs flat_map] in Hj, Hag; cbn [pd_stmt]; rewrite ?app_nil_r in Hag.
  - (* declaration *)
    pose proof (pd_decl_names_ctl t names env false) as Hctl.
    destruct (pd_decl_names env false t names) as [b1 env1] eqn:Ed. cbn [snd] in Hctl. intros [= <- <- <-].
    destruct (pd_decl_names_spec t names env false b1 env1
                (fun Hs n r0 Hin Hd => Hov2 names t n r0 eq_refl Hs Hin Hd) Ed) as (Hle & Hnew & Has & Hb).
    split; [exact I|]. split; [exact Hctl|].
    split; [exact Hle|]. split; [exact Hj|]. split; [apply dext_refl|]. split; [|split].
    + intros w r Hw. destruct (Hnew w r Hw) as [Hold|(Hin & Hs & ->)]; [left; exact Hold|].
      right. right. exists names, t. auto.
    + intros w Hw. left. rewrite Has in Hw. exact Hw.
    + intros Hb1. destruct (Hb Hb1) as [_ Hall]. split.
      * intros v Hv. discriminate.
      * intros names0 t0 n [= <- <-] Hs Hin. apply Hall; assumption.
  - (* if *)
    apply Forall_cons_iff in Hj as [Hj _].
    destruct (pd_expr env c) as [b1 c'] eqn:E. intros [= <- <- <-].
    destruct (pd_expr_good un env c Hag Hj _ _ E) as [Hj' Hst].
    apply post_same_env; try reflexivity; [exact Hst|]. apply Forall1. exact Hj'.
  - (* return *)
    apply Forall_cons_iff in Hj as [Hj _].
    destruct (pd_expr env e) as [b1 e1] eqn:E. intros [= <- <- <-].
    apply post_same_env; try reflexivity; try exact I. apply Forall1. exact (proj1 (pd_expr_good un env e Hag Hj _ _ E)).
  - (* substitution *)
    destruct (pd_expr env rhe) as [b1 rhe'] eqn:E.
    destruct (pd_top_good un env m rhe _ _ Hag Hm Hj E) as [Hj' Hst].
    assert (Hsame : forall b0, stype_is_local stype = false ->
              stmt_post un env m (SSubst m0 v op rhe sval stype) b0 (SSubst m0 v op rhe' sval stype) env).
    { intros b0 El. split; [exact I|]. split; [reflexivity|].
      split; [apply denv_le_refl|]. split; [exact Hj'|]. split; [exact Hst|].
      split; [auto|]. split; [auto|]. intros _. split.
      - intros v0 _. cbn [is_ldef]. congruence.
      - intros names t n Hn. discriminate. }
    assert (Hasg : forall b0,
              stmt_post un env m (SSubst m0 v op rhe sval stype) b0 (SSubst m0 v op rhe' sval stype) (denv_set_assigned env v) \/
              stype_is_local stype = false).
    { intros b0. destruct (stype_is_local stype) eqn:El; [left|right; reflexivity].
      split; [exact I|]. split; [reflexivity|].
      split; [|split; [exact Hj'|split; [exact Hst|split; [auto|split]]]].
      - split; [auto|]. intros w Hw. unfold denv_is_assigned, denv_set_assigned. cbn [de_assigned existsb].
        apply orb_true_iff. right. exact Hw.
      - intros w Hw. unfold denv_is_assigned, denv_set_assigned in Hw. cbn [de_assigned existsb] in Hw.
        apply orb_true_iff in Hw as [Hw|Hw]; [|left; exact Hw].
        apply vname_eqb_eq in Hw. subst w. right. cbn [tgt is_ldef]. auto.
      - intros _. split.
        + intros v0 [= <-] _. unfold denv_is_assigned, denv_set_assigned. cbn [de_assigned existsb].
          rewrite vname_eqb_refl. reflexivity.
        + intros names t n Hn. discriminate. }
    destruct (stype_is_local stype) eqn:El; [|intros [= <- <- <-]; apply Hsame; reflexivity].
    destruct (expr_deg rhe') as [rg|] eqn:Ed.
    + destruct b1.
      * intros [= <- <- <-]. destruct (Hasg true) as [H|H]; [exact H|discriminate].
      * pose proof (degree_set_degree (denv_set_assigned env v) v rg) as Hd.
        destruct (denv_set_degree (denv_set_assigned env v) v rg) as [env2 b2] eqn:Es. cbn [fst] in Hd.
        assert (Ha2 : forall w, denv_is_assigned env2 w = denv_is_assigned (denv_set_assigned env v) w)
          by (unfold denv_set_degree in Es; injection Es as <- _; reflexivity).
        assert (Hc2 : de_ctl env2 = de_ctl env)
          by (unfold denv_set_degree in Es; injection Es as <- _; reflexivity).
        intros [= <- <- <-].
        destruct (Hasg b2) as [(_ & _ & Hle & _ & _ & _ & Hna & Hb)|H]; [|discriminate].
        split; [exact I|]. split; [exact Hc2|].
        split; [|split; [exact Hj'|split; [exact Hst|split; [|split]]]].
        -- split.
           ++ intros w r Hw. rewrite Hd. destruct (vname_eqb v w) eqn:Ev; [|exact Hw].
              apply vname_eqb_eq in Ev. subst w. cbn [tgt is_ldef def_deg] in Hov1.
              specialize (Hov1 v r eq_refl El Hw). apply Hst in Hov1. congruence.
           ++ intros w Hw. rewrite Ha2. apply (proj2 Hle). exact Hw.
        -- intros w r Hw. rewrite Hd in Hw. destruct (vname_eqb v w) eqn:Ev; [|left; exact Hw].
           apply vname_eqb_eq in Ev. subst w. right. left. cbn [tgt is_ldef def_deg]. split; [reflexivity|].
           split; [exact El|congruence].
        -- intros w Hw. rewrite Ha2 in Hw. apply Hna. exact Hw.
        -- intros _. split.
           ++ intros v0 [= <-] _. rewrite Ha2. unfold denv_is_assigned, denv_set_assigned. cbn [de_assigned existsb].
              rewrite vname_eqb_refl. reflexivity.
           ++ intros names t n Hn. discriminate.
    + intros [= <- <- <-]. destruct (Hasg b1) as [H|H]; [exact H|discriminate].
  - (* constraint equality *)
    apply Forall_cons_iff in Hj as [Hjl Hjr]. apply Forall_cons_iff in Hjr as [Hjr _].
    apply Forall_app in Hag as [Hag1 Hag2].
    destruct (pd_expr env l) as [b1 l'] eqn:El.
    pose proof (proj1 (pd_expr_good un env l Hag1 Hjl _ _ El)) as Hjl'.
    destruct b1.
    + intros [= <- <- <-]. apply post_same_env; try reflexivity; try exact I. constructor; [exact Hjl'|apply Forall1; exact Hjr].
    + destruct (pd_expr env r) as [b2 r'] eqn:Er. intros [= <- <- <-].
      apply post_same_env; try reflexivity; try exact I. constructor; [exact Hjl'|apply Forall1].
      exact (proj1 (pd_expr_good un env r Hag2 Hjr _ _ Er)).
  - (* log *)
    destruct (pd_logargs env false args) as [b1 args'] eqn:E. intros [= <- <- <-].
    apply post_same_env; try reflexivity; try exact I. exact (pd_logargs_good un env args Hag Hj _ _ _ E).
  - (* assert *)
    apply Forall_cons_iff in Hj as [Hj _].
    destruct (pd_expr env e) as [b1 e1] eqn:E. intros [= <- <- <-].
    apply post_same_env; try reflexivity; try exact I. apply Forall1. exact (proj1 (pd_expr_good un env e Hag Hj _ _ E)).
Qed.

(* ================= Part 3: the whole statement list ================= *)
Lemma vtype_eqb_eq a b : vtype_eqb a b = true <-> a = b.
Proof. destruct a, b; cbn; split; congruence. Qed.

Lemma not_sig_local t : is_sig_or_comp t = false -> t = TLocal.
Proof. destruct t; cbn; congruence. Qed.

Lemma defines_ssig v s : defines v s = sg_defines v (ssig s).
Proof. destruct s; reflexivity. Qed.

Lemma existsb_defines_ssig v ss : existsb (defines v) ss = existsb (sg_defines v) (map ssig ss).
Proof. induction ss as [|s tl IH]; [reflexivity|]. cbn [map existsb]. rewrite defines_ssig, IH. reflexivity. Qed.

Definition sq (x : ssg) : option vname * bool := (sg_tgt x, sg_ldef x).

Lemma sigq_ssig ss : map sigq ss = map sq (map ssig ss).
Proof. rewrite map_map. apply map_ext. intros s. reflexivity. Qed.

Lemma ssig_tgt s s' : ssig s' = ssig s -> tgt s' = tgt s.
Proof. intros H. change (sg_tgt (ssig s') = sg_tgt (ssig s)). rewrite H. reflexivity. Qed.
Lemma ssig_ldef s s' : ssig s' = ssig s -> is_ldef s' = is_ldef s.
Proof. intros H. change (sg_ldef (ssig s') = sg_ldef (ssig s)). rewrite H. reflexivity. Qed.
Lemma ssig_sdecl s s' : ssig s' = ssig s -> sdecl s' = sdecl s.
Proof. intros H. change (sg_decl (ssig s') = sg_decl (ssig s)). rewrite H. reflexivity. Qed.

(* the validator's functions with the statement list made explicit *)
Definition vrange (c : cfg) (ss : list stmt) (v : vname) : option drange :=
  if is_param c v then
    if existsb (defines v) ss then None
    else Some (match c_kind c with KFunction => (DConst, DLin) | _ => (DConst, DConst) end)
  else
    match decl_of c v with
    | Some TLocal => local_def_range ss v
    | Some _ => Some (DLin, DLin)
    | None => None
    end.

Lemma var_range_vrange c bs v : var_range (set_blocks c bs) v = vrange c (all_stmts bs) v.
Proof. reflexivity. Qed.

Definition unas (c : cfg) (L : list ssg) (v : vname) : bool :=
  negb (existsb (sg_defines v) L) && negb (is_param c v) &&
  match decl_of c v with Some TLocal | None => true | Some _ => false end.

Lemma unassigned_unas c bs v : unassigned (set_blocks c bs) v = unas c (map ssig (all_stmts bs)) v.
Proof. unfold unassigned, unas. cbn [set_blocks c_blocks]. rewrite existsb_defines_ssig. reflexivity. Qed.

Lemma ddef_ok_spec v r s :
  ddef_ok v r s = true <-> (tgt s = Some v -> is_ldef s = true /\ def_deg s = Some r).
Proof.
  destruct s; cbn [ddef_ok tgt is_ldef def_deg]; try (split; [discriminate|reflexivity]).
  destruct (vname_eqb v0 v) eqn:E.
  - apply vname_eqb_eq in E. subst v0. rewrite andb_true_iff, opt_drange_eqb_eq. split; [intros H _; exact H|auto].
  - split; [|reflexivity]. intros _ [= ->]. rewrite vname_eqb_refl in E. discriminate.
Qed.

Lemma ddef_ok_other v r s : tgt s <> Some v -> ddef_ok v r s = true.
Proof. intros H. apply ddef_ok_spec. intros H'. contradiction. Qed.

Lemma local_def_range_spec ss v r :
  local_def_range ss v = Some r <-> existsb (defines v) ss = true /\ forallb (ddef_ok v r) ss = true.
Proof.
  unfold local_def_range. split.
  - destruct (filter (defines v) ss) as [|x tl] eqn:Ef; [discriminate|].
    assert (Hx : In x ss /\ defines v x = true) by (apply filter_In; rewrite Ef; left; reflexivity).
    destruct x; try discriminate. destruct (expr_deg rhe) as [r'|]; [|discriminate].
    destruct (forallb (ddef_ok v r') ss) eqn:Efa; [|discriminate]. intros [= <-]. split; [|exact Efa].
    apply existsb_exists. eexists. exact Hx.
  - intros [He Hf]. apply existsb_exists in He as (x & Hin & Hd).
    assert (Hxf : In x (filter (defines v) ss)) by (apply filter_In; auto).
    destruct (filter (defines v) ss) as [|y tl] eqn:Ef; [contradiction|].
    assert (Hy : In y ss /\ defines v y = true) by (apply filter_In; rewrite Ef; left; reflexivity).
    destruct Hy as [Hyin Hyd]. rewrite forallb_forall in Hf. pose proof (Hf y Hyin) as Hok.
    apply defines_tgt in Hyd. destruct (proj1 (ddef_ok_spec v r y) Hok Hyd) as [_ Hdg].
    destruct y; try discriminate. cbn [def_deg] in Hdg. rewrite Hdg.
    replace (forallb (ddef_ok v r) ss) with true; [reflexivity|].
    symmetry. apply forallb_forall. exact Hf.
Qed.

Lemma sgs_wf_at c : forall LA before x LB, sgs_wf c before (LA ++ x :: LB) = true ->
  sg_wf_head c x = true /\ forallb (ub_ok c (rev LA ++ before) (x :: LB)) (sg_ub x) = true.
Proof.
  induction LA as [|y tl IH]; intros before x LB; cbn [app sgs_wf]; rewrite !andb_true_iff.
  - intros [[H1 H2] _]. cbn [rev app]. auto.
  - intros [_ H]. specialize (IH _ _ _ H). cbn [rev]. rewrite <- app_assoc. cbn [app]. exact IH.
Qed.

Lemma wf_head_tgt c x v : sg_wf_head c x = true -> sg_tgt x = Some v ->
  is_param c v = false /\ exists t, decl_of c v = Some t /\ sg_ldef x = negb (is_sig_or_comp t).
Proof.
  unfold sg_wf_head. intros H Ht. rewrite Ht in H. apply andb_true_iff in H as [H _].
  apply andb_true_iff in H as [H1 H2]. apply negb_true_iff in H1. split; [exact H1|].
  destruct (decl_of c v) as [t|]; [|discriminate]. exists t. split; [reflexivity|]. apply eqb_prop. exact H2.
Qed.

Lemma wf_head_decl c x names t n : sg_wf_head c x = true -> sg_decl x = Some (names, t) -> In n names ->
  is_param c n = false /\ decl_of c n = Some t.
Proof.
  unfold sg_wf_head. intros H Hd Hin. rewrite Hd in H. apply andb_true_iff in H as [_ H].
  rewrite forallb_forall in H. specialize (H n Hin). apply andb_true_iff in H as [H1 H2].
  apply negb_true_iff in H1. split; [exact H1|]. destruct (decl_of c n) as [t'|]; [|discriminate].
  apply vtype_eqb_eq in H2. congruence.
Qed.

Lemma vrange_sig c ss v t : is_param c v = false -> decl_of c v = Some t -> is_sig_or_comp t = true ->
  vrange c ss v = Some LL.
Proof. intros Hp Hd Hs. unfold vrange. rewrite Hp, Hd. destruct t; try reflexivity. discriminate. Qed.

Lemma vrange_local c ss v : is_param c v = false -> decl_of c v = Some TLocal -> vrange c ss v = local_def_range ss v.
Proof. intros Hp Hd. unfold vrange. rewrite Hp, Hd. reflexivity. Qed.

(* the static signature only reads the erased statement *)
Lemma ub_eerase e : update_bases (eerase e) = update_bases e.
Proof.
  induction e as [z k|v k|op l r k IHl IHr|op e k IHe|c t f k IHc IHt IHf|n args k IHargs|vs k IHvs
                  |v acc k IHacc|v acc rhe k IHacc IHrhe|args k] using expr_ind'; cbn [eerase update_bases].
  - reflexivity.
  - reflexivity.
  - rewrite IHl, IHr. reflexivity.
  - exact IHe.
  - rewrite IHc, IHt, IHf. reflexivity.
  - rewrite elist_map. induction args as [|x tl IH]; [reflexivity|].
    apply Forall_cons_iff in IHargs as [H1 H2]. cbn [map flat_map]. rewrite H1, (IH H2). reflexivity.
  - rewrite elist_map. induction vs as [|x tl IH]; [reflexivity|].
    apply Forall_cons_iff in IHvs as [H1 H2]. cbn [map flat_map]. rewrite H1, (IH H2). reflexivity.
  - induction acc as [|a tl IH]; [reflexivity|]. destruct a as [x|n]; cbn [acc_exprs flat_map app] in IHacc.
    + apply Forall_cons_iff in IHacc as [H1 H2]. cbn [flat_map]. rewrite H1. f_equal. apply IH. exact H2.
    + cbn [flat_map app]. apply IH. exact IHacc.
  - f_equal. rewrite IHrhe. f_equal.
    induction acc as [|a tl IH]; [reflexivity|]. destruct a as [x|n]; cbn [acc_exprs flat_map app] in IHacc.
    + apply Forall_cons_iff in IHacc as [H1 H2]. cbn [flat_map]. rewrite H1. f_equal. apply IH. exact H2.
    + cbn [flat_map app]. apply IH. exact IHacc.
  - reflexivity.
Qed.

Lemma ssig_serase s : ssig (serase s) = ssig s.
Proof.
  unfold ssig. replace (stmt_update_bases (serase s)) with (stmt_update_bases s); [destruct s; reflexivity|].
  unfold stmt_update_bases. destruct s; cbn [serase stmt_exprs flat_map]; rewrite ?ub_eerase; try reflexivity.
  - induction dims as [|x tl IH]; [reflexivity|]. cbn [map flat_map]. rewrite ub_eerase, IH. reflexivity.
  - induction args as [|a tl IH]; [reflexivity|]. destruct a as [|x]; cbn [map elogarg flat_map app]; [exact IH|].
    rewrite ub_eerase, IH. reflexivity.
Qed.

Lemma pd_stmt_ssig env s : ssig (snd (fst (pd_stmt env s))) = ssig s.
Proof. rewrite <- (ssig_serase (snd (fst (pd_stmt env s)))), pd_stmt_pres. apply ssig_serase. Qed.

(* ---------- the control of a block only grows ---------- *)
Definition dflt_stmt : stmt := SLog {| m_start := 0%N; m_end := 0%N; m_file := None |} [].
Definition last_c (b : block) : option expr := cond_of (last (b_stmts b) dflt_stmt).

Lemma last_cond_c b : last_cond b = last_c b.
Proof. unfold last_cond, last_c, dflt_stmt. destruct (last (b_stmts b) _); reflexivity. Qed.

(* a condition that has a claim keeps it: what is known non-constant stays so, and a
   condition with a claim is never unknown again *)
Lemma cond_nonconst_stable c0 c1 : dstable c0 c1 -> cond_nonconst c0 = true -> cond_nonconst c1 = true.
Proof.
  unfold cond_nonconst. intros H. destruct (expr_deg c0) as [rg|] eqn:E; [|discriminate].
  rewrite (H _ E). auto.
Qed.

Lemma cond_known_stable c0 c1 : dstable c0 c1 -> cond_unknown c0 = false ->
  cond_unknown c1 = false /\ cond_nonconst c1 = cond_nonconst c0.
Proof.
  unfold cond_unknown, cond_nonconst. intros H. destruct (expr_deg c0) as [rg|] eqn:E; [|discriminate].
  rewrite (H _ E). auto.
Qed.

Lemma existsb_nonconst_stable cs cs' : Forall2 dstable cs cs' ->
  existsb cond_nonconst cs = true -> existsb cond_nonconst cs' = true.
Proof.
  induction 1 as [|x y l l' Hxy _ IH]; cbn [existsb]; [auto|].
  intros H0. apply orb_true_iff in H0 as [H0|H0]; apply orb_true_iff.
  - left. eapply cond_nonconst_stable; eauto.
  - right. auto.
Qed.

Lemma existsb_known_stable cs cs' : Forall2 dstable cs cs' ->
  existsb cond_unknown cs = false ->
  existsb cond_unknown cs' = false /\ existsb cond_nonconst cs' = existsb cond_nonconst cs.
Proof.
  induction 1 as [|x y l l' Hxy _ IH]; cbn [existsb]; [auto|].
  intros H0. apply orb_false_iff in H0 as [H0 H1].
  destruct (cond_known_stable _ _ Hxy H0) as [-> ->]. destruct (IH H1) as [-> ->]. auto.
Qed.

(* MNonConst is returned as soon as ONE condition is known non-constant, even while
   others are unknown: that value is already final *)
Lemma ctl_of_conds_mono cs cs' : Forall2 dstable cs cs' -> mctl_le (ctl_of_conds cs) (ctl_of_conds cs').
Proof.
  intros H. unfold ctl_of_conds.
  destruct (existsb cond_nonconst cs) eqn:En.
  - rewrite (existsb_nonconst_stable _ _ H En). apply mctl_le_refl.
  - destruct (existsb cond_unknown cs) eqn:Eu; [left; reflexivity|].
    destruct (existsb_known_stable _ _ H Eu) as [-> ->]. rewrite En. apply mctl_le_refl.
Qed.

(* same index, same predecessors, a stable last condition *)
Definition bext (b b' : block) : Prop :=
  b_index b = b_index b' /\ b_preds b = b_preds b' /\ oext (last_c b) (last_c b').
Definition gext : list block -> list block -> Prop := Forall2 bext.

Lemma bext_refl b : bext b b.
Proof. split; [reflexivity|]. split; [reflexivity|apply oext_refl]. Qed.
Lemma gext_refl bs : gext bs bs.
Proof. induction bs; constructor; [apply bext_refl|assumption]. Qed.

Lemma Forall2_nth_error {A} (R : A -> A -> Prop) l l' n : Forall2 R l l' ->
  match nth_error l n, nth_error l' n with
  | Some x, Some y => R x y
  | None, None => True
  | _, _ => False
  end.
Proof. intros H. revert n. induction H as [|x y l l' Hxy H IH]; intros [|n]; cbn; try exact I; [exact Hxy|apply IH]. Qed.

Lemma Forall2_imp {A} (R R' : A -> A -> Prop) l l' : (forall x y, R x y -> R' x y) -> Forall2 R l l' -> Forall2 R' l l'.
Proof. intros HR H. induction H; constructor; auto. Qed.

Lemma Forall2_transfer {A} (R : A -> A -> Prop) (P Q : A -> Prop) l l' :
  Forall2 R l l' -> (forall x y, R x y -> P x -> Q y) -> Forall P l -> Forall Q l'.
Proof.
  intros H HR. induction H; intros HP; [constructor|].
  apply Forall_cons_iff in HP as [H1 H2]. constructor; eauto.
Qed.

(* the conditions the walk collects are the same positions of the two graphs *)
Lemma cond_at_ext bs bs' i : gext bs bs' -> Forall2 dstable (cond_at bs i) (cond_at bs' i).
Proof.
  intros Hg. unfold cond_at. pose proof (Forall2_nth_error _ _ _ (N.to_nat i) Hg) as Hn.
  destruct (nth_error bs (N.to_nat i)) as [bd|], (nth_error bs' (N.to_nat i)) as [bd'|]; try contradiction; [|constructor].
  destruct Hn as (_ & _ & Hl). rewrite (last_cond_c bd), (last_cond_c bd').
  destruct (last_c bd) as [c0|], (last_c bd') as [c1|]; cbn [oext] in Hl; try contradiction; constructor; [exact Hl|constructor].
Qed.

Lemma chain_conds_ext bs bs' idom stop : gext bs bs' -> forall fuel cur,
  Forall2 dstable (chain_conds fuel bs idom stop cur) (chain_conds fuel bs' idom stop cur).
Proof.
  intros Hg. induction fuel as [|f IH]; intros cur; cbn [chain_conds]; [constructor|].
  apply Forall2_app; [apply cond_at_ext; exact Hg|].
  destruct (opt_eqb N.eqb (Some cur) stop); [constructor|].
  destruct (nth_error idom (N.to_nat cur)) as [[d|]|]; [apply IH|constructor|constructor].
Qed.

Lemma Forall2_len {A} (R : A -> A -> Prop) l l' : Forall2 R l l' -> length l = length l'.
Proof. induction 1; cbn [length]; congruence. Qed.

Lemma flat_map_Forall2 {A B} (R : B -> B -> Prop) (f g : A -> list B) l :
  (forall x, Forall2 R (f x) (g x)) -> Forall2 R (flat_map f l) (flat_map g l).
Proof. intros H. induction l as [|x tl IH]; cbn [flat_map]; [constructor|]. apply Forall2_app; auto. Qed.

Lemma block_ctl_mono idom bs bs' b b' :
  gext bs bs' -> bext b b' -> mctl_le (block_ctl bs idom b) (block_ctl bs' idom b').
Proof.
  intros Hg (Hi & Hp & _). unfold block_ctl, deciding. rewrite <- Hi, <- Hp.
  destruct (Nat.ltb (length (b_preds b)) 2); [apply mctl_le_refl|].
  apply ctl_of_conds_mono. rewrite <- (Forall2_len _ _ _ Hg).
  apply flat_map_Forall2. intros q. apply chain_conds_ext. exact Hg.
Qed.

Lemma last_cons_ne {A} (a : A) l d : l <> [] -> last (a :: l) d = last l d.
Proof. destruct l; [congruence|reflexivity]. Qed.

Lemma last_mid {A} (X : list A) s Y d : last (X ++ s :: Y) d = last (s :: Y) d.
Proof.
  induction X as [|a tl IH]; [reflexivity|]. cbn [app]. rewrite last_cons_ne; [exact IH|].
  destruct tl; discriminate.
Qed.

Lemma bext_step blk SA s s' SC : sext s s' -> bext (set_stmts blk (SA ++ s :: SC)) (set_stmts blk (SA ++ s' :: SC)).
Proof.
  intros H. split; [reflexivity|]. split; [reflexivity|]. unfold last_c. cbn [set_stmts b_stmts].
  rewrite !last_mid. destruct SC as [|x tl]; [exact H|]. rewrite !last_cons_ne by discriminate. apply oext_refl.
Qed.

Lemma gext_mid B1 x x' B2 : bext x x' -> gext (B1 ++ x :: B2) (B1 ++ x' :: B2).
Proof. intros H. apply Forall2_app; [apply gext_refl|]. constructor; [exact H|apply gext_refl]. Qed.

Lemma set_stmts_id b : set_stmts b (b_stmts b) = b.
Proof. destruct b; reflexivity. Qed.

Lemma all_stmts_mid B1 blk X B2 : all_stmts (B1 ++ set_stmts blk X :: B2) = all_stmts B1 ++ X ++ all_stmts B2.
Proof. rewrite all_stmts_app, all_stmts_cons. reflexivity. Qed.

Lemma etop_mctl un env m m' e : mctl_le m m' -> etop un env m e -> etop un env m' e.
Proof.
  intros Hm H. destruct e; try exact H. cbn [etop] in *. eapply dclaim_mono; [|exact H]. apply phi_adjust_mctl. exact Hm.
Qed.

Lemma dsjust_mctl un env m m' s : mctl_le m m' -> dsjust un env m s -> dsjust un env m' s.
Proof. intros Hm H. destruct s; try exact H. cbn [dsjust] in *. eapply etop_mctl; eauto. Qed.

Section Lists.
Variable c : cfg.
Variable L : list ssg.
Variable idom : list (option N).
Hypothesis HWF : sgs_wf c [] L = true.
Hypothesis HU : uniq (map sq L).

Notation un := (unas c L).

Lemma head_of ss s : map ssig ss = L -> In s ss -> sg_wf_head c (ssig s) = true.
Proof.
  intros HL Hin. apply in_split in Hin as (A & B & ->). rewrite map_app in HL. cbn [map] in HL.
  rewrite <- HL in HWF. exact (proj1 (sgs_wf_at c _ _ _ _ HWF)).
Qed.

Lemma tgt_facts ss s v : map ssig ss = L -> In s ss -> tgt s = Some v ->
  is_param c v = false /\ exists t, decl_of c v = Some t /\ is_ldef s = negb (is_sig_or_comp t).
Proof. intros HL Hin Ht. exact (wf_head_tgt c (ssig s) v (head_of ss s HL Hin) Ht). Qed.

Lemma ldef_facts ss s v : map ssig ss = L -> In s ss -> tgt s = Some v -> is_ldef s = true ->
  is_param c v = false /\ decl_of c v = Some TLocal.
Proof.
  intros HL Hin Ht Hl. destruct (tgt_facts ss s v HL Hin Ht) as (Hp & t & Hd & Hld). split; [exact Hp|].
  rewrite Hl in Hld. symmetry in Hld. apply negb_true_iff in Hld. apply not_sig_local in Hld. congruence.
Qed.

Lemma decl_facts ss s names t n : map ssig ss = L -> In s ss -> sdecl s = Some (names, t) -> In n names ->
  is_param c n = false /\ decl_of c n = Some t.
Proof. intros HL Hin Hd Hn. exact (wf_head_decl c (ssig s) names t n (head_of ss s HL Hin) Hd Hn). Qed.

Lemma un_vrange_none ss v : map ssig ss = L -> un v = true -> vrange c ss v = None.
Proof.
  intros HL Hun. unfold unas in Hun. apply andb_true_iff in Hun as [Hun Hd]. apply andb_true_iff in Hun as [He Hp].
  apply negb_true_iff in He. apply negb_true_iff in Hp. unfold vrange. rewrite Hp.
  destruct (decl_of c v) as [[]|]; try discriminate; [|reflexivity].
  destruct (local_def_range ss v) as [r|] eqn:E; [|reflexivity].
  apply local_def_range_spec in E as [E _]. rewrite existsb_defines_ssig, HL in E. congruence.
Qed.

(* every binding of the environment is the range the validator gives the variable;
   an assigned flag has a defining assignment; parameters are known *)
Definition Backed (ss : list stmt) (env : denv) : Prop :=
  (forall v r, denv_degree env v = Some r -> vrange c ss v = Some r) /\
  (forall v, denv_is_assigned env v = true -> existsb (defines v) ss = true) /\
  (forall v, is_param c v = true -> denv_degree env v <> None).

(* the statements already visited in this pass without a first write *)
Definition Pre (A : list stmt) (env : denv) : Prop :=
  (forall s v, In s A -> tgt s = Some v -> is_ldef s = true -> denv_is_assigned env v = true) /\
  (forall s names t n, In s A -> sdecl s = Some (names, t) -> is_sig_or_comp t = true -> In n names ->
     denv_degree env n <> None).

Definition DInv0 (ss : list stmt) (env : denv) : Prop := Backed ss env /\ map ssig ss = L.

Lemma Backed_un ss env : Backed ss env -> map ssig ss = L -> forall v, un v = true -> denv_degree env v = None.
Proof.
  intros (E1 & _) HL v Hv. destruct (denv_degree env v) as [r|] eqn:E; [|reflexivity].
  apply E1 in E. rewrite (un_vrange_none _ v HL Hv) in E. discriminate.
Qed.

(* every statement of a block is justified under the block's control in the current graph *)
Definition GJ (bs : list block) (env : denv) : Prop :=
  Forall (fun b => Forall (dsjust un env (block_ctl bs idom b)) (b_stmts b)) bs.

Definition brel (bs : list block) (env env' : denv) (b b' : block) : Prop :=
  bext b b' /\
  forall m, mctl_le (block_ctl bs idom b) m -> Forall (dsjust un env m) (b_stmts b) -> Forall (dsjust un env' m) (b_stmts b').

Lemma GJ_transfer bs bs' env env' : Forall2 (brel bs env env') bs bs' -> GJ bs env -> GJ bs' env'.
Proof.
  intros H2.
  assert (Hg : gext bs bs') by (eapply Forall2_imp; [|exact H2]; intros x y H; exact (proj1 H)).
  unfold GJ. apply (Forall2_transfer _ _ _ _ _ H2). intros b b' (Hbe & Hall) HP.
  apply Hall; [apply block_ctl_mono; assumption|].
  eapply Forall_impl; [|exact HP]. intros t. apply dsjust_mctl. apply block_ctl_mono; assumption.
Qed.

Lemma Pre_mono A env env' : denv_le env env' -> Pre A env -> Pre A env'.
Proof.
  intros [Hd Ha] [P1 P2]. split.
  - intros s v Hin Ht Hl. apply Ha. eapply P1; eauto.
  - intros s names t n Hin Hs Ht Hn. specialize (P2 s names t n Hin Hs Ht Hn).
    destruct (denv_degree env n) as [r|] eqn:E; [|congruence]. rewrite (Hd _ _ E). discriminate.
Qed.

Lemma Pre_nil env : Pre [] env.
Proof. split; [intros s v []|intros s names t n []]. Qed.

(* the flag read by an element-wise update agrees with the static predicate *)
Lemma agree_at A s B env :
  DInv0 (A ++ s :: B) env -> Pre A env -> Forall (agree un env) (stmt_update_bases s).
Proof.
  intros ((E1 & E2 & E3) & HL) [P1 P2]. apply Forall_forall. intros v Hv Hnone.
  pose proof HWF as Hwf. rewrite <- HL, map_app in Hwf. cbn [map] in Hwf.
  apply sgs_wf_at in Hwf as [_ Hub]. rewrite app_nil_r in Hub. rewrite forallb_forall in Hub.
  specialize (Hub v Hv). destruct (un v) eqn:Eun; cbn [negb].
  - destruct (denv_is_assigned env v) eqn:Ea; [|reflexivity]. apply E2 in Ea.
    rewrite existsb_defines_ssig, HL in Ea. unfold unas in Eun. rewrite Ea in Eun. discriminate.
  - unfold ub_ok in Hub. apply orb_true_iff in Hub as [Hp|Hub]; [exfalso; exact (E3 v Hp Hnone)|].
    assert (Hloc : forall (Hno : negb (existsb (sg_defines v) (ssig s :: map ssig B)) = true)
                     (Hdl : match decl_of c v with Some TLocal | None => true | Some _ => false end = true),
               denv_is_assigned env v = true).
    { intros Hno Hdl. unfold unas in Eun. rewrite Hdl, andb_true_r in Eun.
      destruct (is_param c v) eqn:Ep; [exfalso; exact (E3 v Ep Hnone)|]. cbn [negb] in Eun. rewrite andb_true_r in Eun.
      apply negb_false_iff in Eun. rewrite <- HL, map_app, existsb_app in Eun. cbn [map] in Eun.
      apply negb_true_iff in Hno. rewrite Hno, orb_false_r in Eun.
      rewrite <- existsb_defines_ssig in Eun. apply existsb_exists in Eun as (s0 & Hin & Hd).
      apply defines_tgt in Hd.
      assert (Hin' : In s0 (A ++ s :: B)) by (apply in_or_app; left; exact Hin).
      destruct (tgt_facts _ s0 v HL Hin' Hd) as (_ & t & Ht & Hld). rewrite Ht in Hdl.
      eapply P1; eauto. rewrite Hld. destruct t; try discriminate. reflexivity. }
    destruct (decl_of c v) as [t|] eqn:Ed; [|apply Hloc; [exact Hub|reflexivity]].
    destruct (is_sig_or_comp t) eqn:Et.
    + exfalso. apply existsb_exists in Hub as (x & Hx & Hdx). apply in_rev in Hx. apply in_map_iff in Hx as (s0 & <- & Hin).
      unfold sg_declares in Hdx. cbn [ssig sg_decl] in Hdx. destruct (sdecl s0) as [[names t0]|] eqn:Es; [|discriminate].
      apply andb_true_iff in Hdx as [Ht0 Hex]. apply existsb_exists in Hex as (n & Hn & Hvn).
      apply vname_eqb_eq in Hvn. subst n. exact (P2 s0 names t0 v Hin Es Ht0 Hn Hnone).
    + apply Hloc; [exact Hub|]. apply not_sig_local in Et. subst t. reflexivity.
Qed.

Lemma vrange_replace A s s' B w r :
  ssig s' = ssig s -> dext (def_deg s) (def_deg s') ->
  vrange c (A ++ s :: B) w = Some r -> vrange c (A ++ s' :: B) w = Some r.
Proof.
  intros Hsig Hd.
  assert (Hdef : forall u, defines u s' = defines u s) by (intros u; rewrite !defines_ssig, Hsig; reflexivity).
  assert (Hex : existsb (defines w) (A ++ s' :: B) = existsb (defines w) (A ++ s :: B))
    by (rewrite !existsb_app; cbn [existsb]; rewrite Hdef; reflexivity).
  unfold vrange. rewrite Hex. destruct (is_param c w); [auto|]. destruct (decl_of c w) as [[]|]; auto.
  intros H. apply local_def_range_spec in H as [H1 H2]. apply local_def_range_spec. split; [rewrite Hex; exact H1|].
  rewrite forallb_app in *. cbn [forallb] in *. apply andb_true_iff in H2 as [HA HsB].
  apply andb_true_iff in HsB as [Hs HB]. rewrite HA, HB, andb_true_r. cbn [andb].
  apply ddef_ok_spec. intros Ht. rewrite (ssig_tgt _ _ Hsig) in Ht.
  destruct (proj1 (ddef_ok_spec w r s) Hs Ht) as [Hl Hdg]. split; [rewrite (ssig_ldef _ _ Hsig); exact Hl|].
  apply Hd. exact Hdg.
Qed.


(* replacing one statement by its propagated version keeps the invariant; m: any control
   of the statement's block not below the one recorded in the environment *)
Lemma dstep_inv A s B env m b s' env' :
  DInv0 (A ++ s :: B) env -> Pre A env -> mctl_le (de_ctl env) m -> dsjust un env m s ->
  pd_stmt env s = (b, s', env') ->
  DInv0 (A ++ s' :: B) env' /\ denv_le env env' /\ (b = false -> Pre (A ++ [s']) env') /\
  dsjust un env' m s' /\ (forall m0 t, dsjust un env m0 t -> dsjust un env' m0 t) /\
  sext s s' /\ de_ctl env' = de_ctl env.
Proof.
  intros Hi Hpre Hm Hjs Hpd. pose proof (agree_at A s B env Hi Hpre) as Hag.
  destruct Hi as ((E1 & E2 & E3) & HL).
  assert (Hins : In s (A ++ s :: B)) by (apply in_or_app; right; left; reflexivity).
  assert (Hsig : ssig s' = ssig s) by (pose proof (pd_stmt_ssig env s) as H; rewrite Hpd in H; exact H).
  assert (HL' : map ssig (A ++ s' :: B) = L) by (rewrite <- HL, !map_app; cbn [map]; rewrite Hsig; reflexivity).
  assert (Hov1 : forall v r0, tgt s = Some v -> is_ldef s = true -> denv_degree env v = Some r0 -> def_deg s = Some r0).
  { intros v r0 Ht Hl Hd. apply E1 in Hd. destruct (ldef_facts _ s v HL Hins Ht Hl) as [Hp Hdl].
    rewrite (vrange_local c _ v Hp Hdl) in Hd. apply local_def_range_spec in Hd as [_ Hd].
    rewrite forallb_forall in Hd. exact (proj2 (proj1 (ddef_ok_spec v r0 s) (Hd s Hins) Ht)). }
  assert (Hov2 : forall names t n r0, sdecl s = Some (names, t) -> is_sig_or_comp t = true -> In n names ->
                 denv_degree env n = Some r0 -> r0 = LL).
  { intros names t n r0 Hs Ht Hn Hd. apply E1 in Hd. destruct (decl_facts _ s names t n HL Hins Hs Hn) as [Hp Hdl].
    rewrite (vrange_sig c _ n t Hp Hdl Ht) in Hd. congruence. }
  destruct (pd_stmt_good un env m s b s' env' Hm Hjs Hag Hov1 Hov2 Hpd) as (Hse & Hctl & Hle & Hjs' & Hdd & Hnew & Hnewa & Hpre').
  assert (Hdef : forall u, defines u s' = defines u s) by (intros u; rewrite !defines_ssig, Hsig; reflexivity).
  assert (Hex : forall w, existsb (defines w) (A ++ s' :: B) = existsb (defines w) (A ++ s :: B))
    by (intros w; rewrite !existsb_app; cbn [existsb]; rewrite Hdef; reflexivity).
  assert (E1' : forall v r, denv_degree env' v = Some r -> vrange c (A ++ s' :: B) v = Some r).
  { intros w r Hw. destruct (Hnew w r Hw) as [Hold|[(Ht & Hl & Hdg)|(names & t & Hsd & Hin & Hsc & ->)]].
    - apply (vrange_replace A s s' B w r Hsig Hdd). apply E1. exact Hold.
    - (* a new binding, produced by this very assignment *)
      assert (Ht0 : tgt s = Some w) by (rewrite <- (ssig_tgt _ _ Hsig); exact Ht).
      assert (Hl0 : is_ldef s = true) by (rewrite <- (ssig_ldef _ _ Hsig); exact Hl).
      destruct (ldef_facts _ s w HL Hins Ht0 Hl0) as [Hp Hdl].
      rewrite (vrange_local c _ w Hp Hdl). apply local_def_range_spec. split.
      + rewrite existsb_app. cbn [existsb]. replace (defines w s') with true; [rewrite orb_true_r; reflexivity|].
        symmetry. apply defines_tgt. exact Ht.
      + assert (Hothers : forall t0, In t0 (A ++ B) -> tgt t0 <> Some w).
        { intros t0 Ht0'. pose proof HU as Hu. rewrite <- HL, map_app in Hu. cbn [map] in Hu. rewrite map_app in Hu. cbn [map] in Hu.
          assert (Hsq : sq (ssig s) = (Some w, true)) by (unfold sq; cbn [ssig sg_tgt sg_ldef]; congruence).
          rewrite Hsq in Hu. specialize (Hu (map sq (map ssig A)) (map sq (map ssig B)) w eq_refl (sq (ssig t0))).
          rewrite <- map_app, <- map_app in Hu. apply Hu. apply in_map. apply in_map. exact Ht0'. }
        rewrite forallb_app. cbn [forallb]. apply andb_true_iff. split; [|apply andb_true_iff; split].
        * apply forallb_forall. intros t0 Ht0'. apply ddef_ok_other. apply Hothers. apply in_or_app. left. exact Ht0'.
        * apply ddef_ok_spec. intros _. auto.
        * apply forallb_forall. intros t0 Ht0'. apply ddef_ok_other. apply Hothers. apply in_or_app. right. exact Ht0'.
    - destruct (decl_facts _ s names t w HL Hins Hsd Hin) as [Hp Hdl]. exact (vrange_sig c _ w t Hp Hdl Hsc). }
  assert (Hun' : forall v, un v = true -> denv_degree env' v = None).
  { intros v Hv. destruct (denv_degree env' v) as [r|] eqn:E; [|reflexivity].
    apply E1' in E. rewrite (un_vrange_none _ v HL' Hv) in E. discriminate. }
  assert (Htr : forall m0 t, dsjust un env m0 t -> dsjust un env' m0 t).
  { intros m0 t Ht. eapply dsjust_mono; [exact Hle|exact Hun'|apply mctl_le_refl|exact Ht]. }
  split; [|split; [exact Hle|split; [|split; [exact (Htr _ _ Hjs')|split; [exact Htr|split; [exact Hse|exact Hctl]]]]]].
  - split; [split; [exact E1'|split]|exact HL'].
    + intros w Hw. rewrite Hex. destruct (Hnewa w Hw) as [Hold|[Ht Hl]]; [apply E2; exact Hold|].
      rewrite <- Hex. rewrite existsb_app. cbn [existsb]. replace (defines w s') with true; [rewrite orb_true_r; reflexivity|].
      symmetry. apply defines_tgt. exact Ht.
    + intros v Hp. specialize (E3 v Hp). destruct (denv_degree env v) as [r|] eqn:E; [|congruence].
      rewrite (proj1 Hle _ _ E). discriminate.
  - intros Hb. destruct (Hpre' Hb) as [Q1 Q2]. destruct (Pre_mono A env env' Hle Hpre) as [P1 P2]. split.
    + intros s0 v Hin Ht Hl. apply in_app_or in Hin as [Hin|[<-|[]]]; [eapply P1; eauto|].
      apply Q1; [rewrite <- (ssig_tgt _ _ Hsig); exact Ht|rewrite <- (ssig_ldef _ _ Hsig); exact Hl].
    + intros s0 names t n Hin Hs Ht Hn. apply in_app_or in Hin as [Hin|[<-|[]]]; [eapply P2; eauto|].
      eapply Q2; eauto. rewrite <- (ssig_sdecl _ _ Hsig). exact Hs.
Qed.

(* the same at the level of the graph: statement s of block blk, between the statements SA
   already visited in this block visit and SC *)
Lemma gstep B1 blk B2 SA s SC env b s' env' :
  DInv0 (all_stmts (B1 ++ set_stmts blk (SA ++ s :: SC) :: B2)) env ->
  GJ (B1 ++ set_stmts blk (SA ++ s :: SC) :: B2) env ->
  Pre (all_stmts B1 ++ SA) env ->
  mctl_le (de_ctl env) (block_ctl (B1 ++ set_stmts blk (SA ++ s :: SC) :: B2) idom (set_stmts blk (SA ++ s :: SC))) ->
  pd_stmt env s = (b, s', env') ->
  DInv0 (all_stmts (B1 ++ set_stmts blk (SA ++ s' :: SC) :: B2)) env' /\
  GJ (B1 ++ set_stmts blk (SA ++ s' :: SC) :: B2) env' /\
  denv_le env env' /\ (b = false -> Pre ((all_stmts B1 ++ SA) ++ [s']) env') /\
  mctl_le (de_ctl env') (block_ctl (B1 ++ set_stmts blk (SA ++ s' :: SC) :: B2) idom (set_stmts blk (SA ++ s' :: SC))).
Proof.
  intros Hi HJ Hpre Hm Hpd.
  assert (Hflat : forall x, all_stmts (B1 ++ set_stmts blk (SA ++ x :: SC) :: B2) = (all_stmts B1 ++ SA) ++ x :: (SC ++ all_stmts B2)).
  { intros x. rewrite all_stmts_mid, <- !app_assoc. reflexivity. }
  rewrite Hflat in Hi.
  assert (Hjs : dsjust un env (block_ctl (B1 ++ set_stmts blk (SA ++ s :: SC) :: B2) idom (set_stmts blk (SA ++ s :: SC))) s).
  { pose proof HJ as H. unfold GJ in H. apply Forall_elt in H. cbn [set_stmts b_stmts] in H. apply Forall_elt in H. exact H. }
  destruct (dstep_inv _ s _ env _ b s' env' Hi Hpre Hm Hjs Hpd) as (HD & Hle & Hp' & Hjs' & Htr & Hse & Hctl).
  assert (Hbe : bext (set_stmts blk (SA ++ s :: SC)) (set_stmts blk (SA ++ s' :: SC))) by (apply bext_step; exact Hse).
  assert (Hge : gext (B1 ++ set_stmts blk (SA ++ s :: SC) :: B2) (B1 ++ set_stmts blk (SA ++ s' :: SC) :: B2))
    by (apply gext_mid; exact Hbe).
  split; [rewrite Hflat; exact HD|]. split; [|split; [exact Hle|split; [exact Hp'|]]].
  - apply (GJ_transfer (B1 ++ set_stmts blk (SA ++ s :: SC) :: B2) _ env env'); [|exact HJ].
    assert (Hsame : forall l, Forall2 (brel (B1 ++ set_stmts blk (SA ++ s :: SC) :: B2) env env') l l).
    { induction l as [|x tl IH]; constructor; [|exact IH]. split; [apply bext_refl|].
      intros m0 _ HF. eapply Forall_impl; [|exact HF]. intros t. apply Htr. }
    apply Forall2_app; [apply Hsame|]. constructor; [|apply Hsame].
    split; [exact Hbe|]. intros m0 Hm0 HF. cbn [set_stmts b_stmts] in *.
    apply Forall_app in HF as [HA HC]. apply Forall_cons_iff in HC as [Hs HC].
    apply Forall_app. split; [eapply Forall_impl; [|exact HA]; intros t; apply Htr|].
    constructor; [|eapply Forall_impl; [|exact HC]; intros t; apply Htr].
    destruct (dstep_inv _ s _ env m0 b s' env' Hi Hpre (mctl_le_trans _ _ _ Hm Hm0) Hs Hpd) as (_ & _ & _ & H & _). exact H.
  - rewrite Hctl. eapply mctl_le_trans; [exact Hm|]. apply block_ctl_mono; assumption.
Qed.

(* the statements ss2 of a block visit: SA already visited in this visit, SC untouched *)
Lemma gstmts : forall ss2 B1 blk B2 SA SC env res b ss2' env',
  DInv0 (all_stmts (B1 ++ set_stmts blk (SA ++ ss2 ++ SC) :: B2)) env ->
  GJ (B1 ++ set_stmts blk (SA ++ ss2 ++ SC) :: B2) env ->
  (res = false -> Pre (all_stmts B1 ++ SA) env) ->
  mctl_le (de_ctl env) (block_ctl (B1 ++ set_stmts blk (SA ++ ss2 ++ SC) :: B2) idom (set_stmts blk (SA ++ ss2 ++ SC))) ->
  pd_stmts env res ss2 = (b, ss2', env') ->
  DInv0 (all_stmts (B1 ++ set_stmts blk (SA ++ ss2' ++ SC) :: B2)) env' /\
  GJ (B1 ++ set_stmts blk (SA ++ ss2' ++ SC) :: B2) env' /\
  denv_le env env' /\ (b = false -> Pre (all_stmts B1 ++ SA ++ ss2') env').
Proof.
  induction ss2 as [|s tl IH]; intros B1 blk B2 SA SC env res b ss2' env' Hi HJ Hp Hm; cbn [pd_stmts].
  - intros [= <- <- <-]. split; [exact Hi|]. split; [exact HJ|]. split; [apply denv_le_refl|].
    rewrite app_nil_r. exact Hp.
  - destruct res.
    + intros [= <- <- <-]. split; [exact Hi|]. split; [exact HJ|]. split; [apply denv_le_refl|discriminate].
    + destruct (pd_stmt env s) as [[b1 s'] env1] eqn:Es.
      destruct (pd_stmts env1 b1 tl) as [[b2 tl'] env2] eqn:Et. intros [= <- <- <-].
      destruct (gstep B1 blk B2 SA s (tl ++ SC) env b1 s' env1 Hi HJ (Hp eq_refl) Hm Es) as (Hi1 & HJ1 & Hle1 & Hp1 & Hm1).
      assert (Happ : forall X, (SA ++ [s']) ++ X = SA ++ s' :: X) by (intros X; rewrite <- app_assoc; reflexivity).
      rewrite <- (Happ (tl ++ SC)) in Hi1, HJ1, Hm1.
      assert (Hp1' : b1 = false -> Pre (all_stmts B1 ++ SA ++ [s']) env1) by (intros H; rewrite app_assoc; exact (Hp1 H)).
      destruct (IH B1 blk B2 (SA ++ [s']) SC env1 b1 b2 tl' env2 Hi1 HJ1 Hp1' Hm1 Et) as (Hi2 & HJ2 & Hle2 & Hp2).
      rewrite Happ in Hi2, HJ2, Hp2.
      split; [exact Hi2|]. split; [exact HJ2|]. split; [eapply denv_le_trans; eauto|exact Hp2].
Qed.

(* one pass over the blocks: bs1 already visited in this pass *)
Lemma gblocks : forall bs2 bs1 env res b bs2' env',
  DInv0 (all_stmts (bs1 ++ bs2)) env -> GJ (bs1 ++ bs2) env -> (res = false -> Pre (all_stmts bs1) env) ->
  pd_blocks idom env res bs1 bs2 = (b, bs2', env') ->
  DInv0 (all_stmts (bs1 ++ bs2')) env' /\ GJ (bs1 ++ bs2') env' /\ denv_le env env' /\
  (b = false -> Pre (all_stmts (bs1 ++ bs2')) env').
Proof.
  induction bs2 as [|blk tl IH]; intros bs1 env res b bs2' env' Hi HJ Hp; cbn [pd_blocks].
  - intros [= <- <- <-]. split; [exact Hi|]. split; [exact HJ|]. split; [apply denv_le_refl|].
    rewrite app_nil_r. exact Hp.
  - destruct res.
    + intros [= <- <- <-]. split; [exact Hi|]. split; [exact HJ|]. split; [apply denv_le_refl|discriminate].
    + set (env0 := denv_set_ctl env (block_ctl (bs1 ++ blk :: tl) idom blk)).
      destruct (pd_stmts env0 false (b_stmts blk)) as [[r1 ss'] env1] eqn:Es.
      destruct (pd_blocks idom env1 r1 (bs1 ++ [set_stmts blk ss']) tl) as [[r2 tl'] env2] eqn:Et. intros [= <- <- <-].
      assert (Hle0 : denv_le env env0) by (split; intros; assumption).
      assert (Hun0 : forall v, un v = true -> denv_degree env0 v = None)
        by (exact (Backed_un _ env (proj1 Hi) (proj2 Hi))).
      assert (Hid : set_stmts blk ([] ++ b_stmts blk ++ []) = blk) by (rewrite app_nil_r; apply set_stmts_id).
      assert (Hi0 : DInv0 (all_stmts (bs1 ++ set_stmts blk ([] ++ b_stmts blk ++ []) :: tl)) env0) by (rewrite Hid; exact Hi).
      assert (HJ0 : GJ (bs1 ++ set_stmts blk ([] ++ b_stmts blk ++ []) :: tl) env0).
      { rewrite Hid. unfold GJ in *. eapply Forall_impl; [|exact HJ]. intros x Hx.
        eapply Forall_impl; [|exact Hx]. intros t. apply dsjust_mono; [exact Hle0|exact Hun0|apply mctl_le_refl]. }
      assert (Hp0 : false = false -> Pre (all_stmts bs1 ++ []) env0) by (intros _; rewrite app_nil_r; exact (Hp eq_refl)).
      assert (Hm0 : mctl_le (de_ctl env0) (block_ctl (bs1 ++ set_stmts blk ([] ++ b_stmts blk ++ []) :: tl) idom
                                                     (set_stmts blk ([] ++ b_stmts blk ++ []))))
        by (rewrite Hid; apply mctl_le_refl).
      destruct (gstmts (b_stmts blk) bs1 blk tl [] [] env0 false r1 ss' env1 Hi0 HJ0 Hp0 Hm0 Es) as (Hi1 & HJ1 & Hle1 & Hp1).
      rewrite app_nil_r in Hi1, HJ1. cbn [app] in Hi1, HJ1, Hp1.
      assert (Happ : forall X, (bs1 ++ [set_stmts blk ss']) ++ X = bs1 ++ set_stmts blk ss' :: X)
        by (intros X; rewrite <- app_assoc; reflexivity).
      rewrite <- (Happ tl) in Hi1, HJ1.
      assert (Hp1' : r1 = false -> Pre (all_stmts (bs1 ++ [set_stmts blk ss'])) env1).
      { intros Hr. rewrite all_stmts_mid. cbn [all_stmts flat_map]. rewrite app_nil_r. exact (Hp1 Hr). }
      destruct (IH (bs1 ++ [set_stmts blk ss']) env1 r1 r2 tl' env2 Hi1 HJ1 Hp1' Et) as (Hi2 & HJ2 & Hle2 & Hp2).
      rewrite Happ in Hi2, HJ2, Hp2.
      split; [exact Hi2|]. split; [exact HJ2|].
      split; [eapply denv_le_trans; [exact Hle0|eapply denv_le_trans; eauto]|exact Hp2].
Qed.

(* any number of passes *)
Lemma dpasses_inv : forall k env bs bs' env',
  DInv0 (all_stmts bs) env -> GJ bs env -> degrees_passes k idom env bs = (bs', env') ->
  DInv0 (all_stmts bs') env' /\ GJ bs' env'.
Proof.
  induction k as [|k IH]; intros env bs bs' env' Hi HJ; cbn [degrees_passes].
  - intros [= <- <-]. split; assumption.
  - destruct (pd_blocks idom env false [] bs) as [[rerun bs1] env1] eqn:Ep.
    destruct (gblocks bs [] env false rerun bs1 env1 Hi HJ (fun _ => Pre_nil env) Ep) as (Hi1 & HJ1 & _ & _).
    cbn [app] in Hi1, HJ1. destruct rerun.
    + intros Hk. exact (IH env1 bs1 bs' env' Hi1 HJ1 Hk).
    + intros [= <- <-]. split; assumption.
Qed.
End Lists.

(* ================= Part 4: from the invariant to the validator ================= *)
Lemma dclaim_check k o' o : dclaim k o' -> dext o' o -> deg_claim_is k o = true.
Proof.
  unfold dclaim, deg_claim_is. destruct (kdeg k) as [r|]; [|reflexivity].
  intros H Hx. apply opt_drange_eqb_eq. apply Hx. exact H.
Qed.

Section Validate.
Variable c' : cfg.
Variable un : vname -> bool.
Variable env : denv.
Hypothesis Hun : forall v, un v = unassigned c' v.
Hypothesis HE1 : forall v r, denv_degree env v = Some r -> var_range c' v = Some r.
Hypothesis Hnone : forall v, un v = true -> var_range c' v = None.

Lemma dj_list_all (es : list expr) :
  Forall (fun e => dejust un env e -> djust_expr c' e = true) es -> Forall (dejust un env) es ->
  (fix dj_list (es : list expr) : bool :=
     match es with [] => true | x :: tl => djust_expr c' x && dj_list tl end) es = true.
Proof.
  induction es as [|x tl IH]; intros Hi Hj; [reflexivity|].
  apply Forall_cons_iff in Hi as [Hi1 Hi2]. apply Forall_cons_iff in Hj as [Hj1 Hj2].
  rewrite (Hi1 Hj1). cbn [andb]. apply IH; assumption.
Qed.

Lemma dj_acc_all (acc : list (access expr)) :
  Forall (fun e => dejust un env e -> djust_expr c' e = true) (acc_exprs acc) -> Forall (dejust un env) (acc_exprs acc) ->
  (fix dj_acc (acc : list (access expr)) : bool :=
     match acc with
     | [] => true
     | AIdx x :: tl => djust_expr c' x && dj_acc tl
     | AComp _ :: tl => dj_acc tl
     end) acc = true.
Proof.
  induction acc as [|a tl IH]; intros Hi Hj; [reflexivity|].
  destruct a as [x|n]; cbn [acc_exprs flat_map app] in Hi, Hj.
  - apply Forall_cons_iff in Hi as [Hi1 Hi2]. apply Forall_cons_iff in Hj as [Hj1 Hj2].
    rewrite (Hi1 Hj1). cbn [andb]. apply IH; assumption.
  - apply IH; assumption.
Qed.

Lemma dejust_djust e : dejust un env e -> djust_expr c' e = true.
Proof.
  induction e as [z k|v k|op l r k IHl IHr|op e k IHe|c t f k IHc IHt IHf|n args k IHargs|vs k IHvs
                  |v acc k IHacc|v acc rhe k IHacc IHrhe|args k] using expr_ind'; intros Hj; cbn [djust_expr].
  - eapply dclaim_check; [exact (dj_num_inv _ _ _ _ Hj)|apply dext_refl].
  - eapply dclaim_check; [exact (dj_var_inv _ _ _ _ Hj)|]. intros r. apply HE1.
  - destruct (dj_infix_inv _ _ _ _ _ _ Hj) as (Hl & Hr & Hk). rewrite IHl, IHr by assumption. cbn [andb].
    eapply dclaim_check; [exact Hk|apply dext_refl].
  - destruct (dj_prefix_inv _ _ _ _ _ Hj) as (He & Hk). rewrite IHe by assumption. cbn [andb].
    eapply dclaim_check; [exact Hk|apply dext_refl].
  - destruct (dj_switch_inv _ _ _ _ _ _ Hj) as (Hc & Ht & Hf & Hk). rewrite IHc, IHt, IHf by assumption. cbn [andb].
    eapply dclaim_check; [exact Hk|apply dext_refl].
  - destruct (dj_call_inv _ _ _ _ _ Hj) as (Ha & Hk). rewrite (dj_list_all args IHargs Ha). cbn [andb].
    eapply dclaim_check; [exact Hk|apply dext_refl].
  - destruct (dj_array_inv _ _ _ _ Hj) as (Ha & Hk). rewrite (dj_list_all vs IHvs Ha). cbn [andb].
    eapply dclaim_check; [exact Hk|apply dext_refl].
  - destruct (dj_access_inv _ _ _ _ _ Hj) as (Ha & Hk). rewrite (dj_acc_all acc IHacc Ha). cbn [andb].
    eapply dclaim_check; [exact Hk|]. apply opt_index_adjust_ext; [apply acc_st_refl|]. intros r. apply HE1.
  - destruct (dj_update_inv _ _ _ _ _ _ Hj) as (Ha & Hr & Hk). rewrite (dj_acc_all acc IHacc Ha), IHrhe by assumption.
    cbn [andb]. eapply dclaim_check; [exact Hk|]. apply opt_index_adjust_ext; [apply acc_st_refl|].
    unfold ubase, update_base_range. destruct (denv_degree env v) as [rv|] eqn:Ev.
    + rewrite (HE1 _ _ Ev). apply dext_refl.
    + destruct (un v) eqn:Eu; [|intros r; discriminate]. rewrite (Hnone v Eu), <- Hun, Eu. apply dext_refl.
  - destruct (dj_phi_inv _ _ _ _ Hj).
Qed.

Lemma etop_djust m mm v op rhe sv st : etop un env m rhe -> djust_stmt c' m (SSubst mm v op rhe sv st) = true.
Proof.
  intros H. destruct rhe; try (cbn [djust_stmt]; apply dejust_djust; exact H).
  cbn [etop] in H. cbn [djust_stmt]. eapply dclaim_check; [exact H|]. apply phi_adjust_ext. apply iter_opt_ext.
  clear H. induction args as [|a tl IH]; cbn [map]; constructor; auto. intros r. apply HE1.
Qed.

Lemma dsjust_djust m s : dsjust un env m s -> djust_stmt c' m s = true.
Proof.
  intros H. destruct s; cbn [dsjust stmt_exprs] in H; try (apply etop_djust; exact H); cbn [djust_stmt].
  - apply forallb_forall. intros e He. apply dejust_djust. rewrite Forall_forall in H. auto.
  - apply Forall_cons_iff in H as [H _]. apply dejust_djust. exact H.
  - apply Forall_cons_iff in H as [H _]. apply dejust_djust. exact H.
  - apply Forall_cons_iff in H as [H1 H2]. apply Forall_cons_iff in H2 as [H2 _].
    rewrite (dejust_djust _ H1), (dejust_djust _ H2). reflexivity.
  - induction args as [|a tl IH]; [reflexivity|]. cbn [forallb]. destruct a as [|x]; cbn [flat_map app] in H.
    + apply IH. exact H.
    + apply Forall_cons_iff in H as [H1 H2]. rewrite (dejust_djust _ H1). apply IH. exact H2.
  - apply Forall_cons_iff in H as [H _]. apply dejust_djust. exact H.
Qed.
End Validate.

(* ---------- the initial state ---------- *)
Definition kind_range (kind : defkind) : drange :=
  match kind with KFunction => (DConst, DLin) | _ => (DConst, DConst) end.

Lemma denv_init_degree kind params v :
  denv_degree (denv_init kind params) v = if existsb (vname_eqb v) params then Some (kind_range kind) else None.
Proof.
  unfold denv_init.
  assert (H : forall env0,
    denv_degree (fold_left (fun env x => fst (denv_set_degree (denv_set_type env x TLocal) x (kind_range kind))) params env0) v =
    if existsb (vname_eqb v) params then Some (kind_range kind) else denv_degree env0 v).
  { induction params as [|x tl IH]; intros env0; [reflexivity|]. cbn [fold_left existsb]. rewrite IH.
    destruct (existsb (vname_eqb v) tl); [rewrite orb_true_r; reflexivity|]. rewrite orb_false_r.
    rewrite degree_set_degree, (vname_eqb_sym v x). reflexivity. }
  exact (H denv0).
Qed.

Lemma denv_init_assigned kind params v : denv_is_assigned (denv_init kind params) v = false.
Proof.
  unfold denv_init.
  assert (H : forall env0,
    denv_is_assigned (fold_left (fun env x => fst (denv_set_degree (denv_set_type env x TLocal) x (kind_range kind))) params env0) v =
    denv_is_assigned env0 v).
  { induction params as [|x tl IH]; intros env0; [reflexivity|]. cbn [fold_left]. rewrite IH. reflexivity. }
  exact (H denv0).
Qed.

Lemma clean_dejust un env e : clean_deg_expr e = true -> phi_free e = true -> dejust un env e.
Proof.
  induction e as [z k|v k|op l r k IHl IHr|op e k IHe|c t f k IHc IHt IHf|n args k IHargs|vs k IHvs
                  |v acc k IHacc|v acc rhe k IHacc IHrhe|args k] using expr_ind';
    cbn [clean_deg_expr expr_know phi_free]; intros H Hp; apply andb_true_iff in H as [Hk H]; unfold deg_none in Hk;
    destruct (kdeg k) eqn:Ek; try discriminate.
  - constructor. apply dclaim_none. exact Ek.
  - constructor. apply dclaim_none. exact Ek.
  - apply andb_true_iff in H as [H1 H2]. apply andb_true_iff in Hp as [P1 P2]. constructor; auto. apply dclaim_none. exact Ek.
  - constructor; auto. apply dclaim_none. exact Ek.
  - apply andb_true_iff in H as [H H3]. apply andb_true_iff in H as [H1 H2].
    apply andb_true_iff in Hp as [Hp P3]. apply andb_true_iff in Hp as [P1 P2]. constructor; auto. apply dclaim_none. exact Ek.
  - constructor; [|apply dclaim_none; exact Ek]. clear Ek. induction args as [|x tl IH]; [constructor|].
    apply Forall_cons_iff in IHargs as [I1 I2]. apply andb_true_iff in H as [Hx Ht]. apply andb_true_iff in Hp as [Px Pt].
    constructor; auto.
  - constructor; [|apply dclaim_none; exact Ek]. clear Ek. induction vs as [|x tl IH]; [constructor|].
    apply Forall_cons_iff in IHvs as [I1 I2]. apply andb_true_iff in H as [Hx Ht]. apply andb_true_iff in Hp as [Px Pt].
    constructor; auto.
  - constructor; [|apply dclaim_none; exact Ek]. clear Ek. induction acc as [|x tl IH]; [constructor|].
    destruct x as [x|n]; cbn [acc_exprs flat_map app] in *.
    + apply Forall_cons_iff in IHacc as [I1 I2]. apply andb_true_iff in H as [Hx Ht]. apply andb_true_iff in Hp as [Px Pt].
      constructor; auto.
    + auto.
  - apply andb_true_iff in H as [Hr Ha]. apply andb_true_iff in Hp as [Pr Pa].
    constructor; [|auto|apply dclaim_none; exact Ek]. clear Ek.
    induction acc as [|x tl IH]; [constructor|].
    destruct x as [x|n]; cbn [acc_exprs flat_map app] in *.
    + apply Forall_cons_iff in IHacc as [I1 I2]. apply andb_true_iff in Ha as [Hx Ht]. apply andb_true_iff in Pa as [Px Pt].
      constructor; auto.
    + auto.
Qed.

Lemma clean_dsjust un env m s : clean_deg_stmt s = true -> phi_top_stmt s = true -> dsjust un env m s.
Proof.
  unfold clean_deg_stmt. intros Hc Hp.
  assert (Hall : forallb phi_free (stmt_exprs s) = true -> Forall (dejust un env) (stmt_exprs s)).
  { intros Hf. rewrite forallb_forall in Hc, Hf. apply Forall_forall. intros e He. apply clean_dejust; auto. }
  destruct s; cbn [dsjust]; try (apply Hall; exact Hp).
  destruct rhe; try (cbn [etop]; cbn [phi_top_stmt stmt_exprs] in Hp; specialize (Hall Hp);
                     apply Forall_cons_iff in Hall as [Hall _]; exact Hall).
  cbn [etop]. apply dclaim_none. cbn [stmt_exprs forallb clean_deg_expr expr_know] in Hc.
  unfold deg_none in Hc. destruct (kdeg k); [discriminate|reflexivity].
Qed.

(* ---------- the shape of the dominator table does not depend on the statements ---------- *)
Lemma idom_shape_preds c c' idom : map b_preds (c_blocks c') = map b_preds (c_blocks c) ->
  idom_shape c' idom = idom_shape c idom.
Proof.
  intros H. unfold idom_shape. f_equal.
  assert (Hlen : length (c_blocks c') = length (c_blocks c)) by (rewrite <- (map_length b_preds), H; apply map_length).
  rewrite Hlen. set (f := forallb (fun q => (N.to_nat q <? length (c_blocks c))%nat)).
  assert (Hm : forall l, forallb (fun b => f (b_preds b)) l = forallb f (map b_preds l)).
  { induction l as [|x tl IH]; [reflexivity|]. cbn [map forallb]. rewrite IH. reflexivity. }
  rewrite !Hm, H. reflexivity.
Qed.

Lemma pd_blocks_preds idom : forall bs env res pre b bs' env',
  pd_blocks idom env res pre bs = (b, bs', env') -> map b_preds bs' = map b_preds bs.
Proof.
  induction bs as [|blk tl IH]; intros env res pre b bs' env'; cbn [pd_blocks].
  - intros [= <- <- <-]. reflexivity.
  - destruct res; [intros [= <- <- <-]; reflexivity|].
    destruct (pd_stmts _ false (b_stmts blk)) as [[r1 ss'] env1].
    destruct (pd_blocks idom env1 r1 (pre ++ [set_stmts blk ss']) tl) as [[r2 tl'] env2] eqn:Et. intros [= <- <- <-].
    cbn [map]. rewrite (IH _ _ _ _ _ _ Et). destruct blk; reflexivity.
Qed.

Lemma degrees_passes_preds idom : forall k env bs bs' env',
  degrees_passes k idom env bs = (bs', env') -> map b_preds bs' = map b_preds bs.
Proof.
  induction k as [|k IH]; intros env bs bs' env'; cbn [degrees_passes].
  - intros [= <- <-]. reflexivity.
  - destruct (pd_blocks idom env false [] bs) as [[rerun bs1] env1] eqn:Ep.
    pose proof (pd_blocks_preds idom _ _ _ _ _ _ _ Ep) as H1. destruct rerun.
    + intros Hk. rewrite (IH _ _ _ _ Hk). exact H1.
    + intros [= <- <-]. exact H1.
Qed.

(* ================= the universal statement of C20 (degrees) ================= *)
Theorem degrees_validated_at_every_budget : forall k idom c bs env,
  deg_wf c = true -> idom_shape c idom = true ->
  degrees_passes k idom (denv_init (c_kind c) (c_params c)) (c_blocks c) = (bs, env) ->
  djust_cfg (set_blocks c bs) idom = true.
Proof.
  intros k idom c bs env Hwf Hshape Hk. unfold deg_wf in Hwf.
  apply andb_true_iff in Hwf as [Hwf Hphi].
  apply andb_true_iff in Hwf as [Hwf Hu]. apply andb_true_iff in Hwf as [Hclean Hsg].
  set (L := map ssig (all_stmts (c_blocks c))) in *.
  assert (HU : uniq (map sq L)) by (unfold L; rewrite <- sigq_ssig; apply ldefs_unique_uniq; exact Hu).
  assert (Hinit : DInv0 c L (all_stmts (c_blocks c)) (denv_init (c_kind c) (c_params c))).
  { split; [split; [|split]|reflexivity].
    - intros v r Hv. rewrite denv_init_degree in Hv.
      destruct (existsb (vname_eqb v) (c_params c)) eqn:Ep; [|discriminate]. injection Hv as <-.
      unfold vrange. unfold is_param. rewrite Ep.
      destruct (existsb (defines v) (all_stmts (c_blocks c))) eqn:Ed; [|reflexivity].
      apply existsb_exists in Ed as (s & Hin & Hd). apply defines_tgt in Hd.
      destruct (tgt_facts c L Hsg _ s v eq_refl Hin Hd) as [Hp _]. unfold is_param in Hp. congruence.
    - intros v Hv. rewrite denv_init_assigned in Hv. discriminate.
    - intros v Hp. rewrite denv_init_degree. unfold is_param in Hp. rewrite Hp. discriminate. }
  assert (HJinit : GJ c L idom (c_blocks c) (denv_init (c_kind c) (c_params c))).
  { unfold GJ. apply Forall_forall. intros b Hb. apply Forall_forall. intros s Hs.
    assert (Hin : In s (all_stmts (c_blocks c))) by (unfold all_stmts; apply in_flat_map; eauto).
    rewrite forallb_forall in Hclean, Hphi. apply clean_dsjust; auto. }
  destruct (dpasses_inv c L idom Hsg HU k _ _ _ _ Hinit HJinit Hk) as (((E1 & E2 & E3) & HL) & HJ).
  unfold djust_cfg. apply andb_true_iff. split.
  { rewrite (idom_shape_preds c (set_blocks c bs) idom); [exact Hshape|].
    cbn [set_blocks c_blocks]. exact (degrees_passes_preds idom _ _ _ _ _ Hk). }
  cbn [set_blocks c_blocks]. apply forallb_forall. intros b Hb.
  unfold djust_block. cbn [set_blocks c_blocks]. apply forallb_forall. intros s Hs.
  apply (dsjust_djust (set_blocks c bs) (unas c L) env).
  - intros v. rewrite unassigned_unas, HL. reflexivity.
  - intros v r Hv. rewrite var_range_vrange. apply E1. exact Hv.
  - intros v Hv. rewrite var_range_vrange. exact (un_vrange_none c L (all_stmts bs) v HL Hv).
  - unfold GJ in HJ. rewrite Forall_forall in HJ. specialize (HJ b Hb). rewrite Forall_forall in HJ. apply HJ. exact Hs.
Qed.

(* ================= Part 5: the whole propagation (value passes first) =================
   Value propagation never touches a degree claim, a target, a type, a declared
   name or the shape of an expression: erasing all VALUE knowledge commutes with
   it, and deg_wf only reads the erased graph. *)
Definition vk (k : know) : know := {| kval := None; kdeg := kdeg k |}.

Fixpoint verase (e : expr) {struct e} : expr :=
  match e with
  | ENum z k => ENum z (vk k)
  | EVar v k => EVar v (vk k)
  | EInfix op l r k => EInfix op (verase l) (verase r) (vk k)
  | EPrefix op x k => EPrefix op (verase x) (vk k)
  | ESwitch c t f k => ESwitch (verase c) (verase t) (verase f) (vk k)
  | ECall n args k => ECall n (map verase args) (vk k)
  | EArray vs k => EArray (map verase vs) (vk k)
  | EAccess v acc k =>
    EAccess v (map (fun a => match a with AIdx x => AIdx (verase x) | AComp n => AComp n end) acc) (vk k)
  | EUpdate v acc rhe k =>
    EUpdate v (map (fun a => match a with AIdx x => AIdx (verase x) | AComp n => AComp n end) acc) (verase rhe) (vk k)
  | EPhi args k => EPhi args (vk k)
  end.

Definition vacc (acc : list (access expr)) : list (access expr) :=
  map (fun a => match a with AIdx x => AIdx (verase x) | AComp n => AComp n end) acc.

Definition vlogarg (a : logarg) : logarg := match a with LStr => LStr | LExpr e => LExpr (verase e) end.

Definition vserase (s : stmt) : stmt :=
  match s with
  | SDecl m names t dims => SDecl m names t (map verase dims)
  | SIf m c t f => SIf m (verase c) t f
  | SRet m e => SRet m (verase e)
  | SSubst m v op rhe sval st => SSubst m v op (verase rhe) None st
  | SCeq m l r => SCeq m (verase l) (verase r)
  | SLog m args => SLog m (map vlogarg args)
  | SAssert m e => SAssert m (verase e)
  end.

Lemma verase_set_know e k' : kdeg k' = kdeg (expr_know e) -> verase (set_know e k') = verase e.
Proof. intros H. destruct e; cbn [set_know verase expr_know] in *; unfold vk; rewrite H; reflexivity. Qed.

Lemma verase_sc_set_val res e v : verase (snd (sc_set_val res e v)) = verase e.
Proof.
  unfold sc_set_val. destruct res; [reflexivity|]. unfold set_val. cbn [snd].
  apply verase_set_know. reflexivity.
Qed.

Definition vpres (p : Z) (env : venv) (e : expr) : Prop :=
  forall b e', pv_expr p env e = Ok (b, e') -> verase e' = verase e.

Lemma pv_list_vpres p env (es : list expr) : Forall (vpres p env) es -> forall res b es',
  (fix pv_list (res : bool) (es : list expr) {struct es} : outcome (bool * list expr) :=
     match es with
     | [] => Ok (res, [])
     | x :: tl =>
       if res then Ok (true, x :: tl)
       else r <- pv_expr p env x ;;
            let '(b, x') := r in
            t <- pv_list b tl ;;
            let '(b', tl') := t in Ok (b', x' :: tl')
     end) res es = Ok (b, es') ->
  map verase es' = map verase es.
Proof.
  intros H. induction es as [|x tl IH]; intros res b es'.
  - intros [= <- <-]. reflexivity.
  - apply Forall_cons_iff in H as [Hx Ht]. destruct res.
    + intros [= <- <-]. reflexivity.
    + destruct (pv_expr p env x) as [[b1 x']| | |] eqn:Ex; try discriminate. cbn [bind].
      match goal with |- context [bind ?t _] => destruct t as [[b2 tl']| | |] eqn:Et; try discriminate end.
      cbn [bind]. intros [= <- <-]. cbn [map]. rewrite (Hx _ _ Ex), (IH Ht _ _ _ Et). reflexivity.
Qed.

Lemma pv_acc_vpres p env (acc : list (access expr)) : Forall (vpres p env) (acc_exprs acc) -> forall res b acc',
  (fix pv_acc (res : bool) (acc : list (access expr)) {struct acc} : outcome (bool * list (access expr)) :=
     match acc with
     | [] => Ok (res, [])
     | AComp n :: tl => t <- pv_acc res tl ;; let '(b', tl') := t in Ok (b', AComp n :: tl')
     | AIdx x :: tl =>
       if res then Ok (true, AIdx x :: tl)
       else r <- pv_expr p env x ;;
            let '(b, x') := r in
            t <- pv_acc b tl ;;
            let '(b', tl') := t in Ok (b', AIdx x' :: tl')
     end) res acc = Ok (b, acc') ->
  vacc acc' = vacc acc.
Proof.
  intros H. induction acc as [|a tl IH]; intros res b acc'.
  - intros [= <- <-]. reflexivity.
  - destruct a as [x|n]; cbn [acc_exprs flat_map app] in H.
    + apply Forall_cons_iff in H as [Hx Ht]. destruct res.
      * intros [= <- <-]. reflexivity.
      * destruct (pv_expr p env x) as [[b1 x']| | |] eqn:Ex; try discriminate. cbn [bind].
        match goal with |- context [bind ?t _] => destruct t as [[b2 tl']| | |] eqn:Et; try discriminate end.
        cbn [bind]. intros [= <- <-]. unfold vacc in *. cbn [map]. rewrite (Hx _ _ Ex), (IH Ht _ _ _ Et). reflexivity.
    + match goal with |- context [bind ?t _] => destruct t as [[b2 tl']| | |] eqn:Et; try discriminate end.
      cbn [bind]. intros [= <- <-]. unfold vacc in *. cbn [map]. rewrite (IH H _ _ _ Et). reflexivity.
Qed.

Lemma pv_expr_vpres p env : forall e, vpres p env e.
Proof.
  induction e as [z k|v k|op l r k IHl IHr|op e k IHe|c t f k IHc IHt IHf|n args k IHargs|vs k IHvs
                  |v acc k IHacc|v acc rhe k IHacc IHrhe|args k] using expr_ind'; intros b e'; cbn [pv_expr].
  - unfold set_val. intros [= <- <-]. reflexivity.
  - destruct (venv_get env v); unfold set_val; intros [= <- <-]; reflexivity.
  - destruct (pv_expr p env l) as [[b1 l']| | |] eqn:El; try discriminate. cbn [bind].
    assert (Hr : forall b2 r', (if b1 then Ok (true, r) else pv_expr p env r) = Ok (b2, r') -> verase r' = verase r).
    { intros b2 r'. destruct b1; [intros [= <- <-]; reflexivity|apply IHr]. }
    destruct (if b1 then Ok (true, r) else pv_expr p env r) as [[b2 r']| | |] eqn:Er; try discriminate. cbn [bind].
    assert (Hbase : verase (EInfix op l' r' k) = verase (EInfix op l r k))
      by (cbn [verase]; rewrite (IHl _ _ El), (Hr _ _ eq_refl); reflexivity).
    destruct (infix_values op (expr_val l') (expr_val r') p) as [[x|]| | |]; cbn [bind]; try discriminate.
    + intros [= H]. rewrite <- Hbase, <- (verase_sc_set_val b2 (EInfix op l' r' k) x), H. reflexivity.
    + intros [= <- <-]. exact Hbase.
  - destruct (pv_expr p env e) as [[b1 x']| | |] eqn:Ee; try discriminate. cbn [bind].
    assert (Hbase : verase (EPrefix op x' k) = verase (EPrefix op e k)) by (cbn [verase]; rewrite (IHe _ _ Ee); reflexivity).
    destruct (prefix_values op (expr_val x') p) as [x|].
    + intros [= H]. rewrite <- Hbase, <- (verase_sc_set_val b1 (EPrefix op x' k) x), H. reflexivity.
    + intros [= <- <-]. exact Hbase.
  - destruct (pv_expr p env c) as [[bc c']| | |] eqn:Ec; try discriminate. cbn [bind].
    destruct (pv_expr p env t) as [[bt t']| | |] eqn:Et; try discriminate. cbn [bind].
    destruct (pv_expr p env f) as [[bf f']| | |] eqn:Ef; try discriminate. cbn [bind].
    assert (Hbase : verase (ESwitch c' t' f' k) = verase (ESwitch c t f k))
      by (cbn [verase]; rewrite (IHc _ _ Ec), (IHt _ _ Et), (IHf _ _ Ef); reflexivity).
    destruct (switch_value (expr_val c') (expr_val t') (expr_val f')) as [x|].
    + intros [= H]. rewrite <- Hbase, <- (verase_sc_set_val (bc || bt || bf) (ESwitch c' t' f' k) x), H. reflexivity.
    + intros [= <- <-]. exact Hbase.
  - match goal with |- context [bind ?t _] => destruct t as [[b2 args']| | |] eqn:Ea; try discriminate end.
    cbn [bind]. intros [= <- <-]. cbn [verase]. rewrite (pv_list_vpres p env args IHargs _ _ _ Ea). reflexivity.
  - match goal with |- context [bind ?t _] => destruct t as [[b2 vs']| | |] eqn:Ea; try discriminate end.
    cbn [bind]. intros [= <- <-]. cbn [verase]. rewrite (pv_list_vpres p env vs IHvs _ _ _ Ea). reflexivity.
  - match goal with |- context [bind ?t _] => destruct t as [[b2 acc']| | |] eqn:Ea; try discriminate end.
    cbn [bind]. intros [= <- <-]. cbn [verase]. fold (vacc acc') (vacc acc). rewrite (pv_acc_vpres p env acc IHacc _ _ _ Ea). reflexivity.
  - destruct (pv_expr p env rhe) as [[b1 rhe']| | |] eqn:Er; try discriminate. cbn [bind].
    match goal with |- context [bind ?t _] => destruct t as [[b2 acc']| | |] eqn:Ea; try discriminate end.
    cbn [bind]. intros [= <- <-]. cbn [verase]. fold (vacc acc') (vacc acc).
    rewrite (pv_acc_vpres p env acc IHacc _ _ _ Ea), (IHrhe _ _ Er). reflexivity.
  - destruct (phi_value env args); unfold set_val; intros [= <- <-]; reflexivity.
Qed.

Lemma pv_exprs_vpres p env : forall es res b es',
  pv_exprs p env res es = Ok (b, es') -> map verase es' = map verase es.
Proof.
  induction es as [|x tl IH]; intros res b es'; cbn [pv_exprs].
  - intros [= <- <-]. reflexivity.
  - destruct res; [intros [= <- <-]; reflexivity|].
    destruct (pv_expr p env x) as [[b1 x']| | |] eqn:Ex; try discriminate. cbn [bind].
    destruct (pv_exprs p env b1 tl) as [[b2 tl']| | |] eqn:Et; try discriminate. cbn [bind].
    intros [= <- <-]. cbn [map]. rewrite (pv_expr_vpres p env x _ _ Ex), (IH _ _ _ Et). reflexivity.
Qed.

Lemma pv_logargs_vpres p env : forall es res b es',
  pv_logargs p env res es = Ok (b, es') -> map vlogarg es' = map vlogarg es.
Proof.
  induction es as [|a tl IH]; intros res b es'; cbn [pv_logargs].
  - intros [= <- <-]. reflexivity.
  - destruct a as [|x].
    + destruct (pv_logargs p env res tl) as [[b2 tl']| | |] eqn:Et; try discriminate. cbn [bind].
      intros [= <- <-]. cbn [map]. rewrite (IH _ _ _ Et). reflexivity.
    + destruct res; [intros [= <- <-]; reflexivity|].
      destruct (pv_expr p env x) as [[b1 x']| | |] eqn:Ex; try discriminate. cbn [bind].
      destruct (pv_logargs p env b1 tl) as [[b2 tl']| | |] eqn:Et; try discriminate. cbn [bind].
      intros [= <- <-]. cbn [map vlogarg]. rewrite (pv_expr_vpres p env x _ _ Ex), (IH _ _ _ Et). reflexivity.
Qed.

Lemma pv_stmt_vpres p env s b s' env' : pv_stmt p env s = Ok (b, s', env') -> vserase s' = vserase s.
Proof.
  destruct s; cbn [pv_stmt].
  - destruct (pv_exprs p env false dims) as [[b1 dims']| | |] eqn:E; try discriminate. cbn [bind].
    intros [= <- <- <-]. cbn [vserase]. rewrite (pv_exprs_vpres p env _ _ _ _ E). reflexivity.
  - destruct (pv_expr p env c) as [[b1 c']| | |] eqn:E; try discriminate. cbn [bind].
    intros [= <- <- <-]. cbn [vserase]. rewrite (pv_expr_vpres p env _ _ _ E). reflexivity.
  - destruct (pv_expr p env e) as [[b1 e1]| | |] eqn:E; try discriminate. cbn [bind].
    intros [= <- <- <-]. cbn [vserase]. rewrite (pv_expr_vpres p env _ _ _ E). reflexivity.
  - destruct (pv_expr p env rhe) as [[b1 rhe']| | |] eqn:E; try discriminate. cbn [bind].
    pose proof (pv_expr_vpres p env _ _ _ E) as Hr.
    destruct (is_update rhe').
    + intros [= <- <- <-]. cbn [vserase]. rewrite Hr. reflexivity.
    + destruct (expr_val rhe') as [x|].
      * destruct (if stype_is_local stype then venv_add env v x else Ok env) as [env1| | |]; try discriminate.
        cbn [bind]. destruct b1; intros [= <- <- <-]; cbn [vserase]; rewrite Hr; reflexivity.
      * intros [= <- <- <-]. cbn [vserase]. rewrite Hr. reflexivity.
  - destruct (pv_expr p env l) as [[b1 l']| | |] eqn:El; try discriminate. cbn [bind].
    destruct b1.
    + intros [= <- <- <-]. cbn [vserase]. rewrite (pv_expr_vpres p env _ _ _ El). reflexivity.
    + destruct (pv_expr p env r) as [[b2 r']| | |] eqn:Er; try discriminate. cbn [bind].
      intros [= <- <- <-]. cbn [vserase]. rewrite (pv_expr_vpres p env _ _ _ El), (pv_expr_vpres p env _ _ _ Er). reflexivity.
  - destruct (pv_logargs p env false args) as [[b1 args']| | |] eqn:E; try discriminate. cbn [bind].
    intros [= <- <- <-]. cbn [vserase]. rewrite (pv_logargs_vpres p env _ _ _ _ E). reflexivity.
  - destruct (pv_expr p env e) as [[b1 e1]| | |] eqn:E; try discriminate. cbn [bind].
    intros [= <- <- <-]. cbn [vserase]. rewrite (pv_expr_vpres p env _ _ _ E). reflexivity.
Qed.

Lemma pv_stmts_vpres p : forall ss env res b ss' env',
  pv_stmts p env res ss = Ok (b, ss', env') -> map vserase ss' = map vserase ss.
Proof.
  induction ss as [|s tl IH]; intros env res b ss' env'; cbn [pv_stmts].
  - intros [= <- <- <-]. reflexivity.
  - destruct res; [intros [= <- <- <-]; reflexivity|].
    destruct (pv_stmt p env s) as [[[b1 s'] env1]| | |] eqn:Es; try discriminate. cbn [bind].
    destruct (pv_stmts p env1 b1 tl) as [[[b2 tl'] env2]| | |] eqn:Et; try discriminate. cbn [bind].
    intros [= <- <- <-]. cbn [map]. rewrite (pv_stmt_vpres p env s _ _ _ Es), (IH _ _ _ _ _ Et). reflexivity.
Qed.

Lemma pv_blocks_vpres p : forall bs env res b bs' env',
  pv_blocks p env res bs = Ok (b, bs', env') -> map vserase (all_stmts bs') = map vserase (all_stmts bs).
Proof.
  induction bs as [|blk tl IH]; intros env res b bs' env'; cbn [pv_blocks].
  - intros [= <- <- <-]. reflexivity.
  - destruct res; [intros [= <- <- <-]; reflexivity|].
    destruct (pv_stmts p env false (b_stmts blk)) as [[[r1 ss'] env1]| | |] eqn:Es; try discriminate. cbn [bind].
    destruct (pv_blocks p env1 r1 tl) as [[[r2 tl'] env2]| | |] eqn:Et; try discriminate. cbn [bind].
    intros [= <- <- <-]. rewrite !all_stmts_cons, !map_app. cbn [set_stmts b_stmts].
    rewrite (pv_stmts_vpres p _ _ _ _ _ _ Es), (IH _ _ _ _ _ Et). reflexivity.
Qed.

Lemma values_passes_vpres p : forall k env bs bs' env',
  values_passes k p env bs = Ok (bs', env') -> map vserase (all_stmts bs') = map vserase (all_stmts bs).
Proof.
  induction k as [|k IH]; intros env bs bs' env'; cbn [values_passes].
  - intros [= <- <-]. reflexivity.
  - destruct (pv_blocks p env false bs) as [[[rerun bs1] env1]| | |] eqn:Ep; try discriminate. cbn [bind].
    pose proof (pv_blocks_vpres p _ _ _ _ _ _ Ep) as H1. destruct rerun.
    + intros Hk. rewrite (IH _ _ _ _ Hk). exact H1.
    + intros [= <- <-]. exact H1.
Qed.

(* ---------- deg_wf only reads the value-erased graph ---------- *)
Lemma ub_verase e : update_bases (verase e) = update_bases e.
Proof.
  induction e as [z k|v k|op l r k IHl IHr|op e k IHe|c t f k IHc IHt IHf|n args k IHargs|vs k IHvs
                  |v acc k IHacc|v acc rhe k IHacc IHrhe|args k] using expr_ind'; cbn [verase update_bases].
  - reflexivity.
  - reflexivity.
  - rewrite IHl, IHr. reflexivity.
  - exact IHe.
  - rewrite IHc, IHt, IHf. reflexivity.
  - induction args as [|x tl IH]; [reflexivity|].
    apply Forall_cons_iff in IHargs as [H1 H2]. cbn [map flat_map]. rewrite H1, (IH H2). reflexivity.
  - induction vs as [|x tl IH]; [reflexivity|].
    apply Forall_cons_iff in IHvs as [H1 H2]. cbn [map flat_map]. rewrite H1, (IH H2). reflexivity.
  - induction acc as [|a tl IH]; [reflexivity|]. destruct a as [x|n]; cbn [acc_exprs flat_map app] in IHacc.
    + apply Forall_cons_iff in IHacc as [H1 H2]. cbn [map flat_map]. rewrite H1. f_equal. apply IH. exact H2.
    + cbn [map flat_map app]. apply IH. exact IHacc.
  - f_equal. rewrite IHrhe. f_equal.
    induction acc as [|a tl IH]; [reflexivity|]. destruct a as [x|n]; cbn [acc_exprs flat_map app] in IHacc.
    + apply Forall_cons_iff in IHacc as [H1 H2]. cbn [map flat_map]. rewrite H1. f_equal. apply IH. exact H2.
    + cbn [map flat_map app]. apply IH. exact IHacc.
  - reflexivity.
Qed.

Lemma clean_deg_verase e : clean_deg_expr (verase e) = clean_deg_expr e.
Proof.
  induction e as [z k|v k|op l r k IHl IHr|op e k IHe|c t f k IHc IHt IHf|n args k IHargs|vs k IHvs
                  |v acc k IHacc|v acc rhe k IHacc IHrhe|args k] using expr_ind';
    cbn [verase clean_deg_expr expr_know]; unfold deg_none; cbn [vk kdeg]; f_equal.
  - rewrite IHl, IHr. reflexivity.
  - exact IHe.
  - rewrite IHc, IHt, IHf. reflexivity.
  - induction args as [|x tl IH]; [reflexivity|].
    apply Forall_cons_iff in IHargs as [H1 H2]. cbn [map]. rewrite H1, (IH H2). reflexivity.
  - induction vs as [|x tl IH]; [reflexivity|].
    apply Forall_cons_iff in IHvs as [H1 H2]. cbn [map]. rewrite H1, (IH H2). reflexivity.
  - induction acc as [|a tl IH]; [reflexivity|]. destruct a as [x|n]; cbn [acc_exprs flat_map app] in IHacc.
    + apply Forall_cons_iff in IHacc as [H1 H2]. cbn [map]. rewrite H1, (IH H2). reflexivity.
    + cbn [map]. apply IH. exact IHacc.
  - rewrite IHrhe. f_equal.
    induction acc as [|a tl IH]; [reflexivity|]. destruct a as [x|n]; cbn [acc_exprs flat_map app] in IHacc.
    + apply Forall_cons_iff in IHacc as [H1 H2]. cbn [map]. rewrite H1, (IH H2). reflexivity.
    + cbn [map]. apply IH. exact IHacc.
Qed.

Lemma phi_free_verase e : phi_free (verase e) = phi_free e.
Proof.
  induction e as [z k|v k|op l r k IHl IHr|op e k IHe|c t f k IHc IHt IHf|n args k IHargs|vs k IHvs
                  |v acc k IHacc|v acc rhe k IHacc IHrhe|args k] using expr_ind';
    cbn [verase phi_free]; try reflexivity.
  - rewrite IHl, IHr. reflexivity.
  - exact IHe.
  - rewrite IHc, IHt, IHf. reflexivity.
  - induction args as [|x tl IH]; [reflexivity|].
    apply Forall_cons_iff in IHargs as [H1 H2]. cbn [map]. rewrite H1, (IH H2). reflexivity.
  - induction vs as [|x tl IH]; [reflexivity|].
    apply Forall_cons_iff in IHvs as [H1 H2]. cbn [map]. rewrite H1, (IH H2). reflexivity.
  - induction acc as [|a tl IH]; [reflexivity|]. destruct a as [x|n]; cbn [acc_exprs flat_map app] in IHacc.
    + apply Forall_cons_iff in IHacc as [H1 H2]. cbn [map]. rewrite H1, (IH H2). reflexivity.
    + cbn [map]. apply IH. exact IHacc.
  - rewrite IHrhe. f_equal.
    induction acc as [|a tl IH]; [reflexivity|]. destruct a as [x|n]; cbn [acc_exprs flat_map app] in IHacc.
    + apply Forall_cons_iff in IHacc as [H1 H2]. cbn [map]. rewrite H1, (IH H2). reflexivity.
    + cbn [map]. apply IH. exact IHacc.
Qed.

Lemma phi_top_vserase s : phi_top_stmt (vserase s) = phi_top_stmt s.
Proof.
  destruct s; cbn [vserase phi_top_stmt stmt_exprs forallb]; rewrite ?phi_free_verase; try reflexivity.
  - induction dims as [|x tl IH]; [reflexivity|]. cbn [map forallb]. rewrite phi_free_verase, IH. reflexivity.
  - destruct rhe; cbn [verase phi_top_stmt stmt_exprs forallb]; try reflexivity;
      match goal with |- phi_free ?a && true = phi_free ?b && true => change a with (verase b) end;
      rewrite phi_free_verase; reflexivity.
  - induction args as [|a tl IH]; [reflexivity|]. destruct a as [|x]; cbn [map vlogarg flat_map app forallb]; [exact IH|].
    rewrite phi_free_verase, IH. reflexivity.
Qed.

Lemma forallb_phi_top_vserase ss : forallb phi_top_stmt (map vserase ss) = forallb phi_top_stmt ss.
Proof. induction ss as [|s tl IH]; [reflexivity|]. cbn [map forallb]. rewrite phi_top_vserase, IH. reflexivity. Qed.

Lemma ssig_vserase s : ssig (vserase s) = ssig s.
Proof.
  unfold ssig. replace (stmt_update_bases (vserase s)) with (stmt_update_bases s); [destruct s; reflexivity|].
  unfold stmt_update_bases. destruct s; cbn [vserase stmt_exprs flat_map]; rewrite ?ub_verase; try reflexivity.
  - induction dims as [|x tl IH]; [reflexivity|]. cbn [map flat_map]. rewrite ub_verase, IH. reflexivity.
  - induction args as [|a tl IH]; [reflexivity|]. destruct a as [|x]; cbn [map vlogarg flat_map app]; [exact IH|].
    rewrite ub_verase, IH. reflexivity.
Qed.

Lemma clean_deg_vserase s : clean_deg_stmt (vserase s) = clean_deg_stmt s.
Proof.
  unfold clean_deg_stmt. destruct s; cbn [vserase stmt_exprs forallb]; rewrite ?clean_deg_verase; try reflexivity.
  - induction dims as [|x tl IH]; [reflexivity|]. cbn [map forallb]. rewrite clean_deg_verase, IH. reflexivity.
  - induction args as [|a tl IH]; [reflexivity|]. destruct a as [|x]; cbn [map vlogarg flat_map app forallb]; [exact IH|].
    rewrite clean_deg_verase, IH. reflexivity.
Qed.

Lemma map_ssig_vserase ss : map ssig (map vserase ss) = map ssig ss.
Proof. rewrite map_map. apply map_ext. apply ssig_vserase. Qed.

Lemma forallb_clean_vserase ss : forallb clean_deg_stmt (map vserase ss) = forallb clean_deg_stmt ss.
Proof. induction ss as [|s tl IH]; [reflexivity|]. cbn [map forallb]. rewrite clean_deg_vserase, IH. reflexivity. Qed.

Lemma ldefs_unique_vserase ss : ldefs_unique (map vserase ss) = ldefs_unique ss.
Proof.
  unfold ldefs_unique. generalize ss at 1 3 as ctx. intros ctx.
  assert (Hlen : forall v, length (filter (defines v) (map vserase ctx)) = length (filter (defines v) ctx)).
  { intros v. induction ctx as [|s tl IH]; [reflexivity|]. cbn [map filter].
    replace (defines v (vserase s)) with (defines v s) by (destruct s; reflexivity).
    destruct (defines v s); cbn [length]; rewrite IH; reflexivity. }
  induction ss as [|s tl IH]; [reflexivity|]. cbn [map forallb]. rewrite IH. f_equal.
  replace (is_ldef (vserase s)) with (is_ldef s) by (destruct s; reflexivity).
  replace (tgt (vserase s)) with (tgt s) by (destruct s; reflexivity).
  destruct (tgt s); [rewrite Hlen|]; reflexivity.
Qed.

Lemma sgs_wf_set_blocks c bs : forall l before, sgs_wf (set_blocks c bs) before l = sgs_wf c before l.
Proof. induction l as [|x tl IH]; intros before; [reflexivity|]. cbn [sgs_wf]. rewrite IH. reflexivity. Qed.

Lemma deg_wf_vserase c bs bs' :
  map vserase (all_stmts bs') = map vserase (all_stmts bs) -> deg_wf (set_blocks c bs') = deg_wf (set_blocks c bs).
Proof.
  intros H. unfold deg_wf. cbn [set_blocks c_blocks]. rewrite !sgs_wf_set_blocks.
  rewrite <- (forallb_clean_vserase (all_stmts bs')), <- (map_ssig_vserase (all_stmts bs')), <- (ldefs_unique_vserase (all_stmts bs')),
    <- (forallb_phi_top_vserase (all_stmts bs')).
  rewrite H. rewrite forallb_clean_vserase, map_ssig_vserase, ldefs_unique_vserase, forallb_phi_top_vserase. reflexivity.
Qed.

Lemma pv_blocks_preds p : forall bs env res b bs' env',
  pv_blocks p env res bs = Ok (b, bs', env') -> map b_preds bs' = map b_preds bs.
Proof.
  induction bs as [|blk tl IH]; intros env res b bs' env'; cbn [pv_blocks].
  - intros [= <- <- <-]. reflexivity.
  - destruct res; [intros [= <- <- <-]; reflexivity|].
    destruct (pv_stmts p env false (b_stmts blk)) as [[[r1 ss'] env1]| | |] eqn:Es; try discriminate. cbn [bind].
    destruct (pv_blocks p env1 r1 tl) as [[[r2 tl'] env2]| | |] eqn:Et; try discriminate. cbn [bind].
    intros [= <- <- <-]. cbn [map]. rewrite (IH _ _ _ _ _ Et). destruct blk; reflexivity.
Qed.

Lemma values_passes_preds p : forall k env bs bs' env',
  values_passes k p env bs = Ok (bs', env') -> map b_preds bs' = map b_preds bs.
Proof.
  induction k as [|k IH]; intros env bs bs' env'; cbn [values_passes].
  - intros [= <- <-]. reflexivity.
  - destruct (pv_blocks p env false bs) as [[[rerun bs1] env1]| | |] eqn:Ep; try discriminate. cbn [bind].
    pose proof (pv_blocks_preds p _ _ _ _ _ _ Ep) as H1. destruct rerun.
    + intros Hk. rewrite (IH _ _ _ _ Hk). exact H1.
    + intros [= <- <-]. exact H1.
Qed.

Theorem propagate_degrees_validated_at_every_budget : forall kv kd p idom c c',
  deg_wf c = true -> idom_shape c idom = true -> propagate kv kd p idom c = Ok c' -> djust_cfg c' idom = true.
Proof.
  intros kv kd p idom c c' Hwf Hshape. unfold propagate.
  destruct (values_passes kv p [] (c_blocks c)) as [[bs1 env1]| | |] eqn:Ev; try discriminate. cbn [bind].
  destruct (degrees_passes kd idom (denv_init (c_kind c) (c_params c)) bs1) as [bs2 env2] eqn:Ed.
  intros [= <-].
  assert (Hwf1 : deg_wf (set_blocks c bs1) = true).
  { rewrite (deg_wf_vserase c (c_blocks c) bs1 (values_passes_vpres p _ _ _ _ _ Ev)).
    destruct c; exact Hwf. }
  assert (Hshape1 : idom_shape (set_blocks c bs1) idom = true).
  { rewrite (idom_shape_preds c (set_blocks c bs1) idom); [exact Hshape|].
    cbn [set_blocks c_blocks]. exact (values_passes_preds p _ _ _ _ _ Ev). }
  exact (degrees_validated_at_every_budget kd idom (set_blocks c bs1) bs2 env2 Hwf1 Hshape1 Ed).
Qed.
