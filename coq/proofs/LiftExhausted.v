(* C13: when the decisions run out at a condition, the walk of the lifted graph
   stops exactly where the structured execution stops (walk = trace).

   The simulation of Proofs.LiftSim gives a finite walk that observes the
   trace.  What is added here is an accounting argument that needs no second
   pass over the lifting: an Exhausted execution observes exactly |ds|+1
   conditions, the last one as the last element of its trace; every condition
   the walk observes consumes one decision while there is one; so the walk meets
   the last condition with no decision left, moves to the offset behind that
   branch, and a branch is the last statement of its block in a well-formed
   graph: the walk is stuck there. *)
From stdpp Require Import list sets.
Require Import Model.Lift Spec.CfgSpec Proofs.LiftBasics Proofs.LiftInv Proofs.LiftSteps Proofs.LiftProofs
  Proofs.LiftTheorems Proofs.LiftSim Proofs.CfgContains.
Import Base(outcome, Ok, Err, Panic, OutOfFuel, bind).

(* the number of conditions among the observations *)
Fixpoint conds (tr : list key) : nat :=
  match tr with
  | [] => 0
  | KCond _ :: r => S (conds r)
  | KLeaf _ :: r => conds r
  end.

Lemma conds_app a b : conds (a ++ b) = conds a + conds b.
Proof. induction a as [|[?|?] a IH]; simpl; [done|done|by rewrite IH]. Qed.

(* ---------------- accounting of the structured semantics ---------------- *)
(* every observed condition consumed one decision, except the one at which the
   decisions ran out, which is then the last observation *)
Definition acct_res (ds : list bool) (r : result) : Prop :=
  let '(tr, ds', st) := r in
  match st with
  | Exhausted => ds' = [] /\ exists tr0 c, tr = tr0 ++ [KCond c] /\ conds tr0 = length ds
  | _ => conds tr + length ds' = length ds
  end.

Definition acct (s : sk) : Prop := forall ds, acct_res ds (run s ds).

Lemma acct_seq ss : Forall acct ss -> forall ds, acct_res ds (run_seq ss ds).
Proof.
  induction 1 as [|s r Hs _ IH]; intros ds; simpl; [done|].
  specialize (Hs ds). destruct (run s ds) as [[tr1 ds1] st1]. simpl in Hs.
  destruct st1; try exact Hs.
  specialize (IH ds1). destruct (run_seq r ds1) as [[tr2 ds2] st2]. simpl in *.
  destruct st2; try (rewrite conds_app; lia).
  destruct IH as (-> & tr0 & c & -> & Hc). split; [done|].
  exists (tr1 ++ tr0), c. split; [by rewrite app_assoc|]. rewrite conds_app. lia.
Qed.

Lemma acct_loop c body : acct body -> forall fuel ds, acct_res ds (run_loop c (run body) fuel ds).
Proof.
  intros Hb. induction fuel as [|fuel IH]; intros ds; simpl; [done|].
  destruct ds as [|[] ds1]; simpl.
  - split; [done|]. by exists [], c.
  - specialize (Hb ds1). destruct (run body ds1) as [[tr1 ds2] st1]. simpl in Hb.
    destruct st1; simpl; try lia.
    + specialize (IH ds2). destruct (run_loop c (run body) fuel ds2) as [[tr2 ds3] st2]. simpl in *.
      destruct st2; try (rewrite conds_app; lia).
      destruct IH as (-> & tr0 & c' & -> & Hc). split; [done|].
      exists (KCond c :: tr1 ++ tr0), c'. split; [by rewrite app_assoc|]. simpl. rewrite conds_app. lia.
    + destruct Hb as (-> & tr0 & c' & -> & Hc). split; [done|].
      exists (KCond c :: tr0), c'. split; [done|]. simpl. lia.
  - lia.
Qed.

Theorem acct_all s : acct s.
Proof.
  induction s as [id r|ss IH|ss IH|c body IH|c t e IHt IHe] using sk_ind'; intros ds.
  - simpl. by destruct r.
  - rewrite run_init. by apply acct_seq.
  - rewrite run_block. by apply acct_seq.
  - rewrite run_while. by apply acct_loop.
  - simpl. destruct ds as [|[] ds1].
    + simpl. split; [done|]. by exists [], c.
    + specialize (IHt ds1). destruct (run t ds1) as [[tr1 ds2] st1]. simpl in *.
      destruct st1; try lia.
      destruct IHt as (-> & tr0 & c' & -> & Hc). split; [done|].
      exists (KCond c :: tr0), c'. split; [done|]. simpl. lia.
    + destruct e as [e|]; [|simpl; lia].
      specialize (IHe e eq_refl ds1). destruct (run e ds1) as [[tr1 ds2] st1]. simpl in *.
      destruct st1; try lia.
      destruct IHe as (-> & tr0 & c' & -> & Hc). split; [done|].
      exists (KCond c :: tr0), c'. split; [done|]. simpl. lia.
Qed.

(* ---------------- accounting of the walk ---------------- *)
(* a step that observes a condition drops one decision (if there is one); any
   other step leaves the decisions alone; a condition met without a decision
   moves to the offset behind its branch *)
Lemma step_cases G p ds o p1 ds1 :
  step G p ds = Some (o, p1, ds1) ->
  match o with
  | Some (KCond c) =>
      ds1 = tail ds /\
      (ds = [] -> exists i k B t f, p = (i, k) /\ G !! i = Some B /\
                    b_items B !! k = Some (IBranch c t f) /\ p1 = (i, S k))
  | _ => ds1 = ds
  end.
Proof.
  unfold step. destruct p as [i k]. destruct (G !! i) as [B|] eqn:EB; [|done].
  destruct (b_items B !! k) as [[id|c t f]|] eqn:Ek.
  - by intros [= <- <- <-].
  - destruct ds as [|[] ds0].
    + intros [= <- <- <-]. split; [done|]. intros _. by exists i, k, B, t, f.
    + by intros [= <- <- <-].
    + destruct (false_target (b_succs B) t f); by intros [= <- <- <-].
  - case_decide; [|done]. destruct (last (b_items B)) as [[|]|]; try done;
      destruct (b_succs B) as [|x [|]]; try done; by intros [= <- <- <-].
Qed.

(* every branch is the last statement of its block *)
Definition branch_last (G : graph) : Prop :=
  forall i B k c t f, G !! i = Some B -> b_items B !! k = Some (IBranch c t f) -> S k = length (b_items B).

Lemma wf_branch_last G P : wf G P -> branch_last G.
Proof. intros Hwf i B k c t f HB Hk. exact (ok_branch_last _ _ _ _ (wf_blk _ _ Hwf _ _ HB) _ _ _ _ Hk). Qed.

Lemma stuck_behind_branch G i B k c t f ds :
  branch_last G -> G !! i = Some B -> b_items B !! k = Some (IBranch c t f) -> stuck G (i, S k) ds.
Proof.
  intros Hbl HB Hk. pose proof (Hbl _ _ _ _ _ _ HB Hk) as Hlen.
  unfold stuck, step. rewrite HB. rewrite (lookup_ge_None_2 (b_items B)) by lia.
  rewrite decide_True by done.
  assert (last (b_items B) = Some (IBranch c t f)) as ->; [|done].
  rewrite last_lookup', <- Hlen. simpl. by rewrite Nat.sub_0_r.
Qed.

Lemma walks_from_stuck G p ds tr q ds' : stuck G p ds -> walks G p ds tr q ds' -> q = p /\ ds' = ds /\ tr = [].
Proof. intros Hst Hw. destruct Hw as [|? ? ? ? ? ? ? ? Hs _]; [done|]. unfold stuck in Hst. congruence. Qed.

(* a walk whose observations end with the (|ds|+1)-th condition is stuck *)
Lemma walks_exhausted_stuck G p ds tr q ds' :
  branch_last G -> walks G p ds tr q ds' ->
  forall tr0 c, tr = tr0 ++ [KCond c] -> conds tr0 = length ds -> stuck G q ds'.
Proof.
  intros Hbl. induction 1 as [p ds|p ds o p1 ds1 tr p2 ds2 Hs Hw IH]; intros tr0 c Htr Hc.
  - by destruct tr0.
  - pose proof (step_cases _ _ _ _ _ _ Hs) as Hcase.
    destruct o as [[id|c']|]; simpl in Htr.
    + subst ds1. destruct tr0 as [|k0 tr0]; [done|]. injection Htr as <- ->. simpl in Hc.
      by eapply IH.
    + destruct Hcase as [-> Hnil]. destruct tr0 as [|k0 tr0].
      * injection Htr as <- ->. simpl in Hc. destruct ds; [|done].
        destruct (Hnil eq_refl) as (i & k & B & t & f & -> & HB & Hk & ->). simpl in Hw.
        assert (Hst : stuck G (i, S k) []) by (by eapply stuck_behind_branch).
        destruct (walks_from_stuck _ _ _ _ _ _ Hst Hw) as (-> & -> & _). done.
      * injection Htr as <- ->. simpl in Hc. destruct ds as [|b ds]; [done|]. simpl in *.
        eapply IH; [done|lia].
    + subst ds1. by eapply IH.
Qed.

(* ---------------- the theorem ---------------- *)
Theorem cfg_equals_source_exhausted body g ds :
  lift body = Ok g -> final_status body ds = Exhausted ->
  exists n0, forall n, n0 <= n -> walk n g ds = trace body ds.
Proof.
  intros Hl Hfin.
  destruct (cfg_contains_source_walks body g ds Hl) as (q & ds' & Hw).
  destruct (lift_final _ _ Hl) as (ss & ps & _ & _ & Hwf).
  pose proof (acct_all body ds) as Ha. unfold trace, final_status in *.
  destruct (run body ds) as [[tr ds0] st]. simpl in *. subst st.
  destruct Ha as (_ & tr0 & c & Htr & Hc).
  eapply walks_stuck_walk_from; [exact Hw|].
  eapply walks_exhausted_stuck; [by eapply wf_branch_last|exact Hw|exact Htr|exact Hc].
Qed.
