(* C01 (bridge SSA -> propagation, second hypothesis of C20_propagate_completes):
   the graph the SSA construction mirror returns has ONE defining assignment per
   local -- Justify.ldefs_unique -- derived from C14's construction theorems
   instead of being assumed of the mirror's output.

     C14_construction_unique_defs   NoDup (all_defs c'): a versioned name is assigned once
     rename_tree_targets (C14, T4)  a target of the output is versioned exactly when it is a
                                    declared local, provided the tree walk reaches every block
     here                           an assignment TAGGED Local assigns a declared local -- an
                                    invariant of phi insertion, renaming and the re-issue of
                                    declarations ([tags_ok]); the type tag is what
                                    ldefs_unique goes by, the declaration key is what the
                                    construction versions by

   [tags_ok (c_decls c) (c_blocks c)] of the graph before conversion is a hypothesis here;
   Proofs.LiftFullIr proves it of every graph the lifting mirror returns. *)
From Coq Require Import ZArith NArith List Bool Lia Arith.
Require Import Model.Base Model.Ir Model.SsaCheck Model.SsaErase Model.Ssa Model.Justify Model.Propagate.
Require Import Proofs.IrInd Proofs.IrFacts Proofs.SsaNoPanic Proofs.SsaFuel Proofs.SsaConstruction.
Import ListNotations.

Lemma Forall_update_nth {A} (P : A -> Prop) (f : A -> A) : forall l i,
  Forall P l -> (forall x, P x -> P (f x)) -> Forall P (update_nth l i f).
Proof.
  induction l as [|x l IH]; intros [|i] H Hf; simpl; inversion H; subst; constructor; auto.
Qed.

Section Tag.
Variable decls : list (vname * vtype).

Definition tag_ok (s : stmt) : Prop :=
  match s with
  | SSubst _ v _ _ _ (Some TLocal) => is_local_in decls v = true
  | _ => True
  end.
Definition bok (b : block) : Prop := Forall tag_ok (b_stmts b).
Definition tags_ok (bs : list block) : Prop := Forall bok bs.

Lemma key_without_version v : key_of (without_version v) = key_of v.
Proof. destruct v; reflexivity. Qed.
Lemma key_with_version v n : key_of (with_version v n) = key_of v.
Proof. destruct v; reflexivity. Qed.

(* ---- phi insertion ---- *)
Lemma add_phis_tags : forall vars b n,
  Forall (fun v => is_local_in decls v = true) vars -> bok b -> bok (fst (add_phis vars b n)).
Proof.
  induction vars as [|v tl IH]; intros b n Hv Hb; simpl; [exact Hb|].
  inversion Hv as [|? ? Hl Htl]; subst.
  destruct (existsb (is_phi_for v) (b_stmts b)); apply IH; try assumption.
  unfold bok. cbn [set_stmts b_stmts]. constructor; [|exact Hb].
  cbn [phi_stmt_for tag_ok]. rewrite (is_local_in_key decls (without_version v) v (key_without_version v)). exact Hl.
Qed.

Lemma vars_written_local b : bok b -> Forall (fun v => is_local_in decls v = true) (vars_written b).
Proof.
  intros Hb. apply Forall_forall. intros v Hv. unfold vars_written in Hv. apply dedup_v_in in Hv.
  apply in_flat_map in Hv. destruct Hv as (s & Hs & Hv).
  unfold bok in Hb. rewrite Forall_forall in Hb. specialize (Hb s Hs).
  destruct s as [| | |m x op rhe sv st| | |]; simpl in Hv; try contradiction.
  destruct st as [[]|]; simpl in Hv; try contradiction. destruct Hv as [<-|[]]. exact Hb.
Qed.

Lemma process_frontier_tags vars : Forall (fun v => is_local_in decls v = true) vars ->
  forall fr bs work, tags_ok bs -> tags_ok (fst (process_frontier vars fr bs work)).
Proof.
  intros Hv. induction fr as [|f tl IH]; intros bs work H; simpl; [exact H|].
  destruct (nth_error bs (N.to_nat f)) as [b|] eqn:E; [|apply IH; exact H].
  destruct (add_phis vars b 0) as [b' pushes] eqn:Ea. apply IH.
  assert (Hb : bok b). { unfold tags_ok in H. rewrite Forall_forall in H. apply H. eapply nth_error_In. exact E. }
  assert (Hb' : bok b'). { change b' with (fst (b', pushes)). rewrite <- Ea. apply add_phis_tags; assumption. }
  apply Forall_update_nth; [exact H|]. intros _ _. exact Hb'.
Qed.

Lemma insert_phis_tags frontier : forall fuel bs work bs',
  insert_phis fuel frontier bs work = SOk bs' -> tags_ok bs -> tags_ok bs'.
Proof.
  induction fuel as [|fuel IH]; intros bs work bs' H Hi.
  - destruct work; simpl in H; [|discriminate]. inversion H; subst. exact Hi.
  - destruct work as [|cur rest]; simpl in H; [inversion H; subst; exact Hi|].
    destruct (nth_error bs cur) as [b|] eqn:Eb; [|discriminate].
    destruct (vars_written b) as [|v vs] eqn:Ev; [eapply IH; eassumption|].
    destruct (process_frontier (v :: vs) (nth cur frontier []) bs rest) as [bs1 work1] eqn:Ep.
    eapply IH; [exact H|]. change bs1 with (fst (bs1, work1)). rewrite <- Ep. apply process_frontier_tags; [|exact Hi].
    rewrite <- Ev. apply vars_written_local. unfold tags_ok in Hi. rewrite Forall_forall in Hi. apply Hi.
    eapply nth_error_In. exact Eb.
Qed.

(* ---- renaming ---- *)
Lemma ssa_stmt_tag s env s' env' : ssa_stmt decls env s = SOk (s', env') -> tag_ok s -> tag_ok s'.
Proof.
  intros H Ht. destruct s as [m names t dims|m c t f|m e|m v op rhe sval stype|m l r|m args|m e]; cbn [ssa_stmt] in H.
  - sb2 H. inversion H; subst. exact I.
  - sb2 H. inversion H; subst. exact I.
  - sb2 H. inversion H; subst. exact I.
  - destruct (vn_version v) eqn:Ev; [discriminate|]. sb2 H.
    destruct (is_local_in decls v) eqn:El.
    + destruct (next_version env0 v) as [n env2]. inversion H; subst. cbn [tag_ok] in *.
      destruct stype as [[]|]; try exact I.
      rewrite (is_local_in_key decls (with_version v n) v (key_with_version v n)). exact El.
    + inversion H; subst. exact Ht.
  - sb2 H. sb2 H. inversion H; subst. exact I.
  - sb2 H. inversion H; subst. exact I.
  - sb2 H. inversion H; subst. exact I.
Qed.

Lemma ssa_stmts_tags : forall ss env r env', ssa_stmts decls env ss = SOk (r, env') -> Forall tag_ok ss -> Forall tag_ok r.
Proof.
  induction ss as [|s tl IH]; intros env r env' H Ht; simpl in H.
  - inversion H; subst. constructor.
  - sb2 H. sb2 H. inversion H; subst. inversion Ht; subst. constructor.
    + eapply ssa_stmt_tag; eassumption.
    + eapply IH; eassumption.
Qed.

Lemma ensure_phi_arg_tag env s : tag_ok s -> tag_ok (ensure_phi_arg env s).
Proof.
  destruct s as [| | |m v op rhe sval stype| | |]; try (intros; exact I). destruct rhe; try (intros H; exact H).
  unfold ensure_phi_arg. intros H. destruct (cur_version env v);
    match goal with |- context [if ?c then _ else _] => destruct c end; exact H.
Qed.

Lemma update_phis_tags env : forall ss, Forall tag_ok ss -> Forall tag_ok (update_phis env ss).
Proof.
  induction ss as [|s tl IH]; intros H; simpl; [constructor|]. inversion H; subst.
  destruct (is_phi_stmt s); [|exact H]. constructor; [apply ensure_phi_arg_tag; assumption|apply IH; assumption].
Qed.

Lemma update_succ_phis_tags env : forall succs bs, tags_ok bs -> tags_ok (update_succ_phis env succs bs).
Proof.
  induction succs as [|s tl IH]; intros bs H; simpl; [exact H|].
  apply IH. apply Forall_update_nth; [exact H|]. intros b Hb. unfold bok. cbn [set_stmts b_stmts].
  apply update_phis_tags. exact Hb.
Qed.

Lemma rename_tree_tags children : forall fuel cur bs env bs' env',
  rename_tree fuel decls children cur bs env = SOk (bs', env') -> tags_ok bs -> tags_ok bs'.
Proof.
  induction fuel as [|fuel IH]; intros cur bs env bs' env' H Hi; [discriminate H|].
  rewrite rename_tree_unfold in H.
  destruct (nth_error bs cur) as [b|] eqn:Eb; [|discriminate].
  sb2 H. rename x into ss1. rename env0 into env1.
  assert (K : forall kids l e l' e',
             rename_kids fuel decls children kids l e = SOk (l', e') -> tags_ok l -> tags_ok l').
  { induction kids as [|k tl IHk]; intros l e l' e' Hk Hl; simpl in Hk.
    - inversion Hk; subst. exact Hl.
    - sb2 Hk. eapply IHk; [exact Hk|]. eapply IH; eassumption. }
  eapply K; [exact H|]. apply update_succ_phis_tags.
  assert (Hb : bok b). { unfold tags_ok in Hi. rewrite Forall_forall in Hi. apply Hi. eapply nth_error_In. exact Eb. }
  assert (H1 : Forall tag_ok ss1) by (eapply ssa_stmts_tags; eassumption).
  apply Forall_update_nth; [exact Hi|]. intros x0 _. unfold bok. cbn [set_stmts b_stmts]. exact H1.
Qed.

Lemma update_decl_stmt_tag env s : tag_ok s -> tag_ok (update_decl_stmt env s).
Proof. destruct s as [m names t dims| | | | | |]; try (intros H; exact H). intros _. destruct names; [exact I|]. destruct t; exact I. Qed.
End Tag.

(* ------------------------------------------------------------------------ *)
(* counting definitions                                                      *)
(* ------------------------------------------------------------------------ *)
Lemma stmt_defs_app a b : stmt_defs (a ++ b) = stmt_defs a ++ stmt_defs b.
Proof. unfold stmt_defs. apply flat_map_app. Qed.

Lemma stmt_defs_all bs : stmt_defs (all_stmts bs) = blocks_defs bs.
Proof.
  unfold all_stmts, blocks_defs. induction bs as [|b tl IH]; [reflexivity|]. simpl. rewrite stmt_defs_app, IH. reflexivity.
Qed.

Lemma vname_eqb_false a b : a <> b -> vname_eqb a b = false.
Proof. intros H. destruct (vname_eqb a b) eqn:E; [|reflexivity]. apply vname_eqb_eq in E. contradiction. Qed.

Lemma vname_eqb_refl a : vname_eqb a a = true.
Proof. apply vname_eqb_eq. reflexivity. Qed.

(* for a versioned name, the statements assigning it are counted by its occurrences among the definitions *)
Lemma defines_count v : versioned v = true -> forall ss,
  length (filter (defines v) ss) = length (filter (fun y => vname_eqb y v) (stmt_defs ss)).
Proof.
  intros Hv. induction ss as [|s tl IH]; [reflexivity|].
  unfold stmt_defs. cbn [flat_map filter]. fold (stmt_defs tl).
  destruct s as [| | |m x op rhe sv st| | |]; cbn [defines stmt_def]; try exact IH.
  destruct (vname_eqb x v) eqn:E.
  - apply vname_eqb_eq in E. subst x. unfold versioned in Hv. destruct (vn_version v) eqn:Ev; [|discriminate].
    cbn [app filter]. rewrite vname_eqb_refl. cbn [length]. rewrite IH. reflexivity.
  - destruct (vn_version x); [|exact IH]. cbn [app filter]. rewrite E. exact IH.
Qed.

Lemma nodup_count (v : vname) : forall l, NoDup l -> In v l -> length (filter (fun y => vname_eqb y v) l) = 1.
Proof.
  induction l as [|x l IH]; intros Hn Hi; [contradiction|]. inversion Hn as [|? ? Hx Hl]; subst. cbn [filter].
  destruct Hi as [->|Hi].
  - rewrite vname_eqb_refl. cbn [length]. f_equal.
    assert (F : filter (fun y => vname_eqb y v) l = []).
    { clear IH Hl Hn. induction l as [|y l IHl]; [reflexivity|]. cbn [filter].
      rewrite vname_eqb_false; [apply IHl; intros H; apply Hx; right; exact H|]. intros ->. apply Hx. left. reflexivity. }
    rewrite F. reflexivity.
  - rewrite vname_eqb_false; [exact (IH Hl Hi)|]. intros ->. contradiction.
Qed.

(* ------------------------------------------------------------------------ *)
(* the theorem                                                               *)
(* ------------------------------------------------------------------------ *)
Theorem into_ssa_ldefs_unique : forall frontier children c c',
  unversioned c -> tags_ok (c_decls c) (c_blocks c) ->
  children_cover children (length (c_blocks c)) ->
  into_ssa frontier children c = SOk c' ->
  ldefs_unique (all_stmts (c_blocks c')) = true.
Proof.
  intros frontier children c c' Hu Htag Hcov H.
  pose proof (into_ssa_unique_defs_unversioned _ _ _ _ Hu H) as ND.
  destruct (into_ssa_stages _ _ _ _ H) as (fuel & bs1 & env0 & bs2 & env & H1 & _ & H2 & ->).
  set (decls := c_decls c) in *.
  set (bs3 := map (fun b => set_stmts b (map (update_decl_stmt env) (b_stmts b))) bs2) in *.
  (* every statement of the output is tagged correctly *)
  assert (T3 : tags_ok decls bs3).
  { pose proof (rename_tree_tags decls children _ _ _ _ _ _ H2 (insert_phis_tags decls frontier _ _ _ _ H1 Htag)) as T2.
    unfold tags_ok, bs3 in *. rewrite Forall_forall in *. intros b' Hb'. apply in_map_iff in Hb'. destruct Hb' as (b & <- & Hb).
    specialize (T2 b Hb). unfold bok in *. cbn [set_stmts b_stmts]. rewrite Forall_forall in *. intros s' Hs'.
    apply in_map_iff in Hs'. destruct Hs' as (s & <- & Hs). apply update_decl_stmt_tag. apply T2. exact Hs. }
  (* every assignment target of the output is versioned exactly when it is a declared local (C14, T4) *)
  destruct (rename_tree_targets decls children _ _ _ _ _ _ H2) as [_ P].
  assert (L2 : length bs2 = length (c_blocks c)).
  { rewrite (rename_tree_length _ _ _ _ _ _ _ _ H2). eapply insert_phis_length. exact H1. }
  assert (TV : forall b' s', In b' bs3 -> In s' (b_stmts b') -> forall x, assigns s' = Some x -> versioned x = is_local_in decls x).
  { intros b' s' Hb' Hs' x Hx. unfold bs3 in Hb'. apply in_map_iff in Hb'. destruct Hb' as (b & <- & Hb).
    cbn [set_stmts b_stmts] in Hs'. apply in_map_iff in Hs'. destruct Hs' as (s & <- & Hs).
    rewrite update_decl_stmt_assigns in Hx.
    destruct (In_nth_error _ _ Hb) as (i & Hi).
    assert (Hlt : i < length bs2) by (apply nth_error_Some; congruence).
    rewrite L2 in Hlt. exact (P i (Hcov i Hlt) b Hi s Hs x Hx). }
  cbn [c_blocks] in *.
  unfold ldefs_unique. apply forallb_forall. intros s Hs.
  destruct (is_ldef s) eqn:El; [|reflexivity]. cbn [negb orb].
  destruct s as [| | |m v op rhe sv st| | |]; try discriminate El. cbn [tgt].
  unfold all_stmts in Hs. apply in_flat_map in Hs. destruct Hs as (b & Hb & Hs).
  (* the target is a declared local, hence versioned *)
  assert (Hloc : is_local_in decls v = true).
  { unfold tags_ok in T3. rewrite Forall_forall in T3. specialize (T3 b Hb). unfold bok in T3. rewrite Forall_forall in T3.
    specialize (T3 _ Hs). cbn [is_ldef] in El. unfold stype_is_local in El. destruct st as [[]|]; try discriminate El. exact T3. }
  assert (Hver : versioned v = true) by (rewrite (TV b _ Hb Hs v eq_refl); exact Hloc).
  apply Nat.eqb_eq. rewrite (defines_count v Hver), stmt_defs_all.
  apply nodup_count.
  - rewrite all_defs_blocks in ND. exact ND.
  - unfold blocks_defs. apply in_flat_map. exists b. split; [exact Hb|]. unfold stmt_defs. apply in_flat_map.
    exists (SSubst m v op rhe sv st). split; [exact Hs|]. cbn [stmt_def]. unfold versioned in Hver.
    destruct (vn_version v); [left; reflexivity|discriminate].
Qed.
