(* NoSilentStages — C02 (third pass): what the stages of Model.FrontStages put
   into the project handed to the runner, derived from their inputs.

   * check_compiler_version / the main-component match: a file of the
     FileLibrary that parses and asks for an unsupported version has its
     CompilerVersionError among the stage items; two entries that parse and
     have a main component give the MultipleMainError.
   * the desugarer (Model.Desugar, with Proofs.DesugarErrLoc): the report of a
     rejected template / function is among the stage items and is located in
     the file of the body; a definition without an entry in the output was
     rejected with such a report.
   * the lifter (Model.LiftFull): a body that is a block and a parameter list
     with a repeated name make `try_lift_impl` answer
     `Err err_param_collision`; [stage_def] turns the error values of
     [lift_outcome] into the [d_err] of the runner's definition. *)
From Coq Require Import ZArith NArith Lia String.
Require Import Gen.Category Model.Runner Spec.RunnerSpec.
From stdpp Require Import list.
Require Import Model.Includes Model.Front Model.FrontStages Spec.NoSilentSpec.
Require Model.Ast Model.Desugar Model.LiftFull Model.PipelineMirrors Spec.ExpandSpec.
Require Proofs.DesugarErrLoc.

(* ---------------------------------------------------------------------- *)
(* the lifter: a repeated parameter name                                    *)
(* ---------------------------------------------------------------------- *)

Section ParamCollision.
  Variable d : LiftFull.udecl.

  Definition penv (e : LiftFull.denv) (seen : list string) : Prop :=
    exists dl sl gl,
      LiftFull.declarations e = [dl] /\ LiftFull.scoped_versions e = [sl] /\ LiftFull.global_versions e = [gl] /\
      (forall n, In n seen -> LiftFull.assoc n gl = Some None) /\
      (forall n, ~ In n seen -> LiftFull.assoc n gl = None).

  Lemma penv_new : penv LiftFull.denv_new [].
  Proof. exists [], [], []. repeat split. intros n []. Qed.

  Lemma add_seen e seen p :
    penv e seen -> In p seen ->
    exists v e', LiftFull.add_declaration p d e = Base.Ok (Some v, e').
  Proof.
    intros (dl & sl & gl & Hd & Hs & Hg & Hin1 & Hin2) Hin.
    unfold LiftFull.add_declaration, LiftFull.get_next_version, LiftFull.add_variable.
    rewrite Hd. simpl. rewrite Hg, Hs. simpl. rewrite (Hin1 p Hin). simpl. eauto.
  Qed.

  Lemma add_fresh e seen p :
    penv e seen -> ~ In p seen ->
    exists e', LiftFull.add_declaration p d e = Base.Ok (None, e') /\ penv e' (p :: seen).
  Proof.
    intros (dl & sl & gl & Hd & Hs & Hg & Hin1 & Hin2) Hin.
    unfold LiftFull.add_declaration, LiftFull.get_next_version, LiftFull.add_variable.
    rewrite Hd. simpl. rewrite Hg. simpl. rewrite (Hin2 p Hin). simpl.
    eexists. split; [reflexivity|].
    exists ((p, d) :: dl), sl, ((p, None) :: gl). simpl. repeat split; [exact Hs| |].
    - intros n Hn. destruct (String.eqb n p) eqn:E; [done|].
      apply String.eqb_neq in E. destruct Hn as [->|Hn]; [by destruct E|]. by apply Hin1.
    - intros n Hn. destruct (String.eqb n p) eqn:E.
      + apply String.eqb_eq in E. subst. destruct Hn. by left.
      + apply Hin2. intros H. apply Hn. by right.
  Qed.

  Lemma env_of_params_collision : forall ps seen e,
    penv e seen ->
    ~ (List.NoDup ps /\ forall p, In p ps -> ~ In p seen) ->
    LiftFull.env_of_params ps d e = Base.Err LiftFull.err_param_collision.
  Proof.
    induction ps as [|p r IH]; intros seen e He Hno.
    - exfalso. apply Hno. split; [constructor|intros p []].
    - simpl. destruct (in_dec string_dec p seen) as [Hin|Hnin].
      + destruct (add_seen e seen p He Hin) as (v & e' & ->). reflexivity.
      + destruct (add_fresh e seen p He Hnin) as (e' & -> & He'). simpl.
        apply (IH (p :: seen) e' He'). intros [Hnd Hall]. apply Hno. split.
        * constructor; [|exact Hnd]. intros Hpr. apply (Hall p Hpr). by left.
        * intros q [<-|Hq]; [exact Hnin|]. intros Hqs. apply (Hall q Hq). by right.
  Qed.
End ParamCollision.

(* `function f(a, a)` / `template T(n, n)`: lifting answers with the collision error *)
Theorem repeated_parameter_collides kind params pfile ploc body :
  LiftFull.is_block body = true -> ~ List.NoDup params ->
  LiftFull.try_lift_impl kind params pfile ploc body = Base.Err LiftFull.err_param_collision.
Proof.
  intros Hb Hnd. unfold LiftFull.try_lift_impl, LiftFull.ensure_unique_variables. rewrite Hb. simpl.
  rewrite (env_of_params_collision (pfile, ploc) params [] LiftFull.denv_new (penv_new)); [reflexivity|].
  intros [H _]. by apply Hnd.
Qed.

(* ---------------------------------------------------------------------- *)
(* the stages                                                               *)
(* ---------------------------------------------------------------------- *)

Section StageFiles.
  Context {path : Type}.
  Variable content : path -> file_content path.
  Variable pragma : path -> option version.
  Variable has_main : path -> bool.
  Variable cv : version.

  Notation parses := (parses content).
  Notation version_items := (version_items content pragma cv).
  Notation main_components_from := (main_components_from content has_main).
  Notation main_items := (main_items content has_main).

  (* ---- check_compiler_version ---- *)
  Lemma version_item_in (files : list (path * bool)) i f u incs v :
    files !! i = Some (f, u) -> content f = Parsed incs -> pragma f = Some v ->
    version_supported v cv = false ->
    In (SIVersionError f v) (version_items files).
  Proof.
    intros Hi Hc Hp Hv. unfold FrontStages.version_items. apply in_flat_map. exists (f, u). split.
    - apply elem_of_list_In. by eapply elem_of_list_lookup_2.
    - simpl. unfold FrontStages.parses. rewrite Hc. unfold check_compiler_version. rewrite Hp, Hv. by left.
  Qed.

  (* ---- the main components ---- *)
  Lemma main_components_from_spec (files : list (path * bool)) : forall k i,
    In i (main_components_from k files) <->
    exists j f u, i = k + j /\ files !! j = Some (f, u) /\ parses f && has_main f = true.
  Proof.
    induction files as [|[f u] rest IH]; intros k i; simpl.
    - split; [intros []|]. intros (j & f & u & _ & Hj & _). by rewrite lookup_nil in Hj.
    - rewrite in_app_iff, IH. split.
      + intros [Hi|(j & f' & u' & -> & Hj & Hm)].
        * destruct (parses f && has_main f) eqn:E; [|destruct Hi]. destruct Hi as [<-|[]].
          exists 0, f, u. rewrite Nat.add_0_r. done.
        * exists (S j), f', u'. split; [lia|done].
      + intros (j & f' & u' & -> & Hj & Hm). destruct j as [|j]; simpl in Hj.
        * inversion Hj; subst. left. rewrite Hm. left. lia.
        * right. exists j, f', u'. split; [lia|done].
  Qed.

  Lemma two_elements {A} (l : list A) a b : In a l -> In b l -> a <> b -> exists x y r, l = x :: y :: r.
  Proof.
    destruct l as [|x [|y r]]; simpl; [tauto| |eauto].
    intros [<-|[]] [<-|[]] Hne. by destruct Hne.
  Qed.

  Lemma two_mains_reported (files : list (path * bool)) i j f g u u' :
    files !! i = Some (f, u) -> files !! j = Some (g, u') -> i <> j ->
    parses f = true -> parses g = true -> has_main f = true -> has_main g = true ->
    main_items files = [SIMultipleMain].
  Proof.
    intros Hi Hj Hne Pf Pg Mf Mg. unfold FrontStages.main_items, main_components.
    assert (Ii : In i (main_components_from 0 files)).
    { apply main_components_from_spec. exists i, f, u. by rewrite Pf, Mf. }
    assert (Ij : In j (main_components_from 0 files)).
    { apply main_components_from_spec. exists j, g, u'. by rewrite Pg, Mg. }
    destruct (two_elements _ _ _ Ii Ij Hne) as (x & y & r & ->). reflexivity.
  Qed.

  (* at most one main component: nothing is pushed *)
  Lemma main_items_cases (files : list (path * bool)) :
    main_items files = [] \/ main_items files = [SIMultipleMain].
  Proof. unfold FrontStages.main_items. destruct (main_components _ _ files) as [|x [|y r]]; auto. Qed.

End StageFiles.

Section Stages.
  Context {path : Type}.
  Variable pf_id pf_name : Z.
  Variable cs : codes.
  Variable spay : stage_item path -> Z.
  Variable ord : nat -> list nat -> list nat.
  Variable horder : list nat -> list nat.
  Variable prime : Z.
  Variable kv kd : nat.
  Variable err_file : PM.definition -> option N.
  Variable name_id : string -> Z.
  Variable after : PM.definition -> def.

  Notation item_report := (item_report pf_id pf_name cs spay).
  Notation lift_outcome := (lift_outcome ord horder prime kv kd).
  Notation stage_def := (stage_def pf_id pf_name cs spay ord horder prime kv kd err_file name_id after).

  (* ---- the desugarer ---- *)
  Lemma sugar_template_reported pr sd n body r0 :
    sugar_input pr = Desugar.DOk sd ->
    In (n, body) (PM.named_bodies (PM.pr_templates pr)) ->
    Desugar.desugar_template (Desugar.env_of (PM.named_bodies (PM.pr_templates pr))) (PM.pr_lib pr) body
      = Desugar.DErr r0 ->
    In (SISugar r0) (sugar_items (path:=path) sd).
  Proof.
    intros Hs Hin Hd. unfold sugar_input in Hs.
    destruct (DesugarErrLoc.remove_syntactic_sugar_drop_reported _ _ _ _ Hs) as (_ & _ & T & _).
    unfold sugar_items. apply in_map. eapply T; eauto.
  Qed.

  Lemma sugar_function_reported pr sd n body rs r0 :
    sugar_input pr = Desugar.DOk sd ->
    In (n, body) (PM.named_bodies (PM.pr_functions pr)) ->
    Desugar.check_function body = Desugar.DOk (Some rs) -> In r0 rs ->
    In (SISugar r0) (sugar_items (path:=path) sd).
  Proof.
    intros Hs Hin Hd Hr. unfold sugar_input in Hs.
    destruct (DesugarErrLoc.remove_syntactic_sugar_drop_reported _ _ _ _ Hs) as (_ & _ & _ & F).
    unfold sugar_items. apply in_map. eapply F; eauto.
  Qed.

  Lemma sugar_template_located env lib fid body r0 :
    body_in_file fid body -> Desugar.desugar_template env lib body = Desugar.DErr r0 -> Desugar.r_file r0 = fid.
  Proof.
    intros Hb Hd.
    pose proof (DesugarErrLoc.desugar_template_error_located (fun m => Ast.m_file m = Some fid) env lib body r0 Hb Hd) as H.
    simpl in H. congruence.
  Qed.

  Lemma sugar_function_located fid body rs r0 :
    body_in_file fid body -> Desugar.check_function body = Desugar.DOk (Some rs) -> In r0 rs ->
    Desugar.r_file r0 = fid.
  Proof.
    intros Hb Hd Hin.
    pose proof (DesugarErrLoc.check_function_located (fun m => Ast.m_file m = Some fid) body rs Hb Hd) as H.
    rewrite List.Forall_forall in H. specialize (H r0 Hin). simpl in H. congruence.
  Qed.

  (* a definition that is not handed on was rejected *)
  Lemma dropped_template_rejected pr sd n body :
    sugar_input pr = Desugar.DOk sd ->
    In (n, body) (PM.named_bodies (PM.pr_templates pr)) -> ~ In n (map fst (Desugar.d_templates sd)) ->
    exists r0, Desugar.desugar_template (Desugar.env_of (PM.named_bodies (PM.pr_templates pr))) (PM.pr_lib pr) body
               = Desugar.DErr r0.
  Proof.
    intros Hs Hin Hno. unfold sugar_input in Hs.
    destruct (DesugarErrLoc.remove_syntactic_sugar_drop_reported _ _ _ _ Hs) as (T & _).
    destruct (T n body Hin Hno) as (r0 & Hr0 & _). eauto.
  Qed.

  Lemma dropped_function_rejected pr sd n body :
    sugar_input pr = Desugar.DOk sd ->
    In (n, body) (PM.named_bodies (PM.pr_functions pr)) -> ~ In n (map fst (Desugar.d_functions sd)) ->
    exists rs r0, Desugar.check_function body = Desugar.DOk (Some rs) /\ In r0 rs.
  Proof.
    intros Hs Hin Hno. unfold sugar_input in Hs.
    destruct (DesugarErrLoc.remove_syntactic_sugar_drop_reported _ _ _ _ Hs) as (_ & F & _).
    destruct (F n body Hin Hno) as (rs & r0 & H1 & H2 & _). eauto.
  Qed.

  (* ---- the lifter ---- *)
  Lemma repeated_parameter_outcome dd :
    LiftFull.is_block (PM.d_body dd) = true -> ~ List.NoDup (PM.d_params dd) ->
    lift_outcome dd = Some LEParamCollision.
  Proof.
    intros Hb Hnd. unfold FrontStages.lift_outcome.
    rewrite (repeated_parameter_collides _ _ _ _ _ Hb Hnd). reflexivity.
  Qed.

  Lemma stage_def_err dd e :
    lift_outcome dd = Some e ->
    d_err (stage_def dd) = Some (item_report (SILiftError dd e (lift_error_file err_file dd e))).
  Proof. intros H. unfold FrontStages.stage_def. simpl. by rewrite H. Qed.

  Lemma stage_def_file dd : d_file (stage_def dd) = def_file dd.
  Proof. reflexivity. Qed.

  Lemma stage_def_key dd : d_key (stage_def dd) = (runner_kind (PM.d_kind dd), name_id (PM.d_name dd)).
  Proof. reflexivity. Qed.

  (* every stage report is error level, except the missing-pragma warning *)
  Lemma item_report_level it :
    r_level (item_report it) = match it with SINoVersion _ => Warning | _ => Error end.
  Proof. destruct it as [| | | |dd e file|]; try reflexivity. simpl. by destruct e. Qed.

  Lemma item_report_pfiles it :
    r_pfiles (item_report it) =
    match it with
    | SISugar r => [Z.of_N (Desugar.r_file r)]
    | SILiftError _ _ (Some f) => [Z.of_N f]
    | SIDuplicate d first => [def_file d; def_file first]
    | _ => []
    end.
  Proof. destruct it as [| | | |dd e file|]; try reflexivity. simpl. by destruct e. Qed.
End Stages.
