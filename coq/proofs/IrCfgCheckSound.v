(* C12, fourth audit: the decision procedures of Model.IrCfgCheck are sound for the
   specification predicates of Spec.IrCfgSpec. *)
From Coq Require Import NArith List Bool Arith Lia.
Require Import Model.Ir Model.IrCfgCheck Spec.IrCfgSpec.
Require Model.SignalAssign Proofs.LiftFullC08.
Import ListNotations.

Lemma is_phi_b_true s : is_phi_b s = true -> is_phi s.
Proof.
  destruct s as [| | |m x op rhe sv st| | |]; try discriminate. destruct rhe; try discriminate.
  intros _. unfold is_phi. eauto 10.
Qed.

Lemma is_phi_b_false s : is_phi_b s = false -> ~ is_phi s.
Proof. intros H (m & x & op & args & k & sv & st & ->). discriminate. Qed.

Lemma vtype_eqb_true a b : vtype_eqb a b = true -> a = b.
Proof. destruct a, b; simpl; congruence. Qed.

Lemma op_eqb_true a b : op_eqb a b = true -> a = b.
Proof. destruct a, b; simpl; congruence. Qed.

Lemma optN_eqb_true (a b : option N) : opt_eqb N.eqb a b = true -> a = b.
Proof. destruct a, b; simpl; try congruence. intros H. apply N.eqb_eq in H. congruence. Qed.

Lemma same_kind_b_true a b : same_kind_b a b = true -> same_kind a b.
Proof.
  destruct a, b; simpl; try discriminate; rewrite ?andb_true_iff; intros H;
    repeat match goal with H : _ /\ _ |- _ => destruct H end;
    repeat match goal with
           | H : SignalAssign.meta_eqb _ _ = true |- _ => apply Proofs.LiftFullC08.meta_eqb_true in H
           | H : vtype_eqb _ _ = true |- _ => apply vtype_eqb_true in H
           | H : op_eqb _ _ = true |- _ => apply op_eqb_true in H
           | H : N.eqb _ _ = true |- _ => apply N.eqb_eq in H
           | H : opt_eqb N.eqb _ _ = true |- _ => apply optN_eqb_true in H
           end; subst; auto.
Qed.

Lemma list_eqbN_true l k : list_eqb N.eqb l k = true -> l = k.
Proof.
  revert k. induction l as [|x l IH]; intros [|y k]; simpl; try discriminate; [reflexivity|].
  rewrite andb_true_iff. intros [H1 H2]. apply N.eqb_eq in H1. f_equal; auto.
Qed.

Lemma forall2b_Forall2 {A B} (p : A -> B -> bool) (P : A -> B -> Prop) l k :
  (forall x y, p x y = true -> P x y) -> forall2b p l k = true -> Forall2 P l k.
Proof.
  intros Hp. revert k. induction l as [|x l IH]; intros [|y k]; simpl; try discriminate; [constructor|].
  rewrite andb_true_iff. intros [H1 H2]. constructor; auto.
Qed.

Lemma drop_phis_split l : exists phis, l = phis ++ drop_phis l /\ Forall is_phi phis.
Proof.
  induction l as [|s r (phis & E & F)]; [exists []; split; [reflexivity|constructor]|].
  simpl. destruct (is_phi_b s) eqn:Es.
  - exists (s :: phis). split; [simpl; congruence|]. constructor; [apply is_phi_b_true; exact Es|assumption].
  - exists []. split; [reflexivity|constructor].
Qed.

Lemma same_frame_b_true b b' : same_frame_b b b' = true -> same_frame b b'.
Proof.
  unfold same_frame_b, same_frame. rewrite !andb_true_iff. intros [[[H1 H2] H3] H4].
  apply N.eqb_eq in H1, H2. apply list_eqbN_true in H3, H4. auto.
Qed.

Lemma phis_then_image_b_true b b' : phis_then_image_b b b' = true -> phis_then_image b b'.
Proof.
  unfold phis_then_image_b, phis_then_image. rewrite andb_true_iff. intros [H1 H2].
  destruct (drop_phis_split (b_stmts b')) as (phis & E & F).
  exists phis, (drop_phis (b_stmts b')). split; [exact E|]. split; [exact F|]. split.
  - rewrite forallb_forall in H1. apply Forall_forall. intros s Hs. apply is_phi_b_false.
    specialize (H1 s Hs). destruct (is_phi_b s); [discriminate|reflexivity].
  - eapply forall2b_Forall2; [|exact H2]. apply same_kind_b_true.
Qed.

Theorem ssa_shape_b_sound c c' : ssa_shape_b c c' = true -> ssa_shape_of c c'.
Proof.
  unfold ssa_shape_b, ssa_shape_of. apply forall2b_Forall2. intros b b'. rewrite andb_true_iff. intros [H1 H2].
  split; [exact (same_frame_b_true _ _ H1)|exact (phis_then_image_b_true _ _ H2)].
Qed.

(* ---- cfg_wf_b ---- *)
Lemma indexed_nth {A} (l : list A) k i b : nth_error l i = Some b -> In (k + i, b) (indexed k l).
Proof.
  revert k i. induction l as [|x l IH]; intros k [|i] H; simpl in *; try discriminate.
  - injection H as ->. left. f_equal. lia.
  - right. replace (k + S i) with (S k + i) by lia. apply IH. exact H.
Qed.

Lemma indexed_forall {A} (p : nat * A -> bool) (l : list A) i b :
  forallb p (indexed 0 l) = true -> nth_error l i = Some b -> p (i, b) = true.
Proof. intros H Hn. rewrite forallb_forall in H. apply H. exact (indexed_nth l 0 i b Hn). Qed.

Lemma memN_In x l : memN x l = true -> In x l.
Proof. unfold memN. rewrite existsb_exists. intros (y & Hy & E). apply N.eqb_eq in E. congruence. Qed.

Lemma nodupN_NoDup l : nodupN l = true -> NoDup l.
Proof.
  induction l as [|x l IH]; simpl; [constructor|]. rewrite andb_true_iff, negb_true_iff. intros [H1 H2].
  constructor; [|auto]. intros Hin. assert (memN x l = true); [|congruence].
  unfold memN. apply existsb_exists. exists x. split; [exact Hin|apply N.eqb_refl].
Qed.

Lemma branch_only_last_l_sound l : branch_only_last_l l = true ->
  forall k s, nth_error l k = Some s -> is_branch s -> S k = length l.
Proof.
  induction l as [|x l IH]; intros H k s Hn Hb; [destruct k; discriminate|].
  destruct l as [|y l].
  - destruct k as [|k]; [reflexivity|]. destruct k; discriminate.
  - simpl in H. rewrite andb_true_iff, negb_true_iff in H. destruct H as [H1 H2].
    destruct k as [|k].
    + injection Hn as ->. destruct Hb as (m & c & t & f & ->). discriminate.
    + simpl. f_equal. apply (IH H2 k s); assumption.
Qed.

Section Wf.
  Variable c : cfg.
  Hypothesis H : cfg_wf_b c = true.

  Let Hs : index_is_position_b c = true /\ entry_no_pred_b c = true /\ edges_in_range_b c = true /\ mirror_b c = true /\
           branch_only_last_b c = true /\ branch_targets_ok_b c = true /\ at_most_two_succs_b c = true /\ pred_below_b c = true.
  Proof. unfold cfg_wf_b in H. rewrite !andb_true_iff in H. tauto. Qed.

  Lemma s_index : index_is_position c.
  Proof.
    destruct Hs as (H1 & _). intros i b Hb. pose proof (indexed_forall _ _ i b H1 Hb) as E. simpl in E.
    apply N.eqb_eq in E. exact E.
  Qed.

  Lemma s_entry : entry_no_pred c.
  Proof.
    destruct Hs as (_ & H2 & _). unfold entry_no_pred_b in H2. unfold entry_no_pred, blk.
    destruct (c_blocks c) as [|b0 r]; [discriminate|]. exists b0. split; [reflexivity|].
    destruct (b_preds b0); [reflexivity|discriminate].
  Qed.

  Lemma s_range : edges_in_range c.
  Proof.
    destruct Hs as (_ & _ & H3 & _). intros i b x Hb Hx. unfold edges_in_range_b in H3. rewrite forallb_forall in H3.
    specialize (H3 b (nth_error_In _ _ Hb)). rewrite forallb_forall in H3.
    assert (Hin : In x (b_succs b ++ b_preds b)) by (apply in_or_app; tauto).
    specialize (H3 x Hin). apply Nat.ltb_lt in H3. exact H3.
  Qed.

  Lemma s_mirror : preds_succs_mirror c.
  Proof.
    destruct Hs as (_ & _ & _ & H4 & _). intros i j. unfold mirror_b in H4. split.
    - intros (bi & Hb & Hin). pose proof (indexed_forall _ _ i bi H4 Hb) as E. simpl in E.
      rewrite andb_true_iff in E. destruct E as [E _]. rewrite forallb_forall in E. specialize (E _ Hin).
      rewrite Nat2N.id in E. unfold blk. destruct (nth_error (c_blocks c) j) as [bj|]; [|discriminate].
      exists bj. split; [reflexivity|]. exact (memN_In _ _ E).
    - intros (bj & Hb & Hin). pose proof (indexed_forall _ _ j bj H4 Hb) as E. simpl in E.
      rewrite andb_true_iff in E. destruct E as [_ E]. rewrite forallb_forall in E. specialize (E _ Hin).
      rewrite Nat2N.id in E. unfold blk. destruct (nth_error (c_blocks c) i) as [bi|]; [|discriminate].
      exists bi. split; [reflexivity|]. exact (memN_In _ _ E).
  Qed.

  Lemma s_branch_last : branch_only_last c.
  Proof.
    destruct Hs as (_ & _ & _ & _ & H5 & _). intros i b k s Hb Hn Hbr. unfold branch_only_last_b in H5.
    rewrite forallb_forall in H5. exact (branch_only_last_l_sound _ (H5 b (nth_error_In _ _ Hb)) k s Hn Hbr).
  Qed.

  Lemma s_targets : branch_targets_ok c.
  Proof.
    destruct Hs as (_ & _ & _ & _ & _ & H6 & _). intros i b m e t f Hb Hl.
    pose proof (indexed_forall _ _ i b H6 Hb) as E. simpl in E.
    change (IrCfgCheck.last_stmt b) with (IrCfgSpec.last_stmt b) in E. rewrite Hl in E.
    rewrite !andb_true_iff in E. destruct E as [[[E1 E2] E3] E4].
    apply N.eqb_eq in E1. apply Nat.ltb_lt in E2. apply memN_In in E3. unfold IrCfgSpec.nblocks. unfold IrCfgCheck.nblocks in *.
    split; [exact E1|]. split; [exact E2|]. split; [exact E3|].
    intros x ->. rewrite !andb_true_iff, negb_true_iff in E4. destruct E4 as [[E4 E5] E6].
    split; [apply Nat.ltb_lt; exact E4|]. split; [exact (memN_In _ _ E5)|].
    intros ->. rewrite N.eqb_refl in E6. discriminate.
  Qed.

  Lemma s_two : at_most_two_succs c.
  Proof.
    destruct Hs as (_ & _ & _ & _ & _ & _ & H7 & _). intros i b Hb. unfold at_most_two_succs_b in H7.
    rewrite forallb_forall in H7. specialize (H7 b (nth_error_In _ _ Hb)).
    rewrite !andb_true_iff in H7. destruct H7 as [[E1 E2] E3].
    split; [exact (nodupN_NoDup _ E1)|]. split; [apply Nat.leb_le; exact E2|].
    intros Hn. apply orb_true_iff in E3. destruct E3 as [E3|E3]; [|apply Nat.leb_le; exact E3].
    exfalso. apply Hn. unfold ends_in_branch_b in E3. change (IrCfgCheck.last_stmt b) with (IrCfgSpec.last_stmt b) in E3.
    unfold ends_in_branch. destruct (IrCfgSpec.last_stmt b) as [s|]; [|discriminate]. exists s. split; [reflexivity|].
    destruct s; try discriminate. unfold is_branch. eauto.
  Qed.

  Lemma path_snoc a l i j : path c a l i -> edge c i j -> j < IrCfgSpec.nblocks c -> path c a (l ++ [j]) j.
  Proof.
    induction 1 as [i Hi|i k l j' He Hp IH]; intros Hedge Hj; simpl.
    - apply path_cons; [exact Hedge|apply path_nil; exact Hj].
    - apply path_cons; [exact He|apply IH; assumption].
  Qed.

  Lemma s_descending : descending_paths c.
  Proof.
    destruct Hs as (_ & _ & _ & _ & _ & _ & _ & H8). intros j. induction j as [j IH] using lt_wf_ind. intros Hj.
    destruct j as [|j'].
    - exists []. split; [apply path_nil; exact Hj|]. intros x [<-|[]]. lia.
    - unfold IrCfgSpec.nblocks in Hj. destruct (nth_error (c_blocks c) (S j')) as [bj|] eqn:Eb;
        [|apply nth_error_None in Eb; lia].
      pose proof (indexed_forall _ _ (S j') bj H8 Eb) as E. simpl in E.
      apply existsb_exists in E. destruct E as (p & Hp & Hlt). apply Nat.ltb_lt in Hlt.
      assert (Hedge : edge c (N.to_nat p) (S j')).
      { apply (proj2 (s_mirror (N.to_nat p) (S j'))). exists bj. split; [exact Eb|]. rewrite N2Nat.id. exact Hp. }
      destruct (IH (N.to_nat p) Hlt) as (l & Hl & Hle). { unfold IrCfgSpec.nblocks. lia. }
      exists (l ++ [S j']). split.
      + eapply path_snoc; [exact Hl|exact Hedge|unfold IrCfgSpec.nblocks; lia].
      + intros x Hx. change (0 :: l ++ [S j']) with ((0 :: l) ++ [S j']) in Hx. apply in_app_or in Hx.
        destruct Hx as [Hx|[<-|[]]]; [|lia]. specialize (Hle x Hx). lia.
  Qed.

  Lemma s_reachable : all_reachable c.
  Proof. intros j Hj. destruct (s_descending j Hj) as (l & Hl & _). exists l. exact Hl. Qed.

  Lemma s_dom : dom_implies_le c.
  Proof. intros i j Hj Hd. destruct (s_descending j Hj) as (l & Hl & Hle). apply Hle. apply Hd. exact Hl. Qed.

  Theorem cfg_wf_b_sound_sec : cfg_wf c.
  Proof.
    constructor; [exact s_index|exact s_entry|exact s_range|exact s_mirror|exact s_branch_last|exact s_targets|exact s_two
                 |exact s_reachable|exact s_dom|exact s_descending].
  Qed.
End Wf.

Theorem cfg_wf_b_sound c : cfg_wf_b c = true -> cfg_wf c.
Proof. exact (cfg_wf_b_sound_sec c). Qed.
