(* C14, second half: each read sees the assignment that reaches it in the
   original program.  See Spec.SsaOrigin for the statement. *)
From Coq Require Import ZArith NArith List Bool Lia.
Require Import Model.Base Model.Ir Model.SsaCheck Model.SsaErase.
Require Import Spec.SsaSpec Spec.SsaOrigin Proofs.IrFacts Proofs.SsaProofs.
Import ListNotations.

(* ---------- similarity: what it gives ---------- *)
Lemma vname_sim_key a b : vname_sim a b = true -> key_of a = key_of b.
Proof. unfold vname_sim. apply key_eqb_eq. Qed.

Lemma stmt_sim_assigns a b : stmt_sim a b = true ->
  match assigns a, assigns b with
  | Some x, Some y => key_of x = key_of y
  | None, None => True
  | _, _ => False
  end.
Proof.
  destruct a, b; cbn [stmt_sim assigns]; try discriminate; auto.
  intros H. repeat (apply andb_true_iff in H as [H ?]). apply vname_sim_key. assumption.
Qed.

Lemma ns_eqb_eq a : forall b, ns_eqb a b = true -> a = b.
Proof.
  induction a as [|x ta IH]; intros [|y tb]; cbn [ns_eqb]; try discriminate; [reflexivity|].
  intros H. apply andb_true_iff in H as [H1 H2]. apply N.eqb_eq in H1. subst y. f_equal. apply IH. exact H2.
Qed.

Lemma blocks_sim_nth xs : forall ys i, blocks_sim xs ys = true ->
  match nth_error xs i, nth_error ys i with
  | Some x, Some y => block_sim x y = true
  | None, None => True
  | _, _ => False
  end.
Proof.
  induction xs as [|x tx IH]; intros [|y ty] i; cbn [blocks_sim]; try discriminate.
  - intros _. destruct i; cbn; exact I.
  - intros H. apply andb_true_iff in H as [H1 H2]. destruct i as [|i]; cbn [nth_error]; [exact H1|]. apply IH. exact H2.
Qed.

Lemma stmts_sim_firstn xs : forall ys k, stmts_sim xs ys = true -> stmts_sim (firstn k xs) (firstn k ys) = true.
Proof.
  induction xs as [|x tx IH]; intros [|y ty] k; cbn [stmts_sim]; try discriminate.
  - intros _. destruct k; reflexivity.
  - intros H. apply andb_true_iff in H as [H1 H2]. destruct k as [|k]; cbn [firstn stmts_sim]; [reflexivity|].
    rewrite H1. cbn. apply IH. exact H2.
Qed.

Lemma stmts_sim_nth xs : forall ys k y, stmts_sim xs ys = true -> nth_error ys k = Some y ->
  exists x, nth_error xs k = Some x /\ stmt_sim x y = true.
Proof.
  induction xs as [|x tx IH]; intros [|y0 ty] k y; cbn [stmts_sim]; try discriminate.
  - intros _ H. destruct k; discriminate.
  - intros H Hn. apply andb_true_iff in H as [H1 H2]. destruct k as [|k]; cbn [nth_error] in *.
    + injection Hn as <-. eauto.
    + eapply IH; eauto.
Qed.

(* ---------- the two graphs have the same paths ---------- *)
Lemma erase_succs pre c i : erase_eqb pre c = true ->
  option_map b_succs (nth_error (c_blocks pre) i) = option_map b_succs (nth_error (c_blocks c) i).
Proof.
  intros H. pose proof (blocks_sim_nth _ _ i H) as Hn.
  destruct (nth_error (c_blocks pre) i) as [bp|], (nth_error (c_blocks c) i) as [bs|]; cbn; try contradiction; [|reflexivity].
  unfold block_sim in Hn. repeat (apply andb_true_iff in Hn as [Hn ?]).
  f_equal. apply ns_eqb_eq. assumption.
Qed.

Lemma is_walk_succs g1 g2 :
  (forall i, option_map b_succs (nth_error (c_blocks g1) i) = option_map b_succs (nth_error (c_blocks g2) i)) ->
  forall pi p, is_walk g1 p pi -> is_walk g2 p pi.
Proof.
  intros Hs. induction pi as [|s tl IH]; intros p; cbn [is_walk]; [auto|].
  intros [(b & Hb & Hin) Hw]. split; [|apply IH; exact Hw].
  specialize (Hs p). rewrite Hb in Hs. cbn in Hs.
  destruct (nth_error (c_blocks g2) p) as [b2|]; [|discriminate]. cbn in Hs. injection Hs as Hs.
  exists b2. split; [reflexivity|]. rewrite <- Hs. exact Hin.
Qed.

Theorem erase_same_paths pre c pi : erase_eqb pre c = true ->
  (path_from_entry c pi <-> path_from_entry pre pi).
Proof.
  intros H. unfold path_from_entry. destruct pi as [|[|n] tl]; try tauto.
  split; apply is_walk_succs; intros i; [symmetry|]; apply erase_succs; exact H.
Qed.

(* ---------- the invariant ---------- *)
Definition versioned_key (c : cfg) (x : key) : Prop :=
  exists y, In y (all_targets c ++ c_params c) /\ key_of y = x /\ vn_version y <> None.

Definition in_graph (c : cfg) (s : stmt) : Prop := exists b, In b (c_blocks c) /\ In s (b_stmts b).

Lemma in_graph_target c s x : in_graph c s -> assigns s = Some x -> In x (all_targets c).
Proof.
  intros (b & Hb & Hs) Ha. unfold all_targets. apply in_flat_map. exists b. split; [exact Hb|].
  apply in_flat_map. exists s. split; [exact Hs|]. rewrite Ha. left. reflexivity.
Qed.

Lemma mixed_spec c x : mixed_keys_ok c = true -> In x (all_targets c) -> vn_version x = None ->
  ~ versioned_key c (key_of x).
Proof.
  unfold mixed_keys_ok. intros H Hin Hv (y & Hy & Hk & Hvy).
  rewrite forallb_forall in H. specialize (H x Hin). unfold versioned in H at 1. rewrite Hv in H. cbn in H.
  apply negb_true_iff in H. assert (E : existsb (fun y0 => vname_sim x y0 && versioned y0) (all_targets c ++ c_params c) = true).
  { apply existsb_exists. exists y. split; [exact Hy|]. apply andb_true_iff. split.
    - unfold vname_sim. apply key_eqb_eq. symmetry. exact Hk.
    - unfold versioned. destruct (vn_version y); [reflexivity|congruence]. }
  congruence.
Qed.

Definition Inv (c : cfg) (st : ostate) (S : smap) : Prop :=
  (forall x, versioned_key c x -> S x = match vget (fst st) x with Some n => snd st x n | None => None end) /\
  (forall x n, vget (fst st) x = Some n -> versioned_key c x).

Lemma stmt_def_assigns s x : stmt_def s = Some x -> assigns s = Some x /\ vn_version x <> None.
Proof.
  destruct s; cbn [stmt_def assigns]; try discriminate.
  destruct (vn_version v) eqn:E; [|discriminate]. intros [= <-]. split; [reflexivity|congruence].
Qed.

Lemma assigns_unversioned s x : assigns s = Some x -> vn_version x = None -> stmt_def s = None.
Proof. destruct s; cbn [stmt_def assigns]; try discriminate. intros [= ->] ->. reflexivity. Qed.

Lemma assigns_versioned s x n : assigns s = Some x -> vn_version x = Some n -> stmt_def s = Some x.
Proof. destruct s; cbn [stmt_def assigns]; try discriminate. intros [= ->] ->. reflexivity. Qed.

Lemma versioned_key_target c s x n : in_graph c s -> assigns s = Some x -> vn_version x = Some n ->
  versioned_key c (key_of x).
Proof.
  intros Hg Ha Hv. exists x. split; [apply in_or_app; left; eapply in_graph_target; eauto|]. split; [reflexivity|congruence].
Qed.

(* a body statement of the SSA graph against the similar statement of the original graph *)
Lemma inv_stmt c q st S s' s : mixed_keys_ok c = true -> in_graph c s -> stmt_sim s' s = true ->
  Inv c st S -> Inv c (org_stmt q st s) (src_stmt q S s').
Proof.
  intros Hmix Hg Hsim [I1 I2]. pose proof (stmt_sim_assigns _ _ Hsim) as Ha.
  unfold org_stmt, src_stmt, track. destruct st as [L O]. cbn [fst snd] in *.
  destruct (assigns s') as [x'|] eqn:Ea', (assigns s) as [x|] eqn:Ea; try contradiction.
  - destruct (vn_version x) as [n|] eqn:Ev.
    + rewrite (assigns_versioned _ _ _ Ea Ev). cbv beta iota. rewrite Ev. split.
      * cbn [fst snd]. intros z Hz. unfold sset. rewrite vget_vset, Ha. destruct (key_eqb (key_of x) z) eqn:Ek.
        -- unfold oset. rewrite Ek, N.eqb_refl. reflexivity.
        -- rewrite (I1 z Hz). destruct (vget L z) as [m|]; [|reflexivity]. unfold oset. rewrite Ek. reflexivity.
      * cbn [fst snd]. intros z m. rewrite vget_vset. destruct (key_eqb (key_of x) z) eqn:Ek; [|apply I2].
        intros _. apply key_eqb_eq in Ek. subst z. eapply versioned_key_target; eauto.
    + rewrite (assigns_unversioned _ _ Ea Ev). cbv beta iota. split; [|exact I2].
      cbn [fst snd]. intros z Hz. unfold sset. rewrite Ha. destruct (key_eqb (key_of x) z) eqn:Ek; [|apply I1; exact Hz].
      apply key_eqb_eq in Ek. subst z. exfalso. eapply mixed_spec; eauto. eapply in_graph_target; eauto.
  - assert (stmt_def s = None) as ->. { destruct (stmt_def s) eqn:E; [|reflexivity]. apply stmt_def_assigns in E as [E _]. congruence. }
    split; assumption.
Qed.

Lemma inv_phi c st S s : in_graph c s -> is_phi_stmt s = true -> Inv c st S -> Inv c (org_phi st s) S.
Proof.
  intros Hg Hphi [I1 I2]. destruct (is_phi_parts s Hphi) as (x & args & Hp).
  assert (Ha : assigns s = Some x). { destruct s; try discriminate. cbn in Hp. destruct rhe; try discriminate. injection Hp as -> _. reflexivity. }
  unfold org_phi, track. destruct st as [L O]. cbn [fst snd] in *. rewrite Hp.
  destruct (vn_version x) as [n|] eqn:Ev.
  - rewrite (assigns_versioned _ _ _ Ha Ev). cbv beta iota. rewrite Ev. split.
    + cbn [fst snd]. intros z Hz. rewrite vget_vset. destruct (key_eqb (key_of x) z) eqn:Ek.
      * unfold oset. rewrite Ek, N.eqb_refl. apply key_eqb_eq in Ek. subst z. apply I1. exact Hz.
      * rewrite (I1 z Hz). destruct (vget L z) as [m|]; [|reflexivity]. unfold oset. rewrite Ek. reflexivity.
    + cbn [fst snd]. intros z m. rewrite vget_vset. destruct (key_eqb (key_of x) z) eqn:Ek; [|apply I2].
      intros _. apply key_eqb_eq in Ek. subst z. eapply versioned_key_target; eauto.
  - rewrite (assigns_unversioned _ _ Ha Ev). cbv beta iota. split; assumption.
Qed.

Lemma inv_phis c S phis : forall st, (forall s, In s phis -> in_graph c s /\ is_phi_stmt s = true) ->
  Inv c st S -> Inv c (fold_left org_phi phis st) S.
Proof.
  induction phis as [|s tl IH]; intros st Hall HI; cbn [fold_left]; [exact HI|].
  apply IH; [intros s' Hs'; apply Hall; right; exact Hs'|].
  destruct (Hall s (or_introl eq_refl)) as [Hg Hp]. apply inv_phi; assumption.
Qed.

Lemma inv_body c i : mixed_keys_ok c = true -> forall ss' ss k st S,
  (forall s, In s ss -> in_graph c s) -> stmts_sim ss' ss = true ->
  Inv c st S -> Inv c (org_body i k st ss) (src_body i k S ss').
Proof.
  intros Hmix. induction ss' as [|s' tl' IH]; intros [|s tl] k st S Hall Hsim HI; cbn [stmts_sim] in Hsim; try discriminate.
  - exact HI.
  - apply andb_true_iff in Hsim as [H1 H2]. cbn [org_body src_body]. apply IH; [intros x Hx; apply Hall; right; exact Hx|exact H2|].
    apply inv_stmt; auto. apply Hall. left. reflexivity.
Qed.

Lemma in_firstn_in {A} k : forall (l : list A) x, In x (firstn k l) -> In x l.
Proof.
  induction k as [|k IH]; intros [|y tl] x; cbn [firstn In]; try tauto.
  intros [H|H]; [left; exact H|right; apply IH; exact H].
Qed.

Lemma block_parts b : b_stmts b = fst (leading_phis (b_stmts b)) ++ body_of b.
Proof. unfold body_of. destruct (leading_phis (b_stmts b)) as [p q] eqn:E. cbn. eapply leading_phis_app; eauto. Qed.

Lemma block_phis_are_phis b : Forall (fun s => is_phi_stmt s = true) (fst (leading_phis (b_stmts b))).
Proof. destruct (leading_phis (b_stmts b)) as [p q] eqn:E. cbn. eapply leading_phis_are_phis; eauto. Qed.

Lemma inv_block_prefix c i bp bs k st S : mixed_keys_ok c = true -> In bs (c_blocks c) -> block_sim bp bs = true ->
  Inv c st S ->
  Inv c (org_body i 0 (fold_left org_phi (fst (leading_phis (b_stmts bs))) st) (firstn k (body_of bs)))
        (src_body i 0 S (firstn k (b_stmts bp))).
Proof.
  intros Hmix Hin Hsim HI. unfold block_sim in Hsim. apply andb_true_iff in Hsim as [_ Hsim].
  apply inv_body; [exact Hmix| |apply stmts_sim_firstn; exact Hsim|].
  - intros s Hs. exists bs. split; [exact Hin|]. rewrite block_parts. apply in_or_app. right. eapply in_firstn_in; eauto.
  - apply inv_phis; [|exact HI]. intros s Hs. split.
    + exists bs. split; [exact Hin|]. rewrite block_parts. apply in_or_app. left. exact Hs.
    + pose proof (block_phis_are_phis bs) as Hf. rewrite Forall_forall in Hf. apply Hf. exact Hs.
Qed.

Lemma inv_block c i bp bs st S : mixed_keys_ok c = true -> In bs (c_blocks c) -> block_sim bp bs = true ->
  Inv c st S -> Inv c (org_block i st bs) (src_body i 0 S (b_stmts bp)).
Proof.
  intros Hmix Hin Hsim HI. pose proof (inv_block_prefix c i bp bs (length (b_stmts bp) + length (body_of bs)) st S Hmix Hin Hsim HI) as H.
  rewrite !firstn_all2 in H by lia. exact H.
Qed.

Lemma inv_path pre c : erase_check pre c = true -> forall pi st S,
  Inv c st S -> Inv c (org_path c st pi) (src_path pre S pi).
Proof.
  intros Hchk. unfold erase_check in Hchk. apply andb_true_iff in Hchk as [Hsim Hmix].
  induction pi as [|i tl IH]; intros st S HI; cbn [org_path src_path]; [exact HI|].
  pose proof (blocks_sim_nth _ _ i Hsim) as Hn.
  destruct (nth_error (c_blocks pre) i) as [bp|] eqn:Ep, (nth_error (c_blocks c) i) as [bs|] eqn:Es; try contradiction; [|exact HI].
  apply IH. apply inv_block; auto. eapply nth_error_In; eauto.
Qed.

Lemma params_map_vget ps : forall m x n,
  vget (fold_left (fun m x => match vn_version x with Some n => vset m (key_of x) n | None => m end) ps m) x = Some n ->
  vget m x = Some n \/ exists y, In y ps /\ key_of y = x /\ vn_version y <> None.
Proof.
  induction ps as [|p tl IH]; intros m x n; cbn [fold_left]; [auto|].
  intros H. destruct (IH _ _ _ H) as [H1|(y & Hy & Hk & Hv)].
  - destruct (vn_version p) as [k|] eqn:Ev; [|auto]. rewrite vget_vset in H1.
    destruct (key_eqb (key_of p) x) eqn:Ek; [|auto]. right. exists p. split; [left; reflexivity|].
    split; [apply key_eqb_eq; exact Ek|congruence].
  - right. exists y. split; [right; exact Hy|auto].
Qed.

Lemma inv_init c : Inv c (params_map (c_params c), O0) S0.
Proof.
  split; cbn [fst snd].
  - intros x _. unfold S0, O0. destruct (vget (params_map (c_params c)) x); reflexivity.
  - intros x n H. unfold params_map in H. destruct (params_map_vget _ _ _ _ H) as [H1|(y & Hy & Hk & Hv)]; [discriminate|].
    exists y. split; [apply in_or_app; right; exact Hy|auto].
Qed.

(* PATH LEVEL: at the end of every path, the origin of the running version of a
   variable is the position of the last source assignment to it on that path *)
Theorem origin_is_last_source_assignment pre c pi x n :
  erase_check pre c = true ->
  vget (fst (org_path c (params_map (c_params c), O0) pi)) x = Some n ->
  snd (org_path c (params_map (c_params c), O0) pi) x n = src_path pre S0 pi x.
Proof.
  intros Hchk Hv. destruct (inv_path pre c Hchk pi _ _ (inv_init c)) as [I1 I2].
  rewrite (I1 x (I2 x n Hv)), Hv. reflexivity.
Qed.

(* ---------- the running versions of org_path are those of exec_path ---------- *)
Lemma fold_org_phi_fst phis : forall st, fst (fold_left org_phi phis st) = apply_phis (fst st) phis.
Proof. unfold apply_phis. induction phis as [|s tl IH]; intros st; cbn [fold_left]; [reflexivity|]. rewrite IH. reflexivity. Qed.

Lemma org_body_fst i ss : forall k st, fst (org_body i k st ss) = fold_left track ss (fst st).
Proof. induction ss as [|s tl IH]; intros k st; cbn [org_body fold_left]; [reflexivity|]. rewrite IH. reflexivity. Qed.

Lemma body_run_track ss : forall m m', body_run m ss = Some m' -> m' = fold_left track ss m.
Proof.
  induction ss as [|s tl IH]; intros m m'; cbn [body_run fold_left]; [congruence|].
  destruct (body_stmt_ok m s); [|discriminate]. apply IH.
Qed.

Lemma enter_block_org L b L' i O : enter_block L b = Some L' -> fst (org_block i (L, O) b) = L'.
Proof.
  unfold enter_block, org_block, body_of. destruct (leading_phis (b_stmts b)) as [phis body]. cbn [fst snd].
  destruct (forallb (phi_read_ok L) phis); [|discriminate]. intros H.
  rewrite org_body_fst, fold_org_phi_fst. cbn [fst]. symmetry. apply body_run_track. exact H.
Qed.

Lemma exec_path_org c : forall pi L O L', exec_path c L pi = Some L' -> fst (org_path c (L, O) pi) = L'.
Proof.
  induction pi as [|i tl IH]; intros L O L'; cbn [exec_path org_path]; [cbn [fst]; congruence|].
  destruct (nth_error (c_blocks c) i) as [b|]; [|discriminate].
  destruct (enter_block L b) as [L1|] eqn:Ee; [|discriminate]. intros H.
  pose proof (enter_block_org L b L1 i O Ee) as H1.
  destruct (org_block i (L, O) b) as [L2 O2]. cbn [fst] in H1. subst L2. eapply IH. exact H.
Qed.

(* STATEMENT LEVEL: on a graph accepted by both validators, for every path from
   the entry ending in block bi and every read of a versioned local v = x.n by the
   k-th body statement s of bi (the fresh base version of an element-wise update of a
   never-assigned array excepted):
     - the original block has, at the same position, a statement similar to s,
     - x.n is the running version of x in front of s, and
     - its origin is the position of the source assignment to x executed last in
       the original program along the same path, in front of that statement. *)
Theorem reads_see_source_assignment pre c idom pi bi b k s v n :
  ssa_check c idom = true -> erase_check pre c = true ->
  path_from_entry c (pi ++ [bi]) ->
  nth_error (c_blocks c) bi = Some b -> nth_error (body_of b) k = Some s ->
  In v (stmt_reads s) -> vn_version v = Some n -> update_base s <> Some v ->
  path_from_entry pre (pi ++ [bi]) /\
  (exists bp s', nth_error (c_blocks pre) bi = Some bp /\ nth_error (b_stmts bp) k = Some s' /\ stmt_sim s' s = true) /\
  vget (fst (org_at c pi bi k)) (key_of v) = Some n /\
  snd (org_at c pi bi k) (key_of v) n = src_at pre pi bi k (key_of v).
Proof.
  intros Hc Hchk Hp Hb Hk Hv Hn Hu.
  pose proof Hchk as Hchk'. unfold erase_check in Hchk'. apply andb_true_iff in Hchk' as [Hsim Hmix].
  split; [apply (erase_same_paths pre c _ Hsim); exact Hp|].
  pose proof (blocks_sim_nth _ _ bi Hsim) as Hbn. rewrite Hb in Hbn.
  destruct (nth_error (c_blocks pre) bi) as [bp|] eqn:Ebp; [|contradiction].
  assert (Hss : stmts_sim (b_stmts bp) (body_of b) = true).
  { unfold block_sim in Hbn. apply andb_true_iff in Hbn as [_ H]. exact H. }
  split.
  { destruct (stmts_sim_nth _ _ _ _ Hss Hk) as (s' & Hs' & Hsm). exists bp, s'. auto. }
  (* the invariant in front of the statement *)
  assert (HI : Inv c (org_at c pi bi k) (src_at pre pi bi k)).
  { unfold org_at, src_at. rewrite Hb, Ebp. apply inv_block_prefix; auto.
    - eapply nth_error_In; eauto.
    - apply inv_path; [exact Hchk|apply inv_init]. }
  (* the running version in front of the statement, from the dynamic check *)
  destruct (ssa_check_paths_ok c idom _ Hc Hp) as [Lf Hex].
  destruct (exec_path_app c pi [bi] _ _ Hex) as (L1 & Hpre & Hlast).
  cbn [exec_path] in Hlast. rewrite Hb in Hlast.
  destruct (enter_block L1 b) as [L2|] eqn:Ee; [|discriminate]. clear Hlast.
  unfold enter_block in Ee. unfold body_of in Hk. destruct (leading_phis (b_stmts b)) as [phis body] eqn:El. cbn [snd] in Hk.
  destruct (forallb (phi_read_ok L1) phis); [|discriminate].
  destruct (nth_error_split _ _ Hk) as (l1 & l2 & Hsplit & Hlen). rewrite Hsplit in Ee.
  destruct (body_run_split l1 s l2 _ _ Ee) as (m1 & Hm1 & Hok).
  assert (Hfst : fst (org_at c pi bi k) = m1).
  { unfold org_at. rewrite Hb. unfold body_of. rewrite El. cbn [fst snd].
    rewrite org_body_fst, fold_org_phi_fst, (exec_path_org c pi _ O0 L1 Hpre).
    rewrite Hsplit, <- Hlen, firstn_app, Nat.sub_diag, firstn_all. cbn [firstn]. rewrite app_nil_r.
    symmetry. apply body_run_track. exact Hm1. }
  unfold body_stmt_ok in Hok. apply andb_true_iff in Hok as [_ Hreads]. rewrite forallb_forall in Hreads.
  specialize (Hreads v Hv). unfold read_ok in Hreads. rewrite Hn in Hreads.
  assert (Hrun : vget m1 (key_of v) = Some n).
  { destruct (vget m1 (key_of v)) as [n'|] eqn:Eg.
    - apply N.eqb_eq in Hreads. congruence.
    - exfalso. destruct (update_base s) as [w|] eqn:Eu; [|discriminate].
      apply Hu. f_equal. apply vname_eqb_true_eq. exact Hreads. }
  rewrite Hfst. split; [exact Hrun|].
  destruct HI as [I1 I2]. rewrite Hfst in I1, I2.
  rewrite (I1 _ (I2 _ _ Hrun)), Hrun. reflexivity.
Qed.
