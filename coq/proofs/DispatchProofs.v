(* C16: the operator dispatch of expression_impl.rs (mirrored in
   Model.Propagate.infix_values / prefix_values and driven over closed
   expressions by Model.FieldDispatch.lit_dispatch) against the documented
   semantics of closed expressions (Spec.DispatchSpec). *)
From Coq Require Import ZArith Zpow_facts Lia Bool Znumtheory List.
Require Import Model.Base Model.Field Model.Ir Model.Propagate Model.FieldDispatch.
Require Import Spec.FieldSpec Spec.DispatchSpec Proofs.FieldProofs.
Local Open Scope Z_scope.
Ltac Zify.zify_post_hook ::= Z.div_mod_to_equations.

(* ---------- small facts ---------- *)
Lemma truthy_b2z (x : bool) : truthy (b2z x) = x.
Proof. destruct x; reflexivity. Qed.

Lemma as_bool_b2z (x : bool) p : 2 < p -> as_bool (b2z x) p = x.
Proof. intros Hp. unfold as_bool. rewrite normalize_bool by lia. destruct x; reflexivity. Qed.

Lemma b2z_canon (x : bool) p : 2 < p -> 0 <= b2z x < p.
Proof. destruct x; cbn; lia. Qed.

Lemma lit_reduced z p : 0 <= z -> 0 < p -> Z.rem z p = z mod p.
Proof. intros. apply Z.rem_mod_nonneg; lia. Qed.

Definition is_cmp (op : infix_op) : bool :=
  match op with ILe | IGe | ILt | IGt | IEq | INeq => true | _ => false end.

Definition wrap (op : infix_op) (p v : Z) : vred :=
  if is_cmp op then VBool (as_bool v p) else VField v.

(* the table over two field elements, operator by operator *)
Lemma infix_values_field op a b p :
  op <> IOr -> op <> IAnd ->
  infix_values op (Some (VField a)) (Some (VField b)) p =
  match eval (doc_infix op) a b p with
  | Ok v => Ok (Some (wrap op p v))
  | Err _ => Ok None
  | Panic s => Panic s
  | OutOfFuel => OutOfFuel
  end.
Proof.
  intros H1 H2. destruct op; try congruence; cbn [infix_values doc_infix eval wrap is_cmp cmp_val];
    try reflexivity; unfold res_to_opt;
    match goal with |- context [match ?x with _ => _ end] => destruct x; reflexivity end.
Qed.

Lemma infix_values_some op a b p c : infix_values op a b p = Ok (Some c) -> exists x y, a = Some x /\ b = Some y.
Proof. destruct a as [x|], b as [y|]; cbn; try discriminate; eauto; destruct x; discriminate. Qed.

Lemma prefix_values_some op a p c : prefix_values op a p = Some c -> exists x, a = Some x.
Proof. destruct a; cbn; try discriminate; eauto. Qed.

Lemma div_unique a b p v1 v2 :
  prime p -> 0 <= b < p -> b <> 0 -> 0 <= v1 < p -> 0 <= v2 < p ->
  (v1 * b) mod p = a -> (v2 * b) mod p = a -> v1 = v2.
Proof.
  intros Hp Hb Hb0 H1 H2 E1 E2.
  assert (Hpp : 0 < p) by (destruct Hp; lia).
  assert (Hd : (p | (v1 - v2) * b)).
  { apply Z.mod_divide; [lia|].
    rewrite Z.mul_sub_distr_r. rewrite Zminus_mod, E1, E2, Z.sub_diag. apply Z.mod_0_l. lia. }
  apply prime_mult in Hd; [|assumption].
  destruct Hd as [Hd|Hd].
  - destruct Hd as [q Hq]. assert (q = 0) by nia. subst q. lia.
  - exfalso. destruct Hd as [q Hq]. assert (q = 0) by nia. lia.
Qed.

Section Dispatch.
Variable p : Z.
Hypothesis Hprime : prime p.
Hypothesis Hp : 2 < p.
Hypothesis Hlog : Z.log2 p < 2 ^ 64.

(* ---------- operator level ---------- *)

(* two field constants: the attached constant is the documented value *)
Lemma infix_field_value op a b c :
  0 <= a < p -> 0 <= b < p ->
  infix_values op (Some (VField a)) (Some (VField b)) p = Ok (Some c) ->
  exists v, doc_infix_sem op a b p v /\ const_ok c v /\ 0 <= v < p.
Proof.
  intros Ha Hb Hv.
  destruct (match op with IOr | IAnd => true | _ => false end) eqn:Hbool.
  { destruct op; try discriminate; cbn in Hv; discriminate. }
  assert (H1 : op <> IOr) by (intros ->; discriminate).
  assert (H2 : op <> IAnd) by (intros ->; discriminate).
  rewrite infix_values_field in Hv by assumption.
  destruct (eval (doc_infix op) a b p) as [v0|e| |] eqn:Ev; try discriminate.
  injection Hv as <-.
  assert (Hcan : 0 <= v0 < p) by exact (field_canonical _ _ _ _ _ Hprime Hp Hlog Ha Hb Ev).
  destruct (match op with IDiv => true | _ => false end) eqn:Hdiv.
  - destruct op; try discriminate. cbn [doc_infix eval] in Ev.
    pose proof (div_refines_spec a b p Hprime Hp Ha Hb) as Hd. rewrite Ev in Hd.
    cbn in Hd. destruct Hd as (Hb0 & Hr0 & He0).
    exists v0. cbn [doc_infix_sem wrap is_cmp const_ok]. split; [split; [assumption|split; assumption]|split; [reflexivity|assumption]].
  - assert (Hnd : doc_infix op <> ODiv) by (destruct op; discriminate).
    destruct (field_refines_spec (doc_infix op) a b p Hp Hlog Ha Hb Hnd) as [Hr|(_ & Hr & _)]; [|congruence].
    rewrite Ev in Hr. exists v0. split; [|split; [|exact Hcan]].
    + destruct op; try discriminate; cbn [doc_infix_sem]; symmetry; exact Hr.
    + unfold wrap. destruct (is_cmp op) eqn:Hc; [|reflexivity].
      cbn [const_ok].
      assert (exists x : bool, v0 = b2z x) as [x ->].
      { destruct op; try discriminate; cbn [doc_infix spec] in Hr; injection Hr as ->; eauto. }
      rewrite as_bool_b2z by lia. reflexivity.
Qed.

(* two Boolean constants *)
Lemma infix_bool_value op (x y : bool) c :
  infix_values op (Some (VBool x)) (Some (VBool y)) p = Ok (Some c) ->
  exists v, doc_infix_sem op (b2z x) (b2z y) p v /\ const_ok c v /\ 0 <= v < p.
Proof.
  intros Hv. destruct op; cbn in Hv; try discriminate; injection Hv as <-.
  - exists (b2z (x || y)). cbn [doc_infix_sem doc_infix spec const_ok]. rewrite !truthy_b2z.
    split; [reflexivity|split; [reflexivity|apply b2z_canon; lia]].
  - exists (b2z (x && y)). cbn [doc_infix_sem doc_infix spec const_ok]. rewrite !truthy_b2z.
    split; [reflexivity|split; [reflexivity|apply b2z_canon; lia]].
Qed.

Lemma prefix_value op cl a c :
  0 <= a < p -> const_ok cl a ->
  prefix_values op (Some cl) p = Some c ->
  exists v, doc_prefix_sem op a p v /\ const_ok c v /\ 0 <= v < p.
Proof.
  intros Ha Hcl Hv. unfold doc_prefix_sem.
  destruct cl as [x|z]; cbn in Hcl; subst a.
  - destruct op; cbn in Hv; try discriminate. injection Hv as <-.
    exists (b2z (negb x)). cbn [doc_prefix spec const_ok]. rewrite truthy_b2z.
    split; [reflexivity|split; [reflexivity|apply b2z_canon; lia]].
  - destruct op; cbn in Hv; try discriminate; injection Hv as <-; cbn [const_ok doc_prefix].
    + destruct (field_refines_spec ONeg z 0 p Hp Hlog Ha ltac:(lia) ltac:(discriminate)) as [Hr|(Hx & _)];
        [|discriminate]. cbn [eval] in Hr. exists (prefix_sub z p). split; [symmetry; exact Hr|]. split; [reflexivity|].
      apply (spec_canonical ONeg z 0 p _ Hp Ha ltac:(lia) ltac:(discriminate)). symmetry; exact Hr.
    + destruct (field_refines_spec OCompl z 0 p Hp Hlog Ha ltac:(lia) ltac:(discriminate)) as [Hr|(Hx & _)];
        [|discriminate]. cbn [eval] in Hr. exists (complement_256 z p). split; [symmetry; exact Hr|]. split; [reflexivity|].
      apply (spec_canonical OCompl z 0 p _ Hp Ha ltac:(lia) ltac:(discriminate)). symmetry; exact Hr.
Qed.

(* the table never panics and never runs out of fuel on canonical constants *)
Definition canon (c : vred) : Prop := match c with VField z => 0 <= z < p | VBool _ => True end.
Definition ocanon (o : option vred) : Prop := match o with Some c => canon c | None => True end.

Lemma infix_values_total op a b :
  ocanon a -> ocanon b -> exists o, infix_values op a b p = Ok o.
Proof.
  intros Ha Hb. destruct a as [[x|a]|], b as [[y|b]|]; cbn [ocanon canon] in *;
    try (destruct op; cbn; eauto; fail).
  destruct (match op with IOr | IAnd => true | _ => false end) eqn:Hbool.
  { destruct op; try discriminate; cbn; eauto. }
  assert (H1 : op <> IOr) by (intros ->; discriminate).
  assert (H2 : op <> IAnd) by (intros ->; discriminate).
  rewrite infix_values_field by assumption.
  destruct (field_never_panics (doc_infix op) a b p Hprime Hp Hlog Ha Hb) as [[c Hc]|[Hc _]];
    rewrite Hc; eauto.
Qed.

(* no constant on two field constants: only && and ||, a zero divisor, or a
   shift count that does not fit a machine word in either direction *)
Lemma infix_none_cases op a b :
  0 <= a < p -> 0 <= b < p ->
  infix_values op (Some (VField a)) (Some (VField b)) p = Ok None ->
  op = IOr \/ op = IAnd \/
  ((op = IDiv \/ op = IIntDiv \/ op = IMod) /\ b = 0) \/
  ((op = IShl \/ op = IShr) /\ 2 ^ 64 <= b /\ 2 ^ 64 <= p - b).
Proof.
  intros Ha Hb Hv.
  destruct (match op with IOr | IAnd => true | _ => false end) eqn:Hbool.
  { destruct op; try discriminate; tauto. }
  assert (H1 : op <> IOr) by (intros ->; discriminate).
  assert (H2 : op <> IAnd) by (intros ->; discriminate).
  rewrite infix_values_field in Hv by assumption.
  destruct (field_never_panics (doc_infix op) a b p Hprime Hp Hlog Ha Hb) as [[c Hc]|[Hc Hcase]].
  - rewrite Hc in Hv. discriminate.
  - right. right. destruct Hcase as [[Ho Hz]|[Ho Hz]].
    + left. split; [|exact Hz]. destruct op; cbn [doc_infix] in Ho;
        (destruct Ho as [Ho|[Ho|Ho]]; try discriminate Ho); tauto.
    + right. split; [|exact Hz]. destruct op; cbn [doc_infix] in Ho;
        (destruct Ho as [Ho|Ho]; try discriminate Ho); tauto.
Qed.

(* a field constant always gets `-` and `~`, a Boolean constant always gets `!` *)
Lemma prefix_some_cases op c :
  prefix_values op (Some c) p = None ->
  match c with VField _ => op = PNot | VBool _ => op = PNeg \/ op = PCompl end.
Proof. destruct c, op; cbn; try discriminate; tauto. Qed.

(* ---------- closed expressions ---------- *)
Lemma dispatch_invariant e :
  lits_nonneg e ->
  exists o, lit_dispatch p e = Ok o /\
            forall c, o = Some c -> exists v, doc_sem p e v /\ const_ok c v /\ 0 <= v < p.
Proof.
  induction e as [z|op l IHl r IHr|op x IHx]; cbn [lits_nonneg lit_dispatch doc_sem].
  - intros Hz. eexists. split; [reflexivity|]. intros c [= <-].
    exists (z mod p). cbn [const_ok]. rewrite lit_reduced by lia.
    split; [reflexivity|split; [reflexivity|apply Z.mod_pos_bound; lia]].
  - intros [Hl Hr].
    destruct (IHl Hl) as (ol & El & Il). destruct (IHr Hr) as (or & Er & Ir).
    rewrite El, Er. cbn [bind].
    assert (Cl : ocanon ol).
    { destruct ol as [cl|]; [|exact I]. destruct (Il cl eq_refl) as (v & _ & Hc & Hv).
      destruct cl; cbn in *; [exact I|lia]. }
    assert (Cr : ocanon or).
    { destruct or as [cr|]; [|exact I]. destruct (Ir cr eq_refl) as (v & _ & Hc & Hv).
      destruct cr; cbn in *; [exact I|lia]. }
    destruct (infix_values_total op ol or Cl Cr) as [o Eo]. exists o. split; [exact Eo|].
    intros c ->. destruct (infix_values_some _ _ _ _ _ Eo) as (cl & cr & -> & ->).
    destruct (Il cl eq_refl) as (vl & Sl & Kl & Rl). destruct (Ir cr eq_refl) as (vr & Sr & Kr & Rr).
    destruct cl as [x|a], cr as [y|b]; cbn [const_ok] in Kl, Kr; subst.
    + destruct (infix_bool_value op x y c Eo) as (v & Hs & Hc & Hv). exists v. eauto 8.
    + destruct op; cbn in Eo; discriminate.
    + destruct op; cbn in Eo; discriminate.
    + destruct (infix_field_value op a b c Rl Rr Eo) as (v & Hs & Hc & Hv). exists v. eauto 8.
  - intros Hx. destruct (IHx Hx) as (ox & Ex & Ix). rewrite Ex. cbn [bind].
    eexists. split; [reflexivity|]. intros c Hc.
    destruct (prefix_values_some _ _ _ _ Hc) as (cx & ->).
    destruct (Ix cx eq_refl) as (vx & Sx & Kx & Rx).
    destruct (prefix_value op cx vx c Rx Kx Hc) as (v & Hs & Hk & Hv). exists v. eauto 8.
Qed.

(* soundness: a constant attached to a closed expression is its documented value *)
Theorem dispatch_sound e c :
  lits_nonneg e -> lit_dispatch p e = Ok (Some c) ->
  exists v, doc_sem p e v /\ const_ok c v /\ 0 <= v < p.
Proof.
  intros He Hc. destruct (dispatch_invariant e He) as (o & Eo & Io).
  rewrite Eo in Hc. injection Hc as ->. exact (Io c eq_refl).
Qed.

(* the dispatch never panics and never runs out of fuel *)
Theorem dispatch_total e : lits_nonneg e -> exists o, lit_dispatch p e = Ok o.
Proof. intros He. destruct (dispatch_invariant e He) as (o & Eo & _). eauto. Qed.

(* ---------- the documented value: canonical, unique, computed by doc_eval ---------- *)
Lemma doc_sem_canonical e : forall v, lits_nonneg e -> doc_sem p e v -> 0 <= v < p.
Proof.
  induction e as [z|op l IHl r IHr|op x IHx]; cbn [lits_nonneg doc_sem]; intros v.
  - intros _ ->. apply Z.mod_pos_bound; lia.
  - intros [Hl Hr] (a & b & Sa & Sb & Hs).
    pose proof (IHl a Hl Sa) as Ra. pose proof (IHr b Hr Sb) as Rb.
    destruct (match op with IDiv => true | _ => false end) eqn:Hd.
    + destruct op; try discriminate. cbn in Hs. tauto.
    + apply (spec_canonical (doc_infix op) a b p v Hp Ra Rb).
      * destruct op; discriminate.
      * destruct op; try discriminate; exact Hs.
  - intros Hx (a & Sa & Hs). pose proof (IHx a Hx Sa) as Ra.
    apply (spec_canonical (doc_prefix op) a 0 p v Hp Ra ltac:(lia)).
    + destruct op; discriminate.
    + exact Hs.
Qed.

Lemma doc_sem_functional e : forall v1 v2, lits_nonneg e -> doc_sem p e v1 -> doc_sem p e v2 -> v1 = v2.
Proof.
  induction e as [z|op l IHl r IHr|op x IHx]; cbn [lits_nonneg doc_sem]; intros v1 v2.
  - intros _ -> ->. reflexivity.
  - intros [Hl Hr] (a1 & b1 & Sa1 & Sb1 & Hs1) (a2 & b2 & Sa2 & Sb2 & Hs2).
    assert (a1 = a2) by eauto. assert (b1 = b2) by eauto. subst a2 b2.
    pose proof (doc_sem_canonical r b1 Hr Sb1) as Rb.
    destruct (match op with IDiv => true | _ => false end) eqn:Hd.
    + destruct op; try discriminate. cbn in Hs1, Hs2.
      destruct Hs1 as (Hb0 & R1 & E1). destruct Hs2 as (_ & R2 & E2).
      exact (div_unique a1 b1 p v1 v2 Hprime Rb Hb0 R1 R2 E1 E2).
    + assert (spec (doc_infix op) a1 b1 p = Ok v1) by (destruct op; try discriminate; exact Hs1).
      assert (spec (doc_infix op) a1 b1 p = Ok v2) by (destruct op; try discriminate; exact Hs2).
      congruence.
  - intros Hx (a1 & Sa1 & Hs1) (a2 & Sa2 & Hs2).
    assert (a1 = a2) by eauto. subst a2. unfold doc_prefix_sem in *. congruence.
Qed.

End Dispatch.

(* the search oracle: whatever doc_eval returns is the documented value (the
   quotient is checked, so no primality is needed) *)
Lemma doc_div_sound a b p c : 2 < p -> doc_div a b p = Ok c -> doc_infix_sem IDiv a b p c.
Proof.
  intros Hp. unfold doc_div. destruct (Z.eqb_spec b 0); [discriminate|].
  cbv zeta. destruct (Z.eqb_spec ((a * Zpow_mod b (p - 2) p) mod p * b mod p) a) as [E|]; [|discriminate].
  intros [= <-]. cbn [doc_infix_sem]. split; [assumption|split; [apply Z.mod_pos_bound; lia|assumption]].
Qed.

Lemma doc_eval_sound p e : 2 < p -> forall v, lits_nonneg e -> doc_eval p e = Ok v -> doc_sem p e v /\ 0 <= v < p.
Proof.
  intros Hp. induction e as [z|op l IHl r IHr|op x IHx]; cbn [lits_nonneg doc_eval doc_sem]; intros v.
  - intros _ [= <-]. split; [reflexivity|apply Z.mod_pos_bound; lia].
  - intros [Hl Hr]. destruct (doc_eval p l) as [a| | |] eqn:El; try discriminate.
    destruct (doc_eval p r) as [b| | |] eqn:Er; try discriminate. cbn [bind].
    destruct (IHl a Hl eq_refl) as [Sa Ra]. destruct (IHr b Hr eq_refl) as [Sb Rb].
    intros Hv.
    destruct (match op with IDiv => true | _ => false end) eqn:Hd.
    + destruct op; try discriminate. pose proof (doc_div_sound a b p v Hp Hv) as Hs.
      split; [eauto 6|]. cbn in Hs. tauto.
    + assert (Hs : spec (doc_infix op) a b p = Ok v).
      { rewrite <- (spec_exec_correct _ a b p Hp Ra Rb). destruct op; try discriminate; exact Hv. }
      split.
      * exists a, b. split; [assumption|split; [assumption|]]. destruct op; try discriminate; exact Hs.
      * apply (spec_canonical (doc_infix op) a b p v Hp Ra Rb); [destruct op; discriminate|exact Hs].
  - intros Hx. destruct (doc_eval p x) as [a| | |] eqn:Ex; try discriminate. cbn [bind].
    destruct (IHx a Hx eq_refl) as [Sa Ra]. intros Hv.
    assert (Hs : spec (doc_prefix op) a 0 p = Ok v).
    { rewrite <- (spec_exec_correct _ a 0 p Hp Ra ltac:(lia)). exact Hv. }
    split; [exists a; split; assumption|].
    apply (spec_canonical (doc_prefix op) a 0 p v Hp Ra ltac:(lia)); [destruct op; discriminate|exact Hs].
Qed.

(* what the violation search compares: constant attached by the dispatch
   against the value computed by doc_eval *)
Theorem dispatch_agrees_with_oracle p e c v :
  prime p -> 2 < p -> Z.log2 p < 2 ^ 64 -> lits_nonneg e ->
  lit_dispatch p e = Ok (Some c) -> doc_eval p e = Ok v -> const_ok c v.
Proof.
  intros Hprime Hp Hlog He Hc Hv.
  destruct (dispatch_sound p Hprime Hp Hlog e c He Hc) as (v' & Sv' & Kc & _).
  destruct (doc_eval_sound p e Hp v He Hv) as [Sv _].
  rewrite (doc_sem_functional p Hprime Hp e v v' He Sv Sv'). exact Kc.
Qed.

(* ---------- operands outside [0,p) ----------
   The dispatch never passes one (dispatch_sound: every attached constant is
   canonical).  Called directly, sixteen of the functions reduce their
   operands themselves, so that their value on arbitrary integers is their
   value on the residues; the other eight (div, pow, the complement, shifts
   and bitwise operators) work on the integers as given. *)
Definition reduces_operands (o : fop) : bool :=
  match o with
  | OAdd | OMul | OSub | OIDiv | OMod | ONeg | OAsBool | ONot | OOr | OAnd
  | OEq | OLt | ONeq | OLe | OGt | OGe => true
  | _ => false
  end.

Lemma modulus_mod a p : 0 < p -> modulus (a mod p) p = modulus a p.
Proof. intros. rewrite !modulus_spec by lia. apply Z.mod_mod. lia. Qed.

Lemma comparable_mod a p : 0 < p -> comparable_element (a mod p) p = comparable_element a p.
Proof. intros. unfold comparable_element. rewrite modulus_mod by lia. reflexivity. Qed.

Lemma normalize_mod a p : 0 < p -> normalize (a mod p) p = normalize a p.
Proof. intros. unfold normalize. rewrite comparable_mod by lia. reflexivity. Qed.

Lemma eq_mod a b p : 0 < p -> eq (a mod p) (b mod p) p = eq a b p.
Proof. intros. unfold eq. rewrite !modulus_mod by lia. reflexivity. Qed.

Lemma lesser_mod a b p : 0 < p -> lesser (a mod p) (b mod p) p = lesser a b p.
Proof. intros. unfold lesser. rewrite !comparable_mod by lia. reflexivity. Qed.

Lemma not_eq_mod a b p : 0 < p -> not_eq (a mod p) (b mod p) p = not_eq a b p.
Proof. intros. unfold not_eq. rewrite eq_mod by lia. reflexivity. Qed.

Lemma lesser_eq_mod a b p : 0 < p -> lesser_eq (a mod p) (b mod p) p = lesser_eq a b p.
Proof. intros. unfold lesser_eq. rewrite eq_mod, lesser_mod by lia. reflexivity. Qed.

Lemma greater_mod a b p : 0 < p -> greater (a mod p) (b mod p) p = greater a b p.
Proof. intros. unfold greater. rewrite lesser_eq_mod by lia. reflexivity. Qed.

Lemma greater_eq_mod a b p : 0 < p -> greater_eq (a mod p) (b mod p) p = greater_eq a b p.
Proof. intros. unfold greater_eq. rewrite eq_mod, greater_mod by lia. reflexivity. Qed.

Lemma bool_and_mod a b p : 0 < p -> bool_and (a mod p) (b mod p) p = bool_and a b p.
Proof. intros. unfold bool_and. rewrite !normalize_mod by lia. reflexivity. Qed.

Lemma bool_or_mod a b p : 0 < p -> bool_or (a mod p) (b mod p) p = bool_or a b p.
Proof. intros. unfold bool_or. rewrite bool_and_mod, !normalize_mod by lia. reflexivity. Qed.

Lemma idiv_mod a b p : 0 < p -> idiv (a mod p) (b mod p) p = idiv a b p.
Proof. intros. unfold idiv. rewrite !modulus_mod by lia. reflexivity. Qed.

Lemma mod_op_mod a b p : 0 < p -> mod_op (a mod p) (b mod p) p = mod_op a b p.
Proof. intros. unfold mod_op. rewrite !modulus_mod by lia. reflexivity. Qed.

Theorem eval_reduces_operands o a b p :
  0 < p -> reduces_operands o = true -> eval o a b p = eval o (a mod p) (b mod p) p.
Proof.
  intros Hp Ho.
  destruct o; try discriminate; cbn [eval];
    rewrite ?idiv_mod, ?mod_op_mod, ?bool_or_mod, ?bool_and_mod, ?eq_mod, ?lesser_mod, ?not_eq_mod,
            ?lesser_eq_mod, ?greater_mod, ?greater_eq_mod by lia; try reflexivity.
  - unfold add. rewrite !modulus_spec by lia. f_equal. apply Zplus_mod.
  - unfold mul. rewrite !modulus_spec by lia. f_equal. apply Zmult_mod.
  - unfold sub. rewrite !modulus_spec by lia. f_equal. apply Zminus_mod.
  - unfold prefix_sub, mul. rewrite !modulus_spec by lia. f_equal. symmetry. apply Zmult_mod_idemp_l.
  - unfold as_bool. rewrite normalize_mod by lia. reflexivity.
  - unfold not. rewrite normalize_mod by lia. reflexivity.
Qed.
