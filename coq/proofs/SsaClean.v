(* C01 (bridge SSA -> propagation): the SSA construction mirror keeps a graph free of
   value claims.  Renaming changes variable names only (the knowledge slot of every
   node is copied), the inserted phi statements carry no knowledge, phi arguments and
   the version lists of declarations are not claims.  So [Clean.clean_cfg], the first
   hypothesis of C20_propagate_completes, holds for what into_ssa returns whenever it
   holds for what lifting built. *)
From Coq Require Import ZArith NArith List Bool Lia.
Require Import Model.Base Model.Ir Model.SsaCheck Model.Ssa Model.Justify Model.Clean Proofs.IrInd Proofs.SsaNoPanic Proofs.SsaFuel.
Import ListNotations.

Lemma sbind_ok {A B} (m : ssa_result A) (f : A -> ssa_result B) b :
  sbind m f = SOk b -> exists a, m = SOk a /\ f a = SOk b.
Proof. destruct m; simpl; try discriminate. eauto. Qed.

Fixpoint clist (es : list expr) : bool :=
  match es with [] => true | x :: tl => clean_expr x && clist tl end.
Fixpoint cacc (acc : list (access expr)) : bool :=
  match acc with
  | [] => true
  | AIdx x :: tl => clean_expr x && cacc tl
  | AComp _ :: tl => cacc tl
  end.

Lemma clean_call n args k : clean_expr (ECall n args k) = claim_none k && clist args.
Proof. reflexivity. Qed.
Lemma clean_array vs k : clean_expr (EArray vs k) = claim_none k && clist vs.
Proof. reflexivity. Qed.
Lemma clean_access v acc k : clean_expr (EAccess v acc k) = claim_none k && cacc acc.
Proof. reflexivity. Qed.
Lemma clean_update v acc rhe k : clean_expr (EUpdate v acc rhe k) = claim_none k && (clean_expr rhe && cacc acc).
Proof. reflexivity. Qed.

Section Rename.
Variable decls : list (vname * vtype).

Definition keeps (e : expr) : Prop :=
  forall env e' env', ssa_expr decls env e = SOk (e', env') -> clean_expr e = true -> clean_expr e' = true.

Lemma ssa_list_clean : forall es, Forall keeps es ->
  forall env es' env', ssa_list decls env es = SOk (es', env') -> clist es = true -> clist es' = true.
Proof.
  induction 1 as [|x tl Hx _ IH]; intros env es' env' H Hc; simpl in H.
  - inversion H. reflexivity.
  - apply sbind_ok in H. destruct H as ([x' env1] & E1 & H).
    apply sbind_ok in H. destruct H as ([tl' env2] & E2 & H). inversion H. subst.
    simpl in Hc. apply andb_prop in Hc. destruct Hc as [H1 H2].
    simpl. rewrite (Hx _ _ _ E1 H1), (IH _ _ _ E2 H2). reflexivity.
Qed.

Lemma ssa_acc_clean : forall acc, Forall keeps (acc_exprs acc) ->
  forall env acc' env', ssa_acc decls env acc = SOk (acc', env') -> cacc acc = true -> cacc acc' = true.
Proof.
  induction acc as [|[x|n] tl IH]; intros HF env acc' env' H Hc; simpl in H.
  - inversion H. reflexivity.
  - simpl in HF. inversion HF as [|? ? Hx Htl]; subst.
    apply sbind_ok in H. destruct H as ([x' env1] & E1 & H).
    apply sbind_ok in H. destruct H as ([tl' env2] & E2 & H). inversion H. subst.
    simpl in Hc. apply andb_prop in Hc. destruct Hc as [H1 H2].
    simpl. rewrite (Hx _ _ _ E1 H1), (IH Htl _ _ _ E2 H2). reflexivity.
  - simpl in HF. apply sbind_ok in H. destruct H as ([tl' env2] & E2 & H). inversion H. subst.
    simpl in Hc |- *. exact (IH HF _ _ _ E2 Hc).
Qed.

Lemma rename_read_ok env v v' : rename_read decls env v = SOk v' -> True.
Proof. trivial. Qed.

Lemma ssa_expr_clean : forall e, keeps e.
Proof.
  induction e as [z k|v k|op l r k IHl IHr|op x k IHx|c t f k IHc IHt IHf|n args k IH|vs k IH
                 |v acc k IH|v acc rhe k IH IHr|args k] using expr_ind'; intros env e' env' H Hc.
  - simpl in H. inversion H. subst. exact Hc.
  - simpl in H. destruct (is_local_in decls v).
    + apply sbind_ok in H. destruct H as (v' & _ & H). inversion H. subst. exact Hc.
    + inversion H. subst. exact Hc.
  - simpl in H. apply sbind_ok in H. destruct H as ([l' env1] & E1 & H).
    apply sbind_ok in H. destruct H as ([r' env2] & E2 & H). inversion H. subst.
    cbn [clean_expr expr_know] in Hc |- *. apply andb_prop in Hc. destruct Hc as [Hk Hc].
    apply andb_prop in Hc. destruct Hc as [H1 H2].
    rewrite Hk, (IHl _ _ _ E1 H1), (IHr _ _ _ E2 H2). reflexivity.
  - simpl in H. apply sbind_ok in H. destruct H as ([x' env1] & E1 & H). inversion H. subst.
    cbn [clean_expr expr_know] in Hc |- *. apply andb_prop in Hc. destruct Hc as [Hk Hc].
    rewrite Hk, (IHx _ _ _ E1 Hc). reflexivity.
  - simpl in H. apply sbind_ok in H. destruct H as ([c' env1] & E1 & H).
    apply sbind_ok in H. destruct H as ([t' env2] & E2 & H).
    apply sbind_ok in H. destruct H as ([f' env3] & E3 & H). inversion H. subst.
    cbn [clean_expr expr_know] in Hc |- *. apply andb_prop in Hc. destruct Hc as [Hk Hc].
    apply andb_prop in Hc. destruct Hc as [Hc H3]. apply andb_prop in Hc. destruct Hc as [H1 H2].
    rewrite Hk, (IHc _ _ _ E1 H1), (IHt _ _ _ E2 H2), (IHf _ _ _ E3 H3). reflexivity.
  - rewrite ssa_expr_call in H. apply sbind_ok in H. destruct H as ([args' env1] & E1 & H). inversion H. subst.
    rewrite clean_call in Hc |- *. apply andb_prop in Hc. destruct Hc as [Hk Hc].
    rewrite Hk, (ssa_list_clean args IH _ _ _ E1 Hc). reflexivity.
  - rewrite ssa_expr_array in H. apply sbind_ok in H. destruct H as ([vs' env1] & E1 & H). inversion H. subst.
    rewrite clean_array in Hc |- *. apply andb_prop in Hc. destruct Hc as [Hk Hc].
    rewrite Hk, (ssa_list_clean vs IH _ _ _ E1 Hc). reflexivity.
  - simpl in H. rewrite ssa_acc_eq in H. apply sbind_ok in H. destruct H as ([acc' env1] & E1 & H).
    rewrite clean_access in Hc. apply andb_prop in Hc. destruct Hc as [Hk Hc].
    pose proof (ssa_acc_clean acc IH _ _ _ E1 Hc) as Ha.
    destruct (is_local_in decls v).
    + apply sbind_ok in H. destruct H as (v' & _ & H). inversion H. subst.
      rewrite clean_access, Hk, Ha. reflexivity.
    + inversion H. subst. rewrite clean_access, Hk, Ha. reflexivity.
  - simpl in H. apply sbind_ok in H. destruct H as ([rhe' env1] & E1 & H).
    rewrite ssa_acc_eq in H. apply sbind_ok in H. destruct H as ([acc' env2] & E2 & H).
    rewrite clean_update in Hc. apply andb_prop in Hc. destruct Hc as [Hk Hc].
    apply andb_prop in Hc. destruct Hc as [Hr Hc].
    pose proof (ssa_acc_clean acc IH _ _ _ E2 Hc) as Ha. pose proof (IHr _ _ _ E1 Hr) as Hr'.
    destruct (is_local_in decls v).
    + destruct (vn_version v); [discriminate|].
      destruct (cur_version env2 v).
      * inversion H. subst. rewrite clean_update, Hk, Ha, Hr'. reflexivity.
      * destruct (next_version env2 v). inversion H. subst. rewrite clean_update, Hk, Ha, Hr'. reflexivity.
    + inversion H. subst. rewrite clean_update, Hk, Ha, Hr'. reflexivity.
  - simpl in H. inversion H. subst. exact Hc.
Qed.

Lemma ssa_exprs_clean : forall es env es' env', ssa_exprs decls env es = SOk (es', env') ->
  forallb clean_expr es = true -> forallb clean_expr es' = true.
Proof.
  induction es as [|x tl IH]; intros env es' env' H Hc; simpl in H.
  - inversion H. reflexivity.
  - apply sbind_ok in H. destruct H as ([x' env1] & E1 & H).
    apply sbind_ok in H. destruct H as ([tl' env2] & E2 & H). inversion H. subst.
    simpl in Hc. apply andb_prop in Hc. destruct Hc as [H1 H2].
    simpl. rewrite (ssa_expr_clean x _ _ _ E1 H1), (IH _ _ _ E2 H2). reflexivity.
Qed.

Definition clean_logarg (a : logarg) : bool := match a with LStr => true | LExpr e => clean_expr e end.

Lemma ssa_logargs_clean : forall es env es' env', ssa_logargs decls env es = SOk (es', env') ->
  forallb clean_logarg es = true -> forallb clean_logarg es' = true.
Proof.
  induction es as [|[|x] tl IH]; intros env es' env' H Hc; simpl in H.
  - inversion H. reflexivity.
  - apply sbind_ok in H. destruct H as ([tl' env2] & E2 & H). inversion H. subst.
    simpl in Hc |- *. exact (IH _ _ _ E2 Hc).
  - apply sbind_ok in H. destruct H as ([x' env1] & E1 & H).
    apply sbind_ok in H. destruct H as ([tl' env2] & E2 & H). inversion H. subst.
    simpl in Hc. apply andb_prop in Hc. destruct Hc as [H1 H2].
    simpl. rewrite (ssa_expr_clean x _ _ _ E1 H1), (IH _ _ _ E2 H2). reflexivity.
Qed.

Lemma ssa_stmt_clean s env s' env' : ssa_stmt decls env s = SOk (s', env') ->
  clean_stmt s = true -> clean_stmt s' = true.
Proof.
  destruct s as [m names t dims|m c t f|m e|m v op rhe sval stype|m l r|m args|m e]; simpl; intros H Hc.
  - apply sbind_ok in H. destruct H as ([d e1] & E1 & H). inversion H. subst. simpl.
    exact (ssa_exprs_clean _ _ _ _ E1 Hc).
  - apply sbind_ok in H. destruct H as ([d e1] & E1 & H). inversion H. subst. simpl.
    exact (ssa_expr_clean _ _ _ _ E1 Hc).
  - apply sbind_ok in H. destruct H as ([d e1] & E1 & H). inversion H. subst. simpl.
    exact (ssa_expr_clean _ _ _ _ E1 Hc).
  - destruct (vn_version v); [discriminate|].
    apply sbind_ok in H. destruct H as ([rhe' env1] & E1 & H).
    apply andb_prop in Hc. destruct Hc as [H1 H2].
    pose proof (ssa_expr_clean _ _ _ _ E1 H1) as Hr.
    destruct (is_local_in decls v).
    + destruct (next_version env1 v). inversion H. subst. simpl. rewrite Hr, H2. reflexivity.
    + inversion H. subst. simpl. rewrite Hr, H2. reflexivity.
  - apply sbind_ok in H. destruct H as ([l' env1] & E1 & H).
    apply sbind_ok in H. destruct H as ([r' env2] & E2 & H). inversion H. subst.
    apply andb_prop in Hc. destruct Hc as [H1 H2]. simpl.
    rewrite (ssa_expr_clean _ _ _ _ E1 H1), (ssa_expr_clean _ _ _ _ E2 H2). reflexivity.
  - apply sbind_ok in H. destruct H as ([d e1] & E1 & H). inversion H. subst. simpl.
    exact (ssa_logargs_clean _ _ _ _ E1 Hc).
  - apply sbind_ok in H. destruct H as ([d e1] & E1 & H). inversion H. subst. simpl.
    exact (ssa_expr_clean _ _ _ _ E1 Hc).
Qed.

Lemma ssa_stmts_clean : forall ss env ss' env', ssa_stmts decls env ss = SOk (ss', env') ->
  forallb clean_stmt ss = true -> forallb clean_stmt ss' = true.
Proof.
  induction ss as [|s tl IH]; intros env ss' env' H Hc; simpl in H.
  - inversion H. reflexivity.
  - apply sbind_ok in H. destruct H as ([s' env1] & E1 & H).
    apply sbind_ok in H. destruct H as ([tl' env2] & E2 & H). inversion H. subst.
    simpl in Hc. apply andb_prop in Hc. destruct Hc as [H1 H2].
    simpl. rewrite (ssa_stmt_clean _ _ _ _ E1 H1), (IH _ _ _ E2 H2). reflexivity.
Qed.
End Rename.

(* ---- blocks ---- *)
Definition bclean (b : block) : Prop := forallb clean_stmt (b_stmts b) = true.

Lemma add_phis_clean : forall vars b n, bclean b -> bclean (fst (add_phis vars b n)).
Proof.
  induction vars as [|v tl IH]; intros b n H; simpl; [exact H|].
  destruct (existsb (is_phi_for v) (b_stmts b)); apply IH; [exact H|].
  unfold bclean in *. simpl. exact H.
Qed.

Lemma process_frontier_clean vars : forall fr bs work, Forall bclean bs ->
  Forall bclean (fst (process_frontier vars fr bs work)).
Proof.
  induction fr as [|f tl IH]; intros bs work H; simpl; [exact H|].
  destruct (nth_error bs (N.to_nat f)) as [b|] eqn:E; [|apply IH; exact H].
  pose proof (add_phis_clean vars b 0 (Forall_nth_error _ _ _ _ H E)) as Hb.
  destruct (add_phis vars b 0) as [b' pushes]. simpl in Hb.
  apply IH. apply Forall_update_nth; [exact H|]. intros _ _. exact Hb.
Qed.

Lemma insert_phis_clean frontier : forall fuel bs work bs', Forall bclean bs ->
  insert_phis fuel frontier bs work = SOk bs' -> Forall bclean bs'.
Proof.
  induction fuel as [|fuel IH]; intros bs work bs' Hc H.
  - destruct work; simpl in H; [inversion H; subst; exact Hc|discriminate].
  - destruct work as [|cur rest]; simpl in H; [inversion H; subst; exact Hc|].
    destruct (nth_error bs cur) as [b|]; [|discriminate].
    destruct (vars_written b) as [|v vs]; [exact (IH _ _ _ Hc H)|].
    pose proof (process_frontier_clean (v :: vs) (nth cur frontier []) bs rest Hc) as Hp.
    destruct (process_frontier (v :: vs) (nth cur frontier []) bs rest) as [bs1 work1]. simpl in Hp.
    exact (IH _ _ _ Hp H).
Qed.

Lemma ensure_phi_arg_clean env s : clean_stmt (ensure_phi_arg env s) = clean_stmt s.
Proof.
  destruct s as [m names t dims|m c t f|m e|m v op rhe sval stype|m l r|m args|m e]; try reflexivity.
  destruct rhe; try reflexivity. unfold ensure_phi_arg.
  destruct (cur_version env v);
    match goal with |- context [if ?c then _ else _] => destruct c end; reflexivity.
Qed.

Lemma update_phis_clean env : forall ss, forallb clean_stmt (update_phis env ss) = forallb clean_stmt ss.
Proof.
  induction ss as [|s tl IH]; simpl; [reflexivity|].
  destruct (is_phi_stmt s); [|reflexivity]. simpl. rewrite ensure_phi_arg_clean, IH. reflexivity.
Qed.

Lemma update_succ_phis_clean env : forall succs bs, Forall bclean bs -> Forall bclean (update_succ_phis env succs bs).
Proof.
  induction succs as [|s tl IH]; intros bs H; simpl; [exact H|].
  apply IH. apply Forall_update_nth; [exact H|]. intros b Hb.
  unfold bclean. simpl. rewrite update_phis_clean. exact (Forall_nth_error _ _ _ _ H Hb).
Qed.

Lemma rename_kids_clean decls children fuel :
  (forall cur bs env bs' env', Forall bclean bs ->
     rename_tree fuel decls children cur bs env = SOk (bs', env') -> Forall bclean bs') ->
  forall kids bs env bs' env', Forall bclean bs ->
    rename_kids fuel decls children kids bs env = SOk (bs', env') -> Forall bclean bs'.
Proof.
  intros IH. induction kids as [|k tl IHk]; intros bs env bs' env' Hc H; simpl in H.
  - inversion H. subst. exact Hc.
  - apply sbind_ok in H. destruct H as ([bsa enva] & Ea & H).
    exact (IHk _ _ _ _ (IH _ _ _ _ _ Hc Ea) H).
Qed.

Lemma rename_tree_clean decls children : forall fuel cur bs env bs' env', Forall bclean bs ->
  rename_tree fuel decls children cur bs env = SOk (bs', env') -> Forall bclean bs'.
Proof.
  induction fuel as [|fuel IH]; intros cur bs env bs' env' Hc H; [discriminate|].
  rewrite rename_tree_unfold in H. destruct (nth_error bs cur) as [b|] eqn:Eb; [|discriminate].
  apply sbind_ok in H. destruct H as ([ss' env1] & E1 & H).
  pose proof (ssa_stmts_clean decls _ _ _ _ E1 (Forall_nth_error _ _ _ _ Hc Eb)) as Hss.
  apply (rename_kids_clean decls children fuel IH _ _ _ _ _) in H; [exact H|].
  apply update_succ_phis_clean. apply Forall_update_nth; [exact Hc|]. intros x _. exact Hss.
Qed.

Lemma Forall_flat {A B} (f : A -> list B) (P : B -> bool) l :
  forallb P (flat_map f l) = true <-> Forall (fun a => forallb P (f a) = true) l.
Proof.
  induction l as [|a l IH]; simpl; [split; [constructor|reflexivity]|].
  rewrite forallb_app, andb_true_iff, IH. split; [intros [H1 H2]; constructor; assumption|].
  intros H. inversion H. subst. split; assumption.
Qed.

Theorem into_ssa_keeps_clean frontier children c c1 :
  clean_cfg c = true -> into_ssa frontier children c = SOk c1 -> clean_cfg c1 = true.
Proof.
  intros Hc H. unfold clean_cfg, all_stmts in *. apply Forall_flat in Hc. fold bclean in Hc.
  unfold into_ssa in H.
  apply sbind_ok in H. destruct H as (bs1 & E1 & H).
  apply sbind_ok in H. destruct H as ([bs2 env] & E2 & H). inversion H. subst c1. simpl.
  pose proof (insert_phis_clean _ _ _ _ _ Hc E1) as H1.
  pose proof (rename_tree_clean _ _ _ _ _ _ _ _ H1 E2) as H2.
  apply Forall_flat. rewrite Forall_forall in *. intros b Hb. apply in_map_iff in Hb.
  destruct Hb as (b0 & <- & Hb0). simpl. specialize (H2 b0 Hb0). unfold bclean in H2.
  rewrite forallb_forall in *. intros s Hs. apply in_map_iff in Hs. destruct Hs as (s0 & <- & Hs0).
  specialize (H2 s0 Hs0). destruct s0 as [m names t dims| | | | | |]; try exact H2.
  simpl. destruct names as [|nm tl]; [exact H2|]. destruct t; exact H2.
Qed.
