(* Lemmas for Model.ReportLabels (C03, third audit). *)
From Coq Require Import ZArith List Bool Lia.
Require Import Model.ReportLabels.
Import ListNotations.
Local Open Scope Z_scope.

Definition primary_ops (ops : list label_op) : list label :=
  flat_map (fun op => match op with OpPrimary l => [l] | OpSecondary _ => [] end) ops.
Definition secondary_ops (ops : list label_op) : list label :=
  flat_map (fun op => match op with OpSecondary l => [l] | OpPrimary _ => [] end) ops.

Lemma fold_build : forall ops r,
  lr_pfiles (fold_left apply_op ops r) = lr_pfiles r ++ map l_file (primary_ops ops) /\
  lr_primary (fold_left apply_op ops r) = lr_primary r ++ primary_ops ops /\
  lr_secondary (fold_left apply_op ops r) = lr_secondary r ++ secondary_ops ops.
Proof.
  induction ops as [|op ops IH]; intros r; simpl.
  - rewrite !app_nil_r. auto.
  - destruct (IH (apply_op r op)) as (H1 & H2 & H3). rewrite H1, H2, H3.
    destruct op; simpl; rewrite <- ?app_assoc; simpl; auto.
Qed.

(* whatever sequence of add_primary / add_secondary calls built the report: primary_file_ids is the list of the file
   ids of the primary labels, in order; secondary labels never contribute *)
Lemma pfiles_are_primary_label_files : forall ops,
  lr_pfiles (build ops) = map l_file (lr_primary (build ops)) /\
  lr_primary (build ops) = primary_ops ops /\
  lr_secondary (build ops) = secondary_ops ops.
Proof.
  intros ops. unfold build. destruct (fold_build ops new_report) as (H1 & H2 & H3).
  simpl in *. rewrite H1, H2, H3. auto.
Qed.

Lemma zmem_In : forall x l, zmem x l = true <-> In x l.
Proof.
  intros x l. unfold zmem. rewrite existsb_exists. split.
  - intros (y & Hy & E). apply Z.eqb_eq in E. subst. exact Hy.
  - intros H. exists x. split; [exact H|apply Z.eqb_refl].
Qed.

(* the file filter, read on the labels: a report built by any producer passes iff it has no primary label or one of
   its primary labels lies in a user input — i.e. it is dropped iff it HAS primary labels and ALL of them lie in files
   that were only included *)
Lemma filter_by_file_on_labels : forall user ops,
  filter_by_file user (lr_pfiles (build ops)) = true <->
  (lr_primary (build ops) = [] \/ exists l, In l (lr_primary (build ops)) /\ In (l_file l) user).
Proof.
  intros user ops. destruct (pfiles_are_primary_label_files ops) as (H & _ & _). rewrite H.
  destruct (lr_primary (build ops)) as [|l ls]; simpl.
  - split; auto.
  - rewrite orb_true_iff, zmem_In. split.
    + intros [Hl|Hex].
      * right. exists l. auto.
      * apply existsb_exists in Hex. destruct Hex as (f & Hf & Hm). apply zmem_In in Hm.
        apply in_map_iff in Hf. destruct Hf as (l' & <- & Hl'). right. exists l'. auto.
    + intros [Hnil|(l' & [<-|Hl'] & Hu)]; [discriminate|left; exact Hu|].
      right. apply existsb_exists. exists (l_file l'). split; [apply in_map; exact Hl'|apply zmem_In; exact Hu].
Qed.

Lemma dropped_iff_all_primary_labels_included_only : forall user ops,
  filter_by_file user (lr_pfiles (build ops)) = false <->
  (lr_primary (build ops) <> [] /\ forall l, In l (lr_primary (build ops)) -> ~ In (l_file l) user).
Proof.
  intros user ops. pose proof (filter_by_file_on_labels user ops) as H.
  destruct (filter_by_file user (lr_pfiles (build ops))); split.
  - discriminate.
  - intros (Hne & Hall). destruct (proj1 H eq_refl) as [E|(l & Hl & Hu)]; [contradiction|]. exfalso. exact (Hall l Hl Hu).
  - intros _. split.
    + intros E. assert (false = true) by (apply H; left; exact E). discriminate.
    + intros l Hl Hu. assert (false = true) by (apply H; right; exists l; auto). discriminate.
  - auto.
Qed.

(* ---- the link to Model.Runner / Spec.RunnerSpec: for a report whose [r_pfiles] a producer built with
   add_primary / add_secondary, "located solely in a file that was only included" (the spec's reading of r_pfiles) is a
   statement about its primary LABELS, and Model.Runner's file filter is the one above ---- *)
Require Model.Runner Spec.RunnerSpec.

Lemma runner_filter_is_filter_by_file : forall r user,
  Runner.filter_by_file r user = filter_by_file user (Runner.r_pfiles r).
Proof. intros r user. unfold Runner.filter_by_file, filter_by_file. destruct (Runner.r_pfiles r); reflexivity. Qed.

Lemma located_only_in_included_on_labels : forall user ops (r : Runner.report),
  Runner.r_pfiles r = lr_pfiles (build ops) ->
  (RunnerSpec.located_only_in_included user r <->
   lr_primary (build ops) <> [] /\ forall l, In l (lr_primary (build ops)) -> ~ In (l_file l) user).
Proof.
  intros user ops r E. unfold RunnerSpec.located_only_in_included. rewrite E.
  destruct (pfiles_are_primary_label_files ops) as (H & _ & _). rewrite H. split.
  - intros (Hne & Hall). split.
    + intros E0. apply Hne. rewrite E0. reflexivity.
    + intros l Hl. apply Hall. apply in_map. exact Hl.
  - intros (Hne & Hall). split.
    + intros E0. apply Hne. destruct (lr_primary (build ops)); [reflexivity|discriminate].
    + intros f Hf. apply in_map_iff in Hf. destruct Hf as (l & <- & Hl). apply Hall. exact Hl.
Qed.
