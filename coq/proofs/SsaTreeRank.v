(* The pre-order of a children table holds every block exactly once as soon as the
   table describes a tree that is ranked: there is a rank that strictly grows from a
   parent to its children (for an immediate-dominator tree: the number of dominators).
   Proofs.SsaNoPanic has this for tables in which a child has a larger INDEX than its
   parent (true for lifted graphs only); here the rank is arbitrary.  Gives the
   decidable hypothesis SsaPre.children_treeb of C14_construction_paths_ok. *)
From Coq Require Import ZArith NArith List Bool Lia Arith.
Require Import Model.Base Model.Ir Model.SsaCheck Model.Ssa Model.SsaPre.
Require Import Proofs.SsaNoPanic.
Import ListNotations.

Section RankTree.
Variable children : list (list N).
Variable n : nat.
Variable r : nat -> nat.
Notation kids := (SsaNoPanic.kids children).

Hypothesis kid_rank : forall j k, In k (kids j) -> r j < r k /\ k < n /\ j < n.
Hypothesis kid_nodup : forall j, NoDup (kids j).
Hypothesis kid_parent : forall j j' k, In k (kids j) -> In k (kids j') -> j = j'.

Lemma rsub_ge : forall f k x, In x (preorder f children k) -> r k <= r x.
Proof.
  induction f as [|f IH]; intros k x H; [contradiction|].
  rewrite preorder_step in H. destruct H as [->|H]; [lia|].
  apply in_flat_map in H. destruct H as (c & Hc & Hx).
  apply IH in Hx. destruct (kid_rank k c Hc). lia.
Qed.

Lemma rsub_lt : forall f k x, k < n -> In x (preorder f children k) -> x < n.
Proof.
  induction f as [|f IH]; intros k x Hk H; [contradiction|].
  rewrite preorder_step in H. destruct H as [->|H]; [exact Hk|].
  apply in_flat_map in H. destruct H as (c & Hc & Hx).
  apply (IH c x); [apply (kid_rank k c Hc)|exact Hx].
Qed.

Lemma rpreorder_nodup : forall f cur, NoDup (preorder f children cur).
Proof.
  induction f as [|f IH]; intros cur; [constructor|].
  rewrite preorder_step. constructor.
  - intros Hin. apply in_flat_map in Hin. destruct Hin as (c & Hc & Hx).
    apply rsub_ge in Hx. destruct (kid_rank cur c Hc). lia.
  - apply NoDup_flat_map; [apply kid_nodup|intros; apply IH|].
    intros c c' x Hc Hc' Hne Hx Hx'.
    destruct (sub_meet children kid_parent f c c' x Hne Hx Hx') as [Hin|Hin].
    + pose proof (sub_parent children kid_parent f c' c cur Hin Hne Hc) as Hp. apply rsub_ge in Hp.
      destruct (kid_rank cur c' Hc'). lia.
    + pose proof (sub_parent children kid_parent f c c' cur Hin (fun e => Hne (eq_sym e)) Hc') as Hp. apply rsub_ge in Hp.
      destruct (kid_rank cur c Hc). lia.
Qed.

(* every block has a parent and the rank is bounded: the walk reaches every block *)
Hypothesis has_parent : forall k, 0 < k < n -> exists j, In k (kids j).
Hypothesis rank_le : forall k, k < n -> r k <= n.

Lemma in_sub_child : forall f root x c, In x (preorder f children root) -> In c (kids x) ->
  In c (preorder (S f) children root).
Proof.
  induction f as [|f IH]; intros root x c Hx Hc; [contradiction|].
  rewrite preorder_step in Hx. rewrite preorder_step. destruct Hx as [<-|Hx].
  - right. apply in_flat_map. exists c. split; [exact Hc|]. rewrite preorder_step. left. reflexivity.
  - apply in_flat_map in Hx. destruct Hx as (c0 & Hc0 & Hx0). right. apply in_flat_map. exists c0.
    split; [exact Hc0|]. eapply IH; eassumption.
Qed.

Lemma cover_rank : forall m k, k < n -> r k <= m -> In k (preorder (S m) children 0).
Proof.
  induction m as [|m IH]; intros k Hk Hr.
  - destruct (Nat.eq_dec k 0) as [->|Hne]; [rewrite preorder_step; left; reflexivity|].
    destruct (has_parent k) as (j & Hj); [lia|]. destruct (kid_rank j k Hj). lia.
  - destruct (Nat.eq_dec k 0) as [->|Hne]; [rewrite preorder_step; left; reflexivity|].
    destruct (has_parent k) as (j & Hj); [lia|]. destruct (kid_rank j k Hj) as (Hlt & _ & Hjn).
    eapply in_sub_child; [|exact Hj]. apply IH; [exact Hjn|lia].
Qed.
End RankTree.

(* the boolean of Model.SsaPre *)
Lemma NoDup_nats_nodup : forall l, NoDup l -> nats_nodup l = true.
Proof.
  induction 1 as [|x tl Hx _ IH]; [reflexivity|]. cbn [nats_nodup]. rewrite IH, andb_true_r. apply negb_true_iff.
  destruct (existsb (Nat.eqb x) tl) eqn:E; [|reflexivity]. exfalso. apply existsb_exists in E.
  destruct E as (y & Hy & Hxy). apply Nat.eqb_eq in Hxy. subst y. exact (Hx Hy).
Qed.

Theorem ranked_children_treeb children n r :
  0 < n ->
  (forall j k, In k (SsaNoPanic.kids children j) -> r j < r k /\ k < n /\ j < n) ->
  (forall j, NoDup (SsaNoPanic.kids children j)) ->
  (forall j j' k, In k (SsaNoPanic.kids children j) -> In k (SsaNoPanic.kids children j') -> j = j') ->
  (forall k, 0 < k < n -> exists j, In k (SsaNoPanic.kids children j)) ->
  (forall k, k < n -> r k <= n) ->
  children_treeb children n = true.
Proof.
  intros Hn H1 H2 H3 H4 H5. unfold children_treeb. rewrite !andb_true_iff. split; [split|].
  - apply NoDup_nats_nodup. exact (rpreorder_nodup children n r H1 H2 H3 (S n) 0).
  - apply forallb_forall. intros i Hi. apply Nat.ltb_lt. exact (rsub_lt children n r H1 (S n) 0 i Hn Hi).
  - unfold children_coverb. apply forallb_forall. intros i Hi. apply in_seq in Hi. apply existsb_exists. exists i.
    split; [|apply Nat.eqb_refl]. apply (cover_rank children n r H1 H4 n i); [lia|apply H5; lia].
Qed.
