(* Proofs about Model.BranchRegion (the mirror of Cfg::get_successors / get_interval / get_true_branch /
   get_false_branch), C09 fourth round:
     - the `while !update.is_subset(&result)` loops never run out of the fuel the model gives them, on any
       block list ([reach_total], [get_successors_total], [get_interval_total], [branch_from_total]);
     - what they return, with paths only: [get_successors_exact] (the blocks reachable from x, x removed),
       [get_interval_exact] (reachable from s, reaching e against the predecessor lists, e removed),
       [branch_from_exact] (over the list of frontier blocks of the start block);
     - [branches_of_total]: on a closed graph whose dominator tree the C15 mirror computes, the table exists;
       [branches_of_entry]: what the table holds for a block that ends in a branch. *)
From Coq Require Import ZArith NArith List Bool Relations Lia.
Require Import Model.Base Model.Ir Model.VarUse Model.Taint Model.BranchRegion Proofs.TaintProofs Proofs.SideEffectProofs.
Require Model.Dom.
Import ListNotations.

(* index -> successor / predecessor, as the blocks list them *)
Definition sedge (bs : list block) (a b : N) : Prop := exists blk, In blk bs /\ b_index blk = a /\ In b (b_succs blk).
Definition pedge (bs : list block) (a b : N) : Prop := exists blk, In blk bs /\ b_index blk = a /\ In b (b_preds blk).

Lemma succ_edges_In bs u v : In (u, v) (succ_edges bs) <-> sedge bs u v.
Proof.
  unfold succ_edges, sedge. rewrite in_flat_map. split.
  - intros [blk [Hblk H]]. apply in_map_iff in H. destruct H as [s [Heq Hs]]. injection Heq as <- <-.
    exists blk. repeat split; assumption.
  - intros [blk [Hblk [<- Hv]]]. exists blk. split; [assumption|]. apply in_map_iff. exists v. split; [reflexivity | assumption].
Qed.

Lemma pred_edges_In bs u v : In (u, v) (pred_edges bs) <-> pedge bs u v.
Proof.
  unfold pred_edges, pedge. rewrite in_flat_map. split.
  - intros [blk [Hblk H]]. apply in_map_iff in H. destruct H as [s [Heq Hs]]. injection Heq as <- <-.
    exists blk. repeat split; assumption.
  - intros [blk [Hblk [<- Hv]]]. exists blk. split; [assumption|]. apply in_map_iff. exists v. split; [reflexivity | assumption].
Qed.

Lemma reach_total m x : exists r, reach m x = Ok r.
Proof. apply fuel_suffices_refl. apply N.eqb_eq. Qed.

Lemma reach_succ_exact bs x r : reach (succ_edges bs) x = Ok r -> forall y, In y r <-> clos_refl_trans N (sedge bs) x y.
Proof.
  intros H y. unfold reach in H. rewrite (closure_exact_refl N N.eqb N.eqb_eq _ _ _ H y).
  split; apply clos_rt_mono; intros u v Huv; apply succ_edges_In; exact Huv.
Qed.

Lemma reach_pred_exact bs x r : reach (pred_edges bs) x = Ok r -> forall y, In y r <-> clos_refl_trans N (pedge bs) x y.
Proof.
  intros H y. unfold reach in H. rewrite (closure_exact_refl N N.eqb N.eqb_eq _ _ _ H y).
  split; apply clos_rt_mono; intros u v Huv; apply pred_edges_In; exact Huv.
Qed.

Lemma get_successors_total bs x : exists r, get_successors bs x = Ok r.
Proof. unfold get_successors. destruct (reach_total (succ_edges bs) x) as [r ->]. eexists. reflexivity. Qed.

Theorem get_successors_exact bs x r :
  get_successors bs x = Ok r -> forall y, In y r <-> clos_refl_trans N (sedge bs) x y /\ y <> x.
Proof.
  unfold get_successors. intros H y. apply bind_Ok in H. destruct H as [r0 [Hr0 H]]. injection H as <-.
  rewrite filter_In, negb_true_iff, N.eqb_neq, (reach_succ_exact bs x r0 Hr0 y). tauto.
Qed.

Lemma get_interval_total bs s e : exists r, get_interval bs s e = Ok r.
Proof.
  unfold get_interval. destruct (reach_total (succ_edges bs) s) as [r1 ->], (reach_total (pred_edges bs) e) as [r2 ->].
  eexists. reflexivity.
Qed.

Lemma nmem_In' x l : nmem x l = true <-> In x l.
Proof. apply mem_In. apply N.eqb_eq. Qed.

Theorem get_interval_exact bs s e r :
  get_interval bs s e = Ok r ->
  forall y, In y r <-> clos_refl_trans N (sedge bs) s y /\ clos_refl_trans N (pedge bs) e y /\ y <> e.
Proof.
  unfold get_interval. intros H y.
  apply bind_Ok in H. destruct H as [su [Hsu H]]. apply bind_Ok in H. destruct H as [pr [Hpr H]]. injection H as <-.
  rewrite filter_In, nmem_In', filter_In, negb_true_iff, N.eqb_neq,
    (reach_succ_exact bs s su Hsu y), (reach_pred_exact bs e pr Hpr y). tauto.
Qed.

Lemma mapM_o_total {A B} (f : A -> outcome B) l : (forall x, exists y, f x = Ok y) -> exists ys, mapM_o f l = Ok ys.
Proof.
  intro H. induction l as [|x r [ys IH]]; [exists []; reflexivity|].
  destruct (H x) as [y Hy]. exists (y :: ys). cbn [mapM_o]. rewrite Hy. cbn [bind]. rewrite IH. reflexivity.
Qed.

Lemma mapM_o_In {A B} (f : A -> outcome B) l ys :
  mapM_o f l = Ok ys -> forall y, In y ys <-> exists x, In x l /\ f x = Ok y.
Proof.
  revert ys. induction l as [|a r IH]; intros ys H y; cbn [mapM_o] in H.
  - injection H as <-. split; [intros [] | intros [x [[] _]]].
  - apply bind_Ok in H. destruct H as [b [Hb H]]. apply bind_Ok in H. destruct H as [bs' [Hbs H]]. injection H as <-.
    cbn [In]. rewrite (IH bs' Hbs y). split.
    + intros [<-|[x [Hx Hf]]]; [exists a; split; [left; reflexivity | assumption] | exists x; split; [right; assumption | assumption]].
    + intros [x [[<-|Hx] Hf]]; [left; congruence | right; exists x; split; assumption].
Qed.

Lemma branch_from_total bs t start : exists r, branch_from bs t start = Ok r.
Proof.
  unfold branch_from. destruct (frontier_of t start) as [|e0 es].
  - destruct (get_successors_total bs start) as [r ->]. eexists. reflexivity.
  - destruct (mapM_o_total (get_interval bs start) (e0 :: es)) as [l Hl]; [intro x; apply get_interval_total|].
    rewrite Hl. eexists. reflexivity.
Qed.

(* the blocks of a branch that starts at [start]: everything reachable when the frontier of the start block is
   empty, else the union of the intervals to the blocks of the frontier *)
Theorem branch_from_exact bs t start r :
  branch_from bs t start = Ok r ->
  forall y, In y r <->
    (frontier_of t start = [] /\ clos_refl_trans N (sedge bs) start y) \/
    (exists e, In e (frontier_of t start) /\
               clos_refl_trans N (sedge bs) start y /\ clos_refl_trans N (pedge bs) e y /\ y <> e).
Proof.
  unfold branch_from. intros H y. destruct (frontier_of t start) as [|e0 es] eqn:Hf.
  - apply bind_Ok in H. destruct H as [r0 [Hr0 H]]. injection H as <-.
    rewrite in_app_iff, (get_successors_exact bs start r0 Hr0 y). cbn [In]. split.
    + intros [[Hr _]|[<-|[]]]; left; (split; [reflexivity|]); [assumption | apply rt_refl].
    + intros [[_ Hr]|[e [[] _]]]. destruct (N.eq_dec y start) as [->|Hne]; [right; left; reflexivity | left; split; assumption].
  - apply bind_Ok in H. destruct H as [l [Hl H]]. injection H as <-.
    rewrite in_concat. split.
    + intros [iv [Hiv Hy]]. apply (mapM_o_In _ _ _ Hl) in Hiv. destruct Hiv as [e [He Hiv]].
      right. exists e. split; [assumption|]. apply (get_interval_exact bs start e iv Hiv y). assumption.
    + intros [[Hnil _]|[e [He Hy]]]; [discriminate|].
      destruct (get_interval_total bs start e) as [iv Hiv]. exists iv. split.
      * apply (mapM_o_In _ _ _ Hl). exists e. split; assumption.
      * apply (get_interval_exact bs start e iv Hiv y). assumption.
Qed.

Lemma true_branch_total bs t ti : exists r, true_branch bs t ti = Ok r.
Proof. apply branch_from_total. Qed.
Lemma false_branch_total bs t ti fi : exists r, false_branch bs t ti fi = Ok r.
Proof.
  unfold false_branch. destruct fi as [f|]; [|eexists; reflexivity].
  destruct (nmem f (frontier_of t ti)); [eexists; reflexivity | apply branch_from_total].
Qed.

(* canonical lists keep their members *)
Lemma ninsert_In x l y : In y (ninsert x l) <-> y = x \/ In y l.
Proof.
  induction l as [|z r IH]; cbn [ninsert].
  - cbn [In]. intuition.
  - destruct (N.compare x z) eqn:E; cbn [In].
    + apply N.compare_eq in E. subst z. intuition.
    + intuition.
    + rewrite IH. intuition.
Qed.
Lemma ncanon_In l y : In y (ncanon l) <-> In y l.
Proof.
  unfold ncanon. induction l as [|x r IH]; cbn [fold_right]; [reflexivity|].
  rewrite ninsert_In, IH. cbn [In]. intuition.
Qed.

(* block k has index k: indices are distinct *)
Lemma indices_from_ge k bs : indices_from k bs = true -> forall b, In b bs -> (k <= b_index b)%N.
Proof.
  revert k. induction bs as [|b0 r IH]; intros k H b Hb; [destruct Hb|].
  cbn [indices_from] in H. apply andb_true_iff in H. destruct H as [H0 Hr]. apply N.eqb_eq in H0.
  destruct Hb as [<-|Hb]; [lia|]. specialize (IH _ Hr b Hb). lia.
Qed.
Lemma indices_from_nodup k bs : indices_from k bs = true -> NoDup (map b_index bs).
Proof.
  revert k. induction bs as [|b0 r IH]; intros k H; [constructor|].
  cbn [indices_from] in H. apply andb_true_iff in H. destruct H as [H0 Hr]. apply N.eqb_eq in H0.
  cbn [map]. constructor; [|eapply IH; eassumption].
  intro Hin. apply in_map_iff in Hin. destruct Hin as [b [Hb Hin]].
  pose proof (indices_from_ge _ _ Hr b Hin). lia.
Qed.
Lemma graph_closed_nodup bs : graph_closed bs = true -> NoDup (map b_index bs).
Proof. unfold graph_closed. intro H. apply andb_true_iff in H. destruct H as [H _]. eapply indices_from_nodup; eassumption. Qed.

(* ---------- the table ---------- *)
Definition region_entry (bs : list block) (t : Dom.dom_tree) (b : block) : outcome branches :=
  match last_if b with
  | None => Ok []
  | Some (ti, fi) =>
    tb <- true_branch bs t ti ;;
    fb <- false_branch bs t ti fi ;;
    Ok [(b_index b, (ncanon tb, ncanon fb))]
  end.

Lemma branches_of_unfold g br :
  branches_of g = Ok br ->
  graph_closed (c_blocks g) = true /\
  exists t l, Dom.dominator_tree (Dom.dom_fuel (dom_graph (c_blocks g))) Dom.id_order (dom_graph (c_blocks g)) = Ok t /\
              mapM_o (region_entry (c_blocks g) t) (c_blocks g) = Ok l /\ br = concat l.
Proof.
  unfold branches_of. intro H. destruct (graph_closed (c_blocks g)); [|discriminate]. cbn [negb] in H.
  split; [reflexivity|].
  apply bind_Ok in H. destruct H as [t [Ht H]]. apply bind_Ok in H. destruct H as [l [Hl H]]. injection H as <-.
  exists t, l. repeat split; assumption.
Qed.

Theorem branches_of_total g t :
  graph_closed (c_blocks g) = true ->
  Dom.dominator_tree (Dom.dom_fuel (dom_graph (c_blocks g))) Dom.id_order (dom_graph (c_blocks g)) = Ok t ->
  exists br, branches_of g = Ok br.
Proof.
  intros Hc Ht. unfold branches_of. rewrite Hc. cbn [negb]. rewrite Ht. cbn [bind].
  destruct (mapM_o_total (region_entry (c_blocks g) t) (c_blocks g)) as [l Hl].
  - intro b. unfold region_entry. destruct (last_if b) as [[ti fi]|]; [|eexists; reflexivity].
    destruct (true_branch_total (c_blocks g) t ti) as [tb ->], (false_branch_total (c_blocks g) t ti fi) as [fb ->].
    eexists. reflexivity.
  - exists (concat l). unfold region_entry in Hl. rewrite Hl. reflexivity.
Qed.

Lemma find_entry (F : block -> outcome branches) bs :
  (forall b, In b bs -> forall e, F b = Ok e -> e = [] \/ exists v, e = [(b_index b, v)]) ->
  NoDup (map b_index bs) ->
  forall l, mapM_o F bs = Ok l ->
  forall b v, In b bs -> F b = Ok [(b_index b, v)] ->
  find (fun e => N.eqb (fst e) (b_index b)) (concat l) = Some (b_index b, v).
Proof.
  induction bs as [|b0 r IH]; intros Hshape Hnd l Hl b v Hb Hv; [destruct Hb|].
  cbn [mapM_o] in Hl. apply bind_Ok in Hl. destruct Hl as [e0 [He0 Hl]]. apply bind_Ok in Hl. destruct Hl as [l' [Hl' Hl]].
  injection Hl as <-. cbn [concat]. cbn [map] in Hnd. inversion Hnd as [|? ? Hn Hr]; subst.
  destruct Hb as [<-|Hb].
  - rewrite Hv in He0. injection He0 as <-. cbn [app find fst]. rewrite N.eqb_refl. reflexivity.
  - assert (Hne : b_index b0 <> b_index b).
    { intro E. apply Hn. rewrite E. apply in_map. assumption. }
    destruct (Hshape b0 (or_introl eq_refl) e0 He0) as [->|[v0 ->]]; cbn [app find fst].
    + apply IH; try assumption. intros b' Hb'. apply Hshape. right. assumption.
    + apply N.eqb_neq in Hne. rewrite Hne. apply IH; try assumption. intros b' Hb'. apply Hshape. right. assumption.
Qed.

(* what the table holds for a block that ends in a branch *)
Theorem branches_of_entry g br :
  branches_of g = Ok br ->
  exists t, Dom.dominator_tree (Dom.dom_fuel (dom_graph (c_blocks g))) Dom.id_order (dom_graph (c_blocks g)) = Ok t /\
  forall b ti fi, In b (c_blocks g) -> last_if b = Some (ti, fi) ->
    exists tb fb, true_branch (c_blocks g) t ti = Ok tb /\ false_branch (c_blocks g) t ti fi = Ok fb /\
                  forall y, In y (branch_blocks br (b_index b)) <-> In y tb \/ In y fb.
Proof.
  intro H. destruct (branches_of_unfold g br H) as [Hc (t & l & Ht & Hl & ->)].
  exists t. split; [assumption|]. intros b ti fi Hb Hlast.
  destruct (true_branch_total (c_blocks g) t ti) as [tb Htb], (false_branch_total (c_blocks g) t ti fi) as [fb Hfb].
  exists tb, fb. split; [assumption|]. split; [assumption|].
  assert (Hf : find (fun e => N.eqb (fst e) (b_index b)) (concat l) = Some (b_index b, (ncanon tb, ncanon fb))).
  { apply (find_entry (region_entry (c_blocks g) t) (c_blocks g)); try assumption.
    - intros b' _ e He. unfold region_entry in He. destruct (last_if b') as [[ti' fi']|]; [|injection He as <-; left; reflexivity].
      apply bind_Ok in He. destruct He as [tb' [_ He]]. apply bind_Ok in He. destruct He as [fb' [_ He]]. injection He as <-.
      right. eexists. reflexivity.
    - apply graph_closed_nodup. assumption.
    - unfold region_entry. rewrite Hlast, Htb. cbn [bind]. rewrite Hfb. reflexivity. }
  intro y. unfold branch_blocks. rewrite Hf. rewrite in_app_iff, !ncanon_In. reflexivity.
Qed.
