(* NoSilentMerger — C02 (fourth pass): the program handed to the desugarer and
   the runner is TIED to the files that were read.

   * the mirrors of Merger::add_definitions ([merger_items]) and of
     TemplateLibrary::new ([keep_first]) in Model.FrontStages: the second of two
     definitions of one name is reported, with the first definition of that
     name as the other label; the first definition of every name is kept, the
     names kept are pairwise different, nothing is invented.
   * [tied_classes_reported]: all ten failure classes on the tied project
     ([FrontStages.tied_project]); the DuplicateDefinition event is a fact
     about the definitions of the files read ([failure_event_tied]).
   * [clean_only_if_every_definition_analysed]: exit status 0 only if every
     definition the parser yields for a named file that parses was taken up
     by the runner.
   * [tied_project_is_wf] (fifth pass): the project of a run is well formed
     ([wf_project]: one definition per key) whenever [name_id] is injective —
     `remove_syntactic_sugar` hands back a selection of the names that went in,
     [survivors] makes at most one definition per name handed back, and no
     name is both a function and a template of [keep_first].  The theorems
     about a run ([inj_...]) take the injectivity of [name_id] as their
     hypothesis, no longer [wf_project] of the tied project. *)
From Coq Require Import ZArith NArith Lia Permutation.
Require Coq.Strings.String.
Require Import Gen.Category Model.Runner Spec.RunnerSpec Proofs.RunnerProofs.
From stdpp Require Import list.
Require Import Model.Includes Model.Front Spec.IncludesSpec Model.FrontStages Spec.NoSilentSpec Proofs.IncludesProofs.
Require Model.Ast Model.Desugar Model.LiftFull Model.PipelineMirrors Spec.ExpandSpec.
Require Import Proofs.NoSilentStages Proofs.NoSilentProofs.
Require Proofs.DesugarProofs.

(* ====================================================================== *)
(* the two folds over the definitions                                       *)
(* ====================================================================== *)

Lemma find_definition_cons n x seen :
  find_definition n (x :: seen) = if String.eqb (PM.d_name x) n then Some x else find_definition n seen.
Proof. reflexivity. Qed.

Lemma find_definition_keeps n d x seen :
  find_definition n seen = Some d -> find_definition (PM.d_name x) seen = None ->
  find_definition n (x :: seen) = Some d.
Proof.
  intros Hf Hx. rewrite find_definition_cons. destruct (String.eqb (PM.d_name x) n) eqn:E; [|done].
  apply String.eqb_eq in E. subst n. congruence.
Qed.

Lemma find_definition_none_cons n x seen :
  find_definition n seen = None -> PM.d_name x <> n -> find_definition n (x :: seen) = None.
Proof.
  intros Hf Hx. rewrite find_definition_cons. destruct (String.eqb (PM.d_name x) n) eqn:E; [|done].
  apply String.eqb_eq in E. done.
Qed.

Lemma find_definition_some n d seen :
  find_definition n seen = Some d -> In d seen /\ PM.d_name d = n.
Proof.
  unfold find_definition. intros H. apply List.find_some in H as [H1 H2]. split; [done|]. by apply String.eqb_eq.
Qed.

(* in a list with pairwise different names the definition found under the name of a member is that member *)
Lemma find_definition_member : forall (l : list PM.definition) d,
  In d l -> List.NoDup (map PM.d_name l) -> find_definition (PM.d_name d) l = Some d.
Proof.
  induction l as [|x l IH]; intros d Hin Hnd; [destruct Hin|].
  rewrite find_definition_cons. simpl in Hnd. inversion Hnd as [|? ? Hx Hl]; subst.
  destruct Hin as [->|Hin]; [by rewrite String.eqb_refl|].
  destruct (String.eqb (PM.d_name x) (PM.d_name d)) eqn:E; [|by apply IH].
  apply String.eqb_eq in E. exfalso. apply Hx. rewrite E. by apply in_map.
Qed.

Lemma first_with_name n : forall l : list PM.definition,
  (forall x, In x l -> PM.d_name x <> n) \/
  exists a x b, l = a ++ x :: b /\ PM.d_name x = n /\ forall y, In y a -> PM.d_name y <> n.
Proof.
  induction l as [|x l IH]; [left; intros ? []|].
  destruct (String.string_dec (PM.d_name x) n) as [E|E].
  - right. exists [], x, l. split; [done|]. split; [done|]. intros ? [].
  - destruct IH as [H|(a & y & b & -> & Hn & Ha)].
    + left. intros z [<-|Hz]; auto.
    + right. exists (x :: a), y, b. split; [done|]. split; [done|]. intros z [<-|Hz]; auto.
Qed.

Section Merger.
  Context {path : Type}.

  (* ---- Merger::add_definitions ---- *)
  Lemma merger_after_first d1 d2 l3 : forall l2 seen,
    find_definition (PM.d_name d1) seen = Some d1 -> PM.d_name d1 = PM.d_name d2 ->
    In (SIDuplicate d2 d1) (merger_from (path:=path) seen (l2 ++ d2 :: l3)).
  Proof.
    induction l2 as [|x l2 IH]; intros seen Hf Hn; simpl.
    - rewrite <- Hn, Hf. by left.
    - destruct (find_definition (PM.d_name x) seen) eqn:E.
      + right. by apply IH.
      + apply IH; [|done]. by apply find_definition_keeps.
  Qed.

  Lemma merger_from_reports_second : forall l1 seen d1 l2 d2 l3,
    find_definition (PM.d_name d1) seen = None ->
    (forall x, In x l1 -> PM.d_name x <> PM.d_name d1) -> PM.d_name d1 = PM.d_name d2 ->
    In (SIDuplicate d2 d1) (merger_from (path:=path) seen (l1 ++ d1 :: l2 ++ d2 :: l3)).
  Proof.
    induction l1 as [|x l1 IH]; intros seen d1 l2 d2 l3 Hf Hl Hn; simpl.
    - rewrite Hf. apply merger_after_first; [|done]. by rewrite find_definition_cons, String.eqb_refl.
    - destruct (find_definition (PM.d_name x) seen) eqn:E.
      + right. apply IH; auto. intros y Hy. apply Hl. by right.
      + apply IH; auto.
        * apply find_definition_none_cons; [done|]. apply Hl. by left.
        * intros y Hy. apply Hl. by right.
  Qed.

  (* the second of two definitions of one name is reported, the first definition of that name is the other label *)
  Theorem merger_reports_duplicates : forall all l1 d1 l2 d2 l3,
    all = l1 ++ d1 :: l2 ++ d2 :: l3 ->
    PM.d_name d1 = PM.d_name d2 -> (forall x, In x l1 -> PM.d_name x <> PM.d_name d1) ->
    In (SIDuplicate d2 d1) (merger_items (path:=path) all).
  Proof. intros all l1 d1 l2 d2 l3 -> Hn Hl. by apply merger_from_reports_second. Qed.

  (* ... and nothing else is reported: every item is the report of a definition whose name an earlier one has *)
  Lemma merger_from_sound : forall all seen it,
    In it (merger_from (path:=path) seen all) ->
    exists d first, it = SIDuplicate d first /\ In d all /\ In first (seen ++ all) /\ PM.d_name first = PM.d_name d.
  Proof.
    induction all as [|x all IH]; intros seen it Hin; simpl in Hin; [destruct Hin|].
    destruct (find_definition (PM.d_name x) seen) as [f|] eqn:E.
    - destruct Hin as [<-|Hin].
      + apply find_definition_some in E as [E1 E2]. exists x, f. split; [done|]. split; [by left|].
        split; [|done]. apply in_or_app. by left.
      + destruct (IH _ _ Hin) as (d & first & -> & Hd & Hf & Hn). exists d, first. split; [done|]. split; [by right|].
        split; [|done]. apply in_app_or in Hf as [Hf|Hf]; apply in_or_app; [by left|right; by right].
    - destruct (IH _ _ Hin) as (d & first & -> & Hd & Hf & Hn). exists d, first. split; [done|]. split; [by right|].
      split; [|done]. apply in_app_or in Hf as [[<-|Hf]|Hf]; apply in_or_app; [right; by left|by left|right; by right].
  Qed.

  Theorem merger_items_sound all it :
    In it (merger_items (path:=path) all) ->
    exists d first, it = SIDuplicate d first /\ In d all /\ In first all /\ PM.d_name first = PM.d_name d.
  Proof. intros Hin. by apply merger_from_sound in Hin. Qed.
End Merger.

(* ---- TemplateLibrary::new ---- *)
Lemma keep_first_from_first : forall l1 seen d1 l3,
  find_definition (PM.d_name d1) seen = None ->
  (forall x, In x l1 -> PM.d_name x <> PM.d_name d1) ->
  In d1 (keep_first_from seen (l1 ++ d1 :: l3)).
Proof.
  induction l1 as [|x l1 IH]; intros seen d1 l3 Hf Hl; simpl.
  - rewrite Hf. by left.
  - destruct (find_definition (PM.d_name x) seen) eqn:E.
    + apply IH; auto. intros y Hy. apply Hl. by right.
    + right. apply IH.
      * apply find_definition_none_cons; [done|]. apply Hl. by left.
      * intros y Hy. apply Hl. by right.
Qed.

Lemma keep_first_from_spec : forall all seen,
  List.NoDup (map PM.d_name (keep_first_from seen all)) /\
  forall x, In x (keep_first_from seen all) -> find_definition (PM.d_name x) seen = None /\ In x all.
Proof.
  induction all as [|d all IH]; intros seen; simpl; [split; [constructor|intros ? []]|].
  destruct (find_definition (PM.d_name d) seen) eqn:E.
  - destruct (IH seen) as [H1 H2]. split; [done|]. intros x Hx. destruct (H2 x Hx). split; [done|by right].
  - destruct (IH (d :: seen)) as [H1 H2]. split.
    + simpl. constructor; [|done]. intros Hin. apply in_map_iff in Hin as (x & Hn & Hx).
      destruct (H2 x Hx) as [Hf _]. rewrite find_definition_cons, <- Hn, String.eqb_refl in Hf. discriminate.
    + intros x [<-|Hx]; [split; [done|by left]|]. destruct (H2 x Hx) as [Hf Hin]. split; [|by right].
      rewrite find_definition_cons in Hf. by destruct (String.eqb (PM.d_name d) (PM.d_name x)).
Qed.

(* the library keeps the first definition of every name, the names kept are pairwise different, and every
   definition kept is one of those that went in *)
Theorem library_keeps_first : forall all,
  (forall l1 d1 l3, all = l1 ++ d1 :: l3 -> (forall x, In x l1 -> PM.d_name x <> PM.d_name d1) ->
                    In d1 (keep_first all)) /\
  List.NoDup (map PM.d_name (keep_first all)) /\
  (forall x, In x (keep_first all) -> In x all).
Proof.
  intros all. destruct (keep_first_from_spec all []) as [H1 H2]. split; [|split; [done|]].
  - intros l1 d1 l3 -> Hl. by apply keep_first_from_first.
  - intros x Hx. by destruct (H2 x Hx).
Qed.

Lemma NoDup_map_filter {A B} (f : A -> B) (p : A -> bool) : forall l,
  List.NoDup (map f l) -> List.NoDup (map f (List.filter p l)).
Proof.
  induction l as [|x l IH]; intros Hnd; simpl; [constructor|].
  simpl in Hnd. inversion Hnd as [|? ? Hx Hl]; subst. destruct (p x); simpl; [|auto].
  constructor; [|auto]. intros Hin. apply Hx. apply in_map_iff in Hin as (y & Hy & Hin).
  apply filter_In in Hin as [Hin _]. rewrite <- Hy. by apply in_map.
Qed.

(* a definition of the library whose name the desugarer hands back is handed to the runner, with the new body *)
Lemma kept_is_handed_on (defs : list PM.definition) (kept : list (String.string * Ast.statement)) d :
  In d defs -> List.NoDup (map PM.d_name defs) -> In (PM.d_name d) (map fst kept) ->
  exists b, In (with_body d b) (survivors defs kept).
Proof.
  intros Hin Hnd Hk. apply in_map_iff in Hk as ([n b] & Hn & Hk). simpl in Hn. subst n.
  exists b. unfold survivors. apply in_flat_map. exists (PM.d_name d, b). split; [done|]. simpl.
  rewrite (find_definition_member defs d Hin Hnd). by left.
Qed.

(* ====================================================================== *)
(* the definitions handed to the runner have pairwise different names       *)
(* ====================================================================== *)

(* `remove_syntactic_sugar` goes over the two maps in order and drops the rejected entries: the names handed back
   are pairwise different when those that went in are, and each of them went in *)
Lemma desugar_templates_names : forall env lib ts acc reps acc' reps',
  Desugar.desugar_templates env lib ts acc reps = Desugar.DOk (acc', reps') ->
  List.NoDup (map fst acc ++ map fst ts) ->
  List.NoDup (map fst acc') /\ forall n, In n (map fst acc') -> In n (map fst acc) \/ In n (map fst ts).
Proof.
  intros env lib. induction ts as [|[n b] rest IH]; intros acc reps acc' reps' H Hnd; simpl in H.
  - inversion H; subst. simpl in Hnd. rewrite app_nil_r in Hnd. split; [done|]. intros n Hn. by left.
  - simpl in Hnd. destruct (Desugar.desugar_template env lib b) as [nb|r|s|] eqn:Hd; try discriminate H.
    + destruct (IH _ _ _ _ H) as [I1 I2].
      { rewrite map_app. simpl. by rewrite <- app_assoc. }
      split; [done|]. intros n0 Hn0. destruct (I2 n0 Hn0) as [Ha|Ha]; [|right; by right].
      rewrite map_app in Ha. apply in_app_or in Ha as [Ha|[<-|[]]]; [by left|right; by left].
    + destruct (IH _ _ _ _ H) as [I1 I2]; [by apply List.NoDup_remove_1 in Hnd|].
      split; [done|]. intros n0 Hn0. destruct (I2 n0 Hn0) as [Ha|Ha]; [by left|right; by right].
Qed.

Lemma desugar_functions_names : forall fs acc reps acc' reps',
  Desugar.desugar_functions fs acc reps = Desugar.DOk (acc', reps') ->
  List.NoDup (map fst acc ++ map fst fs) ->
  List.NoDup (map fst acc') /\ forall n, In n (map fst acc') -> In n (map fst acc) \/ In n (map fst fs).
Proof.
  induction fs as [|[n b] rest IH]; intros acc reps acc' reps' H Hnd; simpl in H.
  - inversion H; subst. simpl in Hnd. rewrite app_nil_r in Hnd. split; [done|]. intros n Hn. by left.
  - simpl in Hnd. apply DesugarProofs.dbind_ok in H. destruct H as (c & Hc & H). destruct c as [rs|].
    + destruct (IH _ _ _ _ H) as [I1 I2]; [by apply List.NoDup_remove_1 in Hnd|].
      split; [done|]. intros n0 Hn0. destruct (I2 n0 Hn0) as [Ha|Ha]; [by left|right; by right].
    + destruct (IH _ _ _ _ H) as [I1 I2].
      { rewrite map_app. simpl. by rewrite <- app_assoc. }
      split; [done|]. intros n0 Hn0. destruct (I2 n0 Hn0) as [Ha|Ha]; [|right; by right].
      rewrite map_app in Ha. apply in_app_or in Ha as [Ha|[<-|[]]]; [by left|right; by left].
Qed.

Theorem remove_syntactic_sugar_names : forall lib ts fs d,
  Desugar.remove_syntactic_sugar lib ts fs = Desugar.DOk d ->
  (List.NoDup (map fst ts) ->
     List.NoDup (map fst (Desugar.d_templates d)) /\
     forall n, In n (map fst (Desugar.d_templates d)) -> In n (map fst ts)) /\
  (List.NoDup (map fst fs) ->
     List.NoDup (map fst (Desugar.d_functions d)) /\
     forall n, In n (map fst (Desugar.d_functions d)) -> In n (map fst fs)).
Proof.
  intros lib ts fs d H. unfold Desugar.remove_syntactic_sugar in H.
  apply DesugarProofs.dbind_ok in H. destruct H as ([ts' reps1] & Ht & H).
  apply DesugarProofs.dbind_ok in H. destruct H as ([fs' reps2] & Hf & H). inversion H; subst; clear H. simpl.
  split; intros Hnd.
  - destruct (desugar_templates_names _ _ _ _ _ _ _ Ht Hnd) as [H1 H2]. split; [done|].
    intros n Hn. by destruct (H2 n Hn) as [[]|].
  - destruct (desugar_functions_names _ _ _ _ _ Hf Hnd) as [H1 H2]. split; [done|].
    intros n Hn. by destruct (H2 n Hn) as [[]|].
Qed.

(* the entries of the new map: at most one per name handed back, under that name *)
Lemma survivors_names (defs : list PM.definition) : forall kept : list (String.string * Ast.statement),
  List.NoDup (map fst kept) ->
  List.NoDup (map PM.d_name (survivors defs kept)) /\
  forall n, In n (map PM.d_name (survivors defs kept)) -> In n (map fst kept).
Proof.
  induction kept as [|[n b] kept IH]; intros Hnd; simpl; [split; [constructor|intros ? []]|].
  simpl in Hnd. inversion Hnd as [|? ? Hn Hk]; subst. destruct (IH Hk) as [I1 I2].
  destruct (find_definition n defs) as [d|] eqn:E; simpl.
  - apply find_definition_some in E as [_ E]. rewrite E. split.
    + constructor; [|done]. intros Hin. apply Hn. by apply I2.
    + intros n0 [<-|Hn0]; [by left|right; by apply I2].
  - split; [done|]. intros n0 Hn0. right. by apply I2.
Qed.

Lemma named_bodies_names (l : list PM.definition) : map fst (PM.named_bodies l) = map PM.d_name l.
Proof. unfold PM.named_bodies. rewrite map_map. reflexivity. Qed.

Lemma NoDup_app_disjoint {A} (l k : list A) :
  List.NoDup l -> List.NoDup k -> (forall x, In x l -> ~ In x k) -> List.NoDup (l ++ k).
Proof.
  induction l as [|x l IH]; intros Hl Hk Hd; simpl; [done|].
  inversion Hl as [|? ? Hx Hl']; subst. constructor.
  - intros Hin. apply in_app_or in Hin as [Hin|Hin]; [done|]. apply (Hd x); [by left|done].
  - apply IH; [done|done|]. intros y Hy. apply Hd. by right.
Qed.

(* one name space: no name is the name of a function and of a template of the library *)
Theorem handed_on_names_NoDup lib all sd :
  sugar_input (program_of lib all) = Desugar.DOk sd ->
  List.NoDup (map PM.d_name (handed_on (program_of lib all) sd)).
Proof.
  intros Hs. unfold sugar_input in Hs. destruct (library_keeps_first all) as (_ & Hnd & _).
  destruct (remove_syntactic_sugar_names _ _ _ _ Hs) as [HT HF]. rewrite named_bodies_names in HT, HF.
  simpl in HT, HF.
  destruct (HT (NoDup_map_filter PM.d_name _ _ Hnd)) as [T1 T2].
  destruct (HF (NoDup_map_filter PM.d_name _ _ Hnd)) as [F1 F2].
  unfold handed_on. simpl.
  destruct (survivors_names (List.filter is_function (keep_first all)) _ F1) as [SF1 SF2].
  destruct (survivors_names (List.filter (fun d => negb (is_function d)) (keep_first all)) _ T1) as [ST1 ST2].
  rewrite map_app. apply NoDup_app_disjoint; [done|done|].
  intros n Hf Ht.
  apply SF2, F2, in_map_iff in Hf as (d1 & Hn1 & Hd1). apply ST2, T2, in_map_iff in Ht as (d2 & Hn2 & Hd2).
  apply filter_In in Hd1 as [Hd1 Hk1]. apply filter_In in Hd2 as [Hd2 Hk2].
  pose proof (find_definition_member _ _ Hd1 Hnd) as E1. pose proof (find_definition_member _ _ Hd2 Hnd) as E2.
  rewrite Hn1 in E1. rewrite Hn2 in E2. rewrite E1 in E2. inversion E2; subst. by rewrite Hk1 in Hk2.
Qed.

(* ====================================================================== *)
(* the project tied to the files that were read                             *)
(* ====================================================================== *)

Section Tied.
  Context {path : Type} `{EqDecision path}.
  Variable canon : path -> option path.
  Variable is_dir : path -> bool.
  Variable is_file : path -> bool.
  Variable read_dir : path -> option (list path).
  Variable join : path -> path -> path.
  Variable parent : path -> path.
  Variable file_name : path -> option path.
  Variable ext_circom : path -> bool.
  Variable starts_dot : path -> bool.
  Variable has_sep : path -> bool.
  Variable content : path -> file_content path.
  Hypothesis canon_idem : forall p c, canon p = Some c -> canon c = Some c.

  Variable pf_id pf_name : Z.
  Variable payload : Includes.report (path:=path) -> Z.
  Variable pragma : path -> option version.
  Variable has_main : path -> bool.
  Variable cv : version.
  Variable cs : codes.
  Variable spay : stage_item path -> Z.
  Variable ord : nat -> list nat -> list nat.
  Variable horder : list nat -> list nat.
  Variable prime : Z.
  Variable kv kd : nat.
  Variable err_file : PM.definition -> option N.
  Variable name_id : String.string -> Z.
  Variable after : PM.definition -> def.

  Notation parse_files :=
    (parse_files canon is_dir is_file read_dir join parent file_name ext_circom starts_dot has_sep content).
  Notation named := (named canon is_dir read_dir join ext_circom).
  Notation item_report := (item_report pf_id pf_name cs spay).
  Notation lift_outcome := (lift_outcome ord horder prime kv kd).
  Notation parses := (parses content).
  Notation stage_project :=
    (stage_project content pragma has_main cv pf_id pf_name cs spay ord horder prime kv kd err_file name_id after payload).
  Notation tied_project :=
    (tied_project content pragma has_main cv pf_id pf_name cs spay ord horder prime kv kd err_file name_id after payload).
  Notation failure_event :=
    (failure_event canon is_dir is_file read_dir join parent file_name ext_circom starts_dot has_sep content
                   pf_id pf_name payload pragma has_main cv cs spay ord horder prime kv kd err_file).
  Notation failure_event_tied :=
    (failure_event_tied canon is_dir is_file read_dir join parent file_name ext_circom starts_dot has_sep content
                        pf_id pf_name payload pragma has_main cv cs spay ord horder prime kv kd err_file).
  Notation file_is_named := (file_is_named canon is_dir read_dir join ext_circom).
  Notation def_in_named_file := (def_in_named_file canon is_dir read_dir join ext_circom).
  Notation all_named_read :=
    (all_named_read canon is_dir is_file read_dir join parent file_name ext_circom starts_dot has_sep content).
  Notation all_stages_passed :=
    (all_stages_passed canon is_dir is_file read_dir join parent file_name ext_circom starts_dot has_sep content
                       pragma has_main cv).

  (* the boolean of the extracted instance (sv_defs_file_ok) decides the hypothesis [defs_file_ok] *)
  Lemma defs_file_ok_from_spec defs_of : forall (files : list (path * bool)) k,
    defs_file_ok_from content defs_of k files = true ->
    forall j f u, files !! j = Some (f, u) -> parses f = true ->
      forall d, In d (defs_of f) -> PM.d_pfile d = Some (N.of_nat (k + j)).
  Proof.
    induction files as [|[g w] files IH]; intros k Hok j f u Hj Hp d Hd; [by rewrite lookup_nil in Hj|].
    simpl in Hok. apply andb_true_iff in Hok as [H1 H2]. destruct j as [|j]; simpl in Hj.
    - inversion Hj; subst. rewrite Hp in H1. rewrite forallb_forall in H1. specialize (H1 d Hd).
      destruct (PM.d_pfile d) as [g'|]; [|discriminate]. apply N.eqb_eq in H1. subst. by rewrite Nat.add_0_r.
    - replace (k + S j) with (S k + j) by lia. by eapply IH.
  Qed.

  Lemma defs_file_ok_decided (s : parse_state (path:=path)) defs_of :
    defs_file_ok_from content defs_of 0 (ps_files s) = true -> defs_file_ok content s defs_of.
  Proof. intros Hok i f u Hi Hp d Hd. by apply (defs_file_ok_from_spec defs_of _ 0 Hok i f u). Qed.

  Section Run.
    Variable dfuel fuel : nat.
    Variable argv libs : list path.
    Variable s : parse_state (path:=path).
    Hypothesis Hrun : parse_files false dfuel fuel argv libs = Base.Ok s.
    (* no directory was met twice while the command line was expanded (Model.Includes.dirs_revisited, evaluated on
       every run) *)
    Hypothesis Hrev : dirs_revisited canon is_dir read_dir join ext_circom dfuel argv libs = false.

    Variable lib : list (list N).
    Variable defs_of : path -> list PM.definition.
    Variable sd : Desugar.desugared.
    Variable rest' : list Runner.report.

    Notation all := (all_definitions content defs_of (ps_files s)).
    Notation pr := (program_of lib all).
    Notation rest := (map item_report (merger_items all) ++ rest').
    Hypothesis Hsugar : sugar_input pr = Desugar.DOk sd.

    Lemma tied_project_is : tied_project s lib defs_of sd rest' = stage_project s pr sd rest.
    Proof. reflexivity. Qed.

    (* the tied event is an instance of the general one: for DuplicateDefinition the report is the one the
       Merger mirror makes, it is error level, and one of its two labels is the file of the definition that
       lives in a named file *)
    Lemma tied_event_general c r :
      failure_event_tied argv libs s lib defs_of sd rest' c r -> failure_event argv libs s pr sd rest c r.
    Proof.
      destruct c; try done. simpl.
      intros (l1 & d1 & l2 & d2 & l3 & Hall & Hn & Hl1 & Hnamed & ->). unfold tied_all in Hall.
      split; [done|]. split.
      - apply in_or_app. left. apply (in_map item_report _ (SIDuplicate d2 d1)). by eapply merger_reports_duplicates.
      - simpl. destruct Hnamed as [(fid & Hp & Hf)|(fid & Hp & Hf)]; exists (Z.of_N fid); (split; [|done]).
        + right. left. unfold def_file. by rewrite Hp.
        + left. unfold def_file. by rewrite Hp.
    Qed.

    (* C02: all ten failure classes on the tied project *)
    Theorem tied_classes_reported o order c r :
      wf_project (tied_project s lib defs_of sd rest') ->
      analysis_order (tied_project s lib defs_of sd rest') order ->
      failure_event_tied argv libs s lib defs_of sd rest' c r ->
      ~ In (r_id r) (o_allow o) ->
      In r (res_shown (run_keys (tied_project s lib defs_of sd rest') o order)) /\ r_level r = Error /\
      res_exit (run_keys (tied_project s lib defs_of sd rest') o order) = 1%Z.
    Proof.
      intros Hwf Hord Hev Hal. apply tied_event_general in Hev.
      exact (failure_classes_reported canon is_dir is_file read_dir join parent file_name ext_circom starts_dot has_sep
               content canon_idem pf_id pf_name payload pragma has_main cv cs spay ord horder prime kv kd err_file name_id
               after dfuel fuel argv libs s Hrun Hrev pr sd rest Hsugar o order c r Hwf Hord Hev Hal).
    Qed.

    (* the form of the report per class *)
    Lemma failure_event_tied_shape c r :
      failure_event_tied argv libs s lib defs_of sd rest' c r ->
      match class_shape c with
      | ShOsError => exists q, r = report_of pf_id pf_name payload (FileOsError q)
      | ShParseError => exists i, r = report_of pf_id pf_name payload (ParsingError i)
      | ShIncludeError => exists p i a b, r = report_of pf_id pf_name payload (IncludeError p (Some i) a b)
      | ShVersionError => exists f v, r = item_report (SIVersionError f v)
      | ShMultipleMain => r = item_report SIMultipleMain
      | ShSugarError => exists r0, r = item_report (SISugar r0)
      | ShParamCollision => exists dd, r = item_report (SILiftError dd LEParamCollision (PM.d_pfile dd))
      | ShLiftError => exists dd e, e <> LEParamCollision /\ r = item_report (SILiftError dd e (err_file dd))
      | ShDuplicate => exists d first, In d all /\ In first all /\ r = item_report (SIDuplicate d first)
      | ShOtherInNamedFile => False
      end.
    Proof.
      destruct c; try (intros Hev; exact (failure_event_shape canon is_dir is_file read_dir join parent file_name
        ext_circom starts_dot has_sep content pf_id pf_name payload pragma has_main cv cs spay ord horder prime kv kd
        err_file argv libs s pr sd rest _ r Hev)).
      simpl. intros (l1 & d1 & l2 & d2 & l3 & Hall & _ & _ & _ & ->). unfold tied_all in Hall.
      exists d2, d1. rewrite Hall. split; [|split; [|done]].
      - apply in_or_app. right. right. apply in_or_app. right. by left.
      - apply in_or_app. right. by left.
    Qed.

    (* C02: exit status 0 only if every definition the parser yields for a named file that parses was taken up by
       the runner.  A definition whose name an earlier definition has would have been reported by the Merger, with a
       label in the named file; so it is the first of its name, TemplateLibrary::new keeps it, the desugarer hands
       it on (clean_only_if_stages_passed), and the runner takes it up. *)
    Theorem clean_only_if_every_definition_analysed o order :
      wf_project (tied_project s lib defs_of sd rest') ->
      analysis_order (tied_project s lib defs_of sd rest') order ->
      res_exit (run_keys (tied_project s lib defs_of sd rest') o order) = 0%Z ->
      (forall z, In z (stage_ids cs) -> ~ In z (o_allow o)) ->
      ~ In (c_id (c_same_symbol cs)) (o_allow o) ->
      defs_file_ok content s defs_of ->
      bodies_in_file content s defs_of ->
      forall i f u d,
        ps_files s !! i = Some (f, u) -> named argv f -> parses f = true -> In d (defs_of f) ->
        In (MAnalyzing (runner_kind (PM.d_kind d), name_id (PM.d_name d)))
           (res_log (run_keys (tied_project s lib defs_of sd rest') o order)).
    Proof.
      intros Hwf Hord Hex Hal Hsame Hfile Hbody i f u d Hi Hnamed Hp Hd.
      assert (Hd_all : In d all).
      { unfold all_definitions. apply in_flat_map. exists (f, u). split.
        - apply elem_of_list_In. by eapply elem_of_list_lookup_2.
        - simpl. by rewrite Hp. }
      pose proof (Hfile i f u Hi Hp d Hd) as Hpf.
      assert (Hfn : file_is_named argv s (Z.of_N (N.of_nat i))).
      { exists i, f, u. split; [apply nat_N_Z|done]. }
      assert (Hdn : def_in_named_file argv s d) by (by exists (N.of_nat i)).
      destruct (in_split _ _ Hd_all) as (l1 & l3 & Hsplit).
      destruct (first_with_name (PM.d_name d) l1) as [Hfirst|(a & x & b & -> & Hx & Ha)].
      2: { exfalso.
           assert (Hev : failure_event_tied argv libs s lib defs_of sd rest' DuplicateDefinition
                           (item_report (SIDuplicate d x))).
           { simpl. exists a, x, b, d, l3. unfold tied_all. rewrite Hsplit, <- app_assoc. simpl.
             split; [done|]. split; [done|]. split; [by rewrite Hx|]. split; [by right|done]. }
           destruct (tied_classes_reported o order _ _ Hwf Hord Hev Hsame) as (_ & _ & H1). congruence. }
      destruct (library_keeps_first all) as (Hkf & Hnd & _).
      pose proof (Hkf l1 d l3 Hsplit Hfirst) as Hkept.
      destruct (clean_only_if_stages_passed canon is_dir is_file read_dir join parent file_name ext_circom starts_dot
                  has_sep content canon_idem pf_id pf_name payload pragma has_main cv cs spay ord horder prime kv kd
                  err_file name_id after dfuel fuel argv libs s Hrun Hrev pr sd rest Hsugar o order Hwf Hord Hex Hal)
        as [(_ & _ & HT & HF) Hdefs].
      assert (Hb : body_in_file (N.of_nat i) (PM.d_body d)) by (by apply Hbody).
      assert (Hon : exists b, In (with_body d b) (handed_on pr sd)).
      { destruct (is_function d) eqn:Efn.
        - assert (Hin : In d (PM.pr_functions pr)) by (simpl; apply filter_In; done).
          assert (Hk : In (PM.d_name d) (map fst (Desugar.d_functions sd))).
          { apply (HF (PM.d_name d) (PM.d_body d) (N.of_nat i)); [|done|done].
            unfold the_functions, PM.named_bodies. by apply (in_map (fun d => (PM.d_name d, PM.d_body d))). }
          destruct (kept_is_handed_on (PM.pr_functions pr) (Desugar.d_functions sd) d Hin) as (b0 & Hb0);
            [simpl; by apply NoDup_map_filter|done|].
          exists b0. unfold handed_on. apply in_or_app. by left.
        - assert (Hin : In d (PM.pr_templates pr)) by (simpl; apply filter_In; by rewrite Efn).
          assert (Hk : In (PM.d_name d) (map fst (Desugar.d_templates sd))).
          { apply (HT (PM.d_name d) (PM.d_body d) (N.of_nat i)); [|done|done].
            unfold the_templates, PM.named_bodies. by apply (in_map (fun d => (PM.d_name d, PM.d_body d))). }
          destruct (kept_is_handed_on (PM.pr_templates pr) (Desugar.d_templates sd) d Hin) as (b0 & Hb0);
            [simpl; by apply NoDup_map_filter|done|].
          exists b0. unfold handed_on. apply in_or_app. by right. }
      destruct Hon as (b0 & Hon).
      assert (Hdn' : def_in_named_file argv s (with_body d b0)) by (by exists (N.of_nat i)).
      destruct (Hdefs (with_body d b0) Hon Hdn') as (Hlog & _). exact Hlog.
    Qed.

    (* ---- the theorems of Proofs.NoSilentProofs on the tied project (instances: the program is no longer free) ---- *)
    Theorem tied_front_failures_have_reports :
      (forall f, named argv f -> content f = Unparsable ->
         exists r, failure_event_tied argv libs s lib defs_of sd rest' SyntaxError r) /\
      (forall f incs p a b, named argv f -> content f = Parsed incs -> (p, a, b) ∈ incs ->
         resolves canon is_file join parent file_name starts_dot has_sep f (the_libraries canon is_dir ext_circom libs) p None ->
         exists r, failure_event_tied argv libs s lib defs_of sd rest' UnresolvedInclude r) /\
      (* a template / function kept by TemplateLibrary::new, of a named file, that the desugarer does not hand on *)
      (forall n body fid,
         In (n, body) (PM.named_bodies (PM.pr_templates pr)) -> body_in_file fid body ->
         file_is_named argv s (Z.of_N fid) -> ~ In n (map fst (Desugar.d_templates sd)) ->
         exists r, failure_event_tied argv libs s lib defs_of sd rest' InvalidTupleOrAnonymous r) /\
      (forall n body fid,
         In (n, body) (PM.named_bodies (PM.pr_functions pr)) -> body_in_file fid body ->
         file_is_named argv s (Z.of_N fid) -> ~ In n (map fst (Desugar.d_functions sd)) ->
         exists r, failure_event_tied argv libs s lib defs_of sd rest' InvalidTupleOrAnonymous r).
    Proof.
      exact (front_failures_have_reports canon is_dir is_file read_dir join parent file_name ext_circom starts_dot
               has_sep content canon_idem pf_id pf_name payload pragma has_main cv cs spay ord horder prime kv kd
               err_file dfuel fuel argv libs s Hrun Hrev pr sd rest Hsugar).
    Qed.

    Theorem tied_clean_only_if_all_read_and_analysed o order :
      wf_project (tied_project s lib defs_of sd rest') ->
      analysis_order (tied_project s lib defs_of sd rest') order ->
      res_exit (run_keys (tied_project s lib defs_of sd rest') o order) = 0%Z ->
      ~ In pf_id (o_allow o) ->
      all_named_read argv libs s /\
      (forall d, In d (stage_defs pf_id pf_name cs spay ord horder prime kv kd err_file name_id after pr sd) ->
         file_is_named argv s (d_file d) ->
         In (MAnalyzing (d_key d)) (res_log (run_keys (tied_project s lib defs_of sd rest') o order)) /\
         (forall e, d_err d = Some e -> r_level e = Error ->
                    not_in_included_only canon is_dir read_dir join ext_circom argv s e ->
                    In (r_id e) (o_allow o))).
    Proof.
      exact (clean_only_if_all_read_and_analysed canon is_dir is_file read_dir join parent file_name ext_circom
               starts_dot has_sep content canon_idem pf_id pf_name payload pragma has_main cv cs spay ord horder prime
               kv kd err_file name_id after dfuel fuel argv libs s Hrun Hrev pr sd rest Hsugar o order).
    Qed.

    Theorem tied_clean_only_if_stages_passed o order :
      wf_project (tied_project s lib defs_of sd rest') ->
      analysis_order (tied_project s lib defs_of sd rest') order ->
      res_exit (run_keys (tied_project s lib defs_of sd rest') o order) = 0%Z ->
      (forall z, In z (stage_ids cs) -> ~ In z (o_allow o)) ->
      all_stages_passed argv libs s pr sd /\
      (forall dd, In dd (handed_on pr sd) -> def_in_named_file argv s dd ->
         In (MAnalyzing (runner_kind (PM.d_kind dd), name_id (PM.d_name dd)))
            (res_log (run_keys (tied_project s lib defs_of sd rest') o order)) /\
         (LiftFull.is_block (PM.d_body dd) = true -> List.NoDup (PM.d_params dd)) /\
         (forall e, lift_outcome dd = Some e -> e <> LEParamCollision ->
                    err_file dd = None \/ err_file dd = PM.d_pfile dd ->
                    In (r_id (item_report (SILiftError dd e (err_file dd)))) (o_allow o))).
    Proof.
      exact (clean_only_if_stages_passed canon is_dir is_file read_dir join parent file_name ext_circom starts_dot
               has_sep content canon_idem pf_id pf_name payload pragma has_main cv cs spay ord horder prime kv kd
               err_file name_id after dfuel fuel argv libs s Hrun Hrev pr sd rest Hsugar o order).
    Qed.
    (* ---- the project of a run is well formed ---- *)
    (* one definition per (kind, name) key: the keys are the images under [name_id] of the names handed on, which
       are pairwise different (handed_on_names_NoDup) *)
    Theorem tied_project_is_wf :
      (forall a b : String.string, name_id a = name_id b -> a = b) ->
      wf_project (tied_project s lib defs_of sd rest').
    Proof.
      intros Hinj. unfold wf_project. simpl. unfold stage_defs. rewrite map_map.
      pose proof (handed_on_names_NoDup lib all sd Hsugar) as Hnd. revert Hnd.
      generalize (handed_on pr sd). intros l. induction l as [|d l IH]; intros Hnd; simpl; [constructor|].
      simpl in Hnd. inversion Hnd as [|? ? Hd Hl]; subst. constructor; [|by apply IH].
      intros Hin. apply in_map_iff in Hin as (x & Hk & Hx). apply Hd.
      rewrite !stage_def_key in Hk. apply (f_equal snd) in Hk. simpl in Hk. apply Hinj in Hk as Hn. rewrite <- Hn. by apply in_map.
    Qed.

    (* ---- the theorems about a run, under the injectivity of [name_id] ---- *)
    Theorem inj_classes_reported o order c r :
      (forall a b : String.string, name_id a = name_id b -> a = b) ->
      analysis_order (tied_project s lib defs_of sd rest') order ->
      failure_event_tied argv libs s lib defs_of sd rest' c r ->
      ~ In (r_id r) (o_allow o) ->
      In r (res_shown (run_keys (tied_project s lib defs_of sd rest') o order)) /\ r_level r = Error /\
      res_exit (run_keys (tied_project s lib defs_of sd rest') o order) = 1%Z.
    Proof. intros Hinj. exact (tied_classes_reported o order c r (tied_project_is_wf Hinj)). Qed.

    Theorem inj_clean_only_if_all_read_and_analysed o order :
      (forall a b : String.string, name_id a = name_id b -> a = b) ->
      analysis_order (tied_project s lib defs_of sd rest') order ->
      res_exit (run_keys (tied_project s lib defs_of sd rest') o order) = 0%Z ->
      ~ In pf_id (o_allow o) ->
      all_named_read argv libs s /\
      (forall d, In d (stage_defs pf_id pf_name cs spay ord horder prime kv kd err_file name_id after pr sd) ->
         file_is_named argv s (d_file d) ->
         In (MAnalyzing (d_key d)) (res_log (run_keys (tied_project s lib defs_of sd rest') o order)) /\
         (forall e, d_err d = Some e -> r_level e = Error ->
                    not_in_included_only canon is_dir read_dir join ext_circom argv s e ->
                    In (r_id e) (o_allow o))).
    Proof. intros Hinj. exact (tied_clean_only_if_all_read_and_analysed o order (tied_project_is_wf Hinj)). Qed.

    Theorem inj_clean_only_if_stages_passed o order :
      (forall a b : String.string, name_id a = name_id b -> a = b) ->
      analysis_order (tied_project s lib defs_of sd rest') order ->
      res_exit (run_keys (tied_project s lib defs_of sd rest') o order) = 0%Z ->
      (forall z, In z (stage_ids cs) -> ~ In z (o_allow o)) ->
      all_stages_passed argv libs s pr sd /\
      (forall dd, In dd (handed_on pr sd) -> def_in_named_file argv s dd ->
         In (MAnalyzing (runner_kind (PM.d_kind dd), name_id (PM.d_name dd)))
            (res_log (run_keys (tied_project s lib defs_of sd rest') o order)) /\
         (LiftFull.is_block (PM.d_body dd) = true -> List.NoDup (PM.d_params dd)) /\
         (forall e, lift_outcome dd = Some e -> e <> LEParamCollision ->
                    err_file dd = None \/ err_file dd = PM.d_pfile dd ->
                    In (r_id (item_report (SILiftError dd e (err_file dd)))) (o_allow o))).
    Proof. intros Hinj. exact (tied_clean_only_if_stages_passed o order (tied_project_is_wf Hinj)). Qed.

    Theorem inj_clean_only_if_every_definition_analysed o order :
      (forall a b : String.string, name_id a = name_id b -> a = b) ->
      analysis_order (tied_project s lib defs_of sd rest') order ->
      res_exit (run_keys (tied_project s lib defs_of sd rest') o order) = 0%Z ->
      (forall z, In z (stage_ids cs) -> ~ In z (o_allow o)) ->
      ~ In (c_id (c_same_symbol cs)) (o_allow o) ->
      defs_file_ok content s defs_of ->
      bodies_in_file content s defs_of ->
      forall i f u d,
        ps_files s !! i = Some (f, u) -> named argv f -> parses f = true -> In d (defs_of f) ->
        In (MAnalyzing (runner_kind (PM.d_kind d), name_id (PM.d_name d)))
           (res_log (run_keys (tied_project s lib defs_of sd rest') o order)).
    Proof. intros Hinj. exact (clean_only_if_every_definition_analysed o order (tied_project_is_wf Hinj)). Qed.
  End Run.
End Tied.
