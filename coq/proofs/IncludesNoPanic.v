(* C01 (on top of C19's development): neither `expect` of parser/src/include_logic.rs
   fires — Model.Includes.parse_files never returns [Panic], for every file
   system, command line and library list.

   * `self.current_location.clone().expect("parsing file")` (site 1901):
     add_include is reached only through parse_file, which parse_loop calls on the
     stack returned by take_next together with a path; that stack has
     current_location = Some (parent p), and push / include_library keep it.
   * `lib.path.file_name().expect("good library file")` (site 1902): a library that
     is not a directory was entered by add_library as the canonical form of a path
     that is not a directory. The one assumption about the file system is that
     such a canonical path has a file name (Path::file_name is None only for the
     root, a prefix, or a path ending in `..`; a canonical path that is not a
     directory is none of these). *)
Require Model.Base.
From Coq Require Import ZArith.
From stdpp Require Import list.
Require Import Model.Includes Proofs.IncludesProofs.

Section IncludesNoPanic.
  Context {path : Type} `{EqDecision path}.
  Variable canon : path -> option path.
  Variable is_dir : path -> bool.
  Variable is_file : path -> bool.
  Variable read_dir : path -> option (list path).
  Variable join : path -> path -> path.
  Variable parent : path -> path.
  Variable file_name : path -> option path.
  Variable ext_circom : path -> bool.
  Variable starts_dot : path -> bool.
  Variable has_sep : path -> bool.
  Variable content : path -> file_content path.

  Hypothesis canonical_file_has_name :
    forall p c, is_dir p = false -> canon p = Some c -> file_name c <> None.

  Notation add_files := (add_files canon is_dir read_dir join ext_circom).
  Notation add_libraries := (add_libraries canon is_dir ext_circom).
  Notation add_library := (add_library canon is_dir ext_circom).
  Notation new := (new canon is_dir read_dir join ext_circom).
  Notation add_files_once := (add_files_once canon is_dir read_dir join ext_circom).
  Notation search_libraries := (search_libraries canon is_file join file_name starts_dot has_sep).
  Notation include_library := (include_library canon is_file join file_name starts_dot has_sep).
  Notation add_include := (add_include canon is_file join file_name starts_dot has_sep).
  Notation add_includes := (add_includes canon is_file join file_name starts_dot has_sep).
  Notation parse_file := (parse_file canon is_file join file_name starts_dot has_sep content).
  Notation parse_loop := (parse_loop canon is_file join parent file_name starts_dot has_sep content).
  Notation parse_files := (parse_files canon is_dir is_file read_dir join parent file_name ext_circom starts_dot has_sep content).

  Definition no_panic {A} (m : outcome A) : Prop := forall s, m <> Panic s.

  Lemma bind_no_panic {A B} (m : outcome A) (f : A -> outcome B) :
    no_panic m -> (forall a, m = Ok a -> no_panic (f a)) -> no_panic (Base.bind m f).
  Proof. intros Hm Hf s. destruct m as [a| |site|]; simpl; try done. - by apply Hf. - intros [= ->]. by apply (Hm s). Qed.

  Lemma add_files_no_panic fuel : forall named paths acc, no_panic (add_files fuel named paths acc).
  Proof.
    induction fuel as [|k IHk]; intros named; [intros paths acc s; by destruct paths|].
    induction paths as [|p rest IH]; intros acc; [done|].
    rewrite add_files_unfold.
    destruct (is_dir p).
    - destruct (read_dir p) as [names|]; [|apply IH].
      apply bind_no_panic; [apply IHk|]. intros a _. apply IH.
    - destruct (named || ext_circom p); [|apply IH]. destruct (canon p); apply IH.
  Qed.

  Lemma add_files_once_no_panic fuel : forall named paths dirs acc, no_panic (add_files_once fuel named paths dirs acc).
  Proof.
    induction fuel as [|k IHk]; intros named; [intros paths dirs acc s; by destruct paths|].
    induction paths as [|p rest IH]; intros dirs acc; [done|].
    rewrite add_files_once_unfold.
    destruct (is_dir p).
    - destruct (canon p).
      + destruct (decide _); [apply IH|]. destruct (read_dir p) as [names|]; [|apply IH].
        apply bind_no_panic; [apply IHk|]. intros a _. apply IH.
      + destruct (read_dir p) as [names|]; [|apply IH].
        apply bind_no_panic; [apply IHk|]. intros a _. apply IH.
    - destruct (named || ext_circom p); [|apply IH]. destruct (canon p); apply IH.
  Qed.

  Definition lib_named (l : library) : Prop := lib_dir l = false -> file_name (lib_path l) <> None.

  Lemma add_libraries_named libs reports : Forall lib_named (add_libraries libs reports).1.
  Proof.
    unfold Includes.add_libraries.
    assert (G : forall acc, Forall lib_named acc.1 -> Forall lib_named (foldl add_library acc libs).1).
    { induction libs as [|p rest IH]; intros acc Hacc; [done|]. simpl. apply IH.
      unfold Includes.add_library. destruct (is_dir p) eqn:Ed.
      - simpl. apply Forall_app. split; [done|]. constructor; [|done]. by intros ?.
      - destruct (ext_circom p); [|done]. destruct (canon p) as [c|] eqn:Ec; [|done].
        simpl. apply Forall_app. split; [done|]. constructor; [|done].
        intros _. simpl. by eapply canonical_file_has_name. }
    apply G. simpl. constructor.
  Qed.

  Lemma search_libraries_no_panic d23 inc : forall libs, Forall lib_named libs ->
    no_panic (search_libraries d23 inc libs).
  Proof.
    induction libs as [|l rest IH]; intros Hl; [done|].
    inversion Hl as [|? ? Hn Hr]; subst. simpl.
    destruct (lib_dir l) eqn:Ed.
    - destruct (starts_dot inc); [by apply IH|].
      destruct (canon (join (lib_path l) inc)); [|by apply IH].
      destruct (is_file p); [done|by apply IH].
    - destruct (has_sep inc); [by apply IH|].
      destruct (file_name (lib_path l)) as [n|] eqn:En; [|by destruct (Hn Ed)].
      destruct (decide (n = inc)); [done|by apply IH].
  Qed.

  (* the invariant of the file stack while files are parsed *)
  Definition st_ok (st : file_stack) : Prop :=
    current_location st <> None /\ Forall lib_named (libraries st).

  Lemma include_library_ok d23 st inc : st_ok st ->
    no_panic (include_library d23 st inc) /\
    forall r, include_library d23 st inc = Ok r -> st_ok r.1.
  Proof.
    intros [Hc Hl]. unfold Includes.include_library.
    pose proof (search_libraries_no_panic d23 (inc_path inc) (libraries st) Hl) as Hs.
    destruct (search_libraries d23 (inc_path inc) (libraries st)) as [[p|]| | |] eqn:E; simpl.
    - split; [done|]. intros r [= <-]. done.
    - split; [done|]. intros r [= <-]. done.
    - split; [done|]. done.
    - by destruct (Hs site).
    - split; [done|]. done.
  Qed.

  Lemma add_include_ok d23 st inc : st_ok st ->
    no_panic (add_include d23 st inc) /\
    forall r, add_include d23 st inc = Ok r -> st_ok r.1.
  Proof.
    intros Hok. pose proof Hok as [Hc Hl]. unfold Includes.add_include.
    destruct (current_location st) as [loc|] eqn:El; [|done].
    destruct (canon (join loc (inc_path inc))) as [p|]; [|by apply include_library_ok].
    destruct (is_file p); [|by apply include_library_ok].
    split; [done|]. intros r [= <-]. simpl.
    destruct (decide (p ∈ black_paths st)); [done|]. split; simpl; [by rewrite El|done].
  Qed.

  Lemma add_includes_ok d23 : forall incs st ws, st_ok st ->
    no_panic (add_includes d23 st incs ws) /\
    forall r, add_includes d23 st incs ws = Ok r -> st_ok r.1.
  Proof.
    induction incs as [|inc rest IH]; intros st ws Hok; simpl.
    - split; [done|]. by intros r [= <-].
    - destruct (add_include_ok d23 st inc Hok) as [Hn Hs].
      destruct (add_include d23 st inc) as [r1| | |] eqn:E; simpl; try done.
      + apply IH. by apply Hs.
      + by destruct (Hn site).
  Qed.

  Lemma parse_file_ok d23 p s : st_ok (ps_stack s) ->
    no_panic (parse_file d23 p s) /\
    forall s', parse_file d23 p s = Ok s' -> Forall lib_named (libraries (ps_stack s')).
  Proof.
    intros Hok. unfold Includes.parse_file. destruct (content p) as [| |incs].
    - split; [done|]. intros s' [= <-]. apply Hok.
    - split; [done|]. intros s' [= <-]. apply Hok.
    - destruct (add_includes_ok d23 (map (mk_include (length (ps_files s))) incs) (ps_stack s) [] Hok) as [Hn Hs].
      destruct (add_includes d23 (ps_stack s) (map (mk_include (length (ps_files s))) incs) []) as [r| | |] eqn:E;
        simpl; try done.
      + split; [done|]. intros s' [= <-]. simpl. by apply (Hs r).
      + by destruct (Hn site).
  Qed.

  Lemma take_next_libraries st : libraries (take_next parent st).2 = libraries st.
  Proof. unfold take_next. by destruct (pop_next (black_paths st) (stack st)) as [[? ?]|]. Qed.

  Lemma take_next_some st p : (take_next parent st).1 = Some p -> current_location (take_next parent st).2 <> None.
  Proof. unfold take_next. by destruct (pop_next (black_paths st) (stack st)) as [[? ?]|]. Qed.

  Lemma parse_loop_no_panic d23 : forall fuel s, Forall lib_named (libraries (ps_stack s)) ->
    no_panic (parse_loop d23 fuel s).
  Proof.
    induction fuel as [|fuel IH]; intros s Hl; [done|]. simpl.
    pose proof (take_next_libraries (ps_stack s)) as Hlib.
    pose proof (take_next_some (ps_stack s)) as Hsome.
    destruct (take_next parent (ps_stack s)) as [[p|] st]; simpl in *; [|done].
    set (s1 := ParseState st (ps_files s) (ps_reports s) (ps_read s)).
    assert (Hok : st_ok (ps_stack s1)).
    { split; simpl; [by apply (Hsome p)|by rewrite Hlib]. }
    destruct (parse_file_ok d23 p s1 Hok) as [Hn Hs].
    destruct (parse_file d23 p s1) as [s'| | |] eqn:E; simpl.
    all: try (apply IH; by apply Hs); try (by destruct (Hn site)); try done.
  Qed.

  Theorem parse_files_no_panic d23 dfuel fuel paths libs : no_panic (parse_files d23 dfuel fuel paths libs).
  Proof.
    unfold Includes.parse_files, Includes.new.
    pose proof (add_libraries_named libs []) as Hl.
    destruct (add_libraries libs []) as [ls reps]. simpl in Hl.
    pose proof (add_files_once_no_panic dfuel true paths ([], false) ([], reps)) as Hf.
    destruct (add_files_once dfuel true paths ([], false) ([], reps)) as [r| | |] eqn:E; simpl; try done.
    - by apply parse_loop_no_panic.
    - by destruct (Hf site).
  Qed.
End IncludesNoPanic.
