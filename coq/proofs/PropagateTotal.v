(* C20 "the tool still completes normally": the mirror of value and degree
   propagation returns Ok at every budget - it reaches neither a panic site
   (the assert_eq! of ValueEnvironment::add_variable, the arithmetic of
   circom_algebra) nor the end of the field functions' fuel - on every graph that
   carries no claims yet (what lifting and SSA conversion hand over) and in which
   a variable with a local defining assignment has no other assignment.
   Two invariants travel through the passes: the justification invariant of
   Proofs.CutInvariant (it makes a repeated add_variable see the value it stored)
   and canonicity of every claimed field element (it is what the theorems of C16
   about the field functions ask of their operands). *)
From Coq Require Import ZArith List Bool Znumtheory Lia.
Require Import Model.Base Model.Field Model.Ir Model.Propagate Model.Justify.
Require Import Spec.FieldSpec Spec.ValueSem Proofs.FieldProofs Proofs.IrInd Proofs.IrFacts Proofs.ValueProofs Proofs.CutProofs Proofs.CutInvariant.
Import ListNotations.
Local Open Scope Z_scope.

Section Total.
Variable p : Z.
Hypothesis Hprime : prime p.
Hypothesis Hp : 2 < p.
Hypothesis Hlog : Z.log2 p < 2 ^ 64.

Definition cv (o : option vred) : Prop := forall z, o = Some (VField z) -> 0 <= z < p.
Definition cval (k : know) : Prop := cv (kval k).

Inductive cexpr : expr -> Prop :=
| ce_num z k : 0 <= z -> cval k -> cexpr (ENum z k)
| ce_var v k : cval k -> cexpr (EVar v k)
| ce_infix op l r k : cexpr l -> cexpr r -> cval k -> cexpr (EInfix op l r k)
| ce_prefix op x k : cexpr x -> cval k -> cexpr (EPrefix op x k)
| ce_switch c t f k : cexpr c -> cexpr t -> cexpr f -> cval k -> cexpr (ESwitch c t f k)
| ce_call n args k : Forall cexpr args -> cval k -> cexpr (ECall n args k)
| ce_array vs k : Forall cexpr vs -> cval k -> cexpr (EArray vs k)
| ce_access v acc k : Forall cexpr (acc_exprs acc) -> cval k -> cexpr (EAccess v acc k)
| ce_update v acc rhe k : Forall cexpr (acc_exprs acc) -> cexpr rhe -> cval k -> cexpr (EUpdate v acc rhe k)
| ce_phi args k : cval k -> cexpr (EPhi args k).

Lemma ce_num_inv z k : cexpr (ENum z k) -> 0 <= z /\ cval k. Proof. intros H; inversion H; auto. Qed.
Lemma ce_infix_inv op l r k : cexpr (EInfix op l r k) -> cexpr l /\ cexpr r /\ cval k. Proof. intros H; inversion H; auto. Qed.
Lemma ce_prefix_inv op x k : cexpr (EPrefix op x k) -> cexpr x /\ cval k. Proof. intros H; inversion H; auto. Qed.
Lemma ce_switch_inv c t f k : cexpr (ESwitch c t f k) -> cexpr c /\ cexpr t /\ cexpr f /\ cval k. Proof. intros H; inversion H; auto. Qed.
Lemma ce_call_inv n args k : cexpr (ECall n args k) -> Forall cexpr args /\ cval k. Proof. intros H; inversion H; auto. Qed.
Lemma ce_array_inv vs k : cexpr (EArray vs k) -> Forall cexpr vs /\ cval k. Proof. intros H; inversion H; auto. Qed.
Lemma ce_access_inv v acc k : cexpr (EAccess v acc k) -> Forall cexpr (acc_exprs acc) /\ cval k. Proof. intros H; inversion H; auto. Qed.
Lemma ce_update_inv v acc rhe k : cexpr (EUpdate v acc rhe k) -> Forall cexpr (acc_exprs acc) /\ cexpr rhe /\ cval k. Proof. intros H; inversion H; auto. Qed.

Definition cenv (env : venv) : Prop := forall v, cv (venv_get env v).

Lemma cv_none : cv None. Proof. intros z H. discriminate. Qed.
Lemma cv_bool b : cv (Some (VBool b)). Proof. intros z H. discriminate. Qed.
Lemma cv_field z : 0 <= z < p -> cv (Some (VField z)). Proof. intros H z' [= <-]. exact H. Qed.

Lemma cexpr_val e : cexpr e -> cv (expr_val e).
Proof. intros H. destruct H; unfold expr_val; cbn [expr_know]; assumption. Qed.

Lemma cexpr_set_know e k : cexpr e -> cval k -> cexpr (set_know e k).
Proof. intros H Hk. destruct H; cbn [set_know]; constructor; assumption. Qed.

Lemma cval_set k v : cv (Some v) -> cval (fst (set_val k v)).
Proof. intros H. unfold set_val, cval. cbn [fst kval]. exact H. Qed.

Lemma sc_set_val_c res e v : cexpr e -> cv (Some v) -> cexpr (snd (sc_set_val res e v)).
Proof.
  intros He Hv. unfold sc_set_val. destruct res; cbn [snd]; [exact He|].
  unfold set_val. cbn [snd]. apply cexpr_set_know; [exact He|]. unfold cval. cbn [kval]. exact Hv.
Qed.

(* ---------- the operator tables are total on canonical operands ---------- *)
Lemma wrap_c op v : 0 <= v < p -> cv (Some (wrap op p v)).
Proof. intros H. unfold wrap. destruct (is_cmp op); [apply cv_bool|apply cv_field; exact H]. Qed.

Lemma infix_values_total op a b : cv a -> cv b -> exists o, infix_values op a b p = Ok o /\ cv o.
Proof.
  intros Ha Hb. destruct a as [[x|x]|], b as [[y|y]|];
    try (exists None; split; [destruct op; reflexivity|apply cv_none]).
  - (* booleans *)
    destruct op; cbn [infix_values]; eexists; (split; [reflexivity|]); try apply cv_none; apply cv_bool.
  - (* field elements *)
    specialize (Ha x eq_refl). specialize (Hb y eq_refl).
    destruct (match op with IOr | IAnd => true | _ => false end) eqn:Hbool.
    { exists None. split; [destruct op; try discriminate; reflexivity|apply cv_none]. }
    assert (H1 : op <> IOr) by (intros ->; discriminate).
    assert (H2 : op <> IAnd) by (intros ->; discriminate).
    rewrite infix_values_field by assumption.
    destruct (field_never_panics (fop_of_infix op) x y p Hprime Hp Hlog Ha Hb) as [[c Hc]|[He _]].
    + rewrite Hc. eexists. split; [reflexivity|]. apply wrap_c.
      exact (field_canonical _ _ _ _ _ Hprime Hp Hlog Ha Hb Hc).
    + rewrite He. exists None. split; [reflexivity|apply cv_none].
Qed.

Lemma prefix_values_c op a : cv a -> cv (prefix_values op a p).
Proof.
  intros Ha. destruct a as [[x|x]|]; cbn [prefix_values]; try apply cv_none.
  - destruct op; try apply cv_none. apply cv_bool.
  - specialize (Ha x eq_refl). assert (H0 : 0 <= 0 < p) by lia. destruct op; try apply cv_none; apply cv_field.
    + exact (field_canonical ONeg x 0 p _ Hprime Hp Hlog Ha H0 eq_refl).
    + exact (field_canonical OCompl x 0 p _ Hprime Hp Hlog Ha H0 eq_refl).
Qed.

Lemma switch_value_c c t f : cv t -> cv f -> cv (switch_value c t f).
Proof.
  intros Ht Hf. unfold switch_value. destruct c as [[[|]|z]|]; try apply cv_none.
  - destruct t; [exact Ht|apply cv_none].
  - destruct f; [exact Hf|apply cv_none].
  - destruct (negb (z =? 0)); [destruct t; [exact Ht|apply cv_none]|destruct f; [exact Hf|apply cv_none]].
Qed.

Lemma phi_value_c env args : cenv env -> cv (phi_value env args).
Proof.
  intros He. destruct (phi_value env args) as [c|] eqn:E; [|apply cv_none].
  destruct (phi_value_spec env args c E) as [Hne Hall].
  destruct args as [|a tl]; [congruence|]. rewrite <- (Hall a (or_introl eq_refl)). apply He.
Qed.

(* ---------- expressions ---------- *)
Section Expr.
Variable env : venv.
Hypothesis Henv : cenv env.

Definition tot (e : expr) : Prop := cexpr e -> exists b e', pv_expr p env e = Ok (b, e') /\ cexpr e'.

Lemma pv_list_tot (es : list expr) : Forall tot es -> Forall cexpr es ->
  forall res, exists b es',
  (fix pv_list (res : bool) (es : list expr) {struct es} : outcome (bool * list expr) :=
     match es with
     | [] => Ok (res, [])
     | x :: tl =>
       if res then Ok (true, x :: tl)
       else r <- pv_expr p env x ;;
            let '(b, x') := r in
            t <- pv_list b tl ;;
            let '(b', tl') := t in Ok (b', x' :: tl')
     end) res es = Ok (b, es') /\ Forall cexpr es'.
Proof.
  intros Hg Hc. induction es as [|x tl IH]; intros res.
  - eexists _, _. split; [reflexivity|constructor].
  - inversion Hg; subst. inversion Hc; subst. destruct res.
    + eexists _, _. split; [reflexivity|constructor; assumption].
    + destruct (H1 H3) as (b1 & x' & Ex & Hx'). rewrite Ex. cbn [bind].
      destruct (IH H2 H4 b1) as (b2 & tl' & Et & Htl'). rewrite Et. cbn [bind].
      eexists _, _. split; [reflexivity|constructor; assumption].
Qed.

Lemma pv_acc_tot (acc : list (access expr)) : Forall tot (acc_exprs acc) -> Forall cexpr (acc_exprs acc) ->
  forall res, exists b acc',
  (fix pv_acc (res : bool) (acc : list (access expr)) {struct acc} : outcome (bool * list (access expr)) :=
     match acc with
     | [] => Ok (res, [])
     | AComp n :: tl => t <- pv_acc res tl ;; let '(b', tl') := t in Ok (b', AComp n :: tl')
     | AIdx x :: tl =>
       if res then Ok (true, AIdx x :: tl)
       else r <- pv_expr p env x ;;
            let '(b, x') := r in
            t <- pv_acc b tl ;;
            let '(b', tl') := t in Ok (b', AIdx x' :: tl')
     end) res acc = Ok (b, acc') /\ Forall cexpr (acc_exprs acc').
Proof.
  intros Hg Hc. induction acc as [|a tl IH]; intros res.
  - eexists _, _. split; [reflexivity|constructor].
  - destruct a as [x|n]; cbn [acc_exprs flat_map app] in Hg, Hc.
    + inversion Hg; subst. inversion Hc; subst. destruct res.
      * eexists _, _. split; [reflexivity|]. cbn [acc_exprs flat_map app]. constructor; assumption.
      * destruct (H1 H3) as (b1 & x' & Ex & Hx'). rewrite Ex. cbn [bind].
        destruct (IH H2 H4 b1) as (b2 & tl' & Et & Htl'). rewrite Et. cbn [bind].
        eexists _, _. split; [reflexivity|]. cbn [acc_exprs flat_map app]. constructor; assumption.
    + destruct (IH Hg Hc res) as (b2 & tl' & Et & Htl'). rewrite Et. cbn [bind].
      eexists _, _. split; [reflexivity|]. cbn [acc_exprs flat_map app]. exact Htl'.
Qed.

Lemma pv_expr_tot : forall e, tot e.
Proof.
  induction e as [z k|v k|op l r k IHl IHr|op e k IHe|c t f k IHc IHt IHf|n args k IHargs|vs k IHvs
                  |v acc k IHacc|v acc rhe k IHacc IHrhe|args k] using expr_ind';
    intros Hc; cbn [pv_expr].
  - (* literal *)
    destruct (ce_num_inv _ _ Hc) as [Hz _].
    unfold set_val. eexists _, _. split; [reflexivity|]. constructor; [assumption|].
    unfold cval. cbn [kval]. apply cv_field. apply Z.rem_bound_pos; lia.
  - (* variable *)
    destruct (venv_get env v) as [x|] eqn:Ev.
    + unfold set_val. eexists _, _. split; [reflexivity|]. constructor. unfold cval. cbn [kval]. rewrite <- Ev. apply Henv.
    + eexists _, _. split; [reflexivity|exact Hc].
  - (* infix *)
    destruct (ce_infix_inv _ _ _ _ Hc) as (H2 & H3 & H5).
    destruct (IHl H2) as (b1 & l' & El & Hl'). rewrite El. cbn [bind].
    assert (Hr : exists b2 r', (if b1 then Ok (true, r) else pv_expr p env r) = Ok (b2, r') /\ cexpr r').
    { destruct b1; [eexists _, _; split; [reflexivity|assumption]|apply IHr; exact H3]. }
    destruct Hr as (b2 & r' & Er & Hr'). rewrite Er. cbn [bind].
    destruct (infix_values_total op (expr_val l') (expr_val r') (cexpr_val _ Hl') (cexpr_val _ Hr')) as (o & Eo & Ho).
    rewrite Eo. cbn [bind]. destruct o as [v|].
    + destruct (sc_set_val b2 (EInfix op l' r' k) v) as [bb ee] eqn:Es. eexists _, _. split; [reflexivity|].
      change ee with (snd (bb, ee)). rewrite <- Es. apply sc_set_val_c; [constructor; assumption|exact Ho].
    + eexists _, _. split; [reflexivity|constructor; assumption].
  - (* prefix *)
    destruct (ce_prefix_inv _ _ _ Hc) as (H1 & H3).
    destruct (IHe H1) as (b1 & x' & Ee & Hx'). rewrite Ee. cbn [bind].
    pose proof (prefix_values_c op (expr_val x') (cexpr_val _ Hx')) as Ho.
    destruct (prefix_values op (expr_val x') p) as [v|].
    + destruct (sc_set_val b1 (EPrefix op x' k) v) as [bb ee] eqn:Es. eexists _, _. split; [reflexivity|].
      change ee with (snd (bb, ee)). rewrite <- Es. apply sc_set_val_c; [constructor; assumption|exact Ho].
    + eexists _, _. split; [reflexivity|constructor; assumption].
  - (* switch *)
    destruct (ce_switch_inv _ _ _ _ Hc) as (H2 & H3 & H4 & H6).
    destruct (IHc H2) as (bc & c' & Ec & Hc'). rewrite Ec. cbn [bind].
    destruct (IHt H3) as (bt & t' & Et & Ht'). rewrite Et. cbn [bind].
    destruct (IHf H4) as (bf & f' & Ef & Hf'). rewrite Ef. cbn [bind].
    pose proof (switch_value_c (expr_val c') (expr_val t') (expr_val f') (cexpr_val _ Ht') (cexpr_val _ Hf')) as Ho.
    destruct (switch_value (expr_val c') (expr_val t') (expr_val f')) as [v|].
    + destruct (sc_set_val (bc || bt || bf) (ESwitch c' t' f' k) v) as [bb ee] eqn:Es. eexists _, _. split; [reflexivity|].
      change ee with (snd (bb, ee)). rewrite <- Es. apply sc_set_val_c; [constructor; assumption|exact Ho].
    + eexists _, _. split; [reflexivity|constructor; assumption].
  - (* call *)
    destruct (ce_call_inv _ _ _ Hc) as (H1 & H3).
    destruct (pv_list_tot args IHargs H1 false) as (b2 & args' & Ea & Ha). rewrite Ea. cbn [bind].
    eexists _, _. split; [reflexivity|constructor; assumption].
  - (* array *)
    destruct (ce_array_inv _ _ Hc) as (H0 & H3).
    destruct (pv_list_tot vs IHvs H0 false) as (b2 & vs' & Ea & Ha). rewrite Ea. cbn [bind].
    eexists _, _. split; [reflexivity|constructor; assumption].
  - (* access *)
    destruct (ce_access_inv _ _ _ Hc) as (H1 & H3).
    destruct (pv_acc_tot acc IHacc H1 false) as (b2 & acc' & Ea & Ha). rewrite Ea. cbn [bind].
    eexists _, _. split; [reflexivity|constructor; assumption].
  - (* update *)
    destruct (ce_update_inv _ _ _ _ Hc) as (H2 & H3 & H5).
    destruct (IHrhe H3) as (b1 & rhe' & Er & Hr'). rewrite Er. cbn [bind].
    destruct (pv_acc_tot acc IHacc H2 b1) as (b2 & acc' & Ea & Ha). rewrite Ea. cbn [bind].
    eexists _, _. split; [reflexivity|constructor; assumption].
  - (* phi *)
    pose proof (phi_value_c env args Henv) as Ho.
    destruct (phi_value env args) as [x|].
    + unfold set_val. eexists _, _. split; [reflexivity|]. constructor. unfold cval. cbn [kval]. exact Ho.
    + eexists _, _. split; [reflexivity|exact Hc].
Qed.
End Expr.

(* ---------- statements ---------- *)
Definition clog (a : logarg) : Prop := match a with LStr => True | LExpr e => cexpr e end.
Definition cstmt (s : stmt) : Prop :=
  match s with
  | SDecl _ _ _ dims => Forall cexpr dims
  | SIf _ c _ _ => cexpr c
  | SRet _ e => cexpr e
  | SAssert _ e => cexpr e
  | SSubst _ _ _ rhe _ _ => cexpr rhe
  | SCeq _ l r => cexpr l /\ cexpr r
  | SLog _ args => Forall clog args
  end.

Lemma pv_exprs_tot env es : cenv env -> Forall cexpr es -> forall res,
  exists b es', pv_exprs p env res es = Ok (b, es') /\ Forall cexpr es'.
Proof.
  intros He Hc. induction es as [|x tl IH]; intros res; cbn [pv_exprs].
  - eexists _, _. split; [reflexivity|constructor].
  - inversion Hc; subst. destruct res.
    + eexists _, _. split; [reflexivity|constructor; assumption].
    + destruct (pv_expr_tot env He x H1) as (b1 & x' & Ex & Hx'). rewrite Ex. cbn [bind].
      destruct (IH H2 b1) as (b2 & tl' & Et & Htl'). rewrite Et. cbn [bind].
      eexists _, _. split; [reflexivity|constructor; assumption].
Qed.

Lemma pv_logargs_tot env es : cenv env -> Forall clog es -> forall res,
  exists b es', pv_logargs p env res es = Ok (b, es') /\ Forall clog es'.
Proof.
  intros He Hc. induction es as [|a tl IH]; intros res; cbn [pv_logargs].
  - eexists _, _. split; [reflexivity|constructor].
  - inversion Hc; subst. destruct a as [|x].
    + destruct (IH H2 res) as (b2 & tl' & Et & Htl'). rewrite Et. cbn [bind].
      eexists _, _. split; [reflexivity|constructor; [exact I|assumption]].
    + destruct res.
      * eexists _, _. split; [reflexivity|constructor; assumption].
      * cbn [clog] in H1. destruct (pv_expr_tot env He x H1) as (b1 & x' & Ex & Hx'). rewrite Ex. cbn [bind].
        destruct (IH H2 b1) as (b2 & tl' & Et & Htl'). rewrite Et. cbn [bind].
        eexists _, _. split; [reflexivity|constructor; assumption].
Qed.

Lemma cenv_add env v x : cenv env -> cv (Some x) -> cenv ((v, x) :: env).
Proof. intros He Hx w. cbn [venv_get]. destruct (vname_eqb v w); [exact Hx|apply He]. Qed.

(* one statement, in the context of the whole list: a repeated add_variable finds
   the value it stored (the claim of the unique defining assignment is stable) *)
Lemma pv_stmt_tot A s B env :
  Inv p (A ++ s :: B) env -> cenv env -> cstmt s ->
  exists b s' env', pv_stmt p env s = Ok (b, s', env') /\ cstmt s' /\ cenv env'.
Proof.
  intros [Hj Hb] He Hc.
  assert (Hjs : sjust p env s) by (rewrite Forall_forall in Hj; apply Hj; apply in_or_app; right; left; reflexivity).
  destruct s as [m names t dims|m c t f|m e|m v op rhe sval stype|m l r|m args|m e]; cbn [pv_stmt cstmt sjust] in *.
  - destruct (pv_exprs_tot env dims He Hc false) as (b & dims' & E & Hd). rewrite E. cbn [bind].
    eexists _, _, _. split; [reflexivity|]. split; assumption.
  - destruct (pv_expr_tot env He c Hc) as (b & c' & E & Hc'). rewrite E. cbn [bind].
    eexists _, _, _. split; [reflexivity|]. split; assumption.
  - destruct (pv_expr_tot env He e Hc) as (b & e' & E & He'). rewrite E. cbn [bind].
    eexists _, _, _. split; [reflexivity|]. split; assumption.
  - destruct Hjs as [Hjr _].
    destruct (pv_expr_tot env He rhe Hc) as (b & rhe' & E & Hr'). rewrite E. cbn [bind].
    destruct (pv_expr_good p env rhe Hjr _ _ E) as (_ & Hst & _).
    destruct (is_update rhe'); [eexists _, _, _; split; [reflexivity|split; assumption]|].
    destruct (expr_val rhe') as [x|] eqn:Ex; [|eexists _, _, _; split; [reflexivity|split; assumption]].
    assert (Hadd : exists env', (if stype_is_local stype then venv_add env v x else Ok env) = Ok env' /\ cenv env').
    { destruct (stype_is_local stype); [|exists env; split; [reflexivity|exact He]].
      unfold venv_add. destruct (venv_get env v) as [y|] eqn:Ey.
      - (* the stored value is the claim of this very statement, which is stable *)
        specialize (Hb v y Ey). rewrite all_defs_claim_app in Hb. cbn [forallb existsb] in Hb.
        apply andb_true_iff in Hb as [Hb _]. apply andb_true_iff in Hb as [_ Hb]. apply andb_true_iff in Hb as [Hb _].
        destruct (proj1 (def_ok_spec v y _) Hb eq_refl) as (_ & _ & Hcl). cbn [def_claim] in Hcl.
        specialize (Hst y Hcl). rewrite Ex in Hst. injection Hst as ->.
        replace (vred_eqb y y) with true by (symmetry; apply vred_eqb_eq; reflexivity).
        exists env. split; [reflexivity|exact He].
      - exists ((v, x) :: env). split; [reflexivity|]. apply cenv_add; [exact He|]. rewrite <- Ex. apply cexpr_val. exact Hr'. }
    destruct Hadd as (env' & Ea & He'). rewrite Ea. cbn [bind].
    destruct b; eexists _, _, _; (split; [reflexivity|split; assumption]).
  - destruct Hc as [Hl Hr].
    destruct (pv_expr_tot env He l Hl) as (b1 & l' & E1 & Hl'). rewrite E1. cbn [bind].
    destruct b1; [eexists _, _, _; split; [reflexivity|split; [split; assumption|assumption]]|].
    destruct (pv_expr_tot env He r Hr) as (b2 & r' & E2 & Hr'). rewrite E2. cbn [bind].
    eexists _, _, _. split; [reflexivity|]. split; [split; assumption|assumption].
  - destruct (pv_logargs_tot env args He Hc false) as (b & args' & E & Ha). rewrite E. cbn [bind].
    eexists _, _, _. split; [reflexivity|]. split; assumption.
  - destruct (pv_expr_tot env He e Hc) as (b & e' & E & He'). rewrite E. cbn [bind].
    eexists _, _, _. split; [reflexivity|]. split; assumption.
Qed.

Lemma pv_stmts_tot : forall ss2 A C env res,
  uniq (map sigq (A ++ ss2 ++ C)) -> Inv p (A ++ ss2 ++ C) env -> cenv env -> Forall cstmt ss2 ->
  exists b ss2' env', pv_stmts p env res ss2 = Ok (b, ss2', env') /\ Forall cstmt ss2' /\ cenv env'.
Proof.
  induction ss2 as [|s tl IH]; intros A C env res Hu Hi He Hc; cbn [pv_stmts].
  - eexists _, _, _. split; [reflexivity|]. split; [constructor|exact He].
  - destruct res; [eexists _, _, _; split; [reflexivity|split; assumption]|].
    inversion Hc; subst.
    change (A ++ (s :: tl) ++ C) with (A ++ s :: (tl ++ C)) in *.
    destruct (pv_stmt_tot A s (tl ++ C) env Hi He H1) as (b1 & s' & env1 & Es & Hs' & He1). rewrite Es. cbn [bind].
    destruct (step_inv p A s (tl ++ C) env b1 s' env1 Hu Hi Es) as (Hi1 & Hm1 & _).
    assert (Happ : forall X, (A ++ [s']) ++ X = A ++ s' :: X) by (intros X; rewrite <- app_assoc; reflexivity).
    assert (Hu1 : uniq (map sigq ((A ++ [s']) ++ tl ++ C))) by (rewrite Happ, Hm1; exact Hu).
    assert (Hi1' : Inv p ((A ++ [s']) ++ tl ++ C) env1) by (rewrite Happ; exact Hi1).
    destruct (IH (A ++ [s']) C env1 b1 Hu1 Hi1' He1 H2) as (b2 & tl' & env2 & Et & Ht' & He2). rewrite Et. cbn [bind].
    eexists _, _, _. split; [reflexivity|]. split; [constructor; assumption|exact He2].
Qed.

Lemma Forall_all_stmts_cons (P : stmt -> Prop) b bs :
  Forall P (all_stmts (b :: bs)) <-> Forall P (b_stmts b) /\ Forall P (all_stmts bs).
Proof. rewrite all_stmts_cons. apply Forall_app. Qed.

Lemma pv_blocks_tot : forall bs2 bs1 env res,
  uniq (map sigq (all_stmts (bs1 ++ bs2))) -> Inv p (all_stmts (bs1 ++ bs2)) env -> cenv env ->
  Forall cstmt (all_stmts bs2) ->
  exists b bs2' env', pv_blocks p env res bs2 = Ok (b, bs2', env') /\ Forall cstmt (all_stmts bs2') /\ cenv env'.
Proof.
  induction bs2 as [|blk tl IH]; intros bs1 env res Hu Hi He Hc; cbn [pv_blocks].
  - eexists _, _, _. split; [reflexivity|]. split; [constructor|exact He].
  - destruct res; [eexists _, _, _; split; [reflexivity|split; assumption]|].
    apply Forall_all_stmts_cons in Hc as [Hc1 Hc2].
    rewrite all_stmts_app, all_stmts_cons in Hu, Hi.
    destruct (pv_stmts_tot (b_stmts blk) (all_stmts bs1) (all_stmts tl) env false Hu Hi He Hc1) as (r1 & ss' & env1 & Es & Hs' & He1).
    rewrite Es. cbn [bind].
    destruct (stmts_inv p (b_stmts blk) (all_stmts bs1) (all_stmts tl) env false r1 ss' env1 Hu Hi Es) as (Hi1 & Hm1 & _).
    assert (Happ : forall X, (bs1 ++ [set_stmts blk ss']) ++ X = bs1 ++ set_stmts blk ss' :: X)
      by (intros X; rewrite <- app_assoc; reflexivity).
    assert (Heq : forall X, all_stmts (bs1 ++ set_stmts blk ss' :: X) = all_stmts bs1 ++ ss' ++ all_stmts X).
    { intros X. rewrite all_stmts_app, all_stmts_cons. reflexivity. }
    assert (Hu1 : uniq (map sigq (all_stmts ((bs1 ++ [set_stmts blk ss']) ++ tl)))) by (rewrite Happ, Heq, Hm1; exact Hu).
    assert (Hi1' : Inv p (all_stmts ((bs1 ++ [set_stmts blk ss']) ++ tl)) env1) by (rewrite Happ, Heq; exact Hi1).
    destruct (IH (bs1 ++ [set_stmts blk ss']) env1 r1 Hu1 Hi1' He1 Hc2) as (r2 & tl' & env2 & Et & Ht' & He2).
    rewrite Et. cbn [bind]. eexists _, _, _. split; [reflexivity|]. split; [|exact He2].
    apply Forall_all_stmts_cons. split; [exact Hs'|exact Ht'].
Qed.

Lemma values_passes_tot : forall k env bs,
  uniq (map sigq (all_stmts bs)) -> Inv p (all_stmts bs) env -> cenv env -> Forall cstmt (all_stmts bs) ->
  exists bs' env', values_passes k p env bs = Ok (bs', env').
Proof.
  induction k as [|k IH]; intros env bs Hu Hi He Hc; cbn [values_passes].
  - eexists _, _. reflexivity.
  - destruct (pv_blocks_tot bs [] env false Hu Hi He Hc) as (rerun & bs1 & env1 & Ep & Hc1 & He1). rewrite Ep. cbn [bind].
    destruct (blocks_inv p bs [] env false rerun bs1 env1 Hu Hi Ep) as (Hi1 & Hm1 & _). cbn [app] in Hi1, Hm1.
    destruct rerun; [|eexists _, _; reflexivity].
    apply IH; [rewrite Hm1; exact Hu|exact Hi1|exact He1|exact Hc1].
Qed.

(* ---------- the initial state ---------- *)
Lemma clean_cexpr e : clean_expr e = true -> cexpr e.
Proof.
  induction e as [z k|v k|op l r k IHl IHr|op e k IHe|c t f k IHc IHt IHf|n args k IHargs|vs k IHvs
                  |v acc k IHacc|v acc rhe k IHacc IHrhe|args k] using expr_ind';
    cbn [clean_expr expr_know]; intros H; apply andb_true_iff in H as [Hk H]; unfold claim_none in Hk;
    destruct (kval k) eqn:Ek; try discriminate;
    assert (Hcv : cval k) by (unfold cval; rewrite Ek; apply cv_none).
  - constructor; [apply Z.leb_le; exact H|exact Hcv].
  - constructor. exact Hcv.
  - apply andb_true_iff in H as [H1 H2]. constructor; auto.
  - constructor; auto.
  - apply andb_true_iff in H as [H H3]. apply andb_true_iff in H as [H1 H2]. constructor; auto.
  - constructor; [|exact Hcv]. clear Ek Hcv. induction args as [|x tl IH]; [constructor|].
    apply Forall_cons_iff in IHargs as [I1 I2]. apply andb_true_iff in H as [Hx Ht]. constructor; auto.
  - constructor; [|exact Hcv]. clear Ek Hcv. induction vs as [|x tl IH]; [constructor|].
    apply Forall_cons_iff in IHvs as [I1 I2]. apply andb_true_iff in H as [Hx Ht]. constructor; auto.
  - constructor; [|exact Hcv]. clear Ek Hcv. induction acc as [|x tl IH]; [constructor|].
    destruct x as [x|n]; cbn [acc_exprs flat_map app] in *.
    + apply Forall_cons_iff in IHacc as [I1 I2]. apply andb_true_iff in H as [Hx Ht]. constructor; auto.
    + auto.
  - apply andb_true_iff in H as [Hr Ha]. constructor; [|auto|exact Hcv]. clear Ek Hcv.
    induction acc as [|x tl IH]; [constructor|].
    destruct x as [x|n]; cbn [acc_exprs flat_map app] in *.
    + apply Forall_cons_iff in IHacc as [I1 I2]. apply andb_true_iff in Ha as [Hx Ht]. constructor; auto.
    + auto.
  - constructor. exact Hcv.
Qed.

Lemma clean_cstmt s : clean_stmt s = true -> cstmt s.
Proof.
  destruct s; cbn [clean_stmt cstmt]; intros H.
  - rewrite forallb_forall in H. apply Forall_forall. intros e He. apply clean_cexpr. auto.
  - apply clean_cexpr. exact H.
  - apply clean_cexpr. exact H.
  - apply andb_true_iff in H as [H1 _]. apply clean_cexpr. exact H1.
  - apply andb_true_iff in H as [H1 H2]. split; apply clean_cexpr; assumption.
  - rewrite forallb_forall in H. apply Forall_forall. intros a Ha. specialize (H a Ha).
    destruct a; [exact I|]. cbn. apply clean_cexpr. exact H.
  - apply clean_cexpr. exact H.
Qed.

(* THE STATEMENT: at every budget of value passes and degree passes the mirror
   completes normally *)
Theorem propagate_completes kv kd idom c :
  clean_cfg c = true -> ldefs_unique (all_stmts (c_blocks c)) = true ->
  exists c', propagate kv kd p idom c = Ok c'.
Proof.
  intros Hclean Hu. unfold propagate.
  assert (Hc : Forall cstmt (all_stmts (c_blocks c))).
  { unfold clean_cfg in Hclean. rewrite forallb_forall in Hclean. apply Forall_forall. intros s Hs. apply clean_cstmt. auto. }
  assert (He : cenv []) by (intros v; apply cv_none).
  destruct (values_passes_tot kv [] (c_blocks c) (ldefs_unique_uniq _ Hu) (clean_Inv p _ Hclean) He Hc) as (bs1 & env1 & E).
  rewrite E. cbn [bind].
  destruct (degrees_passes kd idom (denv_init (c_kind c) (c_params c)) bs1) as [bs2 env2]. eexists. reflexivity.
Qed.
End Total.
