From Coq Require Import ZArith Lia Bool.
Require Import Model.Base Model.Field Spec.FieldSpec Proofs.FieldProofs.
Local Open Scope Z_scope.
Ltac Zify.zify_post_hook ::= Z.to_euclidean_division_equations.

(* a count above p/2 shifts the other way by p - count: the two functions are mirror images *)
Theorem shift_mirror l r p : 0 < p -> Z.quot p 2 < r <= p ->
  shift_l l r p = shift_r l (p - r) p /\ shift_r l r p = shift_l l (p - r) p.
Proof.
  intros Hp Hr. unfold shift_l, shift_r.
  destruct (Z.leb_spec r (Z.quot p 2)); [lia|].
  destruct (Z.leb_spec (p - r) (Z.quot p 2)); [split; reflexivity|lia].
Qed.

(* shifting right by nothing changes nothing, for every integer *)
Theorem shift_r_zero l p : 0 < p -> shift_r l 0 p = Ok l.
Proof.
  intros Hp. unfold shift_r.
  destruct (Z.leb_spec 0 (Z.quot p 2)); [|lia].
  unfold shr_direct. cbn [to_usize Z.leb Z.ltb andb Z.compare]. change (to_usize 0) with (Some 0).
  unfold bits. destruct (Z.eqb_spec l 0) as [->|Hl]; [reflexivity|].
  assert (0 <= Z.log2 (Z.abs l)) by apply Z.log2_nonneg.
  destruct (Z.leb_spec (Z.log2 (Z.abs l) + 1) 0); [lia|].
  change (2 ^ 0) with 1. rewrite Z.quot_1_r. reflexivity.
Qed.

(* shifting a field element left by nothing changes nothing (the mask keeps every bit of it) *)
Theorem shift_l_zero l p : 0 < p -> 0 <= l < p -> shift_l l 0 p = Ok l.
Proof.
  intros Hp Hl. unfold shift_l.
  destruct (Z.leb_spec 0 (Z.quot p 2)); [|lia].
  unfold shl_direct. change (to_usize 0) with (Some 0).
  pose proof (radix_len_ge1 p) as Hr.
  assert (E : (radix_len p <=? 0) = false) by lia.
  cbv iota beta. rewrite E.
  change (2 ^ 0) with 1. rewrite Z.mul_1_r. unfold mask.
  replace (2 ^ radix_len p - 1) with (Z.ones (radix_len p)) by (rewrite Z.ones_equiv; lia).
  rewrite Z.land_ones by lia.
  pose proof (lt_pow2_nbits p Hp) as Hn. rewrite <- radix_len_pos in Hn by lia.
  rewrite Z.mod_small by lia. rewrite modulus_id by lia. reflexivity.
Qed.
