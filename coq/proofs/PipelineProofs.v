(* C01 — proofs about Model.Pipeline: the literal actions never panic on the
   tokens their regular expressions accept, split_string never panics, ends
   and never cuts a scalar for every valid UTF-8 string, and the assembly of
   the stage facts into totality of the pipeline. *)
From Coq Require Import ZArith List Bool Lia Arith.
Require Import Model.Base Model.Pipeline.
Import ListNotations.
Local Open Scope Z_scope.

(* ------------------------------------------------------------------------ *)
(* literal actions                                                           *)
(* ------------------------------------------------------------------------ *)

Lemma parse_digits_dec_some : forall s acc, 0 <= acc -> all_dec s = true ->
  exists v, parse_digits 10 acc s = Some v /\ 0 <= v.
Proof.
  induction s as [|b r IH]; intros acc Hacc H; simpl in *.
  - eauto.
  - apply andb_prop in H. destruct H as [Hb Hr].
    unfold digit_of. simpl. unfold dec_digit in *.
    destruct ((48 <=? b) && (b <=? 57)) eqn:E; try discriminate.
    apply andb_prop in E. destruct E as [E1 E2].
    apply Z.leb_le in E1. apply Z.leb_le in E2.
    apply IH; [lia | assumption].
Qed.

Lemma hex_digit_range : forall b d, hex_digit b = Some d -> 0 <= d < 16.
Proof.
  intros b d. unfold hex_digit.
  destruct ((48 <=? b) && (b <=? 57)) eqn:E1.
  { intros H. inversion H. apply andb_prop in E1. destruct E1 as [A B].
    apply Z.leb_le in A. apply Z.leb_le in B. lia. }
  destruct ((65 <=? b) && (b <=? 70)) eqn:E2.
  { intros H. inversion H. apply andb_prop in E2. destruct E2 as [A B].
    apply Z.leb_le in A. apply Z.leb_le in B. lia. }
  destruct ((97 <=? b) && (b <=? 102)) eqn:E3.
  { intros H. inversion H. apply andb_prop in E3. destruct E3 as [A B].
    apply Z.leb_le in A. apply Z.leb_le in B. lia. }
  discriminate.
Qed.

Lemma parse_digits_hex_some : forall s acc, 0 <= acc -> all_hex s = true ->
  exists v, parse_digits 16 acc s = Some v /\ 0 <= v.
Proof.
  induction s as [|b r IH]; intros acc Hacc H; simpl in *.
  - eauto.
  - apply andb_prop in H. destruct H as [Hb Hr].
    unfold digit_of. simpl.
    destruct (hex_digit b) as [d|] eqn:E; try discriminate.
    apply hex_digit_range in E.
    apply IH; [lia | assumption].
Qed.

Lemma decnumber_action_total : forall tok, dec_token tok = true ->
  exists v, decnumber_action tok = Ok v /\ 0 <= v.
Proof.
  intros tok H. unfold dec_token in H. apply andb_prop in H. destruct H as [Hn Hd].
  unfold decnumber_action, parse_bytes.
  destruct tok as [|b r]; [discriminate|].
  destruct (parse_digits_dec_some (b :: r) 0 ltac:(lia) Hd) as [v [Hv Hp]].
  rewrite Hv. eauto.
Qed.

Lemma hexnumber_action_total : forall tok, hex_token tok = true ->
  exists v, hexnumber_action tok = Ok v /\ 0 <= v.
Proof.
  intros tok H. unfold hex_token in H.
  destruct tok as [|a [|b d]]; try discriminate.
  apply andb_prop in H. destruct H as [H Hd].
  apply andb_prop in H. destruct H as [H Hn].
  apply andb_prop in H. destruct H as [Ea Eb].
  apply Z.eqb_eq in Ea. apply Z.eqb_eq in Eb. subst a b.
  unfold hexnumber_action. simpl length. simpl skipn.
  replace ((S (S (length d)) <? 2)%nat) with false by (symmetry; apply Nat.ltb_ge; lia).
  unfold parse_bytes. destruct d as [|c r]; [discriminate|].
  destruct (parse_digits_hex_some (c :: r) 0 ltac:(lia) Hd) as [v [Hv Hp]].
  rewrite Hv. eauto.
Qed.

(* the defect D1 on the old terminal: `0x` is accepted and the action panics *)
Lemma hexnumber_old_regex_refuted :
  hex_token_old d1_witness = true /\ hexnumber_action d1_witness = Panic site_parse_base16.
Proof. split; reflexivity. Qed.

(* since bdf3e60 the version action cannot panic, whatever the token *)
Lemma small_decnumber_action_never_panics : forall tok,
  (exists v, small_decnumber_action tok = Ok v /\ 0 <= v <= usize_max) \/
  small_decnumber_action tok = Err (EOther 1).
Proof.
  intros tok. unfold small_decnumber_action, usize_from_str.
  destruct (parse_bytes 10 tok) as [v|] eqn:E; [|right; reflexivity].
  destruct (v <=? usize_max) eqn:L; [|right; reflexivity].
  left. exists v. split; [reflexivity|]. apply Z.leb_le in L. split; [|assumption].
  unfold parse_bytes in E. destruct tok as [|b r]; [discriminate|].
  assert (G : forall s acc w, 0 <= acc -> parse_digits 10 acc s = Some w -> 0 <= w).
  { induction s as [|c s IH]; intros acc w Ha Hs; simpl in Hs.
    - inversion Hs. lia.
    - unfold digit_of in Hs. simpl in Hs. unfold dec_digit in Hs.
      destruct ((48 <=? c) && (c <=? 57)) eqn:Ed; try discriminate.
      apply andb_prop in Ed. destruct Ed as [A B]. apply Z.leb_le in A. apply Z.leb_le in B.
      eapply IH; [|exact Hs]. lia. }
  eapply G; [|exact E]. lia.
Qed.

Lemma version_action_never_panics : forall a b c s,
  version_action a b c <> Panic s /\ version_action a b c <> OutOfFuel.
Proof.
  intros a b c s. unfold version_action.
  destruct (small_decnumber_action_never_panics a) as [[x [Hx _]]|Hx]; rewrite Hx; simpl;
    [|split; discriminate].
  destruct (small_decnumber_action_never_panics b) as [[y [Hy _]]|Hy]; rewrite Hy; simpl;
    [|split; discriminate].
  destruct (small_decnumber_action_never_panics c) as [[z [Hz _]]|Hz]; rewrite Hz; simpl;
    split; discriminate.
Qed.

(* the defect D2 on the old action *)
Lemma small_decnumber_old_refuted :
  dec_token d2_witness = true /\ small_decnumber_action_old d2_witness = Panic site_parse_number /\
  small_decnumber_action d2_witness = Err (EOther 1).
Proof. repeat split; vm_compute; reflexivity. Qed.

(* ------------------------------------------------------------------------ *)
(* UTF-8 strings                                                             *)
(* ------------------------------------------------------------------------ *)

(* a valid string is a sequence of scalars: a leading byte and exactly the
   number of continuation bytes it announces *)
Inductive utf8 : list Z -> Prop :=
| utf8_nil : utf8 []
| utf8_cons : forall b r s,
    scalar_len b = Some (length r) -> Forall (fun c => is_cont c = true) r -> utf8 s ->
    utf8 (b :: r ++ s).

Lemma scalar_len_not_cont : forall b n, scalar_len b = Some n -> is_cont b = false.
Proof.
  intros b n. unfold scalar_len, is_cont.
  destruct ((0 <=? b) && (b <? 128)) eqn:E0.
  { intros _. apply andb_prop in E0. destruct E0 as [A B]. apply Z.ltb_lt in B.
    apply andb_false_iff. left. apply Z.leb_gt. lia. }
  destruct ((192 <=? b) && (b <? 224)) eqn:E1.
  { intros _. apply andb_prop in E1. destruct E1 as [A B]. apply Z.leb_le in A.
    apply andb_false_iff. right. apply Z.ltb_ge. lia. }
  destruct ((224 <=? b) && (b <? 240)) eqn:E2.
  { intros _. apply andb_prop in E2. destruct E2 as [A B]. apply Z.leb_le in A.
    apply andb_false_iff. right. apply Z.ltb_ge. lia. }
  destruct ((240 <=? b) && (b <? 248)) eqn:E3.
  { intros _. apply andb_prop in E3. destruct E3 as [A B]. apply Z.leb_le in A.
    apply andb_false_iff. right. apply Z.ltb_ge. lia. }
  discriminate.
Qed.

Lemma scalar_len_le3 : forall b n, scalar_len b = Some n -> (n <= 3)%nat.
Proof.
  intros b n. unfold scalar_len.
  repeat match goal with |- context [if ?c then _ else _] => destruct c end;
    intros H; inversion H; lia.
Qed.

Lemma utf8_head_not_cont : forall s b, utf8 s -> nth_error s 0 = Some b -> is_cont b = false.
Proof.
  intros s b H. inversion H; subst; simpl; intros E; [discriminate|].
  inversion E; subst. eapply scalar_len_not_cont; eauto.
Qed.

(* the boundary test of b :: r ++ s beyond the first scalar is the test of s *)
Lemma boundary_shift : forall b r s j, utf8 s ->
  is_char_boundary (b :: r ++ s) (S (length r) + j) = is_char_boundary s j.
Proof.
  intros b r s j Hs.
  assert (Hn : nth_error (b :: r ++ s) (S (length r + j)) = nth_error s j).
  { simpl. rewrite nth_error_app2 by lia. f_equal. lia. }
  assert (Hl : length (b :: r ++ s) = S (length r + length s)).
  { simpl. rewrite app_length. reflexivity. }
  replace (S (length r) + j)%nat with (S (length r + j)) by reflexivity.
  unfold is_char_boundary at 1. rewrite Hn, Hl.
  destruct j as [|j'].
  - destruct s as [|c s'].
    + simpl. apply Nat.eqb_eq. lia.
    + cbn. rewrite (utf8_head_not_cont (c :: s') c Hs eq_refl). reflexivity.
  - unfold is_char_boundary. destruct (nth_error s (S j')); [reflexivity|].
    destruct (Nat.eqb_spec (S (length r + S j')) (S (length r + length s))), (Nat.eqb_spec (S j') (length s));
      try reflexivity; lia.
Qed.

(* inside the first scalar there is no boundary *)
Lemma boundary_inside : forall b r s i, Forall (fun c => is_cont c = true) r ->
  (1 <= i <= length r)%nat -> is_char_boundary (b :: r ++ s) i = false.
Proof.
  intros b r s i Hr Hi. unfold is_char_boundary.
  destruct i as [|i']; [lia|]. simpl nth_error.
  rewrite nth_error_app1 by lia.
  destruct (nth_error r i') as [c|] eqn:E.
  - rewrite Forall_forall in Hr. rewrite (Hr c (nth_error_In _ _ E)). reflexivity.
  - apply nth_error_None in E. lia.
Qed.

(* cutting a valid string at a boundary yields two valid strings *)
Lemma utf8_split : forall s, utf8 s -> forall i, (i <= length s)%nat ->
  is_char_boundary s i = true -> utf8 (firstn i s) /\ utf8 (skipn i s).
Proof.
  induction 1 as [|b r s Hb Hr Hs IH]; intros i Hi Hbd.
  - destruct i; simpl; split; constructor.
  - destruct i as [|i'].
    + simpl. split; [constructor|]. constructor; assumption.
    + destruct (le_lt_dec (S i') (length r)) as [Hin|Hout].
      * rewrite boundary_inside in Hbd by (auto; lia). discriminate.
      * replace (S i') with (S (length r) + (i' - length r))%nat in * by lia.
        set (j := (i' - length r)%nat) in *.
        rewrite boundary_shift in Hbd by assumption.
        simpl length in Hi. rewrite app_length in Hi.
        destruct (IH j ltac:(lia) Hbd) as [H1 H2].
        simpl plus. simpl firstn. simpl skipn.
        rewrite firstn_app, skipn_app.
        rewrite firstn_all2 by lia. rewrite skipn_all2 by lia.
        replace (length r + j - length r)%nat with j by lia.
        simpl. split; [|assumption].
        constructor; assumption.
Qed.

(* every position has a boundary at most three bytes below it *)
Lemma boundary_near : forall s, utf8 s -> forall i, (i <= length s)%nat ->
  exists j, (j <= i)%nat /\ (i <= j + 3)%nat /\ is_char_boundary s j = true.
Proof.
  induction 1 as [|b r s Hb Hr Hs IH]; intros i Hi.
  - exists 0%nat. simpl in Hi. split; [lia|]. split; [lia|reflexivity].
  - pose proof (scalar_len_le3 _ _ Hb) as L3.
    destruct (le_lt_dec i (length r)) as [Hin|Hout].
    + exists 0%nat. split; [lia|]. split; [lia|reflexivity].
    + simpl length in Hi. rewrite app_length in Hi.
      destruct (IH (i - S (length r))%nat ltac:(lia)) as [j [J1 [J2 J3]]].
      exists (S (length r) + j)%nat. split; [lia|]. split; [lia|].
      rewrite boundary_shift by assumption. exact J3.
Qed.

Lemma boundary_len : forall s, is_char_boundary s (length s) = true.
Proof.
  intros s. unfold is_char_boundary. destruct (length s) eqn:E; [reflexivity|].
  rewrite <- E. replace (nth_error s (length s)) with (@None Z) by (symmetry; apply nth_error_None; lia).
  apply Nat.eqb_refl.
Qed.

Lemma back_to_boundary_ok : forall fuel s e j,
  (j <= e)%nat -> (e - j < fuel)%nat -> is_char_boundary s j = true ->
  exists e', back_to_boundary fuel s e = Ok e' /\ (j <= e' <= e)%nat /\ is_char_boundary s e' = true.
Proof.
  induction fuel as [|f IH]; intros s e j Hje Hf Hj; [lia|].
  simpl. destruct (is_char_boundary s e) eqn:E.
  - exists e. split; [reflexivity|]. split; [lia|exact E].
  - destruct e as [|e'].
    + simpl in E. discriminate.
    + assert (j <> S e') by (intros ->; congruence).
      destruct (IH s e' j ltac:(lia) ltac:(lia) Hj) as [x [X1 [X2 X3]]].
      exists x. split; [exact X1|]. split; [lia|exact X3].
Qed.

(* the chunks of split_string *)
Definition good_chunk (c : list Z) : Prop := utf8 c /\ c <> [] /\ (length c <= sub_len)%nat.

Lemma split_string_step : forall f cur, cur <> [] ->
  split_string (S f) cur =
  (e <- back_to_boundary (S (Nat.min sub_len (length cur))) cur (Nat.min sub_len (length cur)) ;;
   cr <- split_at cur e ;;
   rest <- split_string f (snd cr) ;;
   Ok (fst cr :: rest)).
Proof. intros f cur H. destruct cur; [congruence|reflexivity]. Qed.

Lemma split_string_nil : forall n, split_string n [] = Ok [].
Proof. destruct n; reflexivity. Qed.

Lemma split_string_ok : forall n s, utf8 s -> (length s <= n)%nat ->
  exists chunks, split_string n s = Ok chunks /\ concat chunks = s /\ Forall good_chunk chunks.
Proof.
  induction n as [|n IH]; intros s Hs Hn.
  - destruct s; [|simpl in Hn; lia]. exists []. split; [reflexivity|]. split; [reflexivity|constructor].
  - destruct (list_eq_dec Z.eq_dec s []) as [->|Hne].
    { exists []. rewrite split_string_nil. split; [reflexivity|]. split; [reflexivity|constructor]. }
    assert (Hlen : (1 <= length s)%nat) by (destruct s; [congruence|simpl; lia]).
    rewrite split_string_step by assumption.
    set (e0 := Nat.min sub_len (length s)).
    assert (He0 : (e0 <= length s)%nat) by (unfold e0; lia).
    assert (Hback : exists e, back_to_boundary (S e0) s e0 = Ok e /\ (1 <= e <= e0)%nat /\ is_char_boundary s e = true).
    { destruct (le_lt_dec (length s) sub_len) as [Hshort|Hlong].
      - (* the whole rest fits: its length is a boundary *)
        assert (Heq : e0 = length s) by (unfold e0; lia).
        exists e0. rewrite Heq. simpl. rewrite boundary_len.
        split; [reflexivity|]. split; [lia|reflexivity].
      - assert (Heq : e0 = sub_len) by (unfold e0; lia).
        destruct (boundary_near s Hs e0 He0) as [j [J1 [J2 J3]]].
        destruct (back_to_boundary_ok (S e0) s e0 j J1 ltac:(lia) J3) as [e [E1 [E2 E3]]].
        exists e. split; [exact E1|]. split; [|exact E3]. unfold sub_len in *. lia. }
    destruct Hback as [e [E1 [E2 E3]]].
    rewrite E1. simpl bind. unfold split_at. rewrite E3. simpl bind.
    destruct (utf8_split s Hs e ltac:(lia) E3) as [U1 U2].
    simpl snd. simpl fst.
    destruct (IH (skipn e s) U2) as [chunks [C1 [C2 C3]]].
    { rewrite skipn_length. lia. }
    rewrite C1. simpl bind.
    exists (firstn e s :: chunks). split; [reflexivity|]. split.
    + simpl. rewrite C2. apply firstn_skipn.
    + constructor; [|assumption]. split; [exact U1|]. split.
      * intros Hnil. apply (f_equal (@length Z)) in Hnil. rewrite firstn_length in Hnil. simpl in Hnil. lia.
      * rewrite firstn_length. unfold e0 in *. lia.
Qed.

Lemma good_chunks_no_split : forall chunks, Forall good_chunk chunks -> Forall utf8 chunks.
Proof. intros chunks H. eapply Forall_impl; [|exact H]. intros c [U _]. exact U. Qed.

(* for every valid UTF-8 string: no panic, the fuel |s| suffices, the chunks
   concatenate to the string, every chunk is a non-empty valid UTF-8 string
   (no scalar is cut) of at most 230 bytes *)
Lemma split_string_never_panics : forall s, utf8 s ->
  exists chunks, split_string (length s) s = Ok chunks /\ concat chunks = s /\
    Forall (fun c => utf8 c /\ c <> [] /\ (length c <= 230)%nat) chunks.
Proof. intros s Hs. exact (split_string_ok (length s) s Hs (le_n _)). Qed.

Lemma utf8_repeat_e_acute : forall n, utf8 (concat (repeat [195; 169] n)).
Proof.
  induction n; simpl; [constructor|].
  change (195 :: 169 :: concat (repeat [195; 169] n)) with (195 :: [169] ++ concat (repeat [195; 169] n)).
  constructor; [reflexivity|repeat constructor|assumption].
Qed.

(* the defect D26 on the old loop: a valid string on which split_at panics *)
Lemma split_string_old_refuted :
  utf8 d26_witness /\ split_string_old (length d26_witness) d26_witness = Panic site_split_at.
Proof.
  split.
  - unfold d26_witness. change (120 :: ?x) with (120 :: [] ++ x).
    constructor; [reflexivity|constructor|apply utf8_repeat_e_acute].
  - vm_compute. reflexivity.
Qed.

(* STRING: on a token of the terminal that is valid UTF-8 the slice is in
   range and on char boundaries *)
Lemma string_token_shape : forall tok, string_token tok = true ->
  exists body, tok = 34 :: body ++ [34].
Proof.
  intros tok H. unfold string_token in H.
  destruct tok as [|q r]; [discriminate|].
  apply andb_prop in H. destruct H as [Eq H]. apply Z.eqb_eq in Eq. subst q.
  destruct (rev r) as [|q' body'] eqn:Er; [discriminate|].
  apply andb_prop in H. destruct H as [Eq' _]. apply Z.eqb_eq in Eq'. subst q'.
  exists (rev body'). rewrite <- (rev_involutive r). rewrite Er. simpl. reflexivity.
Qed.

Lemma utf8_ascii_head : forall b s, scalar_len b = Some 0%nat -> utf8 (b :: s) -> utf8 s.
Proof.
  intros b s Hb H. inversion H as [|b' r s' Hl Hr Hs' Heq]; subst.
  rewrite Hb in Hl. inversion Hl as [L]. destruct r; [|discriminate]. simpl in *. assumption.
Qed.

Lemma string_action_total : forall tok, string_token tok = true -> utf8 tok ->
  exists s, string_action tok = Ok s.
Proof.
  intros tok Ht Hu. destruct (string_token_shape tok Ht) as [body ->].
  unfold string_action. simpl length. rewrite app_length. simpl length.
  replace ((S (length body + 1) <? 2)%nat) with false by (symmetry; apply Nat.ltb_ge; lia).
  assert (Hrest : utf8 (body ++ [34])) by (eapply utf8_ascii_head; [|exact Hu]; reflexivity).
  (* position 1 *)
  assert (B1 : is_char_boundary (34 :: body ++ [34]) 1 = true).
  { change (34 :: body ++ [34]) with (34 :: [] ++ (body ++ [34])).
    change 1%nat with (S (length (@nil Z)) + 0)%nat.
    rewrite boundary_shift by assumption. reflexivity. }
  (* position len - 1: the byte there is the closing quote *)
  assert (B2 : is_char_boundary (34 :: body ++ [34]) (S (length body + 1) - 1) = true).
  { replace (S (length body + 1) - 1)%nat with (S (length body)) by lia.
    unfold is_char_boundary. simpl nth_error. rewrite nth_error_app2 by lia.
    rewrite Nat.sub_diag. simpl. reflexivity. }
  rewrite B1, B2. simpl. eauto.
Qed.

(* ------------------------------------------------------------------------ *)
(* assembly                                                                  *)
(* ------------------------------------------------------------------------ *)

Definition no_panic {A} (m : outcome A) : Prop := (forall s, m <> Panic s) /\ m <> OutOfFuel.
Definition total {A B} (f : A -> outcome B) : Prop := forall a, no_panic (f a).

Lemma no_panic_cases : forall {A} (m : outcome A), no_panic m -> (exists a, m = Ok a) \/ (exists e, m = Err e).
Proof.
  intros A m [H1 H2]. destruct m; eauto.
  - exfalso. eapply H1. reflexivity.
  - exfalso. apply H2. reflexivity.
Qed.

Lemma no_panic_bind : forall {A B} (m : outcome A) (f : A -> outcome B),
  no_panic m -> (forall a, no_panic (f a)) -> no_panic (bind m f).
Proof.
  intros A B m f Hm Hf. destruct (no_panic_cases m Hm) as [[a ->]|[e ->]]; simpl.
  - apply Hf.
  - split; [intros s|]; discriminate.
Qed.

Lemma no_panic_ok : forall {A} (a : A), no_panic (Ok a).
Proof. intros A a. split; [intros s|]; discriminate. Qed.

Lemma recover_ok : forall {A} (m : outcome A) d, no_panic m -> exists a, recover m d = Ok a.
Proof.
  intros A m d H. destruct (no_panic_cases m H) as [[a ->]|[e ->]]; simpl; eauto.
Qed.

Lemma no_panic_recover : forall {A} (m : outcome A) d, no_panic m -> no_panic (recover m d).
Proof. intros A m d H. destruct (recover_ok m d H) as [a ->]. apply no_panic_ok. Qed.

Lemma map_outcome_ok : forall {A B} (f : A -> outcome B) l,
  (forall a, exists b, f a = Ok b) -> exists bs, map_outcome f l = Ok bs.
Proof.
  intros A B f l H. induction l as [|a r [bs IH]]; simpl; [eauto|].
  destruct (H a) as [b ->]. simpl. rewrite IH. simpl. eauto.
Qed.

Section AssemblyProofs.
  Variables Argv Source Ast Definition_ Cfg Ssa Report : Type.
  Variable stage_files : Argv -> outcome (list Source).
  Variable stage_parse : Source -> outcome Ast.
  Variable stage_desugar : list Ast -> outcome (list Definition_ * list Report).
  Variable stage_lift : Definition_ -> outcome Cfg.
  Variable stage_ssa : Cfg -> outcome Ssa.
  Variable stage_propagate : Ssa -> outcome Ssa.
  Variable stage_passes : Ssa -> outcome (list Report).
  Variable report_of_error : error -> Report.
  Variable stage_output : list Report -> outcome Z.

  Lemma pipeline_total :
    total stage_files -> total stage_parse -> total stage_desugar -> total stage_lift ->
    total stage_ssa -> total stage_propagate -> total stage_passes ->
    (forall rs, stage_output rs = Ok 0 \/ stage_output rs = Ok 1) ->
    forall argv,
      run_pipeline Argv Source Ast Definition_ Cfg Ssa Report stage_files stage_parse stage_desugar
                   stage_lift stage_ssa stage_propagate stage_passes report_of_error stage_output argv = Ok 0 \/
      run_pipeline Argv Source Ast Definition_ Cfg Ssa Report stage_files stage_parse stage_desugar
                   stage_lift stage_ssa stage_propagate stage_passes report_of_error stage_output argv = Ok 1.
  Proof.
    intros Hf Hp Hd Hl Hs Hg Ha Ho argv. unfold run_pipeline.
    destruct (recover_ok (stage_files argv) (fun _ => []) (Hf argv)) as [srcs ->]. simpl bind.
    destruct (map_outcome_ok (parse_one Source Ast Report stage_parse report_of_error) srcs) as [parsed ->].
    { intros s. unfold parse_one. apply recover_ok. apply no_panic_bind; [apply Hp|intros a; apply no_panic_ok]. }
    simpl bind.
    destruct (recover_ok (stage_desugar (somes (map fst parsed))) (fun e => ([], [report_of_error e])) (Hd _)) as [dr ->].
    simpl bind.
    destruct (map_outcome_ok (analyse_definition Definition_ Cfg Ssa Report stage_lift stage_ssa stage_propagate
                                                 stage_passes report_of_error) (fst dr)) as [found ->].
    { intros d. unfold analyse_definition. apply recover_ok.
      apply no_panic_bind; [apply Hl|intros c].
      apply no_panic_bind; [apply Hs|intros s].
      apply no_panic_bind; [apply Hg|intros s']. apply Ha. }
    simpl bind. apply Ho.
  Qed.
End AssemblyProofs.
