(* Proofs for C09, part 3: control dependence (Spec.CtlDep).
   - the decidable forms decide the path-based definitions (escapes_b, ctl_dependent_b);
   - ctl_closed_b B = true  ->  B is closed under the implicit flow cdep;
   - hence the set of names the mirror finds tainted by an input/output signal is closed under
     information flow idep = ddep \/ cdep, and every CS0008 claim is true when "a constraint
     mentions an input or output signal" is read with implicit flows included. *)
From Coq Require Import ZArith NArith List Bool Relations Lia.
Require Import Model.Base Model.Ir Model.VarUse Model.Taint Model.SideEffect
  Spec.NiSpec Spec.SsaEffects Spec.CtlDep Proofs.TaintProofs Proofs.SideEffectProofs.
Import ListNotations.

Section CtlProofs.
  Variable g : cfg.
  Notation bs := (c_blocks g).

  Lemma all_succ_edges_In u v : In (u, v) (all_succ_edges g) <-> CtlDep.edge g u v.
  Proof.
    unfold all_succ_edges, edge. rewrite in_flat_map. split.
    - intros [blk [Hblk H]]. apply in_map_iff in H. destruct H as [s [Heq Hs]]. injection Heq as <- <-.
      exists blk. repeat split; assumption.
    - intros [blk [Hblk [<- Hv]]]. exists blk. split; [assumption|]. apply in_map_iff. exists v. split; [reflexivity | assumption].
  Qed.

  Lemma avoiding_edges_In y u v : In (u, v) (avoiding_edges g y) <-> edge_avoiding g y u v.
  Proof.
    unfold avoiding_edges, edge_avoiding. rewrite filter_In, all_succ_edges_In. cbn [fst snd].
    rewrite andb_true_iff, !negb_true_iff, !N.eqb_neq. tauto.
  Qed.

  Lemma falls_off_b_spec blk : falls_off_b blk = true <-> falls_off blk.
  Proof.
    unfold falls_off_b, falls_off. destruct (b_succs blk) as [|s0 ss] eqn:Hsucc.
    - split; [intros _; left; reflexivity | reflexivity].
    - rewrite existsb_exists. split.
      + intros [s [Hs H]]. right.
        destruct s as [m names t dims|m c t [f|]|m e|m v op rhe sv sty|m l r|m args|m e]; try discriminate.
        exists m, c, t. split; [assumption|]. intros x Hx. rewrite Hx in H. discriminate.
      + intros [H|(m & c & t & Hs & H)]; [discriminate|]. exists (SIf m c t None). split; [assumption|].
        destruct (filter (fun y => negb (N.eqb y t)) (s0 :: ss)) as [|x [|x' r]] eqn:Hf; try reflexivity.
        exfalso. exact (H x eq_refl).
  Qed.

  Lemma is_exit_b_spec e : is_exit_b g e = true <-> is_exit g e.
  Proof.
    unfold is_exit_b, is_exit. rewrite existsb_exists. split.
    - intros [blk [Hblk H]]. apply andb_true_iff in H. destruct H as [He Hs]. apply N.eqb_eq in He.
      exists blk. repeat split; try assumption. apply falls_off_b_spec. assumption.
    - intros [blk [Hblk [<- Hs]]]. exists blk. split; [assumption|]. rewrite N.eqb_refl.
      apply falls_off_b_spec in Hs. rewrite Hs. reflexivity.
  Qed.

  Lemma reach_avoiding y a r :
    multi_step_refl N.eqb (avoiding_edges g y) a = Ok r ->
    forall e, In e r <-> clos_refl_trans N (edge_avoiding g y) a e.
  Proof.
    intros H e. rewrite (closure_exact_refl N N.eqb N.eqb_eq _ _ _ H e).
    split; apply clos_rt_mono; intros u v Huv; apply avoiding_edges_In; exact Huv.
  Qed.

  Lemma escapes_b_spec y a : escapes_b g y a = true <-> escapes g y a.
  Proof.
    unfold escapes_b, escapes. rewrite andb_true_iff, negb_true_iff, N.eqb_neq.
    destruct (fuel_suffices_refl N N.eqb N.eqb_eq (avoiding_edges g y) a) as [r Hr]. rewrite Hr.
    rewrite existsb_exists. split.
    - intros [Hne [e [He Hx]]]. split; [assumption|]. exists e. split; [apply is_exit_b_spec; assumption|].
      apply (reach_avoiding y a r Hr). assumption.
    - intros [Hne [e [Hx He]]]. split; [assumption|]. exists e. split; [|apply is_exit_b_spec; assumption].
      apply (reach_avoiding y a r Hr). assumption.
  Qed.

  Lemma succs_b_In b s : In s (succs_b g b) <-> CtlDep.edge g b s.
  Proof.
    unfold succs_b, edge. rewrite in_flat_map. split.
    - intros [blk [Hblk H]]. destruct (N.eqb (b_index blk) b) eqn:E; [|destruct H]. apply N.eqb_eq in E.
      exists blk. repeat split; assumption.
    - intros [blk [Hblk [<- Hs]]]. exists blk. split; [assumption|]. rewrite N.eqb_refl. assumption.
  Qed.

  (* the decidable form decides control dependence *)
  Theorem ctl_dependent_b_spec b y : ctl_dependent_b g b y = true <-> ctl_dependent g b y.
  Proof.
    unfold ctl_dependent_b, ctl_dependent, postdom. rewrite andb_true_iff, orb_true_iff, existsb_exists, N.eqb_eq, escapes_b_spec.
    split.
    - intros [[s [Hs Hn]] H]. split; [|assumption]. exists s. split; [apply succs_b_In; assumption|].
      intro Hesc. apply escapes_b_spec in Hesc. rewrite Hesc in Hn. discriminate.
    - intros [[s [Hs Hn]] H]. split; [|assumption]. exists s. split; [apply succs_b_In; assumption|].
      apply negb_true_iff. destruct (escapes_b g y s) eqn:E; [|reflexivity]. exfalso. apply Hn. apply escapes_b_spec. assumption.
  Qed.

  (* the evaluated hypothesis implies the closure under implicit flows *)
  Theorem ctl_closed_b_sound B : ctl_closed_b g B = true -> ctl_closed g B.
  Proof.
    intros H a x Ha (blk & m & c & t & f & yb & Hblk & Hs & Hv & Hr & Hyb & Hctl & Hx).
    unfold ctl_closed_b in H. rewrite forallb_forall in H. specialize (H blk Hblk).
    rewrite forallb_forall in H. specialize (H _ Hs). cbn beta iota in H. rewrite Hv in H.
    apply orb_true_iff in H. destruct H as [H|H].
    - exfalso. apply negb_true_iff in H.
      assert (existsb (fun r => vmem r B) (uses_names (expr_uses (c_decls g) c)) = true); [|congruence].
      apply existsb_exists. exists a. split; [assumption | apply vmem_In; assumption].
    - rewrite forallb_forall in H. specialize (H yb Hyb). apply orb_true_iff in H. destruct H as [H|H].
      + apply negb_true_iff in H. apply ctl_dependent_b_spec in Hctl. congruence.
      + rewrite forallb_forall in H. apply vmem_In. apply H. assumption.
  Qed.
End CtlProofs.

(* the names the mirror finds tainted by an input/output signal are closed under information flow *)
Lemma idep_closed g br es :
  exported_sinks g (t_edges (run_taint_analysis g br)) = Ok es ->
  ctl_closed_b g es = true ->
  forall a b, In a es -> idep g a b -> In b es.
Proof.
  intros Hes Hctl a b Ha [Hd|Hc].
  - eapply ddep_closed; eassumption.
  - eapply ctl_closed_b_sound; eassumption.
Qed.

(* CS0008 with implicit flows: "a constraint mentions an input or output signal" = it uses a name that an
   input/output signal reaches by data OR control dependence. Hypothesis on the branch regions, evaluated on
   every dumped graph: the tainted set is closed under control dependence. *)
Theorem noninterference_with_implicit_flows
  (V : Type) (sem_num : Z -> V) (sem_infix : infix_op -> V -> V -> V) (sem_prefix : prefix_op -> V -> V)
  (sem_switch : V -> V -> V -> V) (sem_call : ident -> list V -> V) (sem_array : list V -> V)
  (sem_access : V -> list (access V) -> V) (sem_update : V -> list (access V) -> V -> V)
  (sem_phi : list pcT -> list (vname * V) -> V) (sem_undef : V) (truthy : V -> bool)
  (g : cfg) (br : branches) (ment : stmt -> bool) (res : result) (f : finding) (es : list vname) :
  exported_sinks g (t_edges (run_taint_analysis g br)) = Ok es ->
  ctl_closed_b g es = true ->
  ment_sound_by g (idep g) ment ->
  exported_targets_declared g = true ->
  run_side_effect_analysis g br = Ok res ->
  In f (r_findings res) ->
  f_kind f = FVarNoSideEffect \/ f_kind f = FParamNoSideEffect ->
  noninterference vname V pcT vname_eq_dec
    (ssa_prog V sem_num sem_infix sem_prefix sem_switch sem_call sem_array sem_access sem_update sem_phi
              sem_undef truthy g ment) (f_var f).
Proof.
  intros Hes Hctl Hment. apply noninterference_of_claims_by with (dep := idep g); [|exact Hment].
  intros es' Hes'. rewrite Hes in Hes'. injection Hes' as <-. eapply idep_closed; eassumption.
Qed.

(* a region that misses a control-dependent block whose write is tainted by nothing else is detected:
   ctl_closed_b is then false (contrapositive of completeness, stated positively) *)
Theorem ctl_closed_b_complete g B : ctl_closed g B -> ctl_closed_b g B = true.
Proof.
  intro H. unfold ctl_closed_b. apply forallb_forall. intros blk Hblk. apply forallb_forall. intros s Hs.
  destruct s as [m names t dims|m c t f|m e|m v op rhe sv sty|m l r|m args|m e]; try reflexivity.
  destruct (expr_val c) eqn:Hv; [reflexivity|].
  destruct (existsb (fun r => vmem r B) (uses_names (expr_uses (c_decls g) c))) eqn:E; [|reflexivity].
  cbn [negb orb]. apply existsb_exists in E. destruct E as [a [Ha Hm]]. apply vmem_In in Hm.
  apply forallb_forall. intros yb Hyb.
  destruct (ctl_dependent_b g (b_index blk) (b_index yb)) eqn:Hc; [|reflexivity]. cbn [negb orb].
  apply forallb_forall. intros x Hx. apply vmem_In. apply (H a x Hm).
  exists blk, m, c, t, f, yb.
  split; [assumption|]. split; [assumption|]. split; [assumption|]. split; [assumption|]. split; [assumption|].
  split; [apply ctl_dependent_b_spec; assumption | assumption].
Qed.
