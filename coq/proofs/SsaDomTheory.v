(* Elementary theory of path-based dominance on Ir.cfg (Spec.SsaDomSpec), as far as
   the correctness proof of the SSA construction needs it: dominance is reflexive,
   transitive and (on reachable blocks) antisymmetric; the immediate dominator of a
   block dominates each of its predecessors; only the entry dominates the entry. *)
From Coq Require Import ZArith NArith List Bool Lia Arith.
Require Import Model.Base Model.Ir Spec.SsaDomSpec.
Import ListNotations.

Section Dom.
Variable c : cfg.
Notation n := (length (c_blocks c)).

Lemma cedge_lt a b : cedge c a b -> a < n.
Proof. intros (x & Hx & _). apply nth_error_Some. congruence. Qed.

Lemma cpath_first a b l : cpath c a b l -> exists tl, l = a :: tl.
Proof. intros H. destruct H; eauto. Qed.

Lemma cpath_src_lt a b l : cpath c a b l -> a < n.
Proof. intros H. destruct H as [a Ha|a m b l He _]; [exact Ha|eapply cedge_lt; exact He]. Qed.

Lemma cpath_in_dst a b l : cpath c a b l -> In b l.
Proof. induction 1; [left; reflexivity|right; assumption]. Qed.

Lemma cpath_dst_lt a b l : cpath c a b l -> b < n.
Proof. induction 1; assumption. Qed.

Lemma cpath_snoc a p s l : cpath c a p l -> cedge c p s -> s < n -> cpath c a s (l ++ [s]).
Proof.
  intros H He Hs. induction H as [a Ha|a m b l Hm _ IH]; simpl.
  - apply cpath_cons with (m := s); [exact He|apply cpath_one; exact Hs].
  - apply cpath_cons with (m := m); [exact Hm|apply IH; exact He].
Qed.

Lemma cpath_split : forall l1 a b z l2, cpath c a b (l1 ++ z :: l2) -> cpath c a z (l1 ++ [z]).
Proof.
  induction l1 as [|x l1 IH]; intros a b z l2 H; simpl in *.
  - destruct (cpath_first _ _ _ H) as (tl & E). inversion E; subst z.
    apply cpath_one. eapply cpath_src_lt. exact H.
  - inversion H as [a0 Ha E1 E2|a0 m b0 l He Hp E1 E2]; subst.
    + destruct l1; discriminate.
    + apply cpath_cons with (m := m); [exact He|]. eapply IH. exact Hp.
Qed.

Lemma cdom_refl j : cdom c j j.
Proof. intros l H. eapply cpath_in_dst. exact H. Qed.

Lemma cdom_trans i j k : cdom c i j -> cdom c j k -> cdom c i k.
Proof.
  intros Hij Hjk l H. pose proof (Hjk l H) as Hj. apply in_split in Hj. destruct Hj as (l1 & l2 & ->).
  pose proof (cpath_split _ _ _ _ _ H) as Hp. specialize (Hij _ Hp).
  apply in_app_or in Hij. apply in_or_app. destruct Hij as [Hi|[<-|[]]]; [left; exact Hi|right; left; reflexivity].
Qed.

Lemma cdom_antisym_aux : forall m l a d, length l <= m -> cpath c 0 d l -> cdom c a d -> cdom c d a -> a <> d -> False.
Proof.
  induction m as [|m IH]; intros l a d Hl Hp Had Hda Hne.
  - destruct (cpath_first _ _ _ Hp) as (tl & ->). simpl in Hl. lia.
  - pose proof (Had l Hp) as Ha. apply in_split in Ha. destruct Ha as (l1 & l2 & ->).
    pose proof (cpath_split _ _ _ _ _ Hp) as Hpa.
    pose proof (Hda _ Hpa) as Hd. apply in_app_or in Hd. destruct Hd as [Hd|[Hd|[]]]; [|congruence].
    apply in_split in Hd. destruct Hd as (l3 & l4 & ->).
    rewrite <- app_assoc in Hpa. simpl in Hpa.
    pose proof (cpath_split _ _ _ _ _ Hpa) as Hpd.
    apply (IH (l3 ++ [d]) a d); [|exact Hpd|exact Had|exact Hda|exact Hne].
    repeat (rewrite ?app_length in *; simpl in * ). lia.
Qed.

Lemma cdom_antisym a d : (exists l, cpath c 0 d l) -> cdom c a d -> cdom c d a -> a = d.
Proof.
  intros (l & Hp) Had Hda. destruct (Nat.eq_dec a d) as [E|Hne]; [exact E|exfalso].
  eapply (cdom_antisym_aux (length l) l a d); eauto.
Qed.

Lemma cdom_entry d : 0 < n -> cdom c d 0 -> d = 0.
Proof.
  intros Hn H. specialize (H [0] (cpath_one c 0 Hn)). destruct H as [H|[]]. symmetry. exact H.
Qed.

(* the immediate dominator of s dominates every predecessor of s *)
Lemma cidom_dom_pred d s p : cidom c d s -> cedge c p s -> s < n -> cdom c d p.
Proof.
  intros [[Hd Hne] _] He Hs l Hp.
  pose proof (cpath_snoc _ _ _ _ Hp He Hs) as Hps. specialize (Hd _ Hps).
  apply in_app_or in Hd. destruct Hd as [Hd|[Hd|[]]]; [exact Hd|congruence].
Qed.

Lemma cidom_dom d s : cidom c d s -> cdom c d s.
Proof. intros [[H _] _]. exact H. Qed.
End Dom.
