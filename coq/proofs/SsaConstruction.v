(* C14: universal theorems about the SSA construction mirror Model.Ssa.into_ssa
   (compared with the real `into_ssa` on every run).  For ALL frontier tables,
   ALL children tables and ALL input graphs:

     into_ssa_is_erasure      the output is the input with versions added and phi
                              statements prepended (SsaErase.erase_eqb accepts it)
     into_ssa_phis_at_head    phi statements stand only at the head of blocks
     into_ssa_unique_defs     every versioned local has at most one defining
                              statement (versions come from a per-key counter
                              that only grows)
     into_ssa_mixed_keys_ok   no key is assigned both with and without a version
                              (when the children table covers every block and the
                              parameters are declared locals)

   The hypotheses are decidable syntactic conditions on the graph BEFORE the
   conversion, stated next to each theorem. *)
From Coq Require Import ZArith NArith List Bool Lia Arith.
Require Import Model.Base Model.Ir Model.SsaCheck Model.SsaErase Model.Ssa.
Require Export Model.SsaPre.
Require Import Proofs.IrInd Proofs.IrFacts Proofs.SsaNoPanic.
Import ListNotations.

(* ------------------------------------------------------------------------ *)
(* tactics, equations for the nested loops                                   *)
(* ------------------------------------------------------------------------ *)

(* H : sbind m f = SOk _  where m returns a pair *)
Ltac sb2 H :=
  match type of H with
  | sbind ?m _ = SOk _ =>
      let x := fresh "x" in let e := fresh "env" in let E := fresh "E" in
      destruct m as [[x e]| | |] eqn:E; cbn [sbind] in H; [|discriminate H..]
  end.
(* ... where m returns a single value *)
Ltac sb1 H :=
  match type of H with
  | sbind ?m _ = SOk _ =>
      let x := fresh "x" in let E := fresh "E" in
      destruct m as [x| | |] eqn:E; cbn [sbind] in H; [|discriminate H..]
  end.

Fixpoint accs_sim (xs ys : list (access expr)) : bool :=
  match xs, ys with
  | [], [] => true
  | AIdx x :: tx, AIdx y :: ty => expr_sim x y && accs_sim tx ty
  | AComp n :: tx, AComp n' :: ty => ident_eqb n n' && accs_sim tx ty
  | _, _ => false
  end.

Lemma expr_sim_call n args k n' args' k' :
  expr_sim (ECall n args k) (ECall n' args' k') = ident_eqb n n' && exprs_sim args args'.
Proof. reflexivity. Qed.
Lemma expr_sim_array vs k vs' k' : expr_sim (EArray vs k) (EArray vs' k') = exprs_sim vs vs'.
Proof. reflexivity. Qed.
Lemma expr_sim_access v acc k v' acc' k' :
  expr_sim (EAccess v acc k) (EAccess v' acc' k') = vname_sim v v' && accs_sim acc acc'.
Proof. reflexivity. Qed.
Lemma expr_sim_update v acc rhe k v' acc' rhe' k' :
  expr_sim (EUpdate v acc rhe k) (EUpdate v' acc' rhe' k') =
  vname_sim v v' && accs_sim acc acc' && expr_sim rhe rhe'.
Proof. reflexivity. Qed.

Lemma ssa_expr_access decls env v acc k :
  ssa_expr decls env (EAccess v acc k) =
  (a <~ ssa_acc decls env acc ;; let '(acc', env1) := a in
   if is_local_in decls v then (v' <~ rename_read decls env1 v ;; SOk (EAccess v' acc' k, env1))
   else SOk (EAccess v acc' k, env1)).
Proof. reflexivity. Qed.
Lemma ssa_expr_update decls env v acc rhe k :
  ssa_expr decls env (EUpdate v acc rhe k) =
  (a <~ ssa_expr decls env rhe ;; let '(rhe', env1) := a in
   b <~ ssa_acc decls env1 acc ;; let '(acc', env2) := b in
   if is_local_in decls v then
     match vn_version v with
     | Some _ => SPanic
     | None =>
       match cur_version env2 v with
       | Some n => SOk (EUpdate (with_version v n) acc' rhe' k, env2)
       | None => let '(n, env3) := next_version env2 v in SOk (EUpdate (with_version v n) acc' rhe' k, env3)
       end
     end
   else SOk (EUpdate v acc' rhe' k, env2)).
Proof. reflexivity. Qed.

Lemma ssa_list_exprs decls : forall es env, ssa_list decls env es = ssa_exprs decls env es.
Proof. reflexivity. Qed.

(* ------------------------------------------------------------------------ *)
(* T1, expressions: renaming keeps similarity                                *)
(* ------------------------------------------------------------------------ *)

Lemma vname_sim_with_version a b n : vname_sim a (with_version b n) = vname_sim a b.
Proof. reflexivity. Qed.
Lemma vname_sim_without_version a b : vname_sim a (without_version b) = vname_sim a b.
Proof. reflexivity. Qed.

Lemma rename_read_sim decls env a v v' :
  vname_sim a v = true -> rename_read decls env v = SOk v' -> vname_sim a v' = true.
Proof.
  intros Hs H. unfold rename_read in H. destruct (vn_version v); [discriminate|].
  destruct (is_local_in decls v).
  - destruct (cur_version env v); [|discriminate]. inversion H. exact Hs.
  - inversion H. subst. exact Hs.
Qed.

Section ExprSim.
Variable decls : list (vname * vtype).

Definition keeps_sim (a : expr) : Prop :=
  forall b env b' env', expr_sim a b = true -> ssa_expr decls env b = SOk (b', env') -> expr_sim a b' = true.

Lemma ssa_list_sim : forall args, Forall keeps_sim args ->
  forall args' env r env', exprs_sim args args' = true -> ssa_list decls env args' = SOk (r, env') ->
  exprs_sim args r = true.
Proof.
  induction 1 as [|x tl Hx _ IH]; intros [|y ty] env r env' Hs H; cbn [exprs_sim] in Hs; try discriminate.
  - simpl in H. inversion H. reflexivity.
  - apply andb_true_iff in Hs as [H1 H2]. cbn [ssa_list] in H.
    sb2 H. sb2 H. inversion H; subst. cbn [exprs_sim].
    rewrite (Hx _ _ _ _ H1 E), (IH _ _ _ _ H2 E0). reflexivity.
Qed.

Lemma ssa_acc_sim : forall acc, Forall keeps_sim (acc_exprs acc) ->
  forall acc' env r env', accs_sim acc acc' = true -> ssa_acc decls env acc' = SOk (r, env') ->
  accs_sim acc r = true.
Proof.
  induction acc as [|[x|n] tl IH]; intros HF [|[y|n'] ty] env r env' Hs H; cbn [accs_sim] in Hs; try discriminate.
  - simpl in H. inversion H. reflexivity.
  - cbn [acc_exprs flat_map app] in HF. inversion HF as [|? ? Hx Htl]; subst.
    apply andb_true_iff in Hs as [H1 H2]. cbn [ssa_acc] in H.
    sb2 H. sb2 H. inversion H; subst. cbn [accs_sim].
    rewrite (Hx _ _ _ _ H1 E), (IH Htl _ _ _ _ H2 E0). reflexivity.
  - cbn [acc_exprs flat_map app] in HF.
    apply andb_true_iff in Hs as [H1 H2]. cbn [ssa_acc] in H.
    sb2 H. inversion H; subst. cbn [accs_sim].
    rewrite H1, (IH HF _ _ _ _ H2 E). reflexivity.
Qed.

Lemma ssa_expr_sim : forall a, keeps_sim a.
Proof.
  induction a as [z k|v k|op l r k IHl IHr|op x k IHx|c t f k IHc IHt IHf|n args k IH|vs k IH
                 |v acc k IH|v acc rhe k IH IHr|args k] using expr_ind';
    intros b env b' env' Hs H.
  - destruct b; try discriminate Hs. cbn [ssa_expr] in H. inversion H; subst. exact Hs.
  - destruct b as [|v' k'| | | | | | | |]; try discriminate Hs. cbn [ssa_expr] in H.
    destruct (is_local_in decls v').
    + sb1 H. inversion H; subst. cbn [expr_sim] in *. eapply rename_read_sim; eassumption.
    + inversion H; subst. exact Hs.
  - destruct b as [| |op' l' r' k'| | | | | | |]; try discriminate Hs. cbn [expr_sim] in Hs.
    apply andb_true_iff in Hs as [Hs H2]. apply andb_true_iff in Hs as [H0 H1].
    cbn [ssa_expr] in H. sb2 H. sb2 H. inversion H; subst. cbn [expr_sim].
    rewrite H0, (IHl _ _ _ _ H1 E), (IHr _ _ _ _ H2 E0). reflexivity.
  - destruct b as [| | |op' x' k'| | | | | |]; try discriminate Hs. cbn [expr_sim] in Hs.
    apply andb_true_iff in Hs as [H0 H1].
    cbn [ssa_expr] in H. sb2 H. inversion H; subst. cbn [expr_sim].
    rewrite H0, (IHx _ _ _ _ H1 E). reflexivity.
  - destruct b as [| | | |c' t' f' k'| | | | |]; try discriminate Hs. cbn [expr_sim] in Hs.
    apply andb_true_iff in Hs as [Hs H3]. apply andb_true_iff in Hs as [H1 H2].
    cbn [ssa_expr] in H. sb2 H. sb2 H. sb2 H. inversion H; subst. cbn [expr_sim].
    rewrite (IHc _ _ _ _ H1 E), (IHt _ _ _ _ H2 E0), (IHf _ _ _ _ H3 E1). reflexivity.
  - destruct b as [| | | | |n' args' k'| | | |]; try discriminate Hs. rewrite expr_sim_call in Hs.
    apply andb_true_iff in Hs as [H0 H1]. rewrite ssa_expr_call in H. sb2 H. inversion H; subst.
    rewrite expr_sim_call, H0, (ssa_list_sim args IH _ _ _ _ H1 E). reflexivity.
  - destruct b as [| | | | | |vs' k'| | |]; try discriminate Hs. rewrite expr_sim_array in Hs.
    rewrite ssa_expr_array in H. sb2 H. inversion H; subst.
    rewrite expr_sim_array. exact (ssa_list_sim vs IH _ _ _ _ Hs E).
  - destruct b as [| | | | | | |v' acc' k'| |]; try discriminate Hs. rewrite expr_sim_access in Hs.
    apply andb_true_iff in Hs as [H0 H1]. rewrite ssa_expr_access in H. sb2 H.
    pose proof (ssa_acc_sim acc IH _ _ _ _ H1 E) as Ha.
    destruct (is_local_in decls v').
    + sb1 H. inversion H; subst. rewrite expr_sim_access, Ha, (rename_read_sim _ _ _ _ _ H0 E0). reflexivity.
    + inversion H; subst. rewrite expr_sim_access, Ha, H0. reflexivity.
  - destruct b as [| | | | | | | |v' acc' rhe' k'|]; try discriminate Hs. rewrite expr_sim_update in Hs.
    apply andb_true_iff in Hs as [Hs H2]. apply andb_true_iff in Hs as [H0 H1].
    rewrite ssa_expr_update in H. sb2 H. sb2 H.
    pose proof (ssa_acc_sim acc IH _ _ _ _ H1 E0) as Ha.
    pose proof (IHr _ _ _ _ H2 E) as Hr.
    destruct (is_local_in decls v').
    + destruct (vn_version v'); [discriminate|].
      destruct (cur_version env1 v').
      * inversion H; subst. rewrite expr_sim_update, vname_sim_with_version, H0, Ha, Hr. reflexivity.
      * destruct (next_version env1 v') as [n env3]. inversion H; subst.
        rewrite expr_sim_update, vname_sim_with_version, H0, Ha, Hr. reflexivity.
    + inversion H; subst. rewrite expr_sim_update, H0, Ha, Hr. reflexivity.
  - destruct b; discriminate Hs.
Qed.

Lemma ssa_exprs_sim : forall xs ys env r env',
  exprs_sim xs ys = true -> ssa_exprs decls env ys = SOk (r, env') -> exprs_sim xs r = true.
Proof.
  intros xs ys env r env' Hs H. rewrite <- ssa_list_exprs in H.
  eapply ssa_list_sim; [|exact Hs|exact H]. apply Forall_forall. intros a _. apply ssa_expr_sim.
Qed.

Lemma ssa_logargs_sim : forall xs ys env r env',
  logargs_sim xs ys = true -> ssa_logargs decls env ys = SOk (r, env') -> logargs_sim xs r = true.
Proof.
  induction xs as [|[|x] tx IH]; intros [|[|y] ty] env r env' Hs H; cbn [logargs_sim] in Hs; try discriminate.
  - simpl in H. inversion H. reflexivity.
  - cbn [ssa_logargs] in H. sb2 H. inversion H; subst. cbn [logargs_sim]. eapply IH; eassumption.
  - apply andb_true_iff in Hs as [H1 H2]. cbn [ssa_logargs] in H. sb2 H. sb2 H. inversion H; subst.
    cbn [logargs_sim]. rewrite (ssa_expr_sim _ _ _ _ _ H1 E), (IH _ _ _ _ H2 E0). reflexivity.
Qed.

(* statements *)
Lemma ssa_stmt_sim a s env s' env' :
  stmt_sim a s = true -> ssa_stmt decls env s = SOk (s', env') -> stmt_sim a s' = true.
Proof.
  intros Hs H.
  destruct s as [m names t dims|m c t f|m e|m v op rhe sval stype|m l r|m args|m e];
    destruct a as [m0 names0 t0 dims0|m0 c0 t0 f0|m0 e0|m0 v0 op0 rhe0 sval0 stype0|m0 l0 r0|m0 args0|m0 e0];
    try discriminate Hs; cbn [stmt_sim] in Hs; cbn [ssa_stmt] in H.
  - sb2 H. inversion H; subst. cbn [stmt_sim].
    rewrite !andb_true_iff in Hs. destruct Hs as (((Hm & Hn) & Ht) & Hd).
    rewrite Hm, Hn, Ht, (ssa_exprs_sim _ _ _ _ _ Hd E). reflexivity.
  - sb2 H. inversion H; subst. cbn [stmt_sim].
    rewrite !andb_true_iff in Hs. destruct Hs as (((Hm & Hc) & Ht) & Hf).
    rewrite Hm, (ssa_expr_sim _ _ _ _ _ Hc E), Ht, Hf. reflexivity.
  - sb2 H. inversion H; subst. cbn [stmt_sim].
    rewrite !andb_true_iff in Hs. destruct Hs as (Hm & He).
    rewrite Hm, (ssa_expr_sim _ _ _ _ _ He E). reflexivity.
  - destruct (vn_version v); [discriminate|]. sb2 H.
    rewrite !andb_true_iff in Hs. destruct Hs as (((Hm & Hv) & Ho) & He).
    pose proof (ssa_expr_sim _ _ _ _ _ He E) as Hr.
    destruct (is_local_in decls v).
    + destruct (next_version env0 v) as [n env2]. inversion H; subst. cbn [stmt_sim].
      rewrite vname_sim_with_version, Hm, Hv, Ho, Hr. reflexivity.
    + inversion H; subst. cbn [stmt_sim]. rewrite Hm, Hv, Ho, Hr. reflexivity.
  - sb2 H. sb2 H. inversion H; subst. cbn [stmt_sim].
    rewrite !andb_true_iff in Hs. destruct Hs as ((Hm & Hl) & Hr).
    rewrite Hm, (ssa_expr_sim _ _ _ _ _ Hl E), (ssa_expr_sim _ _ _ _ _ Hr E0). reflexivity.
  - sb2 H. inversion H; subst. cbn [stmt_sim].
    rewrite !andb_true_iff in Hs. destruct Hs as (Hm & Ha).
    rewrite Hm, (ssa_logargs_sim _ _ _ _ _ Ha E). reflexivity.
  - sb2 H. inversion H; subst. cbn [stmt_sim].
    rewrite !andb_true_iff in Hs. destruct Hs as (Hm & He).
    rewrite Hm, (ssa_expr_sim _ _ _ _ _ He E). reflexivity.
Qed.

Lemma ssa_stmts_sim : forall xs ys env r env',
  stmts_sim xs ys = true -> ssa_stmts decls env ys = SOk (r, env') -> stmts_sim xs r = true.
Proof.
  induction xs as [|x tx IH]; intros [|y ty] env r env' Hs H; cbn [stmts_sim] in Hs; try discriminate.
  - simpl in H. inversion H. reflexivity.
  - apply andb_true_iff in Hs as [H1 H2]. cbn [ssa_stmts] in H. sb2 H. sb2 H. inversion H; subst.
    cbn [stmts_sim]. rewrite (ssa_stmt_sim _ _ _ _ _ H1 E), (IH _ _ _ _ H2 E0). reflexivity.
Qed.

End ExprSim.

(* ------------------------------------------------------------------------ *)
(* T1, blocks: the invariant of the construction                             *)
(* ------------------------------------------------------------------------ *)

Definition all_phis (P : list stmt) : Prop := Forall (fun s => is_phi_stmt s = true) P.

(* block b is: the edges of b0, some phi statements, then statements similar to those of b0 *)
Definition erases_to (b0 b : block) : Prop :=
  b_preds b = b_preds b0 /\ b_succs b = b_succs b0 /\
  exists P B, b_stmts b = P ++ B /\ all_phis P /\ stmts_sim (b_stmts b0) B = true.

Definition erase_inv (bs0 bs : list block) : Prop := Forall2 erases_to bs0 bs.

Lemma stmt_sim_not_phi a s : stmt_sim a s = true -> is_phi_stmt s = false.
Proof.
  destruct s as [| | |m v op rhe sval stype| | |]; try reflexivity.
  destruct rhe; try reflexivity.
  destruct a as [| | |m0 v0 op0 rhe0 sval0 stype0| | |]; try discriminate. cbn [stmt_sim].
  rewrite !andb_true_iff. intros (_ & He). destruct rhe0; discriminate He.
Qed.

Lemma stmts_sim_no_phi : forall xs B, stmts_sim xs B = true -> Forall (fun s => is_phi_stmt s = false) B.
Proof.
  induction xs as [|x tx IH]; intros [|y ty] H; cbn [stmts_sim] in H; try discriminate; constructor.
  - apply andb_true_iff in H as [H _]. eapply stmt_sim_not_phi. exact H.
  - apply andb_true_iff in H as [_ H]. apply IH. exact H.
Qed.

Lemma leading_phis_split : forall P B, all_phis P -> (match B with [] => True | s :: _ => is_phi_stmt s = false end) ->
  leading_phis (P ++ B) = (P, B).
Proof.
  induction P as [|p tl IH]; intros B HP HB; simpl.
  - destruct B as [|s tb]; [reflexivity|]. simpl. rewrite HB. reflexivity.
  - inversion HP as [|? ? Hp Htl]; subst. rewrite Hp, (IH B Htl HB). reflexivity.
Qed.

Lemma head_no_phi xs B : stmts_sim xs B = true -> match B with [] => True | s :: _ => is_phi_stmt s = false end.
Proof. intros H. apply stmts_sim_no_phi in H. destruct B; [exact I|]. inversion H. assumption. Qed.

Lemma erases_to_body b0 b : erases_to b0 b -> stmts_sim (b_stmts b0) (body_of b) = true.
Proof.
  intros (_ & _ & P & B & Hb & HP & Hs). unfold body_of. rewrite Hb, (leading_phis_split P B HP (head_no_phi _ _ Hs)).
  exact Hs.
Qed.

Lemma forall2_update_nth {A B} (R : A -> B -> Prop) (f : B -> B) : forall l0 l i,
  Forall2 R l0 l ->
  (forall x0 x, nth_error l0 i = Some x0 -> nth_error l i = Some x -> R x0 x -> R x0 (f x)) ->
  Forall2 R l0 (update_nth l i f).
Proof.
  intros l0 l i H. revert i. induction H as [|x0 x t0 t Hx Ht IH]; intros [|i] Hf; simpl; constructor; auto.
Qed.

Lemma forall2_nth {A B} (R : A -> B -> Prop) : forall l0 l i x, Forall2 R l0 l -> nth_error l i = Some x ->
  exists x0, nth_error l0 i = Some x0 /\ R x0 x.
Proof.
  intros l0 l i x H. revert i. induction H as [|x0 y t0 t Hx Ht IH]; intros [|i] Hi; simpl in *; try discriminate.
  - inversion Hi; subst. eauto.
  - apply IH. exact Hi.
Qed.

Lemma forall2_in {A B} (R : A -> B -> Prop) : forall l0 l x, Forall2 R l0 l -> In x l -> exists x0, In x0 l0 /\ R x0 x.
Proof.
  intros l0 l x H. induction H as [|x0 y t0 t Hx Ht IH]; intros Hi; simpl in *; [contradiction|].
  destruct Hi as [->|Hi]; [eauto|]. destruct (IH Hi) as (z & Hz & Hr). eauto.
Qed.

(* ---- phi insertion ---- *)
Lemma add_phis_erases b0 : forall vars b n, erases_to b0 b -> erases_to b0 (fst (add_phis vars b n)).
Proof.
  induction vars as [|v tl IH]; intros b n H; simpl; [exact H|].
  destruct (existsb (is_phi_for v) (b_stmts b)); apply IH; [exact H|].
  destruct H as (Hp & Hsu & P & B & Hb & HP & Hs). split; [exact Hp|]. split; [exact Hsu|].
  exists (phi_stmt_for v :: P), B. cbn [set_stmts b_stmts]. rewrite Hb. split; [reflexivity|]. split; [|exact Hs].
  constructor; [reflexivity|exact HP].
Qed.

Lemma process_frontier_erases bs0 vars : forall fr bs work,
  erase_inv bs0 bs -> erase_inv bs0 (fst (process_frontier vars fr bs work)).
Proof.
  induction fr as [|f tl IH]; intros bs work H; simpl; [exact H|].
  destruct (nth_error bs (N.to_nat f)) as [b|] eqn:E; [|apply IH; exact H].
  destruct (add_phis vars b 0) as [b' pushes] eqn:Ea. apply IH.
  apply forall2_update_nth; [exact H|]. intros x0 x _ Hx Hr. rewrite E in Hx. inversion Hx; subst x.
  change b' with (fst (b', pushes)). rewrite <- Ea. apply add_phis_erases. exact Hr.
Qed.

Lemma insert_phis_erases bs0 frontier : forall fuel bs work bs',
  insert_phis fuel frontier bs work = SOk bs' -> erase_inv bs0 bs -> erase_inv bs0 bs'.
Proof.
  induction fuel as [|fuel IH]; intros bs work bs' H Hi.
  - destruct work; simpl in H; [|discriminate]. inversion H; subst. exact Hi.
  - destruct work as [|cur rest]; simpl in H; [inversion H; subst; exact Hi|].
    destruct (nth_error bs cur) as [b|]; [|discriminate].
    destruct (vars_written b) as [|v vs] eqn:Ev; [eapply IH; eassumption|].
    destruct (process_frontier (v :: vs) (nth cur frontier []) bs rest) as [bs1 work1] eqn:Ep.
    eapply IH; [exact H|]. change bs1 with (fst (bs1, work1)). rewrite <- Ep. apply process_frontier_erases. exact Hi.
Qed.

(* ---- renaming ---- *)
Lemma ssa_stmt_phi decls env s s' env' :
  ssa_stmt decls env s = SOk (s', env') -> is_phi_stmt s = true -> is_phi_stmt s' = true.
Proof.
  intros H Hp. destruct s as [| | |m v op rhe sval stype| | |]; try discriminate Hp.
  destruct rhe; try discriminate Hp. cbn [ssa_stmt ssa_expr sbind] in H.
  destruct (vn_version v); [discriminate|].
  destruct (is_local_in decls v).
  - destruct (next_version env v). inversion H. reflexivity.
  - inversion H. reflexivity.
Qed.

Lemma ssa_stmts_app decls : forall P B env r env',
  ssa_stmts decls env (P ++ B) = SOk (r, env') ->
  exists P' B' env1, r = P' ++ B' /\ ssa_stmts decls env P = SOk (P', env1) /\ ssa_stmts decls env1 B = SOk (B', env').
Proof.
  induction P as [|p tl IH]; intros B env r env' H; simpl in H.
  - exists [], r, env. auto.
  - sb2 H. sb2 H. inversion H; subst. destruct (IH _ _ _ _ E0) as (P' & B' & env1 & -> & H1 & H2).
    exists (x :: P'), B', env1. split; [reflexivity|]. split; [|exact H2].
    cbn [ssa_stmts]. rewrite E. cbn [sbind]. rewrite H1. reflexivity.
Qed.

Lemma ssa_stmts_phis decls : forall P env P' env',
  ssa_stmts decls env P = SOk (P', env') -> all_phis P -> all_phis P'.
Proof.
  induction P as [|p tl IH]; intros env P' env' H HP; simpl in H.
  - inversion H. constructor.
  - sb2 H. sb2 H. inversion H; subst. inversion HP as [|? ? Hp Htl]; subst. constructor.
    + eapply ssa_stmt_phi; eassumption.
    + eapply IH; eassumption.
Qed.

Lemma ensure_phi_arg_phi env s : is_phi_stmt (ensure_phi_arg env s) = is_phi_stmt s.
Proof.
  destruct s as [| | |m v op rhe sval stype| | |]; try reflexivity. destruct rhe; try reflexivity.
  unfold ensure_phi_arg. destruct (cur_version env v);
    match goal with |- context [if ?c then _ else _] => destruct c end; reflexivity.
Qed.

Lemma update_phis_split env : forall P B, all_phis P ->
  (match B with [] => True | s :: _ => is_phi_stmt s = false end) ->
  update_phis env (P ++ B) = map (ensure_phi_arg env) P ++ B.
Proof.
  induction P as [|p tl IH]; intros B HP HB; simpl.
  - destruct B as [|s tb]; [reflexivity|]. simpl. rewrite HB. reflexivity.
  - inversion HP as [|? ? Hp Htl]; subst. rewrite Hp, (IH B Htl HB). reflexivity.
Qed.

Lemma update_succ_phis_erases bs0 env : forall succs bs,
  erase_inv bs0 bs -> erase_inv bs0 (update_succ_phis env succs bs).
Proof.
  induction succs as [|s tl IH]; intros bs H; simpl; [exact H|].
  apply IH. apply forall2_update_nth; [exact H|]. intros x0 x _ _ (Hp & Hsu & P & B & Hb & HP & Hs).
  split; [exact Hp|]. split; [exact Hsu|]. exists (map (ensure_phi_arg env) P), B. cbn [set_stmts b_stmts].
  rewrite Hb, (update_phis_split env P B HP (head_no_phi _ _ Hs)). split; [reflexivity|]. split; [|exact Hs].
  unfold all_phis in *. rewrite Forall_forall in *. intros y Hy. apply in_map_iff in Hy. destruct Hy as (z & <- & Hz).
  rewrite ensure_phi_arg_phi. apply HP. exact Hz.
Qed.

Lemma rename_tree_erases bs0 decls children : forall fuel cur bs env bs' env',
  rename_tree fuel decls children cur bs env = SOk (bs', env') -> erase_inv bs0 bs -> erase_inv bs0 bs'.
Proof.
  induction fuel as [|fuel IH]; intros cur bs env bs' env' H Hi; [discriminate H|].
  rewrite rename_tree_unfold in H.
  destruct (nth_error bs cur) as [b|] eqn:Eb; [|discriminate].
  sb2 H. rename x into ss1. rename env0 into env1.
  assert (K : forall kids l e l' e',
             rename_kids fuel decls children kids l e = SOk (l', e') -> erase_inv bs0 l -> erase_inv bs0 l').
  { induction kids as [|k tl IHk]; intros l e l' e' Hk Hl; simpl in Hk.
    - inversion Hk; subst. exact Hl.
    - sb2 Hk. eapply IHk; [exact Hk|]. eapply IH; eassumption. }
  eapply K; [exact H|]. apply update_succ_phis_erases.
  apply forall2_update_nth; [exact Hi|]. intros x0 x _ Hx (Hp & Hsu & P & B & Hb & HP & Hs).
  rewrite Eb in Hx. inversion Hx; subst x. rewrite Hb in E.
  destruct (ssa_stmts_app _ _ _ _ _ _ E) as (P' & B' & e1 & -> & H1 & H2).
  split; [exact Hp|]. split; [exact Hsu|]. exists P', B'. split; [reflexivity|]. split.
  - eapply ssa_stmts_phis; eassumption.
  - eapply ssa_stmts_sim; eassumption.
Qed.

(* ---- declarations re-issued per version ---- *)
(* a declaration of a local declares one variable (all listed names have the key of the first) *)
Lemma versions_of_cons env v : exists n tl, versions_of env v = n :: tl.
Proof. unfold versions_of. destruct (vget (se_global env) (key_of v)); simpl; eauto. Qed.

Lemma vname_sim_refl a : vname_sim a a = true.
Proof. apply key_eqb_refl. Qed.
Lemma vname_sim_eq a b : vname_sim a b = true <-> key_of a = key_of b.
Proof. apply key_eqb_eq. Qed.

Lemma update_decl_stmt_sim env a s :
  decl_names_ok a = true -> stmt_sim a s = true -> stmt_sim a (update_decl_stmt env s) = true.
Proof.
  intros Hd Hs. destruct s as [m names t dims| | | | | |]; try exact Hs.
  destruct names as [|name rest]; [exact Hs|]. destruct t; try exact Hs.
  destruct a as [m0 names0 t0 dims0| | | | | |]; try discriminate Hs. cbn [stmt_sim update_decl_stmt] in *.
  rewrite !andb_true_iff in Hs. destruct Hs as (((Hm & Hn) & Ht) & Hdims).
  rewrite Hm, Ht, Hdims, !andb_true_r. cbn [andb].
  destruct t0; try discriminate Ht.
  unfold names_sim in Hn. apply andb_true_iff in Hn as [Hn1 Hn2].
  destruct names0 as [|n0 rest0].
  { cbn [forallb existsb] in Hn2. discriminate Hn2. }
  cbn [decl_names_ok] in Hd. rewrite forallb_forall in Hd.
  assert (K0 : forall x, In x (n0 :: rest0) -> key_of x = key_of n0).
  { intros x [<-|Hx]; [reflexivity|]. symmetry. apply vname_sim_eq. apply Hd. exact Hx. }
  assert (Kn : key_of name = key_of n0).
  { cbn [forallb] in Hn2. apply andb_true_iff in Hn2 as [Hn2 _]. apply existsb_exists in Hn2.
    destruct Hn2 as (x & Hx & Hxs). apply vname_sim_eq in Hxs. rewrite <- Hxs. apply K0. exact Hx. }
  destruct (versions_of_cons env name) as (v0 & vtl & Hv). rewrite Hv.
  unfold names_sim. apply andb_true_iff. split.
  - apply forallb_forall. intros x Hx. cbn [map existsb]. rewrite vname_sim_with_version.
    replace (vname_sim x name) with true; [reflexivity|]. symmetry. apply vname_sim_eq. rewrite Kn. apply K0. exact Hx.
  - apply forallb_forall. intros y Hy. apply in_map_iff in Hy. destruct Hy as (n & <- & _).
    cbn [existsb]. rewrite vname_sim_with_version.
    replace (vname_sim n0 name) with true; [reflexivity|]. symmetry. apply vname_sim_eq. symmetry. exact Kn.
Qed.

Lemma update_decl_stmt_phi env s : is_phi_stmt (update_decl_stmt env s) = is_phi_stmt s.
Proof. destruct s as [m names t dims| | | | | |]; try reflexivity. destruct names; [reflexivity|]. destruct t; reflexivity. Qed.

Lemma update_decls_sim env : forall xs B, forallb decl_names_ok xs = true -> stmts_sim xs B = true ->
  stmts_sim xs (map (update_decl_stmt env) B) = true.
Proof.
  induction xs as [|x tx IH]; intros [|y ty] Hd Hs; cbn [stmts_sim] in Hs; try discriminate; [reflexivity|].
  cbn [forallb] in Hd. apply andb_true_iff in Hd as [Hd1 Hd2]. apply andb_true_iff in Hs as [Hs1 Hs2].
  cbn [map stmts_sim]. rewrite (update_decl_stmt_sim env x y Hd1 Hs1), (IH ty Hd2 Hs2). reflexivity.
Qed.


Lemma update_decls_erases env : forall bs0 bs,
  forallb (fun b => forallb decl_names_ok (b_stmts b)) bs0 = true -> erase_inv bs0 bs ->
  erase_inv bs0 (map (fun b => set_stmts b (map (update_decl_stmt env) (b_stmts b))) bs).
Proof.
  intros bs0 bs Hd H. induction H as [|x0 x t0 t Hx Ht IH]; simpl; constructor.
  - cbn [forallb] in Hd. apply andb_true_iff in Hd as [Hd _].
    destruct Hx as (Hp & Hsu & P & B & Hb & HP & Hs). split; [exact Hp|]. split; [exact Hsu|].
    exists (map (update_decl_stmt env) P), (map (update_decl_stmt env) B). cbn [set_stmts b_stmts].
    rewrite Hb, map_app. split; [reflexivity|]. split.
    + unfold all_phis in *. rewrite Forall_forall in *. intros y Hy. apply in_map_iff in Hy.
      destruct Hy as (z & <- & Hz). rewrite update_decl_stmt_phi. apply HP. exact Hz.
    + apply update_decls_sim; assumption.
  - apply IH. cbn [forallb] in Hd. apply andb_true_iff in Hd as [_ Hd]. exact Hd.
Qed.

(* ---- into_ssa ---- *)
Lemma ns_eqb_refl : forall l, ns_eqb l l = true.
Proof. induction l as [|x tl IH]; simpl; [reflexivity|]. rewrite N.eqb_refl, IH. reflexivity. Qed.

Lemma erase_inv_blocks_sim : forall bs0 bs, erase_inv bs0 bs -> blocks_sim bs0 bs = true.
Proof.
  intros bs0 bs H. induction H as [|x0 x t0 t Hx Ht IH]; simpl; [reflexivity|].
  rewrite IH, andb_true_r. unfold block_sim. rewrite (erases_to_body _ _ Hx).
  destruct Hx as (Hp & Hsu & _). rewrite Hp, Hsu, !ns_eqb_refl. reflexivity.
Qed.

Definition self_sim (bs : list block) : bool := forallb (fun b => stmts_sim (b_stmts b) (b_stmts b)) bs.

Lemma self_sim_inv : forall bs, self_sim bs = true -> erase_inv bs bs.
Proof.
  induction bs as [|b tl IH]; intros H; constructor.
  - simpl in H. apply andb_true_iff in H as [H _].
    split; [reflexivity|]. split; [reflexivity|]. exists [], (b_stmts b). split; [reflexivity|]. split; [constructor|exact H].
  - apply IH. simpl in H. apply andb_true_iff in H as [_ H]. exact H.
Qed.

(* ------------------------------------------------------------------------ *)
(* the hypothesis: a graph before SSA conversion holds no phi expression     *)
(* ------------------------------------------------------------------------ *)

Lemma expr_nophi_call n args k : expr_nophi (ECall n args k) = list_nophi args.
Proof. reflexivity. Qed.
Lemma expr_nophi_array vs k : expr_nophi (EArray vs k) = list_nophi vs.
Proof. reflexivity. Qed.
Lemma expr_nophi_access v acc k : expr_nophi (EAccess v acc k) = acc_nophi acc.
Proof. reflexivity. Qed.
Lemma expr_nophi_update v acc rhe k : expr_nophi (EUpdate v acc rhe k) = acc_nophi acc && expr_nophi rhe.
Proof. reflexivity. Qed.

Lemma ident_eqb_refl a : ident_eqb a a = true.
Proof. apply ident_eqb_eq'. reflexivity. Qed.
Lemma infix_eqb_refl a : infix_eqb a a = true.
Proof. destruct a; reflexivity. Qed.
Lemma prefix_eqb_refl a : prefix_eqb a a = true.
Proof. destruct a; reflexivity. Qed.
Lemma assign_eqb_refl a : assign_eqb a a = true.
Proof. destruct a; reflexivity. Qed.
Lemma vtype_eqb_refl a : vtype_eqb a a = true.
Proof. destruct a; reflexivity. Qed.
Lemma meta_eqb_refl a : meta_eqb a a = true.
Proof. unfold meta_eqb. rewrite !N.eqb_refl. destruct (m_file a); simpl; [apply N.eqb_refl|reflexivity]. Qed.
Lemma names_sim_refl l : names_sim l l = true.
Proof.
  unfold names_sim. apply andb_true_iff. split; apply forallb_forall; intros x Hx; apply existsb_exists;
    exists x; (split; [exact Hx|apply vname_sim_refl]).
Qed.

Lemma expr_sim_refl : forall e, expr_nophi e = true -> expr_sim e e = true.
Proof.
  induction e as [z k|v k|op l r k IHl IHr|op x k IHx|c t f k IHc IHt IHf|n args k IH|vs k IH
                 |v acc k IH|v acc rhe k IH IHr|args k] using expr_ind'; intros H.
  - apply Z.eqb_refl.
  - apply vname_sim_refl.
  - cbn [expr_nophi] in H. apply andb_true_iff in H as [H1 H2]. cbn [expr_sim].
    rewrite infix_eqb_refl, (IHl H1), (IHr H2). reflexivity.
  - cbn [expr_nophi] in H. cbn [expr_sim]. rewrite prefix_eqb_refl, (IHx H). reflexivity.
  - cbn [expr_nophi] in H. apply andb_true_iff in H as [H H3]. apply andb_true_iff in H as [H1 H2]. cbn [expr_sim].
    rewrite (IHc H1), (IHt H2), (IHf H3). reflexivity.
  - rewrite expr_nophi_call in H. rewrite expr_sim_call, ident_eqb_refl. cbn [andb].
    induction IH as [|x tl Hx _ IHtl]; [reflexivity|]. cbn [list_nophi] in H. apply andb_true_iff in H as [H1 H2].
    cbn [exprs_sim]. rewrite (Hx H1), (IHtl H2). reflexivity.
  - rewrite expr_nophi_array in H. rewrite expr_sim_array.
    induction IH as [|x tl Hx _ IHtl]; [reflexivity|]. cbn [list_nophi] in H. apply andb_true_iff in H as [H1 H2].
    cbn [exprs_sim]. rewrite (Hx H1), (IHtl H2). reflexivity.
  - rewrite expr_nophi_access in H. rewrite expr_sim_access, vname_sim_refl. cbn [andb].
    induction acc as [|[x|n] tl IHtl]; [reflexivity| |].
    + cbn [acc_exprs flat_map app] in IH. inversion IH as [|? ? Hx Htl]; subst.
      cbn [acc_nophi] in H. apply andb_true_iff in H as [H1 H2]. cbn [accs_sim]. rewrite (Hx H1), (IHtl Htl H2). reflexivity.
    + cbn [acc_exprs flat_map app] in IH. cbn [acc_nophi] in H. cbn [accs_sim]. rewrite ident_eqb_refl, (IHtl IH H). reflexivity.
  - rewrite expr_nophi_update in H. apply andb_true_iff in H as [H Hr].
    rewrite expr_sim_update, vname_sim_refl, (IHr Hr), andb_true_r. cbn [andb].
    induction acc as [|[x|n] tl IHtl]; [reflexivity| |].
    + cbn [acc_exprs flat_map app] in IH. inversion IH as [|? ? Hx Htl]; subst.
      cbn [acc_nophi] in H. apply andb_true_iff in H as [H1 H2]. cbn [accs_sim]. rewrite (Hx H1), (IHtl Htl H2). reflexivity.
    + cbn [acc_exprs flat_map app] in IH. cbn [acc_nophi] in H. cbn [accs_sim]. rewrite ident_eqb_refl, (IHtl IH H). reflexivity.
  - discriminate H.
Qed.

Lemma exprs_sim_refl : forall es, list_nophi es = true -> exprs_sim es es = true.
Proof.
  induction es as [|x tl IH]; intros H; [reflexivity|]. cbn [list_nophi] in H. apply andb_true_iff in H as [H1 H2].
  cbn [exprs_sim]. rewrite (expr_sim_refl x H1), (IH H2). reflexivity.
Qed.

Lemma logargs_sim_refl : forall es, forallb logarg_nophi es = true -> logargs_sim es es = true.
Proof.
  induction es as [|[|x] tl IH]; intros H; [reflexivity| |]; cbn [forallb logarg_nophi] in H.
  - cbn [logargs_sim]. apply IH. exact H.
  - apply andb_true_iff in H as [H1 H2]. cbn [logargs_sim]. rewrite (expr_sim_refl x H1), (IH H2). reflexivity.
Qed.

Lemma optN_eqb_refl (o : option N) : opt_eqb N.eqb o o = true.
Proof. apply optN_eqb_eq. reflexivity. Qed.

Lemma stmt_sim_refl s : stmt_nophi s = true -> stmt_sim s s = true.
Proof.
  destruct s as [m names t dims|m c t f|m e|m v op rhe sval stype|m l r|m args|m e]; cbn [stmt_nophi stmt_sim]; intros H;
    rewrite meta_eqb_refl; cbn [andb].
  - rewrite names_sim_refl, vtype_eqb_refl, (exprs_sim_refl dims H). reflexivity.
  - rewrite (expr_sim_refl c H), N.eqb_refl, optN_eqb_refl. reflexivity.
  - apply expr_sim_refl. exact H.
  - rewrite vname_sim_refl, assign_eqb_refl, (expr_sim_refl rhe H). reflexivity.
  - apply andb_true_iff in H as [H1 H2]. rewrite (expr_sim_refl l H1), (expr_sim_refl r H2). reflexivity.
  - apply logargs_sim_refl. exact H.
  - apply expr_sim_refl. exact H.
Qed.

Lemma stmts_sim_refl : forall ss, forallb stmt_nophi ss = true -> stmts_sim ss ss = true.
Proof.
  induction ss as [|s tl IH]; intros H; [reflexivity|]. cbn [forallb] in H. apply andb_true_iff in H as [H1 H2].
  cbn [stmts_sim]. rewrite (stmt_sim_refl s H1), (IH H2). reflexivity.
Qed.

Lemma phi_free_self_sim c : phi_free c = true -> self_sim (c_blocks c) = true.
Proof.
  unfold phi_free, self_sim. intros H. rewrite forallb_forall in *. intros b Hb. apply stmts_sim_refl. apply H. exact Hb.
Qed.

(* ------------------------------------------------------------------------ *)
(* T1 and T2                                                                 *)
(* ------------------------------------------------------------------------ *)

(* the graph after renaming, before the declarations are re-issued *)
Lemma into_ssa_stages frontier children c c' :
  into_ssa frontier children c = SOk c' ->
  exists fuel bs1 env0 bs2 env,
    insert_phis fuel frontier (c_blocks c) (rev (seq 0 (length (c_blocks c)))) = SOk bs1 /\
    env0 = fold_left (fun env x => snd (next_version env x)) (c_params c) {| se_global := []; se_scoped := [[]] |} /\
    rename_tree (S (length (c_blocks c))) (c_decls c) children 0 bs1 env0 = SOk (bs2, env) /\
    c' = {| c_kind := c_kind c; c_params := map (fun x => with_version x 0%N) (c_params c); c_decls := [];
            c_blocks := map (fun b => set_stmts b (map (update_decl_stmt env) (b_stmts b))) bs2 |}.
Proof.
  intros H. unfold into_ssa in H. sb1 H. sb2 H. inversion H; subst c'. do 5 eexists. split; [exact E|].
  split; [reflexivity|]. split; [exact E0|reflexivity].
Qed.

Lemma into_ssa_renamed_inv frontier children c c' :
  phi_free c = true -> into_ssa frontier children c = SOk c' ->
  exists bs2 env, erase_inv (c_blocks c) bs2 /\
    c_blocks c' = map (fun b => set_stmts b (map (update_decl_stmt env) (b_stmts b))) bs2.
Proof.
  intros Hpf H. destruct (into_ssa_stages _ _ _ _ H) as (fuel & bs1 & env0 & bs2 & env & H1 & _ & H2 & ->).
  exists bs2, env. split; [|reflexivity].
  eapply rename_tree_erases; [exact H2|]. eapply insert_phis_erases; [exact H1|].
  apply self_sim_inv. apply phi_free_self_sim. exact Hpf.
Qed.

Theorem into_ssa_erase_inv frontier children c c' :
  phi_free c = true -> decls_ok c = true -> into_ssa frontier children c = SOk c' ->
  erase_inv (c_blocks c) (c_blocks c').
Proof.
  intros Hpf Hd H. destruct (into_ssa_renamed_inv _ _ _ _ Hpf H) as (bs2 & env & Hi & ->).
  apply update_decls_erases; assumption.
Qed.

(* T1 *)
Theorem into_ssa_is_erasure : forall frontier children c c',
  phi_free c = true -> decls_ok c = true ->
  into_ssa frontier children c = SOk c' -> erase_eqb c c' = true.
Proof.
  intros frontier children c c' Hpf Hd H. unfold erase_eqb. apply erase_inv_blocks_sim.
  eapply into_ssa_erase_inv; eassumption.
Qed.

(* T2: needs no hypothesis on declarations *)
Theorem into_ssa_phis_at_head : forall frontier children c c',
  into_ssa frontier children c = SOk c' -> phi_free c = true ->
  forall b, In b (c_blocks c') -> Forall (fun s => is_phi_stmt s = false) (body_of b).
Proof.
  intros frontier children c c' H Hpf b Hb.
  destruct (into_ssa_renamed_inv _ _ _ _ Hpf H) as (bs2 & env & Hi & Hc'). rewrite Hc' in Hb.
  apply in_map_iff in Hb. destruct Hb as (b2 & <- & Hb2).
  destruct (forall2_in _ _ _ _ Hi Hb2) as (b0 & _ & (_ & _ & P & B & Hs & HP & Hsim)).
  pose proof (stmts_sim_no_phi _ _ Hsim) as HB.
  assert (HB' : Forall (fun s => is_phi_stmt s = false) (map (update_decl_stmt env) B)).
  { rewrite Forall_forall in *. intros y Hy. apply in_map_iff in Hy. destruct Hy as (z & <- & Hz).
    rewrite update_decl_stmt_phi. apply HB. exact Hz. }
  unfold body_of. cbn [set_stmts b_stmts]. rewrite Hs, map_app, leading_phis_split; [exact HB'| |].
  - unfold all_phis in *. rewrite Forall_forall in *. intros y Hy. apply in_map_iff in Hy. destruct Hy as (z & <- & Hz).
    rewrite update_decl_stmt_phi. apply HP. exact Hz.
  - destruct (map (update_decl_stmt env) B); [exact I|]. inversion HB'. assumption.
Qed.

(* ------------------------------------------------------------------------ *)
(* a relation between environments that every renaming step respects         *)
(* ------------------------------------------------------------------------ *)

Section EnvRel.
Variable decls : list (vname * vtype).
Variable R : senv -> senv -> Prop.
Hypothesis R_refl : forall e, R e e.
Hypothesis R_trans : forall a b c, R a b -> R b c -> R a c.
Hypothesis R_next : forall e v, R e (snd (next_version e v)).

Definition expr_rel (e : expr) : Prop :=
  forall env e' env', ssa_expr decls env e = SOk (e', env') -> R env env'.

Lemma ssa_list_rel : forall es, Forall expr_rel es ->
  forall env r env', ssa_list decls env es = SOk (r, env') -> R env env'.
Proof.
  induction 1 as [|x tl Hx _ IH]; intros env r env' H; simpl in H.
  - inversion H; subst. apply R_refl.
  - sb2 H. sb2 H. inversion H; subst. eapply R_trans; [eapply Hx; exact E|eapply IH; exact E0].
Qed.

Lemma ssa_acc_rel : forall acc, Forall expr_rel (acc_exprs acc) ->
  forall env r env', ssa_acc decls env acc = SOk (r, env') -> R env env'.
Proof.
  induction acc as [|[x|n] tl IH]; intros HF env r env' H; simpl in H.
  - inversion H; subst. apply R_refl.
  - cbn [acc_exprs flat_map app] in HF. inversion HF as [|? ? Hx Htl]; subst.
    sb2 H. sb2 H. inversion H; subst. eapply R_trans; [eapply Hx; exact E|eapply IH; [exact Htl|exact E0]].
  - cbn [acc_exprs flat_map app] in HF. sb2 H. inversion H; subst. eapply IH; [exact HF|exact E].
Qed.

Lemma ssa_expr_rel : forall e, expr_rel e.
Proof.
  induction e as [z k|v k|op l r k IHl IHr|op x k IHx|c t f k IHc IHt IHf|n args k IH|vs k IH
                 |v acc k IH|v acc rhe k IH IHr|args k] using expr_ind'; intros env e' env' H.
  - cbn [ssa_expr] in H. inversion H; subst. apply R_refl.
  - cbn [ssa_expr] in H. destruct (is_local_in decls v).
    + sb1 H. inversion H; subst. apply R_refl.
    + inversion H; subst. apply R_refl.
  - cbn [ssa_expr] in H. sb2 H. sb2 H. inversion H; subst. eapply R_trans; [eapply IHl; exact E|eapply IHr; exact E0].
  - cbn [ssa_expr] in H. sb2 H. inversion H; subst. eapply IHx; exact E.
  - cbn [ssa_expr] in H. sb2 H. sb2 H. sb2 H. inversion H; subst.
    eapply R_trans; [eapply IHc; exact E|]. eapply R_trans; [eapply IHt; exact E0|eapply IHf; exact E1].
  - rewrite ssa_expr_call in H. sb2 H. inversion H; subst. eapply ssa_list_rel; [exact IH|exact E].
  - rewrite ssa_expr_array in H. sb2 H. inversion H; subst. eapply ssa_list_rel; [exact IH|exact E].
  - rewrite ssa_expr_access in H. sb2 H. pose proof (ssa_acc_rel acc IH _ _ _ E) as Ha.
    destruct (is_local_in decls v).
    + sb1 H. inversion H; subst. exact Ha.
    + inversion H; subst. exact Ha.
  - rewrite ssa_expr_update in H. sb2 H. sb2 H.
    pose proof (IHr _ _ _ E) as Hr. pose proof (ssa_acc_rel acc IH _ _ _ E0) as Ha.
    assert (R env env1) as R1 by (eapply R_trans; eassumption).
    destruct (is_local_in decls v).
    + destruct (vn_version v); [discriminate|]. destruct (cur_version env1 v).
      * inversion H; subst. exact R1.
      * pose proof (R_next env1 v) as Rn. destruct (next_version env1 v) as [n env3]. inversion H; subst.
        eapply R_trans; [exact R1|exact Rn].
    + inversion H; subst. exact R1.
  - cbn [ssa_expr] in H. inversion H; subst. apply R_refl.
Qed.

Lemma ssa_exprs_rel : forall es env r env', ssa_exprs decls env es = SOk (r, env') -> R env env'.
Proof.
  intros es env r env' H. rewrite <- ssa_list_exprs in H. eapply ssa_list_rel; [|exact H].
  apply Forall_forall. intros a _. apply ssa_expr_rel.
Qed.

Lemma ssa_logargs_rel : forall es env r env', ssa_logargs decls env es = SOk (r, env') -> R env env'.
Proof.
  induction es as [|[|x] tl IH]; intros env r env' H; simpl in H.
  - inversion H; subst. apply R_refl.
  - sb2 H. inversion H; subst. eapply IH; exact E.
  - sb2 H. sb2 H. inversion H; subst. eapply R_trans; [eapply ssa_expr_rel; exact E|eapply IH; exact E0].
Qed.

Lemma ssa_stmt_rel s env s' env' : ssa_stmt decls env s = SOk (s', env') -> R env env'.
Proof.
  intros H. destruct s as [m names t dims|m c t f|m e|m v op rhe sval stype|m l r|m args|m e]; cbn [ssa_stmt] in H.
  - sb2 H. inversion H; subst. eapply ssa_exprs_rel; exact E.
  - sb2 H. inversion H; subst. eapply ssa_expr_rel; exact E.
  - sb2 H. inversion H; subst. eapply ssa_expr_rel; exact E.
  - destruct (vn_version v); [discriminate|]. sb2 H. pose proof (ssa_expr_rel _ _ _ _ E) as R1.
    destruct (is_local_in decls v).
    + pose proof (R_next env0 v) as Rn. destruct (next_version env0 v) as [n env2]. inversion H; subst.
      eapply R_trans; [exact R1|exact Rn].
    + inversion H; subst. exact R1.
  - sb2 H. sb2 H. inversion H; subst. eapply R_trans; eapply ssa_expr_rel; eassumption.
  - sb2 H. inversion H; subst. eapply ssa_logargs_rel; exact E.
  - sb2 H. inversion H; subst. eapply ssa_expr_rel; exact E.
Qed.

Lemma ssa_stmts_rel : forall ss env r env', ssa_stmts decls env ss = SOk (r, env') -> R env env'.
Proof.
  induction ss as [|s tl IH]; intros env r env' H; simpl in H.
  - inversion H; subst. apply R_refl.
  - sb2 H. sb2 H. inversion H; subst. eapply R_trans; [eapply ssa_stmt_rel; exact E|eapply IH; exact E0].
Qed.
End EnvRel.

(* ------------------------------------------------------------------------ *)
(* T3: the per-key version counter only grows                                *)
(* ------------------------------------------------------------------------ *)

Definition gle (g g' : vmap) : Prop :=
  forall k m, vget g k = Some m -> exists m', vget g' k = Some m' /\ (m <= m')%N.
Definition env_gle (e e' : senv) : Prop := gle (se_global e) (se_global e').

Lemma gle_refl g : gle g g.
Proof. intros k m H. exists m. split; [exact H|lia]. Qed.
Lemma gle_trans a b c : gle a b -> gle b c -> gle a c.
Proof.
  intros H1 H2 k m H. destruct (H1 k m H) as (m1 & Hm1 & L1). destruct (H2 k m1 Hm1) as (m2 & Hm2 & L2).
  exists m2. split; [exact Hm2|lia].
Qed.

(* the definition x lies at or below the counter / strictly above the counter *)
Definition bounded (g : vmap) (x : vname) : Prop :=
  exists n m, vn_version x = Some n /\ vget g (key_of x) = Some m /\ (n <= m)%N.
Definition fresh (g : vmap) (x : vname) : Prop :=
  forall n m, vn_version x = Some n -> vget g (key_of x) = Some m -> (m < n)%N.

Lemma bounded_gle g g' x : gle g g' -> bounded g x -> bounded g' x.
Proof.
  intros L (n & m & Hn & Hm & Le). destruct (L _ _ Hm) as (m' & Hm' & Le'). exists n, m'. repeat split; auto. lia.
Qed.
Lemma fresh_gle g g' x : gle g g' -> fresh g' x -> fresh g x.
Proof.
  intros L F n m Hn Hm. destruct (L _ _ Hm) as (m' & Hm' & Le'). specialize (F n m' Hn Hm'). lia.
Qed.
Lemma fresh_not_bounded g x : fresh g x -> bounded g x -> False.
Proof. intros F (n & m & Hn & Hm & Le). specialize (F n m Hn Hm). lia. Qed.

Lemma next_version_global env v :
  se_global (snd (next_version env v)) = vset (se_global env) (key_of v) (fst (next_version env v)).
Proof. reflexivity. Qed.

Lemma next_version_fst env v :
  fst (next_version env v) = match vget (se_global env) (key_of v) with None => 0%N | Some m => N.succ m end.
Proof. reflexivity. Qed.

Lemma next_version_gle env v : env_gle env (snd (next_version env v)).
Proof.
  unfold env_gle. rewrite next_version_global, next_version_fst. intros k m H. rewrite vget_vset.
  destruct (key_eqb (key_of v) k) eqn:Ek.
  - apply key_eqb_eq in Ek. subst k. rewrite H. exists (N.succ m). split; [reflexivity|lia].
  - exists m. split; [exact H|lia].
Qed.

Lemma next_version_fresh env v n env' : next_version env v = (n, env') ->
  fresh (se_global env) (with_version v n) /\ bounded (se_global env') (with_version v n).
Proof.
  intros H. assert (Hn : n = fst (next_version env v)) by (rewrite H; reflexivity).
  assert (He : env' = snd (next_version env v)) by (rewrite H; reflexivity).
  split.
  - intros n' m Hv Hm. cbn in Hv. inversion Hv; subst n'. change (key_of (with_version v n)) with (key_of v) in Hm.
    rewrite Hn, next_version_fst, Hm. lia.
  - exists n, n. split; [reflexivity|]. split; [|lia]. rewrite He, next_version_global, vget_vset.
    change (key_of (with_version v n)) with (key_of v). rewrite key_eqb_refl, Hn. reflexivity.
Qed.

Definition stmt_defs (ss : list stmt) : list vname :=
  flat_map (fun s => match stmt_def s with Some x => [x] | None => [] end) ss.
Definition blocks_defs (bs : list block) : list vname := flat_map (fun b => stmt_defs (b_stmts b)) bs.

Lemma all_defs_blocks c : all_defs c = blocks_defs (c_blocks c).
Proof. reflexivity. Qed.

Section Defs.
Variable decls : list (vname * vtype).

Lemma ssa_expr_gle e env e' env' : ssa_expr decls env e = SOk (e', env') -> env_gle env env'.
Proof.
  apply (ssa_expr_rel decls env_gle); unfold env_gle; intros.
  - apply gle_refl. - eapply gle_trans; eassumption. - apply next_version_gle.
Qed.

Lemma ssa_stmt_gle s env s' env' : ssa_stmt decls env s = SOk (s', env') -> env_gle env env'.
Proof.
  apply (ssa_stmt_rel decls env_gle); unfold env_gle; intros.
  - apply gle_refl. - eapply gle_trans; eassumption. - apply next_version_gle.
Qed.

Lemma ssa_stmts_gle ss env r env' : ssa_stmts decls env ss = SOk (r, env') -> env_gle env env'.
Proof.
  apply (ssa_stmts_rel decls env_gle); unfold env_gle; intros.
  - apply gle_refl. - eapply gle_trans; eassumption. - apply next_version_gle.
Qed.

(* the definition a renamed statement makes is above the counter before and below the counter after *)
Lemma ssa_stmt_def s env s' env' x :
  ssa_stmt decls env s = SOk (s', env') -> stmt_def s' = Some x ->
  fresh (se_global env) x /\ bounded (se_global env') x.
Proof.
  intros H Hd. destruct s as [m names t dims|m c t f|m e|m v op rhe sval stype|m l r|m args|m e]; cbn [ssa_stmt] in H.
  - sb2 H. inversion H; subst. discriminate Hd.
  - sb2 H. inversion H; subst. discriminate Hd.
  - sb2 H. inversion H; subst. discriminate Hd.
  - destruct (vn_version v) eqn:Ev; [discriminate|]. sb2 H. pose proof (ssa_expr_gle _ _ _ _ E) as G1.
    destruct (is_local_in decls v).
    + destruct (next_version env0 v) as [n env2] eqn:En. inversion H; subst. cbn in Hd. inversion Hd; subst x.
      destruct (next_version_fresh _ _ _ _ En) as [F B]. split; [|exact B]. eapply fresh_gle; [exact G1|exact F].
    + inversion H; subst. cbn [stmt_def] in Hd. rewrite Ev in Hd. discriminate Hd.
  - sb2 H. sb2 H. inversion H; subst. discriminate Hd.
  - sb2 H. inversion H; subst. discriminate Hd.
  - sb2 H. inversion H; subst. discriminate Hd.
Qed.

Lemma ssa_stmts_defs : forall ss env r env', ssa_stmts decls env ss = SOk (r, env') ->
  NoDup (stmt_defs r) /\ forall x, In x (stmt_defs r) -> fresh (se_global env) x /\ bounded (se_global env') x.
Proof.
  induction ss as [|s tl IH]; intros env r env' H; simpl in H.
  - inversion H; subst. split; [constructor|intros x []].
  - sb2 H. sb2 H. inversion H; subst. rename x into s'. rename x0 into tl'.
    destruct (IH _ _ _ E0) as [ND Htl].
    pose proof (ssa_stmt_gle _ _ _ _ E) as G1. pose proof (ssa_stmts_gle _ _ _ _ E0) as G2.
    unfold stmt_defs. cbn [flat_map]. fold (stmt_defs tl').
    destruct (stmt_def s') as [x|] eqn:Ed; cbn [app]; [|split; [exact ND|]].
    + destruct (ssa_stmt_def _ _ _ _ _ E Ed) as [F B]. split.
      * constructor; [|exact ND]. intros Hin. destruct (Htl x Hin) as [F' _]. exact (fresh_not_bounded _ _ F' B).
      * intros y [<-|Hy]; [split; [exact F|eapply bounded_gle; eassumption]|].
        destruct (Htl y Hy) as [F' B']. split; [eapply fresh_gle; eassumption|exact B'].
    + intros y Hy. destruct (Htl y Hy) as [F' B']. split; [eapply fresh_gle; eassumption|exact B'].
Qed.
End Defs.

(* list surgery *)
Lemma update_nth_split {A} (f : A -> A) : forall l i x, nth_error l i = Some x ->
  l = firstn i l ++ x :: skipn (S i) l /\ update_nth l i f = firstn i l ++ f x :: skipn (S i) l.
Proof.
  induction l as [|y tl IH]; intros [|i] x H; simpl in *; try discriminate.
  - inversion H; subst. auto.
  - destruct (IH i x H) as [H1 H2]. split; f_equal; assumption.
Qed.

Lemma NoDup_replace_mid {A} (a b b' c : list A) :
  NoDup (a ++ b ++ c) -> NoDup b' -> (forall x, In x b' -> ~ In x a /\ ~ In x c) -> NoDup (a ++ b' ++ c).
Proof.
  intros H Hb' Hd.
  assert (Ha : NoDup a) by (eapply NoDup_app_l; exact H).
  assert (Hbc : NoDup (b ++ c)) by (eapply NoDup_app_r; exact H).
  assert (Hc : NoDup c) by (eapply NoDup_app_r; exact Hbc).
  apply NoDup_app_intro; [exact Ha| |].
  - apply NoDup_app_intro; [exact Hb'|exact Hc|]. intros x Hx. apply (Hd x Hx).
  - intros x Hx Hin. apply in_app_or in Hin. destruct Hin as [Hin|Hin].
    + exact (proj1 (Hd x Hin) Hx).
    + apply (NoDup_app_disjoint _ _ H x Hx). apply in_or_app. right. exact Hin.
Qed.

Lemma blocks_defs_app a b : blocks_defs (a ++ b) = blocks_defs a ++ blocks_defs b.
Proof. unfold blocks_defs. apply flat_map_app. Qed.

Lemma blocks_defs_update_same (f : block -> block) : forall bs i,
  (forall b, nth_error bs i = Some b -> stmt_defs (b_stmts (f b)) = stmt_defs (b_stmts b)) ->
  blocks_defs (update_nth bs i f) = blocks_defs bs.
Proof.
  induction bs as [|b tl IH]; intros [|i] H; simpl; try reflexivity.
  - unfold blocks_defs. cbn [flat_map]. rewrite (H b eq_refl). reflexivity.
  - unfold blocks_defs in *. cbn [flat_map]. rewrite (IH i); [reflexivity|]. intros b0 Hb0. apply H. exact Hb0.
Qed.

(* steps that do not touch the defined names *)
Lemma ensure_phi_arg_def env s : stmt_def (ensure_phi_arg env s) = stmt_def s.
Proof.
  destruct s as [| | |m v op rhe sval stype| | |]; try reflexivity. destruct rhe; try reflexivity.
  unfold ensure_phi_arg. destruct (cur_version env v);
    match goal with |- context [if ?c then _ else _] => destruct c end; reflexivity.
Qed.

Lemma update_phis_defs env : forall ss, stmt_defs (update_phis env ss) = stmt_defs ss.
Proof.
  induction ss as [|s tl IH]; simpl; [reflexivity|]. destruct (is_phi_stmt s); [|reflexivity].
  unfold stmt_defs in *. cbn [flat_map]. rewrite ensure_phi_arg_def, IH. reflexivity.
Qed.

Lemma update_succ_phis_defs env : forall succs bs, blocks_defs (update_succ_phis env succs bs) = blocks_defs bs.
Proof.
  induction succs as [|s tl IH]; intros bs; simpl; [reflexivity|]. rewrite IH.
  apply blocks_defs_update_same. intros b _. cbn [set_stmts b_stmts]. apply update_phis_defs.
Qed.

Lemma add_phis_defs : forall vars b n, stmt_defs (b_stmts (fst (add_phis vars b n))) = stmt_defs (b_stmts b).
Proof.
  induction vars as [|v tl IH]; intros b n; simpl; [reflexivity|].
  destruct (existsb (is_phi_for v) (b_stmts b)); rewrite IH; reflexivity.
Qed.

Lemma process_frontier_defs vars : forall fr bs work,
  blocks_defs (fst (process_frontier vars fr bs work)) = blocks_defs bs.
Proof.
  induction fr as [|f tl IH]; intros bs work; simpl; [reflexivity|].
  destruct (nth_error bs (N.to_nat f)) as [b|] eqn:E; [|apply IH].
  destruct (add_phis vars b 0) as [b' pushes] eqn:Ea. rewrite IH.
  apply blocks_defs_update_same. intros b0 Hb0. rewrite E in Hb0. inversion Hb0; subst b0.
  change b' with (fst (b', pushes)). rewrite <- Ea. apply add_phis_defs.
Qed.

Lemma insert_phis_defs frontier : forall fuel bs work bs',
  insert_phis fuel frontier bs work = SOk bs' -> blocks_defs bs' = blocks_defs bs.
Proof.
  induction fuel as [|fuel IH]; intros bs work bs' H.
  - destruct work; simpl in H; [|discriminate]. inversion H; subst. reflexivity.
  - destruct work as [|cur rest]; simpl in H; [inversion H; subst; reflexivity|].
    destruct (nth_error bs cur) as [b|]; [|discriminate].
    destruct (vars_written b) as [|v vs] eqn:Ev; [eapply IH; eassumption|].
    destruct (process_frontier (v :: vs) (nth cur frontier []) bs rest) as [bs1 work1] eqn:Ep.
    rewrite (IH _ _ _ H). change bs1 with (fst (bs1, work1)). rewrite <- Ep. apply process_frontier_defs.
Qed.

Lemma update_decl_stmt_def env s : stmt_def (update_decl_stmt env s) = stmt_def s.
Proof. destruct s as [m names t dims| | | | | |]; try reflexivity. destruct names; [reflexivity|]. destruct t; reflexivity. Qed.

Lemma update_decls_defs env : forall bs,
  blocks_defs (map (fun b => set_stmts b (map (update_decl_stmt env) (b_stmts b))) bs) = blocks_defs bs.
Proof.
  induction bs as [|b tl IH]; [reflexivity|]. unfold blocks_defs in *. cbn [map flat_map]. rewrite IH. f_equal.
  cbn [set_stmts b_stmts]. unfold stmt_defs. induction (b_stmts b) as [|s ss IHs]; [reflexivity|].
  cbn [map flat_map]. rewrite update_decl_stmt_def, IHs. reflexivity.
Qed.

(* the invariant of the tree walk *)
Definition defs_inv (bs : list block) (g : vmap) : Prop :=
  NoDup (blocks_defs bs) /\ forall x, In x (blocks_defs bs) -> bounded g x.

Lemma defs_inv_gle bs g g' : gle g g' -> defs_inv bs g -> defs_inv bs g'.
Proof. intros L [ND B]. split; [exact ND|]. intros x Hx. eapply bounded_gle; [exact L|apply B; exact Hx]. Qed.

Lemma rename_tree_defs decls children : forall fuel cur bs env bs' env',
  rename_tree fuel decls children cur bs env = SOk (bs', env') -> defs_inv bs (se_global env) ->
  defs_inv bs' (se_global env') /\ env_gle env env'.
Proof.
  induction fuel as [|fuel IH]; intros cur bs env bs' env' H Hi; [discriminate H|].
  rewrite rename_tree_unfold in H.
  destruct (nth_error bs cur) as [b|] eqn:Eb; [|discriminate].
  sb2 H. rename x into ss1. rename env0 into env1.
  assert (K : forall kids l e l' e',
             rename_kids fuel decls children kids l e = SOk (l', e') -> defs_inv l (se_global e) ->
             defs_inv l' (se_global e') /\ env_gle e e').
  { induction kids as [|k tl IHk]; intros l e l' e' Hk Hl; simpl in Hk.
    - inversion Hk; subst. split; [exact Hl|apply gle_refl].
    - sb2 Hk. destruct (IH _ _ _ _ _ E0 Hl) as [I1 G1].
      destruct (IHk _ _ _ _ Hk I1) as [I2 G2]. split; [exact I2|].
      unfold env_gle in *. cbn [push_scope pop_scope se_global] in *. eapply gle_trans; eassumption. }
  pose proof (ssa_stmts_gle _ _ _ _ _ E) as G1.
  destruct (ssa_stmts_defs _ _ _ _ _ E) as [ND1 FB1].
  assert (I1 : defs_inv (update_succ_phis env1 (b_succs b) (update_nth bs cur (fun b0 => set_stmts b0 ss1)))
                        (se_global env1)).
  { unfold defs_inv. rewrite update_succ_phis_defs.
    destruct (update_nth_split (fun b0 => set_stmts b0 ss1) bs cur b Eb) as [S1 S2]. rewrite S2.
    destruct Hi as [ND B]. rewrite S1 in ND, B.
    rewrite blocks_defs_app in *. unfold blocks_defs at 2 in ND. unfold blocks_defs at 2 in B. unfold blocks_defs at 2.
    cbn [flat_map] in *. fold (blocks_defs (skipn (S cur) bs)) in *. cbn [set_stmts b_stmts].
    split.
    - eapply NoDup_replace_mid; [exact ND|exact ND1|]. intros x Hx. destruct (FB1 x Hx) as [F _].
      split; intros Hin; apply (fresh_not_bounded _ _ F); apply B; apply in_or_app; [left; exact Hin|].
      right. apply in_or_app. right. exact Hin.
    - intros x Hx. apply in_app_or in Hx. destruct Hx as [Hx|Hx].
      + eapply bounded_gle; [exact G1|]. apply B. apply in_or_app. left. exact Hx.
      + apply in_app_or in Hx. destruct Hx as [Hx|Hx]; [exact (proj2 (FB1 x Hx))|].
        eapply bounded_gle; [exact G1|]. apply B. apply in_or_app. right. apply in_or_app. right. exact Hx. }
  destruct (K _ _ _ _ _ H I1) as [I2 G2]. split; [exact I2|]. unfold env_gle in *. eapply gle_trans; eassumption.
Qed.

(* T3 *)
Theorem into_ssa_unique_defs : forall frontier children c c',
  all_defs c = [] -> into_ssa frontier children c = SOk c' -> NoDup (all_defs c').
Proof.
  intros frontier children c c' H0 H.
  destruct (into_ssa_stages _ _ _ _ H) as (fuel & bs1 & env0 & bs2 & env & H1 & _ & H2 & ->).
  rewrite all_defs_blocks in *. cbn [c_blocks]. rewrite update_decls_defs.
  assert (I1 : defs_inv bs1 (se_global env0)).
  { unfold defs_inv. rewrite (insert_phis_defs _ _ _ _ _ H1), H0. split; [constructor|intros x []]. }
  exact (proj1 (proj1 (rename_tree_defs _ _ _ _ _ _ _ _ H2 I1))).
Qed.

Lemma block_unv_defs b : block_unv b = true -> stmt_defs (b_stmts b) = [].
Proof.
  unfold block_unv, stmt_defs. induction (b_stmts b) as [|s tl IH]; intros H; [reflexivity|].
  cbn [forallb] in H. apply andb_true_iff in H as [Hs Ht]. cbn [flat_map]. rewrite (IH Ht), app_nil_r.
  destruct s as [| | |m v op rhe sval stype| | |]; try reflexivity. cbn [stmt_unv] in Hs.
  apply andb_true_iff in Hs as [Hv _]. cbn [stmt_def]. destruct (vn_version v); [discriminate Hv|reflexivity].
Qed.

Lemma unversioned_no_defs c : unversioned c -> all_defs c = [].
Proof.
  unfold unversioned, all_unv. rewrite all_defs_blocks. induction (c_blocks c) as [|b tl IH]; intros H; [reflexivity|].
  unfold blocks_defs in *. cbn [flat_map]. rewrite (block_unv_defs b (H 0 b eq_refl)). cbn [app].
  apply IH. intros i b' Hi. apply (H (S i) b'). exact Hi.
Qed.

Theorem into_ssa_unique_defs_unversioned : forall frontier children c c',
  unversioned c -> into_ssa frontier children c = SOk c' -> NoDup (all_defs c').
Proof. intros frontier children c c' Hu. apply into_ssa_unique_defs. apply unversioned_no_defs. exact Hu. Qed.

(* ------------------------------------------------------------------------ *)
(* T4: a key is assigned with a version exactly when it is a declared local  *)
(* ------------------------------------------------------------------------ *)

Lemma is_local_in_key decls a b : key_of a = key_of b -> is_local_in decls a = is_local_in decls b.
Proof.
  intros H. unfold is_local_in. induction decls as [|d tl IH]; simpl; [reflexivity|]. rewrite IH, H. reflexivity.
Qed.

Section Targets.
Variable decls : list (vname * vtype).

Definition target_ok (s : stmt) : Prop :=
  forall x, assigns s = Some x -> versioned x = is_local_in decls x.
Definition targets_ok (ss : list stmt) : Prop := forall s, In s ss -> target_ok s.

Lemma ssa_stmt_target s env s' env' : ssa_stmt decls env s = SOk (s', env') -> target_ok s'.
Proof.
  intros H x Hx. destruct s as [m names t dims|m c t f|m e|m v op rhe sval stype|m l r|m args|m e]; cbn [ssa_stmt] in H.
  - sb2 H. inversion H; subst. discriminate Hx.
  - sb2 H. inversion H; subst. discriminate Hx.
  - sb2 H. inversion H; subst. discriminate Hx.
  - destruct (vn_version v) eqn:Ev; [discriminate|]. sb2 H.
    destruct (is_local_in decls v) eqn:El.
    + destruct (next_version env0 v) as [n env2]. inversion H; subst. cbn in Hx. inversion Hx; subst x.
      rewrite (is_local_in_key decls (with_version v n) v eq_refl), El. reflexivity.
    + inversion H; subst. cbn in Hx. inversion Hx; subst x. unfold versioned. rewrite Ev, El. reflexivity.
  - sb2 H. sb2 H. inversion H; subst. discriminate Hx.
  - sb2 H. inversion H; subst. discriminate Hx.
  - sb2 H. inversion H; subst. discriminate Hx.
Qed.

Lemma ssa_stmts_targets : forall ss env r env', ssa_stmts decls env ss = SOk (r, env') -> targets_ok r.
Proof.
  induction ss as [|s tl IH]; intros env r env' H; simpl in H.
  - inversion H; subst. intros s [].
  - sb2 H. sb2 H. inversion H; subst. intros s' [<-|Hs']; [eapply ssa_stmt_target; exact E|].
    eapply IH; [exact E0|exact Hs'].
Qed.

Lemma ensure_phi_arg_assigns env s : assigns (ensure_phi_arg env s) = assigns s.
Proof.
  destruct s as [| | |m v op rhe sval stype| | |]; try reflexivity. destruct rhe; try reflexivity.
  unfold ensure_phi_arg. destruct (cur_version env v);
    match goal with |- context [if ?c then _ else _] => destruct c end; reflexivity.
Qed.

Lemma update_phis_targets env : forall ss, targets_ok ss -> targets_ok (update_phis env ss).
Proof.
  induction ss as [|s tl IH]; intros H; simpl; [exact H|]. destruct (is_phi_stmt s); [|exact H].
  intros s' [<-|Hs'].
  - intros x Hx. rewrite ensure_phi_arg_assigns in Hx. apply (H s (or_introl eq_refl) x Hx).
  - apply IH; [|exact Hs']. intros y Hy. apply H. right. exact Hy.
Qed.

Definition ok_at (bs : list block) (i : nat) : Prop :=
  forall b, nth_error bs i = Some b -> targets_ok (b_stmts b).

Lemma ok_at_update bs i (f : block -> block) j :
  (forall b, targets_ok (b_stmts b) -> targets_ok (b_stmts (f b))) -> ok_at bs j -> ok_at (update_nth bs i f) j.
Proof.
  intros Hf H b Hb.
  destruct (update_nth_keeps (fun b => targets_ok (b_stmts b)) f Hf bs i j b Hb) as (y & Hy & Himp).
  apply Himp. apply H. exact Hy.
Qed.

Lemma update_succ_phis_ok env : forall succs bs i, ok_at bs i -> ok_at (update_succ_phis env succs bs) i.
Proof.
  induction succs as [|s tl IH]; intros bs i H; simpl; [exact H|]. apply IH. apply ok_at_update; [|exact H].
  intros b Hb. cbn [set_stmts b_stmts]. apply update_phis_targets. exact Hb.
Qed.

Variable children : list (list N).

Lemma rename_tree_targets : forall fuel cur bs env bs' env',
  rename_tree fuel decls children cur bs env = SOk (bs', env') ->
  (forall i, ok_at bs i -> ok_at bs' i) /\ (forall i, In i (preorder fuel children cur) -> ok_at bs' i).
Proof.
  induction fuel as [|fuel IH]; intros cur bs env bs' env' H; [discriminate H|].
  rewrite rename_tree_unfold in H.
  destruct (nth_error bs cur) as [b|] eqn:Eb; [|discriminate].
  sb2 H. rename x into ss1. rename env0 into env1.
  assert (K : forall kids l e l' e',
             rename_kids fuel decls children kids l e = SOk (l', e') ->
             (forall i, ok_at l i -> ok_at l' i) /\
             (forall i, In i (flat_map (fun k => preorder fuel children (N.to_nat k)) kids) -> ok_at l' i)).
  { induction kids as [|k tl IHk]; intros l e l' e' Hk; simpl in Hk.
    - inversion Hk; subst. split; [auto|intros i []].
    - sb2 Hk. destruct (IH _ _ _ _ _ E0) as [M1 P1]. destruct (IHk _ _ _ _ Hk) as [M2 P2]. split.
      + intros i Hi. apply M2. apply M1. exact Hi.
      + intros i Hi. cbn [flat_map] in Hi. apply in_app_or in Hi. destruct Hi as [Hi|Hi]; [apply M2; apply P1; exact Hi|].
        apply P2. exact Hi. }
  destruct (K _ _ _ _ _ H) as [M P].
  set (bs1 := update_nth bs cur (fun b0 => set_stmts b0 ss1)) in *.
  assert (C1 : ok_at bs1 cur).
  { intros b1 Hb1. unfold bs1 in Hb1. rewrite (update_nth_same _ bs cur b Eb) in Hb1. inversion Hb1; subst b1.
    cbn [set_stmts b_stmts]. eapply ssa_stmts_targets. exact E. }
  assert (O1 : forall i, ok_at bs i -> ok_at bs1 i).
  { intros i Hi. destruct (Nat.eq_dec cur i) as [<-|Hne]; [exact C1|].
    intros b1 Hb1. unfold bs1 in Hb1. rewrite update_nth_other in Hb1 by exact Hne. apply Hi. exact Hb1. }
  split.
  - intros i Hi. apply M. apply update_succ_phis_ok. apply O1. exact Hi.
  - intros i Hi. cbn [preorder] in Hi. destruct Hi as [<-|Hi]; [|apply P; exact Hi].
    apply M. apply update_succ_phis_ok. exact C1.
Qed.
End Targets.

Lemma process_frontier_length vars : forall fr bs work, length (fst (process_frontier vars fr bs work)) = length bs.
Proof.
  induction fr as [|f tl IH]; intros bs work; simpl; [reflexivity|].
  destruct (nth_error bs (N.to_nat f)) as [b|]; [|apply IH].
  destruct (add_phis vars b 0) as [b' pushes]. rewrite IH. apply update_nth_length.
Qed.

Lemma insert_phis_length frontier : forall fuel bs work bs',
  insert_phis fuel frontier bs work = SOk bs' -> length bs' = length bs.
Proof.
  induction fuel as [|fuel IH]; intros bs work bs' H.
  - destruct work; simpl in H; [|discriminate]. inversion H; subst. reflexivity.
  - destruct work as [|cur rest]; simpl in H; [inversion H; subst; reflexivity|].
    destruct (nth_error bs cur) as [b|]; [|discriminate].
    destruct (vars_written b) as [|v vs] eqn:Ev; [eapply IH; eassumption|].
    destruct (process_frontier (v :: vs) (nth cur frontier []) bs rest) as [bs1 work1] eqn:Ep.
    rewrite (IH _ _ _ H). change bs1 with (fst (bs1, work1)). rewrite <- Ep. apply process_frontier_length.
Qed.

Lemma rename_tree_length decls children : forall fuel cur bs env bs' env',
  rename_tree fuel decls children cur bs env = SOk (bs', env') -> length bs' = length bs.
Proof.
  induction fuel as [|fuel IH]; intros cur bs env bs' env' H; [discriminate H|].
  rewrite rename_tree_unfold in H.
  destruct (nth_error bs cur) as [b|] eqn:Eb; [|discriminate].
  sb2 H.
  assert (K : forall kids l e l' e',
             rename_kids fuel decls children kids l e = SOk (l', e') -> length l' = length l).
  { induction kids as [|k tl IHk]; intros l e l' e' Hk; simpl in Hk.
    - inversion Hk; subst. reflexivity.
    - sb2 Hk. rewrite (IHk _ _ _ _ Hk). eapply IH. exact E0. }
  rewrite (K _ _ _ _ _ H), (proj1 (update_succ_phis_inv _ _ _)). apply update_nth_length.
Qed.

Lemma update_decl_stmt_assigns env s : assigns (update_decl_stmt env s) = assigns s.
Proof. destruct s as [m names t dims| | | | | |]; try reflexivity. destruct names; [reflexivity|]. destruct t; reflexivity. Qed.

(* the children table reaches every block *)
Definition children_cover (children : list (list N)) (n : nat) : Prop :=
  forall i, i < n -> In i (preorder (S n) children 0).

(* T4 *)
Theorem into_ssa_mixed_keys_ok : forall frontier children c c',
  children_cover children (length (c_blocks c)) ->
  forallb (is_local_in (c_decls c)) (c_params c) = true ->
  into_ssa frontier children c = SOk c' -> mixed_keys_ok c' = true.
Proof.
  intros frontier children c c' Hcov Hpar H.
  destruct (into_ssa_stages _ _ _ _ H) as (fuel & bs1 & env0 & bs2 & env & H1 & _ & H2 & ->).
  set (decls := c_decls c) in *.
  destruct (rename_tree_targets decls children _ _ _ _ _ _ H2) as [_ P].
  assert (L2 : length bs2 = length (c_blocks c)).
  { rewrite (rename_tree_length _ _ _ _ _ _ _ _ H2). eapply insert_phis_length. exact H1. }
  (* every assignment target of the output is versioned exactly when it is a declared local *)
  assert (T : forall x, In x (all_targets {| c_kind := c_kind c; c_params := map (fun x => with_version x 0%N) (c_params c);
                                             c_decls := [];
                                             c_blocks := map (fun b => set_stmts b (map (update_decl_stmt env) (b_stmts b))) bs2 |}) ->
                        versioned x = is_local_in decls x).
  { intros x Hx. unfold all_targets in Hx. cbn [c_blocks] in Hx. apply in_flat_map in Hx. destruct Hx as (b' & Hb' & Hx).
    apply in_map_iff in Hb'. destruct Hb' as (b & <- & Hb). cbn [set_stmts b_stmts] in Hx.
    apply in_flat_map in Hx. destruct Hx as (s' & Hs' & Hx). apply in_map_iff in Hs'. destruct Hs' as (s & <- & Hs).
    rewrite update_decl_stmt_assigns in Hx.
    destruct (In_nth_error _ _ Hb) as (i & Hi).
    assert (Hlt : i < length bs2) by (apply nth_error_Some; congruence).
    rewrite L2 in Hlt. specialize (P i (Hcov i Hlt) b Hi s Hs x).
    destruct (assigns s) as [y|]; [|contradiction]. destruct Hx as [<-|[]]. apply P. reflexivity. }
  unfold mixed_keys_ok. apply forallb_forall. intros x Hx.
  destruct (versioned x) eqn:Vx; [reflexivity|]. cbn [orb]. apply negb_true_iff.
  destruct (existsb _ _) eqn:Ex; [|reflexivity]. exfalso.
  apply existsb_exists in Ex. destruct Ex as (y & Hy & Hxy). apply andb_true_iff in Hxy as [Hk Vy].
  apply vname_sim_eq in Hk. pose proof (T x Hx) as Tx. rewrite Vx in Tx.
  rewrite (is_local_in_key decls x y Hk) in Tx.
  apply in_app_or in Hy. destruct Hy as [Hy|Hy].
  - rewrite <- (T y Hy), Vy in Tx. discriminate Tx.
  - cbn [c_params] in Hy. apply in_map_iff in Hy. destruct Hy as (p & <- & Hp).
    rewrite forallb_forall in Hpar. rewrite (is_local_in_key decls (with_version p 0) p eq_refl), (Hpar p Hp) in Tx.
    discriminate Tx.
Qed.

(* ------------------------------------------------------------------------ *)
(* variants and corollaries                                                  *)
(* ------------------------------------------------------------------------ *)

(* [phi_free] in terms of the validator itself: a graph is phi-free as soon as it is an
   erasure of itself (so the existing `erasecheck pre pre` evaluates the hypothesis) *)
Lemma leading_phis_parts : forall ss, ss = fst (leading_phis ss) ++ snd (leading_phis ss).
Proof.
  induction ss as [|s tl IH]; simpl; [reflexivity|]. destruct (is_phi_stmt s); [|reflexivity].
  destruct (leading_phis tl) as [p b]. simpl in *. f_equal. exact IH.
Qed.

Lemma stmts_sim_length : forall xs ys, stmts_sim xs ys = true -> length xs = length ys.
Proof.
  induction xs as [|a ta IH]; intros [|c tc] H; cbn [stmts_sim] in H; try discriminate; [reflexivity|].
  apply andb_true_iff in H as [_ H]. simpl. f_equal. apply IH. exact H.
Qed.

Lemma self_erasure_self_sim c : erase_eqb c c = true -> self_sim (c_blocks c) = true.
Proof.
  unfold erase_eqb, self_sim. induction (c_blocks c) as [|b tl IH]; intros H; [reflexivity|].
  simpl in H. apply andb_true_iff in H as [Hb Ht]. cbn [forallb]. rewrite (IH Ht), andb_true_r.
  unfold block_sim in Hb. apply andb_true_iff in Hb as [_ Hb]. unfold body_of in Hb.
  pose proof (leading_phis_parts (b_stmts b)) as L. pose proof (stmts_sim_length _ _ Hb) as Len.
  destruct (leading_phis (b_stmts b)) as [p body]. cbn [fst snd] in *.
  assert (p = []) as ->.
  { rewrite L in Len at 1. rewrite app_length in Len. destruct p; [reflexivity|simpl in Len; lia]. }
  simpl in L. rewrite L. rewrite L in Hb at 1. exact Hb.
Qed.

Theorem into_ssa_is_erasure_of_self_erasure : forall frontier children c c',
  erase_eqb c c = true -> decls_ok c = true ->
  into_ssa frontier children c = SOk c' -> erase_eqb c c' = true.
Proof.
  intros frontier children c c' Hs Hd H. unfold erase_eqb. apply erase_inv_blocks_sim.
  destruct (into_ssa_stages _ _ _ _ H) as (fuel & bs1 & env0 & bs2 & env & H1 & _ & H2 & ->). cbn [c_blocks].
  apply update_decls_erases; [exact Hd|].
  eapply rename_tree_erases; [exact H2|]. eapply insert_phis_erases; [exact H1|].
  apply self_sim_inv. apply self_erasure_self_sim. exact Hs.
Qed.

(* the boolean the validator SsaCheck.ssa_check evaluates for T3 *)
Lemma NoDup_nodup_v : forall l, NoDup l -> nodup_v l = true.
Proof.
  induction 1 as [|x tl Hx _ IH]; [reflexivity|]. cbn [nodup_v]. rewrite IH, andb_true_r. apply negb_true_iff.
  destruct (existsb (vname_eqb x) tl) eqn:E; [|reflexivity]. exfalso. apply existsb_exists in E.
  destruct E as (y & Hy & Hxy). apply Hx. unfold vname_eqb in Hxy.
  apply andb_true_iff in Hxy as [Hxy Hv]. apply andb_true_iff in Hxy as [Hn Hs].
  apply ident_eqb_eq' in Hn. apply (opt_eqb_eq' ident_eqb ident_eqb_eq') in Hs. apply optN_eqb_eq in Hv.
  destruct x, y; cbn in *. subst. exact Hy.
Qed.

Theorem into_ssa_unique_defs_check : forall frontier children c c',
  unversioned c -> into_ssa frontier children c = SOk c' -> nodup_v (all_defs c') = true.
Proof. intros. apply NoDup_nodup_v. eapply into_ssa_unique_defs_unversioned; eassumption. Qed.

(* [children_cover] as a computation *)
Lemma children_coverb_spec children n : children_coverb children n = true -> children_cover children n.
Proof.
  unfold children_coverb, children_cover. rewrite forallb_forall. intros H i Hi.
  assert (Hin : In i (seq 0 n)) by (apply in_seq; lia).
  specialize (H i Hin). apply existsb_exists in H. destruct H as (j & Hj & Hij). apply Nat.eqb_eq in Hij. subst j. exact Hj.
Qed.

(* the graph before SSA conversion: no phi expression, one variable per local declaration,
   parameters declared as locals *)
(* the output of the construction passes the whole erasure validator *)
Theorem into_ssa_passes_erase_check : forall frontier children c c',
  pre_ssa_ok c = true -> children_cover children (length (c_blocks c)) ->
  into_ssa frontier children c = SOk c' -> erase_check c c' = true.
Proof.
  intros frontier children c c' Hp Hc H. unfold pre_ssa_ok in Hp.
  apply andb_true_iff in Hp as [Hp Hpar]. apply andb_true_iff in Hp as [Hpf Hd].
  unfold erase_check. rewrite (into_ssa_is_erasure _ _ _ _ Hpf Hd H).
  rewrite (into_ssa_mixed_keys_ok _ _ _ _ Hc Hpar H). reflexivity.
Qed.

(* [unversioned] as a computation *)
Lemma unversioned_of_forallb c : forallb block_unv (c_blocks c) = true -> unversioned c.
Proof.
  unfold unversioned, all_unv. rewrite forallb_forall. intros H i b Hb. apply H. eapply nth_error_In. exact Hb.
Qed.

(* ------------------------------------------------------------------------ *)
(* the hypotheses are needed (the statements without them are false)         *)
(* ------------------------------------------------------------------------ *)
Module Needed.
Definition k0 : know := {| kval := None; kdeg := None |}.
Definition m0 : meta := {| m_start := 0%N; m_end := 0%N; m_file := None |}.
Definition xu : vname := {| vn_name := [120%N]; vn_suffix := None; vn_version := None |}.
Definition yu : vname := {| vn_name := [121%N]; vn_suffix := None; vn_version := None |}.
Definition blk i ss ps su := {| b_index := i; b_depth := 0%N; b_stmts := ss; b_preds := ps; b_succs := su |}.

(* a local declaration that lists two different variables: update_decl_stmt re-issues the
   versions of the FIRST name only (the Rust code asserts names.len() == 1 at this point) *)
Definition c1 : cfg :=
  {| c_kind := KFunction; c_params := []; c_decls := [(xu, TLocal); (yu, TLocal)];
     c_blocks := [ blk 0%N [SDecl m0 [xu; yu] TLocal []] [] [] ] |}.
Example two_name_declaration_is_not_erased :
  block_unv (blk 0%N [SDecl m0 [xu; yu] TLocal []] [] []) = true /\ phi_free c1 = true /\ decls_ok c1 = false /\
  exists c', into_ssa [[]] [[]] c1 = SOk c' /\ erase_eqb c1 c' = false.
Proof. vm_compute. repeat split. eexists. split; reflexivity. Qed.

(* a phi expression inside the input (accepted by SsaNoPanic.unversioned: phi arguments are not visited) *)
Definition c2 : cfg :=
  {| c_kind := KFunction; c_params := []; c_decls := [(xu, TLocal)];
     c_blocks := [ blk 0%N [SRet m0 (EInfix IAdd (EPhi [] k0) (ENum 1 k0) k0)] [] [] ] |}.
Example phi_in_input_is_not_erased :
  block_unv (blk 0%N [SRet m0 (EInfix IAdd (EPhi [] k0) (ENum 1 k0) k0)] [] []) = true /\
  phi_free c2 = false /\ decls_ok c2 = true /\
  exists c', into_ssa [[]] [[]] c2 = SOk c' /\ erase_eqb c2 c' = false.
Proof. vm_compute. repeat split. eexists. split; reflexivity. Qed.

(* a children table that does not reach block 1 leaves its assignment unversioned *)
Definition c3 : cfg :=
  {| c_kind := KFunction; c_params := []; c_decls := [(xu, TLocal)];
     c_blocks := [ blk 0%N [SSubst m0 xu OpVar (ENum 1 k0) None (Some TLocal)] [] [1%N];
                   blk 1%N [SSubst m0 xu OpVar (ENum 2 k0) None (Some TLocal)] [0%N] [] ] |}.
Example uncovered_block_gives_mixed_keys :
  pre_ssa_ok c3 = true /\ children_coverb [[]; []] 2 = false /\
  exists c', into_ssa [[]; []] [[]; []] c3 = SOk c' /\ mixed_keys_ok c' = false /\ erase_eqb c3 c' = true.
Proof. vm_compute. repeat split. eexists. repeat split. Qed.

(* a parameter that is not a declared local and is assigned in the body *)
Definition c4 : cfg :=
  {| c_kind := KFunction; c_params := [xu]; c_decls := [];
     c_blocks := [ blk 0%N [SSubst m0 xu OpVar (ENum 1 k0) None (Some TLocal)] [] [] ] |}.
Example undeclared_parameter_gives_mixed_keys :
  pre_ssa_ok c4 = false /\ children_coverb [[]] 1 = true /\
  exists c', into_ssa [[]] [[]] c4 = SOk c' /\ mixed_keys_ok c' = false.
Proof. vm_compute. repeat split. eexists. repeat split. Qed.

(* a phi statement standing behind another statement in the input stays where it is
   (SsaNoPanic.unversioned alone does not give T2) *)
Definition c5 : cfg :=
  {| c_kind := KFunction; c_params := []; c_decls := [(xu, TLocal)];
     c_blocks := [ blk 0%N [SAssert m0 (ENum 1 k0); SSubst m0 xu OpVar (EPhi [] k0) None (Some TLocal)] [] [] ] |}.
Example phi_statement_in_input_stays_in_body :
  forallb block_unv (c_blocks c5) = true /\ phi_free c5 = false /\
  exists c', into_ssa [[]] [[]] c5 = SOk c' /\
             existsb (fun b => existsb is_phi_stmt (body_of b)) (c_blocks c') = true.
Proof. vm_compute. repeat split. eexists. split; reflexivity. Qed.
End Needed.
