(* DesugarAlphaInj -- the alpha-renaming reading of the renaming theorems (C18).

   Proofs.DesugarAlpha proves that [expand_spec] COMMUTES with every [f] that
   fixes the names of the body.  That alone is parametricity in the naming
   functions: an [f] that sends a generated name onto a name the body uses (or two
   generated names onto one) satisfies [fixes_names] too, and then [ren_s f]
   merges variables.  Here the missing hypothesis is added: [f] is injective on
   the names in scope and the names of the expansion ([inj_on]).  Then [ren_s f]
   has a left inverse on the expansion, i.e. the two expansions are renamings of
   each other by maps that identify no two names: alpha-equivalent. *)
From Coq Require Import ZArith NArith List Bool String Lia.
Require Import Model.Ast Model.Desugar Spec.ExpandSpec Spec.RenameSpec Proofs.DesugarProofs Proofs.DesugarRefine
               Proofs.DesugarAlpha.
Import ListNotations.
Local Open Scope list_scope.

(* ---- renamings compose ---------------------------------------------------- *)

Section Comp.
  Variables f g : string -> string.
  Let h (x : string) : string := g (f x).

  Lemma ren_e_comp : forall e, ren_e g (ren_e f e) = ren_e h e.
  Proof.
    assert (Hlist : forall vs, Forall (fun e => ren_e g (ren_e f e) = ren_e h e) vs ->
                               map (ren_e g) (map (ren_e f) vs) = map (ren_e h) vs).
    { intros vs HF. rewrite map_map. apply map_ext_in. rewrite Forall_forall in HF. exact HF. }
    apply (expression_ind' (fun e => ren_e g (ren_e f e) = ren_e h e)); intros; cbn [ren_e].
    - rewrite H, H0. reflexivity.
    - rewrite H. reflexivity.
    - rewrite H, H0, H1. reflexivity.
    - rewrite H. reflexivity.
    - f_equal. rewrite map_map. apply map_ext_in. intros a Ha.
      rewrite Forall_forall in H. specialize (H a Ha).
      destruct a as [s|i]; [reflexivity|]. cbn [access_all] in H. rewrite H. reflexivity.
    - reflexivity.
    - rewrite Hlist; auto.
    - rewrite !Hlist; auto.
    - rewrite Hlist; auto.
    - rewrite Hlist; auto.
  Qed.

  Lemma ren_a_comp : forall acc, map (ren_a g) (map (ren_a f) acc) = map (ren_a h) acc.
  Proof.
    intros acc. rewrite map_map. apply map_ext. intros [s|i]; [reflexivity|].
    cbn [ren_a]. rewrite ren_e_comp. reflexivity.
  Qed.

  Lemma ren_s_comp : forall s, ren_s g (ren_s f s) = ren_s h s.
  Proof.
    assert (Hel : forall vs, map (ren_e g) (map (ren_e f) vs) = map (ren_e h) vs).
    { intros vs. rewrite map_map. apply map_ext. intros a. apply ren_e_comp. }
    assert (Hsl : forall l, Forall (fun s => ren_s g (ren_s f s) = ren_s h s) l ->
                            map (ren_s g) (map (ren_s f) l) = map (ren_s h) l).
    { intros l HF. rewrite map_map. apply map_ext_in. rewrite Forall_forall in HF. exact HF. }
    apply (statement_ind' (fun s => ren_s g (ren_s f s) = ren_s h s)); intros; cbn [ren_s].
    - rewrite ren_e_comp, H. destruct e as [e'|]; [|reflexivity]. rewrite (H0 e' eq_refl). reflexivity.
    - rewrite ren_e_comp, H. reflexivity.
    - rewrite ren_e_comp. reflexivity.
    - rewrite Hsl; auto.
    - rewrite Hel. reflexivity.
    - rewrite ren_a_comp, ren_e_comp. reflexivity.
    - rewrite !ren_e_comp. reflexivity.
    - rewrite !ren_e_comp. reflexivity.
    - f_equal. rewrite map_map. apply map_ext. intros [str|e]; [reflexivity|].
      cbn [ren_log]. rewrite ren_e_comp. reflexivity.
    - rewrite Hsl; auto.
    - rewrite ren_e_comp. reflexivity.
  Qed.
End Comp.

(* ---- an injective renaming has a left inverse on a finite set of names ----- *)

Fixpoint inv_on (f : string -> string) (l : list string) (y : string) : string :=
  match l with
  | [] => y
  | x :: r => if String.eqb (f x) y then x else inv_on f r y
  end.

Lemma inv_on_left : forall f l, inj_on f l -> forall x, In x l -> inv_on f l (f x) = x.
Proof.
  intros f l. induction l as [|a l IH]; intros Hinj x Hin; [destruct Hin|].
  cbn [inv_on]. destruct (String.eqb (f a) (f x)) eqn:E.
  - apply String.eqb_eq in E. apply Hinj; [left; reflexivity | exact Hin | exact E].
  - destruct Hin as [->|Hin]; [rewrite String.eqb_refl in E; discriminate|].
    apply IH; [|exact Hin]. intros u v Hu Hv. apply Hinj; right; assumption.
Qed.

Lemma ren_s_left_inverse : forall f g s,
  (forall x, In x (stmt_names s) -> g (f x) = x) -> ren_s g (ren_s f s) = s.
Proof. intros f g s H. rewrite ren_s_comp. apply ren_s_fix. exact H. Qed.

(* ---- THE THEOREMS --------------------------------------------------------- *)

(* [scope]: names visible in the body that need not occur in it (the parameters
   of the definition).  [f] fixes them and the names of the body, and identifies
   no two names among them and the names of the expansion [b]: then the expansion
   under the scheme "f after (comp_name, counter_name)" is [ren_s f b], and
   [ren_s f] is undone on it by a renaming [g] that is inverse to [f] on every
   name in sight. *)
Theorem expand_spec_alpha :
  forall (f : string -> string) sig_of comp_name counter_name scope body b,
    fixes_names f body ->
    counters_separate f counter_name ->
    expand_spec sig_of comp_name counter_name body = Some b ->
    inj_on f (scope ++ stmt_names b) ->
    expand_spec sig_of (fun id m => option_map f (comp_name id m)) (fun m => option_map f (counter_name m)) body
      = Some (ren_s f b) /\
    exists g, (forall x, In x (scope ++ stmt_names b) -> g (f x) = x) /\ ren_s g (ren_s f b) = b.
Proof.
  intros f sig_of cn kn scope body b Hfix Hsep Hb Hinj. split.
  - rewrite (expand_spec_naming_independent f sig_of cn kn body Hfix Hsep), Hb. reflexivity.
  - exists (inv_on f (scope ++ stmt_names b)).
    assert (Hg : forall x, In x (scope ++ stmt_names b) -> inv_on f (scope ++ stmt_names b) (f x) = x)
      by (apply inv_on_left; exact Hinj).
    split; [exact Hg|]. apply ren_s_left_inverse. intros x Hx. apply Hg. apply in_or_app. right. exact Hx.
Qed.

Theorem desugar_is_expand_up_to_alpha :
  forall (f : string -> string) (lib : file_library) ts m l scope b,
    Forall wf_node (stmt_exprs (Block m l)) ->
    Forall short_node (sub_stmts (Block m l)) ->
    fixes_names f (Block m l) ->
    counters_separate f (name_opt lib "anon_var") ->
    desugar_template (env_of ts) lib (Block m l) = DOk b ->
    inj_on f (scope ++ stmt_names b) ->
    expand_spec (sig_table ts) (fun id mm => option_map f (name_opt lib id mm))
                (fun mm => option_map f (name_opt lib "anon_var" mm)) (Block m l) = Some (ren_s f b) /\
    exists g, (forall x, In x (scope ++ stmt_names b) -> g (f x) = x) /\ ren_s g (ren_s f b) = b.
Proof.
  intros f lib ts m l scope b Hwf Hshort Hfix Hsep Hd Hinj.
  pose proof (desugar_is_expand lib ts m l Hwf Hshort) as E. rewrite Hd in E. cbn [to_opt] in E.
  exact (expand_spec_alpha f (sig_table ts) (name_opt lib) (name_opt lib "anon_var") scope (Block m l) b
                           Hfix Hsep (eq_sym E) Hinj).
Qed.

(* the hypothesis excludes what [fixes_names] alone lets through: an [f] that
   sends a name of the expansion onto another name of the expansion *)
Lemma inj_on_excludes_capture : forall f l x y,
  In x l -> In y l -> x <> y -> f x = f y -> ~ inj_on f l.
Proof. intros f l x y Hx Hy Hne He Hinj. apply Hne. apply Hinj; assumption. Qed.
