(* FileIDs are names: when the files are given in another order they are
   numbered differently (FileLibrary hands out consecutive ids in the order in
   which the files are read), so every [d_file], every primary-label file of
   every report and the list of user inputs change together.  Over
   Model.Runner: renumbering by an injective map changes nothing but those
   numbers.  (The payload of a report - message, label texts, notes - is
   opaque data in Model.Runner and is taken not to mention FileIDs.) *)
From Coq Require Import ZArith List Bool Permutation.
Require Import Model.Base Gen.Category Model.Runner Spec.RunnerSpec Proofs.RunnerProofs.
Import ListNotations.
Local Open Scope Z_scope.

Definition rn_report (f : Z -> Z) (r : report) : report :=
  mkReport (r_level r) (r_id r) (r_name r) (map f (r_pfiles r)) (r_payload r).

Definition rn_def (f : Z -> Z) (d : def) : def :=
  mkDef (d_kind d) (d_name d) (f (d_file d)) (map (rn_report f) (d_lift d))
        (option_map (rn_report f) (d_err d)) (map (rn_report f) (d_pass d)) (d_lookups d).

Definition rn_project (f : Z -> Z) (p : project) : project :=
  mkProject (map (rn_report f) (p_parse p)) (map (rn_def f) (p_defs p)) (map f (p_user p)).

Definition injective (f : Z -> Z) : Prop := forall x y, f x = f y -> x = y.

Section Renumbering.
  Variable f : Z -> Z.
  Hypothesis f_inj : injective f.

  Lemma existsb_eqb_map : forall x l, existsb (Z.eqb (f x)) (map f l) = existsb (Z.eqb x) l.
  Proof.
    intros x l. induction l as [|a l IH]; simpl; auto. rewrite IH. f_equal.
    destruct (x =? a) eqn:E.
    - apply Z.eqb_eq in E. subst. apply Z.eqb_refl.
    - apply Z.eqb_neq in E. apply Z.eqb_neq. intro H. apply E. apply f_inj. exact H.
  Qed.

  Lemma user_def_b_rn : forall user d, user_def_b (map f user) (rn_def f d) = user_def_b user d.
  Proof. intros. unfold user_def_b. simpl. apply existsb_eqb_map. Qed.

  Lemma filter_map_comm : forall (A B : Type) (g : A -> B) (P : B -> bool) (Q : A -> bool) l,
    (forall a, P (g a) = Q a) -> filter P (map g l) = map g (filter Q l).
  Proof.
    intros A B g P Q l H. induction l as [|a l IH]; simpl; auto.
    rewrite H. destruct (Q a); simpl; rewrite IH; reflexivity.
  Qed.

  Lemma user_defs_rn : forall p, user_defs (rn_project f p) = map (rn_def f) (user_defs p).
  Proof.
    intros p. unfold user_defs. simpl. apply filter_map_comm. intros d. apply user_def_b_rn.
  Qed.

  Lemma produced_def_rn : forall d, produced_def (rn_def f d) = map (rn_report f) (produced_def d).
  Proof.
    intros d. unfold produced_def. simpl. rewrite map_app. f_equal. destruct (d_err d); reflexivity.
  Qed.

  Lemma flat_map_produced_rn : forall ds,
    flat_map produced_def (map (rn_def f) ds) = map (rn_report f) (flat_map produced_def ds).
  Proof.
    induction ds as [|d ds IH]; simpl; auto. rewrite map_app, IH, produced_def_rn. reflexivity.
  Qed.

  Lemma produced_rn : forall p, produced (rn_project f p) = map (rn_report f) (produced p).
  Proof.
    intros p. unfold produced. rewrite user_defs_rn, flat_map_produced_rn, map_app. reflexivity.
  Qed.

  Lemma forallb_not_user_rn : forall user l,
    forallb (fun x => negb (existsb (Z.eqb x) (map f user))) (map f l) =
    forallb (fun x => negb (existsb (Z.eqb x) user)) l.
  Proof.
    intros user l. induction l as [|a l IH]; simpl; auto. rewrite IH, existsb_eqb_map. reflexivity.
  Qed.

  Lemma keep_b_rn : forall o user r, keep_b o (map f user) (rn_report f r) = keep_b o user r.
  Proof.
    intros o user r. unfold keep_b. simpl. rewrite forallb_not_user_rn.
    destruct (r_pfiles r); reflexivity.
  Qed.

  Lemma keys_rn : forall ds, map d_key (map (rn_def f) ds) = map d_key ds.
  Proof. intros ds. rewrite map_map. apply map_ext. intros d. reflexivity. Qed.

  Lemma wf_project_rn : forall p, wf_project p -> wf_project (rn_project f p).
  Proof. intros p H. unfold wf_project. simpl. rewrite keys_rn. exact H. Qed.

  Lemma analysis_order_rn : forall p order, analysis_order p order <-> analysis_order (rn_project f p) order.
  Proof. intros p order. unfold analysis_order. rewrite user_defs_rn, keys_rn. tauto. Qed.

  Theorem file_ids_renumbered : forall p o order order',
    wf_project p -> analysis_order p order -> analysis_order p order' ->
    Permutation (res_shown (run_keys (rn_project f p) o order'))
                (map (rn_report f) (res_shown (run_keys p o order))) /\
    res_exit (run_keys (rn_project f p) o order') = res_exit (run_keys p o order).
  Proof.
    intros p o order order' Hwf Ho Ho'.
    assert (Hwf' : wf_project (rn_project f p)) by (apply wf_project_rn; exact Hwf).
    assert (Ho2 : analysis_order (rn_project f p) order') by (apply (proj1 (analysis_order_rn p order')); exact Ho').
    assert (HP : Permutation (res_shown (run_keys (rn_project f p) o order'))
                             (map (rn_report f) (res_shown (run_keys p o order)))).
    { eapply Permutation_trans. apply conservation; auto.
      simpl. rewrite produced_rn.
      rewrite (filter_map_comm _ _ (rn_report f) (keep_b o (map f (p_user p))) (keep_b o (p_user p)))
        by (intros r; apply keep_b_rn).
      apply Permutation_map. apply Permutation_sym. apply conservation; auto. }
    split; auto.
    destruct (run_keys_spec (rn_project f p) o order' (analysis_order_ok _ _ Hwf' Ho2)) as [A1 [_ [C1 _]]].
    destruct (run_keys_spec p o order (analysis_order_ok _ _ Hwf Ho)) as [A2 [_ [C2 _]]].
    pose proof (Permutation_length HP) as HL. rewrite map_length in HL. rewrite A1, A2 in HL.
    rewrite C1, C2, HL. reflexivity.
  Qed.
End Renumbering.

(* non-vacuity: swapping the ids of two files *)
Definition swap01 (x : Z) : Z := if x =? 0 then 1 else if x =? 1 then 0 else x.

Lemma swap01_injective : injective swap01.
Proof.
  intros x y. unfold swap01.
  destruct (x =? 0) eqn:A; destruct (y =? 0) eqn:B; destruct (x =? 1) eqn:C; destruct (y =? 1) eqn:D;
    repeat match goal with
           | H : (_ =? _) = true |- _ => apply Z.eqb_eq in H
           | H : (_ =? _) = false |- _ => apply Z.eqb_neq in H
           end; intros; subst; try congruence; try reflexivity.
Qed.
