(* The invariant of lifting (C12) and its preservation by the macro steps of
   visit_statement: appending a leaf, completing a block, opening a branch,
   closing a loop body with back edges. *)
From stdpp Require Import list sets.
Require Import Model.Lift Spec.CfgSpec Proofs.LiftBasics.
Import Base(outcome, Ok, Err, Panic, OutOfFuel, bind).

(* ------------------------------------------------------------------ *)
(* complete_basic_block as a lookup characterisation                   *)
(* ------------------------------------------------------------------ *)
Definition close (j : nat) (b : block) : block := patch_false j (add_succ j b).

Definition add_preds (ps : list nat) (b : block) : block :=
  fold_left (fun b i => add_pred i b) ps b.

Lemma add_preds_spec ps b :
  b_index (add_preds ps b) = b_index b /\ b_depth (add_preds ps b) = b_depth b /\
  b_items (add_preds ps b) = b_items b /\ b_succs (add_preds ps b) = b_succs b /\
  (forall x, x ∈ b_preds (add_preds ps b) <-> x ∈ b_preds b \/ x ∈ ps) /\
  (ssorted (b_preds b) -> ssorted (b_preds (add_preds ps b))).
Proof.
  unfold add_preds. revert b. induction ps as [|i r IH]; intros b; simpl.
  - repeat split; try done; set_solver.
  - destruct (IH (add_pred i b)) as (H1 & H2 & H3 & H4 & H5 & H6). simpl in *.
    repeat split; try done.
    + intros Hx. apply H5 in Hx. rewrite elem_of_ins in Hx. set_solver.
    + intros Hx. apply H5. rewrite elem_of_ins. set_solver.
    + intros Hs. apply H6, ssorted_ins, Hs.
Qed.

Lemma link_ok j g i :
  i < length g -> j < length g -> i <> j ->
  link j (Ok g) i = Ok (alter (add_pred i) j (alter (close j) i g)).
Proof.
  intros Hi Hj Hne. unfold link. simpl.
  rewrite upd_ok by done. simpl.
  rewrite upd_ok by (by rewrite alter_length). simpl.
  rewrite upd_ok by (by rewrite !alter_length). f_equal.
  apply list_eq. intros k. rewrite !lookup_alter_case.
  repeat case_decide; subst; try done; destruct (g !! k); done.
Qed.

Lemma complete_fold j ps : forall h nb,
  length h = j -> (forall i, i ∈ ps -> i < j) -> NoDup ps ->
  exists h', fold_left (link j) ps (Ok (h ++ [nb])) = Ok (h' ++ [add_preds ps nb]) /\ length h' = j /\ (forall i b, h !! i = Some b -> h' !! i = Some (if decide (i ∈ ps) then close j b else b)).
Proof.
  induction ps as [|i r IH]; intros h nb Hl Hlt Hnd; cbn [fold_left].
  - exists h. split; [done|]. split; [done|].
    intros i b Hb. case_decide; [set_solver|done].
  - assert (i < j) by (apply Hlt; set_solver).
    rewrite link_ok; [|rewrite ?app_length; simpl; lia..].
    rewrite (alter_app_l _ h [nb] i) by lia.
    rewrite alter_app_r_alt by (rewrite alter_length; lia).
    replace (j - length (alter (close j) i h)) with 0 by (rewrite alter_length; lia).
    cbn [alter list_alter].
    apply NoDup_cons in Hnd as [Hni Hnd].
    destruct (IH (alter (close j) i h) (add_pred i nb)) as (h' & Hf & Hlen & Hlk).
    { by rewrite alter_length. } { intros; apply Hlt; set_solver. } { done. }
    exists h'. split; [done|]. split; [done|].
    intros k b Hb. specialize (Hlk k).
    rewrite lookup_alter_case in Hlk.
    destruct (decide (i = k)) as [->|Hne].
    + rewrite Hb in Hlk. simpl in Hlk. rewrite (Hlk _ eq_refl).
      rewrite (decide_False (P := k ∈ r)) by done.
      rewrite (decide_True (P := k ∈ k :: r)) by set_solver. done.
    + rewrite (Hlk _ Hb). f_equal. repeat case_decide; try done; set_solver.
Qed.

Lemma complete_spec g ps d :
  (forall i, i ∈ ps -> i < length g) -> NoDup ps ->
  exists h nb, complete g ps d = Ok (h ++ [nb]) /\ length h = length g /\ (forall i b, g !! i = Some b -> h !! i = Some (if decide (i ∈ ps) then close (length g) b else b)) /\ b_index nb = length g /\ b_depth nb = d /\ b_items nb = [] /\ b_succs nb = [] /\ (forall x, x ∈ b_preds nb <-> x ∈ ps) /\ ssorted (b_preds nb).
Proof.
  intros Hlt Hnd. unfold complete.
  destruct (complete_fold (length g) ps g (new_block (length g) d) eq_refl Hlt Hnd)
    as (h & Hf & Hlen & Hlk).
  destruct (add_preds_spec ps (new_block (length g) d)) as (H1 & H2 & H3 & H4 & H5 & H6).
  exists h, (add_preds ps (new_block (length g) d)). simpl in *.
  repeat split; try done.
  - intros Hx. apply H5 in Hx. set_solver.
  - intros Hx. apply H5. set_solver.
  - by apply H6.
Qed.

(* the back edges of a loop body *)
Lemma back_edge_ok h g i :
  i < length g -> h < length g ->
  back_edge h (Ok g) i = Ok (alter (add_pred i) h (alter (add_succ h) i g)).
Proof.
  intros Hi Hh. unfold back_edge. simpl.
  rewrite upd_ok by done. simpl. rewrite upd_ok by (by rewrite alter_length). done.
Qed.

Lemma back_fold h ps : forall g,
  h < length g -> (forall i, i ∈ ps -> i < length g /\ i <> h) -> NoDup ps ->
  exists g', fold_left (back_edge h) ps (Ok g) = Ok g' /\ length g' = length g /\
    forall i b, g !! i = Some b ->
      g' !! i = Some (if decide (i = h) then add_preds ps b
                      else if decide (i ∈ ps) then add_succ h b else b).
Proof.
  induction ps as [|i r IH]; intros g Hh Hps Hnd; cbn [fold_left].
  - exists g. split; [done|]. split; [done|]. intros i b Hb.
    repeat case_decide; try done; set_solver.
  - destruct (Hps i) as [Hi Hih]; [set_solver|].
    rewrite back_edge_ok by done.
    apply NoDup_cons in Hnd as [Hni Hnd].
    destruct (IH (alter (add_pred i) h (alter (add_succ h) i g))) as (g' & Hf & Hlen & Hlk).
    { by rewrite !alter_length. }
    { intros k Hk. rewrite !alter_length. apply Hps. set_solver. }
    { done. }
    exists g'. split; [done|]. split; [by rewrite Hlen, !alter_length|].
    intros k b Hb. specialize (Hlk k). rewrite !lookup_alter_case, Hb in Hlk.
    destruct (decide (k = h)) as [->|Hkh].
    + rewrite (decide_True (P := h = h)), (decide_False (P := i = h)) in Hlk by done.
      rewrite (Hlk _ eq_refl). done.
    + rewrite (decide_False (P := h = k)) in Hlk by done.
      destruct (decide (i = k)) as [->|Hik].
      * rewrite (Hlk _ eq_refl).
        rewrite (decide_False (P := k ∈ r)) by done.
        rewrite (decide_True (P := k ∈ k :: r)) by set_solver. done.
      * rewrite (Hlk _ eq_refl). f_equal. repeat case_decide; try done; set_solver.
Qed.

(* ------------------------------------------------------------------ *)
(* the invariant                                                       *)
(* ------------------------------------------------------------------ *)
Definition ends_plain (b : block) : Prop :=
  forall c t f, last (b_items b) <> Some (IBranch c t f).

(* n: number of blocks; P: the blocks that still wait for their exit edge *)
Definition shape (n : nat) (P : nat -> Prop) (i : nat) (b : block) : Prop :=
  match last (b_items b) with
  | Some (IBranch c t f) =>
      t = S i /\ S i < n /\
      ((P i /\ f = None /\ forall y, y ∈ b_succs b <-> y = S i) \/
       (~ P i /\ exists x, x <> S i /\ (f = None \/ f = Some x) /\
                 forall y, y ∈ b_succs b <-> y = S i \/ y = x))
  | _ => (P i /\ b_succs b = []) \/ (~ P i /\ exists x, forall y, y ∈ b_succs b <-> y = x)
  end.

Record blk_ok (n : nat) (P : nat -> Prop) (i : nat) (b : block) : Prop := {
  ok_index : b_index b = i;
  ok_ss : ssorted (b_succs b);
  ok_sp : ssorted (b_preds b);
  ok_branch_last : forall k c t f, b_items b !! k = Some (IBranch c t f) -> S k = length (b_items b);
  ok_entry : i = 0 -> b_preds b = [];
  ok_spred : 0 < i -> exists p, p < i /\ p ∈ b_preds b;
  ok_shape : shape n P i b;
}.

Record wf (g : graph) (P : nat -> Prop) : Prop := {
  wf_blk : forall i b, g !! i = Some b -> blk_ok (length g) P i b;
  wf_m1 : forall i j bi, g !! i = Some bi -> j ∈ b_succs bi ->
            exists bj, g !! j = Some bj /\ i ∈ b_preds bj;
  wf_m2 : forall i j bj, g !! j = Some bj -> i ∈ b_preds bj ->
            exists bi, g !! i = Some bi /\ j ∈ b_succs bi;
  wf_P : forall i, P i -> i < length g;
}.

(* the state in which a statement is entered: the last block is open *)
Record pre (g : graph) (d : nat) (P0 : nat -> Prop) : Prop := {
  pre_wf : wf g (fun i => P0 i \/ i = length g - 1);
  pre_P0 : forall i, P0 i -> i < length g - 1;
  pre_last : exists b, g !! (length g - 1) = Some b /\ ends_plain b /\ b_depth b = d;
}.

Lemma pre_nonempty g d P0 : pre g d P0 -> g <> [].
Proof. intros [_ _ (b & Hb & _)] ->. done. Qed.

Lemma shape_plain n P i b :
  ends_plain b ->
  shape n P i b <-> (P i /\ b_succs b = []) \/ (~ P i /\ exists x, forall y, y ∈ b_succs b <-> y = x).
Proof.
  intros Hp. unfold shape. destruct (last (b_items b)) as [[|c t f]|] eqn:E; try done.
  by destruct (Hp c t f).
Qed.

Lemma shape_ext n n' P P' i b :
  n <= n' -> (P i <-> P' i) -> shape n P i b -> shape n' P' i b.
Proof.
  intros Hn HP. unfold shape. destruct (last (b_items b)) as [[|c t f]|]; try (rewrite HP; done).
  intros (-> & Hlt & H). split; [done|]. split; [lia|]. rewrite <- HP. done.
Qed.

Lemma blk_ok_ext n n' P P' i b :
  n <= n' -> (P i <-> P' i) -> blk_ok n P i b -> blk_ok n' P' i b.
Proof.
  intros Hn HP [H1 H2 H3 H4 H5 H6 H7]. split; try done. by eapply shape_ext.
Qed.

Lemma wf_ext g P P' : (forall i, P i <-> P' i) -> wf g P -> wf g P'.
Proof.
  intros HP [H1 H2 H3 H4]. split; try done.
  - intros i b Hb. eapply blk_ok_ext; [done|apply HP|by apply H1].
  - intros i Hi. apply H4, HP, Hi.
Qed.

(* a pending block of a well-formed graph has no successor yet, or only its true target *)
Lemma pending_plain_succs n P i b : blk_ok n P i b -> P i -> ends_plain b -> b_succs b = [].
Proof.
  intros Hok HP Hpl. pose proof (ok_shape _ _ _ _ Hok) as Hs.
  apply (shape_plain n P i b Hpl) in Hs. destruct Hs as [[_ ?]|[? _]]; done.
Qed.

(* ---------------- closing a pending block ---------------- *)
Lemma last_is_lookup {A} (l : list A) x : last l = Some x -> l !! (length l - 1) = Some x.
Proof. by rewrite last_lookup'. Qed.

Lemma blk_ok_close n n' P P' i j b :
  blk_ok n P i b -> P i -> ~ P' i -> n <= j -> j < n' ->
  blk_ok n' P' i (close j b).
Proof.
  intros [H1 H2 H3 H4 H5 H6 H7] HP HP' Hnj Hjn.
  split; simpl; try done.
  - by apply ssorted_ins.
  - intros k c t f. rewrite lookup_patch_last, patch_last_length.
    destruct (b_items b !! k) as [it|] eqn:E; [|done]. simpl.
    intros Heq. destruct it as [|c0 t0 f0].
    + case_decide; simpl in Heq; discriminate.
    + by eapply H4.
  - unfold shape in *. simpl. rewrite last_patch_last.
    destruct (last (b_items b)) as [[id|c t f]|] eqn:E; simpl.
    + destruct H7 as [[_ Hs]|[? _]]; [|done]. right. split; [done|].
      exists j. intros y. rewrite elem_of_ins, Hs. set_solver.
    + destruct H7 as (-> & Hlt & [(_ & -> & Hs)|[? _]]); [|done].
      assert (j =? S i = false) as -> by (apply Nat.eqb_neq; lia). simpl.
      split; [done|]. split; [lia|]. right. split; [done|].
      exists j. split; [lia|]. split; [by right|].
      intros y. rewrite elem_of_ins, Hs. naive_solver.
    + destruct H7 as [[_ Hs]|[? _]]; [|done]. right. split; [done|].
      exists j. intros y. rewrite elem_of_ins, Hs. set_solver.
Qed.

(* adding a back edge to a pending block *)
Lemma blk_ok_back n P P' i h b :
  blk_ok n P i b -> P i -> ~ P' i -> h < i ->
  blk_ok n P' i (add_succ h b).
Proof.
  intros [H1 H2 H3 H4 H5 H6 H7] HP HP' Hh.
  split; simpl; try done.
  - by apply ssorted_ins.
  - unfold shape in *. simpl.
    destruct (last (b_items b)) as [[id|c t f]|] eqn:E; simpl.
    + destruct H7 as [[_ Hs]|[? _]]; [|done]. right. split; [done|].
      exists h. intros y. rewrite elem_of_ins, Hs. set_solver.
    + destruct H7 as (-> & Hlt & [(_ & -> & Hs)|[? _]]); [|done].
      split; [done|]. split; [lia|]. right. split; [done|].
      exists h. split; [lia|]. split; [by left|].
      intros y. rewrite elem_of_ins, Hs. naive_solver.
    + destruct H7 as [[_ Hs]|[? _]]; [|done]. right. split; [done|].
      exists h. intros y. rewrite elem_of_ins, Hs. set_solver.
Qed.

(* adding predecessors to a block that is not the entry *)
Lemma blk_ok_add_preds n P i ps b :
  blk_ok n P i b -> 0 < i -> blk_ok n P i (add_preds ps b).
Proof.
  intros [H1 H2 H3 H4 H5 H6 H7] Hi.
  destruct (add_preds_spec ps b) as (E1 & E2 & E3 & E4 & E5 & E6).
  split; rewrite ?E1, ?E3, ?E4; try done.
  - by apply E6.
  - lia.
  - intros _. destruct (H6 Hi) as (p & Hp & Hin). exists p. split; [done|]. apply E5. by left.
  - unfold shape in *. rewrite E3, E4. done.
Qed.

(* ------------------------------------------------------------------ *)
(* items of the graph, monotone evolution                              *)
(* ------------------------------------------------------------------ *)
Definition bitems (b : block) : list (key * nat) :=
  map (fun it => (item_key it, b_depth b)) (b_items b).

Lemma graph_items_eq g : graph_items g = concat (map bitems g).
Proof. done. Qed.

Lemma graph_items_same g g' :
  length g = length g' ->
  (forall i b, g !! i = Some b -> exists b', g' !! i = Some b' /\ bitems b' = bitems b) ->
  graph_items g' = graph_items g.
Proof.
  intros Hl H. rewrite !graph_items_eq. f_equal.
  apply list_eq. intros i. rewrite !list_lookup_fmap.
  destruct (g !! i) as [b|] eqn:E.
  - destruct (H _ _ E) as (b' & -> & Hb). simpl. by rewrite Hb.
  - apply lookup_ge_None in E. rewrite (proj2 (lookup_ge_None g' i)) by lia. done.
Qed.

Lemma graph_items_app g h : graph_items (g ++ h) = graph_items g ++ graph_items h.
Proof. rewrite !graph_items_eq, map_app, concat_app. done. Qed.

Lemma bitems_close j b : bitems (close j b) = bitems b.
Proof.
  unfold bitems. simpl. rewrite <- !(map_map item_key (fun k => (k, b_depth b))).
  by rewrite map_key_patch_last.
Qed.

Definition iext (a b : item) : Prop :=
  match a, b with
  | ILeaf x, ILeaf y => x = y
  | IBranch c t f, IBranch c' t' f' => c = c' /\ t = t' /\ (f = None \/ f = f')
  | _, _ => False
  end.

Definition bext (b B : block) : Prop :=
  (forall x, x ∈ b_succs b -> x ∈ b_succs B) /\
  (forall k it, b_items b !! k = Some it -> exists it', b_items B !! k = Some it' /\ iext it it') /\
  (b_succs b <> [] -> length (b_items B) = length (b_items b)).

Definition gext (g G : graph) : Prop :=
  forall i b, g !! i = Some b -> exists B, G !! i = Some B /\ bext b B.

Lemma iext_refl a : iext a a.
Proof. destruct a as [|c t [f|]]; simpl; naive_solver. Qed.

Lemma iext_trans a b c : iext a b -> iext b c -> iext a c.
Proof.
  destruct a as [|? ? fa], b as [|? ? fb], c as [|? ? fc]; simpl; try done; try congruence.
  intros (-> & -> & H1) (-> & -> & H2). split; [done|]. split; [done|].
  destruct H1 as [-> | ->]; [by left|done].
Qed.

Lemma bext_refl b : bext b b.
Proof. split; [done|]. split; [|done]. intros k it H. exists it. split; [done|apply iext_refl]. Qed.

Lemma bext_trans a b c : bext a b -> bext b c -> bext a c.
Proof.
  intros (A1 & A2 & A3) (B1 & B2 & B3). split; [auto|]. split.
  - intros k it H. destruct (A2 _ _ H) as (it' & H' & E1).
    destruct (B2 _ _ H') as (it'' & H'' & E2). exists it''. split; [done|by eapply iext_trans].
  - intros Hne. rewrite B3, A3; [done..|].
    destruct (b_succs a) as [|x r] eqn:E; [done|].
    intros Hb. specialize (A1 x). rewrite Hb in A1. set_solver.
Qed.

Lemma gext_refl g : gext g g.
Proof. intros i b H. exists b. split; [done|apply bext_refl]. Qed.

Lemma gext_trans a b c : gext a b -> gext b c -> gext a c.
Proof.
  intros H1 H2 i x Hx. destruct (H1 _ _ Hx) as (y & Hy & E1).
  destruct (H2 _ _ Hy) as (z & Hz & E2). exists z. split; [done|by eapply bext_trans].
Qed.

Lemma bext_add_succ j b : bext b (add_succ j b).
Proof.
  split; [intros x Hx; simpl; rewrite elem_of_ins; by right|]. split; [|done].
  intros k it H. exists it. split; [done|apply iext_refl].
Qed.

Lemma bext_add_preds ps b : bext b (add_preds ps b).
Proof.
  destruct (add_preds_spec ps b) as (E1 & E2 & E3 & E4 & E5 & E6).
  unfold bext. rewrite E3, E4. apply bext_refl.
Qed.

Lemma iext_patch j it : iext it (patch_item j it).
Proof.
  destruct it as [|c t [f|]]; simpl; [done|naive_solver|].
  destruct (negb (j =? t)); simpl; naive_solver.
Qed.

Lemma bext_patch j b : bext b (patch_false j b).
Proof.
  split; [done|]. split; simpl.
  - intros k it H. rewrite lookup_patch_last, H. simpl.
    case_decide; eexists; (split; [done|]); [apply iext_patch|apply iext_refl].
  - intros _. apply patch_last_length.
Qed.

Lemma bext_close j b : bext b (close j b).
Proof. eapply bext_trans; [apply bext_add_succ|apply bext_patch]. Qed.

Lemma bext_push it b : b_succs b = [] -> bext b (push_item it b).
Proof.
  intros Hs. split; [done|]. split; [|done]. simpl.
  intros k x H. exists x. split; [|apply iext_refl].
  rewrite lookup_app_l; [done|by eapply lookup_lt_Some].
Qed.
