(* C07: from walks of an IR graph (Spec.SsaSpec.is_walk, plain lists) to the path notions of
   Spec.CtlSpec on the lifted skeleton graph with the same edges. *)
From Coq Require Import ZArith Lia.
From stdpp Require Import list list_numbers sets.
Require Model.Base Model.Ir Model.Lift Model.Dom Model.DegGraph.
Require Spec.DomSpec Spec.SsaSpec Spec.SsaDomSpec Spec.CfgSpec Spec.CtlSpec.
Require Proofs.MirrorsDom Proofs.SsaDomBridge Proofs.DegGraphRooted Proofs.CtlBridge.

Lemma list_last_cons {A} (l : list A) : forall s i, List.last (s :: l) i = List.last l s.
Proof. induction l as [|y l IH]; intros s i; [done|]. change (List.last (s :: y :: l) i) with (List.last (y :: l) i). by rewrite (IH y i), (IH y s). Qed.

Section Walks.
Context (c : Ir.cfg) (g : list Lift.block).
Context (Hsame : DegGraph.dom_graph_of c = MirrorsDom.to_dom g).
Context (Hgc : DegGraph.graph_consistent c = true).

Lemma same_length : length g = length (Ir.c_blocks c).
Proof.
  rewrite <- (MirrorsDom.to_dom_length g), <- Hsame. unfold DegGraph.dom_graph_of. apply map_length.
Qed.

Lemma cedge_target_lt i s : SsaDomSpec.cedge c i s -> s < length g.
Proof.
  intros He. apply SsaDomBridge.edge_iff in He. destruct He as (x & Hx & Hs).
  pose proof (DomSpec.rooted_succs _ (DegGraphRooted.consistent_rooted c Hgc) i x s Hx Hs) as H.
  by rewrite SsaDomBridge.graph_of_length, <- same_length in H.
Qed.

(* a walk of the IR graph is a path of the skeleton graph *)
Lemma path_of_walk : forall l i, i < length g -> SsaSpec.is_walk c i l ->
  CfgSpec.path g i l (List.last l i).
Proof.
  induction l as [|s l IH]; intros i Hi Hw.
  - by apply CfgSpec.path_nil.
  - simpl in Hw. destruct Hw as [He Hw].
    rewrite list_last_cons.
    eapply CfgSpec.path_cons; [by apply (CtlBridge.cedge_iff c g Hsame)|].
    apply IH; [by apply (cedge_target_lt i s)|done].
Qed.

(* two walks from q to a that share nothing but their ends *)
Lemma can_split_of_walks q a t1 t2 : q < length g ->
  SsaSpec.is_walk c q (t1 ++ [a]) -> SsaSpec.is_walk c q (t2 ++ [a]) ->
  ~ In q t1 -> ~ In a t1 -> ~ In q t2 -> ~ In a t2 ->
  (forall x, In x t1 -> ~ In x t2) -> hd a t1 <> hd a t2 ->
  CtlSpec.can_split g q a.
Proof.
  intros Hq W1 W2 Hq1 Ha1 Hq2 Ha2 Hdis Hhd.
  assert (Hl : forall t, List.last (t ++ [a]) q = a).
  { intros t. induction t as [|y t IHt]; [done|]. simpl app. rewrite list_last_cons.
    destruct t; [done|]. simpl app in *. rewrite list_last_cons in IHt. by rewrite list_last_cons. }
  exists t1, t2. split; [|split; [|split]].
  - split; [|split; by rewrite elem_of_list_In].
    pose proof (path_of_walk _ q Hq W1) as P. by rewrite Hl in P.
  - split; [|split; by rewrite elem_of_list_In].
    pose proof (path_of_walk _ q Hq W2) as P. by rewrite Hl in P.
  - intros x H1 H2. apply elem_of_list_In in H1, H2. by apply (Hdis x).
  - destruct t1 as [|y1 t1]; [|by left]. destruct t2 as [|y2 t2]; [|by right]. done.
Qed.

Lemma is_join_of a b : nth_error (Ir.c_blocks c) a = Some b -> 2 <= length (Ir.b_preds b) -> CtlSpec.is_join g a.
Proof.
  intros Hb Hlen.
  assert (Hl : SsaDomBridge.graph_of c !! a = Some (Dom.Node (N.to_nat <$> Ir.b_preds b) (N.to_nat <$> Ir.b_succs b))).
  { apply SsaDomBridge.graph_of_lookup. eauto. }
  change (SsaDomBridge.graph_of c) with (DegGraph.dom_graph_of c) in Hl. rewrite Hsame in Hl.
  apply MirrorsDom.to_dom_lookup in Hl. destruct Hl as (bj & Hbj & E). injection E as Ep _.
  exists bj. split; [done|]. rewrite <- Ep, fmap_length. done.
Qed.
End Walks.
