(* C07: the control-dependence fact of lifted graphs (Proofs.CtlStructure, stated on the
   skeleton graphs of Model.Lift with the path notions of Spec.CfgSpec) carried over to an
   Ir.cfg with its immediate-dominator TABLE, i.e. to Spec.DegSem.decides.

   Hypothesis that links the two graphs: the IR graph c has, block by block, the same
   predecessor and successor lists as the lifted skeleton graph g
   (Model.DegGraph.dom_graph_of c = Proofs.MirrorsDom.to_dom g).  Proofs.LiftFullIr.lifted_dom
   proves it for the graph Model.LiftFull.lift_to_ir returns; SSA conversion and
   propagation rewrite statements only (C14_construction_is_erasure compares the lists;
   Propagate uses set_stmts).

   Then, with the consistent graph and the true table (Model.DegGraph), EVERY block b whose
   decision can change the edge along which the join j is entered (CtlSpec.can_split) is
   visited by the table walk of Spec.DegSem: [above idom (idom j) p b] for a predecessor p
   of j; if b ends with a condition, [decides] names it. *)
From Coq Require Import ZArith Lia.
From stdpp Require Import list list_numbers sets.
Require Model.Base Model.Ir Model.Lift Model.Dom Model.DegGraph Model.DegJustify.
Require Spec.DomSpec Spec.SsaDomSpec Spec.CfgSpec Spec.CtlSpec Spec.DegSem.
Require Proofs.MirrorsDom Proofs.SsaDomBridge Proofs.SsaDomTheory Proofs.CtlStructure Proofs.DegGraphRooted Proofs.DegGraphIdom.

Section SameGraph.
Context (g : list Lift.block).

Lemma edge_of_dom i k : DomSpec.edge (MirrorsDom.to_dom g) i k → CfgSpec.edge g i k.
Proof.
  intros (x & Hx & Hk). apply MirrorsDom.to_dom_lookup in Hx. destruct Hx as (b & Hb & ->).
  exists b. split; [done|]. exact Hk.
Qed.

Lemma path_of_dom i j l : DomSpec.path (MirrorsDom.to_dom g) i j l → ∃ l', l = i :: l' ∧ CfgSpec.path g i l' j.
Proof.
  induction 1 as [a Ha|a m b l He _ (l' & -> & IH)].
  - exists []. split; [done|]. apply CfgSpec.path_nil. by rewrite MirrorsDom.to_dom_length in Ha.
  - exists (m :: l'). split; [done|]. eapply CfgSpec.path_cons; [by apply edge_of_dom|done].
Qed.

Lemma dominates_to_dom i j : CfgSpec.dominates g i j → DomSpec.dom (MirrorsDom.to_dom g) i j.
Proof.
  intros H l Hp. apply path_of_dom in Hp. destruct Hp as (l' & -> & Hp). exact (H l' Hp).
Qed.

Lemma dominates_iff i j : CfgSpec.dominates g i j ↔ DomSpec.dom (MirrorsDom.to_dom g) i j.
Proof. split; [apply dominates_to_dom|apply MirrorsDom.dom_to_dominates]. Qed.
End SameGraph.

Section Bridge.
Context (c : Ir.cfg) (idom : list (option N)) (g : list Lift.block).
Context (Hsame : DegGraph.dom_graph_of c = MirrorsDom.to_dom g).
Context (Hgc : DegGraph.graph_consistent c = true).
Context (Htab : DegGraph.idom_is_dominator_table c idom = true).
Context (Hshape : DegJustify.idom_shape c idom = true).

Lemma same_graph : SsaDomBridge.graph_of c = MirrorsDom.to_dom g.
Proof. exact Hsame. Qed.

Lemma cdom_iff i j : SsaDomSpec.cdom c i j ↔ CfgSpec.dominates g i j.
Proof. rewrite SsaDomBridge.dom_iff, same_graph. symmetry. apply dominates_iff. Qed.

Lemma cedge_iff i j : SsaDomSpec.cedge c i j ↔ CfgSpec.edge g i j.
Proof.
  rewrite SsaDomBridge.edge_iff, same_graph. split; [apply edge_of_dom|apply MirrorsDom.edge_to_dom].
Qed.

Lemma cidom_iff d j : SsaDomSpec.cidom c d j ↔ CtlSpec.idom_of g d j.
Proof.
  unfold SsaDomSpec.cidom, SsaDomSpec.csdom, CtlSpec.idom_of, CtlSpec.sdominates.
  rewrite cdom_iff. split; intros [H1 H2]; (split; [done|]); intros k [Hk Hne].
  - apply cdom_iff. apply H2. split; [by apply cdom_iff|done].
  - apply cdom_iff. apply H2. split; [by apply cdom_iff|done].
Qed.

(* the dominator chain of CtlSpec is the table walk of DegSem *)
Theorem on_dom_chain_above j bj b : nth_error (Ir.c_blocks c) j = Some bj →
  CtlSpec.on_dom_chain g j b →
  ∃ p, In p (Ir.b_preds bj) ∧
       DegSem.above idom (match nth_error idom (N.to_nat (Ir.b_index bj)) with Some o => o | None => None end)
                    p (N.of_nat b).
Proof.
  intros Hj (p & d & He & Hbp & Hid & Hdb).
  apply cedge_iff in He. apply cdom_iff in Hbp. apply cidom_iff in Hid. apply cdom_iff in Hdb.
  assert (Hjn : j < length (Ir.c_blocks c)) by (apply nth_error_Some; congruence).
  exists (N.of_nat p). split; [exact (DegGraphRooted.edge_is_pred c Hgc j bj p Hj He)|].
  rewrite (DegGraphRooted.consistent_index c Hgc j bj Hj), Nat2N.id.
  rewrite (DegGraphIdom.tab_of_cidom c idom Hgc Htab j d Hjn Hid).
  apply (DegGraphIdom.above_iff c idom Hgc Htab Hshape d (N.of_nat p) (N.of_nat b)); rewrite ?Nat2N.id.
  - exact (SsaDomTheory.cedge_lt c _ _ He).
  - exact (SsaDomTheory.cidom_dom_pred c _ _ _ Hid He Hjn).
  - split; assumption.
Qed.

(* THE CONTROL-DEPENDENCE FACT FOR [decides]: in a graph with the edges of a lifted
   skeleton, every block whose decision can change the edge along which the join j is
   entered, and that ends with a condition, is named by the table walk *)
Theorem lifted_split_decides (body : Lift.sk) : Lift.lift body = Base.Ok g →
  ∀ j bj b bb m cond t f,
  nth_error (Ir.c_blocks c) j = Some bj → nth_error (Ir.c_blocks c) b = Some bb →
  CtlSpec.can_split g b j → CtlSpec.is_join g j →
  List.last (Ir.b_stmts bb) (Ir.SLog m []) = Ir.SIf m cond t f →
  DegSem.decides c idom bj cond.
Proof.
  intros Hl j bj b bb m cond t f Hj Hb Hsp Hjoin Hlast.
  pose proof (CtlStructure.lifted_control_dependence body g Hl b j Hsp Hjoin) as Hch.
  destruct (on_dom_chain_above j bj b Hj Hch) as (p & Hp & Hab).
  exists p, (N.of_nat b), bb, m, t, f. split; [exact Hp|]. split; [exact Hab|].
  rewrite Nat2N.id. split; [exact Hb|exact Hlast].
Qed.
End Bridge.
