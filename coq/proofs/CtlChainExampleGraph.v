(* the skeleton graph of Proofs.CtlChainExample, and what holds of it on paths *)
From Coq Require Import Lia.
From stdpp Require Import list list_numbers sets.
Require Model.Lift Spec.CfgSpec Spec.CtlSpec Proofs.CtlStructure.

Definition cc_g_lit : list Lift.block :=
  [Lift.Block 0 0 [Lift.ILeaf 1; Lift.ILeaf 5; Lift.IBranch 12 1 (Some 2)] [] [1; 2];
   Lift.Block 1 0 [Lift.ILeaf 25] [0] [3]; Lift.Block 2 0 [Lift.ILeaf 43] [0] [3];
   Lift.Block 3 0 [Lift.ILeaf 62] [1; 2] []].

Lemma cc_g_lit_facts : CtlSpec.can_split cc_g_lit 0 3 ∧ CtlSpec.is_join cc_g_lit 3.
Proof.
  split.
  - exists [1], [2]. split; [|split; [|split]].
    + split; [|split; CtlStructure.ex_nin].
      eapply CfgSpec.path_cons; [eexists; split; [reflexivity|set_solver]|].
      eapply CfgSpec.path_cons; [eexists; split; [reflexivity|set_solver]|].
      apply CfgSpec.path_nil. simpl. lia.
    + split; [|split; CtlStructure.ex_nin].
      eapply CfgSpec.path_cons; [eexists; split; [reflexivity|set_solver]|].
      eapply CfgSpec.path_cons; [eexists; split; [reflexivity|set_solver]|].
      apply CfgSpec.path_nil. simpl. lia.
    + intros x H1 H2. rewrite ?elem_of_cons, ?elem_of_nil in H1, H2. lia.
    + by left.
  - eexists. split; [reflexivity|simpl; lia].
Qed.
