(* RunnerSrcProofs — lemmas about Model.RunnerSrc (property C17). *)
From Coq Require Import ZArith List Bool Arith Permutation Lia.
Require Import Model.Base Gen.Category Model.Runner Model.RunnerSrc
               Spec.RunnerSpec Spec.RunnerSrcSpec Proofs.RunnerProofs.
Import ListNotations.

(* ---- instantiation and the maps -------------------------------------------- *)

Lemma map_d_key_inst : forall ds l, map d_key (map (inst ds) l) = map s_key l.
Proof. intros. rewrite map_map. apply map_ext. reflexivity. Qed.

Lemma find_def_inst : forall ds l k, find_def (map (inst ds) l) k = option_map (inst ds) (find_sdef l k).
Proof.
  intros ds l k. induction l as [|a l IH]; simpl; auto.
  change (d_key (inst ds a)) with (s_key a). destruct (key_eqb k (s_key a)); auto.
Qed.

Lemma filter_user_inst : forall user ds l,
  filter (user_def_b user) (map (inst ds) l) = map (inst ds) (filter (s_user_b user) l).
Proof.
  intros user ds l. induction l as [|a l IH]; simpl; auto.
  change (user_def_b user (inst ds a)) with (s_user_b user a).
  destruct (s_user_b user a); simpl; rewrite IH; reflexivity.
Qed.

Lemma wf_inst_project : forall sp, wf_sproject sp -> wf_project (inst_project sp).
Proof. intros sp H. unfold wf_project, inst_project. simpl. rewrite map_d_key_inst. exact H. Qed.

Lemma find_sdef_In : forall ds k d, find_sdef ds k = Some d -> In d ds /\ s_key d = k.
Proof.
  intros ds k d. induction ds as [|a ds IH]; simpl; intros H; [discriminate|].
  destruct (key_eqb k (s_key a)) eqn:E.
  - inversion H; subst. apply key_eqb_eq in E. auto.
  - destruct (IH H). auto.
Qed.

Lemma find_sdef_NoDup : forall ds d, NoDup (map s_key ds) -> In d ds -> find_sdef ds (s_key d) = Some d.
Proof.
  intros ds d. induction ds as [|a ds IH]; simpl; intros Hnd Hin; [contradiction|].
  inversion Hnd as [|? ? Hnotin Hnd']; subst. destruct Hin as [->|Hin].
  - rewrite key_eqb_refl. reflexivity.
  - destruct (key_eqb (s_key d) (s_key a)) eqn:E.
    + apply key_eqb_eq in E. exfalso. apply Hnotin. rewrite <- E. apply in_map. assumption.
    + apply IH; assumption.
Qed.

Lemma find_sdef_app : forall a b k,
  find_sdef (a ++ b) k = match find_sdef a k with Some d => Some d | None => find_sdef b k end.
Proof.
  intros a b k. induction a as [|x a IH]; simpl; auto. destruct (key_eqb k (s_key x)); auto.
Qed.

Lemma find_sdef_perm : forall ds ds' k, NoDup (map s_key ds) -> Permutation ds ds' ->
  find_sdef ds k = find_sdef ds' k.
Proof.
  intros ds ds' k Hnd Hp.
  assert (Hnd' : NoDup (map s_key ds')).
  { eapply Permutation_NoDup; [|exact Hnd]. apply Permutation_map. exact Hp. }
  destruct (find_sdef ds k) as [d|] eqn:E.
  - apply find_sdef_In in E. destruct E as [Hin <-]. symmetry. apply find_sdef_NoDup; auto.
    eapply Permutation_in; eauto.
  - destruct (find_sdef ds' k) as [d'|] eqn:E'; auto.
    apply find_sdef_In in E'. destruct E' as [Hin <-].
    rewrite find_sdef_NoDup in E; [discriminate|assumption|].
    eapply Permutation_in; [apply Permutation_sym; exact Hp|exact Hin].
Qed.

(* ---- the answers to lookups --------------------------------------------------- *)

Lemma answer_of_add : forall ds extra n,
  (forall x, In x extra -> s_key x <> (KTemplate, n)) ->
  answer_of (ds ++ extra) n = answer_of ds n.
Proof.
  intros ds extra n H. unfold answer_of. rewrite find_sdef_app.
  destruct (find_sdef ds (KTemplate, n)); auto.
  destruct (find_sdef extra (KTemplate, n)) as [x|] eqn:E; auto.
  apply find_sdef_In in E. destruct E as [Hin Hk]. exfalso. exact (H x Hin Hk).
Qed.

Lemma answer_of_perm : forall ds ds' n, NoDup (map s_key ds) -> Permutation ds ds' ->
  answer_of ds n = answer_of ds' n.
Proof. intros. unfold answer_of. rewrite (find_sdef_perm ds ds'); auto. Qed.

Lemma not_looked_up_key : forall d x n, ~ looks_up d x -> In n (s_refs d) -> s_key x <> (KTemplate, n).
Proof.
  intros d x n Hn Hin Hk. apply Hn. unfold s_key in Hk. inversion Hk; subst. split; auto.
Qed.

(* ---- per definition ------------------------------------------------------------ *)

(* the findings of a definition are a function of its own source and of the
   answers to the lookups its passes make.  DEFINITIONAL: [inst] hands [s_pass]
   nothing but [map (answer_of ds) (s_refs d)]; this is the interface of
   Model.RunnerSrc restated, a lemma for what follows and not a property theorem
   (the assumption it restates is evaluated by check (3) of lib/props/C17.py). *)
Lemma findings_function_of_answers : forall ds1 ds2 d,
  same_answers ds1 ds2 d -> findings ds1 d = findings ds2 d.
Proof.
  intros ds1 ds2 d H. unfold findings, produced_def, inst. simpl.
  rewrite (map_ext_in (answer_of ds1) (answer_of ds2) (s_refs d) H). reflexivity.
Qed.

Theorem findings_unchanged_by_unreferenced : forall ds extra d,
  (forall x, In x extra -> ~ looks_up d x) ->
  findings (ds ++ extra) d = findings ds d.
Proof.
  intros ds extra d H. apply findings_function_of_answers. intros n Hn.
  apply answer_of_add. intros x Hx. eapply not_looked_up_key; eauto.
Qed.

Lemma not_reached_not_looked_up : forall ds d x, In x ds -> ~ reaches ds d x -> ~ looks_up d x.
Proof. intros ds d x Hin Hn Hl. apply Hn. apply reach_step; assumption. Qed.

(* weaker than the previous statement (a definition outside the transitive lookup
   set is in particular not looked up directly): a lemma, not an obligation *)
Lemma findings_unchanged_outside_transitive_lookups : forall ds extra d,
  (forall x, In x extra -> ~ reaches (ds ++ extra) d x) ->
  findings (ds ++ extra) d = findings ds d.
Proof.
  intros ds extra d H. apply findings_unchanged_by_unreferenced. intros x Hx.
  eapply not_reached_not_looked_up; [|apply H; exact Hx]. apply in_or_app. right. exact Hx.
Qed.

Theorem findings_unchanged_by_reordering : forall ds ds' d,
  NoDup (map s_key ds) -> Permutation ds ds' -> findings ds d = findings ds' d.
Proof.
  intros ds ds' d Hnd Hp. apply findings_function_of_answers. intros n _. apply answer_of_perm; auto.
Qed.

(* ---- the runner answers a lookup as the source level says ---------------------- *)

Lemma lifts_inst : forall ds n, lifts (map (inst ds) ds) (KTemplate, n) <-> answer_of ds n <> None.
Proof.
  intros ds n. unfold lifts, answer_of. rewrite find_def_inst. split.
  - intros [d [Hf He]]. destruct (find_sdef ds (KTemplate, n)) as [x|]; simpl in Hf; [|discriminate].
    inversion Hf; subst. simpl in He. rewrite He. discriminate.
  - intros H. destruct (find_sdef ds (KTemplate, n)) as [x|]; [|contradiction].
    destruct (s_err x) eqn:E; [contradiction|]. exists (inst ds x). split; auto.
Qed.

Theorem runner_answer_is_source_answer : forall ds P s n,
  Inv (map (inst ds) ds) P s ->
  (snd (cache (map (inst ds) ds) (KTemplate, n) s) = true <-> answer_of ds n <> None).
Proof.
  intros ds P s n HI. rewrite <- lifts_inst. eapply cache_result. exact HI.
Qed.

(* ---- what analysing one definition displays, in any state the runner can be in - *)

Lemma skipn_length_app : forall (A : Type) (l l' : list A), skipn (length l) (l ++ l') = l'.
Proof. intros A l l'. induction l; simpl; auto. Qed.

Theorem shown_by_analysis_is_findings : forall ds o user (P : key -> Prop) s k d,
  Inv (map (inst ds) ds) P s -> P k -> find_sdef ds k = Some d ->
  shown_by (map (inst ds) ds) o user s k = filter (passes_filters o user) (findings ds d).
Proof.
  intros ds o user P s k d HI Pk Hf.
  assert (Hd : find_def (map (inst ds) ds) k = Some (inst ds d)) by (rewrite find_def_inst, Hf; reflexivity).
  destruct (analyze_spec _ o user P s k _ HI Pk Hd) as [A _].
  unfold shown_by. rewrite A. apply skipn_length_app.
Qed.

Lemma fold_analyze_Inv : forall ds o user pre rest s,
  NoDup (pre ++ rest) -> (forall k, In k pre -> exists d, find_def ds k = Some d) ->
  Inv ds (fun x => In x (pre ++ rest)) s ->
  Inv ds (fun x => In x rest) (fold_left (analyze ds o user) pre s).
Proof.
  intros ds o user pre. induction pre as [|k pre IH]; intros rest s Hnd Hdef HI; simpl in *; auto.
  inversion Hnd as [|? ? Hnotin Hnd']; subst.
  destruct (Hdef k (or_introl eq_refl)) as [d Hd].
  destruct (analyze_spec ds o user _ s k d HI (or_introl eq_refl) Hd) as [_ [_ [_ [_ HI1]]]].
  apply IH; auto.
  eapply Inv_weaken. exact HI1. intros x Hx. split. right; auto. intro; subst. contradiction.
Qed.

(* in a run of main: whatever was analysed (and looked up) before *)
Theorem definition_findings_in_any_run : forall sp o pre k post d,
  wf_sproject sp -> analysis_order (inst_project sp) (pre ++ k :: post) ->
  find_sdef (sp_defs sp) k = Some d ->
  let ds := p_defs (inst_project sp) in
  let s0 := write_reports o (sp_user sp) (sp_parse sp) init in
  shown_by ds o (sp_user sp) (fold_left (analyze ds o (sp_user sp)) pre s0) k
  = filter (passes_filters o (sp_user sp)) (findings (sp_defs sp) d).
Proof.
  intros sp o pre k post d Hwf Hord Hf ds s0.
  destruct (analysis_order_ok _ _ (wf_inst_project sp Hwf) Hord) as [Hnd Hdef].
  assert (HI0 : Inv ds (fun x => In x (pre ++ k :: post)) s0).
  { eapply Inv_same_caches; [|apply Inv_init]. split; reflexivity. }
  assert (HI : Inv ds (fun x => In x (k :: post)) (fold_left (analyze ds o (sp_user sp)) pre s0)).
  { apply fold_analyze_Inv; auto. intros x Hx. apply Hdef. apply in_or_app. left. exact Hx. }
  unfold ds, inst_project in *. simpl in *.
  eapply shown_by_analysis_is_findings; [exact HI | left; reflexivity | exact Hf].
Qed.

(* ---- whole projects -------------------------------------------------------------- *)

Lemma produced_inst_project : forall sp,
  produced (inst_project sp) =
  sp_parse sp ++ flat_map (findings (sp_defs sp)) (s_user_defs sp).
Proof.
  intros sp. unfold produced, user_defs, inst_project, s_user_defs. simpl.
  rewrite filter_user_inst, flat_map_concat_map, map_map, <- flat_map_concat_map. reflexivity.
Qed.

Lemma flat_map_ext_in : forall (A B : Type) (f g : A -> list B) l,
  (forall x, In x l -> f x = g x) -> flat_map f l = flat_map g l.
Proof.
  intros A B f g l. induction l as [|a l IH]; simpl; intros H; auto.
  rewrite (H a (or_introl eq_refl)), IH; auto.
Qed.

Theorem unreferenced_definitions_irrelevant_src : forall sp extra o order order',
  wf_sproject (sadd sp extra) ->
  analysis_order (inst_project sp) order -> analysis_order (inst_project (sadd sp extra)) order' ->
  (forall d x, In d (s_user_defs sp) -> In x extra -> ~ looks_up d x) ->
  Permutation (res_shown (run_src (sadd sp extra) o order'))
              (res_shown (run_src sp o order)
               ++ filter (keep_b o (sp_user sp))
                    (flat_map (findings (sp_defs sp ++ extra)) (filter (s_user_b (sp_user sp)) extra))).
Proof.
  intros sp extra o order order' Hwf' Hord Hord' Hun.
  assert (Hwf : wf_sproject sp).
  { unfold wf_sproject, sadd in *. simpl in Hwf'. rewrite map_app in Hwf'. eapply NoDup_app_l. exact Hwf'. }
  unfold run_src.
  eapply Permutation_trans. apply conservation; auto using wf_inst_project.
  eapply Permutation_trans.
  2: { apply Permutation_app_tail. apply Permutation_sym. apply conservation; auto using wf_inst_project. }
  rewrite !produced_inst_project. unfold s_user_defs, sadd. simpl.
  rewrite (filter_app (s_user_b (sp_user sp)) (sp_defs sp) extra), flat_map_app.
  rewrite (flat_map_ext_in _ _ (findings (sp_defs sp ++ extra)) (findings (sp_defs sp))
             (filter (s_user_b (sp_user sp)) (sp_defs sp))).
  - rewrite app_assoc, (filter_app (keep_b o (sp_user sp))). apply Permutation_refl.
  - intros d Hd. apply findings_unchanged_by_unreferenced. intros x Hx. apply Hun; auto.
Qed.

Corollary included_unreferenced_definitions_irrelevant : forall sp extra o order,
  wf_sproject (sadd sp extra) -> analysis_order (inst_project sp) order ->
  (forall x, In x extra -> s_user_b (sp_user sp) x = false) ->
  (forall d x, In d (s_user_defs sp) -> In x extra -> ~ looks_up d x) ->
  analysis_order (inst_project (sadd sp extra)) order /\
  Permutation (res_shown (run_src (sadd sp extra) o order)) (res_shown (run_src sp o order)).
Proof.
  intros sp extra o order Hwf' Hord Hnu Hun.
  assert (Hf : filter (s_user_b (sp_user sp)) extra = []).
  { clear - Hnu. induction extra as [|a l IH]; simpl; auto. rewrite (Hnu a (or_introl eq_refl)).
    apply IH. intros x Hx. apply Hnu. right. exact Hx. }
  assert (Hord' : analysis_order (inst_project (sadd sp extra)) order).
  { unfold analysis_order, user_defs, inst_project, sadd in *. simpl in *.
    rewrite filter_user_inst, map_d_key_inst in *. rewrite filter_app, Hf, app_nil_r. exact Hord. }
  split; auto.
  eapply Permutation_trans. apply (unreferenced_definitions_irrelevant_src sp extra o order order); auto.
  rewrite Hf. simpl. rewrite app_nil_r. apply Permutation_refl.
Qed.

(* the maps enumerated in another order (definitions of a file reordered) *)
Theorem definitions_reordered : forall sp ds' o order order',
  wf_sproject sp -> Permutation (sp_defs sp) ds' ->
  analysis_order (inst_project sp) order -> analysis_order (inst_project (swith sp ds')) order' ->
  Permutation (res_shown (run_src sp o order)) (res_shown (run_src (swith sp ds') o order')) /\
  res_exit (run_src sp o order) = res_exit (run_src (swith sp ds') o order').
Proof.
  intros sp ds' o order order' Hwf Hp Hord Hord'.
  assert (Hwf' : wf_sproject (swith sp ds')).
  { unfold wf_sproject, swith. simpl. eapply Permutation_NoDup; [|exact Hwf]. apply Permutation_map. exact Hp. }
  assert (HP : Permutation (res_shown (run_src sp o order)) (res_shown (run_src (swith sp ds') o order'))).
  { unfold run_src.
    eapply Permutation_trans. apply conservation; auto using wf_inst_project.
    eapply Permutation_trans. 2: { apply Permutation_sym. apply conservation; auto using wf_inst_project. }
    apply Permutation_filter'. rewrite !produced_inst_project. unfold swith, s_user_defs. simpl.
    apply Permutation_app_head.
    rewrite (flat_map_ext_in _ _ (findings (sp_defs sp)) (findings ds') (filter (s_user_b (sp_user sp)) (sp_defs sp))).
    - apply Permutation_flat_map. apply Permutation_filter'. exact Hp.
    - intros d _. apply findings_unchanged_by_reordering; auto. }
  split; auto.
  unfold run_src in *.
  destruct (run_keys_spec _ o order (analysis_order_ok _ _ (wf_inst_project sp Hwf) Hord)) as [A1 [_ [C1 _]]].
  destruct (run_keys_spec _ o order' (analysis_order_ok _ _ (wf_inst_project _ Hwf') Hord')) as [A2 [_ [C2 _]]].
  pose proof (Permutation_length HP) as HL. rewrite A1, A2 in HL.
  rewrite C1, C2, HL. reflexivity.
Qed.

(* ---- without the hypothesis the statement is false -------------------------------- *)

Definition w_report : report := mkReport Warning 21 21 [0%Z] 500.
(* U instantiates T without using its output: unused_output_signal reports iff the lookup of T
   answers Ok with at least one output signal *)
Definition w_U : sdef :=
  mkSDef KTemplate 2 0 [] None [(7%Z, 0%nat)] [1%Z]
         (fun a => match a with [Some (_ :: _)] => [w_report] | _ => [] end).
(* T lives in an included file (1 is not a user input) and has one output signal *)
Definition w_T : sdef := mkSDef KTemplate 1 1 [] None [(9%Z, 0%nat)] [] (fun _ => []).
Definition w_sp : sproject := mkSProject [] [w_U] [0%Z].
Definition w_opts : opts := mkOpts Info [] false false.

Theorem referenced_definition_matters :
  exists sp extra o order,
    wf_sproject (sadd sp extra) /\
    analysis_order (inst_project sp) order /\ analysis_order (inst_project (sadd sp extra)) order /\
    (forall x, In x extra -> s_user_b (sp_user sp) x = false) /\
    (exists d x, In d (s_user_defs sp) /\ In x extra /\ looks_up d x) /\
    ~ Permutation (res_shown (run_src (sadd sp extra) o order))
                  (res_shown (run_src sp o order)
                   ++ filter (keep_b o (sp_user sp))
                        (flat_map (findings (sp_defs sp ++ extra)) (filter (s_user_b (sp_user sp)) extra))).
Proof.
  exists w_sp, [w_T], w_opts, [(KTemplate, 2%Z)].
  split. { unfold wf_sproject. simpl. repeat constructor; simpl; intuition discriminate. }
  split. { vm_compute. apply Permutation_refl. }
  split. { vm_compute. apply Permutation_refl. }
  split. { intros x [<-|[]]. reflexivity. }
  split. { exists w_U, w_T. split. left; reflexivity. split. left; reflexivity. split. reflexivity. left; reflexivity. }
  vm_compute. intro H. apply Permutation_length in H. discriminate.
Qed.
