(* Proofs for C09, part 5 (fourth audit): a branch condition that the taint pass, cdep and the region
   hypotheses SKIP as constant (a value claim on the condition node of the dumped graph) is constant in
   every reachable state of the value semantics, provided the graph passes the verified validator of value
   claims Model.Justify.vjust_cfg (soundness: Proofs.ValueProofs, property C06).  The validator is evaluated
   on every dumped graph by the model driver ctlregion (field `vj`). *)
From Coq Require Import ZArith List Bool Znumtheory.
Require Import Model.Base Model.Ir Model.Justify Spec.ValueSem Proofs.ValueProofs.
Import ListNotations.
Local Open Scope Z_scope.

Theorem skipped_conditions_are_constant p (c : cfg) blk m e t f k s0 s v :
  prime p -> 2 < p -> Z.log2 p < 2 ^ 64 ->
  vjust_cfg p c = true ->
  In blk (c_blocks c) -> In (SIf m e t f) (b_stmts blk) -> expr_val e = Some k ->
  init_ok (all_stmts (c_blocks c)) p s0 -> reachable (all_stmts (c_blocks c)) p s0 s ->
  evalR p s e v -> claim_ok k v.
Proof.
  intros Hprime Hp Hlog Hv Hblk Hs Hk Hi Hr Hev.
  eapply validated_graph_claims_true; eauto.
  apply occ_top with (s := SIf m e t f).
  - unfold all_stmts. apply in_flat_map. exists blk. split; assumption.
  - left. reflexivity.
Qed.
