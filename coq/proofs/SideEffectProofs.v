(* Proofs for C09, part 2: the instance of ni_generic for the mirror of the
   taint / side-effect analysis over the SSA execution semantics of Spec.SsaEffects. *)
From Coq Require Import ZArith NArith List Bool Relations Lia.
Require Import Model.Base Model.Ir Model.VarUse Model.Taint Model.SideEffect
  Spec.NiSpec Spec.SsaEffects Spec.CtlDep Proofs.TaintProofs.
Import ListNotations.

(* ------------------------------------------------------------------ *)
(* generic helpers                                                      *)
(* ------------------------------------------------------------------ *)

Lemma fold_left_inv {A B} (f : A -> B -> A) (P : A -> Prop) :
  (forall a b, P a -> P (f a b)) -> forall l a, P a -> P (fold_left f l a).
Proof. intros H l. induction l as [|x l IH]; intros a Ha; cbn; [assumption | apply IH, H, Ha]. Qed.

Lemma fold_left_establish {A B} (f : A -> B -> A) (P : A -> Prop) (x : B) :
  (forall a b, P a -> P (f a b)) -> (forall a, P (f a x)) ->
  forall l a, In x l -> P (fold_left f l a).
Proof.
  intros Hm Hx l. induction l as [|y l IH]; intros a Hin; [destruct Hin|].
  cbn. destruct Hin as [->|Hin]; [apply fold_left_inv; [assumption | apply Hx] | apply IH; assumption].
Qed.

Lemma bind_Ok {A B} (m : outcome A) (f : A -> outcome B) b :
  bind m f = Ok b -> exists a, m = Ok a /\ f a = Ok b.
Proof. destruct m; cbn; try discriminate. intro H. eexists; split; [reflexivity | assumption]. Qed.

Lemma mapM_Ok_In {A B} (f : A -> outcome B) l ys :
  mapM f l = Ok ys -> forall x, In x l -> exists y, f x = Ok y /\ In y ys.
Proof.
  revert ys. induction l as [|a l IH]; intros ys H x Hx; [destruct Hx|].
  cbn in H. apply bind_Ok in H. destruct H as [y [Hy H]]. apply bind_Ok in H. destruct H as [ys' [Hys H]].
  injection H as <-. destruct Hx as [->|Hx].
  - exists y. split; [assumption | left; reflexivity].
  - destruct (IH ys' Hys x Hx) as [y' [Hy' Hin]]. exists y'. split; [assumption | right; assumption].
Qed.

Lemma mapM_Ok_In_rev {A B} (f : A -> outcome B) l ys :
  mapM f l = Ok ys -> forall y, In y ys -> exists x, In x l /\ f x = Ok y.
Proof.
  revert ys. induction l as [|a l IH]; intros ys H y Hy.
  - cbn in H. injection H as <-. destruct Hy.
  - cbn in H. apply bind_Ok in H. destruct H as [y0 [Hy0 H]]. apply bind_Ok in H. destruct H as [ys' [Hys H]].
    injection H as <-. destruct Hy as [<-|Hy].
    + exists a. split; [left; reflexivity | assumption].
    + destruct (IH ys' Hys y Hy) as [x [Hx Hf]]. exists x. split; [right; assumption | assumption].
Qed.

Lemma In_somes {A} (l : list (option A)) x : In x (somes l) <-> In (Some x) l.
Proof.
  induction l as [|[a|] l IH]; cbn; [tauto| |].
  - rewrite IH. split; [intros [->|H]; tauto | intros [H|H]; [injection H; tauto | tauto]].
  - rewrite IH. split; [tauto | intros [H|H]; [discriminate | assumption]].
Qed.

Lemma vmem_In x l : vmem x l = true <-> In x l.
Proof. apply (mem_In vname vname_eqb vname_eqb_eq). Qed.

Lemma clos_rt_mono {A} (R R' : A -> A -> Prop) :
  (forall a b, R a b -> R' a b) -> forall a b, clos_refl_trans A R a b -> clos_refl_trans A R' a b.
Proof.
  intros H a b Hr. induction Hr; [apply rt_step, H; assumption | apply rt_refl | eapply rt_trans; eassumption].
Qed.

(* ------------------------------------------------------------------ *)
(* reads                                                                *)
(* ------------------------------------------------------------------ *)

Lemma In_uses_app a b r :
  In r (uses_names (u_app a b)) <-> In r (uses_names a) \/ In r (uses_names b).
Proof. unfold uses_names, u_app; cbn. rewrite !in_app_iff. tauto. Qed.

(* induction principle for the nested type of expressions *)
Section ExprInd.
  Variable P : expr -> Prop.
  Definition Pacc (a : access expr) : Prop := match a with AIdx i => P i | AComp _ => True end.
  Hypothesis HNum : forall z k, P (ENum z k).
  Hypothesis HVar : forall v k, P (EVar v k).
  Hypothesis HInfix : forall op l r k, P l -> P r -> P (EInfix op l r k).
  Hypothesis HPrefix : forall op x k, P x -> P (EPrefix op x k).
  Hypothesis HSwitch : forall c t f k, P c -> P t -> P f -> P (ESwitch c t f k).
  Hypothesis HCall : forall n args k, Forall P args -> P (ECall n args k).
  Hypothesis HArray : forall vs k, Forall P vs -> P (EArray vs k).
  Hypothesis HAccess : forall v acc k, Forall Pacc acc -> P (EAccess v acc k).
  Hypothesis HUpdate : forall v acc rhe k, Forall Pacc acc -> P rhe -> P (EUpdate v acc rhe k).
  Hypothesis HPhi : forall args k, P (EPhi args k).

  Fixpoint expr_ind2 (e : expr) : P e :=
    let fix go (l : list expr) : Forall P l :=
      match l with [] => Forall_nil P | x :: r => Forall_cons x (expr_ind2 x) (go r) end in
    let fix goa (l : list (access expr)) : Forall Pacc l :=
      match l with
      | [] => Forall_nil Pacc
      | AIdx i :: r => Forall_cons (AIdx i) (expr_ind2 i : Pacc (AIdx i)) (goa r)
      | AComp n :: r => Forall_cons (AComp n) (I : Pacc (AComp n)) (goa r)
      end in
    match e with
    | ENum z k => HNum z k
    | EVar v k => HVar v k
    | EInfix op l r k => HInfix op l r k (expr_ind2 l) (expr_ind2 r)
    | EPrefix op x k => HPrefix op x k (expr_ind2 x)
    | ESwitch c t f k => HSwitch c t f k (expr_ind2 c) (expr_ind2 t) (expr_ind2 f)
    | ECall n args k => HCall n args k (go args)
    | EArray vs k => HArray vs k (go vs)
    | EAccess v acc k => HAccess v acc k (goa acc)
    | EUpdate v acc rhe k => HUpdate v acc rhe k (goa acc) (expr_ind2 rhe)
    | EPhi args k => HPhi args k
    end.
End ExprInd.

(* the nested helper functions of expr_uses, as top-level functions *)
Fixpoint acc_uses (D : decls) (acc : list (access expr)) : uses :=
  match acc with
  | [] => u0
  | AIdx i :: r => u_app (expr_uses D i) (acc_uses D r)
  | AComp _ :: r => acc_uses D r
  end.

Lemma expr_uses_call D n args k : expr_uses D (ECall n args k) = exprs_uses D args.
Proof. cbn. induction args as [|a args IH]; [reflexivity|]. cbn. f_equal. exact IH. Qed.
Lemma expr_uses_array D vs k : expr_uses D (EArray vs k) = exprs_uses D vs.
Proof. cbn. induction vs as [|a vs IH]; [reflexivity|]. cbn. f_equal. exact IH. Qed.
Lemma expr_uses_access D v acc k : expr_uses D (EAccess v acc k) = u_app (acc_uses D acc) (u_var D v).
Proof. cbn. f_equal. induction acc as [|[i|n] acc IH]; [reflexivity| |]; cbn; [f_equal|]; exact IH. Qed.
Lemma expr_uses_update D v acc rhe k :
  expr_uses D (EUpdate v acc rhe k) = u_app (expr_uses D rhe) (u_app (acc_uses D acc) (u_var D v)).
Proof. cbn. f_equal. f_equal. induction acc as [|[i|n] acc IH]; [reflexivity| |]; cbn; [f_equal|]; exact IH. Qed.

Section Instance.
  Variable V : Type.
  Variable sem_num : Z -> V.
  Variable sem_infix : infix_op -> V -> V -> V.
  Variable sem_prefix : prefix_op -> V -> V.
  Variable sem_switch : V -> V -> V -> V.
  Variable sem_call : ident -> list V -> V.
  Variable sem_array : list V -> V.
  Variable sem_access : V -> list (access V) -> V.
  Variable sem_update : V -> list (access V) -> V -> V.
  Variable sem_phi : list pcT -> list (vname * V) -> V.
  Variable sem_undef : V.
  Variable truthy : V -> bool.
  Variable g : cfg.
  Variable ment : stmt -> bool.

  Notation D := (c_decls g).
  Notation evalg := (eval V sem_num sem_infix sem_prefix sem_switch sem_call sem_array sem_access sem_update sem_phi sem_undef g).
  Notation prg := (ssa_prog V sem_num sem_infix sem_prefix sem_switch sem_call sem_array sem_access sem_update sem_phi sem_undef truthy g ment).
  Notation rdg := (rd V sem_undef g).

  Lemma rd_agree (s s' : vname -> V) v :
    (forall r, In r (uses_names (u_var D v)) -> s r = s' r) -> rdg s v = rdg s' v.
  Proof.
    unfold rd, u_var. destruct (type_of D v) as [t|]; [|reflexivity].
    intro H. apply H. destruct t; cbn; left; reflexivity.
  Qed.

  Definition eval_acc_top h (s : vname -> V) (acc : list (access expr)) : list (access V) :=
    map (fun a => match a with AIdx i => AIdx (evalg h s i) | AComp n => AComp n end) acc.

  Lemma eval_call h s n args k : evalg h s (ECall n args k) = sem_call n (map (evalg h s) args).
  Proof. simpl. apply f_equal. induction args as [|a args IH]; simpl; [reflexivity | apply f_equal; exact IH]. Qed.
  Lemma eval_array h s vs k : evalg h s (EArray vs k) = sem_array (map (evalg h s) vs).
  Proof. simpl. apply f_equal. induction vs as [|a vs IH]; simpl; [reflexivity | apply f_equal; exact IH]. Qed.
  Lemma eval_access h s v acc k : evalg h s (EAccess v acc k) = sem_access (rdg s v) (eval_acc_top h s acc).
  Proof. simpl. apply f_equal. induction acc as [|[i|n] acc IH]; simpl; [reflexivity| |]; apply f_equal; exact IH. Qed.
  Lemma eval_update h s v acc rhe k :
    evalg h s (EUpdate v acc rhe k) = sem_update (rdg s v) (eval_acc_top h s acc) (evalg h s rhe).
  Proof.
    simpl. apply (f_equal (fun l => sem_update (rdg s v) l (evalg h s rhe))).
    induction acc as [|[i|n] acc IH]; simpl; [reflexivity| |]; apply f_equal; exact IH.
  Qed.

  Definition reads_ok (e : expr) : Prop :=
    forall h (s s' : vname -> V),
      (forall r, In r (uses_names (expr_uses D e)) -> s r = s' r) -> evalg h s e = evalg h s' e.

  Lemma exprs_reads_ok es h (s s' : vname -> V) : Forall reads_ok es ->
    (forall r, In r (uses_names (exprs_uses D es)) -> s r = s' r) -> map (evalg h s) es = map (evalg h s') es.
  Proof.
    induction 1 as [|a es Ha Hes IH]; intro Hag; [reflexivity|]. cbn.
    f_equal; [apply Ha | apply IH]; intros q Hq; apply Hag; cbn; apply In_uses_app; tauto.
  Qed.

  Lemma acc_reads_ok acc h (s s' : vname -> V) : Forall (Pacc reads_ok) acc ->
    (forall r, In r (uses_names (acc_uses D acc)) -> s r = s' r) -> eval_acc_top h s acc = eval_acc_top h s' acc.
  Proof.
    induction 1 as [|[i|n] acc Ha Hacc IH]; intro Hag; [reflexivity| |]; cbn.
    - f_equal; [f_equal; apply Ha | apply IH]; intros q Hq; apply Hag; cbn; apply In_uses_app; tauto.
    - f_equal. apply IH. exact Hag.
  Qed.

  Lemma eval_reads : forall e, reads_ok e.
  Proof.
    induction e using expr_ind2; intros h s s' Hag.
    - reflexivity.
    - cbn. apply rd_agree. exact Hag.
    - change (expr_uses D (EInfix op e1 e2 k)) with (u_app (expr_uses D e1) (expr_uses D e2)) in Hag.
      change (sem_infix op (evalg h s e1) (evalg h s e2) = sem_infix op (evalg h s' e1) (evalg h s' e2)).
      f_equal; [apply IHe1 | apply IHe2]; intros q Hq; apply Hag, In_uses_app; tauto.
    - change (sem_prefix op (evalg h s e) = sem_prefix op (evalg h s' e)). f_equal. apply IHe. exact Hag.
    - change (expr_uses D (ESwitch e1 e2 e3 k)) with (u_app (expr_uses D e1) (u_app (expr_uses D e2) (expr_uses D e3))) in Hag.
      change (sem_switch (evalg h s e1) (evalg h s e2) (evalg h s e3) = sem_switch (evalg h s' e1) (evalg h s' e2) (evalg h s' e3)).
      f_equal; [apply IHe1 | apply IHe2 | apply IHe3]; intros q Hq; apply Hag; rewrite !In_uses_app; tauto.
    - rewrite !eval_call. rewrite expr_uses_call in Hag. f_equal. apply exprs_reads_ok; assumption.
    - rewrite !eval_array. rewrite expr_uses_array in Hag. f_equal. apply exprs_reads_ok; assumption.
    - rewrite !eval_access. rewrite expr_uses_access in Hag. f_equal.
      + apply rd_agree. intros q Hq. apply Hag, In_uses_app. tauto.
      + apply acc_reads_ok; [assumption|]. intros q Hq. apply Hag, In_uses_app. tauto.
    - rewrite !eval_update. rewrite expr_uses_update in Hag. f_equal.
      + apply rd_agree. intros q Hq. apply Hag. rewrite !In_uses_app. tauto.
      + apply acc_reads_ok; [assumption|]. intros q Hq. apply Hag. rewrite !In_uses_app. tauto.
      + apply IHe. intros q Hq. apply Hag. rewrite !In_uses_app. tauto.
    - cbn. f_equal. apply map_ext_in. intros a Ha. f_equal. apply Hag.
      unfold uses_names. cbn. rewrite app_nil_r. exact Ha.
  Qed.

  (* ---------------- the program is well formed ---------------- *)

  Lemma prog_wf : wf vname V pcT prg.
  Proof.
    intros [[i k]|]; cbn; [|exact I].
    destruct (find_block g i) as [blk|]; [|exact I].
    destruct (nth_error (b_stmts blk) k) as [s|].
    - destruct s as [m names t dims|m c t f|m e|m v op rhe sv [st|]|m l r|m args|m e]; cbn; try exact I.
      + intros h s s' Hag. f_equal. apply eval_reads. intros q Hq. apply Hag.
        unfold stmt_reads. cbn. exact Hq.
      + intros h s s' Hag. apply eval_reads. intros q Hq. apply Hag.
        unfold stmt_reads. destruct st, op; cbn [stmt_uses s_reads]; first [exact Hq | apply In_uses_app; left; exact Hq].
    - destruct (b_succs blk) as [|x [|y l]]; exact I.
  Qed.

  (* ---------------- instructions come from statements ---------------- *)

  Lemma prg_stmt pc ins : prg pc = ins -> ins <> IHalt ->
    (exists i k blk s, pc = Some (i, k) /\ In blk (c_blocks g) /\ In s (b_stmts blk) /\
        ins = stmt_instr V sem_num sem_infix sem_prefix sem_switch sem_call sem_array sem_access sem_update sem_phi
                sem_undef truthy g ment blk k s)
    \/ (exists x, ins = IEmit [] false (Some (x, O))).
  Proof.
    intros H Hne. destruct pc as [[i k]|]; cbn in H; [|congruence].
    unfold find_block in H. destruct (find _ (c_blocks g)) as [blk|] eqn:Hf; [|congruence].
    apply find_some in Hf. destruct Hf as [Hblk _].
    destruct (nth_error (b_stmts blk) k) as [s|] eqn:Hn.
    - left. exists i, k, blk, s. repeat split; try assumption; [eapply nth_error_In; eassumption | congruence].
    - destruct (b_succs blk) as [|x [|y l]]; try congruence. right. exists x. congruence.
  Qed.

  (* ---------------- data edges are taint steps ---------------- *)

  Lemma add_steps_In r sink srcs es : In r srcs -> In (r, sink) (add_steps srcs sink es).
  Proof. intro H. unfold add_steps. apply in_or_app. left. apply in_map_iff. exists r. split; [reflexivity | assumption]. Qed.

  Lemma add_steps_mono e srcs sink es : In e es -> In e (add_steps srcs sink es).
  Proof. intro H. unfold add_steps. apply in_or_app. right. assumption. Qed.

  Variable br : branches.

  Lemma taint_stmt_mono e bi st s :
    In e (t_edges st) -> In e (t_edges (taint_stmt D (c_blocks g) br bi st s)).
  Proof.
    intro H. destruct s as [m names t dims|m c t f|m e0|m v op rhe sv sty|m l r|m args|m e0]; cbn [taint_stmt]; try assumption.
    - apply fold_left_inv with (P := fun st' => In e (t_edges st')); [|assumption].
      intros a b Ha. cbn. apply add_steps_mono. assumption.
    - destruct (expr_val c); [assumption|].
      apply fold_left_inv with (P := fun st' => In e (t_edges st')); [|assumption].
      intros a b Ha. destruct (get_block (c_blocks g) b); [|assumption].
      apply fold_left_inv with (P := fun st' => In e (t_edges st')); [|assumption].
      intros a' b' Ha'. cbn. apply add_steps_mono. assumption.
    - apply fold_left_inv with (P := fun st' => In e (t_edges st')); [|assumption].
      intros a b Ha. cbn. apply add_steps_mono. assumption.
  Qed.

  Lemma stmt_writes_w_subst m x op rhe sv st :
    stmt_writes_w D (SSubst m x op rhe sv (Some st)) = [mkW m x (rhe_has_access rhe)].
  Proof. unfold stmt_writes_w. destruct st, op; reflexivity. Qed.

  Lemma taint_stmt_subst r bi st0 m x op rhe sv st :
    In r (stmt_reads D (SSubst m x op rhe sv (Some st))) ->
    In (r, x) (t_edges (taint_stmt D (c_blocks g) br bi st0 (SSubst m x op rhe sv (Some st)))).
  Proof.
    intro H. cbn [taint_stmt]. rewrite stmt_writes_w_subst. cbn [fold_left t_edges w_name].
    apply add_steps_In. assumption.
  Qed.

  Lemma ddep_taint r x : ddep g r x -> In (r, x) (t_edges (run_taint_analysis g br)).
  Proof.
    intros (blk & s & m & op & rhe & sv & st & Hblk & Hs & -> & Hr).
    unfold run_taint_analysis.
    apply fold_left_establish with (P := fun st' => In (r, x) (t_edges st')) (x := blk); [| |assumption].
    - intros a b Ha. unfold taint_block.
      apply fold_left_inv with (P := fun st' => In (r, x) (t_edges st')); [|assumption].
      intros a' b' Ha'. apply taint_stmt_mono. assumption.
    - intro a. unfold taint_block.
      apply fold_left_establish with (P := fun st' => In (r, x) (t_edges st')) (x := SSubst m x op rhe sv (Some st)); [| |assumption].
      + intros a' b' Ha'. apply taint_stmt_mono. assumption.
      + intro a'. apply taint_stmt_subst. assumption.
  Qed.

  Lemma data_edge_ddep r x : data_edge vname V pcT prg r x -> ddep g r x.
  Proof.
    intros (pc & rs & f & obs & nx & Hi & Hr).
    destruct (prg_stmt pc _ Hi ltac:(discriminate)) as [(i & k & blk & s & -> & Hblk & Hs & Hins)|[y Hy]]; [|discriminate].
    destruct s as [m names t dims|m c t f0|m e|m v op rhe sv [st|]|m l r0|m args|m e]; cbn in Hins; try discriminate.
    injection Hins as -> -> _ _ _.
    exists blk, (SSubst m v op rhe sv (Some st)), m, op, rhe, sv, st. repeat split; assumption.
  Qed.

  Theorem model_taint_has_data_edges r x :
    data_edge vname V pcT prg r x -> tedge (t_edges (run_taint_analysis g br)) r x.
  Proof. intro H. apply ddep_taint, data_edge_ddep, H. Qed.

  (* ---------------- the model's sinks cover the required sinks ---------------- *)

  (* the names tainted by an input/output signal are closed under data dependence *)
  Lemma ddep_closed es : exported_sinks g (t_edges (run_taint_analysis g br)) = Ok es ->
    forall a b, In a es -> ddep g a b -> In b es.
  Proof.
    intros Hes a b Ha Hab. unfold exported_sinks in Hes. apply bind_Ok in Hes. destruct Hes as [l [Hl H]]. injection H as <-.
    apply in_concat in Ha. destruct Ha as [r [Hr Ha]].
    destruct (mapM_Ok_In_rev _ _ _ Hl _ Hr) as [sig [_ Hsig]].
    apply in_concat. exists r. split; [assumption|].
    apply (taint_closure_exact _ _ _ Hsig). eapply rt_trans; [apply (taint_closure_exact _ _ _ Hsig); exact Ha|].
    apply rt_step. apply ddep_taint. assumption.
  Qed.

  (* [dep]: the notion of dependence by which a constraint "mentions" an input/output signal. All that is
     needed of it: the set of names the analysis finds tainted by an input/output signal is closed under it.
     Instances: data dependence (ddep_closed, no condition on the branch regions) and information flow
     = data + control dependence (Spec.CtlDep.idep, under the decidable hypothesis ctl_closed_b). *)
  Variable dep : vname -> vname -> Prop.
  Hypothesis Hdep : forall es, exported_sinks g (t_edges (run_taint_analysis g br)) = Ok es ->
                    forall a b, In a es -> dep a b -> In b es.
  Hypothesis Hment : ment_sound_by g dep ment.
  Hypothesis Hwf : exported_targets_declared g = true.

  Variable snk : list vname.
  Hypothesis Hsnk : sinks g (t_edges (run_taint_analysis g br)) (run_constraint_analysis g) = Ok snk.

  Notation tm := (t_edges (run_taint_analysis g br)).
  Notation cm := (run_constraint_analysis g).

  Lemma sinks_parts : exists es parts,
    exported_sinks g tm = Ok es /\
    mapM (fun source => r <- multi_step_constraint cm source ;;
                        Ok (match r with [] => [] | _ => source :: r end)) es = Ok parts /\
    snk = concat parts ++ exported_signals g ++ stmt_sinks g ++ constraint_stmt_sinks g es.
  Proof.
    unfold sinks, sinks_with in Hsnk. apply bind_Ok in Hsnk. destruct Hsnk as [es [Hes H]].
    apply bind_Ok in H. destruct H as [parts [Hparts H]]. injection H as <-.
    exists es, parts. repeat split; assumption.
  Qed.

  Lemma stmt_sinks_In blk s n :
    In blk (c_blocks g) -> In s (b_stmts blk) -> is_sink_stmt s = true -> In n (stmt_reads D s) -> In n snk.
  Proof.
    intros Hblk Hs Hk Hn. destruct sinks_parts as (es & parts & _ & _ & ->).
    apply in_or_app; right. apply in_or_app; right. apply in_or_app; left.
    unfold stmt_sinks. apply in_flat_map. exists blk. split; [assumption|].
    apply in_flat_map. exists s. split; [assumption|]. rewrite Hk. assumption.
  Qed.

  Lemma constraint_edge blk s a b :
    In blk (c_blocks g) -> In s (b_stmts blk) -> is_constraint_stmt s = true ->
    In a (stmt_used D s) -> In b (stmt_used D s) -> a <> b -> In (a, b) cm.
  Proof.
    intros Hblk Hs Hk Ha Hb Hne. unfold run_constraint_analysis.
    assert (Hmono : forall es s0, In (a, b) es -> In (a, b) (constraint_stmt D es s0)).
    { intros es s0 H. unfold constraint_stmt. destruct (is_constraint_stmt s0); [apply in_or_app; right|]; assumption. }
    apply fold_left_establish with (P := fun es => In (a, b) es) (x := blk); [| |assumption].
    - intros es b0 H. apply fold_left_inv with (P := fun es => In (a, b) es); assumption.
    - intro es. apply fold_left_establish with (P := fun es => In (a, b) es) (x := s); [assumption| |assumption].
      intro es'. unfold constraint_stmt. rewrite Hk. apply in_or_app; left.
      apply in_flat_map. exists a. split; [assumption|]. apply in_flat_map. exists b. split; [assumption|].
      destruct (vname_eqb a b) eqn:E; [apply vname_eqb_eq in E; contradiction | left; reflexivity].
  Qed.

  Lemma exported_In sig : exported g sig -> In sig (exported_signals g).
  Proof.
    intros [t [Hin Ht]]. unfold exported_signals. apply in_map_iff. exists (sig, t). split; [reflexivity|].
    apply filter_In. split; [assumption|]. destruct Ht as [-> | ->]; reflexivity.
  Qed.

  Lemma constraint_stmt_all_sinks blk s :
    In blk (c_blocks g) -> In s (b_stmts blk) -> is_constraint_stmt s = true -> mentions_by g dep s ->
    forall n, In n (stmt_used D s) -> In n snk.
  Proof.
    intros Hblk Hs Hk (n0 & sig & Hn0 & Hsig & Hreach) n Hn.
    destruct sinks_parts as (es & parts & Hes & Hparts & ->).
    (* n0 is tainted by an exported signal *)
    assert (Hn0es : In n0 es).
    { assert (Hsig_es : In sig es).
      { unfold exported_sinks in Hes. apply bind_Ok in Hes. destruct Hes as [l [Hl H]]. injection H as <-.
        destruct (mapM_Ok_In _ _ _ Hl sig (exported_In sig Hsig)) as [r [Hr Hin]].
        apply in_concat. exists r. split; [assumption|].
        apply (taint_closure_exact _ _ _ Hr). apply rt_refl. }
      assert (Hcl : forall a z, clos_refl_trans_1n vname dep a z -> In a es -> In z es).
      { intros a z H. induction H as [|a b c Hab _ IH]; intro Ha; [assumption|]. apply IH. eapply Hdep; eassumption. }
      eapply Hcl; [apply clos_rt_rt1n; exact Hreach | exact Hsig_es]. }
    destruct (vname_eq_dec n n0) as [->|Hne].
    - (* the name itself: the clause added by the repair *)
      apply in_or_app; right. apply in_or_app; right. apply in_or_app; right.
      unfold constraint_stmt_sinks. apply in_flat_map. exists blk. split; [assumption|].
      apply in_flat_map. exists s. split; [assumption|]. rewrite Hk.
      apply filter_In. split; [assumption | apply vmem_In; assumption].
    - (* a partner in the constraint *)
      apply in_or_app; left.
      destruct (mapM_Ok_In _ _ _ Hparts n0 Hn0es) as [part [Hpart Hin]].
      apply bind_Ok in Hpart. destruct Hpart as [r [Hr Hp]]. injection Hp as <-.
      apply in_concat. eexists. split; [exact Hin|].
      assert (Hnr : In n r).
      { apply (constraint_closure_exact _ _ _ Hr). apply t_step.
        eapply constraint_edge; try eassumption. congruence. }
      destruct r; [destruct Hnr | right; assumption].
  Qed.

  Lemma is_constraint_like s : constraint_like s = is_constraint_stmt s.
  Proof. destruct s as [| | |? ? [] ? ? ?| | |]; reflexivity. Qed.

  Lemma wf_target blk m x op rhe sv st :
    In blk (c_blocks g) -> In (SSubst m x op rhe sv (Some st)) (b_stmts blk) ->
    is_exported_type (type_of D x) = true -> In x (exported_signals g).
  Proof.
    intros Hblk Hs Ht. unfold exported_targets_declared in Hwf.
    rewrite forallb_forall in Hwf. specialize (Hwf blk Hblk). rewrite forallb_forall in Hwf.
    specialize (Hwf _ Hs). cbn beta iota in Hwf.
    destruct (type_of D x) as [[]|]; cbn in Ht, Hwf; try discriminate; apply vmem_In; assumption.
  Qed.

  Lemma exported_in_sinks x : In x (exported_signals g) -> In x snk.
  Proof.
    intro H. destruct sinks_parts as (es & parts & _ & _ & ->).
    apply in_or_app; right. apply in_or_app; left. assumption.
  Qed.

  Theorem model_sinks_cover_required n :
    required_sink vname V pcT prg n -> In n snk.
  Proof.
    intros [(pc & rs & c & pt & pf & Hi & Hn) | [(pc & rs & nx & Hi & Hn) | (pc & rs & f & nx & Hi)]].
    - destruct (prg_stmt pc _ Hi ltac:(discriminate)) as [(i & k & blk & s & -> & Hblk & Hs & Hins)|[y Hy]]; [|discriminate].
      destruct s as [m names t dims|m c0 t f0|m e|m v op rhe sv [st|]|m l r0|m args|m e]; cbn in Hins; try discriminate.
      injection Hins as -> _ _ _. eapply stmt_sinks_In; try eassumption. reflexivity.
    - destruct (prg_stmt pc _ Hi ltac:(discriminate)) as [(i & k & blk & s & -> & Hblk & Hs & Hins)|[y Hy]]; [|discriminate].
      destruct s as [m names t dims|m c0 t f0|m e|m v op rhe sv [st|]|m l r0|m args|m e]; cbn in Hins; try discriminate.
      + injection Hins as -> _. eapply stmt_sinks_In; try eassumption. reflexivity.
      + injection Hins as ->. eapply stmt_sinks_In; try eassumption. reflexivity.
      + injection Hins as -> Hm _. symmetry in Hm.
        eapply constraint_stmt_all_sinks; try eassumption; [reflexivity | apply Hment; assumption|].
        unfold stmt_used. apply in_or_app. left. assumption.
      + injection Hins as -> _. eapply stmt_sinks_In; try eassumption. reflexivity.
    - destruct (prg_stmt pc _ Hi ltac:(discriminate)) as [(i & k & blk & s & -> & Hblk & Hs & Hins)|[y Hy]]; [|discriminate].
      destruct s as [m names t dims|m c0 t f0|m e|m v op rhe sv [st|]|m l r0|m args|m e]; cbn in Hins; try discriminate.
      injection Hins as -> _ _ Hobs _. symmetry in Hobs. apply orb_true_iff in Hobs. destruct Hobs as [Hex|Hc].
      + apply exported_in_sinks. eapply wf_target; eassumption.
      + apply andb_true_iff in Hc. destruct Hc as [Hc Hm].
        assert (Hk : forall x, is_constraint_stmt (SSubst m x op rhe sv (Some st)) = true)
          by (intro; destruct op; try discriminate Hc; reflexivity).
        apply (constraint_stmt_all_sinks blk _ Hblk Hs (Hk _) (Hment _ Hm)).
        unfold stmt_used, stmt_writes. rewrite stmt_writes_w_subst. apply in_or_app. right. left. reflexivity.
  Qed.
End Instance.

(* ------------------------------------------------------------------ *)
(* claims of the analysis => non-interference                           *)
(* ------------------------------------------------------------------ *)

Lemma signal_finding_kind g tm cm read reported kt f :
  signal_finding g tm cm read reported kt = Ok (Some f) ->
  f_kind f = FUnusedSignal \/ f_kind f = FUnconstrainedSignal.
Proof.
  unfold signal_finding.
  destruct (displays_underscore (fst kt) false); [discriminate|].
  destruct (existsb _ reported); [discriminate|].
  destruct (negb (vmem (fst kt) read)); [intro H; injection H as <-; left; reflexivity|].
  destruct (is_template g); [|discriminate].
  intro H. apply bind_Ok in H. destruct H as [t [_ H]]. destruct t; [discriminate|].
  injection H as <-. right. reflexivity.
Qed.

Lemma definition_finding_nse g tm read snk d f :
  definition_finding g tm read snk d = Ok (Some f) ->
  f_kind f = FVarNoSideEffect \/ f_kind f = FParamNoSideEffect ->
  f_var f = d_name d /\ taints_any tm (d_name d) snk = Ok false.
Proof.
  unfold definition_finding.
  destruct (displays_underscore (d_name d) (d_acc d)); [discriminate|].
  destruct (negb (vmem (d_name d) read)).
  - intro H. injection H as <-. cbn. destruct (is_param g (d_name d)); intros [H|H]; discriminate.
  - intro H. apply bind_Ok in H. destruct H as [t [Ht H]]. destruct t; [discriminate|].
    injection H as <-. intros _. split; [reflexivity | assumption].
Qed.

Lemma no_taint_no_rel tm x snk :
  taints_any tm x snk = Ok false ->
  ~ Rel vname (tedge tm) (fun n => In n snk) x.
Proof.
  unfold taints_any. intro H. apply bind_Ok in H. destruct H as [r [Hr H]]. injection H as H.
  intros [s [Hs Hreach]]. apply (taint_closure_exact _ _ _ Hr) in Hreach.
  assert (existsb (fun s0 => vmem s0 snk) r = true); [|congruence].
  apply existsb_exists. exists s. split; [assumption | apply vmem_In; assumption].
Qed.

Theorem noninterference_of_claims_by
  (V : Type) (sem_num : Z -> V) (sem_infix : infix_op -> V -> V -> V) (sem_prefix : prefix_op -> V -> V)
  (sem_switch : V -> V -> V -> V) (sem_call : ident -> list V -> V) (sem_array : list V -> V)
  (sem_access : V -> list (access V) -> V) (sem_update : V -> list (access V) -> V -> V)
  (sem_phi : list pcT -> list (vname * V) -> V) (sem_undef : V) (truthy : V -> bool)
  (g : cfg) (br : branches) (ment : stmt -> bool) (res : result) (f : finding)
  (dep : vname -> vname -> Prop) :
  (forall es, exported_sinks g (t_edges (run_taint_analysis g br)) = Ok es ->
              forall a b, In a es -> dep a b -> In b es) ->
  ment_sound_by g dep ment ->
  exported_targets_declared g = true ->
  run_side_effect_analysis g br = Ok res ->
  In f (r_findings res) ->
  f_kind f = FVarNoSideEffect \/ f_kind f = FParamNoSideEffect ->
  noninterference vname V pcT vname_eq_dec
    (ssa_prog V sem_num sem_infix sem_prefix sem_switch sem_call sem_array sem_access sem_update sem_phi
              sem_undef truthy g ment) (f_var f).
Proof.
  intros Hdep Hment Hwf Hrun Hf Hkind.
  unfold run_side_effect_analysis, run_side_effect_analysis_with in Hrun.
  apply bind_Ok in Hrun. destruct Hrun as [snk [Hsnk Hrun]].
  apply bind_Ok in Hrun. destruct Hrun as [fs1 [Hfs1 Hrun]].
  apply bind_Ok in Hrun. destruct Hrun as [fs2 [Hfs2 Hrun]].
  injection Hrun as <-. cbn [r_findings] in Hf. apply in_app_or in Hf. destruct Hf as [Hf|Hf].
  - apply In_somes in Hf. destruct (mapM_Ok_In_rev _ _ _ Hfs1 _ Hf) as [d [_ Hd]].
    destruct (definition_finding_nse _ _ _ _ _ _ Hd Hkind) as [-> Hno].
    eapply ni_generic with (T := tedge (t_edges (run_taint_analysis g br))) (S := fun n => In n snk).
    + apply prog_wf.
    + intros r y. apply model_taint_has_data_edges.
    + intros s. apply model_sinks_cover_required with (br := br) (dep := dep); assumption.
    + apply no_taint_no_rel. assumption.
  - exfalso. apply In_somes in Hf. destruct (mapM_Ok_In_rev _ _ _ Hfs2 _ Hf) as [kt [_ Hk]].
    apply signal_finding_kind in Hk. destruct Hkind as [H|H], Hk as [H'|H']; congruence.
Qed.

(* data dependence only: no condition on the branch regions *)
Theorem noninterference_of_claims
  (V : Type) (sem_num : Z -> V) (sem_infix : infix_op -> V -> V -> V) (sem_prefix : prefix_op -> V -> V)
  (sem_switch : V -> V -> V -> V) (sem_call : ident -> list V -> V) (sem_array : list V -> V)
  (sem_access : V -> list (access V) -> V) (sem_update : V -> list (access V) -> V -> V)
  (sem_phi : list pcT -> list (vname * V) -> V) (sem_undef : V) (truthy : V -> bool)
  (g : cfg) (br : branches) (ment : stmt -> bool) (res : result) (f : finding) :
  ment_sound g ment ->
  exported_targets_declared g = true ->
  run_side_effect_analysis g br = Ok res ->
  In f (r_findings res) ->
  f_kind f = FVarNoSideEffect \/ f_kind f = FParamNoSideEffect ->
  noninterference vname V pcT vname_eq_dec
    (ssa_prog V sem_num sem_infix sem_prefix sem_switch sem_call sem_array sem_access sem_update sem_phi
              sem_undef truthy g ment) (f_var f).
Proof.
  intros Hment. apply noninterference_of_claims_by with (dep := ddep g).
  - intros es Hes. eapply ddep_closed. exact Hes.
  - exact Hment.
Qed.

(* ------------------------------------------------------------------ *)
(* "never read" claims                                                  *)
(* ------------------------------------------------------------------ *)

Lemma definition_finding_unused g tm read snk d f :
  definition_finding g tm read snk d = Ok (Some f) ->
  f_kind f = FUnusedVar \/ f_kind f = FUnusedParam ->
  f_var f = d_name d /\ ~ In (d_name d) read.
Proof.
  unfold definition_finding.
  destruct (displays_underscore (d_name d) (d_acc d)); [discriminate|].
  destruct (negb (vmem (d_name d) read)) eqn:E.
  - intro H. injection H as <-. intros _. split; [reflexivity|].
    intro Hin. apply vmem_In in Hin. rewrite Hin in E. discriminate.
  - intro H. apply bind_Ok in H. destruct H as [t [Ht H]]. destruct t; [discriminate|].
    injection H as <-. cbn. destruct (is_param g (d_name d)); intros [H|H]; discriminate.
Qed.

Lemma read_in_variables_read g blk s x :
  In blk (c_blocks g) -> In s (b_stmts blk) -> In x (stmt_reads (c_decls g) s) -> In x (variables_read g).
Proof.
  intros Hblk Hs Hx. unfold variables_read. apply in_flat_map. exists blk. split; [assumption|].
  unfold block_reads. apply in_flat_map. exists s. split; assumption.
Qed.

Theorem noninterference_of_unused_claims
  (V : Type) (sem_num : Z -> V) (sem_infix : infix_op -> V -> V -> V) (sem_prefix : prefix_op -> V -> V)
  (sem_switch : V -> V -> V -> V) (sem_call : ident -> list V -> V) (sem_array : list V -> V)
  (sem_access : V -> list (access V) -> V) (sem_update : V -> list (access V) -> V -> V)
  (sem_phi : list pcT -> list (vname * V) -> V) (sem_undef : V) (truthy : V -> bool)
  (g : cfg) (br : branches) (ment : stmt -> bool) (res : result) (f : finding) :
  exported_targets_declared g = true ->
  csig_on_signals g = true ->
  run_side_effect_analysis g br = Ok res ->
  In f (r_findings res) ->
  f_kind f = FUnusedVar \/ f_kind f = FUnusedParam ->
  ~ In (f_var f) (exported_signals g) ->
  noninterference vname V pcT vname_eq_dec
    (ssa_prog V sem_num sem_infix sem_prefix sem_switch sem_call sem_array sem_access sem_update sem_phi
              sem_undef truthy g ment) (f_var f).
Proof.
  intros Hwf Hcs Hrun Hf Hkind Hnexp.
  set (prg := ssa_prog V sem_num sem_infix sem_prefix sem_switch sem_call sem_array sem_access sem_update sem_phi
              sem_undef truthy g ment).
  unfold run_side_effect_analysis, run_side_effect_analysis_with in Hrun.
  apply bind_Ok in Hrun. destruct Hrun as [snk [Hsnk Hrun]].
  apply bind_Ok in Hrun. destruct Hrun as [fs1 [Hfs1 Hrun]].
  apply bind_Ok in Hrun. destruct Hrun as [fs2 [Hfs2 Hrun]].
  injection Hrun as <-. cbn [r_findings] in Hf. apply in_app_or in Hf. destruct Hf as [Hf|Hf].
  2:{ exfalso. apply In_somes in Hf. destruct (mapM_Ok_In_rev _ _ _ Hfs2 _ Hf) as [kt [_ Hk]].
      apply signal_finding_kind in Hk. destruct Hkind as [H|H], Hk as [H'|H']; congruence. }
  apply In_somes in Hf. destruct (mapM_Ok_In_rev _ _ _ Hfs1 _ Hf) as [d [_ Hd]].
  destruct (definition_finding_unused _ _ _ _ _ _ Hd Hkind) as [Hv Hunread]. rewrite Hv in *.
  set (x := d_name d) in *.
  (* x is read by no instruction *)
  assert (Hnoread : forall blk s, In blk (c_blocks g) -> In s (b_stmts blk) ->
            ~ In x (stmt_reads (c_decls g) s)).
  { intros blk s Hblk Hs Hx. apply Hunread. eapply read_in_variables_read; eassumption. }
  eapply ni_generic with (T := data_edge vname V pcT prg) (S := required_sink vname V pcT prg).
  - apply prog_wf.
  - auto.
  - auto.
  - intros [s [Hs Hreach]].
    assert (s = x) as ->.
    { apply clos_rt_rt1n in Hreach. destruct Hreach as [|y z Hxy _]; [reflexivity|]. exfalso.
      apply data_edge_ddep in Hxy. destruct Hxy as (blk & s0 & m & op & rhe & sv & st & Hblk & Hs0 & -> & Hr).
      eapply Hnoread; eassumption. }
    destruct Hs as [(pc & rs & c & pt & pf & Hi & Hn) | [(pc & rs & nx & Hi & Hn) | (pc & rs & f0 & nx & Hi)]].
    + destruct (prg_stmt _ _ _ _ _ _ _ _ _ _ _ _ _ _ pc _ Hi ltac:(discriminate)) as [(i & k & blk & s & -> & Hblk & Hs & Hins)|[y Hy]]; [|discriminate].
      destruct s as [m names t dims|m c0 t f1|m e|m v op rhe sv [st|]|m l r0|m args|m e]; cbn in Hins; try discriminate.
      injection Hins as -> _ _ _. eapply Hnoread; eassumption.
    + destruct (prg_stmt _ _ _ _ _ _ _ _ _ _ _ _ _ _ pc _ Hi ltac:(discriminate)) as [(i & k & blk & s & -> & Hblk & Hs & Hins)|[y Hy]]; [|discriminate].
      destruct s as [m names t dims|m c0 t f1|m e|m v op rhe sv [st|]|m l r0|m args|m e]; cbn in Hins; try discriminate;
        injection Hins as ->; eapply Hnoread; eassumption.
    + destruct (prg_stmt _ _ _ _ _ _ _ _ _ _ _ _ _ _ pc _ Hi ltac:(discriminate)) as [(i & k & blk & s & -> & Hblk & Hs & Hins)|[y Hy]]; [|discriminate].
      destruct s as [m names t dims|m c0 t f1|m e|m v op rhe sv [st|]|m l r0|m args|m e]; cbn in Hins; try discriminate.
      injection Hins as Hvx _ _ Hobs _. subst v. symmetry in Hobs. apply orb_true_iff in Hobs. destruct Hobs as [Hex|Hc].
      * apply Hnexp. unfold exported_targets_declared in Hwf.
        rewrite forallb_forall in Hwf. specialize (Hwf blk Hblk). rewrite forallb_forall in Hwf.
        specialize (Hwf _ Hs). cbn beta iota in Hwf.
        destruct (type_of (c_decls g) x) as [[]|]; cbn in Hex, Hwf; try discriminate; apply vmem_In; assumption.
      * apply andb_true_iff in Hc. destruct Hc as [Hc _].
        unfold csig_on_signals in Hcs. rewrite forallb_forall in Hcs. specialize (Hcs blk Hblk).
        rewrite forallb_forall in Hcs. specialize (Hcs _ Hs). cbn beta iota in Hcs.
        destruct op; try discriminate Hc.
        apply vmem_In in Hcs. eapply Hnoread; eassumption.
Qed.
