(* C07: concrete runs whose paths DIFFER between valuations are represented by the
   lock-step relation of Spec.DegSem - for LOOP-FREE graphs in SINGLE-ASSIGNMENT form.

   Setting.  Blocks are numbered so that every run visits them in increasing order
   (the paths are strictly increasing: no block is visited twice); every local is assigned
   by at most one statement.  A family of concrete runs of Spec.DegRun, one per valuation
   rho, each along its own path  pth rho ; finitely many path classes, each with a
   representative valuation ([reps]).

   The schedule.  The lock-step relation fires, block after block in the order of the
   indices, every statement of every block that SOME run visits, for ALL valuations:
   valuations that do not visit the block compute it speculatively (harmless: single
   assignment, nobody reads a cell he has not assigned).  A leading phi of a join copies,
   for a valuation that visits the block, the argument that arrives along its path; for the
   others the argument of a fixed visitor.

   What has to be assumed of the family ([picks_decided]): two runs that enter a block
   with DIFFERENT arriving arguments for one of its phis enter a join, and differ on the
   value of a condition that Spec.DegSem.decides names for the block, evaluated in the
   stores with which they enter it.  This is the control-dependence assumption of the
   semantics in concrete terms; Proofs.CtlBridge gives the graph half of it (the block
   where two runs part is named by [decides]). *)
From Coq Require Import ZArith NArith List Bool Arith Lia Sorting.Sorted.
Require Import Model.Base Model.Ir Model.SsaCheck Model.Propagate Model.Justify Model.DegJustify.
Require Import Spec.PolyDeg Spec.DegSem Spec.DegRun Proofs.IrInd Proofs.ValueProofs Proofs.DegRunProofs.
Import ListNotations.
Local Open Scope Z_scope.

Lemma NoDup_app_r {A} (l1 l2 : list A) : NoDup (l1 ++ l2) -> NoDup l2.
Proof. induction l1 as [|x l1 IH]; cbn; [auto|]. intros H. apply NoDup_cons_iff in H as [_ H]. auto. Qed.
Lemma NoDup_app_l {A} (l1 l2 : list A) : NoDup (l1 ++ l2) -> NoDup l1.
Proof.
  induction l1 as [|x l1 IH]; cbn; [constructor|]. intros H. apply NoDup_cons_iff in H as [Hx H].
  constructor; [|auto]. intros Hin. apply Hx. apply in_or_app. left. exact Hin.
Qed.
Lemma NoDup_app_disj {A} (l1 l2 : list A) : NoDup (l1 ++ l2) -> forall x, In x l1 -> In x l2 -> False.
Proof.
  induction l1 as [|y l1 IH]; cbn; [contradiction|]. intros H x [->|Hx] H2.
  - apply NoDup_cons_iff in H as [Hy _]. apply Hy. apply in_or_app. right. exact H2.
  - apply NoDup_cons_iff in H as [_ H]. eapply IH; eauto.
Qed.

(* ---------- denotations only grow with the store ---------- *)
Section Mono.
Variable V : Type.
Variable p : Z.
Variable sem2 : infix_op -> Z -> Z -> Z.
Variable sem1 : prefix_op -> Z -> Z.
Variable call_sem : ident -> list Z -> Z.
Variable name_code : ident -> Z.
Notation den := (den V p sem2 sem1 call_sem name_code).

Definition fsub (S S' : fstore V) : Prop := forall x F, S x = Some F -> S' x = Some F.

Lemma fsub_refl S : fsub S S. Proof. intros x F H. exact H. Qed.
Lemma fsub_trans S1 S2 S3 : fsub S1 S2 -> fsub S2 S3 -> fsub S1 S3.
Proof. intros H1 H2 x F H. apply H2, H1, H. Qed.
Lemma fsub_upd S x F : S x = None -> fsub S (fupd V S x (Some F)).
Proof.
  intros Hn y G Hy. unfold fupd. destruct (vname_eqb x y) eqn:E; [|exact Hy].
  apply vname_eqb_eq in E. subst y. congruence.
Qed.

Section One.
Variables S S' : fstore V.
Hypothesis Hsub : fsub S S'.

Lemma den_list_fsub (es : list expr) : Forall (fun e => forall F, den S e = Some F -> den S' e = Some F) es ->
  forall Fs,
  (fix den_list (es : list expr) : option (list (fam V)) :=
     match es with
     | [] => Some []
     | x :: tl => match den S x, den_list tl with
                  | Some F, Some Fs => Some (F :: Fs)
                  | _, _ => None
                  end
     end) es = Some Fs ->
  (fix den_list (es : list expr) : option (list (fam V)) :=
     match es with
     | [] => Some []
     | x :: tl => match den S' x, den_list tl with
                  | Some F, Some Fs => Some (F :: Fs)
                  | _, _ => None
                  end
     end) es = Some Fs.
Proof.
  induction 1 as [|e tl He _ IH]; intros Fs; [auto|]. simpl.
  destruct (den S e) as [F|] eqn:Ee; [|discriminate]. rewrite (He F eq_refl).
  match goal with |- match ?t with Some _ => _ | None => _ end = _ -> _ => destruct t as [Fs0|] eqn:Et; [|discriminate] end.
  rewrite (IH Fs0 eq_refl). auto.
Qed.

Lemma den_acc_fsub (acc : list (access expr)) :
  Forall (fun e => forall F, den S e = Some F -> den S' e = Some F) (acc_exprs acc) ->
  forall Is,
  (fix den_acc (acc : list (access expr)) : option (list (V -> Z)) :=
     match acc with
     | [] => Some []
     | AIdx x :: tl => match den S x, den_acc tl with
                       | Some Ix, Some Is => Some (Ix [] :: Is)
                       | _, _ => None
                       end
     | AComp n :: tl => match den_acc tl with
                        | Some Is => Some ((fun _ => name_code n) :: Is)
                        | None => None
                        end
     end) acc = Some Is ->
  (fix den_acc (acc : list (access expr)) : option (list (V -> Z)) :=
     match acc with
     | [] => Some []
     | AIdx x :: tl => match den S' x, den_acc tl with
                       | Some Ix, Some Is => Some (Ix [] :: Is)
                       | _, _ => None
                       end
     | AComp n :: tl => match den_acc tl with
                        | Some Is => Some ((fun _ => name_code n) :: Is)
                        | None => None
                        end
     end) acc = Some Is.
Proof.
  induction acc as [|a tl IH]; intros Hall Is; [auto|].
  destruct a as [e|n]; cbn [acc_exprs flat_map app] in Hall; simpl.
  - apply Forall_cons_iff in Hall as [He Ht]. specialize (IH Ht).
    destruct (den S e) as [F|] eqn:Ee; [|discriminate]. rewrite (He F eq_refl).
    match goal with |- match ?t with Some _ => _ | None => _ end = _ -> _ => destruct t as [Is0|] eqn:Et; [|discriminate] end.
    rewrite (IH Is0 eq_refl). auto.
  - specialize (IH Hall).
    match goal with |- match ?t with Some _ => _ | None => _ end = _ -> _ => destruct t as [Is0|] eqn:Et; [|discriminate] end.
    rewrite (IH Is0 eq_refl). auto.
Qed.

Lemma den_fsub : forall e F, den S e = Some F -> den S' e = Some F.
Proof.
  induction e as [z k|v k|op l r k IHl IHr|op e k IHe|cd t f k IHc IHt IHf|n args k IHargs|vs k IHvs
                  |v acc k IHacc|v acc rhe k IHacc IHrhe|args k] using expr_ind';
    cbn [DegSem.den]; intros F Hd.
  - exact Hd.
  - apply Hsub. exact Hd.
  - destruct (den S l) as [Fl|] eqn:El; [|discriminate]. destruct (den S r) as [Fr|] eqn:Er; [|discriminate].
    rewrite (IHl Fl eq_refl), (IHr Fr eq_refl). exact Hd.
  - destruct (den S e) as [Fe|] eqn:Ee; [|discriminate]. rewrite (IHe Fe eq_refl). exact Hd.
  - destruct (den S cd) as [Fc|] eqn:Ec; [|discriminate]. destruct (den S t) as [Ft|] eqn:Et; [|discriminate].
    destruct (den S f) as [Ff|] eqn:Ef; [|discriminate].
    rewrite (IHc Fc eq_refl), (IHt Ft eq_refl), (IHf Ff eq_refl). exact Hd.
  - match type of Hd with match ?t with Some _ => _ | None => _ end = _ => destruct t as [Fs|] eqn:El; [|discriminate] end.
    rewrite (den_list_fsub args IHargs Fs El). exact Hd.
  - match type of Hd with match ?t with Some _ => _ | None => _ end = _ => destruct t as [Fs|] eqn:El; [|discriminate] end.
    rewrite (den_list_fsub vs IHvs Fs El). exact Hd.
  - destruct (S v) as [A|] eqn:Ev; [|discriminate]. rewrite (Hsub v A Ev).
    match type of Hd with match ?t with Some _ => _ | None => _ end = _ => destruct t as [Is|] eqn:Ea; [|discriminate] end.
    rewrite (den_acc_fsub acc IHacc Is Ea). exact Hd.
  - destruct (S v) as [A|] eqn:Ev; [|discriminate]. rewrite (Hsub v A Ev).
    match type of Hd with match ?t with Some _ => _ | None => _ end = _ => destruct t as [Is|] eqn:Ea; [|discriminate] end.
    rewrite (den_acc_fsub acc IHacc Is Ea).
    destruct (den S rhe) as [R|] eqn:Er; [|discriminate]. rewrite (IHrhe R eq_refl). exact Hd.
  - discriminate.
Qed.
End One.

(* the concrete store knows no more than the family store says at rho *)
Definition sub_store (rho : V) (s : cstore) (S : fstore V) : Prop :=
  forall x v, s x = Some v -> exists F, S x = Some F /\ rel_cell V rho v F.

Lemma rel_sub_store rho s S : rel_store V rho s S -> sub_store rho s S.
Proof.
  intros H x v Hx. specialize (H x). rewrite Hx in H. destruct (S x) as [F|]; cbn in H; [eauto|contradiction].
Qed.

(* a value in the concrete store is the denotation at rho *)
Lemma cval_den_sub rho s S e v : sub_store rho s S ->
  cval p sem2 sem1 call_sem name_code s e = Some v ->
  exists F, den S e = Some F /\ rel_cell V rho v F.
Proof.
  intros Hs Hv.
  set (S1 := fun x => match s x with Some _ => S x | None => None end).
  assert (Hrel : rel_store V rho s S1).
  { intros x. unfold S1. destruct (s x) as [w|] eqn:Ex; [|exact I].
    destruct (Hs x w Ex) as (F & HF & Hr). rewrite HF. exact Hr. }
  assert (Hf : fsub S1 S).
  { intros x F. unfold S1. destruct (s x); [auto|discriminate]. }
  pose proof (cval_den V p sem2 sem1 call_sem name_code rho s S1 Hrel e) as H.
  rewrite Hv in H. destruct (den S1 e) as [F|] eqn:EF; cbn in H; [|contradiction].
  exists F. split; [exact (den_fsub S1 S Hf e F EF)|exact H].
Qed.
End Mono.

(* the blocks of a path below index a *)
Definition below (a : nat) (pi : list nat) : list nat := filter (fun i => (i <? a)%nat) pi.
Definition from (a : nat) (pi : list nat) : list nat := filter (fun i => negb (i <? a)%nat) pi.

Lemma below_none a pi : Forall (fun i => (a <= i)%nat) pi -> below a pi = [].
Proof.
  induction 1 as [|x tl Hx _ IH]; [reflexivity|]. cbn [below filter].
  destruct (x <? a)%nat eqn:E; [apply Nat.ltb_lt in E; lia|exact IH].
Qed.

Lemma below_S_in a pi : StronglySorted lt pi -> In a pi -> below (S a) pi = below a pi ++ [a].
Proof.
  induction 1 as [|x tl Hs IH Hx]; intros Hin; [contradiction|]. cbn [below filter].
  destruct (Nat.lt_trichotomy x a) as [Hlt|[->|Hgt]].
  - assert (E1 : (x <? S a)%nat = true) by (apply Nat.ltb_lt; lia).
    assert (E2 : (x <? a)%nat = true) by (apply Nat.ltb_lt; lia).
    rewrite E1, E2. cbn [app]. f_equal. apply IH. destruct Hin as [->|Hin]; [lia|exact Hin].
  - assert (E1 : (a <? S a)%nat = true) by (apply Nat.ltb_lt; lia).
    rewrite E1, Nat.ltb_irrefl.
    fold (below (S a) tl). fold (below a tl).
    rewrite (below_none (S a) tl), (below_none a tl); [reflexivity| |].
    + eapply Forall_impl; [|exact Hx]. cbn. intros; lia.
    + eapply Forall_impl; [|exact Hx]. cbn. intros; lia.
  - exfalso. destruct Hin as [->|Hin]; [lia|]. rewrite Forall_forall in Hx. specialize (Hx a Hin). lia.
Qed.

Lemma below_S_notin a pi : ~ In a pi -> below (S a) pi = below a pi.
Proof.
  induction pi as [|x tl IH]; intros Hn; [reflexivity|]. cbn [below filter].
  assert (Hxa : x <> a) by (intros ->; apply Hn; left; reflexivity).
  assert (E : (x <? S a)%nat = (x <? a)%nat).
  { destruct (x <? a)%nat eqn:E1; [apply Nat.ltb_lt in E1; apply Nat.ltb_lt; lia|].
    apply Nat.ltb_ge in E1. apply Nat.ltb_ge. lia. }
  rewrite E. fold (below (S a) tl). fold (below a tl). rewrite IH; [reflexivity|]. intros H. apply Hn. right. exact H.
Qed.

Lemma below_all n pi : (forall i, In i pi -> (i < n)%nat) -> below n pi = pi.
Proof.
  induction pi as [|x tl IH]; intros H; [reflexivity|]. cbn [below filter].
  assert (E : (x <? n)%nat = true) by (apply Nat.ltb_lt; apply H; left; reflexivity).
  rewrite E. f_equal. apply IH. intros i Hi. apply H. right. exact Hi.
Qed.

Lemma below_from a pi : StronglySorted lt pi -> pi = below a pi ++ from a pi.
Proof.
  induction 1 as [|x tl Hs IH Hx]; [reflexivity|]. cbn [below from filter].
  destruct (x <? a)%nat eqn:E; cbn [negb app].
  - f_equal. exact IH.
  - apply Nat.ltb_ge in E. fold (below a tl). fold (from a tl).
    rewrite (below_none a tl).
    + cbn [app]. f_equal. rewrite IH at 1. rewrite (below_none a tl); [reflexivity|].
      eapply Forall_impl; [|exact Hx]. cbn. intros; lia.
    + eapply Forall_impl; [|exact Hx]. cbn. intros; lia.
Qed.


(* ---------- paths: runs without the branch test, prefixes ---------- *)
Section Paths.
Variable p : Z.
Variable sem2 : infix_op -> Z -> Z -> Z.
Variable sem1 : prefix_op -> Z -> Z.
Variable call_sem : ident -> list Z -> Z.
Variable name_code : ident -> Z.
Variable c : cfg.
Notation cexec_block := (cexec_block p sem2 sem1 call_sem name_code).
Notation cexec_path := (cexec_path p sem2 sem1 call_sem name_code).

(* the running version map after a path *)
Definition vmap_after (L : vmap) (pi : list nat) : vmap :=
  fold_left (fun L i => match nth_error (c_blocks c) i with Some b => block_vmap L b | None => L end) pi L.

Fixpoint cexec_nocheck (L : vmap) (s : cstore) (pi : list nat) : option cstore :=
  match pi with
  | [] => Some s
  | i :: tl =>
    match nth_error (c_blocks c) i with
    | None => None
    | Some b => match cexec_block c L s b with
                | None => None
                | Some s1 => cexec_nocheck (block_vmap L b) s1 tl
                end
    end
  end.

Lemma cexec_path_nocheck pi : forall L s s', cexec_path c L s pi = Some s' -> cexec_nocheck L s pi = Some s'.
Proof.
  induction pi as [|i tl IH]; intros L s s'; cbn [DegRun.cexec_path cexec_nocheck]; [auto|].
  destruct (nth_error (c_blocks c) i) as [b|]; [|discriminate].
  destruct (cexec_block c L s b) as [s1|]; [|discriminate].
  destruct (match tl with [] => true | j :: _ => branch_okb p sem2 sem1 call_sem name_code s1 b j end); [|discriminate].
  apply IH.
Qed.

Lemma nocheck_app p1 : forall L s p2,
  cexec_nocheck L s (p1 ++ p2) =
  match cexec_nocheck L s p1 with Some s1 => cexec_nocheck (vmap_after L p1) s1 p2 | None => None end.
Proof.
  induction p1 as [|i tl IH]; intros L s p2; cbn [app cexec_nocheck]; [reflexivity|].
  unfold vmap_after. cbn [fold_left].
  destruct (nth_error (c_blocks c) i) as [b|]; [|reflexivity].
  destruct (cexec_block c L s b) as [s1|]; [|reflexivity].
  apply IH.
Qed.

(* a run that completes has completed every prefix *)
Lemma nocheck_below a pi L s s' : StronglySorted lt pi -> cexec_nocheck L s pi = Some s' ->
  exists s1, cexec_nocheck L s (below a pi) = Some s1.
Proof.
  intros Hs H. rewrite (below_from a pi Hs), nocheck_app in H.
  destruct (cexec_nocheck L s (below a pi)) as [s1|]; [eauto|discriminate].
Qed.
End Paths.

(* ---------- one block of the schedule, for all valuations ---------- *)
Section Block.
Variable V : Type.
Variable p : Z.
Variable sem2 : infix_op -> Z -> Z -> Z.
Variable sem1 : prefix_op -> Z -> Z.
Variable call_sem : ident -> list Z -> Z.
Variable name_code : ident -> Z.
Variable c : cfg.
Variable idom : list (option N).
Variable S0 : fstore V.
Notation den := (den V p sem2 sem1 call_sem name_code).
Notation cval := (cval p sem2 sem1 call_sem name_code).
Notation cexec_stmt := (cexec_stmt p sem2 sem1 call_sem name_code).
Notation cexec_body := (cexec_body p sem2 sem1 call_sem name_code).
Notation freachable := (freachable V p sem2 sem1 call_sem name_code c idom S0).
Notation sub_store := (sub_store V).

(* the locals a list of statements assigns *)
Definition local_targets (ss : list stmt) : list vname :=
  flat_map (fun st => match st with
                      | SSubst _ x _ _ _ _ => if stores_local c x then [x] else []
                      | _ => []
                      end) ss.

Lemma sub_store_upd rho s S x v F : sub_store rho s S -> rel_cell V rho v F ->
  sub_store rho (cupd s x (Some v)) (fupd V S x (Some F)).
Proof.
  intros H Hv y w Hy. unfold cupd in Hy. unfold fupd. destruct (vname_eqb x y).
  - injection Hy as <-. eauto.
  - apply H. exact Hy.
Qed.

Lemma sub_store_keep rho s S x F : sub_store rho s S -> S x = None -> sub_store rho s (fupd V S x (Some F)).
Proof.
  intros H Hn y w Hy. destruct (H y w Hy) as (G & HG & Hr). unfold fupd.
  destruct (vname_eqb x y) eqn:E; [|eauto]. apply vname_eqb_eq in E. subst y. congruence.
Qed.

Variable vis : V -> bool.          (* the valuations that visit the block *)
Variable r0 : V.
Hypothesis Hr0 : vis r0 = true.

(* the statements after the leading phis *)
Lemma body_for_all ss : forall (cur : V -> cstore) (S : fstore V),
  (forall st, In st ss -> In st (all_stmts (c_blocks c))) ->
  freachable S ->
  (forall rho, sub_store rho (cur rho) S) ->
  (forall x, In x (local_targets ss) -> S x = None) -> NoDup (local_targets ss) ->
  (forall rho, vis rho = true -> cexec_body c (cur rho) ss <> None) ->
  exists S', freachable S' /\ fsub V S S' /\
    (forall x, S' x <> None -> S x <> None \/ In x (local_targets ss)) /\
    (forall rho, vis rho = true -> forall s', cexec_body c (cur rho) ss = Some s' -> sub_store rho s' S') /\
    (forall rho, vis rho = false -> sub_store rho (cur rho) S').
Proof.
  induction ss as [|st tl IH]; intros cur S Hin Hreach Hsub Hfresh Hnd Hrun.
  - exists S. split; [exact Hreach|]. split; [apply fsub_refl|]. split; [auto|]. split.
    + intros rho _ s' [= <-]. apply Hsub.
    + intros rho _. apply Hsub.
  - assert (Hin' : forall st0, In st0 tl -> In st0 (all_stmts (c_blocks c))) by (intros; apply Hin; right; assumption).
    (* a statement that stores a local *)
    destruct (match st with SSubst _ x _ _ _ _ => stores_local c x | _ => false end) eqn:Eloc.
    + destruct st as [| | |m x op rhe sv stt| | |]; try discriminate.
      assert (Hx : S x = None) by (apply Hfresh; cbn [local_targets flat_map]; rewrite Eloc; left; reflexivity).
      assert (Htl : local_targets (SSubst m x op rhe sv stt :: tl) = x :: local_targets tl)
        by (cbn [local_targets flat_map]; rewrite Eloc; reflexivity).
      rewrite Htl in Hnd. apply NoDup_cons_iff in Hnd as [Hxn Hnd].
      (* every visitor evaluates the right-hand side *)
      assert (Hval : forall rho, vis rho = true -> exists v, cval (cur rho) rhe = Some v).
      { intros rho Hv. specialize (Hrun rho Hv). cbn [DegRun.cexec_body DegRun.cexec_stmt] in Hrun. rewrite Eloc in Hrun.
        destruct (cval (cur rho) rhe) as [v|]; [eauto|congruence]. }
      destruct (Hval r0 Hr0) as (v0 & Hv0).
      destruct (cval_den_sub V p sem2 sem1 call_sem name_code r0 (cur r0) S rhe v0 (Hsub r0) Hv0) as (F & HF & _).
      destruct (stores_local_spec c x Eloc) as [Hd Hp].
      set (S1 := fupd V S x (Some F)).
      set (cur1 := fun rho => if vis rho then match cval (cur rho) rhe with Some v => cupd (cur rho) x (Some v) | None => cur rho end
                              else cur rho).
      assert (Hreach1 : freachable S1).
      { eapply fr_step; [exact Hreach|]. eapply fs_assign; eauto.
        - apply Hin. left. reflexivity.
        - eapply den_not_phi; eauto. }
      assert (Hsub1 : forall rho, sub_store rho (cur1 rho) S1).
      { intros rho. unfold cur1, S1. destruct (vis rho) eqn:Ev.
        - destruct (Hval rho Ev) as (v & Hv). rewrite Hv.
          destruct (cval_den_sub V p sem2 sem1 call_sem name_code rho (cur rho) S rhe v (Hsub rho) Hv) as (F' & HF' & Hr).
          rewrite HF in HF'. injection HF' as <-. apply sub_store_upd; [apply Hsub|exact Hr].
        - apply sub_store_keep; [apply Hsub|exact Hx]. }
      destruct (IH cur1 S1 Hin' Hreach1 Hsub1) as (S' & Hr' & Hf' & Hdef' & Hvis' & Hnv').
      { intros y Hy. unfold S1, fupd. destruct (vname_eqb x y) eqn:E; [|apply Hfresh; rewrite Htl; right; exact Hy].
        apply vname_eqb_eq in E. subst y. contradiction. }
      { exact Hnd. }
      { intros rho Hv. specialize (Hrun rho Hv). cbn [DegRun.cexec_body DegRun.cexec_stmt] in Hrun. rewrite Eloc in Hrun.
        unfold cur1. rewrite Hv. destruct (cval (cur rho) rhe); [exact Hrun|congruence]. }
      exists S'. split; [exact Hr'|]. split; [eapply fsub_trans; [apply fsub_upd; exact Hx|exact Hf']|]. split; [|split].
      * intros y Hy. destruct (Hdef' y Hy) as [H1|H1].
        -- unfold S1, fupd in H1. destruct (vname_eqb x y) eqn:E; [|left; exact H1].
           apply vname_eqb_eq in E. subst y. right. rewrite Htl. left. reflexivity.
        -- right. rewrite Htl. right. exact H1.
      * intros rho Hv s' Hs'. apply (Hvis' rho Hv). cbn [DegRun.cexec_body DegRun.cexec_stmt] in Hs'. rewrite Eloc in Hs'.
        unfold cur1. rewrite Hv. destruct (cval (cur rho) rhe); [exact Hs'|discriminate].
      * intros rho Hv. specialize (Hnv' rho Hv). unfold cur1 in Hnv'. rewrite Hv in Hnv'. exact Hnv'.
    + (* any other statement: no cell changes *)
      assert (Hskip : forall s, cexec_stmt c s st = Some s).
      { intros s. destruct st; cbn [DegRun.cexec_stmt]; try reflexivity. rewrite Eloc. reflexivity. }
      assert (Htl : local_targets (st :: tl) = local_targets tl).
      { cbn [local_targets flat_map]. destruct st; try reflexivity. rewrite Eloc. reflexivity. }
      rewrite Htl in Hnd, Hfresh.
      destruct (IH cur S Hin' Hreach Hsub Hfresh Hnd) as (S' & Hr' & Hf' & Hdef' & Hvis' & Hnv').
      { intros rho Hv. specialize (Hrun rho Hv). cbn [DegRun.cexec_body] in Hrun. rewrite Hskip in Hrun. exact Hrun. }
      exists S'. split; [exact Hr'|]. split; [exact Hf'|]. split; [|split].
      * intros y Hy. rewrite Htl. apply Hdef'. exact Hy.
      * intros rho Hv s' Hs'. apply (Hvis' rho Hv). cbn [DegRun.cexec_body] in Hs'. rewrite Hskip in Hs'. exact Hs'.
      * exact Hnv'.
Qed.

(* the leading phis of a block that is entered with the running maps [Lof] *)
Variable Lof : V -> vmap.
Variable b : block.
Variable ent : V -> cstore.      (* the stores with which the visitors enter the block *)
Variable Sa : fstore V.          (* the family store at that point of the schedule *)
Hypothesis Hent : forall rho, vis rho = true -> sub_store rho (ent rho) Sa.
Notation cexec_phi := (cexec_phi).
Notation cexec_phis := (cexec_phis).

Definition arg_of (x : vname) (args : list vname) (r : V) : option vname :=
  match vget (Lof r) (key_of x) with Some n => phi_arg x n args | None => None end.
Definition rep (rho : V) : V := if vis rho then rho else r0.
Definition pick_of (x : vname) (args : list vname) : V -> vname :=
  fun rho => match arg_of x args (rep rho) with Some a => a | None => x end.

Lemma rep_vis rho : vis (rep rho) = true.
Proof. unfold rep. destruct (vis rho) eqn:E; [exact E|exact Hr0]. Qed.

(* THE ASSUMPTION about the family, for this block: two visitors with different arriving
   arguments enter a join and differ on a deciding condition *)
Definition picks_decided_here (phis : list stmt) : Prop :=
  forall m x op args k sv stt, In (SSubst m x op (EPhi args k) sv stt) phis -> stores_local c x = true ->
  forall r1 r2, vis r1 = true -> vis r2 = true -> arg_of x args r1 <> arg_of x args r2 ->
    (2 <= length (b_preds b))%nat /\
    exists cond v1 v2, decides c idom b cond /\ cval (ent r1) cond = Some v1 /\ cval (ent r2) cond = Some v2 /\
                       v1 [] <> v2 [].

Lemma phis_for_all phis : forall (cur : V -> cstore) (S : fstore V),
  (forall st, In st phis -> In st (all_stmts (c_blocks c))) ->
  freachable S -> fsub V Sa S ->
  (forall rho, sub_store rho (cur rho) S) ->
  (forall x, In x (local_targets phis) -> S x = None) -> NoDup (local_targets phis) ->
  (forall rho, vis rho = true -> cexec_phis c (Lof rho) (cur rho) phis <> None) ->
  picks_decided_here phis ->
  (forall x, In x (local_targets phis) -> forall bq, phi_block_of c x bq -> bq = b) ->
  exists S', freachable S' /\ fsub V S S' /\
    (forall x, S' x <> None -> S x <> None \/ In x (local_targets phis)) /\
    (forall rho, vis rho = true -> forall s', cexec_phis c (Lof rho) (cur rho) phis = Some s' -> sub_store rho s' S') /\
    (forall rho, vis rho = false -> sub_store rho (cur rho) S').
Proof.
  induction phis as [|st tl IH]; intros cur S Hin Hreach Hsa Hsub Hfresh Hnd Hrun Hpd Huniq.
  - exists S. split; [exact Hreach|]. split; [apply fsub_refl|]. split; [auto|]. split.
    + intros rho _ s' [= <-]. apply Hsub.
    + intros rho _. apply Hsub.
  - assert (Hin' : forall st0, In st0 tl -> In st0 (all_stmts (c_blocks c))) by (intros; apply Hin; right; assumption).
    assert (Hpd' : picks_decided_here tl).
    { intros m x op args k sv stt Hi. apply (Hpd m x op args k sv stt). right. exact Hi. }
    destruct (match st with SSubst _ x _ (EPhi _ _) _ _ => stores_local c x | _ => false end) eqn:Eloc.
    + destruct st as [| | |m x op rhe sv stt| | |]; try discriminate. destruct rhe as [| | | | | | | | |args k]; try discriminate.
      assert (Htl : local_targets (SSubst m x op (EPhi args k) sv stt :: tl) = x :: local_targets tl)
        by (cbn [local_targets flat_map]; rewrite Eloc; reflexivity).
      assert (Hx : S x = None) by (apply Hfresh; rewrite Htl; left; reflexivity).
      assert (Hxb : forall bq, phi_block_of c x bq -> bq = b) by (apply Huniq; rewrite Htl; left; reflexivity).
      rewrite Htl in Hnd. apply NoDup_cons_iff in Hnd as [Hxn Hnd].
      destruct (stores_local_spec c x Eloc) as [Hd Hp].
      (* every visitor finds its argument *)
      assert (Hok : forall rho, vis rho = true -> exists a v, arg_of x args rho = Some a /\ cur rho a = Some v).
      { intros rho Hv. specialize (Hrun rho Hv). cbn [DegRun.cexec_phis DegRun.cexec_phi] in Hrun. rewrite Eloc in Hrun.
        unfold arg_of. destruct (vget (Lof rho) (key_of x)) as [n|]; [|congruence].
        destruct (phi_arg x n args) as [a|]; [|congruence]. destruct (cur rho a) as [v|] eqn:Ec; [eauto|congruence]. }
      set (pick := pick_of x args).
      assert (Hpick : forall rho, exists a v, arg_of x args (rep rho) = Some a /\ pick rho = a /\ cur (rep rho) a = Some v).
      { intros rho. destruct (Hok (rep rho) (rep_vis rho)) as (a & v & Ha & Hc). exists a, v. split; [exact Ha|]. split; [|exact Hc].
        unfold pick, pick_of. rewrite Ha. reflexivity. }
      set (S1 := fupd V S x (Some (phi_fam V S pick))).
      set (cur1 := fun rho => if vis rho then match cexec_phi c (Lof rho) (cur rho) (SSubst m x op (EPhi args k) sv stt) with
                                               | Some s1 => s1 | None => cur rho end
                              else cur rho).
      assert (Hreach1 : freachable S1).
      { eapply fr_step; [exact Hreach|]. eapply fs_phi; eauto.
        - apply Hin. left. reflexivity.
        - intros rho. destruct (Hpick rho) as (a & v & Ha & -> & _). unfold arg_of in Ha.
          destruct (vget (Lof (rep rho)) (key_of x)) as [n|]; [|discriminate]. eapply phi_arg_in; eauto.
        - intros rho. destruct (Hpick rho) as (a & v & _ & -> & Hc).
          destruct (Hsub (rep rho) a v Hc) as (G & HG & _). congruence.
        - (* the choice varies only under a varying decider *)
          intros bq Hbq Hor r1 r2. destruct (vname_eqb (pick r1) (pick r2)) eqn:E; [apply vname_eqb_eq; exact E|exfalso].
          rewrite (Hxb bq Hbq) in Hor.
          destruct (Hpick r1) as (a1 & w1 & Ha1 & Hp1 & _). destruct (Hpick r2) as (a2 & w2 & Ha2 & Hp2 & _).
          assert (Hne : arg_of x args (rep r1) <> arg_of x args (rep r2)).
          { rewrite Ha1, Ha2. intros [= Heq]. rewrite Hp1, Hp2, Heq, vname_eqb_refl in E. discriminate. }
          destruct (Hpd m x op args k sv stt (or_introl eq_refl) Eloc (rep r1) (rep r2) (rep_vis r1) (rep_vis r2) Hne)
            as (Hjoin & cond & v1 & v2 & Hdec & Hv1 & Hv2 & Hdiff).
          destruct Hor as [Hlt|Hall]; [lia|].
          specialize (Hall cond Hdec). unfold cond_fixed in Hall.
          destruct (cval_den_sub V p sem2 sem1 call_sem name_code (rep r1) (ent (rep r1)) Sa cond v1 (Hent _ (rep_vis r1)) Hv1)
            as (C1 & HC1 & Hr1).
          destruct (cval_den_sub V p sem2 sem1 call_sem name_code (rep r2) (ent (rep r2)) Sa cond v2 (Hent _ (rep_vis r2)) Hv2)
            as (C2 & HC2 & Hr2).
          rewrite HC1 in HC2. injection HC2 as <-.
          rewrite (den_fsub V p sem2 sem1 call_sem name_code Sa S Hsa cond C1 HC1) in Hall.
          apply Hdiff. rewrite (Hr1 []), (Hr2 []). apply Hall. }
      assert (Hstep : forall rho, vis rho = true -> exists a v, arg_of x args rho = Some a /\ cur rho a = Some v /\
                 cexec_phi c (Lof rho) (cur rho) (SSubst m x op (EPhi args k) sv stt) = Some (cupd (cur rho) x (Some v))).
      { intros rho Ev. destruct (Hok rho Ev) as (a & v & Ha & Hc). exists a, v. split; [exact Ha|]. split; [exact Hc|].
        cbn [DegRun.cexec_phi]. rewrite Eloc. unfold arg_of in Ha.
        destruct (vget (Lof rho) (key_of x)) as [n|]; [|discriminate]. rewrite Ha, Hc. reflexivity. }
      assert (Hsub1 : forall rho, sub_store rho (cur1 rho) S1).
      { intros rho. unfold cur1, S1. destruct (vis rho) eqn:Ev.
        - destruct (Hstep rho Ev) as (a & v & Ha & Hc & Hs). rewrite Hs.
          apply sub_store_upd; [apply Hsub|].
          intros i. unfold phi_fam.
          assert (Epick : pick rho = a) by (unfold pick, pick_of, rep; rewrite Ev, Ha; reflexivity).
          rewrite Epick. destruct (Hsub rho a v Hc) as (G & HG & Hr). rewrite HG. apply Hr.
        - apply sub_store_keep; [apply Hsub|exact Hx]. }
      destruct (IH cur1 S1 Hin' Hreach1) as (S' & Hr' & Hf' & Hdef' & Hvis' & Hnv').
      { eapply fsub_trans; [exact Hsa|]. apply fsub_upd. exact Hx. }
      { exact Hsub1. }
      { intros y Hy. unfold S1, fupd. destruct (vname_eqb x y) eqn:E; [|apply Hfresh; rewrite Htl; right; exact Hy].
        apply vname_eqb_eq in E. subst y. contradiction. }
      { exact Hnd. }
      { intros rho Hv. specialize (Hrun rho Hv). cbn [DegRun.cexec_phis] in Hrun.
        destruct (Hstep rho Hv) as (a & v & _ & _ & Hs). rewrite Hs in Hrun.
        unfold cur1. rewrite Hv, Hs. exact Hrun. }
      { exact Hpd'. }
      { intros y Hy. apply Huniq. rewrite Htl. right. exact Hy. }
      exists S'. split; [exact Hr'|]. split; [eapply fsub_trans; [apply fsub_upd; exact Hx|exact Hf']|]. split; [|split].
      * intros y Hy. destruct (Hdef' y Hy) as [H1|H1].
        -- unfold S1, fupd in H1. destruct (vname_eqb x y) eqn:E; [|left; exact H1].
           apply vname_eqb_eq in E. subst y. right. rewrite Htl. left. reflexivity.
        -- right. rewrite Htl. right. exact H1.
      * intros rho Hv s' Hs'. apply (Hvis' rho Hv). cbn [DegRun.cexec_phis] in Hs'.
        destruct (Hstep rho Hv) as (a & v & _ & _ & Hs). rewrite Hs in Hs'.
        unfold cur1. rewrite Hv, Hs. exact Hs'.
      * intros rho Hv. specialize (Hnv' rho Hv). unfold cur1 in Hnv'. rewrite Hv in Hnv'. exact Hnv'.
    + (* not a phi that stores a local: no cell changes *)
      assert (Hskip : forall L s, cexec_phi c L s st = Some s).
      { intros L s. destruct st as [| | |m x op rhe sv stt| | |]; cbn [DegRun.cexec_phi]; try reflexivity.
        destruct rhe; try reflexivity. rewrite Eloc. reflexivity. }
      assert (Happ : exists pre, local_targets (st :: tl) = pre ++ local_targets tl).
      { eexists. cbn [local_targets flat_map]. reflexivity. }
      destruct Happ as (pre & Happ).
      assert (Hincl : forall y, In y (local_targets tl) -> In y (local_targets (st :: tl))).
      { intros y Hy. rewrite Happ. apply in_or_app. right. exact Hy. }
      assert (Hnd' : NoDup (local_targets tl)) by (rewrite Happ in Hnd; eapply NoDup_app_r; eauto).
      destruct (IH cur S Hin' Hreach Hsa Hsub) as (S' & Hr' & Hf' & Hdef' & Hvis' & Hnv').
      { intros y Hy. apply Hfresh. apply Hincl. exact Hy. }
      { exact Hnd'. }
      { intros rho Hv. specialize (Hrun rho Hv). cbn [DegRun.cexec_phis] in Hrun. rewrite Hskip in Hrun. exact Hrun. }
      { exact Hpd'. }
      { intros y Hy. apply Huniq. apply Hincl. exact Hy. }
      exists S'. split; [exact Hr'|]. split; [exact Hf'|]. split; [|split].
      * intros y Hy. destruct (Hdef' y Hy) as [H1|H1]; [left; exact H1|right; apply Hincl; exact H1].
      * intros rho Hv s' Hs'. apply (Hvis' rho Hv). cbn [DegRun.cexec_phis] in Hs'. rewrite Hskip in Hs'. exact Hs'.
      * exact Hnv'.
Qed.
End Block.

(* ---------- the whole schedule ---------- *)
Lemma nodup_flat_map_same {A B} (f : A -> list B) (l : list A) : NoDup (flat_map f l) ->
  forall a b x, In a l -> In b l -> In x (f a) -> In x (f b) -> a = b.
Proof.
  induction l as [|y l IH]; cbn [flat_map]; intros Hnd a b x Ha Hb Hxa Hxb; [contradiction|].
  destruct Ha as [->|Ha], Hb as [->|Hb]; [reflexivity| | |].
  - exfalso. apply (NoDup_app_disj _ _ Hnd x Hxa). apply in_flat_map. eauto.
  - exfalso. apply (NoDup_app_disj _ _ Hnd x Hxb). apply in_flat_map. eauto.
  - apply (IH (NoDup_app_r _ _ Hnd) a b x); assumption.
Qed.

Section Family.
Variable V : Type.
Variable p : Z.
Variable sem2 : infix_op -> Z -> Z -> Z.
Variable sem1 : prefix_op -> Z -> Z.
Variable call_sem : ident -> list Z -> Z.
Variable name_code : ident -> Z.
Variable c : cfg.
Variable idom : list (option N).
Variable S0 : fstore V.
Variable L0 : vmap.
Variable pth : V -> list nat.
Variable s0 : V -> cstore.
Variable reps : list V.
Notation n := (length (c_blocks c)).
Notation cval := (cval p sem2 sem1 call_sem name_code).
Notation cexec_block := (cexec_block p sem2 sem1 call_sem name_code).
Notation cexec_body := (cexec_body p sem2 sem1 call_sem name_code).
Notation cexec_nocheck := (cexec_nocheck p sem2 sem1 call_sem name_code c).
Notation freachable := (freachable V p sem2 sem1 call_sem name_code c idom S0).
Notation sub_store := (sub_store V).
Notation local_targets := (local_targets c).

Definition E (rho : V) (a : nat) : option cstore := cexec_nocheck L0 (s0 rho) (below a (pth rho)).
Definition ent (rho : V) (a : nat) : cstore := match E rho a with Some s => s | None => s0 rho end.
Definition Lat (rho : V) (a : nat) : vmap := vmap_after c L0 (below a (pth rho)).
Definition visits (rho : V) (a : nat) : bool := existsb (Nat.eqb a) (pth rho).

(* THE ASSUMPTION about the family (see the header) *)
Definition picks_decided : Prop :=
  forall a b, nth_error (c_blocks c) a = Some b ->
    picks_decided_here V p sem2 sem1 call_sem name_code c idom (fun rho => visits rho a) (fun rho => Lat rho a) b
                       (fun rho => ent rho a) (fst (leading_phis (b_stmts b))).

Hypothesis Hsorted : forall rho, StronglySorted lt (pth rho).
Hypothesis Hlt : forall rho i, In i (pth rho) -> (i < n)%nat.
Hypothesis Hreps : forall rho, exists r, In r reps /\ pth r = pth rho.
Hypothesis Hrun : forall rho, cexec_nocheck L0 (s0 rho) (pth rho) <> None.
Hypothesis H0 : forall rho, sub_store rho (s0 rho) S0.
Hypothesis Hsa : NoDup (local_targets (all_stmts (c_blocks c))).
Hypothesis Hinit : forall x, In x (local_targets (all_stmts (c_blocks c))) -> S0 x = None.
Hypothesis Hpick : picks_decided.

Lemma visits_in rho a : visits rho a = true <-> In a (pth rho).
Proof.
  unfold visits. rewrite existsb_exists. split.
  - intros (x & Hx & E1). apply Nat.eqb_eq in E1. subst x. exact Hx.
  - intros H. exists a. split; [exact H|apply Nat.eqb_refl].
Qed.

Lemma E_some rho a : exists s, E rho a = Some s.
Proof.
  unfold E. destruct (cexec_nocheck L0 (s0 rho) (pth rho)) as [s'|] eqn:Er; [|exfalso; exact (Hrun rho Er)].
  exact (nocheck_below p sem2 sem1 call_sem name_code c a (pth rho) L0 (s0 rho) s' (Hsorted rho) Er).
Qed.

Lemma E_ent rho a : E rho a = Some (ent rho a).
Proof. unfold ent. destruct (E_some rho a) as (s & ->). reflexivity. Qed.

Lemma E_step_in rho a b : visits rho a = true -> nth_error (c_blocks c) a = Some b ->
  E rho (S a) = cexec_block c (Lat rho a) (ent rho a) b.
Proof.
  intros Hv Hb. unfold E at 1. rewrite (below_S_in a (pth rho) (Hsorted rho) (proj1 (visits_in rho a) Hv)).
  rewrite nocheck_app. fold (E rho a). rewrite E_ent. fold (Lat rho a).
  cbn [DegRunBranch.cexec_nocheck]. rewrite Hb. destruct (cexec_block c (Lat rho a) (ent rho a) b); reflexivity.
Qed.

Lemma E_step_out rho a : visits rho a = false -> ent rho (S a) = ent rho a.
Proof.
  intros Hv. unfold ent, E. rewrite below_S_notin; [reflexivity|].
  intros Hin. apply visits_in in Hin. congruence.
Qed.

Lemma local_targets_app l1 l2 : local_targets (l1 ++ l2) = local_targets l1 ++ local_targets l2.
Proof. unfold DegRunBranch.local_targets. apply flat_map_app. Qed.

Lemma local_targets_blocks bs :
  local_targets (all_stmts bs) = flat_map (fun blk => local_targets (b_stmts blk)) bs.
Proof.
  induction bs as [|blk tl IH]; [reflexivity|]. unfold all_stmts in *. cbn [flat_map].
  rewrite local_targets_app, IH. reflexivity.
Qed.

Lemma in_local_targets m x op rhe sv stt ss : In (SSubst m x op rhe sv stt) ss -> stores_local c x = true ->
  In x (local_targets ss).
Proof.
  intros Hin Hl. unfold DegRunBranch.local_targets. apply in_flat_map. eexists. split; [exact Hin|]. cbn. rewrite Hl. left. reflexivity.
Qed.

Lemma local_targets_local x ss : In x (local_targets ss) -> stores_local c x = true.
Proof.
  unfold DegRunBranch.local_targets. rewrite in_flat_map. intros (st & _ & Hx). destruct st; try contradiction.
  destruct (stores_local c v) eqn:E1; [|contradiction]. destruct Hx as [<-|[]]. exact E1.
Qed.

Lemma all_stmts_split a : all_stmts (c_blocks c) = all_stmts (firstn a (c_blocks c)) ++ all_stmts (skipn a (c_blocks c)).
Proof. unfold all_stmts. rewrite <- flat_map_app, firstn_skipn. reflexivity. Qed.

Lemma skipn_nth {A} (l : list A) : forall a x, nth_error l a = Some x -> skipn a l = x :: skipn (S a) l.
Proof. induction l as [|y l IH]; intros [|a] x H; cbn in *; try discriminate; [congruence|]. apply IH. exact H. Qed.

(* after the blocks below a *)
Lemma schedule_upto a : (a <= n)%nat ->
  exists S, freachable S /\ (forall rho, sub_store rho (ent rho a) S) /\
            (forall x, In x (local_targets (all_stmts (skipn a (c_blocks c)))) -> S x = None).
Proof.
  induction a as [|a IH]; intros Ha.
  - exists S0. split; [constructor|]. split.
    + intros rho. unfold ent, E. rewrite below_none; [apply H0|]. apply Forall_forall. intros; lia.
    + cbn [skipn]. exact Hinit.
  - destruct IH as (St & Hreach & Hsub & Hfresh); [lia|].
    destruct (nth_error (c_blocks c) a) as [b|] eqn:Eb; [|apply nth_error_None in Eb; lia].
    pose proof (skipn_nth _ _ _ Eb) as Hsk.
    assert (Hst : all_stmts (skipn a (c_blocks c)) = b_stmts b ++ all_stmts (skipn (S a) (c_blocks c))).
    { rewrite Hsk. reflexivity. }
    destruct (leading_phis (b_stmts b)) as [phis body] eqn:Elp.
    pose proof (leading_phis_app _ _ _ Elp) as Hpb.
    assert (Hnd3 : NoDup (local_targets phis ++ local_targets body ++ local_targets (all_stmts (skipn (S a) (c_blocks c))))).
    { pose proof Hsa as H. rewrite (all_stmts_split a), local_targets_app in H. apply NoDup_app_r in H.
      rewrite Hst, Hpb, !local_targets_app, <- app_assoc in H. exact H. }
    assert (Hinb : In b (c_blocks c)) by (eapply nth_error_In; eauto).
    assert (Hall : forall st, In st (b_stmts b) -> In st (all_stmts (c_blocks c))).
    { intros st Hs. unfold all_stmts. apply in_flat_map. eauto. }
    assert (Hfr : forall x, In x (local_targets phis) \/ In x (local_targets body) \/
                            In x (local_targets (all_stmts (skipn (S a) (c_blocks c)))) -> St x = None).
    { intros x Hx. apply Hfresh. rewrite Hst, Hpb, !local_targets_app. rewrite !in_app_iff. tauto. }
    destruct (existsb (fun r => visits r a) reps) eqn:Evis.
    + (* some run visits block a *)
      apply existsb_exists in Evis. destruct Evis as (r0 & _ & Hr0).
      set (vis := fun rho => visits rho a).
      assert (Hblock : forall rho, vis rho = true ->
                cexec_block c (Lat rho a) (ent rho a) b = Some (ent rho (S a))).
      { intros rho Hv. rewrite <- (E_step_in rho a b Hv Eb). apply E_ent. }
      assert (Hphis_ok : forall rho, vis rho = true -> cexec_phis c (Lat rho a) (ent rho a) phis <> None).
      { intros rho Hv Hn. specialize (Hblock rho Hv). unfold DegRun.cexec_block in Hblock. rewrite Elp, Hn in Hblock. discriminate. }
      destruct (phis_for_all V p sem2 sem1 call_sem name_code c idom S0 vis r0 Hr0 (fun rho => Lat rho a) b
                  (fun rho => ent rho a) St (fun rho _ => Hsub rho) phis (fun rho => ent rho a) St)
        as (S1 & Hreach1 & Hf1 & Hdef1 & Hvis1 & Hnv1).
      { intros st Hs. apply Hall. rewrite Hpb. apply in_or_app. left. exact Hs. }
      { exact Hreach. }
      { apply fsub_refl. }
      { exact Hsub. }
      { intros x Hx. apply Hfr. left. exact Hx. }
      { exact (NoDup_app_l _ _ Hnd3). }
      { exact Hphis_ok. }
      { pose proof (Hpick a b Eb) as H. rewrite Elp in H. exact H. }
      { intros x Hx bq (Hbq & m & op & args & k & sv & stt & Hphi).
        pose proof Hsa as Hnd. rewrite local_targets_blocks in Hnd.
        apply (nodup_flat_map_same _ _ Hnd bq b x Hbq Hinb).
        - eapply in_local_targets; [exact Hphi|]. eapply local_targets_local; eauto.
        - rewrite Hpb, local_targets_app. apply in_or_app. left. exact Hx. }
      set (cur2 := fun rho => if vis rho then match cexec_phis c (Lat rho a) (ent rho a) phis with Some s => s | None => ent rho a end
                              else ent rho a).
      destruct (body_for_all V p sem2 sem1 call_sem name_code c idom S0 vis r0 Hr0 body cur2 S1)
        as (S2 & Hreach2 & Hf2 & Hdef2 & Hvis2 & Hnv2).
      { intros st Hs. apply Hall. rewrite Hpb. apply in_or_app. right. exact Hs. }
      { exact Hreach1. }
      { intros rho. unfold cur2. destruct (vis rho) eqn:Ev; [|apply Hnv1; exact Ev].
        destruct (cexec_phis c (Lat rho a) (ent rho a) phis) as [s1|] eqn:Ep; [|exfalso; exact (Hphis_ok rho Ev Ep)].
        exact (Hvis1 rho Ev s1 Ep). }
      { intros x Hx. destruct (S1 x) as [F|] eqn:E1; [|reflexivity]. exfalso.
        destruct (Hdef1 x) as [H1|H1]; [congruence| |].
        - apply H1. apply Hfr. right. left. exact Hx.
        - exact (NoDup_app_disj _ _ (NoDup_app_l _ _ (eq_ind _ (fun l => NoDup l) Hnd3 _ (app_assoc _ _ _))) x H1 Hx). }
      { exact (NoDup_app_l _ _ (NoDup_app_r _ _ Hnd3)). }
      { intros rho Hv Hn. specialize (Hblock rho Hv). unfold DegRun.cexec_block in Hblock. rewrite Elp in Hblock.
        unfold cur2 in Hn. rewrite Hv in Hn.
        destruct (cexec_phis c (Lat rho a) (ent rho a) phis) as [s1|]; [|discriminate]. rewrite Hn in Hblock. discriminate. }
      exists S2. split; [exact Hreach2|]. split.
      * intros rho. destruct (vis rho) eqn:Ev.
        -- apply (Hvis2 rho Ev). specialize (Hblock rho Ev). unfold DegRun.cexec_block in Hblock. rewrite Elp in Hblock.
           unfold cur2. rewrite Ev. destruct (cexec_phis c (Lat rho a) (ent rho a) phis) as [s1|]; [exact Hblock|discriminate].
        -- rewrite (E_step_out rho a Ev). specialize (Hnv2 rho Ev). unfold cur2 in Hnv2. rewrite Ev in Hnv2. exact Hnv2.
      * intros x Hx. destruct (S2 x) as [F|] eqn:E2; [|reflexivity]. exfalso.
        assert (Hx3 : St x = None) by (apply Hfr; right; right; exact Hx).
        destruct (Hdef2 x) as [H1|H1]; [congruence| |].
        -- destruct (Hdef1 x H1) as [H3|H3]; [congruence|].
           apply (NoDup_app_disj _ _ Hnd3 x H3). apply in_or_app. right. exact Hx.
        -- apply (NoDup_app_disj _ _ (NoDup_app_r _ _ Hnd3) x H1 Hx).
    + (* nobody visits block a *)
      assert (Hnov : forall rho, visits rho a = false).
      { intros rho. destruct (Hreps rho) as (r & Hr & Hp). destruct (visits rho a) eqn:Ev; [|reflexivity].
        exfalso. assert (Hc : existsb (fun r1 => visits r1 a) reps = true).
        { apply existsb_exists. exists r. split; [exact Hr|]. unfold visits in *. rewrite Hp. exact Ev. }
        congruence. }
      exists St. split; [exact Hreach|]. split.
      * intros rho. rewrite (E_step_out rho a (Hnov rho)). apply Hsub.
      * intros x Hx. apply Hfr. right. right. exact Hx.
Qed.

(* THE REPRESENTATION THEOREM for diverging runs *)
Theorem diverging_runs_represented_nocheck :
  exists S, freachable S /\ forall rho s', cexec_nocheck L0 (s0 rho) (pth rho) = Some s' -> sub_store rho s' S.
Proof.
  destruct (schedule_upto n (le_n _)) as (S & Hreach & Hsub & _).
  exists S. split; [exact Hreach|]. intros rho s' Hs'. specialize (Hsub rho).
  unfold ent, E in Hsub. rewrite (below_all n (pth rho) (Hlt rho)), Hs' in Hsub. exact Hsub.
Qed.
End Family.

(* ---------- the statements used by props/C07.v ---------- *)
Section Statements.
Variable V : Type.
Variable line : V -> V -> Z -> V.
Variable p : Z.
Variable sem2 : infix_op -> Z -> Z -> Z.
Variable sem1 : prefix_op -> Z -> Z.
Variable call_sem : ident -> list Z -> Z.
Variable name_code : ident -> Z.

(* every local is assigned by at most one statement; what the steps can assign starts undefined *)
Definition single_assignment (c : cfg) : Prop := NoDup (local_targets c (all_stmts (c_blocks c))).
Definition targets_start_undefined (c : cfg) (S0 : fstore V) : Prop :=
  forall x, In x (local_targets c (all_stmts (c_blocks c))) -> S0 x = None.

Theorem diverging_runs_represented (c : cfg) (idom : list (option N)) (S0 : fstore V) (L0 : vmap)
    (pth : V -> list nat) (s0 s : V -> cstore) (reps : list V) :
  (forall rho, StronglySorted lt (pth rho)) ->
  (forall rho i, In i (pth rho) -> (i < length (c_blocks c))%nat) ->
  (forall rho, exists r, In r reps /\ pth r = pth rho) ->
  single_assignment c -> targets_start_undefined c S0 ->
  (forall rho, rel_store V rho (s0 rho) S0) ->
  (forall rho, cexec_path p sem2 sem1 call_sem name_code c L0 (s0 rho) (pth rho) = Some (s rho)) ->
  picks_decided V p sem2 sem1 call_sem name_code c idom L0 pth s0 ->
  exists S, freachable V p sem2 sem1 call_sem name_code c idom S0 S /\ forall rho, sub_store V rho (s rho) S.
Proof.
  intros Hsorted Hlt Hreps Hsa Hinit H0 Hrun Hpick.
  assert (Hrun' : forall rho, cexec_nocheck p sem2 sem1 call_sem name_code c L0 (s0 rho) (pth rho) = Some (s rho)).
  { intros rho. apply cexec_path_nocheck. apply Hrun. }
  destruct (diverging_runs_represented_nocheck V p sem2 sem1 call_sem name_code c idom S0 L0 pth s0 reps Hsorted Hlt Hreps)
    as (S & Hreach & Hsub); auto.
  - intros rho. rewrite Hrun'. discriminate.
  - intros rho. apply rel_sub_store. apply H0.
  - exists S. split; [exact Hreach|]. intros rho. apply Hsub. apply Hrun'.
Qed.

Hypothesis Hsem2 : forall op, Proofs.DegreeProofs.op_den p op (sem2 op).
Hypothesis Hsem1 : forall op, Proofs.DegreeProofs.prefix_den p op (sem1 op).

Theorem diverging_runs_claims_true (c : cfg) (idom : list (option N)) (S0 : fstore V) (L0 : vmap)
    (pth : V -> list nat) (s0 s : V -> cstore) (reps : list V) :
  djust_cfg c idom = true -> Proofs.DegGraphProofs.finit_ok V line p c S0 ->
  (forall rho, StronglySorted lt (pth rho)) ->
  (forall rho i, In i (pth rho) -> (i < length (c_blocks c))%nat) ->
  (forall rho, exists r, In r reps /\ pth r = pth rho) ->
  single_assignment c -> targets_start_undefined c S0 ->
  (forall rho, rel_store V rho (s0 rho) S0) ->
  (forall rho, cexec_path p sem2 sem1 call_sem name_code c L0 (s0 rho) (pth rho) = Some (s rho)) ->
  picks_decided V p sem2 sem1 call_sem name_code c idom L0 pth s0 ->
  forall e r (val : V -> cell),
  djust_expr c e = true -> expr_deg e = Some r ->
  (forall rho, cval p sem2 sem1 call_sem name_code (s rho) e = Some (val rho)) ->
  forall i, SemDeg V line p (snd r) (fun rho => val rho i).
Proof.
  intros Hv Hi Hsorted Hlt Hreps Hsa Hinit H0 Hrun Hpick e r val Hj Hd Hval i.
  destruct (diverging_runs_represented c idom S0 L0 pth s0 s reps Hsorted Hlt Hreps Hsa Hinit H0 Hrun Hpick) as (S & Hreach & Hsub).
  destruct (den V p sem2 sem1 call_sem name_code S e) as [F|] eqn:EF.
  - apply (SemDeg_ext V line p (snd r) (F i)).
    + intros rho. destruct (cval_den_sub V p sem2 sem1 call_sem name_code rho (s rho) S e (val rho) (Hsub rho) (Hval rho)) as (F' & HF' & Hr).
      rewrite EF in HF'. injection HF' as <-. symmetry. apply Hr.
    + exact (Proofs.DegGraphProofs.justified_degrees_true V line p sem2 sem1 call_sem name_code Hsem2 Hsem1 c idom Hv S0 S e F r Hi Hreach Hj EF Hd i).
  - assert (Hno : forall rho : V, False).
    { intros rho. destruct (cval_den_sub V p sem2 sem1 call_sem name_code rho (s rho) S e (val rho) (Hsub rho) (Hval rho)) as (F' & HF' & _). congruence. }
    destruct (snd r); cbn [SemDeg]; auto.
    + intros rho. destruct (Hno rho).
    + intros rho. destruct (Hno rho).
    + intros rho. destruct (Hno rho).
Qed.
End Statements.
