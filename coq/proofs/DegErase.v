(* Degree propagation never touches a value claim: erasing all degree knowledge
   commutes with it, and the validator only reads the erased graph.  Hence the
   universal C20 theorem extends from values_passes to the full
   Model.Propagate.propagate (values then degrees, each with its own budget). *)
From Coq Require Import ZArith List Bool Lia.
Require Import Model.Base Model.Field Model.Ir Model.Propagate Model.Justify Gen.DegreeTable.
Require Import Proofs.IrInd.
Import ListNotations.
Local Open Scope Z_scope.

Definition ek (k : know) : know := {| kval := kval k; kdeg := None |}.

Fixpoint eerase (e : expr) {struct e} : expr :=
  let fix elist (es : list expr) : list expr :=
      match es with [] => [] | x :: tl => eerase x :: elist tl end in
  let fix eacc (acc : list (access expr)) : list (access expr) :=
      match acc with
      | [] => []
      | AIdx x :: tl => AIdx (eerase x) :: eacc tl
      | AComp n :: tl => AComp n :: eacc tl
      end in
  match e with
  | ENum z k => ENum z (ek k)
  | EVar v k => EVar v (ek k)
  | EInfix op l r k => EInfix op (eerase l) (eerase r) (ek k)
  | EPrefix op x k => EPrefix op (eerase x) (ek k)
  | ESwitch c t f k => ESwitch (eerase c) (eerase t) (eerase f) (ek k)
  | ECall n args k => ECall n (elist args) (ek k)
  | EArray vs k => EArray (elist vs) (ek k)
  | EAccess v acc k => EAccess v (eacc acc) (ek k)
  | EUpdate v acc rhe k => EUpdate v (eacc acc) (eerase rhe) (ek k)
  | EPhi args k => EPhi args (ek k)
  end.

Definition elogarg (a : logarg) : logarg := match a with LStr => LStr | LExpr e => LExpr (eerase e) end.

Definition serase (s : stmt) : stmt :=
  match s with
  | SDecl m names t dims => SDecl m names t (map eerase dims)
  | SIf m c t f => SIf m (eerase c) t f
  | SRet m e => SRet m (eerase e)
  | SSubst m v op rhe sval st => SSubst m v op (eerase rhe) sval st
  | SCeq m l r => SCeq m (eerase l) (eerase r)
  | SLog m args => SLog m (map elogarg args)
  | SAssert m e => SAssert m (eerase e)
  end.

Lemma elist_map es :
  (fix elist (es : list expr) : list expr :=
     match es with [] => [] | x :: tl => eerase x :: elist tl end) es = map eerase es.
Proof. induction es as [|x tl IH]; [reflexivity|]. cbn [map]. rewrite IH. reflexivity. Qed.

Lemma expr_val_eerase e : expr_val (eerase e) = expr_val e.
Proof. destruct e; reflexivity. Qed.

Lemma is_update_eerase e : is_update (eerase e) = is_update e.
Proof. destruct e; reflexivity. Qed.

(* ---------- the validator only reads the erased graph ---------- *)
Lemma def_ok_serase v c s : def_ok v c (serase s) = def_ok v c s.
Proof. destruct s; cbn [serase def_ok]; try reflexivity. rewrite expr_val_eerase, is_update_eerase. reflexivity. Qed.

Lemma defines_serase v s : defines v (serase s) = defines v s.
Proof. destruct s; reflexivity. Qed.

Lemma all_defs_claim_serase ss v c : all_defs_claim (map serase ss) v c = all_defs_claim ss v c.
Proof.
  unfold all_defs_claim. f_equal.
  - induction ss as [|s tl IH]; [reflexivity|]. cbn [map forallb]. rewrite def_ok_serase, IH. reflexivity.
  - induction ss as [|s tl IH]; [reflexivity|]. cbn [map existsb]. rewrite defines_serase, IH. reflexivity.
Qed.

Lemma vjust_eerase ss p e : vjust_expr (map serase ss) p (eerase e) = vjust_expr ss p e.
Proof.
  induction e as [z k|v k|op l r k IHl IHr|op e k IHe|c t f k IHc IHt IHf|n args k IHargs|vs k IHvs
                  |v acc k IHacc|v acc rhe k IHacc IHrhe|args k] using expr_ind';
    cbn [eerase vjust_expr ek kval].
  - reflexivity.
  - destruct (kval k); [apply all_defs_claim_serase|reflexivity].
  - rewrite IHl, IHr, !expr_val_eerase. reflexivity.
  - rewrite IHe, expr_val_eerase. reflexivity.
  - rewrite IHc, IHt, IHf, !expr_val_eerase. reflexivity.
  - f_equal. induction args as [|x tl IH]; [reflexivity|].
    apply Forall_cons_iff in IHargs as [H1 H2]. rewrite H1. f_equal. apply IH. exact H2.
  - f_equal. induction vs as [|x tl IH]; [reflexivity|].
    apply Forall_cons_iff in IHvs as [H1 H2]. rewrite H1. f_equal. apply IH. exact H2.
  - f_equal. induction acc as [|a tl IH]; [reflexivity|]. destruct a as [x|n]; cbn [acc_exprs flat_map app] in IHacc.
    + apply Forall_cons_iff in IHacc as [H1 H2]. rewrite H1. f_equal. apply IH. exact H2.
    + apply IH. exact IHacc.
  - rewrite IHrhe. f_equal. f_equal. induction acc as [|a tl IH]; [reflexivity|]. destruct a as [x|n]; cbn [acc_exprs flat_map app] in IHacc.
    + apply Forall_cons_iff in IHacc as [H1 H2]. rewrite H1. f_equal. apply IH. exact H2.
    + apply IH. exact IHacc.
  - destruct (kval k); [|reflexivity]. f_equal.
    induction args as [|a tl IH]; [reflexivity|]. cbn [forallb]. rewrite all_defs_claim_serase, IH. reflexivity.
Qed.

Lemma vjust_stmt_serase ss p s : vjust_stmt (map serase ss) p (serase s) = vjust_stmt ss p s.
Proof.
  destruct s; cbn [serase vjust_stmt].
  - induction dims as [|x tl IH]; [reflexivity|]. cbn [map forallb]. rewrite vjust_eerase, IH. reflexivity.
  - apply vjust_eerase.
  - apply vjust_eerase.
  - rewrite vjust_eerase, is_update_eerase, expr_val_eerase. reflexivity.
  - rewrite !vjust_eerase. reflexivity.
  - induction args as [|a tl IH]; [reflexivity|]. cbn [map forallb]. rewrite IH. f_equal.
    destruct a; [reflexivity|]. cbn. apply vjust_eerase.
  - apply vjust_eerase.
Qed.

Lemma vjust_all_serase p ss : forallb (vjust_stmt (map serase ss) p) (map serase ss) = forallb (vjust_stmt ss p) ss.
Proof.
  generalize ss at 1 3 as ctx. intros ctx. induction ss as [|s tl IH]; [reflexivity|].
  cbn [map forallb]. rewrite vjust_stmt_serase, IH. reflexivity.
Qed.

(* two statement lists with the same erasure are validated alike *)
Lemma vjust_same_erasure p ss ss' :
  map serase ss = map serase ss' -> forallb (vjust_stmt ss p) ss = forallb (vjust_stmt ss' p) ss'.
Proof. intros H. rewrite <- (vjust_all_serase p ss), <- (vjust_all_serase p ss'), H. reflexivity. Qed.

(* ---------- degree propagation preserves the erasure ---------- *)
Lemma ek_set_deg k r : ek (fst (set_deg k r)) = ek k.
Proof. reflexivity. Qed.

Lemma eerase_set_know e k' : kval k' = kval (expr_know e) -> eerase (set_know e k') = eerase e.
Proof. intros H. destruct e; cbn [set_know eerase expr_know] in *; unfold ek; rewrite H; reflexivity. Qed.

Lemma eerase_sc_set_deg res e r : eerase (snd (sc_set_deg res e r)) = eerase e.
Proof.
  unfold sc_set_deg. destruct res; [reflexivity|]. unfold set_deg. cbn [snd].
  apply eerase_set_know. reflexivity.
Qed.

Definition pres (env : denv) (e : expr) : Prop := eerase (snd (pd_expr env e)) = eerase e.

Lemma pd_list_pres env (es : list expr) : Forall (pres env) es -> forall res,
  map eerase (snd ((fix pd_list (res : bool) (es : list expr) {struct es} : bool * list expr :=
      match es with
      | [] => (res, [])
      | x :: tl =>
        if res then (true, x :: tl)
        else let '(b, x') := pd_expr env x in
             let '(b', tl') := pd_list b tl in (b', x' :: tl')
      end) res es)) = map eerase es.
Proof.
  intros H. induction es as [|x tl IH]; intros res; [reflexivity|].
  apply Forall_cons_iff in H as [Hx Ht]. destruct res; [reflexivity|].
  unfold pres in Hx. destruct (pd_expr env x) as [b x'] eqn:Ex. cbn [snd] in Hx.
  specialize (IH Ht b).
  match goal with |- context [let '(b', tl') := ?t in _] => destruct t as [b' tl'] eqn:Et end.
  cbn [snd map] in *. rewrite Hx, IH. reflexivity.
Qed.

Fixpoint eacc_list (acc : list (access expr)) : list (access expr) :=
  match acc with
  | [] => []
  | AIdx x :: tl => AIdx (eerase x) :: eacc_list tl
  | AComp n :: tl => AComp n :: eacc_list tl
  end.

Lemma pd_acc_pres env (acc : list (access expr)) : Forall (pres env) (acc_exprs acc) -> forall res,
  eacc_list (snd ((fix pd_acc (res : bool) (acc : list (access expr)) {struct acc} : bool * list (access expr) :=
      match acc with
      | [] => (res, [])
      | AComp n :: tl => let '(b', tl') := pd_acc res tl in (b', AComp n :: tl')
      | AIdx x :: tl =>
        if res then (true, AIdx x :: tl)
        else let '(b, x') := pd_expr env x in
             let '(b', tl') := pd_acc b tl in (b', AIdx x' :: tl')
      end) res acc)) = eacc_list acc.
Proof.
  intros H. induction acc as [|a tl IH]; intros res; [reflexivity|].
  destruct a as [x|n]; cbn [acc_exprs flat_map app] in H.
  - apply Forall_cons_iff in H as [Hx Ht]. destruct res; [reflexivity|].
    unfold pres in Hx. destruct (pd_expr env x) as [b x'] eqn:Ex. cbn [snd] in Hx.
    specialize (IH Ht b).
    match goal with |- context [let '(b', tl') := ?t in _] => destruct t as [b' tl'] eqn:Et end.
    cbn [snd eacc_list] in *. rewrite Hx, IH. reflexivity.
  - specialize (IH H res).
    match goal with |- context [let '(b', tl') := ?t in _] => destruct t as [b' tl'] eqn:Et end.
    cbn [snd eacc_list] in *. rewrite IH. reflexivity.
Qed.

Lemma eerase_access_eq v acc acc' k k' : eacc_list acc' = eacc_list acc -> ek k' = ek k ->
  eerase (EAccess v acc' k') = eerase (EAccess v acc k).
Proof.
  intros Ha Hk. cbn [eerase]. rewrite Hk. f_equal.
  transitivity (eacc_list acc'); [|transitivity (eacc_list acc); [exact Ha|]].
  - clear. induction acc' as [|[x|n] tl IH]; cbn [eacc_list]; try reflexivity; rewrite <- IH; reflexivity.
  - clear. induction acc as [|[x|n] tl IH]; cbn [eacc_list]; try reflexivity; rewrite IH; reflexivity.
Qed.

Lemma eerase_update_eq v acc acc' r r' k k' : eacc_list acc' = eacc_list acc -> eerase r' = eerase r -> ek k' = ek k ->
  eerase (EUpdate v acc' r' k') = eerase (EUpdate v acc r k).
Proof.
  intros Ha Hr Hk. cbn [eerase]. rewrite Hk, Hr. f_equal.
  transitivity (eacc_list acc'); [|transitivity (eacc_list acc); [exact Ha|]].
  - clear. induction acc' as [|[x|n] tl IH]; cbn [eacc_list]; try reflexivity; rewrite <- IH; reflexivity.
  - clear. induction acc as [|[x|n] tl IH]; cbn [eacc_list]; try reflexivity; rewrite IH; reflexivity.
Qed.

Lemma pd_expr_pres env : forall e, pres env e.
Proof.
  induction e as [z k|v k|op l r k IHl IHr|op e k IHe|c t f k IHc IHt IHf|n args k IHargs|vs k IHvs
                  |v acc k IHacc|v acc rhe k IHacc IHrhe|args k] using expr_ind'; unfold pres in *; cbn [pd_expr].
  - reflexivity.
  - destruct (denv_degree env v); reflexivity.
  - destruct (pd_expr env l) as [b1 l'] eqn:El. cbn [snd] in IHl.
    assert (Hr : eerase (snd (if b1 then (true, r) else pd_expr env r)) = eerase r) by (destruct b1; [reflexivity|exact IHr]).
    destruct (if b1 then (true, r) else pd_expr env r) as [b2 r']. cbn [snd] in Hr.
    destruct (opt_range_infix op (expr_deg l') (expr_deg r')).
    + rewrite eerase_sc_set_deg. cbn [eerase]. rewrite IHl, Hr. reflexivity.
    + cbn [snd eerase]. rewrite IHl, Hr. reflexivity.
  - destruct (pd_expr env e) as [b1 x'] eqn:Ee. cbn [snd] in IHe.
    destruct (opt_range_prefix op (expr_deg x')).
    + rewrite eerase_sc_set_deg. cbn [eerase]. rewrite IHe. reflexivity.
    + cbn [snd eerase]. rewrite IHe. reflexivity.
  - destruct (pd_expr env c) as [b1 c'] eqn:Ec. cbn [snd] in IHc.
    assert (Ht : eerase (snd (if b1 then (true, t) else pd_expr env t)) = eerase t) by (destruct b1; [reflexivity|exact IHt]).
    destruct (if b1 then (true, t) else pd_expr env t) as [b2 t']. cbn [snd] in Ht.
    assert (Hf : eerase (snd (if b2 then (true, f) else pd_expr env f)) = eerase f) by (destruct b2; [reflexivity|exact IHf]).
    destruct (if b2 then (true, f) else pd_expr env f) as [b3 f']. cbn [snd] in Hf.
    assert (Hbase : eerase (ESwitch c' t' f' k) = eerase (ESwitch c t f k)) by (cbn [eerase]; rewrite IHc, Ht, Hf; reflexivity).
    destruct (expr_deg c') as [rc|]; [|exact Hbase].
    destruct (range_is_constant rc); [|exact Hbase].
    destruct (iter_opt [expr_deg t'; expr_deg f']); [|exact Hbase].
    rewrite eerase_sc_set_deg. exact Hbase.
  - pose proof (pd_list_pres env args IHargs false) as Hl.
    match goal with |- context [let '(b, args') := ?t in _] => destruct t as [b args'] eqn:Et end.
    cbn [snd] in Hl.
    assert (Hbase : eerase (ECall n args' k) = eerase (ECall n args k)) by (cbn [eerase]; rewrite !elist_map, Hl; reflexivity).
    destruct (all_constant args'); [rewrite eerase_sc_set_deg|]; exact Hbase.
  - pose proof (pd_list_pres env vs IHvs false) as Hl.
    match goal with |- context [let '(b, vs') := ?t in _] => destruct t as [b vs'] eqn:Et end.
    cbn [snd] in Hl.
    assert (Hbase : eerase (EArray vs' k) = eerase (EArray vs k)) by (cbn [eerase]; rewrite !elist_map, Hl; reflexivity).
    destruct (iter_opt (map expr_deg vs')); [rewrite eerase_sc_set_deg|]; exact Hbase.
  - pose proof (pd_acc_pres env acc IHacc false) as Ha.
    match goal with |- context [let '(b, acc') := ?t in _] => destruct t as [b acc'] eqn:Et end.
    cbn [snd] in Ha.
    assert (Hbase : eerase (EAccess v acc' k) = eerase (EAccess v acc k)) by (apply eerase_access_eq; [exact Ha|reflexivity]).
    destruct (denv_degree env v); [|exact Hbase].
    destruct (index_adjust acc' d); [rewrite eerase_sc_set_deg|]; exact Hbase.
  - destruct (pd_expr env rhe) as [b1 rhe'] eqn:Er. cbn [snd] in IHrhe.
    pose proof (pd_acc_pres env acc IHacc b1) as Ha.
    match goal with |- context [let '(b, acc') := ?t in _] => destruct t as [b acc'] eqn:Et end.
    cbn [snd] in Ha.
    assert (Hbase : eerase (EUpdate v acc' rhe' k) = eerase (EUpdate v acc rhe k))
      by (apply eerase_update_eq; [exact Ha|exact IHrhe|reflexivity]).
    match goal with |- context [match ?t with Some _ => _ | None => _ end] => destruct t as [rg|]; [|exact Hbase] end.
    destruct (index_adjust acc' rg); [rewrite eerase_sc_set_deg|]; exact Hbase.
  - destruct (phi_adjust (de_ctl env) (iter_opt (map (denv_degree env) args))); [rewrite eerase_sc_set_deg|]; reflexivity.
Qed.

Lemma pd_exprs_pres env es : forall res, map eerase (snd (pd_exprs env res es)) = map eerase es.
Proof.
  induction es as [|x tl IH]; intros res; [reflexivity|]. cbn [pd_exprs].
  destruct res; [reflexivity|].
  pose proof (pd_expr_pres env x) as Hx. unfold pres in Hx.
  destruct (pd_expr env x) as [b x']. cbn [snd] in Hx. specialize (IH b).
  destruct (pd_exprs env b tl) as [b' tl']. cbn [snd map] in *. rewrite Hx, IH. reflexivity.
Qed.

Lemma pd_logargs_pres env es : forall res, map elogarg (snd (pd_logargs env res es)) = map elogarg es.
Proof.
  induction es as [|a tl IH]; intros res; [reflexivity|]. cbn [pd_logargs]. destruct a as [|x].
  - specialize (IH res). destruct (pd_logargs env res tl) as [b' tl']. cbn [snd map] in *. rewrite IH. reflexivity.
  - destruct res; [reflexivity|].
    pose proof (pd_expr_pres env x) as Hx. unfold pres in Hx.
    destruct (pd_expr env x) as [b x']. cbn [snd] in Hx. specialize (IH b).
    destruct (pd_logargs env b tl) as [b' tl']. cbn [snd map elogarg] in *. rewrite Hx, IH. reflexivity.
Qed.

Lemma pd_stmt_pres env s : serase (snd (fst (pd_stmt env s))) = serase s.
Proof.
  destruct s; cbn [pd_stmt].
  - destruct (pd_decl_names env false t names). reflexivity.
  - pose proof (pd_expr_pres env c) as H. unfold pres in H. destruct (pd_expr env c) as [b c']. cbn [snd fst serase] in *. rewrite H. reflexivity.
  - pose proof (pd_expr_pres env e) as H. unfold pres in H. destruct (pd_expr env e) as [b e']. cbn [snd fst serase] in *. rewrite H. reflexivity.
  - pose proof (pd_expr_pres env rhe) as H. unfold pres in H. destruct (pd_expr env rhe) as [b rhe']. cbn [snd] in H.
    destruct (stype_is_local stype).
    + destruct (expr_deg rhe').
      * destruct b; [cbn [snd fst serase]; rewrite H; reflexivity|].
        destruct (denv_set_degree (denv_set_assigned env v) v d). cbn [snd fst serase]. rewrite H. reflexivity.
      * cbn [snd fst serase]. rewrite H. reflexivity.
    + cbn [snd fst serase]. rewrite H. reflexivity.
  - pose proof (pd_expr_pres env l) as Hl. unfold pres in Hl. destruct (pd_expr env l) as [b1 l']. cbn [snd] in Hl.
    destruct b1; [cbn [snd fst serase]; rewrite Hl; reflexivity|].
    pose proof (pd_expr_pres env r) as Hr. unfold pres in Hr. destruct (pd_expr env r) as [b2 r']. cbn [snd fst serase] in *.
    rewrite Hl, Hr. reflexivity.
  - pose proof (pd_logargs_pres env args false) as H. destruct (pd_logargs env false args) as [b args']. cbn [snd fst serase] in *.
    rewrite H. reflexivity.
  - pose proof (pd_expr_pres env e) as H. unfold pres in H. destruct (pd_expr env e) as [b e']. cbn [snd fst serase] in *. rewrite H. reflexivity.
Qed.

Lemma pd_stmts_pres : forall ss env res, map serase (snd (fst (pd_stmts env res ss))) = map serase ss.
Proof.
  induction ss as [|s tl IH]; intros env res; [reflexivity|]. cbn [pd_stmts]. destruct res; [reflexivity|].
  pose proof (pd_stmt_pres env s) as Hs. destruct (pd_stmt env s) as [[b s'] env']. cbn [fst snd] in Hs.
  specialize (IH env' b). destruct (pd_stmts env' b tl) as [[b' tl'] env'']. cbn [fst snd map] in *.
  rewrite Hs, IH. reflexivity.
Qed.

Lemma pd_blocks_pres idom : forall bs env res pre,
  map serase (all_stmts (snd (fst (pd_blocks idom env res pre bs)))) = map serase (all_stmts bs).
Proof.
  induction bs as [|b tl IH]; intros env res pre; [reflexivity|]. cbn [pd_blocks]. destruct res; [reflexivity|].
  pose proof (pd_stmts_pres (b_stmts b) (denv_set_ctl env (block_ctl (pre ++ b :: tl) idom b)) false) as Hs.
  destruct (pd_stmts (denv_set_ctl env (block_ctl (pre ++ b :: tl) idom b)) false (b_stmts b)) as [[r1 ss'] env'] eqn:Es. cbn [fst snd] in Hs.
  specialize (IH env' r1 (pre ++ [set_stmts b ss'])).
  destruct (pd_blocks idom env' r1 (pre ++ [set_stmts b ss']) tl) as [[r2 tl'] env'']. cbn [fst snd] in *.
  unfold all_stmts in *. cbn [flat_map]. rewrite !map_app. cbn [set_stmts b_stmts]. rewrite Hs, IH. reflexivity.
Qed.

Lemma degrees_passes_pres idom : forall k env bs,
  map serase (all_stmts (fst (degrees_passes k idom env bs))) = map serase (all_stmts bs).
Proof.
  induction k as [|k IH]; intros env bs; [reflexivity|]. cbn [degrees_passes].
  pose proof (pd_blocks_pres idom bs env false []) as Hb.
  destruct (pd_blocks idom env false [] bs) as [[rerun bs'] env']. cbn [fst snd] in Hb.
  destruct rerun; [|cbn [fst]; exact Hb]. rewrite IH. exact Hb.
Qed.

(* ---------- the universal C20 theorem for the full propagation ---------- *)
Require Import Proofs.CutProofs Proofs.CutInvariant.

Theorem propagate_validated_at_every_budget kv kd p idom c c' :
  clean_cfg c = true -> ldefs_unique (all_stmts (c_blocks c)) = true ->
  propagate kv kd p idom c = Ok c' -> vjust_cfg p c' = true.
Proof.
  intros Hclean Hu. unfold propagate.
  destruct (values_passes kv p [] (c_blocks c)) as [[bs1 env1]| | |] eqn:Ev; try discriminate. cbn [bind].
  pose proof (degrees_passes_pres idom kd (denv_init (c_kind c) (c_params c)) bs1) as Hd.
  destruct (degrees_passes kd idom (denv_init (c_kind c) (c_params c)) bs1) as [bs2 env2]. cbn [fst] in Hd.
  intros [= <-]. unfold vjust_cfg. cbn [set_blocks c_blocks].
  rewrite (vjust_same_erasure p (all_stmts bs2) (all_stmts bs1) Hd).
  exact (mirror_validated_at_every_budget kv p c bs1 env1 Hclean Hu Ev).
Qed.
