(* DesugarFunIff -- the function-side decision of remove_syntactic_sugar, both
   directions (C18).

   Proofs.DesugarProofs.check_function_kept is one implication (kept => sugar
   free); it is what C18_functions_with_sugar_rejected already contains.  The
   converse is a statement of its own: a sugar-free function is never dropped,
   never answered by a report and never makes the check panic, whatever its metas
   are (the report builder, whose `get_file_id` can panic, is only reached when
   sugar was found). *)
From Coq Require Import ZArith NArith List Bool String.
Require Import Model.Ast Model.Desugar Spec.ExpandSpec Proofs.DesugarProofs.
Import ListNotations.

Lemma check_function_keeps_sugar_free : forall body,
  sugar_free_stmt body -> check_function body = DOk None.
Proof.
  intros body [He Hs]. unfold check_function.
  destruct (contains_expr_stmt is_tuple body) eqn:Ht.
  { apply contains_expr_stmt_sound in Ht. destruct Ht as (x & Hx & Hxt).
    destruct (He _ Hx) as [H1 _]. rewrite H1 in Hxt. discriminate. }
  destruct (contains_expr_stmt is_anonymous_component body) eqn:Ha.
  { apply contains_expr_stmt_sound in Ha. destruct Ha as (x & Hx & Hxt).
    destruct (He _ Hx) as [_ H2]. rewrite H2 in Hxt. discriminate. }
  destruct (find_multi_substitution body) eqn:Hm; [|reflexivity].
  apply find_multi_substitution_sound in Hm. destruct Hm as (t & Ht' & Hmt).
  rewrite (Hs _ Ht') in Hmt. discriminate.
Qed.

Lemma check_function_kept_iff : forall body,
  check_function body = DOk None <-> sugar_free_stmt body.
Proof.
  intros body. split; [apply check_function_kept | apply check_function_keeps_sugar_free].
Qed.

(* ... and at the level of remove_syntactic_sugar: every sugar-free input function
   is among the functions handed on *)
Lemma desugar_functions_keeps : forall fs acc reps acc' reps',
  desugar_functions fs acc reps = DOk (acc', reps') ->
  (forall p, In p acc -> In p acc') /\
  (forall n b, In (n, b) fs -> sugar_free_stmt b -> In (n, b) acc').
Proof.
  induction fs as [|[n b] rest IH]; intros acc reps acc' reps' H; simpl in H.
  - inversion H; subst. split; auto. intros ? ? [].
  - destruct (check_function b) as [[rs|]|r|site|] eqn:Hc; simpl in H; try discriminate.
    + destruct (IH _ _ _ _ H) as [I1 I2]. split; auto.
      intros n' b' [E|Hin] Hsf; [|eauto]. inversion E; subst.
      rewrite (check_function_keeps_sugar_free _ Hsf) in Hc. discriminate.
    + destruct (IH _ _ _ _ H) as [I1 I2]. split.
      * intros p Hp. apply I1. apply in_or_app. auto.
      * intros n' b' [E|Hin] Hsf; [|eauto]. inversion E; subst. apply I1. apply in_or_app. right. left. reflexivity.
Qed.

Lemma remove_syntactic_sugar_keeps_sugar_free_functions : forall lib ts fs d,
  remove_syntactic_sugar lib ts fs = DOk d ->
  forall n b, In (n, b) fs -> sugar_free_stmt b -> In (n, b) (d_functions d).
Proof.
  intros lib ts fs d H n b Hin Hsf. unfold remove_syntactic_sugar in H.
  destruct (desugar_templates (env_of ts) lib ts [] []) as [[ts' reps]|r|site|] eqn:Ht; simpl in H; try discriminate.
  destruct (desugar_functions fs [] reps) as [[fs' reps']|r|site|] eqn:Hf; simpl in H; try discriminate.
  inversion H; subst. simpl. destruct (desugar_functions_keeps _ _ _ _ _ Hf) as [_ I2]. eauto.
Qed.
