(* Proofs about Model.Labels (C04): provenance and well-formedness of labels,
   no label for file-less (phi) metas, the regenerated constructor table, and
   codespan's offset -> (line, column) on the original text. *)
From Coq Require Import NArith List Bool PeanoNat String Lia Sorted.
Require Import Model.Base Model.Ir Model.Preprocess Model.Labels Gen.LabelSites.
Import ListNotations.

(* ======================================================================== *)
(* Part 1: labels                                                           *)
(* ======================================================================== *)

Definition source_range (s : source) : N * N :=
  match s with
  | FromMeta _ m | WithFileOf _ _ m | Unwrapped _ m => (m_start m, m_end m)
  | Known _ _ a b => (a, b)
  end.

Definition source_file (s : source) : option N :=
  match s with
  | FromMeta _ m | Unwrapped _ m => m_file m
  | WithFileOf _ o _ => m_file o
  | Known _ f _ _ => Some f
  end.

Definition source_primary (s : source) : bool :=
  match s with FromMeta p _ | WithFileOf p _ _ | Unwrapped p _ | Known p _ _ _ => p end.

Lemma labels_of_source_spec : forall s ls l,
  labels_of_source s = Ok ls -> In l ls ->
  (l_start l, l_end l) = source_range s /\ source_file s = Some (l_file l) /\ l_primary l = source_primary s.
Proof.
  intros s ls l H Hin. destruct s; simpl in *.
  - destruct (m_file m) eqn:E; inversion H; subst; simpl in Hin; [|contradiction].
    destruct Hin as [<-|[]]. simpl. auto.
  - destruct (m_file owner) eqn:E; inversion H; subst; simpl in Hin; [|contradiction].
    destruct Hin as [<-|[]]. simpl. auto.
  - inversion H; subst. destruct Hin as [<-|[]]. simpl. auto.
  - destruct (m_file m) eqn:E; inversion H; subst. destruct Hin as [<-|[]]. simpl. auto.
Qed.

Lemma labels_of_In : forall ss ls l,
  labels_of ss = Ok ls -> In l ls ->
  exists s ls', In s ss /\ labels_of_source s = Ok ls' /\ In l ls'.
Proof.
  induction ss as [|s r IH]; intros ls l H Hin; simpl in H.
  - inversion H; subst. contradiction.
  - destruct (labels_of_source s) as [a| | |] eqn:Ea; simpl in H; try discriminate.
    destruct (labels_of r) as [b| | |] eqn:Eb; simpl in H; try discriminate.
    inversion H; subst. apply in_app_or in Hin as [Hin|Hin].
    + exists s, a. simpl. auto.
    + destruct (IH b l eq_refl Hin) as (s' & ls' & Hs & Hl & Hi).
      exists s', ls'. simpl. auto.
Qed.

(* every label is one source's range with that source's file id *)
Lemma labels_from_sources : forall ss ls l,
  labels_of ss = Ok ls -> In l ls ->
  exists s, In s ss /\ (l_start l, l_end l) = source_range s /\
            source_file s = Some (l_file l) /\ l_primary l = source_primary s.
Proof.
  intros ss ls l H Hin. destruct (labels_of_In _ _ _ H Hin) as (s & ls' & Hs & Hl & Hi).
  exists s. split; [exact Hs|]. eapply labels_of_source_spec; eauto.
Qed.

(* the sources of every constructor take their range from one of the nodes the
   constructor is handed (or from the parser), and their file id from a node *)
Lemma sources_of_nodes : forall c s,
  In s (sources_of c) ->
  ((exists m, In m (nodes_of c) /\ source_range s = (m_start m, m_end m)) \/
   In (source_range s) (parser_ranges_of c)) /\
  ((exists o, In o (nodes_of c) /\ source_file s = m_file o) \/
   (exists f, source_file s = Some f /\ guarded_constructor c = false)).
Proof.
  intros c s Hin.
  destruct c; simpl in Hin;
    try (destruct Hin as [<-|[]]; simpl; split; [left; eexists; split; [left; reflexivity|reflexivity]
                                                  |left; eexists; split; [left; reflexivity|reflexivity]]);
    try contradiction.
  - (* signal assignment *)
    destruct Hin as [<-|Hin]; simpl.
    + split; left; exists assignment; simpl; auto.
    + apply in_map_iff in Hin as (m & <- & Hm). simpl. split; left; exists m; simpl; auto.
  - (* less than *)
    destruct Hin as [<-|Hin]; simpl.
    + split; left; exists value; simpl; auto.
    + apply in_map_iff in Hin as (m & <- & Hm). simpl.
      split; left; [exists m|exists value]; simpl; auto.
  - (* under constrained *)
    destruct Hin as [<-|Hin]; simpl.
    + split; left; exists decl; simpl; auto.
    + destruct constraint as [k|]; simpl in Hin; [|contradiction].
      destruct Hin as [<-|[]]. simpl. split; left; [exists k|exists decl]; simpl; auto.
  - (* shadowing *)
    destruct Hin as [<-|[<-|[]]]; simpl; split; left;
      [exists decl|exists decl|exists shadowed|exists shadowed]; simpl; auto.
  - (* anonymous component *)
    destruct m as [m|]; simpl in Hin; [|contradiction]. destruct Hin as [<-|[]]. simpl.
    split; left; exists m; simpl; auto.
  - destruct m as [m|]; simpl in Hin; [|contradiction]. destruct Hin as [<-|[]]. simpl.
    split; left; exists m; simpl; auto.
  - (* unclosed comment *)
    destruct Hin as [<-|[]]. simpl. split; [right; auto|right; eexists; auto].
  - destruct Hin as [<-|[]]. simpl. split; [right; auto|right; eexists; auto].
  - (* duplicate definition *)
    destruct Hin as [<-|Hin]; simpl.
    + split; [left; exists def; simpl; auto|right; eexists; auto].
    + destruct first as [[ff params]|]; simpl in Hin; [|contradiction].
      destruct Hin as [<-|[]]. simpl. split; [left; exists params; simpl; auto|right; eexists; auto].
Qed.

(* labels_from_nodes: every label range of every modelled constructor is the
   range of a node it was handed — statement, expression, declaration,
   parameter list, include statement, definition — or a range handed over by the
   parser / pre-processor (lexical errors); its file id is the file id of a node
   of the same constructor call (or the id of the file being parsed). *)
Theorem labels_from_nodes : forall c ls l,
  labels_of (sources_of c) = Ok ls -> In l ls ->
  ((exists m, In m (nodes_of c) /\ l_start l = m_start m /\ l_end l = m_end m) \/
   In (l_start l, l_end l) (parser_ranges_of c)) /\
  ((exists o, In o (nodes_of c) /\ m_file o = Some (l_file l)) \/ guarded_constructor c = false).
Proof.
  intros c ls l H Hin.
  destruct (labels_from_sources _ _ _ H Hin) as (s & Hs & Hr & Hf & _).
  destruct (sources_of_nodes c s Hs) as [Hrange Hfile]. split.
  - destruct Hrange as [(m & Hm & E)|Hp].
    + left. exists m. rewrite E in Hr. inversion Hr. auto.
    + right. rewrite Hr. exact Hp.
  - destruct Hfile as [(o & Ho & E)|(f & _ & G)].
    + left. exists o. split; [exact Ho|]. rewrite <- E. exact Hf.
    + right. exact G.
Qed.

(* label_wellformed: whatever holds of every range the parser produced for the
   nodes (and of the lexical-error ranges) holds of every label.  With
   P s e := s <= e /\ e <= len /\ boundary s /\ boundary e this is: under
   parser_ranges_wellformed every label has start <= end, lies in the file, on
   scalar boundaries. *)
Theorem label_wellformed : forall (P : N -> N -> Prop) c ls l,
  (forall m, In m (nodes_of c) -> P (m_start m) (m_end m)) ->
  (forall r, In r (parser_ranges_of c) -> P (fst r) (snd r)) ->
  labels_of (sources_of c) = Ok ls -> In l ls -> P (l_start l) (l_end l).
Proof.
  intros P c ls l Hn Hp H Hin.
  destruct (labels_from_nodes c ls l H Hin) as [[(m & Hm & -> & ->)|Hr] _].
  - apply Hn. exact Hm.
  - apply (Hp _ Hr).
Qed.

Corollary label_start_le_end : forall c ls l,
  (forall m, In m (nodes_of c) -> (m_start m <= m_end m)%N) ->
  (forall r, In r (parser_ranges_of c) -> (fst r <= snd r)%N) ->
  labels_of (sources_of c) = Ok ls -> In l ls -> (l_start l <= l_end l)%N.
Proof. intros c ls l. apply (label_wellformed (fun s e => (s <= e)%N)). Qed.

(* the two lexical-error ranges built outside the grammar are well formed by construction *)
Lemma unclosed_comment_range_le : forall f o r,
  In r (parser_ranges_of (CUnclosedComment f o)) -> (fst r <= snd r)%N.
Proof. intros f o r [<-|[]]. simpl. lia. Qed.

(* synthesised statements: a constructor of the analysis passes / CFG errors
   that is handed only file-less metas (the `Meta::default()` of phi statements)
   emits no label at all, and does not panic *)
Lemma guarded_sources : forall c s,
  guarded_constructor c = true -> In s (sources_of c) ->
  match s with FromMeta _ _ | WithFileOf _ _ _ => True | _ => False end.
Proof.
  intros c s G Hin. destruct c; simpl in G; try discriminate; simpl in Hin;
    try (destruct Hin as [<-|[]]; exact I); try contradiction.
  - destruct Hin as [<-|Hin]; [exact I|]. apply in_map_iff in Hin as (m & <- & _). exact I.
  - destruct Hin as [<-|Hin]; [exact I|]. apply in_map_iff in Hin as (m & <- & _). exact I.
  - destruct Hin as [<-|Hin]; [exact I|]. destruct constraint; simpl in Hin; [|contradiction].
    destruct Hin as [<-|[]]. exact I.
  - destruct Hin as [<-|[<-|[]]]; exact I.
Qed.

Lemma labels_of_nil : forall ss,
  (forall s, In s ss -> labels_of_source s = Ok []) -> labels_of ss = Ok [].
Proof.
  induction ss as [|s r IH]; intros H; simpl; [reflexivity|].
  rewrite (H s (or_introl eq_refl)). simpl. rewrite IH; [reflexivity|].
  intros s' Hs. apply H. right. exact Hs.
Qed.

Theorem synthesised_statements_have_no_file : forall c,
  guarded_constructor c = true ->
  (forall m, In m (nodes_of c) -> m_file m = None) ->
  labels_of (sources_of c) = Ok [].
Proof.
  intros c G Hn. apply labels_of_nil. intros s Hs.
  pose proof (guarded_sources c s G Hs) as Hshape.
  destruct (sources_of_nodes c s Hs) as [_ [(o & Ho & E)|(f & _ & G')]]; [|congruence].
  destruct s; try contradiction; simpl in *; rewrite E, (Hn o Ho); reflexivity.
Qed.

Corollary phi_statement_gets_no_label : forall c,
  guarded_constructor c = true ->
  (forall m, In m (nodes_of c) -> m = default_meta) ->
  labels_of (sources_of c) = Ok [].
Proof.
  intros c G H. apply synthesised_statements_have_no_file; [exact G|].
  intros m Hm. rewrite (H m Hm). reflexivity.
Qed.

(* a label that IS emitted names the file of a node that has one *)
Theorem label_file_is_a_node_file : forall c ls l,
  guarded_constructor c = true ->
  labels_of (sources_of c) = Ok ls -> In l ls ->
  exists o, In o (nodes_of c) /\ m_file o = Some (l_file l).
Proof.
  intros c ls l G H Hin. destruct (labels_from_nodes c ls l H Hin) as [_ [Ho|G']]; [exact Ho|congruence].
Qed.

(* Range and file id of a label come from ONE node.  The constructors of the
   analysis passes read both from the same meta, except the secondary labels of
   UnconstrainedLessThan / UnderConstrainedSignal, which take the range of
   another node of the same definition with the file id of the primary node
   ([WithFileOf]).  So: if the nodes a constructor call is handed that have a
   file all have the same file ([one_file]: they are nodes of one definition
   body - evaluated by the engine on the labels of every report), the file id
   of a label is the file id of the very node whose range it carries, unless
   that node has no file. *)
Definition one_file (c : constructor) : Prop :=
  forall m m' f f', In m (nodes_of c) -> In m' (nodes_of c) ->
    m_file m = Some f -> m_file m' = Some f' -> f = f'.

Lemma sources_same_node : forall c s,
  guarded_constructor c = true -> In s (sources_of c) ->
  exists m, In m (nodes_of c) /\ source_range s = (m_start m, m_end m) /\
            (source_file s = m_file m \/ exists o, In o (nodes_of c) /\ source_file s = m_file o).
Proof.
  intros c s G Hin.
  destruct c; simpl in G; try discriminate; simpl in Hin;
    try (destruct Hin as [<-|[]]; simpl; eexists; split; [left; reflexivity|split; [reflexivity|left; reflexivity]]);
    try contradiction.
  - destruct Hin as [<-|Hin]; simpl.
    + exists assignment. simpl. auto.
    + apply in_map_iff in Hin as (m & <- & Hm). simpl. exists m. simpl. auto.
  - destruct Hin as [<-|Hin]; simpl.
    + exists value. simpl. auto.
    + apply in_map_iff in Hin as (m & <- & Hm). simpl. exists m. simpl.
      split; [auto|]. split; [reflexivity|]. right. exists value. simpl. auto.
  - destruct Hin as [<-|Hin]; simpl.
    + exists decl. simpl. auto.
    + destruct constraint as [k|]; simpl in Hin; [|contradiction].
      destruct Hin as [<-|[]]. simpl. exists k. simpl.
      split; [auto|]. split; [reflexivity|]. right. exists decl. simpl. auto.
  - destruct Hin as [<-|[<-|[]]]; simpl; [exists decl|exists shadowed]; simpl; auto.
Qed.

Theorem label_range_and_file_of_one_node : forall c ls l,
  guarded_constructor c = true -> one_file c ->
  labels_of (sources_of c) = Ok ls -> In l ls ->
  exists m, In m (nodes_of c) /\ l_start l = m_start m /\ l_end l = m_end m /\
            (m_file m = Some (l_file l) \/ m_file m = None).
Proof.
  intros c ls l G One H Hin.
  destruct (labels_from_sources _ _ _ H Hin) as (s & Hs & Hr & Hf & _).
  destruct (sources_same_node c s G Hs) as (m & Hm & Er & Ef).
  exists m. rewrite Er in Hr. inversion Hr. split; [exact Hm|]. split; [reflexivity|]. split; [reflexivity|].
  destruct Ef as [Ef|(o & Ho & Ef)].
  - left. rewrite <- Ef. exact Hf.
  - destruct (m_file m) as [f'|] eqn:Em; [|right; reflexivity].
    left. f_equal. rewrite Hf in Ef. symmetry in Ef. exact (One m o f' (l_file l) Hm Ho Em Ef).
Qed.

(* T2008 in the model: the later definition (whole range, file being merged) and the parameter list
   of the first definition of the name (the file THAT definition was merged from), both primary *)
Lemma duplicate_definition_labels : forall f d f1 p,
  labels_of (sources_of (CDuplicateDefinition f d (Some (f1, p)))) =
  Ok [mk true f (m_start d) (m_end d); mk true f1 (m_start p) (m_end p)].
Proof. reflexivity. Qed.

(* the only constructors that can panic while building their labels are the two
   that unwrap the file id (TAC01 / TAC02 reports), and only on a file-less meta *)
Lemma labels_of_total : forall ss,
  (forall p m, In (Unwrapped p m) ss -> m_file m <> None) -> exists ls, labels_of ss = Ok ls.
Proof.
  induction ss as [|s r IH]; intros Hs; simpl; [eauto|].
  assert (exists a, labels_of_source s = Ok a) as (a & ->).
  { destruct s as [p m|p o m|p f x y|p m]; simpl; try (destruct (m_file _); eauto; fail); eauto.
    destruct (m_file m) eqn:E; [eauto|]. exfalso. apply (Hs p m); [left; reflexivity|exact E]. }
  simpl. destruct IH as (b & ->); [intros p m Hin; apply (Hs p m); right; exact Hin|]. simpl. eauto.
Qed.

Ltac no_unwrapped Hin :=
  simpl in Hin;
  repeat match type of Hin with
         | _ \/ _ => destruct Hin as [Hin|Hin]; [discriminate Hin|]
         | False => contradiction
         | In _ (map _ _) => apply in_map_iff in Hin as (? & Hin & _); discriminate Hin
         | In _ (match ?x with Some _ => _ | None => _ end) => destruct x; simpl in Hin
         | In _ [] => contradiction
         end.

Theorem label_construction_panics_only_on_unwrap : forall c,
  (forall ls, labels_of (sources_of c) <> Ok ls) ->
  exists m, (c = CAnonymousComponentError (Some m) \/ c = CTupleError (Some m)) /\ m_file m = None.
Proof.
  intros c H.
  destruct c;
    try (exfalso;
         match goal with
         | H : forall ls, labels_of (sources_of ?c) <> Ok ls |- _ =>
             destruct (labels_of_total (sources_of c)) as (ls & E);
             [intros p0 m0 Hin; exfalso; no_unwrapped Hin | exact (H ls E)]
         end; fail).
  - destruct m as [m|].
    + destruct (m_file m) eqn:E.
      * exfalso. apply (H [mk true n (m_start m) (m_end m)]). simpl. rewrite E. reflexivity.
      * exists m. auto.
    + exfalso. apply (H []). reflexivity.
  - destruct m as [m|].
    + destruct (m_file m) eqn:E.
      * exfalso. apply (H [mk true n (m_start m) (m_end m)]). simpl. rewrite E. reflexivity.
      * exists m. auto.
    + exfalso. apply (H []). reflexivity.
  - (* duplicate definition: one or two `Known` labels, never a panic *)
    exfalso. destruct first as [[ff pp]|]; eapply H; simpl; reflexivity.
Qed.

(* ------------------------------------------------------------------------ *)
(* the regenerated table of label sites                                     *)
(* ------------------------------------------------------------------------ *)

Definition range_allowed (r : range_src) : bool :=
  match r with LMadeUp => false | _ => true end.

Definition file_shape_of (f : file_src) : file_shape :=
  match f with LFileGuarded => GGuarded | LFileKnown | LFileStored => GKnown | LFileUnwrapped => GUnwrapped end.

Definition style_primary (s : style) : bool := match s with Primary => true | Secondary => false end.

Definition file_shape_eqb (a b : file_shape) : bool :=
  match a, b with GGuarded, GGuarded | GKnown, GKnown | GUnwrapped, GUnwrapped => true | _, _ => false end.

(* consecutive rows of one constructor become one entry *)
Fixpoint group (rows : list (string * string * style * range_src * file_src))
  : list (string * string * list (bool * file_shape)) :=
  match rows with
  | [] => []
  | (f, o, st, _, fs) :: r =>
      match group r with
      | (f', o', sh) :: g =>
          if (String.eqb f f' && String.eqb o o')%bool
          then (f, o, (style_primary st, file_shape_of fs) :: sh) :: g
          else (f, o, [(style_primary st, file_shape_of fs)]) :: (f', o', sh) :: g
      | [] => [(f, o, [(style_primary st, file_shape_of fs)])]
      end
  end.

Fixpoint shape_eqb (a b : list (bool * file_shape)) : bool :=
  match a, b with
  | [], [] => true
  | (p, x) :: a', (q, y) :: b' => Bool.eqb p q && file_shape_eqb x y && shape_eqb a' b'
  | _, _ => false
  end.

Fixpoint shapes_eqb (a b : list (string * string * list (bool * file_shape))) : bool :=
  match a, b with
  | [], [] => true
  | (f, o, s) :: a', (f', o', s') :: b' =>
      String.eqb f f' && String.eqb o o' && shape_eqb s s' && shapes_eqb a' b'
  | _, _ => false
  end.

(* T1: no label of the anchored sources takes its range from anything but a
   node meta or a range field (no arithmetic, no literal, no range built in place) *)
Lemma no_made_up_label_range :
  forallb (fun '(_, _, _, r, _) => range_allowed r) label_sites = true.
Proof. vm_compute. reflexivity. Qed.

(* T2: the label sites found in the sources are exactly the modelled
   constructors, call for call, with the same style and the same guard: a new
   label, a dropped `if let Some(file_id)`, an unwrap, a new constructor — all
   change the regenerated table and break this lemma *)
Lemma label_sites_match_model :
  shapes_eqb (group label_sites) modelled_shapes = true.
Proof. vm_compute. reflexivity. Qed.

(* T3: wherever a report struct is filled, range and optional file id are read
   from the same node (meta / declaration / parameter list), or handed through,
   or a parser token range; a literal range only in the one allowed place *)
Definition fill_allowed (row : string * string * string * fill_src) : bool :=
  let '(f, o, _, c) := row in
  match c with
  | FSameNode | FParserToken | FPassThrough => true
  | FLiteral => existsb (fun '(f', o') => String.eqb f f' && String.eqb o o') literal_range_allowed
  | FOther => false
  end.

Lemma label_fills_from_nodes : forallb fill_allowed label_fills = true.
Proof. vm_compute. reflexivity. Qed.

Lemma at_most_one_literal_range :
  (length (filter (fun '(_, _, _, c) => match c with FLiteral => true | _ => false end) label_fills) <=? 1)%nat = true.
Proof. vm_compute. reflexivity. Qed.

(* the Gallina constructors have the declared shapes *)
Local Open Scope string_scope.
Definition name_of (c : constructor) : list (string * string) :=
  match c with
  | CSignalAssignment _ _ => [("src/signal_assignments", "SignalAssignmentWarning")]
  | CUnnecessarySignalAssignment _ => [("src/signal_assignments", "UnecessarySignalAssignmentWarning")]
  | CUnusedVariable _ => [("src/side_effect_analysis", "UnusedVariableWarning")]
  | CUnconstrainedSignal _ => [("src/side_effect_analysis", "UnconstrainedSignalWarning")]
  | CUnusedSignal _ => [("src/side_effect_analysis", "UnusedSignalWarning")]
  | CUnusedParameter _ => [("src/side_effect_analysis", "UnusedParameterWarning")]
  | CVariableWithoutSideEffects _ => [("src/side_effect_analysis", "VariableWithoutSideEffectsWarning")]
  | CParamWithoutSideEffects _ => [("src/side_effect_analysis", "ParamWithoutSideEffectsWarning")]
  | CConstantBranchCondition _ => [("src/constant_conditional", "ConstantBranchConditionWarning")]
  | CNonStrictBinaryConversion _ => [("src/nonstrict_binary_conversion", "NonStrictBinaryConversionWarning.Num2Bits");
                                     ("src/nonstrict_binary_conversion", "NonStrictBinaryConversionWarning.Bits2Num")]
  | CBn254SpecificCircuit _ => [("src/bn254_specific_circuit", "Bn254SpecificCircuitWarning")]
  | CUnconstrainedDivision _ => [("src/unconstrained_division", "UnconstrainedDivisionWarning")]
  | CUnusedOutputSignal _ => [("src/unused_output_signal", "UnusedOutputSignalWarning")]
  | CFieldArithmetic _ => [("src/field_arithmetic", "FieldElementArithmeticWarning")]
  | CFieldComparison _ => [("src/field_comparisons", "FieldElementComparisonWarning")]
  | CBitwiseComplement _ => [("src/bitwise_complement", "BitwiseComplementWarning")]
  | CUnconstrainedLessThan _ _ => [("src/unconstrained_less_than", "UnconstrainedLessThanWarning")]
  | CUnderConstrainedSignal _ _ => [("src/under_constrained_signals", "UnderConstrainedSignalWarning")]
  | CTooManyArguments _ => [("src/definition_complexity", "TooManyArgumentsWarning")]
  | CCyclomaticComplexity => []
  | CShadowingVariable _ _ => [("control_flow_graph/errors", "CFGError.ShadowingVariableWarning")]
  | CParameterNameCollision _ => [("control_flow_graph/errors", "CFGError.ParameterNameCollisionError")]
  | CUndefinedVariable _ => [("control_flow_graph/errors", "CFGError.UndefinedVariableError");
                             ("intermediate_representation/errors", "IRError.UndefinedVariableError");
                             ("static_single_assignment/errors", "SSAError.UndefinedVariableError")]
  | CInvalidVariableName _ => [("control_flow_graph/errors", "CFGError.InvalidVariableNameError");
                               ("intermediate_representation/errors", "IRError.InvalidVariableNameError")]
  | CIncludeError _ => [("src/errors", "IncludeError")]
  | CAnonymousComponentError _ => [("src/errors", "AnonymousComponentError")]
  | CTupleError _ => [("src/errors", "TupleError")]
  | CUnclosedComment _ _ => [("src/errors", "UnclosedCommentError")]
  | CParsingError _ _ _ => [("src/errors", "ParsingError")]
  | CDuplicateDefinition _ _ _ => [("program_library/program_merger", "Merger")]
  end.
Local Close Scope string_scope.

Definition shape_in (x : bool * file_shape) (sh : list (bool * file_shape)) : bool :=
  existsb (fun y => Bool.eqb (fst x) (fst y) && file_shape_eqb (snd x) (snd y)) sh.

Definition lookup_shape (n : string * string) : list (bool * file_shape) :=
  match find (fun '(f, o, _) => String.eqb (fst n) f && String.eqb (snd n) o) modelled_shapes with
  | Some (_, _, sh) => sh
  | None => []
  end.

(* T4: every source of every Gallina constructor has a (style, guard) that the
   declared shape of each of its Rust counterparts contains — so together with
   T2 the guards of the model are the guards of the code *)
Lemma model_sources_have_declared_shapes : forall c s n,
  In s (sources_of c) -> In n (name_of c) -> shape_in (shape_of_source s) (lookup_shape n) = true.
Proof.
  intros c s n Hs Hn.
  destruct c; simpl in Hn;
    repeat match goal with H : _ \/ _ |- _ => destruct H as [<-|H] end; try contradiction;
    simpl in Hs; unfold anonymous_component_error, tuple_error in Hs;
    repeat match goal with
           | H : _ \/ _ |- _ => destruct H as [<-|H]
           | H : In _ (map _ _) |- _ => apply in_map_iff in H as (? & <- & _)
           | H : In _ (match ?x with Some _ => _ | None => _ end) |- _ => destruct x; simpl in H
           | H : In _ (let (_, _) := ?x in _) |- _ => destruct x; simpl in H
           | H : False |- _ => contradiction
           end;
    try reflexivity.
Qed.

(* ======================================================================== *)
(* Part 2: byte offset -> (line, column) on the original text               *)
(* ======================================================================== *)
Local Open Scope nat_scope.
Local Opaque N.eqb.

Lemma utf8_len_pos : forall c, 1 <= utf8_len c.
Proof. intros c. unfold utf8_len. repeat destruct (_ <? _)%N; lia. Qed.

Lemma bytes_app : forall u v, bytes (u ++ v) = bytes u + bytes v.
Proof. induction u as [|c u IH]; intros v; simpl; [reflexivity|]. rewrite IH. lia. Qed.

Lemma newlines_app : forall u v, newlines (u ++ v) = newlines u + newlines v.
Proof. intros u v. unfold newlines. rewrite filter_app, app_length. reflexivity. Qed.

Lemma newlines_none : forall u, ~ In 10%N u -> newlines u = 0.
Proof.
  induction u as [|c u IH]; intros H; [reflexivity|]. unfold newlines in *. simpl.
  destruct (N.eqb_spec 10 c) as [E|Hc].
  - exfalso. apply H. left. symmetry. exact E.
  - apply IH. intros Hin. apply H. right. exact Hin.
Qed.

Lemma starts_from_app : forall u v pos,
  starts_from pos (u ++ v) = starts_from pos u ++ starts_from (pos + bytes u) v.
Proof.
  induction u as [|c u IH]; intros v pos; simpl.
  - rewrite Nat.add_0_r. reflexivity.
  - rewrite IH. replace (pos + utf8_len c + bytes u) with (pos + (utf8_len c + bytes u)) by lia.
    destruct (N.eqb c 10); reflexivity.
Qed.

Lemma starts_from_gt : forall l pos y, In y (starts_from pos l) -> pos < y.
Proof.
  induction l as [|c l IH]; intros pos y H; simpl in H; [contradiction|].
  pose proof (utf8_len_pos c).
  destruct (N.eqb c 10).
  - destruct H as [<-|H]; [lia|]. apply IH in H. lia.
  - apply IH in H. lia.
Qed.

Lemma starts_from_le : forall l pos y, In y (starts_from pos l) -> y <= pos + bytes l.
Proof.
  induction l as [|c l IH]; intros pos y H; simpl in H; [contradiction|]. simpl.
  destruct (N.eqb c 10).
  - destruct H as [<-|H]; [lia|]. apply IH in H. lia.
  - apply IH in H. lia.
Qed.

Lemma starts_from_sorted : forall l pos, StronglySorted lt (starts_from pos l).
Proof.
  induction l as [|c l IH]; intros pos; simpl; [constructor|].
  destruct (N.eqb c 10); [|apply IH].
  constructor; [apply IH|]. apply Forall_forall. intros y Hy. apply starts_from_gt in Hy. exact Hy.
Qed.

Lemma length_starts_from : forall l pos, length (starts_from pos l) = newlines l.
Proof.
  induction l as [|c l IH]; intros pos; [reflexivity|]. unfold newlines in *. simpl.
  rewrite (N.eqb_sym 10 c). destruct (N.eqb c 10); simpl; rewrite IH; reflexivity.
Qed.

Lemma starts_from_no_newline : forall l pos, ~ In 10%N l -> starts_from pos l = [].
Proof.
  intros l pos H. apply length_zero_iff_nil. rewrite length_starts_from. apply newlines_none. exact H.
Qed.

Definition count_le (x : nat) (l : list nat) : nat := length (filter (fun y => y <=? x) l).

Lemma count_le_none : forall x l, (forall y, In y l -> x < y) -> count_le x l = 0.
Proof.
  intros x. induction l as [|y l IH]; intros H; [reflexivity|]. unfold count_le in *. simpl.
  destruct (Nat.leb_spec y x) as [Hle|_].
  - specialize (H y (or_introl eq_refl)). lia.
  - apply IH. intros z Hz. apply H. right. exact Hz.
Qed.

Lemma count_le_all : forall x l, (forall y, In y l -> y <= x) -> count_le x l = length l.
Proof.
  intros x. induction l as [|y l IH]; intros H; [reflexivity|]. unfold count_le in *. simpl.
  destruct (Nat.leb_spec y x) as [_|Hgt].
  - simpl. f_equal. apply IH. intros z Hz. apply H. right. exact Hz.
  - specialize (H y (or_introl eq_refl)). lia.
Qed.

Lemma count_le_app : forall x a b, count_le x (a ++ b) = count_le x a + count_le x b.
Proof. intros. unfold count_le. rewrite filter_app, app_length. reflexivity. Qed.

(* binary_search on a strictly increasing vector, by counting *)
Lemma bsearch_count : forall l x i,
  StronglySorted lt l ->
  match bsearch x l i with
  | inl k => k + 1 = i + count_le x l
  | inr k => k = i + count_le x l
  end.
Proof.
  induction l as [|y l IH]; intros x i Hs; simpl.
  - unfold count_le. simpl. lia.
  - inversion Hs as [|? ? Hs' Hall]; subst. rewrite Forall_forall in Hall.
    destruct (Nat.eqb_spec x y) as [->|Hne].
    + unfold count_le. simpl. rewrite Nat.leb_refl. simpl.
      fold (count_le y l). rewrite count_le_none; [lia|]. intros z Hz. apply Hall. exact Hz.
    + destruct (Nat.ltb_spec x y) as [Hlt|Hge].
      * rewrite count_le_none; [lia|]. intros z [<-|Hz]; [exact Hlt|]. specialize (Hall z Hz). lia.
      * specialize (IH x (S i) Hs'). unfold count_le in *. simpl.
        destruct (Nat.leb_spec y x); [|lia]. simpl. destruct (bsearch x l (S i)); lia.
Qed.

Lemma line_starts_sorted : forall l, StronglySorted lt (line_starts l).
Proof.
  intros l. unfold line_starts. constructor; [apply starts_from_sorted|].
  apply Forall_forall. intros y Hy. apply starts_from_gt in Hy. exact Hy.
Qed.

(* the line index of a position = the number of newlines before it *)
Lemma line_index_usual : forall u v, line_index (u ++ v) (bytes u) = newlines u.
Proof.
  intros u v. unfold line_index.
  pose proof (bsearch_count (line_starts (u ++ v)) (bytes u) 0 (line_starts_sorted _)) as H.
  assert (C : count_le (bytes u) (line_starts (u ++ v)) = S (newlines u)).
  { unfold line_starts. change (0 :: starts_from 0 (u ++ v)) with ([0] ++ starts_from 0 (u ++ v)).
    rewrite count_le_app, starts_from_app, count_le_app. simpl.
    rewrite (count_le_all (bytes u) (starts_from 0 u)), length_starts_from.
    - rewrite count_le_none; [unfold count_le; simpl; lia|]. intros y Hy. apply starts_from_gt in Hy. exact Hy.
    - intros y Hy. apply starts_from_le in Hy. exact Hy. }
  rewrite C in H. destruct (bsearch (bytes u) (line_starts (u ++ v)) 0); lia.
Qed.

(* the start of that line = the byte offset after the last newline before the position *)
Lemma last_line_start : forall u1 u2,
  (u1 = [] \/ exists w, u1 = w ++ [10%N]) -> ~ In 10%N u2 ->
  nth (newlines (u1 ++ u2)) (0 :: starts_from 0 (u1 ++ u2)) 0 = bytes u1.
Proof.
  intros u1 u2 H1 H2. rewrite newlines_app, (newlines_none u2 H2), Nat.add_0_r.
  rewrite starts_from_app, (starts_from_no_newline u2 _ H2), app_nil_r.
  destruct H1 as [->|(w & ->)]; [reflexivity|].
  rewrite newlines_app, starts_from_app. simpl. unfold newlines at 2. simpl. rewrite !N.eqb_refl. simpl.
  replace (newlines w + 1) with (S (newlines w)) by lia. simpl.
  rewrite app_nth2; rewrite length_starts_from; [|lia]. rewrite Nat.sub_diag.
  assert (E10 : utf8_len 10 = 1) by (vm_compute; reflexivity).
  cbn [nth]. rewrite bytes_app. cbn [bytes]. rewrite ?E10. lia.
Qed.

Lemma line_range_usual : forall u1 u2 v,
  (u1 = [] \/ exists w, u1 = w ++ [10%N]) -> ~ In 10%N u2 ->
  exists e, line_range (u1 ++ u2 ++ v) (newlines (u1 ++ u2)) = Some (bytes u1, e) /\ bytes (u1 ++ u2) <= e.
Proof.
  intros u1 u2 v H1 H2. set (u := u1 ++ u2). set (k := newlines u).
  assert (L : line_starts (u1 ++ u2 ++ v) = (0 :: starts_from 0 u) ++ starts_from (bytes u) v).
  { unfold line_starts. rewrite app_assoc. fold u. rewrite starts_from_app. reflexivity. }
  assert (Lk : length (0 :: starts_from 0 u) = S k) by (simpl; rewrite length_starts_from; reflexivity).
  unfold line_range, line_start. rewrite L, app_length, Lk.
  destruct (Nat.compare_spec k (S k + length (starts_from (bytes u) v))) as [?|_|?]; try lia.
  rewrite (app_nth1 (0 :: starts_from 0 u) (starts_from (bytes u) v) 0 (n := k)) by (rewrite Lk; lia).
  unfold u at 2, k, u. rewrite (last_line_start u1 u2 H1 H2).
  destruct (starts_from (bytes (u1 ++ u2)) v) as [|b B] eqn:EB; simpl.
  - rewrite Nat.add_0_r, Nat.compare_refl. eexists. split; [reflexivity|].
    rewrite app_assoc, (bytes_app (u1 ++ u2) v). lia.
  - destruct (Nat.compare_spec (newlines (u1 ++ u2)) (newlines (u1 ++ u2) + S (length B))) as [?|_|?]; try lia.
    rewrite app_nth2; rewrite length_starts_from; [|lia]. rewrite Nat.sub_diag. cbn [nth].
    eexists. split; [reflexivity|].
    assert (In b (starts_from (bytes (u1 ++ u2)) v)) as Hb by (rewrite EB; left; reflexivity).
    apply starts_from_gt in Hb. lia.
Qed.

(* --- columns ---------------------------------------------------------------- *)

Lemma boundaries_from_ge : forall l pos i, In i (boundaries_from pos l) -> pos <= i.
Proof.
  induction l as [|c l IH]; intros pos i H; simpl in H.
  - destruct H as [<-|[]]. lia.
  - destruct H as [<-|H]; [lia|]. apply IH in H. lia.
Qed.

Lemma boundaries_from_head : forall l pos, In pos (boundaries_from pos l).
Proof. destruct l; intros; simpl; auto. Qed.

Lemma boundaries_gap : forall w c t pos i,
  In i (boundaries_from pos (w ++ c :: t)) -> i <= pos + bytes w \/ pos + bytes w + utf8_len c <= i.
Proof.
  induction w as [|a w IH]; intros c t pos i H; simpl in H.
  - destruct H as [<-|H]; [left; simpl; lia|]. apply boundaries_from_ge in H. right. simpl. lia.
  - destruct H as [<-|H]; [left; lia|]. apply IH in H. simpl. lia.
Qed.

Lemma boundaries_next : forall w c t pos,
  In (pos + bytes w + utf8_len c) (boundaries_from pos (w ++ c :: t)).
Proof.
  induction w as [|a w IH]; intros c t pos; simpl.
  - right. rewrite Nat.add_0_r. apply boundaries_from_head.
  - right. replace (pos + (utf8_len a + bytes w) + utf8_len c) with (pos + utf8_len a + bytes w + utf8_len c) by lia.
    apply IH.
Qed.

Lemma is_char_boundary_In : forall l i, is_char_boundary l i = true <-> In i (boundaries_from 0 l).
Proof.
  intros l i. unfold is_char_boundary. rewrite existsb_exists. split.
  - intros (x & Hx & E). apply Nat.eqb_eq in E. subst. exact Hx.
  - intros H. exists i. split; [exact H|apply Nat.eqb_refl].
Qed.

Lemma filter_false : forall (A : Type) (f : A -> bool) l, (forall x, In x l -> f x = false) -> filter f l = [].
Proof.
  intros A f. induction l as [|x l IH]; intros H; [reflexivity|]. simpl.
  rewrite (H x (or_introl eq_refl)). apply IH. intros y Hy. apply H. right. exact Hy.
Qed.

Lemma count_one : forall s k f,
  1 <= k -> (forall b, s <= b < s + k -> f b = (S b =? s + k)) -> length (filter f (seq s k)) = 1.
Proof.
  intros s k f Hk Hf. destruct k as [|k]; [lia|]. rewrite seq_S, filter_app, app_length.
  rewrite filter_false.
  - simpl. rewrite Hf by lia. replace (S (s + k)) with (s + S k) by lia. rewrite Nat.eqb_refl. reflexivity.
  - intros b Hb. apply in_seq in Hb. rewrite Hf by lia. apply Nat.eqb_neq. lia.
Qed.

(* one scalar boundary per scalar: the number of character boundaries in
   (bytes w, bytes w + bytes u2] is the number of scalars of u2 *)
Lemma count_boundaries : forall u2 w rest,
  length (filter (fun b => is_char_boundary (w ++ u2 ++ rest) (S b)) (seq (bytes w) (bytes u2))) = length u2.
Proof.
  induction u2 as [|c u2 IH]; intros w rest; [reflexivity|].
  simpl bytes. rewrite seq_app, filter_app, app_length. simpl length.
  replace (w ++ c :: u2 ++ rest) with ((w ++ [c]) ++ u2 ++ rest) by (rewrite <- app_assoc; reflexivity).
  replace (bytes w + utf8_len c) with (bytes (w ++ [c])) by (rewrite bytes_app; simpl; lia).
  rewrite IH.
  assert (X : length (filter (fun b => is_char_boundary ((w ++ [c]) ++ u2 ++ rest) (S b))
                             (seq (bytes w) (utf8_len c))) = 1); [|lia].
  apply count_one; [apply utf8_len_pos|].
  intros b Hb.
  replace ((w ++ [c]) ++ u2 ++ rest) with (w ++ c :: (u2 ++ rest)) by (rewrite <- app_assoc; reflexivity).
  destruct (Nat.eqb_spec (S b) (bytes w + utf8_len c)) as [E|Hne].
  - apply is_char_boundary_In. rewrite E. apply (boundaries_next w c (u2 ++ rest) 0).
  - destruct (is_char_boundary (w ++ c :: u2 ++ rest) (S b)) eqn:Eb; [|reflexivity].
    apply is_char_boundary_In in Eb. apply boundaries_gap in Eb. lia.
Qed.

(* location_usual: for every position that is the end of a prefix u1 ++ u2 of the
   ORIGINAL text, where u1 is empty or ends with a newline and u2 contains none
   (u2 = the part of the line before the position), codespan answers
   line = 1 + number of newlines before the position,
   column = 1 + number of characters (scalars; CR, tabs, multi-byte ones count 1)
   between the start of the line and the position. *)
Theorem location_usual : forall u1 u2 v,
  (u1 = [] \/ exists w, u1 = w ++ [10%N]) -> ~ In 10%N u2 ->
  location (u1 ++ u2 ++ v) (bytes (u1 ++ u2)) = Some (S (newlines u1), S (length u2)).
Proof.
  intros u1 u2 v H1 H2.
  assert (Eli : line_index (u1 ++ u2 ++ v) (bytes (u1 ++ u2)) = newlines (u1 ++ u2))
    by (rewrite app_assoc; apply line_index_usual).
  unfold location. rewrite Eli.
  destruct (line_range_usual u1 u2 v H1 H2) as (e & -> & He).
  rewrite newlines_app, (newlines_none u2 H2), Nat.add_0_r. f_equal. f_equal. f_equal.
  unfold column_index. simpl fst. simpl snd.
  assert (Hb : bytes (u1 ++ u2) <= bytes (u1 ++ u2 ++ v)) by (rewrite app_assoc, (bytes_app (u1 ++ u2)); lia).
  rewrite Nat.min_l by (apply Nat.min_glb; lia).
  rewrite bytes_app. replace (bytes u1 + bytes u2 - bytes u1) with (bytes u2) by lia.
  apply count_boundaries.
Qed.

(* every prefix splits that way: the theorem covers every scalar boundary of the file *)
Lemma last_line_split : forall u,
  exists u1 u2, u = u1 ++ u2 /\ (u1 = [] \/ exists w, u1 = w ++ [10%N]) /\ ~ In 10%N u2.
Proof.
  induction u as [|c u IH] using rev_ind.
  - exists [], []. simpl. auto.
  - destruct (N.eq_dec c 10) as [->|Hc].
    + exists (u ++ [10%N]), []. rewrite app_nil_r. split; [reflexivity|]. split; [right; eauto|auto].
    + destruct IH as (u1 & u2 & -> & H1 & H2). exists u1, (u2 ++ [c]).
      rewrite app_assoc. split; [reflexivity|]. split; [exact H1|].
      intros Hin. apply in_app_or in Hin as [Hin|[Hin|[]]]; [auto|congruence].
Qed.

(* what is written to SARIF for a label whose two ends are the ends of the
   prefixes a1 ++ a2 and b1 ++ b2 of the original text *)
Corollary sarif_region_usual : forall l a1 a2 va b1 b2 vb,
  l = a1 ++ a2 ++ va -> l = b1 ++ b2 ++ vb ->
  (a1 = [] \/ exists w, a1 = w ++ [10%N]) -> ~ In 10%N a2 ->
  (b1 = [] \/ exists w, b1 = w ++ [10%N]) -> ~ In 10%N b2 ->
  sarif_region l (bytes (a1 ++ a2)) (bytes (b1 ++ b2)) =
    Some (S (newlines a1), S (length a2), S (newlines b1), S (length b2)).
Proof.
  intros l a1 a2 va b1 b2 vb Ea Eb Ha1 Ha2 Hb1 Hb2. unfold sarif_region.
  rewrite Ea at 1. rewrite (location_usual a1 a2 va Ha1 Ha2).
  rewrite Eb. rewrite (location_usual b1 b2 vb Hb1 Hb2). reflexivity.
Qed.

(* ======================================================================== *)
(* assembling the hypotheses                                                *)
(* ======================================================================== *)

(* parser_ranges_wellformed: every meta the grammar produced (Meta::new(s, e)
   from @L/@R of one production) satisfies P — instantiated with
   P s e := s <= e /\ e <= length of the text /\ s, e scalar boundaries.
   desugar_metas_from_input (+ lift_metas_from_ast, ssa_metas): every meta of a
   desugared, lifted, SSA-converted definition is a meta of the parsed definition
   or the empty default range 0..0 of a synthesised statement.
   Both are hypotheses (observed by the engine); under them every label of every
   modelled constructor applied to nodes of the final IR satisfies P. *)
Theorem labels_wellformed_end_to_end :
  forall (P : N -> N -> Prop) (parsed final : list meta) c ls l,
    (forall m, In m parsed -> P (m_start m) (m_end m)) ->
    (forall m, In m final -> In m parsed \/ (m_start m = 0%N /\ m_end m = 0%N)) ->
    P 0%N 0%N ->
    (forall m, In m (nodes_of c) -> In m final) ->
    (forall r, In r (parser_ranges_of c) -> P (fst r) (snd r)) ->
    labels_of (sources_of c) = Ok ls -> In l ls -> P (l_start l) (l_end l).
Proof.
  intros P parsed final c ls l Hp Hd H0 Hn Hr. apply label_wellformed; [|exact Hr].
  intros m Hm. destruct (Hd m (Hn m Hm)) as [Hin|[-> ->]]; [apply Hp; exact Hin|exact H0].
Qed.
