(* C07: the hypotheses of Proofs.CtlChain.chain_split_decides are satisfiable.  The body
     var x = 0; if (x < 3) { x = 1; } else { x = 2; }  x = x + 4;
   is lifted by the mirror of try_lift_impl, converted to SSA with the children and frontier
   lists of its dominator tree (a phi for x appears at the join, block 3), annotated by
   propagation (the mirror of into_ssa hands its declarations over through the statements
   and leaves the table empty, so no degree claim is made here: the example is about the
   GRAPH); on the annotated graph block 0 can change the edge along which the join is
   entered and the theorem yields that its condition is a deciding condition of the join. *)
From Coq Require Import ZArith NArith List Bool String Ascii.
Require Import Model.Ast.
Require Model.Base Model.Ir Model.Dom Model.Ssa Model.SsaPre Model.LiftFull Model.Lift Model.Propagate Model.DegGraph Model.DegJustify.
Require Spec.CfgSpec Spec.CtlSpec Spec.DegSem.
Require Proofs.CtlStructure Proofs.CtlChain Proofs.CtlChainExampleGraph.
From stdpp Require base numbers list.
Import ListNotations.
Local Open Scope string_scope.

Definition cm (a b : N) : meta := Meta a b (Some 0%N).
Definition cx (a b : N) : expression := Variable_ (cm a b) "x" [].

Definition cc_body : statement :=
  Block (cm 0 90)
    [InitializationBlock (cm 1 10) VVar
       [Declaration (cm 1 6) VVar "x" [] true; Substitution (cm 5 10) "x" [] AssignVar (Number (cm 9 10) 0)];
     IfThenElse (cm 12 60) (InfixOp (cm 16 21) (cx 16 17) ILesser (Number (cm 20 21) 3))
       (Block (cm 23 35) [Substitution (cm 25 31) "x" [] AssignVar (Number (cm 29 30) 1)])
       (Some (Block (cm 41 53) [Substitution (cm 43 49) "x" [] AssignVar (Number (cm 47 48) 2)]));
     Substitution (cm 62 72) "x" [] AssignVar (InfixOp (cm 66 71) (cx 66 67) IAdd (Number (cm 70 71) 4))].

Definition cc_key (m : Ir.meta) : nat := N.to_nat (Ir.m_start m).

Definition cc_lifted : option LiftFull.lifted :=
  match LiftFull.try_lift_impl Ir.KTemplate [] (Some 0%N) (10%N, 12%N) cc_body with Base.Ok r => Some r | _ => None end.

Definition cc_children : list (list N) := [[1%N; 2%N; 3%N]; []; []; []].
Definition cc_frontier : list (list N) := [[]; [3%N]; [3%N]; []].
Definition cc_idom : list (option N) := [None; Some 0%N; Some 0%N; Some 0%N].

Definition cc_ok : bool :=
  match cc_lifted with
  | Some r =>
    let c0 := LiftFull.erase_cfg (LiftFull.l_cfg r) in
    SsaPre.phi_free c0 && SsaPre.decls_ok c0 &&
    match Ssa.into_ssa cc_frontier cc_children c0 with
    | Ssa.SOk c1 =>
      match Propagate.propagate 9 9 7 cc_idom c1 with
      | Base.Ok c2 =>
        DegGraph.graph_consistent c2 && DegGraph.idom_is_dominator_table c2 cc_idom && DegJustify.idom_shape c2 cc_idom &&
        (* the join holds a phi with two arguments, block 0 ends with a condition *)
        match nth_error (Ir.c_blocks c2) 3, nth_error (Ir.c_blocks c2) 0 with
        | Some bj, Some b0 =>
          existsb (fun s => match s with Ir.SSubst _ _ _ (Ir.EPhi (_ :: _ :: _) _) _ _ => true | _ => false end) (Ir.b_stmts bj) &&
          match last (Ir.b_stmts b0) (Ir.SLog (Ir.Build_meta 0 0 None) []) with Ir.SIf _ _ _ _ => true | _ => false end
        | _, _ => false
        end
      | _ => false
      end
    | _ => false
    end
  | None => false
  end.

Lemma cc_ok_true : cc_ok = true.
Proof. vm_compute. reflexivity. Qed.

(* the pieces, named *)
Definition cc_r : LiftFull.lifted :=
  match cc_lifted with Some r => r | None => {| LiftFull.l_cfg := LiftFull.Build_xcfg Ir.KTemplate [] None (0%N, 0%N) [] []; LiftFull.l_reports := [] |} end.
Definition cc_c0 : Ir.cfg := LiftFull.erase_cfg (LiftFull.l_cfg cc_r).
Definition cc_c1 : Ir.cfg := match Ssa.into_ssa cc_frontier cc_children cc_c0 with Ssa.SOk c => c | _ => cc_c0 end.
Definition cc_c2 : Ir.cfg := match Propagate.propagate 9 9 7 cc_idom cc_c1 with Base.Ok c => c | _ => cc_c1 end.
Definition cc_g : list Lift.block := map (LiftFull.skel_block cc_key) (LiftFull.xc_blocks (LiftFull.l_cfg cc_r)).
Definition cc_join : Ir.block := nth 3 (Ir.c_blocks cc_c2) (Ir.Build_block 0 0 [] [] []).
Definition cc_cond : Ir.expr :=
  match last (Ir.b_stmts (nth 0 (Ir.c_blocks cc_c2) (Ir.Build_block 0 0 [] [] []))) (Ir.SLog (Ir.Build_meta 0 0 None) []) with
  | Ir.SIf _ c _ _ => c
  | _ => Ir.ENum 0 Ir.know0
  end.

Lemma chain_example :
  LiftFull.try_lift_impl Ir.KTemplate [] (Some 0%N) (10%N, 12%N) cc_body = Base.Ok cc_r /\
  SsaPre.phi_free cc_c0 = true /\ SsaPre.decls_ok cc_c0 = true /\
  Ssa.into_ssa cc_frontier cc_children cc_c0 = Ssa.SOk cc_c1 /\
  Propagate.propagate 9 9 7 cc_idom cc_c1 = Base.Ok cc_c2 /\
  DegGraph.graph_consistent cc_c2 = true /\ DegGraph.idom_is_dominator_table cc_c2 cc_idom = true /\
  DegJustify.idom_shape cc_c2 cc_idom = true /\
  CtlSpec.can_split cc_g 0 3 /\ CtlSpec.is_join cc_g 3 /\
  DegSem.decides cc_c2 cc_idom cc_join cc_cond.
Proof.
  assert (H1 : LiftFull.try_lift_impl Ir.KTemplate [] (Some 0%N) (10%N, 12%N) cc_body = Base.Ok cc_r) by (vm_compute; reflexivity).
  assert (H2 : SsaPre.phi_free cc_c0 = true) by (vm_compute; reflexivity).
  assert (H3 : SsaPre.decls_ok cc_c0 = true) by (vm_compute; reflexivity).
  assert (H4 : Ssa.into_ssa cc_frontier cc_children cc_c0 = Ssa.SOk cc_c1) by (vm_compute; reflexivity).
  assert (H5 : Propagate.propagate 9 9 7 cc_idom cc_c1 = Base.Ok cc_c2) by (vm_compute; reflexivity).
  assert (H6 : DegGraph.graph_consistent cc_c2 = true) by (vm_compute; reflexivity).
  assert (H7 : DegGraph.idom_is_dominator_table cc_c2 cc_idom = true) by (vm_compute; reflexivity).
  assert (H8 : DegJustify.idom_shape cc_c2 cc_idom = true) by (vm_compute; reflexivity).
  assert (Eg : cc_g = CtlChainExampleGraph.cc_g_lit) by (vm_compute; reflexivity).
  assert (Hc : CtlSpec.can_split cc_g 0 3) by (rewrite Eg; apply CtlChainExampleGraph.cc_g_lit_facts).
  assert (Hj : CtlSpec.is_join cc_g 3) by (rewrite Eg; apply CtlChainExampleGraph.cc_g_lit_facts).
  repeat (split; [assumption|]).
  eapply (CtlChain.chain_split_decides cc_key Ir.KTemplate [] (Some 0%N) (10%N, 12%N) cc_body cc_r cc_frontier cc_children cc_c1
            9 9 7%Z cc_idom cc_c2 H1 H2 H3 H4 H5 H6 H7 H8 3 cc_join 0 _ _ cc_cond _ _);
    [vm_compute; reflexivity|vm_compute; reflexivity|exact Hc|exact Hj|vm_compute; reflexivity].
Qed.
