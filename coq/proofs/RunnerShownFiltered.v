(* Used by C19 (props/C19.v, through Proofs.IncludesRunnerProofs): whatever the
   definitions, the analysis order and the caches, every diagnostic that
   Model.Runner.run_keys puts on stdout or into the SARIF file passed the three
   filters of cli/src/main.rs.  No well-formedness premise: [shown] only ever
   grows by `write_reports`, which filters. *)
From Coq Require Import ZArith List Bool Lia.
Require Import Model.Base Gen.Category Model.Runner Spec.RunnerSpec Proofs.RunnerProofs.
Import ListNotations.

Definition all_pass (o : opts) (user : list Z) (l : list report) : Prop :=
  Forall (fun r => passes_filters o user r = true) l.

Lemma all_pass_app o user l1 l2 : all_pass o user l1 -> all_pass o user l2 -> all_pass o user (l1 ++ l2).
Proof. intros A B. apply Forall_app. split; assumption. Qed.

Lemma all_pass_filter o user l : all_pass o user (filter (passes_filters o user) l).
Proof. apply Forall_forall. intros r Hr. apply filter_In in Hr. tauto. Qed.

Lemma write_reports_all_pass o user rs s :
  all_pass o user (shown s) -> all_pass o user (shown (write_reports o user rs s)).
Proof. intros A. unfold write_reports. simpl. apply all_pass_app; [assumption|apply all_pass_filter]. Qed.

Lemma take_shown ds k s : shown (fst (take ds k s)) = shown s.
Proof.
  unfold take. pose proof (cache_same_writer ds k s) as [A _].
  destruct (cache ds k s) as [s1 ok]. simpl in A. destruct ok; simpl; assumption.
Qed.

Lemma analyze_all_pass ds o user s k :
  all_pass o user (shown s) -> all_pass o user (shown (analyze ds o user s k)).
Proof.
  intros A. unfold analyze.
  pose proof (take_shown ds k (write_message (MAnalyzing k) s)) as T.
  destruct (take ds k (write_message (MAnalyzing k) s)) as [s1 ok]. simpl in T.
  unfold take_reports.
  assert (B : all_pass o user (shown s1)) by (rewrite T; exact A).
  destruct ok.
  - destruct (find_def ds k) as [d|].
    + apply write_reports_all_pass. unfold replace. simpl.
      destruct (lookups_same_writer ds (d_lookups d)
                  (mkState (cfgs s1) (rc_remove k (rcache s1)) (shown s1) (written s1) (cached s1) (log s1)))
        as [E _].
      rewrite E. simpl. exact B.
    + apply write_reports_all_pass. simpl. exact B.
  - apply write_reports_all_pass. simpl. exact B.
Qed.

Lemma fold_analyze_all_pass ds o user order : forall s,
  all_pass o user (shown s) -> all_pass o user (shown (fold_left (analyze ds o user) order s)).
Proof.
  induction order as [|k order IH]; intros s A; simpl; [assumption|].
  apply IH. apply analyze_all_pass. assumption.
Qed.

(* stdout: every displayed report passed level, file and id filter *)
Lemma shown_passes_filters : forall p o order r,
  In r (res_shown (run_keys p o order)) -> passes_filters o (p_user p) r = true.
Proof.
  intros p o order r. unfold run_keys.
  set (s1 := fold_left (analyze (p_defs p) o (p_user p)) order (write_reports o (p_user p) (p_parse p) init)).
  assert (A : all_pass o (p_user p) (shown s1)).
  { apply fold_analyze_all_pass. apply write_reports_all_pass. constructor. }
  destruct (o_sarif o).
  - destruct (0 <? length (filter (passes_filters o (p_user p)) (cached s1)))%nat; simpl;
      intros Hr; exact (proj1 (Forall_forall _ _) A r Hr).
  - simpl. intros Hr. exact (proj1 (Forall_forall _ _) A r Hr).
Qed.

(* SARIF: the same for the results written to the file *)
Lemma sarif_passes_filters : forall p o order results rules r,
  res_sarif (run_keys p o order) = Some (results, rules) -> In r results ->
  passes_filters o (p_user p) r = true.
Proof.
  intros p o order results rules r. unfold run_keys.
  set (s1 := fold_left (analyze (p_defs p) o (p_user p)) order (write_reports o (p_user p) (p_parse p) init)).
  destruct (o_sarif o); simpl; [|discriminate].
  intros E Hr. inversion E; subst. apply filter_In in Hr. tauto.
Qed.

(* filter_by_file is one of the three *)
Lemma passes_filters_file o user r : passes_filters o user r = true -> filter_by_file r user = true.
Proof. unfold passes_filters. rewrite !andb_true_iff. tauto. Qed.

(* filter_by_file, spelled out *)
Lemma filter_by_file_true r user :
  filter_by_file r user = true <-> r_pfiles r = [] \/ exists f, In f (r_pfiles r) /\ In f user.
Proof.
  unfold filter_by_file. destruct (r_pfiles r) as [|f fs] eqn:E.
  - split; auto.
  - rewrite existsb_exists. split.
    + intros (x & Hx & Hm). right. exists x. split; [assumption|]. apply zmem_In. assumption.
    + intros [H|(x & Hx & Hm)]; [discriminate|]. exists x. split; [assumption|]. apply zmem_In. assumption.
Qed.

Lemma filter_by_file_false r user :
  r_pfiles r <> [] -> (forall f, In f (r_pfiles r) -> ~ In f user) -> filter_by_file r user = false.
Proof.
  intros Hne Hall. destruct (filter_by_file r user) eqn:E; [|reflexivity].
  apply filter_by_file_true in E as [E|(f & Hf & Hu)]; [contradiction|]. exfalso. exact (Hall f Hf Hu).
Qed.
